(* C04 -- _remove_unlistened_nets (model: Opt.remove_unlistened_nets) preserves the
   value of every surviving wire on every cycle, in particular of every driven Output. *)
From PyRTL Require Import Netlist.Sem Netlist.WFDefs Gen.ConstFold Pass.Opt Pass.OptCheck
  Pass.OptProofs.
From Coq Require Import ZifyBool.

Local Open Scope Z_scope.

Lemma kind_eqb_eq a b : kind_eqb a b = true -> a = b.
Proof.
  destruct a as [| | |x|[x|]], b as [| | |y|[y|]]; simpl; intros H; try discriminate;
    try reflexivity; f_equal; try f_equal; lia.
Qed.

Lemma owire_eqb_eq a b : owire_eqb a b = true -> a = b.
Proof.
  destruct a as [[n1 w1 k1]|], b as [[n2 w2 k2]|]; simpl; intros H; try discriminate;
    [|reflexivity].
  apply andb_true_iff in H. destruct H as [H Hk]. apply andb_true_iff in H. destruct H as [Hn Hw].
  apply kind_eqb_eq in Hk. f_equal. f_equal; [lia|lia|assumption].
Qed.

Section Unlistened.
Variable nl : netlist.
Variable keep : net -> bool.
Variable nl' : netlist.

Hypothesis Hnets : nets nl' = filter keep (nets nl).
Hypothesis Hmems : mems nl' = mems nl.
Hypothesis Hok : dead_pass_ok nl nl' keep = true.

Definition dead (w : wid) : Prop := same_wire nl nl' keep w = false.

Lemma not_dead w : ~ dead w <-> same_wire nl nl' keep w = true.
Proof. unfold dead. destruct (same_wire nl nl' keep w); split; intros; congruence. Qed.

Lemma ok_parts :
  forallb (fun n => keep n || op_has_dest (nop n)) (nets nl) = true
  /\ same_wire nl nl' keep 0 = true
  /\ forallb (fun n => if keep n
                       then forallb (same_wire nl nl' keep) (nargs n)
                            && (if op_has_dest (nop n) then same_wire nl nl' keep (ndest n) else true)
                       else true) (nets nl) = true.
Proof.
  unfold dead_pass_ok in Hok. apply andb_true_iff in Hok. destruct Hok as [H H3].
  apply andb_true_iff in H. destruct H as [H1 H2]. auto.
Qed.

Lemma Hwires : forall w, ~ dead w -> find_wire (wires nl') w = find_wire (wires nl) w.
Proof.
  intros w Hw. apply not_dead in Hw. unfold same_wire in Hw.
  apply andb_true_iff in Hw. destruct Hw as [_ Hw]. apply owire_eqb_eq. assumption.
Qed.

Lemma Hzero : ~ dead 0.
Proof. apply not_dead. apply ok_parts. Qed.

Lemma Hkept : forall n, In n (nets nl) -> keep n = true ->
  (forall a, In a (nargs n) -> ~ dead a) /\ (op_has_dest (nop n) = true -> ~ dead (ndest n)).
Proof.
  intros n Hin Hk. destruct ok_parts as [_ [_ H3]]. rewrite forallb_forall in H3.
  specialize (H3 n Hin). rewrite Hk in H3. apply andb_true_iff in H3. destruct H3 as [Ha Hd].
  split.
  - intros a Hina. apply not_dead. rewrite forallb_forall in Ha. apply Ha. assumption.
  - intros Hhd. rewrite Hhd in Hd. apply not_dead. assumption.
Qed.

Lemma Hdropped : forall n, In n (nets nl) -> keep n = false ->
  op_has_dest (nop n) = true /\ dead (ndest n).
Proof.
  intros n Hin Hk. destruct ok_parts as [H1 _]. rewrite forallb_forall in H1.
  specialize (H1 n Hin). rewrite Hk in H1. simpl in H1. split; [assumption|].
  unfold dead, same_wire.
  assert (Hm : mem_in (ndest n) (map ndest (filter (fun n0 => negb (keep n0)) (nets nl))) = true).
  { unfold mem_in. apply existsb_exists. exists (ndest n). split; [|apply Z.eqb_refl].
    apply in_map. apply filter_In. split; [assumption|]. rewrite Hk. reflexivity. }
  rewrite Hm. reflexivity.
Qed.

Theorem dropping_preserves dflt : forall inss st st',
  st_agree dead st st' ->
  Forall2 (agree dead) (fst (run nl dflt st inss)) (fst (run nl' dflt st' inss)).
Proof.
  apply (dead_run nl nl' keep dead dflt Hnets Hmems Hwires Hzero Hkept Hdropped).
Qed.

(* a driven Output is never dead when the kept set contains every net that
   drives an Output *)
Lemma output_not_dead o n :
  (forall m, In m (nets nl) -> op_has_dest (nop m) = true -> is_output nl (ndest m) = true ->
             keep m = true) ->
  In n (nets nl) -> op_has_dest (nop n) = true -> ndest n = o -> is_output nl o = true ->
  ~ dead o.
Proof.
  intros Hseed Hin Hhd Hd Ho. subst o.
  apply (proj2 (Hkept n Hin (Hseed n Hin Hhd Ho))). assumption.
Qed.

End Unlistened.

(* the model pass *)
Definition remove_unlistened_preserves_stmt : Prop :=
  forall nl dflt, unlistened_ok nl = true ->
  let nl' := remove_unlistened_nets nl in
  let D := dead nl (listened_net nl (listened_wires nl)) nl' in
  (* Outputs driven by a net survive with their declaration *)
  (forall o n, In n (nets nl) -> op_has_dest (nop n) = true -> ndest n = o ->
               is_output nl o = true -> ~ D o)
  /\ forall inss st st', st_agree D st st' ->
       Forall2 (agree D) (fst (run nl dflt st inss)) (fst (run nl' dflt st' inss)).

Theorem remove_unlistened_preserves : remove_unlistened_preserves_stmt.
Proof.
  intros nl dflt Hok nl' D. split.
  - intros o n Hin Hhd Hd Ho.
    apply (output_not_dead nl (listened_net nl (listened_wires nl)) nl' Hok o n); try assumption.
    intros m Hm Hmd Hmo. unfold listened_net, seed_net. rewrite Hmo.
    rewrite orb_true_r. reflexivity.
  - apply (dropping_preserves nl (listened_net nl (listened_wires nl)) nl'); try reflexivity.
    exact Hok.
Qed.
