(* C09 -- the generic soundness lemma for net_transform-style passes:
   replacing each net by a sub-netlist that computes the same value on the old
   destination from the same arguments, writing only fresh wires, preserves the
   valuation of every old wire under Sem.comb / Sem.step / Sem.run, for every
   state and input sequence. *)
From PyRTL Require Import Pass.Lower.
From Coq Require Import ZifyBool.

(* two valuations agree on the old wires (identifiers below B) *)
Definition agree (B : Z) (v v' : wid -> Z) : Prop := forall w, w < B -> v w = v' w.

Definition st_eq (st st' : state) : Prop :=
  (forall r, sregs st r = sregs st' r) /\ (forall m a, smems st m a = smems st' m a).

Definition net_bounded (B : Z) (n : net) : Prop :=
  ndest n < B /\ forall a, In a (nargs n) -> a < B.

(* nl' = nl + fresh wires: same memories, same widths on old wires *)
Definition extends (B : Z) (nl nl' : netlist) : Prop :=
  mems nl' = mems nl /\ forall w, w < B -> width_of nl' w = width_of nl w.

Definition declares (nl' : netlist) (ws : list wire) : Prop :=
  forall x, In x ws -> width_of nl' (wname x) = wwidth x.

(* what a rule must satisfy, net by net ([P] = the well-formedness the rule needs) *)
Definition rule_ok (P : net -> Prop) (rl : rule) (nl : netlist) (B : Z) : Prop :=
  forall next n rn rw, B <= next -> 0 < B -> net_bounded B n -> P n ->
    rl nl next n = Some (rn, rw) ->
    map wname rw = zrange next (length rw)
    /\ is_comb (nop n) = true
    /\ Forall (fun m => is_comb (nop m) = true) rn
    /\ forall nl' st v v', extends B nl nl' -> declares nl' rw -> agree B v v' ->
         agree B (exec_spec nl st v n) (fold_left (exec_spec nl' st) rn v').

(* ---------- small facts ---------- *)
Lemma agree_refl B v : agree B v v.
Proof. intros w _. reflexivity. Qed.

Lemma agree_upd B v v' d x : agree B v v' -> agree B (upd v d x) (upd v' d x).
Proof. intros H w Hw. unfold upd. destruct (w =? d); auto. Qed.

Lemma agree_upd_fresh B v v' d x : agree B v v' -> B <= d -> agree B v (upd v' d x).
Proof. intros H Hd w Hw. rewrite upd_other by lia. auto. Qed.

Lemma agree_trans B v1 v2 v3 : agree B v1 v2 -> agree B v2 v3 -> agree B v1 v3.
Proof. intros H1 H2 w Hw. rewrite H1, H2; auto. Qed.

Lemma arg_bounded B n i : 0 < B -> net_bounded B n -> arg n i < B.
Proof.
  intros H0 [_ Ha]. unfold arg. destruct (nth_in_or_default i (nargs n) 0) as [Hin|He].
  - apply Ha. exact Hin.
  - rewrite He. exact H0.
Qed.

Lemma argvals_agree B nl nl' v v' n :
  extends B nl nl' -> agree B v v' -> net_bounded B n -> argvals nl v n = argvals nl' v' n.
Proof.
  intros [_ Hw] Hv [_ Ha]. unfold argvals. apply map_ext_in. intros a Hin.
  rewrite Hv, Hw by auto. reflexivity.
Qed.

Lemma mem_read_ext nl nl' st st' m a :
  mems nl' = mems nl -> st_eq st st' -> mem_read nl st m a = mem_read nl' st' m a.
Proof.
  intros Hm [_ Hs]. unfold mem_read. rewrite Hm.
  destruct (find_mem (mems nl) m) as [mm|]; [destruct (mrom mm)|]; auto.
Qed.

(* an unchanged net computes the same on old wires in the extended netlist *)
Lemma exec_spec_agree B nl nl' st st' v v' n :
  0 < B -> extends B nl nl' -> st_eq st st' -> agree B v v' -> net_bounded B n ->
  agree B (exec_spec nl st v n) (exec_spec nl' st' v' n).
Proof.
  intros H0 Hext Hst Hv Hb. pose proof Hext as [Hm Hw]. pose proof Hb as [Hd Ha].
  unfold exec_spec.
  rewrite <- (argvals_agree B nl nl' v v' n Hext Hv Hb).
  rewrite (Hw (ndest n) Hd).
  destruct (nop n); try assumption;
    try (destruct (op_spec _ (argvals nl v n)); [apply agree_upd|]; assumption).
  rewrite (Hv (arg n 0)) by (apply arg_bounded; assumption).
  rewrite (mem_read_ext nl nl' st st' m (v' (arg n 0)) Hm Hst).
  apply agree_upd. assumption.
Qed.

Lemma exec_spec_st_ext nl st st' v n :
  st_eq st st' -> forall w, exec_spec nl st v n w = exec_spec nl st' v n w.
Proof.
  intros Hst w. unfold exec_spec. destruct (nop n); try reflexivity.
  rewrite (mem_read_ext nl nl st st' m (v (arg n 0)) eq_refl Hst). reflexivity.
Qed.

(* exec_spec only looks at the valuation through extensional equality *)
Lemma exec_spec_ext nl st v1 v2 n :
  (forall w, v1 w = v2 w) -> forall w, exec_spec nl st v1 n w = exec_spec nl st v2 n w.
Proof.
  intros H w. unfold exec_spec.
  assert (Ha : argvals nl v1 n = argvals nl v2 n).
  { unfold argvals. apply map_ext. intro a. rewrite H. reflexivity. }
  rewrite Ha, (H (arg n 0)).
  destruct (nop n); try apply H;
    try (destruct (op_spec _ (argvals nl v2 n)); [|apply H]);
    unfold upd; destruct (w =? ndest n); auto.
Qed.

Lemma fold_exec_ext nl st ns : forall v1 v2,
  (forall w, v1 w = v2 w) ->
  forall w, fold_left (exec_spec nl st) ns v1 w = fold_left (exec_spec nl st) ns v2 w.
Proof.
  induction ns as [|n r IH]; intros v1 v2 H w; cbn [fold_left]; [apply H|].
  apply IH. apply exec_spec_ext. exact H.
Qed.

Lemma fold_exec_st_ext nl st st' ns : st_eq st st' -> forall v w,
  fold_left (exec_spec nl st) ns v w = fold_left (exec_spec nl st') ns v w.
Proof.
  intros Hst. induction ns as [|n r IH]; intros v w; cbn [fold_left]; [reflexivity|].
  rewrite IH. apply fold_exec_ext. apply exec_spec_st_ext. exact Hst.
Qed.

(* ---------- the combinational part ---------- *)
Lemma declares_app nl' l1 l2 : declares nl' (l1 ++ l2) -> declares nl' l1 /\ declares nl' l2.
Proof. intro H. split; intros x Hx; apply H; apply in_or_app; auto. Qed.

Theorem transform_comb_sound P rl nl B :
  rule_ok P rl nl B -> 0 < B ->
  forall ns next nl' st st' v v',
    B <= next -> Forall (net_bounded B) ns -> Forall P ns ->
    extends B nl nl' -> declares nl' (snd (transform rl nl next ns)) ->
    st_eq st st' -> agree B v v' ->
    agree B (fold_left (exec_spec nl st) ns v)
            (fold_left (exec_spec nl' st') (fst (transform rl nl next ns)) v').
Proof.
  intros Hrule H0. induction ns as [|n r IH]; intros next nl' st st' v v' Hnext Hb HP Hext Hdecl Hst Hv.
  - cbn. exact Hv.
  - inversion Hb as [|? ? Hbn Hbr]; subst. inversion HP as [|? ? HPn HPr]; subst.
    cbn [transform] in *. destruct (rl nl next n) as [[rn rw]|] eqn:E.
    + cbn [fst snd] in *. apply declares_app in Hdecl. destruct Hdecl as [Hd1 Hd2].
      destruct (Hrule next n rn rw Hnext H0 Hbn HPn E) as (_ & _ & _ & Hsem).
      rewrite fold_left_app. cbn [fold_left].
      apply IH; try assumption; [lia|].
      intros w Hw. rewrite (Hsem nl' st v v' Hext Hd1 Hv w Hw).
      apply fold_exec_st_ext. exact Hst.
    + cbn [fst snd] in *. cbn [fold_left].
      apply IH; try assumption.
      apply exec_spec_agree; assumption.
Qed.

(* ---------- registers and memory writes ---------- *)
Lemma regnext_comb nl v rg n : is_comb (nop n) = true -> regnext_spec nl v rg n = rg.
Proof. unfold regnext_spec. destruct (nop n); cbn; intros; try reflexivity; discriminate. Qed.

Lemma write_comb v ms n : is_comb (nop n) = true -> write_spec v ms n = ms.
Proof. unfold write_spec. destruct (nop n); cbn; intros; try reflexivity; discriminate. Qed.

Lemma fold_regnext_comb nl v ns : Forall (fun m => is_comb (nop m) = true) ns ->
  forall rg, fold_left (regnext_spec nl v) ns rg = rg.
Proof.
  induction 1 as [|n r Hn _ IH]; intro rg; cbn [fold_left]; [reflexivity|].
  rewrite regnext_comb by assumption. apply IH.
Qed.

Lemma fold_write_comb v ns : Forall (fun m => is_comb (nop m) = true) ns ->
  forall ms, fold_left (write_spec v) ns ms = ms.
Proof.
  induction 1 as [|n r Hn _ IH]; intro ms; cbn [fold_left]; [reflexivity|].
  rewrite write_comb by assumption. apply IH.
Qed.

Lemma regnext_agree B nl nl' v v' rg rg' n :
  0 < B -> extends B nl nl' -> agree B v v' -> net_bounded B n ->
  (forall r, rg r = rg' r) ->
  forall r, regnext_spec nl v rg n r = regnext_spec nl' v' rg' n r.
Proof.
  intros H0 [_ Hw] Hv Hb Hrg r. unfold regnext_spec. destruct (nop n); try apply Hrg.
  rewrite (Hv (arg n 0)) by (apply arg_bounded; assumption).
  rewrite (Hw (ndest n)) by apply (proj1 Hb).
  unfold upd. destruct (r =? ndest n); auto.
Qed.

Lemma write_agree B v v' ms ms' n :
  0 < B -> agree B v v' -> net_bounded B n ->
  (forall m a, ms m a = ms' m a) ->
  forall m a, write_spec v ms n m a = write_spec v' ms' n m a.
Proof.
  intros H0 Hv Hb Hms m a. unfold write_spec. destruct (nop n); try apply Hms.
  rewrite !(Hv (arg n _)) by (apply arg_bounded; assumption).
  destruct (v' (arg n 2) =? 0); [apply Hms|].
  unfold upd. destruct (m =? m0); [|apply Hms].
  destruct (a =? v' (arg n 0)); [reflexivity|apply Hms].
Qed.

Theorem transform_regs_sound P rl nl B :
  rule_ok P rl nl B -> 0 < B ->
  forall ns next nl' v v' rg rg',
    B <= next -> Forall (net_bounded B) ns -> Forall P ns ->
    extends B nl nl' -> agree B v v' -> (forall r, rg r = rg' r) ->
    forall r, fold_left (regnext_spec nl v) ns rg r
              = fold_left (regnext_spec nl' v') (fst (transform rl nl next ns)) rg' r.
Proof.
  intros Hrule H0. induction ns as [|n rest IH]; intros next nl' v v' rg rg' Hnext Hb HP Hext Hv Hrg r.
  - cbn. apply Hrg.
  - inversion Hb as [|? ? Hbn Hbr]; subst. inversion HP as [|? ? HPn HPr]; subst.
    cbn [transform]. destruct (rl nl next n) as [[rn rw]|] eqn:E.
    + cbn [fst]. destruct (Hrule next n rn rw Hnext H0 Hbn HPn E) as (_ & Hc & Hcs & _).
      rewrite fold_left_app. cbn [fold_left].
      rewrite (fold_regnext_comb nl' v' rn Hcs), (regnext_comb nl v rg n Hc).
      apply IH; try assumption. lia.
    + cbn [fst fold_left]. apply IH; try assumption.
      apply (regnext_agree B); assumption.
Qed.

Theorem transform_mems_sound P rl nl B :
  rule_ok P rl nl B -> 0 < B ->
  forall ns next v v' ms ms',
    B <= next -> Forall (net_bounded B) ns -> Forall P ns ->
    agree B v v' -> (forall m a, ms m a = ms' m a) ->
    forall m a, fold_left (write_spec v) ns ms m a
                = fold_left (write_spec v') (fst (transform rl nl next ns)) ms' m a.
Proof.
  intros Hrule H0. induction ns as [|n rest IH]; intros next v v' ms ms' Hnext Hb HP Hv Hms m a.
  - cbn. apply Hms.
  - inversion Hb as [|? ? Hbn Hbr]; subst. inversion HP as [|? ? HPn HPr]; subst.
    cbn [transform]. destruct (rl nl next n) as [[rn rw]|] eqn:E.
    + cbn [fst]. destruct (Hrule next n rn rw Hnext H0 Hbn HPn E) as (_ & Hc & Hcs & _).
      rewrite fold_left_app. cbn [fold_left].
      rewrite (fold_write_comb v' rn Hcs), (write_comb v ms n Hc).
      apply IH; try assumption. lia.
    + cbn [fst fold_left]. apply IH; try assumption.
      apply (write_agree B); assumption.
Qed.

(* ---------- the fresh wires of a transform ---------- *)
Lemma zrange_length s k : length (zrange s k) = k.
Proof. revert s. induction k; intro s; cbn; auto. Qed.

Lemma zrange_app s k1 k2 : zrange s (k1 + k2) = zrange s k1 ++ zrange (s + Z.of_nat k1) k2.
Proof.
  revert s. induction k1 as [|k IH]; intro s.
  - cbn. rewrite Z.add_0_r. reflexivity.
  - cbn [Nat.add zrange app]. rewrite IH. do 3 f_equal. lia.
Qed.

Lemma zrange_in s k x : In x (zrange s k) <-> s <= x < s + Z.of_nat k.
Proof.
  revert s. induction k as [|k IH]; intro s.
  - cbn. lia.
  - cbn [zrange In]. rewrite IH. lia.
Qed.

Lemma zrange_nodup s k : NoDup (zrange s k).
Proof.
  revert s. induction k as [|k IH]; intro s; cbn [zrange]; constructor; [|apply IH].
  rewrite zrange_in. lia.
Qed.

Lemma transform_names P rl nl B : rule_ok P rl nl B -> 0 < B ->
  forall ns next, B <= next -> Forall (net_bounded B) ns -> Forall P ns ->
  map wname (snd (transform rl nl next ns))
  = zrange next (length (snd (transform rl nl next ns))).
Proof.
  intros Hrule H0. induction ns as [|n r IH]; intros next Hnext Hb HP; [reflexivity|].
  inversion Hb as [|? ? Hbn Hbr]; subst. inversion HP as [|? ? HPn HPr]; subst.
  cbn [transform]. destruct (rl nl next n) as [[rn rw]|] eqn:E; cbn [snd].
  - destruct (Hrule next n rn rw Hnext H0 Hbn HPn E) as (Hnm & _).
    rewrite map_app, app_length, zrange_app, Hnm. f_equal.
    apply IH; try assumption. lia.
  - apply IH; assumption.
Qed.

Lemma find_wire_app_r l1 l2 w : (forall x, In x l1 -> wname x <> w) ->
  find_wire (l1 ++ l2) w = find_wire l2 w.
Proof.
  induction l1 as [|y r IH]; intro H; [reflexivity|].
  cbn [app find_wire]. destruct (wname y =? w) eqn:E.
  - exfalso. apply (H y); [left; reflexivity|lia].
  - apply IH. intros x Hx. apply H. right. exact Hx.
Qed.

Lemma find_wire_app_l l1 l2 w : (forall x, In x l2 -> wname x <> w) ->
  find_wire (l1 ++ l2) w = find_wire l1 w.
Proof.
  intro H. induction l1 as [|y r IH]; cbn [app find_wire].
  - induction l2 as [|z r2 IH2]; [reflexivity|]. cbn [find_wire].
    destruct (wname z =? w) eqn:E.
    + exfalso. apply (H z); [left; reflexivity|lia].
    + apply IH2. intros x Hx. apply H. right. exact Hx.
  - destruct (wname y =? w); [reflexivity|exact IH].
Qed.

Lemma find_wire_nodup ws x : NoDup (map wname ws) -> In x ws -> find_wire ws (wname x) = Some x.
Proof.
  induction ws as [|y r IH]; intros Hnd Hin; [destruct Hin|].
  cbn [map] in Hnd. inversion Hnd as [|? ? Hni Hnd']; subst.
  cbn [find_wire]. destruct Hin as [->|Hin].
  - rewrite Z.eqb_refl. reflexivity.
  - destruct (wname y =? wname x) eqn:E.
    + exfalso. apply Hni. replace (wname y) with (wname x) by lia. apply in_map. exact Hin.
    + apply IH; assumption.
Qed.

(* ---------- bounds given by [fresh] ---------- *)
Lemma max_list_ge l x : In x l -> x <= max_list l.
Proof.
  induction l as [|y r IH]; intro H; [destruct H|].
  cbn [max_list fold_right]. destruct H as [->|H]; [lia|]. specialize (IH H). unfold max_list in IH. lia.
Qed.

Lemma max_list_nonneg l : 0 <= max_list l.
Proof. induction l as [|y r IH]; cbn; [lia|]. unfold max_list in IH. lia. Qed.

Lemma fresh_pos nl : 0 < fresh nl.
Proof. unfold fresh. pose proof (max_list_nonneg (map wname (wires nl))). lia. Qed.

Lemma fresh_wire nl x : In x (wires nl) -> wname x < fresh nl.
Proof.
  intro H. unfold fresh.
  pose proof (max_list_ge (map wname (wires nl)) (wname x) (in_map wname _ _ H)). lia.
Qed.

Lemma fresh_nets nl : Forall (net_bounded (fresh nl)) (nets nl).
Proof.
  apply Forall_forall. intros n Hn.
  assert (Hall : forall i, In i (net_ids n) -> i < fresh nl).
  { intros i Hi. unfold fresh.
    assert (In i (flat_map net_ids (nets nl))) by (apply in_flat_map; exists n; auto).
    pose proof (max_list_ge _ _ H). lia. }
  split; [apply Hall; left; reflexivity|]. intros a Ha. apply Hall. right. exact Ha.
Qed.

(* ---------- one clock cycle, and every input sequence ---------- *)
Section Run.
Variable P : net -> Prop.
Variable rl : rule.
Variable nl : netlist.
Variable B next : Z.
Hypothesis Hrule : rule_ok P rl nl B.
Hypothesis HB0 : 0 < B.
Hypothesis Hnext : B <= next.
Hypothesis Hwires : forall x, In x (wires nl) -> wname x < B.
Hypothesis Hnets : Forall (net_bounded B) (nets nl).
Hypothesis HP : Forall P (nets nl).

Let nl' := apply_rule_at next rl nl.

Lemma new_names_ge x : In x (snd (transform rl nl next (nets nl))) -> next <= wname x.
Proof.
  intro H. pose proof (transform_names P rl nl B Hrule HB0 (nets nl) next Hnext Hnets HP) as Hn.
  assert (Hin : In (wname x) (map wname (snd (transform rl nl next (nets nl))))) by (apply in_map; exact H).
  rewrite Hn in Hin. apply zrange_in in Hin. lia.
Qed.

Lemma find_wire_old w : w < B -> find_wire (wires nl') w = find_wire (wires nl) w.
Proof.
  intro Hw. unfold nl', apply_rule_at. cbn [wires]. apply find_wire_app_l.
  intros x Hx. pose proof (new_names_ge x Hx). lia.
Qed.

Lemma nl'_extends : extends B nl nl'.
Proof.
  split; [reflexivity|]. intros w Hw. unfold width_of. rewrite find_wire_old by exact Hw. reflexivity.
Qed.

Lemma nl'_declares : declares nl' (snd (transform rl nl next (nets nl))).
Proof.
  intros x Hx. unfold width_of, nl', apply_rule_at. cbn [wires].
  rewrite find_wire_app_r.
  - rewrite find_wire_nodup; [reflexivity| |exact Hx].
    rewrite (transform_names P rl nl B Hrule HB0 (nets nl) next Hnext Hnets HP). apply zrange_nodup.
  - intros y Hy. pose proof (Hwires y Hy). pose proof (new_names_ge x Hx). lia.
Qed.

Lemma base_val_agree dflt st st' ins : st_eq st st' ->
  agree B (base_val nl dflt st ins) (base_val nl' dflt st' ins).
Proof.
  intros [Hr _] w Hw. unfold base_val. rewrite find_wire_old by exact Hw.
  destruct (find_wire (wires nl) w) as [x|]; [|reflexivity].
  destruct (wkind x); auto.
Qed.

Lemma step_sound dflt st st' ins : st_eq st st' ->
  agree B (fst (step nl dflt st ins)) (fst (step nl' dflt st' ins))
  /\ st_eq (snd (step nl dflt st ins)) (snd (step nl' dflt st' ins)).
Proof.
  intro Hst. unfold step. cbn [fst snd].
  assert (Hv : agree B (comb nl st (base_val nl dflt st ins)) (comb nl' st' (base_val nl' dflt st' ins))).
  { unfold comb. change (nets nl') with (fst (transform rl nl next (nets nl))).
    apply (transform_comb_sound P rl nl B Hrule HB0); try assumption.
    - apply nl'_extends.
    - apply nl'_declares.
    - apply base_val_agree. exact Hst. }
  split; [exact Hv|]. destruct Hst as [Hr Hm]. split; cbn [sregs smems].
  - intro r. change (nets nl') with (fst (transform rl nl next (nets nl))).
    apply (transform_regs_sound P rl nl B Hrule HB0); try assumption. apply nl'_extends.
  - intros m a. change (nets nl') with (fst (transform rl nl next (nets nl))).
    apply (transform_mems_sound P rl nl B Hrule HB0); assumption.
Qed.

Theorem run_sound dflt inss : forall st st', st_eq st st' ->
  Forall2 (agree B) (fst (run nl dflt st inss)) (fst (run nl' dflt st' inss))
  /\ st_eq (snd (run nl dflt st inss)) (snd (run nl' dflt st' inss)).
Proof.
  induction inss as [|ins rest IH]; intros st st' Hst.
  - cbn. split; [constructor|exact Hst].
  - cbn [run]. destruct (step_sound dflt st st' ins Hst) as [Hv Hs].
    destruct (step nl dflt st ins) as [v s1]. destruct (step nl' dflt st' ins) as [v' s1'].
    cbn [fst snd] in Hv, Hs. specialize (IH s1 s1' Hs).
    destruct (run nl dflt s1 rest) as [vs s2]. destruct (run nl' dflt s1' rest) as [vs' s2'].
    cbn [fst snd] in *. destruct IH as [IH1 IH2]. split; [constructor; assumption|assumption].
Qed.
End Run.

Lemma st_eq_refl st : st_eq st st.
Proof. split; reflexivity. Qed.

(* THE GENERIC LEMMA, as used by Props/C09.v: a rule that is locally sound on
   every net of a netlist ([rule_ok]) yields, for every state and every input
   sequence, cycle-by-cycle the same value on every old wire (in particular on
   every Output) and the same registers and memories. *)
Theorem local_rewrite_sound P rl nl :
  rule_ok P rl nl (fresh nl) -> Forall P (nets nl) ->
  forall dflt st inss,
    Forall2 (agree (fresh nl)) (fst (run nl dflt st inss))
                               (fst (run (apply_rule rl nl) dflt st inss))
    /\ st_eq (snd (run nl dflt st inss)) (snd (run (apply_rule rl nl) dflt st inss)).
Proof.
  intros Hrule HP dflt st inss. unfold apply_rule.
  apply (run_sound P rl nl (fresh nl) (fresh nl) Hrule (fresh_pos nl) (Z.le_refl _)
           (fresh_wire nl) (fresh_nets nl) HP dflt inss st st (st_eq_refl st)).
Qed.
