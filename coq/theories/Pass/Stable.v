(* C09 -- the valuation computed by Sem.comb on a sequentially well-ordered
   netlist is THE valuation that every combinational net leaves unchanged
   ("solves the net equations") and that extends the cycle-start valuation:
   existence (comb_stable) and uniqueness (stable_unique).  Used to show that
   the graph-edit passes (direct_connect_outputs, two_way_fanout), which move or
   add nets instead of rewriting them in place, preserve behaviour. *)
From PyRTL Require Import Pass.Lower Pass.RewriteSound.
From PyRTL Require Import Pass.LowerHyps.
From Coq Require Import ZifyBool.

Definition stable (nl : netlist) (st : state) (ns : list net) (v : wid -> Z) : Prop :=
  forall n, In n ns -> is_comb (nop n) = true -> forall w, exec_spec nl st v n w = v w.

(* the value a combinational net assigns to its destination *)
Definition net_val (nl : netlist) (st : state) (v : wid -> Z) (n : net) : Z :=
  exec_spec nl st v n (ndest n).

Lemma mem_in_iff w l : mem_in w l = true <-> In w l.
Proof.
  unfold mem_in. rewrite existsb_exists. split.
  - intros (y & Hy & E). replace w with y by lia. exact Hy.
  - intro H. exists w. split; [exact H|lia].
Qed.

Lemma mem_in_false w l : mem_in w l = false <-> ~ In w l.
Proof. rewrite <- mem_in_iff. destruct (mem_in w l); split; intro H; try discriminate; auto. exfalso; apply H; reflexivity. Qed.

Lemma op_spec_arity o k (a : list (Z * Z)) :
  is_comb o = true -> arity_ok o k = true -> length a = k ->
  match o with OpMemRd _ => True | _ => exists r, op_spec o a = Some r end.
Proof.
  intros Hc Ha Hl. destruct o; try exact I; try discriminate; cbn in Ha;
    try (destruct a as [|[x wx] [|[y wy] [|[z wz] [|? ?]]]]; cbn in Hl; try (exfalso; lia); cbn; eexists; reflexivity).
Qed.

(* a combinational net of legal arity overwrites exactly its destination *)
Lemma exec_writes nl st v n : is_comb (nop n) = true -> arity_ok (nop n) (length (nargs n)) = true ->
  forall w, exec_spec nl st v n w = upd v (ndest n) (net_val nl st v n) w.
Proof.
  intros Hc Ha w. unfold net_val.
  pose proof (op_spec_arity (nop n) (length (nargs n)) (argvals nl v n) Hc Ha) as Hs.
  assert (Hl : length (argvals nl v n) = length (nargs n)) by (unfold argvals; apply map_length).
  specialize (Hs Hl). unfold exec_spec in *.
  destruct (nop n); try discriminate;
    try (destruct Hs as [r Hr]; rewrite Hr; rewrite upd_same; reflexivity).
  rewrite upd_same. reflexivity.
Qed.

Lemma argvals_ext nl v1 v2 n : (forall a, In a (nargs n) -> v1 a = v2 a) -> argvals nl v1 n = argvals nl v2 n.
Proof. intro H. unfold argvals. apply map_ext_in. intros a Ha. rewrite (H a Ha). reflexivity. Qed.

Lemma net_val_ext nl st v1 v2 n : is_comb (nop n) = true -> arity_ok (nop n) (length (nargs n)) = true ->
  (forall a, In a (nargs n) -> v1 a = v2 a) -> net_val nl st v1 n = net_val nl st v2 n.
Proof.
  intros Hc Ha H. unfold net_val, exec_spec. rewrite (argvals_ext nl v1 v2 n H).
  pose proof (op_spec_arity (nop n) (length (nargs n)) (argvals nl v2 n) Hc Ha) as Hs.
  assert (Hl : length (argvals nl v2 n) = length (nargs n)) by (unfold argvals; apply map_length).
  specialize (Hs Hl).
  destruct (nop n) eqn:Eo; try discriminate;
    try (destruct Hs as [r Hr]; rewrite Hr, !upd_same; reflexivity).
  (* memory read *)
  rewrite !upd_same. cbn in Ha. destruct (nargs n) as [|a0 [|? ?]] eqn:En; try discriminate.
  unfold arg. rewrite En. cbn [nth]. rewrite (H a0 (or_introl eq_refl)). reflexivity.
Qed.

Lemma seq_okb_cons n r : seq_okb (n :: r) = true ->
  seq_okb r = true
  /\ (is_comb (nop n) = true ->
      arity_ok (nop n) (length (nargs n)) = true
      /\ ~ In (ndest n) (cdests r)
      /\ forall a, In a (nargs n) -> a <> ndest n /\ ~ In a (cdests r)).
Proof.
  cbn [seq_okb]. intro H. apply andb_true_iff in H. destruct H as [H1 H2]. split; [exact H2|].
  intro Hc. rewrite Hc in H1. rewrite !andb_true_iff in H1. destruct H1 as [[Ha Hd] Hargs].
  split; [exact Ha|]. split.
  - apply mem_in_false. destruct (mem_in (ndest n) (cdests r)); [discriminate|reflexivity].
  - intros a Hin. rewrite forallb_forall in Hargs. specialize (Hargs a Hin).
    assert (Hf : mem_in a (cdests (n :: r)) = false) by (destruct (mem_in a (cdests (n :: r))); [discriminate|reflexivity]).
    apply mem_in_false in Hf. unfold cdests in Hf. cbn [filter] in Hf. rewrite Hc in Hf. cbn [map] in Hf.
    split; intro Hx; apply Hf; [left; symmetry; exact Hx|right; exact Hx].
Qed.

(* ---------- existence: comb is stable and leaves non-destinations alone ---------- *)
Theorem comb_stable nl st : forall ns v0, seq_okb ns = true ->
  let v := fold_left (exec_spec nl st) ns v0 in
  stable nl st ns v /\ (forall w, ~ In w (cdests ns) -> v w = v0 w).
Proof.
  induction ns as [|n r IH]; intros v0 Hok; cbn [fold_left].
  - split; [intros n []|auto].
  - destruct (seq_okb_cons n r Hok) as [Hr Hn].
    destruct (IH (exec_spec nl st v0 n) Hr) as [Hst Hfr]. cbn zeta in *.
    set (v1 := exec_spec nl st v0 n) in *. set (v := fold_left (exec_spec nl st) r v1) in *.
    split.
    + intros m [<-|Hm] Hc w; [|apply Hst; assumption].
      destruct (Hn Hc) as (Ha & Hd & Hargs).
      rewrite (exec_writes nl st v n Hc Ha).
      assert (Hval : net_val nl st v n = net_val nl st v0 n).
      { apply net_val_ext; try assumption. intros a Hin. destruct (Hargs a Hin) as [Hne Hnr].
        rewrite (Hfr a Hnr). unfold v1. rewrite (exec_writes nl st v0 n Hc Ha). apply upd_other. exact Hne. }
      unfold upd. destruct (w =? ndest n) eqn:E; [|reflexivity].
      assert (w = ndest n) by lia. subst w. rewrite Hval, (Hfr _ Hd). unfold v1.
      rewrite (exec_writes nl st v0 n Hc Ha). rewrite upd_same. reflexivity.
    + intros w Hw. destruct (is_comb (nop n)) eqn:Hc.
      * assert (Hw2 : ~ In w (cdests r) /\ w <> ndest n).
        { unfold cdests in Hw. cbn [filter] in Hw. rewrite Hc in Hw. cbn [map] in Hw. split; intro; apply Hw; [right|left]; auto. }
        destruct Hw2 as [Hw2 Hw3]. rewrite (Hfr w Hw2). unfold v1.
        destruct (Hn eq_refl) as (Ha & _). rewrite (exec_writes nl st v0 n Hc Ha). apply upd_other. exact Hw3.
      * assert (Hw2 : ~ In w (cdests r)).
        { unfold cdests in Hw. cbn [filter] in Hw. rewrite Hc in Hw. exact Hw. }
        rewrite (Hfr w Hw2). unfold v1, exec_spec. destruct (nop n); try discriminate; reflexivity.
Qed.

(* ---------- uniqueness ---------- *)
Definition cargs (ns : list net) : list wid :=
  flat_map nargs (filter (fun n => is_comb (nop n)) ns).

Theorem stable_unique nl st : forall ns v1 v2, seq_okb ns = true ->
  stable nl st ns v1 -> stable nl st ns v2 ->
  (forall w, ~ In w (cdests ns) -> In w (cargs ns) -> v1 w = v2 w) ->
  forall w, In w (cdests ns) -> v1 w = v2 w.
Proof.
  induction ns as [|n r IH]; intros v1 v2 Hok H1 H2 Hbase w Hw; [destruct Hw|].
  destruct (seq_okb_cons n r Hok) as [Hr Hn].
  destruct (is_comb (nop n)) eqn:Hc.
  - destruct (Hn eq_refl) as (Ha & Hd & Hargs).
    assert (Hdn : v1 (ndest n) = v2 (ndest n)).
    { rewrite <- (H1 n (or_introl eq_refl) Hc (ndest n)), <- (H2 n (or_introl eq_refl) Hc (ndest n)).
      rewrite !(exec_writes nl st _ n Hc Ha), !upd_same.
      apply net_val_ext; try assumption. intros a Hin. destruct (Hargs a Hin) as [Hne Hnr].
      apply Hbase.
      - unfold cdests. cbn [filter]. rewrite Hc. cbn [map]. intros [Hx|Hx]; [apply Hne; symmetry; exact Hx|apply Hnr; exact Hx].
      - unfold cargs. cbn [filter]. rewrite Hc. cbn [flat_map]. apply in_or_app. left. exact Hin. }
    unfold cdests in Hw. cbn [filter] in Hw. rewrite Hc in Hw. cbn [map] in Hw.
    destruct Hw as [<-|Hw]; [exact Hdn|].
    apply (IH v1 v2 Hr); try assumption.
    + intros m Hm. apply H1. right. exact Hm.
    + intros m Hm. apply H2. right. exact Hm.
    + intros x Hx Hxa. destruct (Z.eq_dec x (ndest n)) as [->|Hne]; [exact Hdn|].
      apply Hbase.
      * unfold cdests. cbn [filter]. rewrite Hc. cbn [map]. intros [Hy|Hy]; [apply Hne; symmetry; exact Hy|apply Hx; exact Hy].
      * unfold cargs. cbn [filter]. rewrite Hc. cbn [flat_map]. apply in_or_app. right. exact Hxa.
  - unfold cdests in Hw. cbn [filter] in Hw. rewrite Hc in Hw.
    apply (IH v1 v2 Hr); try assumption.
    + intros m Hm. apply H1. right. exact Hm.
    + intros m Hm. apply H2. right. exact Hm.
    + intros x Hx Hxa. apply Hbase.
      * unfold cdests. cbn [filter]. rewrite Hc. exact Hx.
      * unfold cargs. cbn [filter]. rewrite Hc. exact Hxa.
Qed.

(* exec_spec looks at the netlist only through the memories and the widths of
   the net's own wires *)
Lemma exec_spec_nl_ext nl nl' st v n :
  mems nl' = mems nl ->
  (forall a, In a (ndest n :: nargs n) -> width_of nl' a = width_of nl a) ->
  forall w, exec_spec nl st v n w = exec_spec nl' st v n w.
Proof.
  intros Hm Hw w. unfold exec_spec.
  assert (Ha : argvals nl v n = argvals nl' v n).
  { unfold argvals. apply map_ext_in. intros a Hin. rewrite (Hw a (or_intror Hin)). reflexivity. }
  rewrite Ha, (Hw (ndest n) (or_introl eq_refl)).
  destruct (nop n); try reflexivity.
  unfold mem_read. rewrite Hm. reflexivity.
Qed.

(* registers and memory writes only look at non-combinational nets *)
Definition noncomb (ns : list net) : list net := filter (fun n => negb (is_comb (nop n))) ns.

Lemma fold_regnext_noncomb nl v ns : forall rg r,
  fold_left (regnext_spec nl v) ns rg r = fold_left (regnext_spec nl v) (noncomb ns) rg r.
Proof.
  induction ns as [|n rest IH]; intros rg r; [reflexivity|]. cbn [fold_left noncomb filter].
  destruct (is_comb (nop n)) eqn:Hc; cbn [negb].
  - rewrite (regnext_comb nl v rg n Hc). apply IH.
  - cbn [fold_left]. apply IH.
Qed.

Lemma fold_write_noncomb v ns : forall ms m a,
  fold_left (write_spec v) ns ms m a = fold_left (write_spec v) (noncomb ns) ms m a.
Proof.
  induction ns as [|n rest IH]; intros ms m a; [reflexivity|]. cbn [fold_left noncomb filter].
  destruct (is_comb (nop n)) eqn:Hc; cbn [negb].
  - rewrite (write_comb v ms n Hc). apply IH.
  - cbn [fold_left]. apply IH.
Qed.
