(* C11 -- the attributes of a MemBlock / RomBlock object that its constructor
   receives (pyrtl/memory.py MemBlock.__init__, RomBlock.__init__).  Definitions
   only; Gen/CopyAttrs.v (regenerated from /repo on every run) is written in
   terms of this record. *)
From PyRTL Require Export Netlist.Syntax.

Record mattrs := mkMAttrs {
  ma_id : Z;                          (* .id   (_memIndex.next_index() at construction) *)
  ma_name : Z;                        (* .name (a code for the string) *)
  ma_bitwidth : Z;
  ma_addrwidth : Z;
  ma_async : bool;                    (* asynchronous *)
  ma_max_read : option Z;             (* max_read_ports  (None = unlimited) *)
  ma_max_write : option Z;            (* max_write_ports (RomBlock.__init__ fixes 0) *)
  ma_rom : option (list (Z * Z));     (* None: MemBlock; Some data: RomBlock with that romdata *)
  ma_pad : bool;                      (* pad_with_zeros (RomBlock) *)
  ma_newroms : bool                   (* build_new_roms (RomBlock) *)
}.

(* the part the netlist semantics sees *)
Definition core_mem (a : mattrs) : mem := mkMem (ma_id a) (ma_addrwidth a) (ma_bitwidth a) (ma_rom a).

(* a netlist-level memory seen as an object (attributes the netlist does not
   carry take the constructor defaults used by the design generator) *)
Definition mattrs_of_core (m : mem) : mattrs :=
  mkMAttrs (mid m) 0 (mdataw m) (maddrw m) true None
           (match mrom m with Some _ => Some 0 | None => None end) (mrom m) false false.

Definition is_rom (a : mattrs) : bool := match ma_rom a with Some _ => true | None => false end.
