(* C11 -- a model WITH aliasing: Python's object graph.
   Wires and memories are mutable objects in one shared heap; a Block holds
   *addresses* (wirevector_set, the args/dests tuples of its LogicNets, the
   MemBlock inside op_param).  Two blocks may or may not share objects.  The
   theorem: address-disjointness (what `id()` measures on the real objects)
   implies independence under every sequence of edits issued through one block. *)
From PyRTL Require Import Netlist.Sem.

Inductive obj :=
| OWire (name width : Z) (k : kind)      (* WireVector: name, bitwidth, class/val/reset_value *)
| OMem (m : mem).                         (* MemBlock/RomBlock attributes *)

Definition heap := list (Z * obj).        (* most recent binding first *)

Fixpoint hlook (h : heap) (x : Z) : option obj :=
  match h with
  | [] => None
  | (k, o) :: r => if k =? x then Some o else hlook r x
  end.

Record hnet := mkHNet { hop : op; hargs : list Z; hdests : list Z }.
(* for 'm'/'@' the parameter of OpMemRd/OpMemWr is the ADDRESS of the memory object *)

Record hblock := mkHB { hwires : list Z; hmems : list Z; hnets : list hnet }.

Definition op_mem_ref (o : op) : list Z :=
  match o with OpMemRd m | OpMemWr m => [m] | _ => [] end.

Definition net_refs (n : hnet) : list Z := hargs n ++ hdests n ++ op_mem_ref (hop n).

(* every object reachable from the block *)
Definition reach (b : hblock) : list Z := hwires b ++ hmems b ++ flat_map net_refs (hnets b).

Definition hdisjoint (a b : hblock) : Prop := forall x, In x (reach a) -> ~ In x (reach b).

(* what an observer of block b sees: every attribute of every object it reaches *)
Definition op_tag (o : op) : op :=       (* the op without the memory's address *)
  match o with OpMemRd _ => OpMemRd 0 | OpMemWr _ => OpMemWr 0 | o => o end.

Definition hfp_net (h : heap) (n : hnet) :=
  (op_tag (hop n), map (hlook h) (hargs n), map (hlook h) (hdests n), map (hlook h) (op_mem_ref (hop n))).

Definition hfingerprint (h : heap) (b : hblock) :=
  (map (hlook h) (hwires b), map (hlook h) (hmems b), map (hfp_net h) (hnets b)).

Definition hfresh (h : heap) : Z := 1 + fold_right Z.max 0 (map fst h).

Definition inb (x : Z) (l : list Z) : bool := existsb (Z.eqb x) l.

Fixpoint hremove_nth {A} (i : nat) (l : list A) : list A :=
  match l, i with
  | [], _ => []
  | _ :: r, O => r
  | x :: r, S j => x :: hremove_nth j r
  end.

(* edits issued through a block: they can only name objects that block reaches,
   or allocate *)
Inductive hedit :=
| HMutate (x : Z) (o : obj)      (* w.name = ..., w.bitwidth = ..., r.reset_value = ..., mem attr *)
| HAllocWire (o : obj)           (* WireVector(..., block=a) / MemBlock(..., block=a) *)
| HAddNet (n : hnet)             (* a.add_net(LogicNet(..)) over a's own objects *)
| HRemoveNet (i : nat)           (* a.logic.remove(..) *)
| HRemoveWire (x : Z).           (* a.remove_wirevector(..) *)

Definition do_edit (e : hedit) (h : heap) (a : hblock) : heap * hblock :=
  match e with
  | HMutate x o => if inb x (reach a) then ((x, o) :: h, a) else (h, a)
  | HAllocWire o => let x := hfresh h in ((x, o) :: h, mkHB (x :: hwires a) (hmems a) (hnets a))
  | HAddNet n => if forallb (fun x => inb x (reach a)) (net_refs n)
                 then (h, mkHB (hwires a) (hmems a) (n :: hnets a)) else (h, a)
  | HRemoveNet i => (h, mkHB (hwires a) (hmems a) (hremove_nth i (hnets a)))
  | HRemoveWire x => (h, mkHB (filter (fun y => negb (y =? x)) (hwires a)) (hmems a) (hnets a))
  end.

Fixpoint run_ops (es : list hedit) (h : heap) (a : hblock) : heap * hblock :=
  match es with
  | [] => (h, a)
  | e :: r => let '(h', a') := do_edit e h a in run_ops r h' a'
  end.

(* every object the two blocks reach is allocated (true of any live Python objects) *)
Definition owned (h : heap) (b : hblock) : Prop := forall x, In x (reach b) -> In x (map fst h).
Definition owned_fresh (h : heap) (a b : hblock) : Prop := owned h a /\ owned h b.

(* ---------------------------------------------------------------- proofs *)
From Coq Require Import ZifyBool.

Lemma inb_In x l : inb x l = true <-> In x l.
Proof.
  unfold inb. rewrite existsb_exists. split.
  - intros [y [Hy E]]. apply Z.eqb_eq in E. subst. exact Hy.
  - intro H. exists x. split; [exact H|apply Z.eqb_refl].
Qed.

Lemma hfresh_gt h x : In x (map fst h) -> x < hfresh h.
Proof.
  unfold hfresh. induction (map fst h) as [|y r IH]; [intros []|].
  intros [->|H]; cbn [fold_right]; [lia|specialize (IH H); lia].
Qed.

Lemma hremove_nth_In {A} (l : list A) : forall i x, In x (hremove_nth i l) -> In x l.
Proof.
  induction l as [|y r IH]; intros i x H; [destruct i; exact H|].
  destruct i; cbn [hremove_nth] in H; [right; exact H|].
  destruct H as [->|H]; [left; reflexivity|right; exact (IH _ _ H)].
Qed.

Lemma flat_map_sub {A B} (g : A -> list B) (l l' : list A) :
  (forall n, In n l' -> In n l) -> forall x, In x (flat_map g l') -> In x (flat_map g l).
Proof.
  intros H x Hx. apply in_flat_map in Hx. destruct Hx as [n [Hn Hx]].
  apply in_flat_map. exists n. split; [apply H; exact Hn|exact Hx].
Qed.

(* b's fingerprint depends on the heap only through the objects b reaches *)
Lemma hfingerprint_local h h' b :
  (forall x, In x (reach b) -> hlook h' x = hlook h x) -> hfingerprint h' b = hfingerprint h b.
Proof.
  intro H. unfold hfingerprint, reach in *. f_equal; [f_equal|].
  - apply map_ext_in. intros x Hx. apply H. apply in_or_app. left. exact Hx.
  - apply map_ext_in. intros x Hx. apply H. apply in_or_app. right. apply in_or_app. left. exact Hx.
  - apply map_ext_in. intros n Hn.
    assert (Hr : forall x, In x (net_refs n) -> hlook h' x = hlook h x).
    { intros x Hx. apply H. apply in_or_app. right. apply in_or_app. right.
      apply in_flat_map. exists n. split; assumption. }
    unfold hfp_net, net_refs in *. f_equal; [f_equal; [f_equal|]|]; apply map_ext_in; intros x Hx; apply Hr.
    + apply in_or_app. left. exact Hx.
    + apply in_or_app. right. apply in_or_app. left. exact Hx.
    + apply in_or_app. right. apply in_or_app. right. exact Hx.
Qed.

Lemma do_edit_inv e h a b :
  hdisjoint a b -> owned h a -> owned h b ->
  let '(h', a') := do_edit e h a in
  (forall x, In x (reach b) -> hlook h' x = hlook h x)
  /\ hdisjoint a' b /\ owned h' a' /\ owned h' b.
Proof.
  intros Hd Ha Hb. destruct e as [x o|o|n|i|x]; cbn [do_edit].
  - destruct (inb x (reach a)) eqn:E.
    + apply inb_In in E. repeat split.
      * intros y Hy. cbn [hlook]. destruct (x =? y) eqn:Exy; [|reflexivity].
        apply Z.eqb_eq in Exy. subst y. exfalso. exact (Hd x E Hy).
      * exact Hd.
      * intros y Hy. cbn [map fst]. right. apply Ha. exact Hy.
      * intros y Hy. cbn [map fst]. right. apply Hb. exact Hy.
    + repeat split; auto.
  - repeat split.
    + intros y Hy. cbn [hlook]. destruct (hfresh h =? y) eqn:Exy; [|reflexivity].
      apply Z.eqb_eq in Exy. pose proof (hfresh_gt h y (Hb y Hy)). lia.
    + intros y Hy Hyb. unfold reach in Hy. cbn [hwires hmems hnets] in Hy.
      destruct Hy as [<-|Hy].
      * pose proof (hfresh_gt h _ (Hb _ Hyb)). lia.
      * exact (Hd y Hy Hyb).
    + intros y Hy. unfold reach in Hy. cbn [hwires hmems hnets] in Hy. cbn [map fst].
      destruct Hy as [<-|Hy]; [left; reflexivity|right; apply Ha; exact Hy].
    + intros y Hy. cbn [map fst]. right. apply Hb. exact Hy.
  - destruct (forallb (fun x => inb x (reach a)) (net_refs n)) eqn:E; [|repeat split; auto].
    assert (Hsub : forall y, In y (reach (mkHB (hwires a) (hmems a) (n :: hnets a))) -> In y (reach a)).
    { intros y Hy. unfold reach in Hy |- *. cbn [hwires hmems hnets flat_map] in Hy.
      apply in_app_or in Hy. destruct Hy as [Hy|Hy]; [apply in_or_app; left; exact Hy|].
      apply in_app_or in Hy. destruct Hy as [Hy|Hy];
        [apply in_or_app; right; apply in_or_app; left; exact Hy|].
      apply in_app_or in Hy. destruct Hy as [Hy|Hy].
      - rewrite forallb_forall in E. specialize (E y Hy). apply inb_In in E. exact E.
      - apply in_or_app. right. apply in_or_app. right. exact Hy. }
    repeat split; auto.
    + intros y Hy. apply Hd. apply Hsub. exact Hy.
    + intros y Hy. apply Ha. apply Hsub. exact Hy.
  - assert (Hsub : forall y, In y (reach (mkHB (hwires a) (hmems a) (hremove_nth i (hnets a)))) -> In y (reach a)).
    { intros y Hy. unfold reach in Hy |- *. cbn [hwires hmems hnets] in Hy.
      apply in_app_or in Hy. destruct Hy as [Hy|Hy]; [apply in_or_app; left; exact Hy|].
      apply in_app_or in Hy. destruct Hy as [Hy|Hy];
        [apply in_or_app; right; apply in_or_app; left; exact Hy|].
      apply in_or_app. right. apply in_or_app. right.
      revert Hy. apply flat_map_sub. intros m Hm. exact (hremove_nth_In _ _ _ Hm). }
    repeat split; auto.
    + intros y Hy. apply Hd. apply Hsub. exact Hy.
    + intros y Hy. apply Ha. apply Hsub. exact Hy.
  - assert (Hsub : forall y, In y (reach (mkHB (filter (fun y => negb (y =? x)) (hwires a)) (hmems a) (hnets a)))
                             -> In y (reach a)).
    { intros y Hy. unfold reach in Hy |- *. cbn [hwires hmems hnets] in Hy.
      apply in_app_or in Hy. destruct Hy as [Hy|Hy].
      - apply in_or_app. left. apply filter_In in Hy. exact (proj1 Hy).
      - apply in_or_app. right. exact Hy. }
    repeat split; auto.
    + intros y Hy. apply Hd. apply Hsub. exact Hy.
    + intros y Hy. apply Ha. apply Hsub. exact Hy.
Qed.

Lemma run_ops_inv es : forall h a b,
  hdisjoint a b -> owned h a -> owned h b ->
  let '(h', a') := run_ops es h a in
  (forall x, In x (reach b) -> hlook h' x = hlook h x)
  /\ hdisjoint a' b /\ owned h' a' /\ owned h' b.
Proof.
  induction es as [|e r IH]; intros h a b Hd Ha Hb; cbn [run_ops].
  - repeat split; auto.
  - pose proof (do_edit_inv e h a b Hd Ha Hb) as H1.
    destruct (do_edit e h a) as [h1 a1]. destruct H1 as [Hl [Hd1 [Ha1 Hb1]]].
    specialize (IH h1 a1 b Hd1 Ha1 Hb1).
    destruct (run_ops r h1 a1) as [h2 a2]. destruct IH as [Hl2 [Hd2 [Ha2 Hb2]]].
    repeat split; auto. intros x Hx. rewrite (Hl2 x Hx). exact (Hl x Hx).
Qed.

Theorem disjoint_independent ops h a b :
  hdisjoint a b -> owned_fresh h a b ->
  let '(h', a') := run_ops ops h a in
  hfingerprint h' b = hfingerprint h b /\ hdisjoint a' b.
Proof.
  intros Hd [Ha Hb]. pose proof (run_ops_inv ops h a b Hd Ha Hb) as H.
  destruct (run_ops ops h a) as [h' a']. destruct H as [Hl [Hd' _]].
  split; [apply hfingerprint_local; exact Hl|exact Hd'].
Qed.

(* the premise is needed: one shared Register object, `r.reset_value = 3` through a *)
Theorem shared_not_independent :
  exists h a b op, ~ hdisjoint a b /\ hfingerprint (fst (run_ops [op] h a)) b <> hfingerprint h b.
Proof.
  exists [(1, OWire 1 4 (KReg None))], (mkHB [1] [] []), (mkHB [1] [] []),
         (HMutate 1 (OWire 1 4 (KReg (Some 3)))).
  split.
  - intro H. apply (H 1); left; reflexivity.
  - vm_compute. intro H. discriminate H.
Qed.

(* ---------------------------------------------------------------- copying in the heap model *)

(* copy_block in the heap model: every object the source reaches is cloned at a
   FRESH address (clone_wire / _make_copy allocate new Python objects), with
   attribute policy ck; the new block refers to the clones only. *)
Definition hlo (b : hblock) : Z := fold_right Z.min 0 (reach b).
Definition hoffset (h : heap) (b : hblock) : Z := hfresh h - hlo b.

Definition shift_op (k : Z) (o : op) : op :=
  match o with
  | OpMemRd m => OpMemRd (m + k)
  | OpMemWr m => OpMemWr (m + k)
  | o => o
  end.

Definition shift_net (k : Z) (n : hnet) : hnet :=
  mkHNet (shift_op k (hop n)) (map (fun x => x + k) (hargs n)) (map (fun x => x + k) (hdests n)).

Definition shift_block (k : Z) (b : hblock) : hblock :=
  mkHB (map (fun x => x + k) (hwires b)) (map (fun x => x + k) (hmems b)) (map (shift_net k) (hnets b)).

Definition clone_obj (ck : obj -> obj) (h : heap) (x : Z) : list (Z * obj) :=
  match hlook h x with Some o => [(x, ck o)] | None => [] end.

Definition hcopy (ck : obj -> obj) (h : heap) (b : hblock) : heap * hblock :=
  let k := hoffset h b in
  (map (fun p => (fst p + k, snd p)) (flat_map (clone_obj ck h) (reach b)) ++ h, shift_block k b).

Lemma hlo_le b x : In x (reach b) -> hlo b <= x.
Proof.
  unfold hlo. induction (reach b) as [|y r IH]; [intros []|].
  intros [->|H]; cbn [fold_right]; [lia|specialize (IH H); lia].
Qed.

Lemma reach_shift k b x : In x (reach (shift_block k b)) -> exists y, In y (reach b) /\ x = y + k.
Proof.
  unfold reach, shift_block. cbn [hwires hmems hnets]. intro H.
  apply in_app_or in H. destruct H as [H|H].
  { apply in_map_iff in H. destruct H as [y [<- Hy]]. exists y. split; [|reflexivity].
    apply in_or_app. left. exact Hy. }
  apply in_app_or in H. destruct H as [H|H].
  { apply in_map_iff in H. destruct H as [y [<- Hy]]. exists y. split; [|reflexivity].
    apply in_or_app. right. apply in_or_app. left. exact Hy. }
  apply in_flat_map in H. destruct H as [n' [Hn' Hx]].
  apply in_map_iff in Hn'. destruct Hn' as [n [<- Hn]].
  assert (exists y, In y (net_refs n) /\ x = y + k) as [y [Hy ->]].
  { unfold net_refs, shift_net in Hx |- *. cbn [hargs hdests hop] in Hx.
    apply in_app_or in Hx. destruct Hx as [Hx|Hx].
    { apply in_map_iff in Hx. destruct Hx as [y [<- Hy]]. exists y. split; [|reflexivity].
      apply in_or_app. left. exact Hy. }
    apply in_app_or in Hx. destruct Hx as [Hx|Hx].
    { apply in_map_iff in Hx. destruct Hx as [y [<- Hy]]. exists y. split; [|reflexivity].
      apply in_or_app. right. apply in_or_app. left. exact Hy. }
    destruct (hop n); cbn [shift_op op_mem_ref In] in Hx; try contradiction;
      (destruct Hx as [<-|[]]; eexists;
       (split; [apply in_or_app; right; apply in_or_app; right; left; reflexivity|reflexivity])). }
  exists y. split; [|reflexivity].
  apply in_or_app. right. apply in_or_app. right. apply in_flat_map. exists n. split; assumption.
Qed.

(* (3) in the heap model: the copy reaches no object of the source -- nor of
   ANY block living in the heap before the copy was made *)
Theorem hcopy_disjoint ck h b c :
  owned h b -> owned h c ->
  hdisjoint (snd (hcopy ck h b)) c.
Proof.
  intros Hb Hc x Hx Hxc. unfold hcopy in Hx. cbn [snd] in Hx.
  apply reach_shift in Hx. destruct Hx as [y [Hy ->]].
  pose proof (hlo_le b y Hy). pose proof (hfresh_gt h _ (Hc _ Hxc)). unfold hoffset in *. lia.
Qed.

Lemma hlook_app_new k l h x :
  (forall y, In y (map fst l) -> y + k <> x) ->
  hlook (map (fun p => (fst p + k, snd p)) l ++ h) x = hlook h x.
Proof.
  induction l as [|[a o] r IH]; intro H; [reflexivity|].
  cbn [map app hlook fst snd]. destruct (a + k =? x) eqn:E.
  - apply Z.eqb_eq in E. exfalso. apply (H a); [left; reflexivity|exact E].
  - apply IH. intros y Hy. apply H. right. exact Hy.
Qed.

Lemma clone_objs_fst ck h l y :
  In y (map fst (flat_map (clone_obj ck h) l)) -> In y l.
Proof.
  induction l as [|a r IH]; [intros []|]. cbn [flat_map]. rewrite map_app. intro H.
  apply in_app_or in H. destruct H as [H|H]; [|right; exact (IH H)].
  unfold clone_obj in H. destruct (hlook h a); [|destruct H].
  destruct H as [<-|[]]. left. reflexivity.
Qed.

(* making a copy does not change what any existing block sees *)
Theorem hcopy_preserves_others ck h b c :
  owned h b -> owned h c ->
  hfingerprint (fst (hcopy ck h b)) c = hfingerprint h c.
Proof.
  intros Hb Hc. apply hfingerprint_local. intros x Hx. unfold hcopy. cbn [fst].
  apply hlook_app_new. intros y Hy Heq. apply clone_objs_fst in Hy.
  pose proof (hlo_le b y Hy). pose proof (hfresh_gt h _ (Hc _ Hx)). unfold hoffset in *. lia.
Qed.

(* hence: copy, then ANY edits through the copy, never disturb the source *)
Theorem hcopy_then_edits_independent ck ops h b :
  owned h b ->
  let '(h1, cp) := hcopy ck h b in
  let '(h2, cp') := run_ops ops h1 cp in
  hfingerprint h2 b = hfingerprint h b.
Proof.
  intro Hb. pose proof (hcopy_disjoint ck h b b Hb Hb) as Hd.
  pose proof (hcopy_preserves_others ck h b b Hb Hb) as Hp.
  destruct (hcopy ck h b) as [h1 cp] eqn:E. cbn [fst snd] in Hd, Hp.
  assert (Ho1 : owned h1 b).
  { intros x Hx. unfold hcopy in E. inversion E. rewrite map_app. apply in_or_app. right. apply Hb. exact Hx. }
  assert (Ho2 : owned h1 cp).
  { intros x Hx. unfold hcopy in E. inversion E as [[E1 E2]]. subst cp.
    apply reach_shift in Hx. destruct Hx as [y [Hy ->]].
    rewrite map_app. apply in_or_app. left. rewrite map_map. cbn [fst].
    (* y is allocated in h, so it has a clone *)
    pose proof (Hb y Hy) as Hdom.
    assert (Hl : exists o, hlook h y = Some o).
    { clear -Hdom. induction h as [|[a o] r IH]; [destruct Hdom|]. cbn [hlook].
      destruct (a =? y) eqn:Ea; [eexists; reflexivity|].
      apply IH. destruct Hdom as [Hd|Hd]; [cbn in Hd; apply Z.eqb_neq in Ea; contradiction|exact Hd]. }
    destruct Hl as [o Ho].
    apply in_map_iff. exists (y, ck o). split; [reflexivity|].
    apply in_flat_map. exists y. split; [exact Hy|]. unfold clone_obj. rewrite Ho. left. reflexivity. }
  pose proof (run_ops_inv ops h1 cp b Hd Ho2 Ho1) as H.
  destruct (run_ops ops h1 cp) as [h2 cp']. destruct H as [Hl _].
  rewrite <- Hp. apply hfingerprint_local. exact Hl.
Qed.

(* the clone of an allocated object is found at the shifted address *)
Lemma hlook_clone ck h h0 k l x o :
  In x l -> hlook h x = Some o ->
  hlook (map (fun p => (fst p + k, snd p)) (flat_map (clone_obj ck h) l) ++ h0) (x + k) = Some (ck o).
Proof.
  intros Hin Ho. induction l as [|a r IH]; [destruct Hin|].
  cbn [flat_map]. unfold clone_obj at 1.
  destruct (hlook h a) as [oa|] eqn:Ea.
  - cbn [app map fst snd hlook]. destruct (a + k =? x + k) eqn:E.
    + assert (a = x) by lia. subst a. rewrite Ho in Ea. inversion Ea. reflexivity.
    + destruct Hin as [->|Hin]; [lia|]. exact (IH Hin).
  - cbn [app map]. destruct Hin as [->|Hin]; [rewrite Ho in Ea; discriminate|]. exact (IH Hin).
Qed.

Lemma owned_look h b x : owned h b -> In x (reach b) -> exists o, hlook h x = Some o.
Proof.
  intros Hb Hx. pose proof (Hb x Hx) as Hdom. clear -Hdom.
  induction h as [|[a o] r IH]; [destruct Hdom|]. cbn [hlook].
  destruct (a =? x) eqn:Ea; [eexists; reflexivity|].
  apply IH. destruct Hdom as [Hd|Hd]; [cbn in Hd; lia|exact Hd].
Qed.

(* (2) in the heap model: the copy sees, object for object, the cloned attributes
   of what the source sees (with ck = identity: the same fingerprint) *)
Theorem hcopy_fingerprint ck h b :
  owned h b ->
  let '(h1, cp) := hcopy ck h b in
  forall x, In x (reach b) -> hlook h1 (x + hoffset h b) = option_map ck (hlook h x).
Proof.
  intro Hb. unfold hcopy. intros x Hx.
  destruct (owned_look h b x Hb Hx) as [o Ho]. rewrite Ho. cbn [option_map].
  apply hlook_clone; assumption.
Qed.

Theorem hcopy_isomorphic h b :
  owned h b ->
  hfingerprint (fst (hcopy (fun o => o) h b)) (snd (hcopy (fun o => o) h b)) = hfingerprint h b.
Proof.
  intro Hb. pose proof (hcopy_fingerprint (fun o => o) h b Hb) as H.
  unfold hcopy in *. cbn [fst snd]. set (k := hoffset h b) in *.
  set (h1 := map (fun p => (fst p + k, snd p)) (flat_map (clone_obj (fun o => o) h) (reach b)) ++ h) in *.
  assert (Hl : forall x, In x (reach b) -> hlook h1 (x + k) = hlook h x).
  { intros x Hx. rewrite (H x Hx). destruct (hlook h x); reflexivity. }
  clear H. unfold hfingerprint, shift_block. cbn [hwires hmems hnets]. rewrite !map_map.
  unfold reach in Hl. f_equal; [f_equal|].
  - apply map_ext_in. intros x Hx. apply Hl. apply in_or_app. left. exact Hx.
  - apply map_ext_in. intros x Hx. apply Hl. apply in_or_app. right. apply in_or_app. left. exact Hx.
  - apply map_ext_in. intros n Hn.
    assert (Hr : forall x, In x (net_refs n) -> hlook h1 (x + k) = hlook h x).
    { intros x Hx. apply Hl. apply in_or_app. right. apply in_or_app. right.
      apply in_flat_map. exists n. split; assumption. }
    unfold hfp_net, shift_net, net_refs in *. cbn [hop hargs hdests]. rewrite !map_map.
    f_equal; [f_equal; [f_equal|]|].
    + destruct (hop n); reflexivity.
    + apply map_ext_in. intros x Hx. apply Hr. apply in_or_app. left. exact Hx.
    + apply map_ext_in. intros x Hx. apply Hr. apply in_or_app. right. apply in_or_app. left. exact Hx.
    + destruct (hop n); cbn [shift_op op_mem_ref map]; try reflexivity;
        (f_equal; apply Hr; apply in_or_app; right; apply in_or_app; right; left; reflexivity).
Qed.
