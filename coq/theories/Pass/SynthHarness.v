(* Entry points evaluated by py/checks/C03.py (definitions only, no proofs):
   synth_case  -- the Coq model of synthesize executed on a testbench;
   shape_case  -- the shape predicate of property C03 evaluated on the dump of a
                  REAL synthesized block. *)
From PyRTL Require Import Netlist.Sem Netlist.WFDefs Netlist.SpecHarness Pass.BasicGates Pass.Synth Pass.Flatten.

(* rows: [wfb && synth_okb]; then one row per cycle: the value of every listed
   output re-assembled from its synthesized bits *)
Definition synth_case (nl : netlist) (dflt : Z) (regmap : list (Z * Z))
    (memmap : list (Z * list (Z * Z))) (inss : list (list (Z * Z))) (outs : list Z)
  : list (list Z) :=
  let ins := map ins_of inss in
  let '(bvs, _) := grun nl (ginit nl regmap memmap) ins in
  [b2z (wfb nl && synth_okb nl)]
  :: map (fun bv => map (fun o => bits_val bv o (wnat nl o)) outs) bvs.

(* ---- C03 shape predicate on a netlist (real dump or flattened model output) ---- *)
Section Shape.
Variable merge : bool.
Variable nl : netlist.

Definition w1 (w : wid) : bool := width_of nl w =? 1.

Definition has_dest (o : op) : bool := match o with OpMemWr _ => false | _ => true end.

Definition produced_by (P : op -> bool) (w : wid) : bool :=
  existsb (fun n => P (nop n) && has_dest (nop n) && (ndest n =? w)) (nets nl).

Definition users (w : wid) : list net := filter (fun n => mem_in w (nargs n)) (nets nl).

Definition is_concat (o : op) : bool := match o with OpConcat => true | _ => false end.
Definition is_memrd (o : op) : bool := match o with OpMemRd _ => true | _ => false end.
Definition is_port (o : op) : bool := match o with OpMemRd _ | OpMemWr _ => true | _ => false end.
Definition is_kind_out (w : wid) : bool := match kind_of nl w with KOutput => true | _ => false end.
Definition is_kind_in (w : wid) : bool := match kind_of nl w with KInput => true | _ => false end.

Definition all1 (n : net) : bool := forallb w1 (nargs n) && w1 (ndest n).

(* written with `if` (not && / ||) so that vm_compute does not evaluate the
   quadratic producer/user scans for the ordinary 1-bit gates *)
Definition net_shape (n : net) : bool :=
  match nop n with
  | OpNot | OpAnd | OpOr | OpXor | OpNand | OpReg => all1 n
  | OpW => if all1 n then true
           else if merge then (if is_kind_out (ndest n) then produced_by is_concat (arg n 0) else false)
           else false
  | OpMemRd _ | OpMemWr _ => true
  | OpSelect idx =>
      if Nat.eqb (length idx) 1 then
        if w1 (ndest n) then
          if (if merge then is_kind_in (arg n 0) else false) then true
          else produced_by is_memrd (arg n 0)
        else false
      else false
  | OpConcat =>
      if forallb w1 (nargs n) then
        if (if merge then is_kind_out (ndest n) else false) then true else   (* straight into the Output vector *)
        let us := users (ndest n) in
        if Nat.eqb (length us) 0 then false
        else forallb (fun u => if is_port (nop u) then true
                               else if merge then match nop u with OpW => is_kind_out (ndest u) | _ => false end
                               else false) us
      else false
  | _ => false
  end.

Definition shapeb : bool := forallb net_shape (nets nl).
End Shape.

Definition shape_case (merge : bool) (nl : netlist) : list Z := [b2z (shapeb merge nl)].

(* the flattened model netlist (Pass/Flatten.v): [ids_okb; shapeb merged; shapeb
   unmerged] and, per cycle, the listed Outputs under Sem.run of `flatten true nl` *)
Definition flat_case (nl : netlist) (inss : list (list (Z * Z))) (outs : list Z) : list (list Z) :=
  [b2z (ids_okb nl); b2z (shapeb true (flatten true nl)); b2z (shapeb false (flatten false nl))]
  :: map (fun v => map v outs)
         (fst (run (flatten true nl) 0 (flat_state nl (ginit nl [] [])) (map (flat_ins nl) (map ins_of inss)))).

(* ---- structural tie: the gate TREE of every bit, unfolded down to input bits,
   constants and register bits, in prefix code:
     [0; w; i] bit i of wire w | [1; b] constant | 2 t = ~ | 3 t t = & | 4 = | | 5 = ^ | 6 = nand.
   py/checks/C03.py extracts the same code from the REAL synthesized block (following
   the w/s/c plumbing) and compares the two lists for equality. *)
Fixpoint gser (g : gexp) : list Z :=
  match g with
  | GVar w i => [0; w; Z.of_nat i]
  | GConst b => [1; b2z b]
  | GNot a => 2 :: gser a
  | GAnd a b => 3 :: gser a ++ gser b
  | GOr a b => 4 :: gser a ++ gser b
  | GXor a b => 5 :: gser a ++ gser b
  | GNand a b => 6 :: gser a ++ gser b
  end.

Fixpoint gsubst (env : wid -> nat -> gexp) (g : gexp) : gexp :=
  match g with
  | GVar w i => env w i
  | GConst b => GConst b
  | GNot a => GNot (gsubst env a)
  | GAnd a b => GAnd (gsubst env a) (gsubst env b)
  | GOr a b => GOr (gsubst env a) (gsubst env b)
  | GXor a b => GXor (gsubst env a) (gsubst env b)
  | GNand a b => GNand (gsubst env a) (gsubst env b)
  end.

Definition struct_env0 (nl : netlist) : wid -> nat -> gexp :=
  fun w i => match kind_of nl w with
             | KConst c => GConst (negb (g_const_bit c (Z.of_nat i) =? 0))
             | _ => GVar w i
             end.

Definition struct_step (nl : netlist) (env : wid -> nat -> gexp) (n : net) : wid -> nat -> gexp :=
  match nop n with
  | OpReg | OpMemWr _ | OpMemRd _ => env
  | _ => let bits := map (gsubst env) (lower nl n) in
         fun w i => if w =? ndest n then nth i bits (GConst false) else env w i
  end.

Definition struct_case (nl : netlist) (outs : list Z) : list (list (list Z)) :=
  let env := fold_left (struct_step nl) (nets nl) (struct_env0 nl) in
  map (fun o => map (fun i => gser (env o i)) (seq 0 (wnat nl o))) outs.
