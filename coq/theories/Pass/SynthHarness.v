(* Entry points evaluated by py/checks/C03.py (definitions only, no proofs):
   synth_case  -- the Coq model of synthesize executed on a testbench;
   shape_case  -- the shape predicate of property C03 evaluated on the dump of a
                  REAL synthesized block. *)
From PyRTL Require Import Netlist.Sem Netlist.WFDefs Netlist.SpecHarness Pass.BasicGates Pass.Synth.

(* rows: [wfb && synth_okb]; then one row per cycle: the value of every listed
   output re-assembled from its synthesized bits *)
Definition synth_case (nl : netlist) (dflt : Z) (regmap : list (Z * Z))
    (memmap : list (Z * list (Z * Z))) (inss : list (list (Z * Z))) (outs : list Z)
  : list (list Z) :=
  let ins := map ins_of inss in
  let '(bvs, _) := grun nl (ginit nl regmap memmap) ins in
  [b2z (wfb nl && synth_okb nl)]
  :: map (fun bv => map (fun o => bits_val bv o (wnat nl o)) outs) bvs.

(* ---- C03 shape predicate on a netlist (real dump or flattened model output) ---- *)
Section Shape.
Variable merge : bool.
Variable nl : netlist.

Definition w1 (w : wid) : bool := width_of nl w =? 1.

Definition has_dest (o : op) : bool := match o with OpMemWr _ => false | _ => true end.

Definition produced_by (P : op -> bool) (w : wid) : bool :=
  existsb (fun n => P (nop n) && has_dest (nop n) && (ndest n =? w)) (nets nl).

Definition users (w : wid) : list net := filter (fun n => mem_in w (nargs n)) (nets nl).

Definition is_concat (o : op) : bool := match o with OpConcat => true | _ => false end.
Definition is_memrd (o : op) : bool := match o with OpMemRd _ => true | _ => false end.
Definition is_port (o : op) : bool := match o with OpMemRd _ | OpMemWr _ => true | _ => false end.
Definition is_kind_out (w : wid) : bool := match kind_of nl w with KOutput => true | _ => false end.
Definition is_kind_in (w : wid) : bool := match kind_of nl w with KInput => true | _ => false end.

Definition all1 (n : net) : bool := forallb w1 (nargs n) && w1 (ndest n).

Definition net_shape (n : net) : bool :=
  match nop n with
  | OpNot | OpAnd | OpOr | OpXor | OpNand | OpReg => all1 n
  | OpW => all1 n || (merge && is_kind_out (ndest n) && produced_by is_concat (arg n 0))
  | OpMemRd _ | OpMemWr _ => true
  | OpSelect idx =>
      Nat.eqb (length idx) 1 && w1 (ndest n)
      && ((merge && is_kind_in (arg n 0)) || produced_by is_memrd (arg n 0))
  | OpConcat =>
      forallb w1 (nargs n)
      && let us := users (ndest n) in
         negb (Nat.eqb (length us) 0)
         && forallb (fun u => is_port (nop u)
                              || (merge && match nop u with OpW => is_kind_out (ndest u) | _ => false end)) us
  | _ => false
  end.

Definition shapeb : bool := forallb net_shape (nets nl).
End Shape.

Definition shape_case (merge : bool) (nl : netlist) : list Z := [b2z (shapeb merge nl)].
