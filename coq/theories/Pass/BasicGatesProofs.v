(* Correctness of the gate-level generators of Pass/BasicGates.v at the bool
   instance, for ALL widths and values.  The expression bodies come from
   Gen/SynthGates.v (regenerated from /repo): the one-bit lemmas below are
   re-checked against the code's current formulas on every run. *)
From Coq Require Import ZArith List Bool Lia ZifyBool.
From PyRTL Require Import Base.PyZ Pass.BasicGates.
Import ListNotations.
Open Scope Z_scope.

(* ------------------------------------------------------------------ bit lists *)

Lemma b2z_range b : 0 <= b2z b <= 1.
Proof. destruct b; simpl; lia. Qed.

Lemma to_Z_nonneg l : 0 <= to_Z l.
Proof. induction l as [|b t IH]; cbn [to_Z]; [lia|]. pose proof (b2z_range b). lia. Qed.

Lemma pow2_S (n : nat) : 2 ^ Z.of_nat (S n) = 2 * 2 ^ Z.of_nat n.
Proof. rewrite Nat2Z.inj_succ, Z.pow_succ_r by lia. reflexivity. Qed.

Lemma pow2_nat_pos (n : nat) : 0 < 2 ^ Z.of_nat n.
Proof. apply Z.pow_pos_nonneg; lia. Qed.

Lemma to_Z_range l : 0 <= to_Z l < 2 ^ Z.of_nat (length l).
Proof.
  induction l as [|b t IH].
  - cbn [to_Z length]. change (2 ^ Z.of_nat 0) with 1. lia.
  - cbn [to_Z length]. rewrite pow2_S. pose proof (b2z_range b). lia.
Qed.

Lemma to_Z_app a b : to_Z (a ++ b) = to_Z a + 2 ^ Z.of_nat (length a) * to_Z b.
Proof.
  induction a as [|x t IH].
  - cbn [app to_Z length]. change (2 ^ Z.of_nat 0) with 1. lia.
  - cbn [app to_Z length]. rewrite pow2_S, IH. ring.
Qed.

Lemma to_Z_repeat_false n : to_Z (repeat false n) = 0.
Proof. induction n; cbn [repeat to_Z b2z]; lia. Qed.

Lemma to_Z_firstn n l : to_Z (firstn n l) = to_Z l mod 2 ^ Z.of_nat n.
Proof.
  revert l. induction n as [|n IH]; intro l.
  - simpl. rewrite Z.mod_1_r. reflexivity.
  - destruct l as [|b t].
    + simpl. rewrite Z.mod_0_l; [reflexivity|]. pose proof (pow2_nat_pos (S n)). lia.
    + cbn [firstn to_Z]. rewrite IH, pow2_S.
      pose proof (pow2_nat_pos n) as HP. pose proof (b2z_range b) as Hb.
      pose proof (Z.mod_pos_bound (to_Z t) (2 ^ Z.of_nat n) HP) as Hm.
      apply Z.mod_unique with (q := to_Z t / 2 ^ Z.of_nat n); [lia|].
      pose proof (Z.div_mod (to_Z t) (2 ^ Z.of_nat n)). lia.
Qed.

Lemma to_Z_of_Z n z : to_Z (of_Z n z) = z mod 2 ^ Z.of_nat n.
Proof.
  revert z. induction n as [|n IH]; intro z.
  - simpl. rewrite Z.mod_1_r. reflexivity.
  - cbn [of_Z to_Z]. rewrite IH, pow2_S.
    pose proof (pow2_nat_pos n) as HP.
    rewrite Z.div2_div.
    pose proof (Z.mod_pos_bound (z / 2) (2 ^ Z.of_nat n) HP) as Hm.
    assert (Ho : b2z (Z.odd z) = z mod 2).
    { rewrite Zmod_odd. destruct (Z.odd z); reflexivity. }
    rewrite Ho.
    apply Z.mod_unique with (q := (z / 2) / 2 ^ Z.of_nat n).
    + pose proof (Z.mod_pos_bound z 2). lia.
    + pose proof (Z.div_mod (z / 2) (2 ^ Z.of_nat n)). pose proof (Z.div_mod z 2). lia.
Qed.

Lemma of_Z_length n z : length (of_Z n z) = n.
Proof. revert z; induction n; intro z; simpl; [reflexivity|]. rewrite IHn. reflexivity. Qed.

Lemma to_Z_inj a b : length a = length b -> to_Z a = to_Z b -> a = b.
Proof.
  revert b. induction a as [|x ta IH]; intros [|y tb] Hl Hv; try discriminate; [reflexivity|].
  cbn [to_Z] in Hv. cbn [length] in Hl.
  assert (x = y) by (destruct x, y; cbn [b2z] in Hv; try reflexivity; lia).
  subst. f_equal. apply IH; [lia|]. lia.
Qed.

Lemma to_Z_map_negb l : to_Z (map negb l) = 2 ^ Z.of_nat (length l) - 1 - to_Z l.
Proof.
  induction l as [|b t IH].
  - cbn [map to_Z length]. change (2 ^ Z.of_nat 0) with 1. lia.
  - cbn [map to_Z length]. rewrite pow2_S, IH. destruct b; cbn [negb b2z]; lia.
Qed.

(* ------------------------------------------------------------------ zext / match_bw / fit *)

Lemma zext_val n l : to_Z (zext balg n l) = to_Z l.
Proof. unfold zext. rewrite to_Z_app. change (gzero balg) with false. rewrite to_Z_repeat_false. lia. Qed.

Lemma zext_length n l : length (zext balg n l) = Nat.max n (length l).
Proof. unfold zext. rewrite app_length, repeat_length. lia. Qed.

Lemma zext_same l : zext balg (length l) l = l.
Proof. unfold zext. rewrite Nat.sub_diag. simpl. apply app_nil_r. Qed.

Lemma match_bw_same a b : length a = length b -> match_bw balg a b = (a, b).
Proof.
  intro H. unfold match_bw. rewrite <- H, Nat.max_id.
  rewrite zext_same. rewrite H at 1. rewrite zext_same. reflexivity.
Qed.

Lemma fit_val n l : to_Z (fit balg n l) = to_Z l mod 2 ^ Z.of_nat n.
Proof.
  unfold fit. rewrite to_Z_firstn, to_Z_app. change (gzero balg) with false.
  rewrite to_Z_repeat_false. f_equal. lia.
Qed.

Lemma fit_length n l : length (fit balg n l) = n.
Proof. unfold fit. rewrite firstn_length, app_length, repeat_length. lia. Qed.

(* ------------------------------------------------------------------ _one_bit_add / ripple *)

(* the generated sum/carry formulas are a full adder *)
Lemma one_bit_add_spec x y c :
  b2z (g_oba_sum balg x y c) + 2 * b2z (g_oba_carry balg x y c) = b2z x + b2z y + b2z c.
Proof. destruct x, y, c; reflexivity. Qed.

(* carry invariant of the ripple recursion *)
Lemma ripple_spec a : forall b c, length a = length b ->
  to_Z (fst (ripple balg a b c)) + 2 ^ Z.of_nat (length a) * b2z (snd (ripple balg a b c))
  = to_Z a + to_Z b + b2z c
  /\ length (fst (ripple balg a b c)) = length a.
Proof.
  induction a as [|x ta IH]; intros [|y tb] c Hl; try discriminate.
  - cbn [ripple fst snd to_Z length]. change (2 ^ Z.of_nat 0) with 1. split; [lia|reflexivity].
  - cbn [ripple]. cbn [length] in Hl.
    specialize (IH tb (g_oba_carry balg x y c) ltac:(lia)).
    destruct (ripple balg ta tb (g_oba_carry balg x y c)) as [ms co] eqn:E.
    cbn [fst snd] in *. destruct IH as [IH1 IH2].
    cbn [to_Z length]. rewrite pow2_S. pose proof (one_bit_add_spec x y c). split; lia.
Qed.

Lemma add_helper_spec a b c :
  let n := Nat.max (length a) (length b) in
  to_Z (fst (add_helper balg a b c)) + 2 ^ Z.of_nat n * b2z (snd (add_helper balg a b c))
  = to_Z a + to_Z b + b2z c
  /\ length (fst (add_helper balg a b c)) = n.
Proof.
  intro n. unfold add_helper, match_bw. fold n.
  pose proof (ripple_spec (zext balg n a) (zext balg n b) c) as H.
  rewrite !zext_length, !zext_val in H.
  assert (Hn : Nat.max n (length a) = n) by lia.
  assert (Hn' : Nat.max n (length b) = n) by lia.
  rewrite Hn, Hn' in H. apply H. reflexivity.
Qed.

(* ------------------------------------------------------------------ _basic_add *)

Lemma map_id_ext {A} (f : A -> A) l : (forall x, f x = x) -> map f l = l.
Proof. intro H. induction l; simpl; [reflexivity|]. rewrite H, IHl. reflexivity. Qed.

Theorem basic_add_correct a b :
  to_Z (basic_add balg a b) = to_Z a + to_Z b
  /\ length (basic_add balg a b) = S (Nat.max (length a) (length b)).
Proof.
  unfold basic_add.
  rewrite (map_id_ext (g_add_arg_b balg) b) by reflexivity.
  pose proof (add_helper_spec a b (bconst balg g_add_cin)) as H. cbv zeta in H.
  destruct (add_helper balg a b (bconst balg g_add_cin)) as [s c]. cbn [fst snd] in H.
  destruct H as [H1 H2].
  rewrite to_Z_app, app_length, H2. cbn [to_Z length].
  change (g_add_top balg c) with c. change (b2z (bconst balg g_add_cin)) with 0 in H1.
  split; lia.
Qed.

(* ------------------------------------------------------------------ _basic_sub *)

(* value of _basic_sub whatever the code puts in the top position: the low n bits
   are (a - b) mod 2^n, the top bit is <top>(no-borrow) *)
Lemma basic_sub_value a b : length a = length b ->
  to_Z (basic_sub balg a b)
  = (to_Z a - to_Z b) mod 2 ^ Z.of_nat (length a)
    + 2 ^ Z.of_nat (length a) * b2z (g_sub_top balg (to_Z b <=? to_Z a))
  /\ length (basic_sub balg a b) = S (length a).
Proof.
  intro Hl. unfold basic_sub.
  change (map (g_sub_arg_b balg) b) with (map negb b).
  pose proof (add_helper_spec a (map negb b) (bconst balg g_sub_cin)) as H. cbv zeta in H.
  rewrite map_length, <- Hl, Nat.max_id in H.
  destruct (add_helper balg a (map negb b) (bconst balg g_sub_cin)) as [s c]. cbn [fst snd] in H.
  destruct H as [H1 H2].
  rewrite to_Z_map_negb, <- Hl in H1. change (b2z (bconst balg g_sub_cin)) with 1 in H1.
  rewrite to_Z_app, app_length, H2. cbn [to_Z length].
  pose proof (to_Z_range s) as Rs. rewrite H2 in Rs.
  pose proof (to_Z_range a) as Ra. pose proof (to_Z_range b) as Rb. rewrite <- Hl in Rb.
  set (P := 2 ^ Z.of_nat (length a)) in *.
  split; [|lia].
  destruct (to_Z b <=? to_Z a) eqn:E.
  - assert (c = true) by (destruct c; [reflexivity|simpl in H1; lia]). subst c.
    simpl b2z in H1. rewrite Z.mod_small by lia. lia.
  - assert (c = false) by (destruct c; [simpl in H1; lia|reflexivity]). subst c.
    simpl b2z in H1.
    assert (Hm : (to_Z a - to_Z b) mod P = to_Z a - to_Z b + P).
    { symmetry. apply Z.mod_unique with (q := -1); lia. }
    rewrite Hm. lia.
Qed.

(* the positive statement, under the one fact about the generated top-bit formula
   that it needs; discharged by reflexivity when the code returns ~carry_out *)
Lemma basic_sub_correct_if :
  (forall c, g_sub_top balg c = negb c) ->
  forall a b, length a = length b ->
  to_Z (basic_sub balg a b) = (to_Z a - to_Z b) mod 2 ^ Z.of_nat (S (length a))
  /\ length (basic_sub balg a b) = S (length a).
Proof.
  intros Htop a b Hl. destruct (basic_sub_value a b Hl) as [Hv Hlen]. split; [|exact Hlen].
  rewrite Hv, Htop, pow2_S.
  pose proof (to_Z_range a) as Ra. pose proof (to_Z_range b) as Rb. rewrite <- Hl in Rb.
  set (P := 2 ^ Z.of_nat (length a)) in *.
  destruct (to_Z b <=? to_Z a) eqn:E; simpl b2z.
  - rewrite !Z.mod_small by lia. lia.
  - assert (Hm : (to_Z a - to_Z b) mod P = to_Z a - to_Z b + P).
    { symmetry. apply Z.mod_unique with (q := -1); lia. }
    rewrite Hm. apply Z.mod_unique with (q := -1); lia.
Qed.

(* the defect form (F1): if the code returns the carry itself, the top bit of
   EVERY difference is inverted *)
Lemma basic_sub_inverted_if :
  (forall c, g_sub_top balg c = c) ->
  forall a b, length a = length b ->
  to_Z (basic_sub balg a b)
  = (to_Z a - to_Z b + 2 ^ Z.of_nat (length a)) mod 2 ^ Z.of_nat (S (length a)).
Proof.
  intros Htop a b Hl. destruct (basic_sub_value a b Hl) as [Hv _].
  rewrite Hv, Htop, pow2_S.
  pose proof (to_Z_range a) as Ra. pose proof (to_Z_range b) as Rb. rewrite <- Hl in Rb.
  set (P := 2 ^ Z.of_nat (length a)) in *.
  destruct (to_Z b <=? to_Z a) eqn:E; simpl b2z.
  - rewrite !Z.mod_small by lia. lia.
  - assert (Hm : (to_Z a - to_Z b) mod P = to_Z a - to_Z b + P).
    { symmetry. apply Z.mod_unique with (q := -1); lia. }
    rewrite Hm. rewrite Z.mod_small by lia. lia.
Qed.

(* ------------------------------------------------------------------ _basic_eq *)

Lemma tree_reduce_or fuel : forall l, (length l <= fuel)%nat ->
  tree_reduce balg fuel orb l = existsb (fun x => x) l.
Proof.
  induction fuel as [|f IH]; intros l Hl.
  - destruct l as [|x [|y r]].
    + reflexivity.
    + simpl. destruct x; reflexivity.
    + simpl in Hl. lia.
  - destruct l as [|x [|y r]]; [reflexivity|simpl; destruct x; reflexivity|].
    set (l := x :: y :: r) in *.
    change (tree_reduce balg (S f) orb l)
      with (orb (tree_reduce balg f orb (firstn (Nat.div2 (length l)) l))
                (tree_reduce balg f orb (skipn (Nat.div2 (length l)) l))).
    assert (Hlen : (2 <= length l)%nat) by (subst l; simpl; lia).
    assert (Hh : (1 <= Nat.div2 (length l) < length l)%nat).
    { rewrite Nat.div2_div. split.
      - apply Nat.div_le_lower_bound; lia.
      - apply Nat.div_lt; lia. }
    rewrite !IH.
    + rewrite <- existsb_app, firstn_skipn. reflexivity.
    + rewrite skipn_length. lia.
    + rewrite firstn_length. lia.
Qed.

Lemma neq_bits a : forall b, length a = length b ->
  existsb (fun x => x) (map2 (g_eq_bit balg) a b) = negb (to_Z a =? to_Z b).
Proof.
  induction a as [|x ta IH]; intros [|y tb] Hl; try discriminate; [reflexivity|].
  cbn [map2 existsb to_Z]. rewrite IH by (simpl in Hl; lia).
  destruct x, y; cbv [g_eq_bit balg bxor xorb orb b2z]; lia.
Qed.

Theorem basic_eq_correct a b : basic_eq balg a b = [to_Z a =? to_Z b].
Proof.
  unfold basic_eq, match_bw.
  set (n := Nat.max (length a) (length b)).
  unfold or_all_bits. rewrite tree_reduce_or by lia.
  rewrite neq_bits by (rewrite !zext_length; lia).
  rewrite !zext_val. change (g_eq_post balg) with negb. rewrite negb_involutive. reflexivity.
Qed.

(* ------------------------------------------------------------------ _basic_lt / _basic_gt *)

Lemma lt_base_spec x y : g_lt_base balg x y = (b2z x <? b2z y).
Proof. destruct x, y; reflexivity. Qed.

Lemma lt_from_spec a : forall b acc pa pb (k : nat), length a = length b ->
  0 <= pa < 2 ^ Z.of_nat k -> 0 <= pb < 2 ^ Z.of_nat k -> acc = (pa <? pb) ->
  lt_from balg acc a b = (pa + 2 ^ Z.of_nat k * to_Z a <? pb + 2 ^ Z.of_nat k * to_Z b).
Proof.
  induction a as [|x ta IH]; intros [|y tb] acc pa pb k Hl Ha Hb Hacc; try discriminate.
  - simpl. rewrite !Z.mul_0_r, !Z.add_0_r. exact Hacc.
  - cbn [lt_from to_Z].
    rewrite (IH tb _ (pa + 2 ^ Z.of_nat k * b2z x) (pb + 2 ^ Z.of_nat k * b2z y) (S k)).
    + rewrite pow2_S. f_equal; ring.
    + simpl in Hl. lia.
    + rewrite pow2_S. pose proof (b2z_range x). nia.
    + rewrite pow2_S. pose proof (b2z_range y). nia.
    + subst acc. set (P := 2 ^ Z.of_nat k) in *.
      destruct x, y; cbn [g_lt_step balg band bor bxor bnot b2z negb andb orb xorb];
        destruct (pa <? pb) eqn:E; simpl; lia.
Qed.

Theorem basic_lt_correct a b : length a = length b -> a <> [] ->
  basic_lt balg a b = [to_Z a <? to_Z b].
Proof.
  intros Hl Hne. destruct a as [|x ta]; [congruence|]. destruct b as [|y tb]; [discriminate|].
  cbn [basic_lt]. f_equal.
  rewrite (lt_from_spec ta tb _ (b2z x) (b2z y) 1).
  - cbn [to_Z]. change (2 ^ Z.of_nat 1) with 2. reflexivity.
  - simpl in Hl. lia.
  - change (2 ^ Z.of_nat 1) with 2. pose proof (b2z_range x). lia.
  - change (2 ^ Z.of_nat 1) with 2. pose proof (b2z_range y). lia.
  - apply lt_base_spec.
Qed.

Theorem basic_gt_correct a b : length a = length b -> a <> [] ->
  basic_gt balg a b = [to_Z a >? to_Z b].
Proof.
  intros Hl Hne. unfold basic_gt. change g_gt_swaps with true. cbv iota.
  rewrite basic_lt_correct; [|congruence|].
  - rewrite Z.gtb_ltb. reflexivity.
  - intro Hb. subst b. destruct a; [congruence|discriminate].
Qed.

(* ------------------------------------------------------------------ _basic_select *)

Theorem basic_select_correct s a : forall b, length a = length b ->
  basic_select balg s a b = if s then b else a.
Proof.
  induction a as [|x ta IH]; intros [|y tb] Hl; try discriminate.
  - destruct s; reflexivity.
  - unfold basic_select in *. cbn [map2]. rewrite IH by (simpl in Hl; lia).
    destruct s, x, y; reflexivity.
Qed.

(* ------------------------------------------------------------------ _basic_mult *)

(* number of 1s in a column; weighted sum of a column array *)
Fixpoint popc (l : list bool) : Z :=
  match l with [] => 0 | b :: t => b2z b + popc t end.
Fixpoint colsum (cols : list (list bool)) : Z :=
  match cols with [] => 0 | c :: r => popc c + 2 * colsum r end.

Lemma popc_app a b : popc (a ++ b) = popc a + popc b.
Proof. induction a as [|x t IH]; cbn [app popc]; lia. Qed.

Lemma popc_nonneg l : 0 <= popc l.
Proof. induction l as [|x t IH]; cbn [popc]; [lia|]. pose proof (b2z_range x). lia. Qed.

Lemma colsum_repeat_nil n : colsum (repeat [] n) = 0.
Proof. induction n; cbn [repeat colsum popc]; lia. Qed.

Lemma add_at_spec x cols : forall k, (k < length cols)%nat ->
  colsum (add_at k x cols) = colsum cols + 2 ^ Z.of_nat k * b2z x
  /\ length (add_at k x cols) = length cols.
Proof.
  induction cols as [|c r IH]; intros k Hk; [simpl in Hk; lia|].
  destruct k as [|k]; cbn [add_at colsum length].
  - rewrite popc_app. cbn [popc]. change (2 ^ Z.of_nat 0) with 1. split; lia.
  - destruct (IH k ltac:(simpl in Hk; lia)) as [H1 H2]. rewrite H1, H2, pow2_S. split; lia.
Qed.

Lemma pp_row_spec i a bs : forall j cols, (i + j + length bs <= length cols)%nat ->
  colsum (pp_row balg i a j bs cols) = colsum cols + 2 ^ Z.of_nat (i + j) * b2z a * to_Z bs
  /\ length (pp_row balg i a j bs cols) = length cols.
Proof.
  induction bs as [|b r IH]; intros j cols Hl.
  - cbn [pp_row to_Z]. split; lia.
  - cbn [pp_row to_Z]. cbn [length] in Hl.
    destruct (add_at_spec (g_mult_pp balg a b) cols (i + j) ltac:(lia)) as [A1 A2].
    destruct (IH (S j) (add_at (i + j) (g_mult_pp balg a b) cols) ltac:(lia)) as [H1 H2].
    rewrite H1, H2, A1, A2.
    replace (i + S j)%nat with (S (i + j)) by lia. rewrite pow2_S.
    change (g_mult_pp balg a b) with (a && b). split; [|reflexivity].
    destruct a, b; cbn [andb b2z]; ring.
Qed.

Lemma pp_all_spec bs as_ : forall i cols, (i + length as_ + length bs <= length cols)%nat ->
  colsum (pp_all balg i as_ bs cols) = colsum cols + 2 ^ Z.of_nat i * to_Z as_ * to_Z bs
  /\ length (pp_all balg i as_ bs cols) = length cols.
Proof.
  induction as_ as [|a r IH]; intros i cols Hl.
  - cbn [pp_all to_Z]. split; lia.
  - cbn [pp_all to_Z]. cbn [length] in Hl.
    destruct (pp_row_spec i a bs 0%nat cols ltac:(lia)) as [A1 A2].
    destruct (IH (S i) (pp_row balg i a 0 bs cols) ltac:(lia)) as [H1 H2].
    rewrite H1, H2, A1, A2. rewrite Nat.add_0_r, pow2_S. split; [ring|reflexivity].
Qed.

Lemma mult_fa_spec a b c :
  b2z (g_mult_fa_sum balg a b c) + 2 * b2z (g_mult_fa_carry balg a b c) = b2z a + b2z b + b2z c.
Proof. destruct a, b, c; reflexivity. Qed.

Lemma mult_ha_spec a b :
  b2z (g_mult_ha_sum balg a b) + 2 * b2z (g_mult_ha_carry balg a b) = b2z a + b2z b.
Proof. destruct a, b; reflexivity. Qed.

(* one column of one pass preserves the weighted count and does not add wires *)
Lemma col3_spec n : forall w, (length w <= n)%nat ->
  popc w = popc (fst (col3 balg w)) + 2 * popc (snd (col3 balg w))
  /\ (length (fst (col3 balg w)) + length (snd (col3 balg w)) <= length w)%nat
  /\ (3 <= length w -> length (fst (col3 balg w)) + length (snd (col3 balg w)) < length w)%nat.
Proof.
  induction n as [|n IH]; intros w Hl.
  - destruct w; [|simpl in Hl; lia]. cbn. repeat split; lia.
  - destruct w as [|a [|b [|c r]]].
    + cbn. repeat split; lia.
    + cbn [col3 fst snd popc length]. repeat split; lia.
    + cbn [col3 fst snd popc length]. pose proof (mult_ha_spec a b). repeat split; lia.
    + cbn [col3]. specialize (IH r ltac:(simpl in Hl; lia)).
      destruct (col3 balg r) as [s k]. cbn [fst snd popc length] in *.
      pose proof (mult_fa_spec a b c). destruct IH as (I1 & I2 & I3). repeat split; lia.
Qed.

(* REDUCTION-STEP INVARIANT: one pass of the Wallace loop preserves
   sum_i 2^i |column_i| modulo 2^result_bitwidth (d = the dropped carries) *)
Lemma pass_spec cols : forall cin, exists d, 0 <= d
  /\ colsum (pass balg cols cin) + 2 ^ Z.of_nat (length cols) * d = popc cin + colsum cols
  /\ length (pass balg cols cin) = length cols.
Proof.
  induction cols as [|w r IH]; intro cin.
  - exists (popc cin). cbn [pass colsum length]. change (2 ^ Z.of_nat 0) with 1.
    pose proof (popc_nonneg cin). repeat split; lia.
  - cbn [pass]. destruct (col3_spec (length w) w (le_n _)) as (C1 & _ & _).
    destruct (col3 balg w) as [s k]. cbn [fst snd] in C1.
    destruct (IH k) as (d & D0 & D1 & D2). exists d.
    cbn [colsum length]. rewrite popc_app, pow2_S, D2. repeat split; lia.
Qed.

Lemma total_bits_cons (c : list bool) r : total_bits (c :: r) = (length c + total_bits r)%nat.
Proof. reflexivity. Qed.

Lemma pass_total cols : forall cin,
  (total_bits (pass balg cols cin) <= length cin + total_bits cols)%nat
  /\ (reduced cols = false -> total_bits (pass balg cols cin) < length cin + total_bits cols)%nat.
Proof.
  induction cols as [|w r IH]; intro cin.
  - cbn [pass]. split; [cbn; lia|]. intro H. discriminate.
  - cbn [pass]. destruct (col3_spec (length w) w (le_n _)) as (_ & C2 & C3).
    destruct (col3 balg w) as [s k]. cbn [fst snd] in C2, C3.
    destruct (IH k) as [I1 I2].
    rewrite !total_bits_cons, app_length. split; [lia|].
    unfold reduced. cbn [forallb]. fold (reduced r). intro H.
    apply andb_false_iff in H. destruct H as [H|H].
    + apply Nat.leb_gt in H. specialize (C3 ltac:(lia)). lia.
    + specialize (I2 H). lia.
Qed.

Lemma total0_reduced (cols : list (list bool)) : total_bits cols = 0%nat -> reduced cols = true.
Proof.
  induction cols as [|c r IH]; intro H; [reflexivity|].
  rewrite total_bits_cons in H. unfold reduced. cbn [forallb]. fold (reduced r).
  rewrite IH by lia. assert (length c = 0)%nat by lia.
  destruct c; [reflexivity|discriminate].
Qed.

Lemma wallace_spec fuel : forall cols, exists d, 0 <= d
  /\ colsum (wallace balg fuel cols) + 2 ^ Z.of_nat (length cols) * d = colsum cols
  /\ length (wallace balg fuel cols) = length cols.
Proof.
  induction fuel as [|f IH]; intro cols.
  - exists 0. cbn [wallace]. destruct (reduced cols); repeat split; lia.
  - cbn [wallace]. destruct (reduced cols).
    + exists 0. repeat split; lia.
    + destruct (pass_spec cols []) as (d1 & P0 & P1 & P2).
      destruct (IH (pass balg cols [])) as (d2 & Q0 & Q1 & Q2).
      exists (d1 + d2). rewrite P2 in Q1, Q2. cbn [popc] in P1. repeat split; lia.
Qed.

(* the fuel the model gives the loop (the number of partial products) suffices *)
Lemma wallace_reduced fuel : forall cols, (total_bits cols <= fuel)%nat ->
  reduced (wallace balg fuel cols) = true.
Proof.
  induction fuel as [|f IH]; intros cols Hf.
  - cbn [wallace]. destruct (reduced cols) eqn:E; [exact E|].
    rewrite total0_reduced in E by lia. discriminate.
  - cbn [wallace]. destruct (reduced cols) eqn:E; [exact E|].
    apply IH. destruct (pass_total cols []) as [_ H]. specialize (H E). simpl in H. lia.
Qed.

Lemma rows_spec cols : reduced cols = true ->
  colsum cols = to_Z (map (fun c => nth 0 c false) cols) + to_Z (map (fun c => nth 1 c false) cols).
Proof.
  induction cols as [|c r IH]; intro H; [reflexivity|].
  unfold reduced in H. cbn [forallb] in H. fold (reduced r) in H.
  apply andb_true_iff in H. destruct H as [Hc Hr].
  cbn [map colsum to_Z]. rewrite (IH Hr).
  destruct c as [|x [|y [|z t]]]; cbn [nth popc b2z]; try lia.
  simpl in Hc. discriminate.
Qed.

Definition mult_wallace (A Bv : list bool) : list bool :=
  let rw := (length A + length Bv)%nat in
  let bits := pp_all balg 0 A Bv (repeat [] rw) in
  let cols := wallace balg (total_bits bits) bits in
  let row0 := map (fun c => nth 0 c (gzero balg)) cols in
  let row1 := map (fun c => nth 1 c (gzero balg)) cols in
  firstn rw (basic_add balg row0 row1).

Lemma mult_wallace_correct A Bv : to_Z (mult_wallace A Bv) = to_Z A * to_Z Bv.
Proof.
  unfold mult_wallace.
  set (rw := (length A + length Bv)%nat).
  destruct (pp_all_spec Bv A 0%nat (repeat [] rw)) as [B1 B2].
  { rewrite repeat_length. subst rw. lia. }
  set (bits := pp_all balg 0 A Bv (repeat [] rw)) in *.
  rewrite colsum_repeat_nil, repeat_length in *.
  destruct (wallace_spec (total_bits bits) bits) as (d & D0 & D1 & D2).
  pose proof (wallace_reduced (total_bits bits) bits (le_n _)) as Hred.
  set (cols := wallace balg (total_bits bits) bits) in *.
  change (gzero balg) with false.
  rewrite to_Z_firstn. destruct (basic_add_correct (map (fun c => nth 0 c false) cols)
                                                  (map (fun c => nth 1 c false) cols)) as [Hadd _].
  rewrite Hadd, <- (rows_spec cols Hred).
  rewrite B2 in D1. change (2 ^ Z.of_nat 0) with 1 in B1.
  pose proof (to_Z_range A) as RA. pose proof (to_Z_range Bv) as RB.
  assert (HP : 2 ^ Z.of_nat rw = 2 ^ Z.of_nat (length A) * 2 ^ Z.of_nat (length Bv)).
  { subst rw. rewrite Nat2Z.inj_add, Z.pow_add_r by lia. reflexivity. }
  symmetry. apply Z.mod_unique with (q := - d).
  - left. rewrite HP. nia.
  - lia.
Qed.

Lemma to_Z_map_pp1 a l : to_Z (map (g_mult_pp1 balg a) l) = b2z a * to_Z l.
Proof.
  induction l as [|b t IH]; cbn [map to_Z]; [lia|]. rewrite IH.
  change (g_mult_pp1 balg a b) with (a && b). destruct a, b; cbn [andb b2z]; lia.
Qed.

Definition mult_core (A Bv : list bool) : list bool :=
  match A with
  | [a] => map (g_mult_pp1 balg a) Bv ++ [gzero balg]
  | _ => mult_wallace A Bv
  end.

Lemma mult_core_correct A Bv : to_Z (mult_core A Bv) = to_Z A * to_Z Bv.
Proof.
  destruct A as [|a [|a' r]]; cbn [mult_core].
  - apply mult_wallace_correct.
  - rewrite to_Z_app, to_Z_map_pp1. cbn [to_Z]. change (b2z (gzero balg)) with 0. lia.
  - apply mult_wallace_correct.
Qed.

Lemma basic_mult_unfold A Bv :
  basic_mult balg A Bv = if Nat.eqb (length Bv) 1 then mult_core Bv A else mult_core A Bv.
Proof.
  unfold basic_mult. destruct (Nat.eqb (length Bv) 1).
  - destruct Bv as [|b [|b' r]]; reflexivity.
  - destruct A as [|a [|a' r]]; reflexivity.
Qed.

(* the Wallace multiplier is exact for all operand widths: the loop terminates
   within the model's fuel with every column holding at most 2 wires, and the
   final adder sums the two rows *)
Theorem basic_mult_correct A Bv : to_Z (basic_mult balg A Bv) = to_Z A * to_Z Bv.
Proof.
  rewrite basic_mult_unfold. destruct (Nat.eqb (length Bv) 1); rewrite mult_core_correct; ring.
Qed.
