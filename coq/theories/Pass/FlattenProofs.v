(* Sem.run of the flattened synthesized netlist (Pass/Flatten.v) computes, bit by
   bit, the gate-level run of Pass/Synth.v -- and hence (SynthProofs) the bits of
   Sem.run of the original netlist. *)
From Coq Require Import ZArith List Bool Lia ZifyBool.
From PyRTL Require Import Base.PyZ Netlist.Sem Netlist.WFDefs Pass.BasicGates Pass.BasicGatesProofs
  Pass.Synth Pass.SynthProofs Pass.SynthStructure Pass.Flatten.
Import ListNotations.
Open Scope Z_scope.

(* ------------------------------------------------------------------ sorted wire tables *)

(* names strictly increasing and > lo *)
Fixpoint inc (lo : Z) (ws : list wire) : Prop :=
  match ws with [] => True | x :: r => lo < wname x /\ inc (wname x) r end.

Definition below (hi : Z) (ws : list wire) : Prop := forall x, In x ws -> wname x < hi.

Lemma inc_weaken lo lo' ws : lo' <= lo -> inc lo ws -> inc lo' ws.
Proof. destruct ws; cbn [inc]; [auto|]. intros H [H1 H2]. split; [lia|assumption]. Qed.

Lemma inc_lower lo ws x : inc lo ws -> In x ws -> lo < wname x.
Proof.
  revert lo. induction ws as [|y r IH]; intros lo H Hin; [contradiction|].
  cbn [inc] in H. destruct H as [H1 H2]. destruct Hin as [<-|Hin]; [assumption|].
  specialize (IH _ H2 Hin). lia.
Qed.

Lemma inc_app lo mid l1 l2 : inc lo l1 -> below (mid + 1) l1 -> lo <= mid -> inc mid l2 -> inc lo (l1 ++ l2).
Proof.
  revert lo. induction l1 as [|x r IH]; intros lo H1 Hb Hle H2; cbn [app].
  - apply (inc_weaken mid); assumption.
  - cbn [inc] in *. destruct H1 as [Ha Hr]. split; [assumption|].
    apply IH; try assumption.
    + intros y Hy. apply Hb. right. assumption.
    + specialize (Hb x (or_introl eq_refl)). lia.
Qed.

Lemma inc_find lo ws x : inc lo ws -> In x ws -> find_wire ws (wname x) = Some x.
Proof.
  revert lo. induction ws as [|y r IH]; intros lo H Hin; [contradiction|].
  cbn [inc] in H. destruct H as [H1 H2]. cbn [find_wire].
  destruct Hin as [->|Hin]; [rewrite Z.eqb_refl; reflexivity|].
  pose proof (inc_lower _ _ _ H2 Hin). destruct (wname y =? wname x) eqn:E; [lia|].
  eapply IH; eassumption.
Qed.

Lemma inc_filter f lo ws : inc lo ws -> inc lo (filter f ws).
Proof.
  revert lo. induction ws as [|x r IH]; intros lo H; [exact I|].
  cbn [inc] in H. destruct H as [H1 H2]. cbn [filter]. destruct (f x).
  - cbn [inc]. split; [assumption|]. apply IH. assumption.
  - apply (inc_weaken (wname x)); [lia|]. apply IH. assumption.
Qed.

Lemma incb_inc lo ws : incb lo ws = true -> inc lo ws.
Proof.
  revert lo. induction ws as [|x r IH]; intros lo H; [exact I|].
  cbn [incb] in H. apply andb_true_iff in H. destruct H as [H1 H2]. split; [lia|auto].
Qed.

(* ------------------------------------------------------------------ emitted ids *)

Section Ids.
Variable nl : netlist.

Local Notation bid := (bid nl).
Local Notation KK := (KK nl).
Local Notation NN := (NN nl).
Local Notation T0 := (T0 nl).

Lemma gsize_nonneg g : 0 <= gsize g.
Proof. induction g; cbn [gsize]; lia. Qed.

Ltac bin_case IHa IHb a b base :=
  unfold gate2;
      destruct (IHa (base + 1)) as [A1 A2]; destruct (IHb (base + 1 + gsize a)) as [B1 B2];
      destruct (emit _ a (base + 1)) as [ia [na wa]]; destruct (emit _ b (base + 1 + gsize a)) as [ib [nb wb]];
      cbn [snd] in *; pose proof (gsize_nonneg a); pose proof (gsize_nonneg b); split;
      [ cbn [inc wname]; split; [lia|];
        replace (base + 1 - 1) with base in A1 by lia;
        apply (inc_app base (base + gsize a)); [exact A1| intros x Hx; specialize (A2 x Hx); lia | lia
                                              | replace (base + 1 + gsize a - 1) with (base + gsize a) in B1 by lia; exact B1 ]
      | intros x [<-|Hx]; [cbn [wname]; lia|]; apply in_app_or in Hx; destruct Hx as [Hx|Hx];
        [specialize (A2 x Hx)|specialize (B2 x Hx)]; lia ].

(* wires of emit g base: increasing, within [base, base + gsize g) *)
Lemma emit_wires g : forall base,
  inc (base - 1) (snd (snd (emit nl g base)))
  /\ below (base + gsize g) (snd (snd (emit nl g base))).
Proof.
  induction g as [w i|b|a IHa|a IHa b IHb|a IHa b IHb|a IHa b IHb|a IHa b IHb]; intro base; cbn [emit gsize].
  - split; [exact I|intros x []].
  - cbn [snd inc wname]. split; [split; [lia|exact I]|]. intros x [<-|[]]. cbn. lia.
  - destruct (IHa (base + 1)) as [I1 I2]. destruct (emit nl a (base + 1)) as [ia [na wa]]. cbn [snd] in *.
    split.
    + cbn [inc wname]. split; [lia|]. replace (base + 1 - 1) with base in I1 by lia. exact I1.
    + intros x [<-|Hx]; [cbn [wname]; pose proof (gsize_nonneg a); lia|]. specialize (I2 x Hx). lia.
  - bin_case IHa IHb a b base.
  - bin_case IHa IHb a b base.
  - bin_case IHa IHb a b base.
  - bin_case IHa IHb a b base.
Qed.


Lemma bits_size_nonneg bits : 0 <= bits_size bits.
Proof. induction bits as [|g r IH]; cbn [bits_size fold_right]; [lia|]. fold (bits_size r). pose proof (gsize_nonneg g). lia. Qed.

Lemma bits_size_cons g r : bits_size (g :: r) = gsize g + bits_size r.
Proof. reflexivity. Qed.

Lemma emit_bits_wires bits : forall d j base,
  inc (base - 1) (snd (emit_bits nl d j bits base))
  /\ below (base + bits_size bits) (snd (emit_bits nl d j bits base)).
Proof.
  induction bits as [|g r IH]; intros d j base; cbn [emit_bits].
  - split; [exact I|intros x []].
  - destruct (emit_wires g base) as [E1 E2]. destruct (emit nl g base) as [id [ns ws]]. cbn [snd] in E1, E2.
    destruct (IH d (S j) (base + gsize g)) as [I1 I2].
    destruct (emit_bits nl d (S j) r (base + gsize g)) as [ns' ws']. cbn [snd] in *.
    rewrite bits_size_cons. pose proof (gsize_nonneg g). pose proof (bits_size_nonneg r). split.
    + apply (inc_app (base - 1) (base + gsize g - 1)); try assumption; try lia.
      intros x Hx. specialize (E2 x Hx). lia.
    + intros x Hx. apply in_app_or in Hx. destruct Hx as [Hx|Hx]; [specialize (E2 x Hx)|specialize (I2 x Hx)]; lia.
Qed.

Lemma gnet_size_nonneg g : 0 <= gnet_size g.
Proof. destruct g; cbn [gnet_size]; try lia. apply bits_size_nonneg. Qed.

Lemma emit_gnet_wires g base :
  inc (base - 1) (snd (emit_gnet nl g base))
  /\ below (base + gnet_size g) (snd (emit_gnet nl g base)).
Proof.
  destruct g; cbn [emit_gnet gnet_size snd].
  - apply emit_bits_wires.
  - split; [exact I|intros x []].
  - split; [cbn [inc wname]; lia|]. intros x [<-|[<-|[]]]; cbn [wname]; lia.
  - split; [cbn [inc wname]; lia|]. intros x [<-|[<-|[]]]; cbn [wname]; lia.
Qed.

Definition gnets_size (gs : list gnet) : Z := fold_right (fun g s => gnet_size g + s) 0 gs.

Lemma gnets_size_nonneg gs : 0 <= gnets_size gs.
Proof. induction gs as [|g r IH]; cbn [gnets_size fold_right]; [lia|]. fold (gnets_size r). pose proof (gnet_size_nonneg g). lia. Qed.

Lemma emit_gnets_wires gs : forall base,
  inc (base - 1) (snd (emit_gnets nl gs base))
  /\ below (base + gnets_size gs) (snd (emit_gnets nl gs base)).
Proof.
  induction gs as [|g r IH]; intro base; cbn [emit_gnets].
  - split; [exact I|intros x []].
  - destruct (emit_gnet_wires g base) as [E1 E2]. destruct (emit_gnet nl g base) as [ns ws]. cbn [snd] in E1, E2.
    destruct (IH (base + gnet_size g)) as [I1 I2].
    destruct (emit_gnets nl r (base + gnet_size g)) as [ns' ws']. cbn [snd] in *.
    change (gnets_size (g :: r)) with (gnet_size g + gnets_size r).
    pose proof (gnet_size_nonneg g). pose proof (gnets_size_nonneg r). split.
    + apply (inc_app (base - 1) (base + gnet_size g - 1)); try assumption; try lia.
      intros x Hx. specialize (E2 x Hx). lia.
    + intros x Hx. apply in_app_or in Hx. destruct Hx as [Hx|Hx]; [specialize (E2 x Hx)|specialize (I2 x Hx)]; lia.
Qed.

Lemma maxid_ge x : In x (wires nl) -> wname x <= maxid nl.
Proof.
  unfold maxid. induction (wires nl) as [|y r IH]; intro H; [contradiction|].
  cbn [fold_right]. destruct H as [<-|H]; [lia|]. specialize (IH H). lia.
Qed.

Lemma maxw_ge x : In x (wires nl) -> wwidth x <= maxw nl.
Proof.
  unfold maxw. induction (wires nl) as [|y r IH]; intro H; [contradiction|].
  cbn [fold_right]. destruct H as [<-|H]; [lia|]. specialize (IH H). lia.
Qed.

Lemma maxw_nonneg : 0 <= maxw nl.
Proof. unfold maxw. induction (wires nl) as [|y r IH]; cbn [fold_right]; lia. Qed.

Lemma maxid_nonneg : 0 <= maxid nl.
Proof. unfold maxid. induction (wires nl) as [|y r IH]; cbn [fold_right]; lia. Qed.

(* ---- the original wire table: positive, strictly increasing ids ---- *)
Hypothesis Hids : inc 0 (wires nl).
Hypothesis Hwidths : forallb (fun x => 0 <=? wwidth x) (wires nl) = true.

Lemma KK_pos : 1 <= KK.
Proof. pose proof Hids as Hids_u. pose proof Hwidths as Hwidths_u.  unfold Flatten.KK. pose proof maxw_nonneg. lia. Qed.

Lemma NN_pos : 1 <= NN.
Proof. pose proof Hids as Hids_u. pose proof Hwidths as Hwidths_u.  unfold Flatten.NN. pose proof maxid_nonneg. lia. Qed.

Lemma wire_bounds x : In x (wires nl) -> 0 < wname x < NN /\ 0 <= wwidth x < KK.
Proof. pose proof Hids as Hids_u. pose proof Hwidths as Hwidths_u. 
  intro H. pose proof (maxid_ge x H). pose proof (maxw_ge x H). pose proof (inc_lower _ _ _ Hids H).
  rewrite forallb_forall in Hwidths. specialize (Hwidths x H). unfold Flatten.NN, Flatten.KK. lia.
Qed.

Lemma xnat_lt x : In x (wires nl) -> Z.of_nat (xnat x) < KK.
Proof. pose proof Hids as Hids_u. pose proof Hwidths as Hwidths_u.  intro H. destruct (wire_bounds x H) as [_ Hw]. unfold xnat. lia. Qed.

(* decoding a bit id *)
Lemma bid_decode w (i : nat) : 0 <= w -> Z.of_nat i < KK ->
  (bid w i - NN) / KK = w /\ (bid w i - NN) mod KK = Z.of_nat i.
Proof. pose proof Hids as Hids_u. pose proof Hwidths as Hwidths_u. 
  intros Hw Hi. unfold Flatten.bid.
  replace (NN + w * KK + Z.of_nat i - NN) with (Z.of_nat i + w * KK) by lia.
  pose proof KK_pos. rewrite Z.div_add, Z.mod_add by lia.
  rewrite Z.div_small, Z.mod_small by lia. split; lia.
Qed.

Lemma bid_inj w i w' i' : 0 <= w -> 0 <= w' -> Z.of_nat i < KK -> Z.of_nat i' < KK ->
  bid w i = bid w' i' -> w = w' /\ i = i'.
Proof. pose proof Hids as Hids_u. pose proof Hwidths as Hwidths_u. 
  intros Hw Hw' Hi Hi' E.
  destruct (bid_decode w i Hw Hi) as [D1 D2]. destruct (bid_decode w' i' Hw' Hi') as [D1' D2'].
  rewrite E in D1, D2. split; lia.
Qed.

Lemma bid_range w i : 0 <= w < NN -> Z.of_nat i < KK -> NN <= bid w i < T0.
Proof. pose proof Hids as Hids_u. pose proof Hwidths as Hwidths_u.  intros Hw Hi. unfold Flatten.bid, Flatten.T0. pose proof KK_pos. nia. Qed.

End Ids.

(* ------------------------------------------------------------------ the wire table of the flattened netlist *)

Section Table.
Variable merge : bool.
Variable nl : netlist.
Hypothesis Hids : inc 0 (wires nl).
Hypothesis Hwidths : forallb (fun x => 0 <=? wwidth x) (wires nl) = true.

Local Notation bid := (bid nl).
Local Notation KK := (KK nl).
Local Notation NN := (NN nl).
Local Notation T0 := (T0 nl).
Local Notation nl' := (flatten merge nl).

Lemma flatten_wires :
  wires nl' = vec_wires merge nl ++ bit_wires merge nl ++ snd (emit_gnets nl (osynth nl) T0).
Proof. unfold flatten. destruct (emit_gnets nl (osynth nl) T0). reflexivity. Qed.

Lemma flatten_nets :
  nets nl' = in_nets merge nl ++ fst (emit_gnets nl (osynth nl) T0) ++ out_nets merge nl.
Proof. unfold flatten. destruct (emit_gnets nl (osynth nl) T0). reflexivity. Qed.

Lemma flatten_mems : mems nl' = mems nl.
Proof. unfold flatten. destruct (emit_gnets nl (osynth nl) T0). reflexivity. Qed.

Lemma seq_bit_wires w (k : nat -> kind) n : forall s,
  inc (bid w s - 1) (map (fun i => mkWire (bid w i) 1 (k i)) (seq s n))
  /\ below (bid w s + Z.of_nat n) (map (fun i => mkWire (bid w i) 1 (k i)) (seq s n)).
Proof.
  induction n as [|n IH]; intro s; cbn [seq map].
  - split; [exact I|intros x []].
  - destruct (IH (S s)) as [I1 I2]. split.
    + cbn [inc wname]. split; [lia|].
      replace (bid w (S s) - 1) with (bid w s) in I1 by (unfold Flatten.bid; lia). exact I1.
    + intros x [<-|Hx]; [cbn [wname]; lia|]. specialize (I2 x Hx). unfold Flatten.bid in *. lia.
Qed.

Definition bw (l : list wire) : list wire :=
  flat_map (fun x => map (fun i => mkWire (bid (wname x) i) 1 (bit_kind merge x i)) (seq 0 (xnat x))) l.

Lemma bw_inc l : forall lo, inc lo l -> 0 <= lo -> (forall x, In x l -> Z.of_nat (xnat x) < KK) ->
  inc (NN + (lo + 1) * KK - 1) (bw l).
Proof. pose proof Hids as Hids_u. pose proof Hwidths as Hwidths_u. 
  pose proof (KK_pos nl Hids Hwidths) as HK.
  induction l as [|x r IH]; intros lo Hi Hlo Hx; [exact I|].
  cbn [inc] in Hi. destruct Hi as [H1 H2]. cbn [bw flat_map]. fold (bw r).
  destruct (seq_bit_wires (wname x) (bit_kind merge x) (xnat x) 0%nat) as [S1 S2].
  pose proof (Hx x (or_introl eq_refl)) as Hxx.
  apply (inc_app _ (NN + (wname x + 1) * KK - 1)).
  - apply (inc_weaken (bid (wname x) 0 - 1)); [unfold Flatten.bid; nia|exact S1].
  - intros y Hy. specialize (S2 y Hy). unfold Flatten.bid in S2. nia.
  - nia.
  - apply IH; [assumption|lia|]. intros y Hy. apply Hx. right. assumption.
Qed.

Lemma bw_below l : (forall x, In x l -> 0 < wname x < NN /\ Z.of_nat (xnat x) < KK) -> below T0 (bw l).
Proof. pose proof Hids as Hids_u. pose proof Hwidths as Hwidths_u. 
  pose proof (KK_pos nl Hids Hwidths) as HK. intros H d Hd. unfold bw in Hd. apply in_flat_map in Hd.
  destruct Hd as [x [Hx Hd]]. apply in_map_iff in Hd. destruct Hd as [i [<- Hi]]. apply in_seq in Hi.
  destruct (H x Hx) as [Hn Hw]. cbn [wname]. apply bid_range; try assumption; lia.
Qed.

Lemma table_inc : inc 0 (wires nl').
Proof. pose proof Hids as Hids_u. pose proof Hwidths as Hwidths_u. 
  rewrite flatten_wires. pose proof (NN_pos nl Hids Hwidths) as HN. pose proof (KK_pos nl Hids Hwidths) as HK.
  apply (inc_app 0 (NN - 1)).
  - unfold vec_wires. destruct merge; [apply inc_filter; exact Hids|exact I].
  - intros x Hx. unfold vec_wires in Hx. destruct merge; [|contradiction].
    apply filter_In in Hx. destruct Hx as [Hx _]. destruct (wire_bounds nl Hids Hwidths x Hx). lia.
  - lia.
  - apply (inc_app (NN - 1) (T0 - 1)).
    + apply (inc_weaken (NN + (0 + 1) * KK - 1)); [lia|].
      apply (bw_inc (wires nl) 0); [exact Hids|lia|]. intros x Hx. apply (xnat_lt nl Hids Hwidths x Hx).
    + replace (T0 - 1 + 1) with T0 by lia. apply bw_below. intros x Hx.
      destruct (wire_bounds nl Hids Hwidths x Hx). split; [assumption|]. apply (xnat_lt nl Hids Hwidths x Hx).
    + unfold Flatten.T0. nia.
    + apply emit_gnets_wires.
Qed.

Lemma lookup d : In d (wires nl') -> find_wire (wires nl') (wname d) = Some d.
Proof. pose proof Hids as Hids_u. pose proof Hwidths as Hwidths_u.  apply (inc_find 0). apply table_inc. Qed.

Lemma lookup_width d : In d (wires nl') -> width_of nl' (wname d) = wwidth d.
Proof. pose proof Hids as Hids_u. pose proof Hwidths as Hwidths_u.  intro H. unfold width_of. rewrite (lookup d H). reflexivity. Qed.

Lemma lookup_kind d : In d (wires nl') -> kind_of nl' (wname d) = wkind d.
Proof. pose proof Hids as Hids_u. pose proof Hwidths as Hwidths_u.  intro H. unfold kind_of. rewrite (lookup d H). reflexivity. Qed.

Lemma bit_decl x i : In x (wires nl) -> (i < xnat x)%nat ->
  In (mkWire (bid (wname x) i) 1 (bit_kind merge x i)) (wires nl').
Proof. pose proof Hids as Hids_u. pose proof Hwidths as Hwidths_u. 
  intros Hx Hi. rewrite flatten_wires. apply in_or_app. right. apply in_or_app. left.
  unfold bit_wires. apply in_flat_map. exists x. split; [assumption|].
  apply in_map_iff. exists i. split; [reflexivity|]. apply in_seq. lia.
Qed.

Lemma temp_decl d : In d (snd (emit_gnets nl (osynth nl) T0)) -> In d (wires nl').
Proof. intro H. rewrite flatten_wires. apply in_or_app. right. apply in_or_app. right. assumption. Qed.

Lemma vec_decl x : merge = true -> In x (wires nl) -> is_io x = true -> In x (wires nl').
Proof.
  intros Hm Hx Hio. rewrite flatten_wires. apply in_or_app. left. unfold vec_wires. rewrite Hm.
  apply filter_In. split; assumption.
Qed.

End Table.

Lemma firstn_In {A} (x : A) n : forall l, In x (firstn n l) -> In x l.
Proof.
  induction n as [|n IH]; intros [|y r] H; cbn [firstn] in H; try contradiction.
  destruct H as [->|H]; [left; reflexivity|right; auto].
Qed.

(* ------------------------------------------------------------------ closedness of the emitted gates *)

(* Every gate expression emitted for a net reads only EXISTING bits of the net's
   own arguments (in the code: wv_map[(net.args[x], i)] never raises KeyError).
   Obtained from naturality alone: gclosed is a homomorphism into the algebra
   calg, and so is the constant-true map from bool. *)
Section Closed.
Variable Q : wid -> nat -> bool.

Fixpoint gclosed (g : gexp) : bool :=
  match g with
  | GVar w i => Q w i
  | GConst _ => true
  | GNot a => gclosed a
  | GAnd a b | GOr a b | GXor a b | GNand a b => gclosed a && gclosed b
  end.

Definition calg : galg bool := mkAlg bool andb andb andb andb (fun x => x) (fun _ => true).
Definition ktrue (_ : bool) : bool := true.

Definition alltrue (l : list bool) : Prop := forallb (fun x => x) l = true.

Lemma alltrue_fix l : alltrue l -> l = map ktrue l.
Proof.
  unfold alltrue. induction l as [|x r IH]; intro H; [reflexivity|].
  cbn [forallb] in H. apply andb_true_iff in H. destruct H as [-> H]. cbn [map ktrue]. f_equal. auto.
Qed.

Lemma alltrue_ktrue l : alltrue (map ktrue l).
Proof. unfold alltrue. induction l; cbn; auto. Qed.

Lemma closed_map l : forallb gclosed l = true <-> alltrue (map gclosed l).
Proof.
  unfold alltrue. induction l as [|x r IH]; cbn [map forallb]; [tauto|].
  rewrite !andb_true_iff, IH. tauto.
Qed.

Ltac hd := intros; reflexivity.

(* a binary generator with naturality lemmas at (ealg -> calg, gclosed) and (balg -> calg, ktrue) *)
Lemma closed_gen2 (gen : forall B, galg B -> list B -> list B -> list B)
  (H1 : forall a b, map gclosed (gen _ ealg a b) = gen _ calg (map gclosed a) (map gclosed b))
  (H2 : forall a b, map ktrue (gen _ balg a b) = gen _ calg (map ktrue a) (map ktrue b)) a b :
  forallb gclosed a = true -> forallb gclosed b = true -> forallb gclosed (gen _ ealg a b) = true.
Proof.
  intros Ha Hb. apply closed_map. rewrite H1.
  rewrite (alltrue_fix _ (proj1 (closed_map a) Ha)), (alltrue_fix _ (proj1 (closed_map b) Hb)).
  rewrite <- H2. apply alltrue_ktrue.
Qed.

Lemma closed_add a b : forallb gclosed a = true -> forallb gclosed b = true ->
  forallb gclosed (basic_add ealg a b) = true.
Proof. apply (closed_gen2 (@basic_add)); intros; apply hom_basic_add; hd. Qed.
Lemma closed_sub a b : forallb gclosed a = true -> forallb gclosed b = true ->
  forallb gclosed (basic_sub ealg a b) = true.
Proof. apply (closed_gen2 (@basic_sub)); intros; apply hom_basic_sub; hd. Qed.
Lemma closed_mult a b : forallb gclosed a = true -> forallb gclosed b = true ->
  forallb gclosed (basic_mult ealg a b) = true.
Proof. apply (closed_gen2 (@basic_mult)); intros; apply hom_basic_mult; hd. Qed.
Lemma closed_lt a b : forallb gclosed a = true -> forallb gclosed b = true ->
  forallb gclosed (basic_lt ealg a b) = true.
Proof. apply (closed_gen2 (@basic_lt)); intros; apply hom_basic_lt; hd. Qed.
Lemma closed_gt a b : forallb gclosed a = true -> forallb gclosed b = true ->
  forallb gclosed (basic_gt ealg a b) = true.
Proof. apply (closed_gen2 (@basic_gt)); intros; apply hom_basic_gt; hd. Qed.
Lemma closed_eq a b : forallb gclosed a = true -> forallb gclosed b = true ->
  forallb gclosed (basic_eq ealg a b) = true.
Proof. apply (closed_gen2 (@basic_eq)); intros; apply hom_basic_eq; hd. Qed.

Lemma closed_select s a b : gclosed s = true -> forallb gclosed a = true -> forallb gclosed b = true ->
  forallb gclosed (basic_select ealg s a b) = true.
Proof.
  intros Hs Ha Hb. apply closed_map.
  rewrite (hom_basic_select ealg calg gclosed) by hd.
  rewrite (alltrue_fix _ (proj1 (closed_map a) Ha)), (alltrue_fix _ (proj1 (closed_map b) Hb)), Hs.
  change true with (ktrue false) at 1.
  rewrite <- (hom_basic_select balg calg ktrue) by hd. apply alltrue_ktrue.
Qed.

Lemma closed_fit n l : forallb gclosed l = true -> forallb gclosed (fit ealg n l) = true.
Proof.
  intro H. unfold fit. rewrite forallb_forall in *. intros x Hx. apply firstn_In in Hx.
  apply in_app_or in Hx. destruct Hx as [Hx|Hx]; [auto|]. apply repeat_spec in Hx. subst. reflexivity.
Qed.

Lemma closed_firstn n l : forallb gclosed l = true -> forallb gclosed (firstn n l) = true.
Proof. intro H. rewrite forallb_forall in *. intros x Hx. apply firstn_In in Hx. auto. Qed.

End Closed.

Section LowerClosed.
Variable nl : netlist.

(* bit (a, i) exists and a is an argument of n *)
Definition Qn (n : net) (a : wid) (i : nat) : bool := mem_in a (nargs n) && Nat.ltb i (wnat nl a).

Lemma wbits_closed n a : In a (nargs n) -> forallb (gclosed (Qn n)) (wbits nl a) = true.
Proof.
  intro H. unfold wbits. rewrite forallb_forall. intros g Hg. apply in_map_iff in Hg.
  destruct Hg as [i [<- Hi]]. apply in_seq in Hi. cbn [gclosed]. unfold Qn.
  rewrite (proj2 (mem_in_In _ _) H). cbn [andb]. apply Nat.ltb_lt. lia.
Qed.

Lemma decompose1_closed Q o l : forallb (gclosed Q) l = true ->
  forallb (gclosed Q) (opt_list (map (g_decompose1 ealg o) l) (GConst false)) = true.
Proof.
  intro H. rewrite forallb_forall in *. intros g Hg. unfold opt_list in Hg.
  apply in_map_iff in Hg. destruct Hg as [o' [<- Ho]]. apply in_map_iff in Ho. destruct Ho as [x [<- Hx]].
  specialize (H x Hx). destruct o; cbn; auto.
Qed.

Lemma in_map2 {A B C} (f : A -> B -> C) z a : forall b, In z (map2 f a b) ->
  exists x y, In x a /\ In y b /\ z = f x y.
Proof.
  induction a as [|x ta IH]; intros [|y tb] H; cbn [map2] in H; try contradiction.
  destruct H as [<-|H].
  - exists x, y. repeat split; left; reflexivity.
  - destruct (IH tb H) as (x' & y' & Hx & Hy & E). exists x', y'. repeat split; auto; right; assumption.
Qed.

Lemma decompose2_closed Q o a b : forallb (gclosed Q) a = true -> forallb (gclosed Q) b = true ->
  forallb (gclosed Q) (opt_list (map2 (g_decompose2 ealg o) a b) (GConst false)) = true.
Proof.
  intros Ha Hb. rewrite forallb_forall in *. intros g Hg. unfold opt_list in Hg.
  apply in_map_iff in Hg. destruct Hg as [o' [<- Ho]]. apply in_map2 in Ho.
  destruct Ho as (x & y & Hx & Hy & ->). specialize (Ha x Hx). specialize (Hb y Hy).
  destruct o; cbn; rewrite ?Ha, ?Hb; auto.
Qed.

Lemma nth_in_args n (i : nat) : (i < length (nargs n))%nat -> In (arg n i) (nargs n).
Proof. intros. unfold arg. apply nth_In. assumption. Qed.

Theorem lower_closed n : net_synth_ok nl n = true -> arity_ok (nop n) (length (nargs n)) = true ->
  forallb (gclosed (Qn n)) (lower nl n) = true.
Proof.
  intros Hok Har. unfold lower. unfold net_synth_ok in Hok.
  destruct (nop n) eqn:Eop; cbn [arity_ok] in Har; try reflexivity;
    try (apply Nat.eqb_eq in Har);
    try (pose proof (wbits_closed n (arg n 0) (nth_in_args n 0 ltac:(lia))) as C0);
    try (pose proof (wbits_closed n (arg n 1) (nth_in_args n 1 ltac:(lia))) as C1);
    try (pose proof (wbits_closed n (arg n 2) (nth_in_args n 2 ltac:(lia))) as C2).
  - apply closed_firstn, decompose1_closed, C0.
  - apply closed_firstn, decompose1_closed, C0.
  - apply closed_firstn, decompose2_closed; assumption.
  - apply closed_firstn, decompose2_closed; assumption.
  - apply closed_firstn, decompose2_closed; assumption.
  - apply closed_firstn, decompose2_closed; assumption.
  - apply closed_fit, closed_add; assumption.
  - apply closed_fit, closed_sub; assumption.
  - apply closed_fit, closed_mult; assumption.
  - apply closed_fit, closed_lt; assumption.
  - apply closed_fit, closed_gt; assumption.
  - apply closed_fit, closed_eq; assumption.
  - apply closed_fit, closed_select; try assumption.
    cbn [gclosed]. unfold Qn. rewrite (proj2 (mem_in_In _ _) (nth_in_args n 0 ltac:(lia))). cbn [andb].
    apply Nat.ltb_lt. unfold wnat. lia.
  - (* concat *)
    apply closed_firstn. rewrite forallb_forall. intros g Hg. apply in_flat_map in Hg.
    destruct Hg as [a [Ha Hg]]. apply in_rev in Ha.
    pose proof (wbits_closed n a Ha) as C. rewrite forallb_forall in C. auto.
  - (* select *)
    apply closed_firstn. rewrite forallb_forall. intros g Hg. apply in_map_iff in Hg.
    destruct Hg as [k [<- Hk]]. apply andb_true_iff in Hok. destruct Hok as [_ Hidx].
    rewrite forallb_forall in Hidx. specialize (Hidx k Hk). cbn [gclosed]. unfold Qn.
    rewrite (proj2 (mem_in_In _ _) (nth_in_args n 0 ltac:(lia))). cbn [andb].
    apply Nat.ltb_lt. unfold wnat. lia.
Qed.

End LowerClosed.

(* ------------------------------------------------------------------ the flattened netlist computes the gate-level step *)

Lemma land_bits x y : Z.land (b2z x) (b2z y) = b2z (x && y).
Proof. destruct x, y; reflexivity. Qed.
Lemma lor_bits x y : Z.lor (b2z x) (b2z y) = b2z (x || y).
Proof. destruct x, y; reflexivity. Qed.
Lemma lxor_bits x y : Z.lxor (b2z x) (b2z y) = b2z (xorb x y).
Proof. destruct x, y; reflexivity. Qed.
Lemma b2z_mod2' b : b2z b mod 2 ^ 1 = b2z b.
Proof. destruct b; reflexivity. Qed.

Section FlatSem.
Variable merge : bool.
Variable nl : netlist.
Hypothesis Hids : inc 0 (wires nl).
Hypothesis Hwidths : forallb (fun x => 0 <=? wwidth x) (wires nl) = true.

Local Notation bid := (bid nl).
Local Notation KK := (KK nl).
Local Notation NN := (NN nl).
Local Notation T0 := (T0 nl).
Local Notation nl' := (flatten merge nl).

Variable st : state.                 (* state of the flattened netlist *)
Variable bv : wid -> nat -> bool.    (* gate-level valuation being tracked *)

Definition runs (ns : list net) (vf : wid -> Z) : wid -> Z := fold_left (exec_spec nl' st) ns vf.

Lemma runs_app a b vf : runs (a ++ b) vf = runs b (runs a vf).
Proof. unfold runs. apply fold_left_app. Qed.

(* what the environment guarantees about the bit (a, i) *)
Definition bit_ok (vf : wid -> Z) (a : wid) (i : nat) : Prop :=
  width_of nl' (bid a i) = 1 /\ vf (bid a i) = b2z (bv a i) /\ bid a i < T0.

Definition sound_at (g : gexp) (base : Z) (vf : wid -> Z) : Prop :=
  let r := fst (emit nl g base) in
  let vf' := runs (fst (snd (emit nl g base))) vf in
  vf' r = b2z (geval bv g) /\ width_of nl' r = 1 /\ r < base + gsize g
  /\ (forall id, ~ (base <= id < base + gsize g) -> vf' id = vf id).

Definition pre_at (Q : wid -> nat -> bool) (g : gexp) (base : Z) (vf : wid -> Z) : Prop :=
  T0 <= base
  /\ (forall d, In d (snd (snd (emit nl g base))) -> In d (wires nl'))
  /\ (forall d c, In d (snd (snd (emit nl g base))) -> wkind d = KConst c -> vf (wname d) = c)
  /\ gclosed Q g = true
  /\ (forall a i, Q a i = true -> bit_ok vf a i).

Lemma exec_gate st' v o args t r :
  op_spec o (map (fun a => (v a, width_of nl' a)) args) = Some r ->
  is_comb o = true -> (forall m, o <> OpMemRd m) ->
  exec_spec nl' st' v (mkNet o args t) = upd v t (r mod 2 ^ width_of nl' t).
Proof.
  intros Hr Hc Hm. unfold exec_spec, argvals. cbn [nop nargs ndest].
  destruct o; try discriminate Hc; try (exfalso; eapply Hm; reflexivity); rewrite Hr; reflexivity.
Qed.

(* binary gates: shared argument *)
Lemma gate2_sound Q o (f : bool -> bool -> bool) a b base vf :
  (forall x y, exists r, op_spec o [(b2z x, 1); (b2z y, 1)] = Some r /\ r mod 2 ^ 1 = b2z (f x y)) ->
  is_comb o = true -> (forall m, o <> OpMemRd m) ->
  (forall base vf, pre_at Q a base vf -> sound_at a base vf) ->
  (forall base vf, pre_at Q b base vf -> sound_at b base vf) ->
  T0 <= base ->
  (forall d, In d (snd (snd (gate2 o (emit nl) a b base))) -> In d (wires nl')) ->
  (forall d c, In d (snd (snd (gate2 o (emit nl) a b base))) -> wkind d = KConst c -> vf (wname d) = c) ->
  gclosed Q a = true -> gclosed Q b = true ->
  (forall a i, Q a i = true -> bit_ok vf a i) ->
  let r := fst (gate2 o (emit nl) a b base) in
  let vf' := runs (fst (snd (gate2 o (emit nl) a b base))) vf in
  vf' r = b2z (f (geval bv a) (geval bv b)) /\ width_of nl' r = 1 /\ r < base + (1 + gsize a + gsize b)
  /\ (forall id, ~ (base <= id < base + (1 + gsize a + gsize b)) -> vf' id = vf id).
Proof.
  intros Hop Hc Hm IHa IHb Hbase Hdecl Hconst Ca Cb HQ.
  pose proof (gsize_nonneg a) as Ga. pose proof (gsize_nonneg b) as Gb.
  unfold gate2 in *. cbv zeta.
  specialize (IHa (base + 1) vf). specialize (IHb (base + 1 + gsize a)).
  unfold sound_at, pre_at in IHa, IHb.
  destruct (emit nl a (base + 1)) as [ia [na wa]] eqn:Ea.
  destruct (emit nl b (base + 1 + gsize a)) as [ib [nb wb]] eqn:Eb.
  cbn [fst snd] in *.
  assert (Hself : In (mkWire base 1 KWire) (wires nl')) by (apply Hdecl; left; reflexivity).
  assert (Pa : T0 <= base + 1 /\ (forall d, In d wa -> In d (wires nl'))
               /\ (forall d c, In d wa -> wkind d = KConst c -> vf (wname d) = c)
               /\ gclosed Q a = true /\ (forall a i, Q a i = true -> bit_ok vf a i)).
  { split; [lia|]. split; [|split; [|split; [assumption|assumption]]].
    - intros d Hd. apply Hdecl. right. apply in_or_app. left. assumption.
    - intros d c Hd. apply Hconst. right. apply in_or_app. left. assumption. }
  destruct (IHa Pa) as (A1 & A2 & A3 & A4).
  set (vf1 := runs na vf) in *.
  assert (Pb : T0 <= base + 1 + gsize a /\ (forall d, In d wb -> In d (wires nl'))
               /\ (forall d c, In d wb -> wkind d = KConst c -> vf1 (wname d) = c)
               /\ gclosed Q b = true /\ (forall a i, Q a i = true -> bit_ok vf1 a i)).
  { split; [lia|]. split; [|split; [|split; [assumption|]]].
    - intros d Hd. apply Hdecl. right. apply in_or_app. right. assumption.
    - intros d c Hd Hk. rewrite A4.
      + apply (Hconst d c); [right; apply in_or_app; right; assumption|assumption].
      + destruct (emit_wires nl b (base + 1 + gsize a)) as [W1 W2]. rewrite Eb in W1, W2. cbn [snd] in W1, W2.
        pose proof (inc_lower _ _ _ W1 Hd). lia.
    - intros x i Hq. destruct (HQ x i Hq) as (Q1 & Q2 & Q3). split; [assumption|]. split; [|assumption].
      rewrite A4; [assumption|lia]. }
  destruct (IHb vf1 Pb) as (B1 & B2 & B3 & B4).
  set (vf2 := runs nb vf1) in *.
  rewrite !runs_app. fold vf1. fold vf2.
  destruct (Hop (geval bv a) (geval bv b)) as (r & Hr & Hr2).
  assert (Eia : vf2 ia = b2z (geval bv a)).
  { rewrite B4; [assumption|lia]. }
  pose proof (lookup_width merge nl Hids Hwidths _ Hself) as Hwb. cbn [wname wwidth] in Hwb.
  assert (Hrun : runs [mkNet o [ia; ib] base] vf2 = upd vf2 base (r mod 2 ^ 1)).
  { unfold runs. cbn [fold_left]. rewrite (exec_gate st vf2 o [ia; ib] base r); try assumption.
    - rewrite Hwb. reflexivity.
    - cbn [map]. rewrite Eia, B1, A2, B2. exact Hr. }
  rewrite Hrun. repeat split.
  - rewrite upd_same. exact Hr2.
  - exact Hwb.
  - lia.
  - intros id Hid. rewrite upd_other by lia. unfold vf2. rewrite B4 by lia. apply A4. lia.
Qed.

Lemma emit_sound Q g : forall base vf, pre_at Q g base vf -> sound_at g base vf.
Proof.
  induction g as [w i|b|a IHa|a IHa b IHb|a IHa b IHb|a IHa b IHb|a IHa b IHb];
    intros base vf (Hbase & Hdecl & Hconst & Hcl & HQ).
  - (* bit of an argument *)
    unfold sound_at. cbv zeta. cbn [emit fst snd gsize runs fold_left]. cbn [gclosed] in Hcl.
    destruct (HQ w i Hcl) as (Q1 & Q2 & Q3). cbn [geval]. repeat split; try assumption; try lia.
  - (* constant *)
    unfold sound_at. cbv zeta. cbn [emit fst snd gsize] in *. unfold runs. cbn [fold_left geval].
    assert (Hself : In (mkWire base 1 (KConst (b2z b))) (wires nl')) by (apply Hdecl; left; reflexivity).
    repeat split; try lia.
    + apply (Hconst _ _ (or_introl eq_refl) eq_refl).
    + apply (lookup_width merge nl Hids Hwidths _ Hself).
  - (* not *)
    unfold sound_at. cbv zeta. cbn [emit gsize] in *. pose proof (gsize_nonneg a) as Ga.
    specialize (IHa (base + 1) vf). unfold sound_at, pre_at in IHa.
    destruct (emit nl a (base + 1)) as [ia [na wa]] eqn:Ea. cbn [fst snd] in *.
    assert (Hself : In (mkWire base 1 KWire) (wires nl')) by (apply Hdecl; left; reflexivity).
    assert (Pa : T0 <= base + 1 /\ (forall d, In d wa -> In d (wires nl'))
                 /\ (forall d c, In d wa -> wkind d = KConst c -> vf (wname d) = c)
                 /\ gclosed Q a = true /\ (forall a i, Q a i = true -> bit_ok vf a i)).
    { split; [lia|]. split; [|split; [|split; [assumption|assumption]]].
      - intros d Hd. apply Hdecl. right. assumption.
      - intros d c Hd. apply Hconst. right. assumption. }
    destruct (IHa Pa) as (A1 & A2 & A3 & A4).
    rewrite runs_app. set (vf1 := runs na vf) in *.
    pose proof (lookup_width merge nl Hids Hwidths _ Hself) as Hwb. cbn [wname wwidth] in Hwb.
    assert (Hrun : runs [mkNet OpNot [ia] base] vf1 = upd vf1 base ((2 ^ 1 - 1 - b2z (geval bv a)) mod 2 ^ 1)).
    { unfold runs. cbn [fold_left].
      rewrite (exec_gate st vf1 OpNot [ia] base (2 ^ 1 - 1 - b2z (geval bv a))); try reflexivity; try (intros; discriminate).
      - rewrite Hwb. reflexivity.
      - cbn [map op_spec]. rewrite A1, A2. reflexivity. }
    rewrite Hrun. cbn [geval]. repeat split; try lia; try exact Hwb.
    + rewrite upd_same. destruct (geval bv a); reflexivity.
    + intros id Hid. rewrite upd_other by lia. apply A4. lia.
  - (* and *)
    cbn [gclosed] in Hcl. apply andb_true_iff in Hcl. destruct Hcl as [Ca Cb].
    unfold sound_at. cbv zeta. cbn [emit gsize geval].
    apply (gate2_sound Q OpAnd andb a b base vf); try assumption; try reflexivity; try (intros; discriminate).
    intros x y. eexists. split; [reflexivity|]. rewrite land_bits. apply b2z_mod2'.
  - (* or *)
    cbn [gclosed] in Hcl. apply andb_true_iff in Hcl. destruct Hcl as [Ca Cb].
    unfold sound_at. cbv zeta. cbn [emit gsize geval].
    apply (gate2_sound Q OpOr orb a b base vf); try assumption; try reflexivity; try (intros; discriminate).
    intros x y. eexists. split; [reflexivity|]. rewrite lor_bits. apply b2z_mod2'.
  - (* xor *)
    cbn [gclosed] in Hcl. apply andb_true_iff in Hcl. destruct Hcl as [Ca Cb].
    unfold sound_at. cbv zeta. cbn [emit gsize geval].
    apply (gate2_sound Q OpXor xorb a b base vf); try assumption; try reflexivity; try (intros; discriminate).
    intros x y. eexists. split; [reflexivity|]. rewrite lxor_bits. apply b2z_mod2'.
  - (* nand *)
    cbn [gclosed] in Hcl. apply andb_true_iff in Hcl. destruct Hcl as [Ca Cb].
    unfold sound_at. cbv zeta. cbn [emit gsize geval].
    apply (gate2_sound Q OpNand (fun x y => negb (x && y)) a b base vf); try assumption; try reflexivity; try (intros; discriminate).
    intros x y. eexists. split; [reflexivity|]. rewrite land_bits. destruct x, y; reflexivity.
Qed.


(* running a `w` net into a 1-bit wire *)
Lemma run_w vf r t : width_of nl' t = 1 -> 0 <= vf r < 2 ->
  runs [mkNet OpW [r] t] vf = upd vf t (vf r).
Proof.
  intros Hw Hr. unfold runs. cbn [fold_left].
  rewrite (exec_gate st vf OpW [r] t (vf r)); try reflexivity; try (intros; discriminate).
  rewrite Hw. change (2 ^ 1) with 2. rewrite Z.mod_small by lia. reflexivity.
Qed.

Lemma b2z_lt2 b : 0 <= b2z b < 2.
Proof. destruct b; simpl; lia. Qed.

Lemma bid_index_inj d k1 k2 : bid d k1 = bid d k2 -> k1 = k2.
Proof. unfold Flatten.bid. lia. Qed.

(* the destination bits j, j+1, ... of one net *)
Lemma emit_bits_sound Q dest bits : forall j base vf,
  T0 <= base ->
  (forall d, In d (snd (emit_bits nl dest j bits base)) -> In d (wires nl')) ->
  (forall d c, In d (snd (emit_bits nl dest j bits base)) -> wkind d = KConst c -> vf (wname d) = c) ->
  forallb (gclosed Q) bits = true ->
  (forall a i, Q a i = true -> bit_ok vf a i) ->
  (forall a i k, Q a i = true -> (k < j + length bits)%nat -> bid a i <> bid dest k) ->
  (forall k, (k < length bits)%nat -> width_of nl' (bid dest (j + k)) = 1 /\ bid dest (j + k) < T0) ->
  let vf' := runs (fst (emit_bits nl dest j bits base)) vf in
  (forall k, (k < length bits)%nat -> vf' (bid dest (j + k)) = b2z (geval bv (nth k bits (GConst false))))
  /\ (forall id, ~ (base <= id < base + bits_size bits) ->
        (forall k, (k < length bits)%nat -> id <> bid dest (j + k)) -> vf' id = vf id).
Proof.
  induction bits as [|g r IH]; intros j base vf Hbase Hdecl Hconst Hcl HQ Hne Hdest; cbv zeta.
  - cbn [emit_bits fst]. unfold runs. cbn [fold_left length]. split; [intros k Hk; lia|reflexivity].
  - cbn [forallb] in Hcl. apply andb_true_iff in Hcl. destruct Hcl as [Cg Cr].
    pose proof (gsize_nonneg g) as Gg. pose proof (bits_size_nonneg r) as Gr.
    cbn [emit_bits] in *.
    pose proof (emit_sound Q g base vf) as Sg. unfold pre_at, sound_at in Sg.
    pose proof (emit_wires nl g base) as [Wg1 Wg2].
    destruct (emit nl g base) as [id0 [ns ws]] eqn:Eg. cbn [fst snd] in *.
    specialize (IH (S j) (base + gsize g)).
    pose proof (emit_bits_wires nl r dest (S j) (base + gsize g)) as [Wr1 Wr2].
    destruct (emit_bits nl dest (S j) r (base + gsize g)) as [ns' ws'] eqn:Er. cbn [fst snd] in *.
    assert (Pg : T0 <= base /\ (forall d, In d ws -> In d (wires nl'))
                 /\ (forall d c, In d ws -> wkind d = KConst c -> vf (wname d) = c)
                 /\ gclosed Q g = true /\ (forall a i, Q a i = true -> bit_ok vf a i)).
    { split; [lia|]. split; [|split; [|split; [assumption|assumption]]].
      - intros d Hd. apply Hdecl. apply in_or_app. left. assumption.
      - intros d c Hd. apply Hconst. apply in_or_app. left. assumption. }
    destruct (Sg Pg) as (G1 & G2 & G3 & G4).
    set (vf1 := runs ns vf) in *.
    destruct (Hdest 0%nat ltac:(cbn [length]; lia)) as [D1 D2]. rewrite Nat.add_0_r in D1, D2.
    rewrite bits_size_cons.
    replace (ns ++ mkNet OpW [id0] (bid dest j) :: ns') with (ns ++ [mkNet OpW [id0] (bid dest j)] ++ ns') by reflexivity.
    rewrite !runs_app. fold vf1.
    assert (Hrun : runs [mkNet OpW [id0] (bid dest j)] vf1 = upd vf1 (bid dest j) (vf1 id0))
      by (apply run_w; [exact D1|rewrite G1; apply b2z_lt2]).
    rewrite Hrun.
    set (vf2 := upd vf1 (bid dest j) (vf1 id0)) in *.
    assert (E2 : forall id, id <> bid dest j -> vf2 id = vf1 id) by (intros; unfold vf2; apply upd_other; assumption).
    destruct (IH vf2) as [I1 I2]; try assumption; try lia.
    4:{ intros a i k Hq Hk. apply Hne; [assumption|cbn [length]; lia]. }
    { intros d Hd. apply Hdecl. apply in_or_app. right. assumption. }
    { intros d c Hd Hk. pose proof (inc_lower _ _ _ Wr1 Hd).
      rewrite E2 by lia. rewrite G4 by lia. apply (Hconst d c); [apply in_or_app; right; assumption|assumption]. }
    { intros a i Hq. destruct (HQ a i Hq) as (Q1 & Q2 & Q3). split; [assumption|]. split; [|assumption].
      rewrite E2 by (apply Hne; [assumption|cbn [length]; lia]). rewrite G4 by lia. assumption. }
    { intros k Hk. replace (S j + k)%nat with (j + S k)%nat by lia. apply Hdest. cbn [length]. lia. }
    split.
    + intros k Hk. destruct k as [|k].
      * rewrite Nat.add_0_r. cbn [nth]. rewrite I2.
        -- unfold vf2. rewrite upd_same. exact G1.
        -- lia.
        -- intros k' Hk' E. apply bid_index_inj in E. lia.
      * cbn [nth]. replace (j + S k)%nat with (S j + k)%nat by lia. apply I1. cbn [length] in Hk. lia.
    + intros id Hid Hnd. rewrite I2.
      * rewrite E2.
        -- apply G4. lia.
        -- specialize (Hnd 0%nat ltac:(cbn [length]; lia)). rewrite Nat.add_0_r in Hnd. exact Hnd.
      * lia.
      * intros k Hk. replace (S j + k)%nat with (j + S k)%nat by lia. apply Hnd. cbn [length]. lia.
Qed.

End FlatSem.

(* ------------------------------------------------------------------ ports and segments *)

Lemma nth_of_Z n : forall z i, (i < n)%nat -> nth i (of_Z n z) false = Z.testbit z (Z.of_nat i).
Proof.
  induction n as [|n IH]; intros z i Hi; [lia|].
  cbn [of_Z]. destruct i as [|i]; cbn [nth].
  - symmetry. apply Z.bit0_odd.
  - rewrite IH by lia. rewrite Nat2Z.inj_succ, Z.div2_div. apply Z.div2_bits. lia.
Qed.

Lemma concat_bits_acc (g : nat -> bool) n : forall acc,
  fold_left (fun acc vw => acc * 2 ^ snd vw + fst vw)
            (map (fun i => (b2z (g i), 1)) (rev (seq 0 n))) acc
  = acc * 2 ^ Z.of_nat n + to_Z (map g (seq 0 n)).
Proof.
  induction n as [|n IH]; intro acc.
  - cbn. lia.
  - rewrite seq_S, rev_app_distr. cbn [rev app map fold_left fst snd Nat.add].
    rewrite IH, map_app, to_Z_app, map_length, seq_length, pow2_S. cbn [map to_Z]. change (2 ^ 1) with 2. ring.
Qed.

Section FlatStep.
Variable merge : bool.
Variable nl : netlist.
Hypothesis Hids : inc 0 (wires nl).
Hypothesis Hwidths : forallb (fun x => 0 <=? wwidth x) (wires nl) = true.

Local Notation bid := (bid nl).
Local Notation KK := (KK nl).
Local Notation NN := (NN nl).
Local Notation T0 := (T0 nl).
Local Notation nl' := (flatten merge nl).
Local Notation wnat := (wnat nl).

Variable st : state.
Local Notation runs := (runs merge nl st).

(* ---- static facts about the bit wires ---- *)
Lemma orig_lookup a : 0 < width_of nl a ->
  exists x, In x (wires nl) /\ wname x = a /\ find_wire (wires nl) a = Some x.
Proof.
  unfold width_of. destruct (find_wire (wires nl) a) as [x|] eqn:E; [|lia].
  intros _. destruct (find_wire_In _ _ _ E). exists x. auto.
Qed.

Lemma bit_static a i : (i < wnat a)%nat ->
  exists x, In x (wires nl) /\ wname x = a /\ find_wire (wires nl) a = Some x
    /\ width_of nl' (bid a i) = 1 /\ kind_of nl' (bid a i) = bit_kind merge x i
    /\ NN <= bid a i < T0 /\ 0 < a /\ Z.of_nat i < KK.
Proof.
  intro Hi. unfold Synth.wnat in Hi.
  destruct (orig_lookup a ltac:(lia)) as (x & Hx & Hn & Hf). exists x.
  assert (Hxn : (i < xnat x)%nat).
  { unfold xnat. unfold width_of in Hi. rewrite Hf in Hi. exact Hi. }
  pose proof (bit_decl merge nl Hids Hwidths x i Hx Hxn) as Hd. rewrite Hn in Hd.
  destruct (wire_bounds nl Hids Hwidths x Hx) as [B1 B2]. rewrite Hn in B1.
  pose proof (xnat_lt nl Hids Hwidths x Hx) as B3.
  repeat split; try assumption; try lia.
  - apply (lookup_width merge nl Hids Hwidths _ Hd).
  - apply (lookup_kind merge nl Hids Hwidths _ Hd).
  - apply bid_range; try assumption; lia.
  - apply bid_range; try assumption; lia.
Qed.

Lemma bid_neq a i b k : (i < wnat a)%nat -> (k < wnat b)%nat -> a <> b -> bid a i <> bid b k.
Proof.
  intros Hi Hk Hne E.
  destruct (bit_static a i Hi) as (_ & _ & _ & _ & _ & _ & _ & Pa & Ia).
  destruct (bit_static b k Hk) as (_ & _ & _ & _ & _ & _ & _ & Pb & Ib).
  apply bid_inj in E; try assumption; lia.
Qed.

(* ---- a concat of the bits of a wire ---- *)
Lemma run_cat bv vf a na t :
  width_of nl' t = Z.of_nat na ->
  (forall i, (i < na)%nat -> width_of nl' (bid a i) = 1 /\ vf (bid a i) = b2z (bv a i)) ->
  runs [cat_net nl a na t] vf = upd vf t (bits_val bv a na).
Proof.
  pose proof Hids as Hids_. pose proof Hwidths as Hwidths_.
  intros Hw Hb. unfold FlattenProofs.runs, cat_net. cbn [fold_left].
  rewrite (exec_gate merge nl st vf OpConcat _ t (bits_val bv a na)); try reflexivity; try (intros; discriminate).
  - rewrite Hw. unfold bits_val. rewrite Z.mod_small; [reflexivity|].
    pose proof (to_Z_range (map (bv a) (seq 0 na))) as R. rewrite map_length, seq_length in R. exact R.
  - cbn [op_spec]. f_equal. unfold concat_spec.
    rewrite <- map_rev, map_map.
    rewrite (map_ext_in _ (fun i => (b2z (bv a i), 1))).
    + rewrite concat_bits_acc. unfold bits_val. lia.
    + intros i Hi. apply in_rev, in_seq in Hi. destruct (Hb i ltac:(lia)) as [H1 H2]. rewrite H1, H2. reflexivity.
Qed.

(* ---- one select per bit off a vector ---- *)
Lemma run_selects src w n : forall s vf,
  (forall i, (s <= i < s + n)%nat -> width_of nl' (bid w i) = 1 /\ src <> bid w i) ->
  let vf' := runs (map (fun i => mkNet (OpSelect [Z.of_nat i]) [src] (bid w i)) (seq s n)) vf in
  (forall i, (s <= i < s + n)%nat -> vf' (bid w i) = b2z (Z.testbit (vf src) (Z.of_nat i)))
  /\ (forall id, (forall i, (s <= i < s + n)%nat -> id <> bid w i) -> vf' id = vf id).
Proof.
  pose proof Hids as Hids_. pose proof Hwidths as Hwidths_.
  induction n as [|n IH]; intros s vf H; cbv zeta; cbn [seq map].
  - unfold FlattenProofs.runs. cbn [fold_left]. split; [intros; lia|reflexivity].
  - destruct (H s ltac:(lia)) as [W0 N0].
    change (?x :: ?l) with ([x] ++ l). rewrite runs_app.
    assert (Hrun : runs [mkNet (OpSelect [Z.of_nat s]) [src] (bid w s)] vf
                   = upd vf (bid w s) (b2z (Z.testbit (vf src) (Z.of_nat s)))).
    { unfold FlattenProofs.runs. cbn [fold_left].
      rewrite (exec_gate merge nl st vf (OpSelect [Z.of_nat s]) [src] (bid w s)
                 (b2z (Z.testbit (vf src) (Z.of_nat s)) + 2 * 0)); try reflexivity; try (intros; discriminate).
      rewrite W0, Z.mul_0_r, Z.add_0_r. rewrite b2z_mod2'. reflexivity. }
    rewrite Hrun. set (vf1 := upd vf (bid w s) (b2z (Z.testbit (vf src) (Z.of_nat s)))).
    destruct (IH (S s) vf1) as [I1 I2].
    { intros i Hi. apply H. lia. }
    assert (Esrc : vf1 src = vf src) by (unfold vf1; apply upd_other; assumption).
    split.
    + intros i Hi. destruct (Nat.eq_dec i s) as [->|Hne].
      * rewrite I2.
        -- unfold vf1. apply upd_same.
        -- intros k Hk E. unfold Flatten.bid in E. lia.
      * rewrite I1 by lia. rewrite Esrc. reflexivity.
    + intros id Hid. rewrite I2.
      * unfold vf1. apply upd_other. apply Hid. lia.
      * intros i Hi. apply Hid. lia.
Qed.

Lemma runs_noncomb ns vf : (forall n, In n ns -> is_comb (nop n) = false) -> runs ns vf = vf.
Proof.
  unfold FlattenProofs.runs. revert vf. induction ns as [|n r IH]; intros vf H; cbn [fold_left]; [reflexivity|].
  rewrite IH by (intros; apply H; right; assumption).
  specialize (H n (or_introl eq_refl)). unfold exec_spec. destruct (nop n); try discriminate H; reflexivity.
Qed.

End FlatStep.

(* ------------------------------------------------------------------ one gate group at a time *)

Section FlatSeg.
Variable merge : bool.
Variable nl : netlist.
Hypothesis Hids : inc 0 (wires nl).
Hypothesis Hwidths : forallb (fun x => 0 <=? wwidth x) (wires nl) = true.

Local Notation bid := (bid nl).
Local Notation KK := (KK nl).
Local Notation NN := (NN nl).
Local Notation T0 := (T0 nl).
Local Notation nl' := (flatten merge nl).
Local Notation wnat := (wnat nl).

Variable st : state.
Variable gst : gstate.
Hypothesis Hmem : forall m a, smems st m a = gmems gst m a.
Local Notation runs := (runs merge nl st).

(* value(w) bit by bit on the wires computed so far *)
Definition Inv (rdy : list wid) (vf : wid -> Z) (bv : wid -> nat -> bool) : Prop :=
  forall a, In a rdy -> forall i, (i < wnat a)%nat -> vf (bid a i) = b2z (bv a i).

Definition decl_ok (ws : list wire) (vf : wid -> Z) : Prop :=
  (forall d, In d ws -> In d (wires nl'))
  /\ (forall d c, In d ws -> wkind d = KConst c -> vf (wname d) = c).

Definition seg_post (g : gnet) (base : Z) (vf : wid -> Z) (bv : wid -> nat -> bool) : Prop :=
  match g with
  | GMemWr m a na d nd en => vf base = bits_val bv a na /\ vf (base + 1) = bits_val bv d nd
  | _ => True
  end.

Lemma lower_length bv n : length (lower nl n) = length (lower_val nl bv n).
Proof. rewrite <- (lower_structure nl bv n), map_length. reflexivity. Qed.

Lemma lower_len n : net_synth_ok nl n = true -> arity_ok (nop n) (length (nargs n)) = true ->
  is_comb (nop n) = true -> (forall m, nop n <> OpMemRd m) -> length (lower nl n) = wnat (ndest n).
Proof.
  intros Hso Har Hc Hm.
  pose proof (decompose_correct nl Hwidths (fun a => to_Z (vbits nl (fun _ _ => false) a)) (fun _ _ => false) n
                Hso Har (fun a _ => eq_refl)) as HD.
  rewrite (lower_length (fun _ _ => false)).
  destruct (nop n); try discriminate Hc; try (exfalso; eapply Hm; reflexivity);
    destruct HD as (r & _ & _ & HL); exact HL.
Qed.

Lemma mem_read_flat m a : mem_read nl' st m a = gmem_read nl (gmems gst) m a.
Proof.
  unfold mem_read, gmem_read. rewrite (flatten_mems merge nl).
  destruct (find_mem (mems nl) m) as [mm|]; [destruct (mrom mm)|]; auto.
Qed.

Lemma nth_in_args' n (i : nat) : (i < length (nargs n))%nat -> In (arg n i) (nargs n).
Proof. intros. unfold arg. apply nth_In. assumption. Qed.

(* a combinational net: its gates, then the destination bits *)
Lemma seg_comb rdy n base vf bv :
  Inv rdy vf bv -> is_comb (nop n) = true -> net_ok nl rdy n = true -> net_synth_ok nl n = true ->
  T0 <= base -> decl_ok (snd (emit_gnet nl (synth_net nl n) base)) vf ->
  let vf' := runs (fst (emit_gnet nl (synth_net nl n) base)) vf in
  let bv' := gnet_exec nl gst bv (synth_net nl n) in
  Inv (ndest n :: rdy) vf' bv'
  /\ (forall id, ~ (base <= id < base + gnet_size (synth_net nl n)) ->
        (forall k, (k < wnat (ndest n))%nat -> id <> bid (ndest n) k) -> vf' id = vf id).
Proof.
  intros HI Hc Hok Hso Hbase [Hdecl Hconst]. unfold net_ok in Hok. rewrite Hc in Hok.
  apply andb_true_iff in Hok. destruct Hok as [Hok Hop].
  apply andb_true_iff in Hok. destruct Hok as [Hok Har].
  apply andb_true_iff in Hok. destruct Hok as [Hargs Hfresh].
  assert (Hin : forall a, In a (nargs n) -> In a rdy).
  { intros a Ha. apply mem_in_In. rewrite forallb_forall in Hargs. auto. }
  assert (Hnd : ~ In (ndest n) rdy).
  { intro Hd. apply mem_in_In in Hd. rewrite Hd in Hfresh. discriminate. }
  assert (Hother : forall vf' bv' l,
            (forall id, ~ (base <= id < base + gnet_size (synth_net nl n)) ->
               (forall k, (k < wnat (ndest n))%nat -> id <> bid (ndest n) k) -> vf' id = vf id) ->
            bv' = updbits bv (ndest n) l ->
            (forall k, (k < wnat (ndest n))%nat -> vf' (bid (ndest n) k) = b2z (bv' (ndest n) k)) ->
            Inv (ndest n :: rdy) vf' bv').
  { intros vf' bv' l Hfr Hbv Hd a [<-|Ha] i Hi; [apply Hd; assumption|].
    assert (Hne : a <> ndest n) by (intro E; subst; contradiction).
    rewrite Hfr.
    - rewrite Hbv. unfold updbits. destruct (a =? ndest n) eqn:E; [lia|]. apply HI; assumption.
    - destruct (bit_static merge nl Hids Hwidths a i Hi) as (_ & _ & _ & _ & _ & _ & R & _). lia.
    - intros k Hk. apply (bid_neq merge nl Hids Hwidths); assumption. }
  pose proof (lower_closed nl n Hso Har) as Hcl.
  pose proof (lower_len n Hso Har Hc) as Hlen0.
  assert (Hgen : synth_net nl n = GAssign (ndest n) (lower nl n) -> length (lower nl n) = wnat (ndest n) ->
            Inv (ndest n :: rdy) (runs (fst (emit_gnet nl (synth_net nl n) base)) vf)
                (gnet_exec nl gst bv (synth_net nl n))
            /\ (forall id, ~ (base <= id < base + gnet_size (synth_net nl n)) ->
                  (forall k, (k < wnat (ndest n))%nat -> id <> bid (ndest n) k) ->
                  runs (fst (emit_gnet nl (synth_net nl n) base)) vf id = vf id)).
  { intros Esyn Hlen. rewrite Esyn in *. cbn [emit_gnet fst snd gnet_size gnet_exec] in *.
    destruct (emit_bits_sound merge nl Hids Hwidths st bv (Qn nl n) (ndest n) (lower nl n) 0%nat base vf)
      as [E1 E2]; try assumption.
    - intros a i Hq. unfold Qn in Hq. apply andb_true_iff in Hq. destruct Hq as [Hq1 Hq2].
      apply mem_in_In in Hq1. apply Nat.ltb_lt in Hq2.
      destruct (bit_static merge nl Hids Hwidths a i Hq2) as (_ & _ & _ & _ & S1 & _ & S2 & _).
      split; [assumption|]. split; [apply HI; [apply Hin; assumption|assumption]|lia].
    - intros a i k Hq Hk. unfold Qn in Hq. apply andb_true_iff in Hq. destruct Hq as [Hq1 Hq2].
      apply mem_in_In in Hq1. apply Nat.ltb_lt in Hq2.
      apply (bid_neq merge nl Hids Hwidths); [assumption|lia|].
      intro E. subst. apply Hnd, Hin. assumption.
    - intros k Hk. cbn [Nat.add].
      destruct (bit_static merge nl Hids Hwidths (ndest n) k ltac:(lia)) as (_ & _ & _ & _ & S1 & _ & S2 & _).
      split; [assumption|lia].
    - cbv zeta in E1, E2. cbn [Nat.add] in E1, E2.
      assert (Hfr : forall id, ~ (base <= id < base + bits_size (lower nl n)) ->
                (forall k, (k < wnat (ndest n))%nat -> id <> bid (ndest n) k) ->
                runs (fst (emit_bits nl (ndest n) 0 (lower nl n) base)) vf id = vf id).
      { intros id Hid Hk. apply E2; [assumption|]. intros k Hk'. apply Hk. lia. }
      split; [|exact Hfr].
      eapply Hother; [exact Hfr|reflexivity|].
      intros k Hk. rewrite E1 by lia. unfold updbits. rewrite Z.eqb_refl.
      change false with (geval bv (GConst false)). rewrite map_nth. reflexivity. }
  cbv zeta. destruct (nop n) eqn:Eop; try discriminate Hc.
  (* memory read port *)
  16:{ unfold synth_net in *. rewrite Eop in *. cbn [emit_gnet fst snd gnet_size gnet_exec] in *.
       cbn [arity_ok] in Har. apply Nat.eqb_eq in Har.
       pose proof (nth_in_args' n 0 ltac:(lia)) as Ha0. set (a0 := arg n 0) in *.
       assert (D0 : In (mkWire base (Z.of_nat (wnat a0)) KWire) (wires nl')) by (apply Hdecl; left; reflexivity).
       assert (D1 : In (mkWire (base + 1) (Z.of_nat (wnat (ndest n))) KWire) (wires nl'))
         by (apply Hdecl; right; left; reflexivity).
       pose proof (lookup_width merge nl Hids Hwidths _ D0) as W0. cbn [wname wwidth] in W0.
       pose proof (lookup_width merge nl Hids Hwidths _ D1) as W1. cbn [wname wwidth] in W1.
       change (?x :: ?y :: ?l) with ([x] ++ [y] ++ l). rewrite !runs_app.
       rewrite (run_cat merge nl Hids Hwidths st bv vf a0 (wnat a0) base W0).
       2:{ intros i Hi. destruct (bit_static merge nl Hids Hwidths a0 i Hi) as (_ & _ & _ & _ & S1 & _).
           split; [assumption|]. apply HI; [apply Hin; assumption|assumption]. }
       set (addr := bits_val bv a0 (wnat a0)). set (vf1 := upd vf base addr).
       assert (Hrun : runs [mkNet (OpMemRd m) [base] (base + 1)] vf1
                      = upd vf1 (base + 1) (gmem_read nl (gmems gst) m addr mod 2 ^ Z.of_nat (wnat (ndest n)))).
       { unfold FlattenProofs.runs. cbn [fold_left]. unfold exec_spec. cbn [nop nargs ndest arg nth].
         rewrite W1, mem_read_flat. unfold vf1. rewrite upd_same. reflexivity. }
       rewrite Hrun. set (data := gmem_read nl (gmems gst) m addr mod 2 ^ Z.of_nat (wnat (ndest n))).
       set (vf2 := upd vf1 (base + 1) data).
       destruct (run_selects merge nl Hids Hwidths st (base + 1) (ndest n) (wnat (ndest n)) 0%nat vf2) as [S1 S2].
       { intros i Hi. destruct (bit_static merge nl Hids Hwidths (ndest n) i ltac:(lia)) as (_ & _ & _ & _ & Q1 & _ & Q2 & _).
         split; [assumption|lia]. }
       cbv zeta in S1, S2.
       assert (Hfr : forall id, ~ (base <= id < base + 2) ->
                 (forall k, (k < wnat (ndest n))%nat -> id <> bid (ndest n) k) ->
                 runs (map (fun i => mkNet (OpSelect [Z.of_nat i]) [base + 1] (bid (ndest n) i))
                           (seq 0 (wnat (ndest n)))) vf2 id = vf id).
       { intros id Hid Hk. rewrite S2 by (intros i Hi; apply Hk; lia).
         unfold vf2, vf1. rewrite !upd_other by lia. reflexivity. }
       split; [|exact Hfr].
       eapply Hother; [exact Hfr|reflexivity|].
       intros k Hk. rewrite S1 by lia. unfold vf2. rewrite upd_same.
       unfold updbits. rewrite Z.eqb_refl. rewrite nth_of_Z by assumption.
       unfold data. rewrite Z.mod_pow2_bits_low by lia. reflexivity. }
  (* every other combinational op: gate expressions per destination bit *)
  all: apply Hgen; [unfold synth_net; rewrite Eop; reflexivity|apply Hlen0; intros; discriminate].
Qed.

Lemma inv_frame rdy vf vf' bv base : T0 <= base -> Inv rdy vf bv ->
  (forall id, id < base -> vf' id = vf id) -> Inv rdy vf' bv.
Proof.
  intros Hb HI Hfr a Ha i Hi. rewrite Hfr; [apply HI; assumption|].
  destruct (bit_static merge nl Hids Hwidths a i Hi) as (_ & _ & _ & _ & _ & _ & R & _). lia.
Qed.

(* a register net or a memory write port *)
Lemma seg_seq rdy n base vf bv :
  Inv rdy vf bv -> is_comb (nop n) = false ->
  (forall a, In a (nargs n) -> In a rdy) -> arity_ok (nop n) (length (nargs n)) = true ->
  T0 <= base -> decl_ok (snd (emit_gnet nl (synth_net nl n) base)) vf ->
  let vf' := runs (fst (emit_gnet nl (synth_net nl n) base)) vf in
  (forall id, ~ (base <= id < base + gnet_size (synth_net nl n)) -> vf' id = vf id)
  /\ seg_post (synth_net nl n) base vf' bv.
Proof.
  intros HI Hc Hin Har Hbase [Hdecl Hconst]. cbv zeta.
  destruct (nop n) eqn:Eop; try discriminate Hc; unfold synth_net in *; rewrite Eop in *;
    cbn [emit_gnet fst snd gnet_size seg_post] in *.
  - (* registers: no combinational effect *)
    rewrite runs_noncomb; [split; [reflexivity|exact I]|].
    intros x Hx. apply in_map_iff in Hx. destruct Hx as [i [<- _]]. reflexivity.
  - (* memory write port: address and data re-assembled *)
    cbn [arity_ok] in Har. apply Nat.eqb_eq in Har.
    pose proof (nth_in_args' n 0 ltac:(lia)) as Ha0. pose proof (nth_in_args' n 1 ltac:(lia)) as Ha1.
    set (a0 := arg n 0) in *. set (a1 := arg n 1) in *.
    assert (D0 : In (mkWire base (Z.of_nat (wnat a0)) KWire) (wires nl')) by (apply Hdecl; left; reflexivity).
    assert (D1 : In (mkWire (base + 1) (Z.of_nat (wnat a1)) KWire) (wires nl'))
      by (apply Hdecl; right; left; reflexivity).
    pose proof (lookup_width merge nl Hids Hwidths _ D0) as W0. cbn [wname wwidth] in W0.
    pose proof (lookup_width merge nl Hids Hwidths _ D1) as W1. cbn [wname wwidth] in W1.
    change [?x; ?y; ?z] with ([x] ++ [y] ++ [z]). rewrite !runs_app.
    rewrite (run_cat merge nl Hids Hwidths st bv vf a0 (wnat a0) base W0).
    2:{ intros i Hi. destruct (bit_static merge nl Hids Hwidths a0 i Hi) as (_ & _ & _ & _ & S1 & _).
        split; [assumption|]. apply HI; [apply Hin; assumption|assumption]. }
    set (vf1 := upd vf base (bits_val bv a0 (wnat a0))).
    rewrite (run_cat merge nl Hids Hwidths st bv vf1 a1 (wnat a1) (base + 1) W1).
    2:{ intros i Hi. destruct (bit_static merge nl Hids Hwidths a1 i Hi) as (_ & _ & _ & _ & S1 & _ & S2 & _).
        split; [assumption|]. unfold vf1. rewrite upd_other by lia. apply HI; [apply Hin; assumption|assumption]. }
    set (vf2 := upd vf1 (base + 1) (bits_val bv a1 (wnat a1))).
    rewrite runs_noncomb by (intros x [<-|[]]; reflexivity).
    split; [|split].
    + intros id Hid. unfold vf2, vf1. rewrite !upd_other by lia. reflexivity.
    + unfold vf2, vf1. rewrite upd_other by lia. apply upd_same.
    + unfold vf2. apply upd_same.
Qed.

(* ---- lists of groups ---- *)

Lemma emit_gnets_cons g r base :
  emit_gnets nl (g :: r) base
  = (fst (emit_gnet nl g base) ++ fst (emit_gnets nl r (base + gnet_size g)),
     snd (emit_gnet nl g base) ++ snd (emit_gnets nl r (base + gnet_size g))).
Proof.
  cbn [emit_gnets]. destruct (emit_gnet nl g base). destruct (emit_gnets nl r (base + gnet_size g)). reflexivity.
Qed.

Lemma decl_split ws1 ws2 vf : decl_ok (ws1 ++ ws2) vf -> decl_ok ws1 vf /\ decl_ok ws2 vf.
Proof.
  intros [H1 H2]. split; split; intros; try (apply H1; apply in_or_app; auto); eapply H2; eauto; apply in_or_app; auto.
Qed.

Lemma decl_frame ws vf vf' lo : decl_ok ws vf -> inc (lo - 1) ws -> (forall id, lo <= id -> vf' id = vf id) ->
  decl_ok ws vf'.
Proof. pose proof Hids as Hids_u. pose proof Hwidths as Hwidths_u. 
  intros [H1 H2] Hi Hfr. split; [assumption|]. intros d c Hd Hk.
  rewrite Hfr; [eapply H2; eassumption|]. pose proof (inc_lower _ _ _ Hi Hd). lia.
Qed.

Lemma comb_list : forall ns rdy base vf bv,
  (forall n, In n ns -> is_comb (nop n) = true /\ net_synth_ok nl n = true) ->
  Inv rdy vf bv -> nets_ok nl rdy ns = true -> T0 <= base ->
  decl_ok (snd (emit_gnets nl (map (synth_net nl) ns) base)) vf ->
  let vf' := runs (fst (emit_gnets nl (map (synth_net nl) ns) base)) vf in
  let bv' := fold_left (gnet_exec nl gst) (map (synth_net nl) ns) bv in
  Inv (fold_left rdy_next ns rdy) vf' bv'
  /\ (forall id, ~ (base <= id < base + gnets_size (map (synth_net nl) ns)) ->
        (forall n k, In n ns -> (k < wnat (ndest n))%nat -> id <> bid (ndest n) k) -> vf' id = vf id).
Proof.
  induction ns as [|n r IH]; intros rdy base vf bv Hall HI Hok Hbase Hdecl; cbv zeta.
  - cbn [map emit_gnets fst fold_left]. unfold FlattenProofs.runs. cbn [fold_left]. split; [assumption|reflexivity].
  - destruct (Hall n (or_introl eq_refl)) as [Hc Hso].
    cbn [WFDefs.nets_ok] in Hok. apply andb_true_iff in Hok. destruct Hok as [Hn Hr].
    cbn [map] in *. rewrite emit_gnets_cons in *. cbn [fst snd] in *. cbn [fold_left].
    apply decl_split in Hdecl. destruct Hdecl as [Hd1 Hd2].
    destruct (seg_comb rdy n base vf bv HI Hc Hn Hso Hbase Hd1) as [S1 S2]. cbv zeta in S1, S2.
    rewrite runs_app.
    set (vf1 := runs (fst (emit_gnet nl (synth_net nl n) base)) vf) in *.
    set (bv1 := gnet_exec nl gst bv (synth_net nl n)) in *.
    pose proof (gnet_size_nonneg (synth_net nl n)) as G1.
    pose proof (gnets_size_nonneg (map (synth_net nl) r)) as G2.
    destruct (emit_gnets_wires nl (map (synth_net nl) r) (base + gnet_size (synth_net nl n))) as [W1 W2].
    destruct (IH (rdy_next rdy n) (base + gnet_size (synth_net nl n)) vf1 bv1) as [I1 I2].
    + intros x Hx. apply Hall. right. assumption.
    + unfold rdy_next. rewrite Hc. exact S1.
    + exact Hr.
    + lia.
    + apply (decl_frame _ vf vf1 (base + gnet_size (synth_net nl n))); [assumption|assumption|].
      intros id Hid. apply S2; [lia|]. intros k Hk.
      destruct (bit_static merge nl Hids Hwidths (ndest n) k Hk) as (_ & _ & _ & _ & _ & _ & R & _). lia.
    + cbv zeta in I1, I2. split; [exact I1|].
      change (gnets_size (synth_net nl n :: map (synth_net nl) r))
        with (gnet_size (synth_net nl n) + gnets_size (map (synth_net nl) r)).
      intros id Hid Hk. rewrite I2.
      * apply S2; [lia|]. intros k Hk'. apply (Hk n k); [left; reflexivity|assumption].
      * lia.
      * intros x k Hx Hk'. apply (Hk x k); [right; assumption|assumption].
Qed.

Fixpoint wr_post (gs : list gnet) (base : Z) (vf : wid -> Z) (bv : wid -> nat -> bool) : Prop :=
  match gs with
  | [] => True
  | g :: r => seg_post g base vf bv /\ wr_post r (base + gnet_size g) vf bv
  end.

Lemma seg_post_frame g base vf vf' bv :
  (forall id, base <= id < base + gnet_size g -> vf' id = vf id) -> seg_post g base vf bv -> seg_post g base vf' bv.
Proof. pose proof Hids as Hids_u. pose proof Hwidths as Hwidths_u. 
  destruct g; cbn [seg_post gnet_size]; auto. intros Hfr [H1 H2]. rewrite !Hfr by lia. auto.
Qed.

Lemma seq_list rdy bv : forall ns base vf,
  (forall n, In n ns -> is_comb (nop n) = false /\ (forall a, In a (nargs n) -> In a rdy)
                        /\ arity_ok (nop n) (length (nargs n)) = true) ->
  Inv rdy vf bv -> T0 <= base ->
  decl_ok (snd (emit_gnets nl (map (synth_net nl) ns) base)) vf ->
  let vf' := runs (fst (emit_gnets nl (map (synth_net nl) ns) base)) vf in
  (forall id, ~ (base <= id < base + gnets_size (map (synth_net nl) ns)) -> vf' id = vf id)
  /\ wr_post (map (synth_net nl) ns) base vf' bv.
Proof.
  induction ns as [|n r IH]; intros base vf Hall HI Hbase Hdecl; cbv zeta.
  - cbn [map emit_gnets fst wr_post]. unfold FlattenProofs.runs. cbn [fold_left]. split; [reflexivity|exact I].
  - destruct (Hall n (or_introl eq_refl)) as (Hc & Hin & Har).
    cbn [map] in *. rewrite emit_gnets_cons in *. cbn [fst snd] in *. cbn [wr_post].
    apply decl_split in Hdecl. destruct Hdecl as [Hd1 Hd2].
    destruct (seg_seq rdy n base vf bv HI Hc Hin Har Hbase Hd1) as [S1 S2]. cbv zeta in S1, S2.
    rewrite runs_app.
    set (vf1 := runs (fst (emit_gnet nl (synth_net nl n) base)) vf) in *.
    pose proof (gnet_size_nonneg (synth_net nl n)) as G1.
    pose proof (gnets_size_nonneg (map (synth_net nl) r)) as G2.
    destruct (emit_gnets_wires nl (map (synth_net nl) r) (base + gnet_size (synth_net nl n))) as [W1 W2].
    destruct (IH (base + gnet_size (synth_net nl n)) vf1) as [I1 I2].
    + intros x Hx. apply Hall. right. assumption.
    + apply (inv_frame rdy vf vf1 bv base Hbase HI). intros id Hid. apply S1. lia.
    + lia.
    + apply (decl_frame _ vf vf1 (base + gnet_size (synth_net nl n))); [assumption|assumption|].
      intros id Hid. apply S1. lia.
    + cbv zeta in I1, I2.
      change (gnets_size (synth_net nl n :: map (synth_net nl) r))
        with (gnet_size (synth_net nl n) + gnets_size (map (synth_net nl) r)).
      split; [|split; [|exact I2]].
      * intros id Hid. rewrite I1 by lia. apply S1. lia.
      * apply (seg_post_frame _ base vf1); [|exact S2]. intros id Hid. apply I1. lia.
Qed.

End FlatSeg.

(* ------------------------------------------------------------------ inputs, outputs, the whole combinational phase *)

Lemma fold_filter_id {A X} (f : A -> X -> A) (p : X -> bool) l :
  (forall a x, p x = false -> f a x = a) -> forall a, fold_left f (filter p l) a = fold_left f l a.
Proof.
  intro H. induction l as [|x r IH]; intro a; cbn [filter fold_left]; [reflexivity|].
  destruct (p x) eqn:E; cbn [fold_left]; [apply IH|]. rewrite (H a x E). apply IH.
Qed.

Lemma nets_ok_filter nl : forall ns rdy, nets_ok nl rdy ns = true ->
  nets_ok nl rdy (filter (fun n => is_comb (nop n)) ns) = true
  /\ fold_left rdy_next (filter (fun n => is_comb (nop n)) ns) rdy = fold_left rdy_next ns rdy.
Proof.
  induction ns as [|n r IH]; intros rdy H; [split; reflexivity|].
  cbn [WFDefs.nets_ok] in H. apply andb_true_iff in H. destruct H as [H1 H2].
  cbn [filter fold_left]. destruct (is_comb (nop n)) eqn:E.
  - cbn [WFDefs.nets_ok fold_left]. rewrite H1. destruct (IH _ H2) as [I1 I2]. split; assumption.
  - assert (Er : rdy_next rdy n = rdy) by (unfold rdy_next; rewrite E; reflexivity).
    rewrite Er in *. apply IH. assumption.
Qed.

Section FlatFinal.
Variable merge : bool.
Variable nl : netlist.
Hypothesis Hids : inc 0 (wires nl).
Hypothesis Hwf : wfb nl = true.
Hypothesis Hsy : synth_okb nl = true.

Local Notation bid := (bid nl).
Local Notation KK := (KK nl).
Local Notation NN := (NN nl).
Local Notation T0 := (T0 nl).
Local Notation nl' := (flatten merge nl).
Local Notation wnat := (wnat nl).

Lemma Hwidths : forallb (fun x => 0 <=? wwidth x) (wires nl) = true.
Proof. apply (wfb_parts nl Hwf). Qed.

Variable st : state.
Variable gst : gstate.
Variable ins : wid -> Z.
Hypothesis Hins : legal_ins nl ins.

(* the state of the flattened block spells the gate-level state *)
Definition Rf (st : state) (gst : gstate) : Prop :=
  (forall r i, is_reg_w nl r = true -> (i < wnat r)%nat -> sregs st (bid r i) = b2z (gregs gst r i))
  /\ (forall m a, smems st m a = gmems gst m a).
Hypothesis HR : Rf st gst.

Local Notation runs := (runs merge nl st).
Local Notation Inv := (Inv nl).

Definition vf0 : wid -> Z := base_val nl' 0 st (flat_ins nl ins).

Lemma base_of_decl d : In d (wires nl') ->
  vf0 (wname d) = match wkind d with
                  | KConst c => c
                  | KInput => flat_ins nl ins (wname d)
                  | KReg _ => sregs st (wname d)
                  | _ => 0
                  end.
Proof.
  intro H. unfold vf0, base_val. rewrite (lookup merge nl Hids Hwidths d H). reflexivity.
Qed.

Lemma flat_ins_bit a i : 0 < a -> Z.of_nat i < KK ->
  flat_ins nl ins (bid a i) = b2z (Z.testbit (ins a) (Z.of_nat i)).
Proof.
  intros Ha Hi. unfold flat_ins.
  destruct (bid_decode nl Hids Hwidths a i ltac:(lia) Hi) as [D1 D2].
  assert (NN <= bid a i) by (unfold Flatten.bid; pose proof (KK_pos nl Hids Hwidths); nia).
  destruct (bid a i <? NN) eqn:E; [lia|]. rewrite D1, D2. reflexivity.
Qed.

Lemma const_bit_01 c (i : nat) : g_const_bit c (Z.of_nat i) = b2z (negb (g_const_bit c (Z.of_nat i) =? 0)).
Proof.
  unfold g_const_bit. rewrite land1_shiftr by lia. destruct (Z.testbit c (Z.of_nat i)); reflexivity.
Qed.

(* one select per bit off every merged Input vector *)
Lemma in_nets_sound (l : list wire) : forall lo vf,
  inc lo l -> (forall x, In x l -> In x (wires nl)) ->
  let ns := flat_map (fun x => map (fun i => mkNet (OpSelect [Z.of_nat i]) [wname x] (bid (wname x) i))
                                   (seq 0 (xnat x))) l in
  (forall x i, In x l -> (i < xnat x)%nat ->
     runs ns vf (bid (wname x) i) = b2z (Z.testbit (vf (wname x)) (Z.of_nat i)))
  /\ (forall id, (forall x i, In x l -> (i < xnat x)%nat -> id <> bid (wname x) i) -> runs ns vf id = vf id).
Proof.
  pose proof Hwidths as Hw.
  induction l as [|y r IH]; intros lo vf Hinc Hsub; cbv zeta.
  - cbn [flat_map]. unfold FlattenProofs.runs. cbn [fold_left]. split; [intros x i []|reflexivity].
  - cbn [inc] in Hinc. destruct Hinc as [H1 H2]. cbn [flat_map]. rewrite runs_app.
    pose proof (Hsub y (or_introl eq_refl)) as Hy.
    destruct (wire_bounds nl Hids Hw y Hy) as [By1 By2].
    assert (Hxy : xnat y = wnat (wname y)).
    { unfold xnat, Synth.wnat, width_of. rewrite (inc_find 0 _ y Hids Hy). reflexivity. }
    destruct (run_selects merge nl Hids Hw st (wname y) (wname y) (xnat y) 0%nat vf) as [S1 S2].
    { intros i Hi. rewrite Hxy in Hi.
      destruct (bit_static merge nl Hids Hw (wname y) i ltac:(lia)) as (_ & _ & _ & _ & Q1 & _ & Q2 & _).
      split; [assumption|lia]. }
    cbv zeta in S1, S2.
    set (vf1 := runs (map (fun i => mkNet (OpSelect [Z.of_nat i]) [wname y] (bid (wname y) i)) (seq 0 (xnat y))) vf) in *.
    destruct (IH (wname y) vf1 H2 (fun x Hx => Hsub x (or_intror Hx))) as [I1 I2]. cbv zeta in I1, I2.
    assert (Hdisj : forall x i k, In x r -> (i < xnat x)%nat -> (k < xnat y)%nat ->
              bid (wname x) i <> bid (wname y) k).
    { intros x i k Hx Hi Hk. pose proof (inc_lower _ _ _ H2 Hx) as Hlt.
      pose proof (Hsub x (or_intror Hx)) as Hxw.
      assert (Hxx : xnat x = wnat (wname x)).
      { unfold xnat, Synth.wnat, width_of. rewrite (inc_find 0 _ x Hids Hxw). reflexivity. }
      apply (bid_neq merge nl Hids Hw); [lia|lia|lia]. }
    split.
    + intros x i [<-|Hx] Hi.
      * rewrite I2 by (intros x' i' Hx' Hi' E; symmetry in E; revert E; apply Hdisj; assumption).
        apply S1. lia.
      * rewrite I1 by assumption. f_equal. f_equal. apply S2.
        intros k Hk. pose proof (Hsub x (or_intror Hx)) as Hxw.
        destruct (wire_bounds nl Hids Hw x Hxw) as [Bx _].
        rewrite Hxy in Hk.
        destruct (bit_static merge nl Hids Hw (wname y) k ltac:(lia)) as (_ & _ & _ & _ & _ & _ & Q2 & _). lia.
    + intros id Hid. rewrite I2 by (intros x i Hx Hi; apply Hid; [right; assumption|assumption]).
      apply S2. intros k Hk. apply Hid; [left; reflexivity|lia].
Qed.


(* one concat per merged Output vector *)
Lemma out_nets_sound bv (Hm : merge = true) (l : list wire) : forall lo vf,
  inc lo l -> (forall x, In x l -> In x (wires nl) /\ is_io x = true) ->
  (forall x i, In x l -> (i < xnat x)%nat -> vf (bid (wname x) i) = b2z (bv (wname x) i)) ->
  let ns := map (fun x => cat_net nl (wname x) (xnat x) (wname x)) l in
  (forall x, In x l -> runs ns vf (wname x) = bits_val bv (wname x) (xnat x))
  /\ (forall id, (forall x, In x l -> id <> wname x) -> runs ns vf id = vf id).
Proof.
  pose proof Hwidths as Hw.
  induction l as [|y r IH]; intros lo vf Hinc Hsub Hbits; cbv zeta.
  - cbn [map]. unfold FlattenProofs.runs. cbn [fold_left]. split; [intros x []|reflexivity].
  - cbn [inc] in Hinc. destruct Hinc as [H1 H2]. cbn [map].
    change (?x :: ?t) with ([x] ++ t). rewrite runs_app.
    destruct (Hsub y (or_introl eq_refl)) as [Hy Hio].
    destruct (wire_bounds nl Hids Hw y Hy) as [By1 By2].
    assert (Hxy : xnat y = wnat (wname y)).
    { unfold xnat, Synth.wnat, width_of. rewrite (inc_find 0 _ y Hids Hy). reflexivity. }
    pose proof (lookup_width merge nl Hids Hw y (vec_decl merge nl y Hm Hy Hio)) as Wy.
    rewrite (run_cat merge nl Hids Hw st bv vf (wname y) (xnat y) (wname y)).
    2:{ rewrite Wy. unfold xnat. lia. }
    2:{ intros i Hi. rewrite Hxy in Hi.
        destruct (bit_static merge nl Hids Hw (wname y) i Hi) as (_ & _ & _ & _ & Q1 & _).
        split; [assumption|]. apply Hbits; [left; reflexivity|lia]. }
    set (vf1 := upd vf (wname y) (bits_val bv (wname y) (xnat y))).
    destruct (IH (wname y) vf1 H2 (fun x Hx => Hsub x (or_intror Hx))) as [I1 I2].
    { intros x i Hx Hi. unfold vf1. rewrite upd_other; [apply Hbits; [right; assumption|assumption]|].
      destruct (Hsub x (or_intror Hx)) as [Hxw _].
      assert (Hxx : xnat x = wnat (wname x)).
      { unfold xnat, Synth.wnat, width_of. rewrite (inc_find 0 _ x Hids Hxw). reflexivity. }
      rewrite Hxx in Hi.
      destruct (bit_static merge nl Hids Hw (wname x) i Hi) as (_ & _ & _ & _ & _ & _ & Q2 & _). lia. }
    cbv zeta in I1, I2. split.
    + intros x [<-|Hx]; [|apply I1; assumption].
      rewrite I2; [unfold vf1; apply upd_same|].
      intros x' Hx' E. pose proof (inc_lower _ _ _ H2 Hx'). lia.
    + intros id Hid. rewrite I2 by (intros x Hx; apply Hid; right; assumption).
      unfold vf1. apply upd_other. apply Hid. left. reflexivity.
Qed.

Lemma emit_gnets_app l1 : forall l2 base,
  emit_gnets nl (l1 ++ l2) base
  = (fst (emit_gnets nl l1 base) ++ fst (emit_gnets nl l2 (base + gnets_size l1)),
     snd (emit_gnets nl l1 base) ++ snd (emit_gnets nl l2 (base + gnets_size l1))).
Proof.
  induction l1 as [|g r IH]; intros l2 base.
  - cbn [app emit_gnets fst snd gnets_size fold_right]. rewrite Z.add_0_r. destruct (emit_gnets nl l2 base); reflexivity.
  - cbn [app]. rewrite !emit_gnets_cons, IH. cbn [fst snd].
    change (gnets_size (g :: r)) with (gnet_size g + gnets_size r).
    rewrite !app_assoc, Z.add_assoc. reflexivity.
Qed.

(* ---- the cycle-start valuation after the input selects ---- *)
Definition vfI : wid -> Z := runs (in_nets merge nl) vf0.

Lemma orig_unique x y : In x (wires nl) -> In y (wires nl) -> wname x = wname y -> x = y.
Proof.
  intros Hx Hy E. pose proof (inc_find 0 _ x Hids Hx) as Fx. pose proof (inc_find 0 _ y Hids Hy) as Fy.
  rewrite E in Fx. congruence.
Qed.

Lemma in_nets_cases :
  (merge = true /\ in_nets merge nl
     = flat_map (fun x => map (fun i => mkNet (OpSelect [Z.of_nat i]) [wname x] (bid (wname x) i))
                              (seq 0 (xnat x))) (filter is_in (wires nl)))
  \/ (merge = false /\ in_nets merge nl = []).
Proof. unfold in_nets. destruct merge; [left|right]; split; reflexivity. Qed.

Lemma vfI_frame id : (forall x i, In x (wires nl) -> wkind x = KInput -> (i < xnat x)%nat -> id <> bid (wname x) i) ->
  vfI id = vf0 id.
Proof.
  intro H. unfold vfI. destruct (in_nets_cases) as [[Em Ein]|[Em Ein]]; rewrite Ein; [|reflexivity].
  destruct (in_nets_sound (filter is_in (wires nl)) 0 vf0) as [_ S2].
  - apply inc_filter. exact Hids.
  - intros x Hx. apply filter_In in Hx. tauto.
  - apply S2. intros x i Hx Hi. apply filter_In in Hx. destruct Hx as [Hx Hk].
    apply H; try assumption. unfold is_in in Hk. destruct (wkind x); try discriminate; reflexivity.
Qed.

Lemma base_inv : Inv (rdy0 nl) vfI (gbase nl gst ins).
Proof.
  pose proof Hwidths as Hw.
  intros a Ha i Hi. unfold WFDefs.rdy0 in Ha. apply filter_In in Ha. destruct Ha as [_ Hb].
  unfold WFDefs.is_base in Hb.
  destruct (bit_static merge nl Hids Hw a i Hi) as (x & Hx & Hn & Hf & W & K & R & P & Ik).
  rewrite Hf in Hb.
  assert (Hxn : (i < xnat x)%nat).
  { unfold Synth.wnat, width_of in Hi. rewrite Hf in Hi. exact Hi. }
  pose proof (bit_decl merge nl Hids Hw x i Hx Hxn) as Hd. rewrite Hn in Hd.
  pose proof (base_of_decl _ Hd) as Hv. cbn [wname wkind] in Hv.
  unfold gbase. rewrite Hf.
  assert (Hnotin : wkind x <> KInput -> vfI (bid a i) = vf0 (bid a i)).
  { intro Hk. apply vfI_frame. intros y k Hy Hyk Hkk E.
    assert (Hyy : xnat y = wnat (wname y)).
    { unfold xnat, Synth.wnat, width_of. rewrite (inc_find 0 _ y Hids Hy). reflexivity. }
    revert E. apply (bid_neq merge nl Hids Hw); [assumption|lia|].
    intro E. apply Hk. rewrite <- Hn in E. rewrite (orig_unique x y Hx Hy E). assumption. }
  unfold bit_kind in Hv. destruct (wkind x) eqn:Ek; try discriminate Hb.
  - (* input *)
    destruct (in_nets_cases) as [[Em Ein]|[Em Ein]].
    + unfold vfI. rewrite Ein.
      destruct (in_nets_sound (filter is_in (wires nl)) 0 vf0) as [S1 _].
      * apply inc_filter. exact Hids.
      * intros y Hy. apply filter_In in Hy. tauto.
      * cbv zeta in S1. rewrite <- Hn. rewrite (S1 x i).
        -- f_equal. f_equal.
           assert (Hio : is_io x = true) by (unfold is_io; rewrite Ek; reflexivity).
           pose proof (vec_decl merge nl x Em Hx Hio) as Hvd.
           rewrite (base_of_decl x Hvd), Ek. unfold flat_ins.
           destruct (wire_bounds nl Hids Hw x Hx) as [B1 _].
           destruct (wname x <? NN) eqn:E; [reflexivity|lia].
        -- apply filter_In. split; [assumption|]. unfold is_in. rewrite Ek. reflexivity.
        -- assumption.
    + unfold vfI. rewrite Ein. unfold FlattenProofs.runs. cbn [fold_left].
      rewrite Hv. rewrite Em. apply flat_ins_bit; assumption.
  - (* const *)
    rewrite Hnotin by discriminate. rewrite Hv. apply const_bit_01.
  - (* register *)
    rewrite Hnotin by discriminate. rewrite Hv. apply HR; [|assumption].
    unfold is_reg_w, kind_of. rewrite Hf, Ek. reflexivity.
Qed.


(* ---- assembling the combinational phase ---- *)
Local Notation gsC := (map (synth_net nl) (comb_nets nl)).
Local Notation gsS := (map (synth_net nl) (seq_nets nl)).
Definition baseS : Z := T0 + gnets_size gsC.
Definition vfC : wid -> Z := runs (fst (emit_gnets nl gsC T0)) vfI.
Definition vfS : wid -> Z := runs (fst (emit_gnets nl gsS baseS)) vfC.
Definition vfF : wid -> Z := runs (out_nets merge nl) vfS.
Definition bvF : wid -> nat -> bool := fst (gstep nl gst ins).

Lemma comb_eq : comb nl' st vf0 = vfF.
Proof.
  change (comb nl' st vf0) with (runs (nets nl') vf0).
  unfold vfF, vfS, vfC, vfI, baseS. rewrite (flatten_nets merge nl). unfold osynth.
  rewrite emit_gnets_app. cbn [fst]. rewrite !runs_app. reflexivity.
Qed.

Lemma bv_eq : fold_left (gnet_exec nl gst) gsC (gbase nl gst ins) = bvF.
Proof.
  unfold bvF, gstep. cbn [fst].
  rewrite (fold_left_map_ext _ (gexec nl gst) _ _ (exec_structure nl gst)).
  unfold comb_nets. apply fold_filter_id. intros bv n Hc. unfold gexec.
  destruct (nop n); try discriminate Hc; reflexivity.
Qed.

Lemma wr_post_frame gs : forall base vf vf' bv, 0 <= 0 ->
  (forall id, base <= id -> vf' id = vf id) -> wr_post gs base vf bv -> wr_post gs base vf' bv.
Proof.
  induction gs as [|g r IH]; intros base vf vf' bv _ Hfr H; [exact I|].
  cbn [wr_post] in *. destruct H as [H1 H2]. pose proof (gnet_size_nonneg g). split.
  - apply (seg_post_frame nl Hids Hwidths g base vf); [|assumption]. intros id Hid. apply Hfr. lia.
  - apply (IH _ vf); [lia| |assumption]. intros id Hid. apply Hfr. lia.
Qed.

Lemma temps_ge d : In d (snd (emit_gnets nl (osynth nl) T0)) -> T0 <= wname d.
Proof.
  intro H. destruct (emit_gnets_wires nl (osynth nl) T0) as [W1 _].
  pose proof (inc_lower _ _ _ W1 H). lia.
Qed.

Lemma bid_lt_T0 a i : (i < wnat a)%nat -> bid a i < T0.
Proof. intro Hi. destruct (bit_static merge nl Hids Hwidths a i Hi) as (_ & _ & _ & _ & _ & _ & R & _). lia. Qed.

Lemma xnat_wnat x : In x (wires nl) -> xnat x = wnat (wname x).
Proof. intro Hx. unfold xnat, Synth.wnat, width_of. rewrite (inc_find 0 _ x Hids Hx). reflexivity. Qed.

Lemma decl_all : decl_ok merge nl (snd (emit_gnets nl (osynth nl) T0)) vfI.
Proof.
  split; [apply temp_decl|]. intros d c Hd Hk.
  rewrite vfI_frame.
  - rewrite (base_of_decl d (temp_decl merge nl d Hd)), Hk. reflexivity.
  - intros x i Hx _ Hi E. pose proof (temps_ge d Hd). rewrite (xnat_wnat x Hx) in Hi.
    pose proof (bid_lt_T0 (wname x) i Hi). lia.
Qed.

Theorem comb_phase :
  Inv (rdy_final nl) vfF bvF
  /\ wr_post gsS baseS vfF bvF
  /\ (merge = true -> forall x, In x (wires nl) -> is_out x = true ->
        vfF (wname x) = bits_val bvF (wname x) (wnat (wname x))).
Proof.
  pose proof Hwidths as Hw.
  destruct (wfb_parts nl Hwf) as (_ & _ & Hnets & Hseq & Hall).
  destruct (nets_ok_filter nl (nets nl) (rdy0 nl) Hnets) as [HnC HrC]. fold (comb_nets nl) in HnC, HrC.
  pose proof decl_all as Hdecl. unfold osynth in Hdecl. rewrite emit_gnets_app in Hdecl. cbn [snd] in Hdecl.
  apply (decl_split merge nl) in Hdecl. destruct Hdecl as [HdC HdS]. fold baseS in HdS.
  pose proof (gnets_size_nonneg gsC) as GC. pose proof (gnets_size_nonneg gsS) as GS.
  (* combinational groups *)
  destruct (comb_list merge nl Hids Hw st gst (proj2 HR) (comb_nets nl) (rdy0 nl) T0 vfI (gbase nl gst ins))
    as [C1 C2]; try assumption; try lia.
  { intros n Hn. unfold comb_nets in Hn. apply filter_In in Hn. destruct Hn as [Hn Hc]. split; [assumption|].
    unfold synth_okb in Hsy. rewrite forallb_forall in Hsy. auto. }
  { apply base_inv. }
  cbv zeta in C1, C2. fold vfC in C1, C2. rewrite bv_eq in C1. rewrite HrC in C1. fold (rdy_final nl) in C1.
  (* register and write-port groups *)
  assert (HdS' : decl_ok merge nl (snd (emit_gnets nl gsS baseS)) vfC).
  { apply (decl_frame merge nl Hids Hw _ vfI vfC baseS); [assumption|apply emit_gnets_wires|].
    intros id Hid. apply C2; [unfold baseS in Hid; lia|].
    intros n k _ Hk. pose proof (bid_lt_T0 (ndest n) k Hk). unfold baseS in Hid. lia. }
  destruct (seq_list merge nl Hids Hw st (rdy_final nl) bvF (seq_nets nl) baseS vfC) as [S1 S2];
    try assumption; try (unfold baseS; lia).
  { intros n Hn. unfold seq_nets in Hn. apply filter_In in Hn. destruct Hn as [Hn Hc].
    apply negb_true_iff in Hc. rewrite forallb_forall in Hseq. specialize (Hseq n Hn). rewrite Hc in Hseq.
    apply andb_true_iff in Hseq. destruct Hseq as [Ha Har]. split; [assumption|]. split; [|assumption].
    intros a Hain. apply mem_in_In. rewrite forallb_forall in Ha. auto. }
  cbv zeta in S1, S2. fold vfS in S1, S2.
  assert (IS : Inv (rdy_final nl) vfS bvF).
  { apply (inv_frame merge nl Hids Hw (rdy_final nl) vfC vfS bvF baseS); [unfold baseS; lia|assumption|].
    intros id Hid. apply S1. lia. }
  (* output vectors *)
  unfold vfF, out_nets. destruct (Bool.bool_dec merge true) as [Em|Em].
  - assert (Eout : (if merge then map (fun x => cat_net nl (wname x) (xnat x) (wname x)) (filter is_out (wires nl)) else [])
                   = map (fun x => cat_net nl (wname x) (xnat x) (wname x)) (filter is_out (wires nl)))
      by (destruct merge; [reflexivity|congruence]).
    rewrite Eout.
    destruct (out_nets_sound bvF Em (filter is_out (wires nl)) 0 vfS) as [O1 O2].
    + apply inc_filter. exact Hids.
    + intros x Hx. apply filter_In in Hx. destruct Hx as [Hx Hk]. split; [assumption|].
      unfold is_out in Hk. unfold is_io. destruct (wkind x); try discriminate; reflexivity.
    + intros x i Hx Hi. apply filter_In in Hx. destruct Hx as [Hx _]. apply IS.
      * rewrite forallb_forall in Hall. apply mem_in_In. apply Hall. assumption.
      * rewrite <- (xnat_wnat x Hx). assumption.
    + cbv zeta in O1, O2.
      assert (Hfr : forall id, NN <= id ->
                runs (map (fun x => cat_net nl (wname x) (xnat x) (wname x)) (filter is_out (wires nl))) vfS id = vfS id).
      { intros id Hid. apply O2. intros x Hx E. apply filter_In in Hx. destruct Hx as [Hx _].
        destruct (wire_bounds nl Hids Hw x Hx). lia. }
      split; [|split].
      * intros a Ha i Hi. rewrite Hfr; [apply IS; assumption|].
        destruct (bit_static merge nl Hids Hw a i Hi) as (_ & _ & _ & _ & _ & _ & R & _). lia.
      * apply (wr_post_frame gsS baseS vfS); [lia| |assumption].
        intros id Hid. apply Hfr. unfold baseS, Flatten.T0 in Hid.
        pose proof (KK_pos nl Hids Hw). pose proof (NN_pos nl Hids Hw). nia.
      * intros _ x Hx Hk. rewrite <- (xnat_wnat x Hx). apply O1. apply filter_In. split; assumption.
  - assert (Eout : (if merge then map (fun x => cat_net nl (wname x) (xnat x) (wname x)) (filter is_out (wires nl)) else [])
                   = []) by (destruct merge; [congruence|reflexivity]).
    rewrite Eout. unfold FlattenProofs.runs. cbn [fold_left].
    split; [assumption|]. split; [assumption|]. intros E. contradiction.
Qed.

End FlatFinal.

(* ------------------------------------------------------------------ next state *)

Lemma emit_nets_comb nl g : forall base x, In x (fst (snd (emit nl g base))) -> is_comb (nop x) = true.
Proof.
  induction g as [w i|b|a IHa|a IHa b IHb|a IHa b IHb|a IHa b IHb|a IHa b IHb]; intros base x; cbn [emit];
    try (unfold gate2; specialize (IHa (base + 1)); specialize (IHb (base + 1 + gsize a));
         destruct (emit nl a (base + 1)) as [ia [na wa]]; destruct (emit nl b (base + 1 + gsize a)) as [ib [nb wb]];
         cbn [fst snd] in *; intro H; apply in_app_or in H; destruct H as [H|H]; [eauto|];
         apply in_app_or in H; destruct H as [H|[<-|[]]]; [eauto|reflexivity]).
  - intros [].
  - intros [].
  - specialize (IHa (base + 1)). destruct (emit nl a (base + 1)) as [ia [na wa]]. cbn [fst snd] in *.
    intro H. apply in_app_or in H. destruct H as [H|[<-|[]]]; [eauto|reflexivity].
Qed.

Lemma emit_bits_nets_comb nl d bits : forall j base x,
  In x (fst (emit_bits nl d j bits base)) -> is_comb (nop x) = true.
Proof.
  induction bits as [|g r IH]; intros j base x; cbn [emit_bits]; [intros []|].
  pose proof (emit_nets_comb nl g base) as Hg.
  destruct (emit nl g base) as [id [ns ws]]. specialize (IH (S j) (base + gsize g)).
  destruct (emit_bits nl d (S j) r (base + gsize g)) as [ns' ws']. cbn [fst snd] in *.
  intro H. apply in_app_or in H. destruct H as [H|[<-|H]]; [eauto|reflexivity|eauto].
Qed.

Lemma comb_gnet_nets nl n base x : is_comb (nop n) = true ->
  In x (fst (emit_gnet nl (synth_net nl n) base)) -> is_comb (nop x) = true.
Proof.
  intros Hc. unfold synth_net. destruct (nop n) eqn:E; try discriminate Hc; cbn [emit_gnet fst];
    try (apply emit_bits_nets_comb).
  intros [<-|[<-|H]]; try reflexivity. apply in_map_iff in H. destruct H as [i [<- _]]. reflexivity.
Qed.

Lemma comb_gnets_nets nl ns : forall base x, (forall n, In n ns -> is_comb (nop n) = true) ->
  In x (fst (emit_gnets nl (map (synth_net nl) ns) base)) -> is_comb (nop x) = true.
Proof.
  induction ns as [|n r IH]; intros base x Hall; cbn [map emit_gnets]; [intros []|].
  pose proof (comb_gnet_nets nl n base x (Hall n (or_introl eq_refl))) as Hn.
  destruct (emit_gnet nl (synth_net nl n) base) as [ns1 ws1].
  specialize (IH (base + gnet_size (synth_net nl n)) x (fun y Hy => Hall y (or_intror Hy))).
  destruct (emit_gnets nl (map (synth_net nl) r) (base + gnet_size (synth_net nl n))) as [ns2 ws2].
  cbn [fst] in *. intro H. apply in_app_or in H. destruct H; auto.
Qed.

Lemma regnext_skip nl' v ns : (forall n, In n ns -> is_comb (nop n) = true) ->
  forall rg, fold_left (regnext_spec nl' v) ns rg = rg.
Proof.
  induction ns as [|n r IH]; intros H rg; cbn [fold_left]; [reflexivity|].
  rewrite IH by (intros; apply H; right; assumption).
  specialize (H n (or_introl eq_refl)). unfold regnext_spec. destruct (nop n); try discriminate H; reflexivity.
Qed.

Lemma write_skip v ns : (forall n, In n ns -> is_comb (nop n) = true) ->
  forall ms, fold_left (write_spec v) ns ms = ms.
Proof.
  induction ns as [|n r IH]; intros H ms; cbn [fold_left]; [reflexivity|].
  rewrite IH by (intros; apply H; right; assumption).
  specialize (H n (or_introl eq_refl)). unfold write_spec. destruct (nop n); try discriminate H; reflexivity.
Qed.

Lemma write_skip_nowr v ns : (forall n, In n ns -> forall m, nop n <> OpMemWr m) ->
  forall ms, fold_left (write_spec v) ns ms = ms.
Proof.
  induction ns as [|n r IH]; intros H ms; cbn [fold_left]; [reflexivity|].
  rewrite IH by (intros; apply H; right; assumption).
  specialize (H n (or_introl eq_refl)). unfold write_spec. destruct (nop n); try reflexivity.
  exfalso. eapply H. reflexivity.
Qed.

Section FlatState.
Variable merge : bool.
Variable nl : netlist.
Hypothesis Hids : inc 0 (wires nl).
Hypothesis Hwidths : forallb (fun x => 0 <=? wwidth x) (wires nl) = true.

Local Notation bid := (bid nl).
Local Notation T0 := (T0 nl).
Local Notation nl' := (flatten merge nl).
Local Notation wnat := (wnat nl).

Variable vf : wid -> Z.                 (* final valuation of the flattened block *)
Variable bv : wid -> nat -> bool.       (* final gate-level valuation *)
Variable rdy : list wid.
Hypothesis HI : Inv nl rdy vf bv.

Definition RR (rg : wid -> Z) (grg : wid -> nat -> bool) : Prop :=
  forall r i, is_reg_w nl r = true -> (i < wnat r)%nat -> rg (bid r i) = b2z (grg r i).

(* the 1-bit `r` nets of one register *)
Lemma reg_bits w src n : forall s rg,
  (forall i, (s <= i < s + n)%nat -> width_of nl' (bid w i) = 1 /\ vf (bid src i) = b2z (bv src i)) ->
  let rg' := fold_left (regnext_spec nl' vf) (map (fun i => mkNet OpReg [bid src i] (bid w i)) (seq s n)) rg in
  (forall i, (s <= i < s + n)%nat -> rg' (bid w i) = b2z (bv src i))
  /\ (forall id, (forall i, (s <= i < s + n)%nat -> id <> bid w i) -> rg' id = rg id).
Proof.
  induction n as [|n IH]; intros s rg H; cbv zeta; cbn [seq map fold_left].
  - split; [intros; lia|reflexivity].
  - destruct (H s ltac:(lia)) as [W0 V0].
    assert (Hhd : regnext_spec nl' vf rg (mkNet OpReg [bid src s] (bid w s)) = upd rg (bid w s) (b2z (bv src s))).
    { unfold regnext_spec. cbn [nop nargs ndest arg nth]. rewrite W0, V0, b2z_mod2'. reflexivity. }
    rewrite Hhd.
    set (rg1 := upd rg (bid w s) (b2z (bv src s))).
    destruct (IH (S s) rg1) as [I1 I2]. { intros i Hi. apply H. lia. }
    cbv zeta in I1, I2. split.
    + intros i Hi. destruct (Nat.eq_dec i s) as [->|Hne].
      * rewrite I2; [unfold rg1; apply upd_same|]. intros k Hk E. unfold Flatten.bid in E. lia.
      * apply I1. lia.
    + intros id Hid. rewrite I2 by (intros i Hi; apply Hid; lia).
      unfold rg1. apply upd_other. apply Hid. lia.
Qed.

Lemma seq_regs : forall ns base rg grg,
  (forall n, In n ns -> is_comb (nop n) = false /\ (forall a, In a (nargs n) -> In a rdy)
                        /\ arity_ok (nop n) (length (nargs n)) = true /\ net_synth_ok nl n = true) ->
  RR rg grg ->
  RR (fold_left (regnext_spec nl' vf) (fst (emit_gnets nl (map (synth_net nl) ns) base)) rg)
     (fold_left (gregnext nl bv) ns grg).
Proof. pose proof Hids as Hids_u. pose proof Hwidths as Hwidths_u. pose proof merge as merge_u.
  induction ns as [|n r IH]; intros base rg grg Hall HR; [exact HR|].
  destruct (Hall n (or_introl eq_refl)) as (Hc & Hin & Har & Hso).
  cbn [map]. rewrite (emit_gnets_cons nl). cbn [fst fold_left]. rewrite fold_left_app.
  apply IH; [intros x Hx; apply Hall; right; assumption|].
  unfold synth_net, gregnext. unfold net_synth_ok in Hso.
  destruct (nop n) eqn:Eop; try discriminate Hc; cbn [emit_gnet fst].
  - (* a register *)
    cbn [arity_ok] in Har. apply Nat.eqb_eq in Har.
    assert (Ha0 : In (arg n 0) (nargs n)) by (unfold arg; apply nth_In; lia).
    assert (Hle : (wnat (ndest n) <= wnat (arg n 0))%nat) by (unfold Synth.wnat; lia).
    destruct (reg_bits (ndest n) (arg n 0) (wnat (ndest n)) 0%nat rg) as [B1 B2].
    { intros i Hi. destruct (bit_static merge nl Hids Hwidths (ndest n) i ltac:(lia)) as (_ & _ & _ & _ & Q1 & _).
      split; [assumption|]. apply HI; [apply Hin; assumption|lia]. }
    cbv zeta in B1, B2. intros r0 i Hr Hi.
    destruct (r0 =? ndest n) eqn:E.
    + assert (r0 = ndest n) by lia. subst r0. cbn [andb].
      destruct (Nat.ltb_spec i (wnat (ndest n))); [|lia]. apply B1. lia.
    + cbn [andb]. rewrite B2; [apply HR; assumption|].
      intros k Hk. apply (bid_neq merge nl Hids Hwidths); [assumption|lia|lia].
  - (* a memory write port: no register effect *)
    cbn [fold_left]. unfold regnext_spec, cat_net. cbn [nop]. exact HR.
Qed.

Lemma seq_mems : forall ns base ms gms,
  (forall n, In n ns -> is_comb (nop n) = false /\ (forall a, In a (nargs n) -> In a rdy)
                        /\ arity_ok (nop n) (length (nargs n)) = true /\ net_synth_ok nl n = true) ->
  wr_post (map (synth_net nl) ns) base vf bv ->
  (forall m a, ms m a = gms m a) ->
  forall m a, fold_left (write_spec vf) (fst (emit_gnets nl (map (synth_net nl) ns) base)) ms m a
            = fold_left (gwrite nl bv) ns gms m a.
Proof. pose proof Hids as Hids_u. pose proof Hwidths as Hwidths_u. pose proof merge as merge_u.
  induction ns as [|n r IH]; intros base ms gms Hall Hpost H0; [exact H0|].
  destruct (Hall n (or_introl eq_refl)) as (Hc & Hin & Har & Hso).
  cbn [map] in *. rewrite (emit_gnets_cons nl). cbn [fst fold_left]. rewrite fold_left_app.
  cbn [wr_post] in Hpost. destruct Hpost as [P1 P2].
  apply (IH (base + gnet_size (synth_net nl n))); [intros x Hx; apply Hall; right; assumption|assumption|].
  unfold synth_net, gwrite in *. unfold net_synth_ok in Hso.
  destruct (nop n) eqn:Eop; try discriminate Hc; cbn [emit_gnet fst seg_post] in *.
  - (* registers: no memory effect *)
    rewrite write_skip_nowr; [exact H0|].
    intros x Hx m'. apply in_map_iff in Hx. destruct Hx as [i [<- _]]. cbn [nop]. discriminate.
  - (* the write port *)
    cbn [fold_left]. unfold write_spec at 1 2 3. unfold cat_net. cbn [nop nargs arg nth].
    cbn [arity_ok] in Har. apply Nat.eqb_eq in Har.
    assert (Ha2 : In (arg n 2) (nargs n)) by (unfold arg; apply nth_In; lia).
    assert (Hen : vf (bid (arg n 2) 0) = b2z (bv (arg n 2) 0%nat)).
    { apply HI; [apply Hin; assumption|]. unfold Synth.wnat. lia. }
    destruct P1 as [PA PD]. rewrite Hen, PA, PD.
    destruct (bv (arg n 2) 0%nat); cbn [b2z Z.eqb]; [|exact H0].
    intros m' a'. unfold upd. destruct (m' =? m); [|apply H0]. destruct (a' =? _); [reflexivity|apply H0].
Qed.

End FlatState.

(* ------------------------------------------------------------------ one cycle, every cycle *)

Section FlatThm.
Variable merge : bool.
Variable nl : netlist.
Hypothesis Hidsb : ids_okb nl = true.
Hypothesis Hwf : wfb nl = true.
Hypothesis Hsy : synth_okb nl = true.

Local Notation bid := (bid nl).
Local Notation nl' := (flatten merge nl).
Local Notation wnat := (wnat nl).

Lemma Hids : inc 0 (wires nl).
Proof. apply incb_inc. exact Hidsb. Qed.

Lemma Hw : forallb (fun x => 0 <=? wwidth x) (wires nl) = true.
Proof. apply (wfb_parts nl Hwf). Qed.

Lemma in_nets_comb x : In x (in_nets merge nl) -> is_comb (nop x) = true.
Proof.
  unfold in_nets. destruct merge; [|intros []]. intro H. apply in_flat_map in H.
  destruct H as [y [_ H]]. apply in_map_iff in H. destruct H as [i [<- _]]. reflexivity.
Qed.

Lemma out_nets_comb x : In x (out_nets merge nl) -> is_comb (nop x) = true.
Proof.
  unfold out_nets. destruct merge; [|intros []]. intro H. apply in_map_iff in H.
  destruct H as [y [<- _]]. reflexivity.
Qed.

(* what one cycle of the flattened block establishes *)
Definition cycle_ok (vf : wid -> Z) (bv : wid -> nat -> bool) : Prop :=
  Inv nl (rdy_final nl) vf bv
  /\ (merge = true -> forall x, In x (wires nl) -> is_out x = true ->
        vf (wname x) = bits_val bv (wname x) (wnat (wname x))).

Theorem flat_step st gst ins : Rf nl st gst -> legal_ins nl ins ->
  cycle_ok (fst (step nl' 0 st (flat_ins nl ins))) (fst (gstep nl gst ins))
  /\ Rf nl (snd (step nl' 0 st (flat_ins nl ins))) (snd (gstep nl gst ins)).
Proof.
  intros HR Hins. pose proof Hids as Hi. pose proof Hw as Hww.
  destruct (wfb_parts nl Hwf) as (_ & _ & Hnets & Hseq & Hall).
  destruct (comb_phase merge nl Hi Hwf Hsy st gst ins HR) as (C1 & C2 & C3).
  unfold step. cbn [fst snd].
  change (base_val nl' 0 st (flat_ins nl ins)) with (vf0 merge nl st ins).
  rewrite (comb_eq merge nl st ins).
  set (vF := vfF merge nl st ins) in *. set (bv := bvF nl gst ins) in *.
  change (fst (gstep nl gst ins)) with bv.
  split; [split; assumption|].
  assert (Hseqall : forall n, In n (seq_nets nl) -> is_comb (nop n) = false
             /\ (forall a, In a (nargs n) -> In a (rdy_final nl))
             /\ arity_ok (nop n) (length (nargs n)) = true /\ net_synth_ok nl n = true).
  { intros n Hn. unfold seq_nets in Hn. apply filter_In in Hn. destruct Hn as [Hn Hc].
    apply negb_true_iff in Hc. rewrite forallb_forall in Hseq. specialize (Hseq n Hn). rewrite Hc in Hseq.
    apply andb_true_iff in Hseq. destruct Hseq as [Ha Har]. split; [assumption|]. split; [|split; [assumption|]].
    - intros a Hain. apply mem_in_In. rewrite forallb_forall in Ha. auto.
    - unfold synth_okb in Hsy. rewrite forallb_forall in Hsy. auto. }
  assert (Hcomball : forall n, In n (comb_nets nl) -> is_comb (nop n) = true).
  { intros n Hn. unfold comb_nets in Hn. apply filter_In in Hn. tauto. }
  unfold gstep. cbn [snd]. change (fold_left (gexec nl gst) (nets nl) (gbase nl gst ins)) with bv.
  rewrite (flatten_nets merge nl). unfold osynth. rewrite (emit_gnets_app nl). cbn [fst].
  rewrite !fold_left_app.
  split; cbn [sregs smems gregs gmems].
  - (* registers *)
    rewrite (regnext_skip nl' vF (in_nets merge nl)) by (apply in_nets_comb).
    rewrite (regnext_skip nl' vF (fst (emit_gnets nl (map (synth_net nl) (comb_nets nl)) (T0 nl))))
      by (intros x Hx; eapply comb_gnets_nets; eassumption).
    rewrite (regnext_skip nl' vF (out_nets merge nl)) by (apply out_nets_comb).
    replace (fold_left (gregnext nl bv) (nets nl) (gregs gst))
      with (fold_left (gregnext nl bv) (seq_nets nl) (gregs gst)).
    + exact (seq_regs merge nl Hi Hww vF bv (rdy_final nl) C1 (seq_nets nl)
               (T0 nl + gnets_size (map (synth_net nl) (comb_nets nl))) (sregs st) (gregs gst) Hseqall (proj1 HR)).
    + unfold seq_nets. apply fold_filter_id. intros rg n Hc. apply negb_false_iff in Hc.
      unfold gregnext. destruct (nop n); try discriminate Hc; reflexivity.
  - (* memories *)
    rewrite (write_skip vF (in_nets merge nl)) by (apply in_nets_comb).
    rewrite (write_skip vF (fst (emit_gnets nl (map (synth_net nl) (comb_nets nl)) (T0 nl))))
      by (intros x Hx; eapply comb_gnets_nets; eassumption).
    rewrite (write_skip vF (out_nets merge nl)) by (apply out_nets_comb).
    replace (fold_left (gwrite nl bv) (nets nl) (gmems gst))
      with (fold_left (gwrite nl bv) (seq_nets nl) (gmems gst)).
    + exact (seq_mems merge nl Hi Hww vF bv (rdy_final nl) C1 (seq_nets nl)
               (T0 nl + gnets_size (map (synth_net nl) (comb_nets nl))) (smems st) (gmems gst) Hseqall C2 (proj2 HR)).
    + unfold seq_nets. apply fold_filter_id. intros ms n Hc. apply negb_false_iff in Hc.
      unfold gwrite. destruct (nop n); try discriminate Hc; reflexivity.
Qed.

Theorem flat_run : forall inss st gst, Rf nl st gst -> Forall (legal_ins nl) inss ->
  Forall2 cycle_ok (fst (run nl' 0 st (map (flat_ins nl) inss))) (fst (grun nl gst inss)).
Proof.
  induction inss as [|ins rest IH]; intros st gst HR Hins; cbn [map run grun]; [constructor|].
  inversion Hins as [|? ? Hi Hrest]; subst.
  destruct (flat_step st gst ins HR Hi) as [Hc HR1].
  specialize (IH _ _ HR1 Hrest). unfold gstep in *. unfold step in *. cbn [fst snd] in *.
  match goal with |- context [run nl' 0 ?s (map _ rest)] => destruct (run nl' 0 s (map (flat_ins nl) rest)) as [vs st2] end.
  match goal with |- context [grun nl ?s rest] => destruct (grun nl s rest) as [bvs gst2] end.
  cbn [fst] in *. constructor; assumption.
Qed.

Lemma flat_state_related gst : Rf nl (flat_state nl gst) gst.
Proof.
  pose proof Hids as Hi. pose proof Hw as Hww.
  split; [|reflexivity]. intros r i Hr Hlt. cbn [flat_state sregs].
  destruct (bit_static merge nl Hi Hww r i Hlt) as (_ & _ & _ & _ & _ & _ & _ & P & Ik).
  destruct (bid_decode nl Hi Hww r i ltac:(lia) Ik) as [D1 D2]. rewrite D1, D2, Nat2Z.id. reflexivity.
Qed.

(* bit i of original wire w as carried by the flattened block *)
Definition flat_bit (vf : wid -> Z) (w : wid) (i : nat) : bool := negb (vf (bid w i) =? 0).

(* C03_simulation against Sem.run of the synthesized NETLIST *)
Theorem flatten_simulation regmap memmap inss :
  legal_init nl regmap -> Forall (legal_ins nl) inss ->
  Forall2 (fun v vf => forall x, In x (wires nl) ->
             v (wname x) = to_Z (map (flat_bit vf (wname x)) (seq 0 (wnat (wname x))))
             /\ (merge = true -> is_out x = true -> vf (wname x) = v (wname x)))
    (fst (run nl 0 (init_state nl 0 regmap memmap) inss))
    (fst (run nl' 0 (flat_state nl (ginit nl regmap memmap)) (map (flat_ins nl) inss))).
Proof.
  intros Hl Hi.
  pose proof (synth_simulation nl regmap memmap inss Hwf Hsy Hl Hi) as H1.
  pose proof (flat_run inss _ _ (flat_state_related (ginit nl regmap memmap)) Hi) as H2.
  destruct (wfb_parts nl Hwf) as (_ & _ & _ & _ & Hall).
  revert H1 H2.
  generalize (fst (run nl 0 (init_state nl 0 regmap memmap) inss)).
  generalize (fst (grun nl (ginit nl regmap memmap) inss)).
  generalize (fst (run nl' 0 (flat_state nl (ginit nl regmap memmap)) (map (flat_ins nl) inss))).
  intros vfs bvs vs H1. revert vfs. induction H1 as [|v bv vs' bvs' Hv Hrest IH]; intros vfs H2.
  - inversion H2. constructor.
  - inversion H2 as [|vf ? vfs' ? Hc Hcr]; subst. constructor; [|apply IH; assumption].
    intros x Hx. destruct (Hv x Hx) as [E _]. destruct Hc as [CI CO].
    assert (Hr : In (wname x) (rdy_final nl)).
    { rewrite forallb_forall in Hall. apply mem_in_In. apply Hall. assumption. }
    assert (Eb : map (flat_bit vf (wname x)) (seq 0 (wnat (wname x))) = map (bv (wname x)) (seq 0 (wnat (wname x)))).
    { apply map_ext_in. intros i Hin. apply in_seq in Hin. unfold flat_bit. rewrite (CI _ Hr i) by lia.
      destruct (bv (wname x) i); reflexivity. }
    split.
    + rewrite E, Eb. reflexivity.
    + intros Hm Ho. rewrite (CO Hm x Hx Ho). symmetry. exact E.
Qed.

End FlatThm.
