(* Model of pyrtl/passes.py synthesize + _decompose: definitions only, no proofs.

   synthesize = copy_block; replace every + - * x = < > net by the gate-level
   generator (`dest <<= _basic_xxx(args)`, i.e. truncated / zero-extended to the
   destination); create one 1-bit wire per (wire, bit); _decompose every net per
   bit.  The composition of the two phases is modelled directly: for each
   original net, bit i of its destination is a gate expression over the bits of
   its arguments (`lower`), built by the SAME polymorphic generators as
   Pass/BasicGates.v, instantiated at gate expressions.  Registers become one
   1-bit register per bit, memory ports keep word-level addresses/data that are
   re-assembled from / split into bits, inputs are split into bits.

   Bit i of original wire w is addressed as (w, i); `bv : wid -> nat -> bool`
   is the valuation of the synthesized block's 1-bit wires. *)
From PyRTL Require Export Netlist.Sem Pass.BasicGates Gen.SynthFrags.

Inductive gexp :=
| GVar (w : wid) (i : nat)
| GConst (b : bool)
| GNot (g : gexp)
| GAnd (g1 g2 : gexp) | GOr (g1 g2 : gexp) | GXor (g1 g2 : gexp) | GNand (g1 g2 : gexp).

Definition ealg : galg gexp := mkAlg gexp GAnd GOr GXor GNand GNot GConst.

Fixpoint geval (bv : wid -> nat -> bool) (g : gexp) : bool :=
  match g with
  | GVar w i => bv w i
  | GConst b => b
  | GNot a => negb (geval bv a)
  | GAnd a b => geval bv a && geval bv b
  | GOr a b => geval bv a || geval bv b
  | GXor a b => xorb (geval bv a) (geval bv b)
  | GNand a b => negb (geval bv a && geval bv b)
  end.

(* one item of the synthesized block per original net *)
Inductive gnet :=
| GAssign (w : wid) (bits : list gexp)                 (* bit i of w := bits[i] *)
| GReg (w : wid) (n : nat) (src : wid)                 (* n one-bit registers *)
| GMemRd (m : Z) (w : wid) (n : nat) (addr : wid) (na : nat)
| GMemWr (m : Z) (addr : wid) (na : nat) (data : wid) (nd : nat) (en : wid).

Section Synth.
Variable nl : netlist.

Definition wnat (w : wid) : nat := Z.to_nat (width_of nl w).

(* wv_map[(w, i)] for i in range(len(w)) *)
Definition wbits (w : wid) : list gexp := map (GVar w) (seq 0 (wnat w)).

Definition opt_list {A} (l : list (option A)) (d : A) : list A :=
  map (fun o => match o with Some x => x | None => d end) l.

(* the gate expressions of the destination bits of a combinational net *)
Definition lower (n : net) : list gexp :=
  let wd := wnat (ndest n) in
  let a0 := wbits (arg n 0) in
  let a1 := wbits (arg n 1) in
  let a2 := wbits (arg n 2) in
  match nop n with
  | OpW | OpNot =>
      firstn wd (opt_list (map (g_decompose1 ealg (nop n)) a0) (GConst false))
  | OpAnd | OpOr | OpXor | OpNand =>
      firstn wd (opt_list (map2 (g_decompose2 ealg (nop n)) a0 a1) (GConst false))
  | OpSelect idx => firstn wd (map (fun k => GVar (arg n 0) (Z.to_nat k)) idx)
  | OpConcat => firstn wd (flat_map wbits (rev (nargs n)))
  | OpAdd => fit ealg wd (basic_add ealg a0 a1)
  | OpSub => fit ealg wd (basic_sub ealg a0 a1)
  | OpMul => fit ealg wd (basic_mult ealg a0 a1)
  | OpLt => fit ealg wd (basic_lt ealg a0 a1)
  | OpGt => fit ealg wd (basic_gt ealg a0 a1)
  | OpEq => fit ealg wd (basic_eq ealg a0 a1)
  | OpMux => fit ealg wd (basic_select ealg (GVar (arg n 0) 0) a1 a2)
  | _ => []
  end.

Definition synth_net (n : net) : gnet :=
  match nop n with
  | OpReg => GReg (ndest n) (wnat (ndest n)) (arg n 0)
  | OpMemRd m => GMemRd m (ndest n) (wnat (ndest n)) (arg n 0) (wnat (arg n 0))
  | OpMemWr m => GMemWr m (arg n 0) (wnat (arg n 0)) (arg n 1) (wnat (arg n 1)) (arg n 2)
  | _ => GAssign (ndest n) (lower n)
  end.

Definition synth : list gnet := map synth_net (nets nl).

(* ---- what sanity_check_net guarantees and _decompose relies on ---- *)
Definition net_synth_ok (n : net) : bool :=
  let wd := width_of nl (ndest n) in
  let w0 := width_of nl (arg n 0) in
  let w1 := width_of nl (arg n 1) in
  let w2 := width_of nl (arg n 2) in
  match nop n with
  | OpW | OpNot => wd <=? w0
  | OpAnd | OpOr | OpXor | OpNand => (w0 =? w1) && (wd <=? w0)
  | OpAdd | OpSub => (w0 =? w1) && (wd <=? w0 + 1) && (1 <=? w0)
  | OpMul => (w0 =? w1) && (wd <=? 2 * w0) && (1 <=? w0)
  | OpLt | OpGt | OpEq => (w0 =? w1) && (wd =? 1) && (1 <=? w0)
  | OpMux => (w0 =? 1) && (w1 =? w2) && (wd <=? w1)
  | OpConcat => wd <=? fold_right (fun a s => width_of nl a + s) 0 (nargs n)
  | OpSelect idx => (wd <=? Z.of_nat (length idx)) && forallb (fun k => (0 <=? k) && (k <? w0)) idx
  | OpReg => wd <=? w0
  | OpMemRd _ => true
  | OpMemWr _ => width_of nl (arg n 2) =? 1
  end.

Definition synth_okb : bool := forallb net_synth_ok (nets nl).

(* ---- semantics of the synthesized block ---- *)
Record gstate := mkGState {
  gregs : wid -> nat -> bool;      (* one-bit registers *)
  gmems : Z -> Z -> Z              (* memories stay word-level *)
}.

Definition bits_val (bv : wid -> nat -> bool) (w : wid) (n : nat) : Z :=
  to_Z (map (bv w) (seq 0 n)).

Definition updbits (bv : wid -> nat -> bool) (w : wid) (l : list bool) : wid -> nat -> bool :=
  fun w' i => if w' =? w then nth i l false else bv w' i.

(* the values of the bits of wire w under bv *)
Definition vbits (bv : wid -> nat -> bool) (w : wid) : list bool := map (bv w) (seq 0 (wnat w)).

(* Denotation of `lower n` under bv: the SAME generators at the bool instance,
   applied to the values of the argument bits.  (geval bv commutes with every
   gate-algebra operation, so map (geval bv) (lower n) = lower_val bv n; the
   executable semantics uses this form because gate expressions are trees and
   re-evaluate shared carries exponentially often.) *)
Definition lower_val (bv : wid -> nat -> bool) (n : net) : list bool :=
  let wd := wnat (ndest n) in
  let a0 := vbits bv (arg n 0) in
  let a1 := vbits bv (arg n 1) in
  let a2 := vbits bv (arg n 2) in
  match nop n with
  | OpW | OpNot =>
      firstn wd (opt_list (map (g_decompose1 balg (nop n)) a0) false)
  | OpAnd | OpOr | OpXor | OpNand =>
      firstn wd (opt_list (map2 (g_decompose2 balg (nop n)) a0 a1) false)
  | OpSelect idx => firstn wd (map (fun k => bv (arg n 0) (Z.to_nat k)) idx)
  | OpConcat => firstn wd (flat_map (vbits bv) (rev (nargs n)))
  | OpAdd => fit balg wd (basic_add balg a0 a1)
  | OpSub => fit balg wd (basic_sub balg a0 a1)
  | OpMul => fit balg wd (basic_mult balg a0 a1)
  | OpLt => fit balg wd (basic_lt balg a0 a1)
  | OpGt => fit balg wd (basic_gt balg a0 a1)
  | OpEq => fit balg wd (basic_eq balg a0 a1)
  | OpMux => fit balg wd (basic_select balg (bv (arg n 0) O) a1 a2)
  | _ => []
  end.

Definition gmem_read (ms : Z -> Z -> Z) (m a : Z) : Z :=
  match find_mem (mems nl) m with
  | Some mm => match mrom mm with Some data => rom_read data a | None => ms m a end
  | None => ms m a
  end.

(* cycle start: constant bits, input bits (merged: `s` nets off the input vector;
   unmerged: the 1-bit inputs themselves), register bits *)
Definition gbase (st : gstate) (ins : wid -> Z) : wid -> nat -> bool :=
  fun w i => match find_wire (wires nl) w with
             | Some x => match wkind x with
                         | KConst c => negb (g_const_bit c (Z.of_nat i) =? 0)   (* Const(val=(c >> i) & 1) *)
                         | KInput => Z.testbit (ins w) (Z.of_nat i)
                         | KReg _ => gregs st w i
                         | _ => false
                         end
             | None => false
             end.

(* one original net = its group of synthesized gates / registers / port *)
Definition gexec (st : gstate) (bv : wid -> nat -> bool) (n : net) : wid -> nat -> bool :=
  match nop n with
  | OpReg | OpMemWr _ => bv
  | OpMemRd m =>
      updbits bv (ndest n)
        (of_Z (wnat (ndest n)) (gmem_read (gmems st) m (bits_val bv (arg n 0) (wnat (arg n 0)))))
  | _ => updbits bv (ndest n) (lower_val bv n)
  end.

Definition gwrite (bv : wid -> nat -> bool) (ms : Z -> Z -> Z) (n : net) : Z -> Z -> Z :=
  match nop n with
  | OpMemWr m =>
      if bv (arg n 2) O
      then upd ms m (upd (ms m) (bits_val bv (arg n 0) (wnat (arg n 0)))
                                (bits_val bv (arg n 1) (wnat (arg n 1))))
      else ms
  | _ => ms
  end.

Definition gregnext (bv : wid -> nat -> bool) (rg : wid -> nat -> bool) (n : net) : wid -> nat -> bool :=
  match nop n with
  | OpReg => fun w' i => if (w' =? ndest n) && Nat.ltb i (wnat (ndest n)) then bv (arg n 0) i else rg w' i
  | _ => rg
  end.

Definition gstep (st : gstate) (ins : wid -> Z) : (wid -> nat -> bool) * gstate :=
  let bv := fold_left (gexec st) (nets nl) (gbase st ins) in
  (bv, {| gregs := fold_left (gregnext bv) (nets nl) (gregs st);
          gmems := fold_left (gwrite bv) (nets nl) (gmems st) |}).

Fixpoint grun (st : gstate) (inss : list (wid -> Z)) : list (wid -> nat -> bool) * gstate :=
  match inss with
  | [] => ([], st)
  | ins :: rest =>
      let '(bv, st') := gstep st ins in
      let '(bvs, st'') := grun st' rest in
      (bv :: bvs, st'')
  end.

(* ---- initial state of the synthesized block under the ORIGINAL testbench ---- *)

(* reset value of synthesized register bit i of a register with reset value rv:
   Gen/SynthFrags.v g_reset_bit, regenerated from passes.synthesize
   (`new_rval = (new_rval >> i) & 0x1`, None stays None, handed to the 1-bit
   Register).  [Defect F2, now repaired: no reset value was passed, i.e. None.] *)
Definition synth_reset (rv : option Z) (i : nat) : option bool :=
  option_map (fun z => negb (z =? 0)) (g_reset_bit rv (Z.of_nat i)).

(* register_value_map translated through reg_map > reset value > default (0) *)
Definition ginit_reg (regmap : list (Z * Z)) (r : wid) (i : nat) : bool :=
  match assoc regmap r with
  | Some v => Z.testbit v (Z.of_nat i)
  | None => match kind_of nl r with
            | KReg rv => match synth_reset rv i with Some b => b | None => false end
            | _ => false
            end
  end.

(* memory_value_map keyed by the original MemBlock, through mem_map *)
Definition ginit (regmap : list (Z * Z)) (memmap : list (Z * list (Z * Z))) : gstate :=
  {| gregs := ginit_reg regmap;
     gmems := fun m a =>
       match find (fun p => fst p =? m) memmap with
       | Some (_, d) => assoc_d d a 0
       | None => 0
       end |}.

(* ---- the interface maps of PostSynthBlock ---- *)

(* identity of a MemBlock object: the original, copy_block's copy, the synthesized one *)
Inductive memref := MOrig (m : Z) | MCopy (m : Z) | MPost (m : Z).

(* key under which synthesize files the new memory in PostSynthBlock.mem_map
   (Gen/SynthFrags.v g_mem_map_keyed_by_original, regenerated from the source):
   `{orig: out_mems[temp] for orig, temp in block_in.mem_map.items()}` -- the
   ORIGINAL MemBlock.  [Defect F19, now repaired: `out_mems = block_out.mem_map`,
   keyed by the memories of the internal copy.] *)
Definition mem_map_key (m : Z) : memref :=
  if g_mem_map_keyed_by_original then MOrig m else MCopy m.

Definition used_mems : list Z :=
  nodup Z.eq_dec (flat_map (fun n => match nop n with OpMemRd m | OpMemWr m => [m] | _ => [] end) (nets nl)).

Definition mem_map : list (memref * memref) := map (fun m => (mem_map_key m, MPost m)) used_mems.

Definition memref_eqb (a b : memref) : bool :=
  match a, b with
  | MOrig x, MOrig y | MCopy x, MCopy y | MPost x, MPost y => x =? y
  | _, _ => false
  end.

(* Simulation._initialize: `mem = self.block.mem_map[mem]` (None = KeyError) *)
Fixpoint mem_map_lookup (k : memref) (l : list (memref * memref)) : option memref :=
  match l with
  | [] => None
  | (k', v) :: r => if memref_eqb k' k then Some v else mem_map_lookup k r
  end.

Definition is_io (x : wire) : bool := match wkind x with KInput | KOutput => true | _ => false end.
Definition is_reg (x : wire) : bool := match wkind x with KReg _ => true | _ => false end.

(* io_map: merged -> the one vector of the same name; unmerged -> the 1-bit wires name[i] *)
Definition io_map (merge : bool) : list (wid * list (wid * option nat)) :=
  map (fun x => (wname x, if merge then [(wname x, None)]
                          else map (fun i => (wname x, Some i)) (seq 0 (Z.to_nat (wwidth x)))))
      (filter is_io (wires nl)).

Definition reg_map : list (wid * list (wid * nat)) :=
  map (fun x => (wname x, map (fun i => (wname x, i)) (seq 0 (Z.to_nat (wwidth x)))))
      (filter is_reg (wires nl)).

End Synth.
