(* C09 -- harness entry points (definitions only; depends on the model, the
   reference semantics and the sanity_check model, on no proof file). *)
From PyRTL Require Import Pass.Lower Pass.LowerHyps Netlist.SpecHarness Netlist.Sanity.

Definition kind_code (k : kind) : list Z :=
  match k with
  | KWire => [0; 0] | KInput => [1; 0] | KOutput => [2; 0]
  | KConst v => [3; v] | KReg None => [4; 0] | KReg (Some v) => [5; v]
  end.
Definition enc_wire (x : wire) : list Z := wname x :: wwidth x :: kind_code (wkind x).
Definition op_params (o : op) : list Z :=
  match o with OpSelect idx => idx | OpMemRd m | OpMemWr m => [m] | _ => [] end.
(* [opcode; dest; #args; args...; params...] *)
Definition enc_net (n : net) : list Z :=
  op_code (nop n) :: ndest n :: Z.of_nat (length (nargs n)) :: nargs n ++ op_params (nop n).

(* [floor]: identifiers below it are never reused for temporaries (the harness
   passes fresh(original design), so that in a pass sequence a temporary never
   takes the identifier of a wire removed by direct_connect_outputs) *)
Definition run_pass (floor : Z) (p : Z) (nl : netlist) : netlist :=
  let nx := Z.max floor (fresh nl) in
  match p with
  | 1 => apply_rule_at nx nand_rule nl | 2 => apply_rule_at nx aig_rule nl
  | 3 => apply_rule_at nx two_way_concat_rule nl | 4 => apply_rule_at nx one_bit_selects_rule nl
  | 5 => direct_connect_outputs nl | 6 => two_way_fanout_at nx nl
  | _ => nl
  end.
Definition pre_pass (p : Z) (nl : netlist) : bool :=
  match p with 1 => pre_nand_synth nl | 2 => pre_and_inverter_synth nl | _ => true end.
Definition post_pass (p : Z) (nl : netlist) : bool :=
  match p with
  | 1 => post_nand_synth nl | 2 => post_and_inverter_synth nl
  | 3 => post_two_way_concat nl | 4 => post_one_bit_selects nl
  | 5 => post_direct_connect_outputs nl | 6 => post_two_way_fanout nl
  | _ => true
  end.

Fixpoint run_passes (floor : Z) (ps : list Z) (nl : netlist) : netlist * bool :=
  match ps with
  | [] => (nl, true)
  | p :: r => let '(nl', ok) := run_passes floor r (run_pass floor p nl) in (nl', pre_pass p nl && ok)
  end.

(* spec_case without its wfb row (wfb is quadratic with a large constant):
   final memory probes, then one row per cycle (all wires, in `wires` order) *)
Definition ref_case (nl : netlist) (dflt : Z) (regmap : list (Z * Z))
    (memmap : list (Z * list (Z * Z))) (inss : list (list (Z * Z)))
    (probes : list (Z * Z)) : list (list Z) :=
  let ins := map ins_of inss in
  let '(vs, st) := run nl dflt (init_state nl dflt regmap memmap) ins in
  map (fun p => smems st (fst p) (snd p)) probes :: map (probe nl) vs.

(* row 0: [pre; post(last pass); sanity_block; #wires; #nets; wfb (2 = not
   evaluated: more than 60 nets)]; then the wires, the nets, and ref_case of
   the model's result *)
Definition c09_case (ps : list Z) (nl : netlist) (dflt : Z) (regmap : list (Z * Z))
    (memmap : list (Z * list (Z * Z))) (inss : list (list (Z * Z)))
    (probes : list (Z * Z)) : list (list Z) :=
  let '(nl', pre) := run_passes (fresh nl) ps nl in
  [b2z pre; b2z (post_pass (last ps 0) nl'); b2z (sanity_block nl');
   Z.of_nat (length (wires nl')); Z.of_nat (length (nets nl'));
   if (length (nets nl') <=? 60)%nat then b2z (wfb nl') else 2]
  :: map enc_wire (wires nl') ++ map enc_net (nets nl')
  ++ ref_case nl' dflt regmap memmap inss probes.

(* the decidable hypotheses of the Props/C09.v theorems, evaluated on the ORIGINAL design:
   [sanity_block; lower_okb (rule-based passes, any ordering); unique names (fan-out
   bound); dco_okb (direct_connect_outputs preserves); fanout_okb (two_way_fanout preserves)] *)
Definition c09_hyps (nl : netlist) : list Z :=
  [b2z (sanity_block nl); b2z (lower_okb nl); b2z (nodupb (map wname (wires nl)));
   b2z (dco_okb nl); b2z (fanout_okb (fresh nl) nl)].

(* first element: c09_hyps nl :: spec_case of the ORIGINAL design *)
Definition c09_multi (pss : list (list Z)) (nl : netlist) (dflt : Z) (regmap : list (Z * Z))
    (memmap : list (Z * list (Z * Z))) (inss : list (list (Z * Z)))
    (probes : list (Z * Z)) : list (list (list Z)) :=
  (c09_hyps nl :: spec_case nl dflt regmap memmap inss probes)
  :: map (fun ps => c09_case ps nl dflt regmap memmap inss probes) pss.
