(* C04 -- constant_propagation (the `while shrinking` loop over _constant_prop_pass)
   preserves every Output on every cycle, when every register a round folds starts
   out holding the constant it is folded to. *)
From PyRTL Require Import Netlist.Sem Netlist.WFDefs Gen.ConstFold Pass.Opt Pass.OptCheck
  Pass.OptDeadProofs Pass.OptAliasProofs Pass.OptSimProofs Pass.OptCpProofs Pass.OptLoopProofs.
From PyRTL Require Import Sim.SimModel Sim.SimCorrect.
From Coq Require Import ZifyBool.

Local Open Scope Z_scope.

Lemma Forall2_weaken' {A B} (P Q : A -> B -> Prop) : (forall a b, P a b -> Q a b) ->
  forall l l', Forall2 P l l' -> Forall2 Q l l'.
Proof. intros H l l' HF. induction HF; constructor; auto. Qed.

Lemma output_in_rdy_final nl o : wfb nl = true -> is_output nl o = true -> In o (rdy_final nl).
Proof.
  intros Hwf Ho. destruct (wfb_parts nl Hwf) as [_ [_ [_ [_ H5]]]].
  unfold is_output, kind_of in Ho. destruct (find_wire (wires nl) o) as [x|] eqn:E; [|discriminate].
  destruct (find_wire_In _ _ _ E) as [Hx Hn]. subst o.
  rewrite forallb_forall in H5. apply mem_in_In. apply H5. assumption.
Qed.

(* from a simulation through rho to equality of the Outputs *)
Lemma sim_to_out_eq nl nl' rho v v' : wfb nl = true -> link_ok nl nl' rho = true ->
  OptSimProofs.sim_val nl nl' rho v v' -> out_eq nl v v'.
Proof.
  intros Hwf Hlink Hs o Ho.
  destruct (link_output nl nl' rho Hlink o Ho) as [Hr [Hf _]].
  rewrite (Hs o (output_in_rdy_final nl o Hwf Ho)).
  - rewrite Hr. reflexivity.
  - unfold live, declared'. rewrite Hr, Hf.
    unfold is_output, kind_of in Ho. destruct (find_wire (wires nl) o); [reflexivity|discriminate].
Qed.

(* the sanctioned steady-state hypothesis of one round: every register this round
   folds starts out holding the constant it is folded to *)
Definition cp_steady (nl : netlist) (st : state) : Prop :=
  forall r, cp_folded nl r = true -> sregs st r = cp_cst nl r.

Lemma cp_round dflt nl : cp_round_ok nl = true -> forall inss st, cp_steady nl st ->
  Forall (legal_ins nl) inss -> legal_regs nl (sregs st) ->
  Forall2 (out_eq nl) (fst (run nl dflt st inss)) (fst (run (constant_prop_pass nl) dflt st inss))
  /\ outs_sub nl (constant_prop_pass nl)
  /\ Forall (legal_ins (constant_prop_pass nl)) inss
  /\ legal_regs (constant_prop_pass nl) (sregs st).
Proof.
  intros Hok inss st Hst Hins Hregs. unfold cp_round_ok in Hok.
  apply andb_true_iff in Hok. destruct Hok as [Hok Hlink].
  apply andb_true_iff in Hok. destruct Hok as [Hwf Hok].
  assert (Hrel : st_rel (cp_folded nl) (cp_cst nl) st st).
  { split; [reflexivity|]. split; [exact Hst|reflexivity]. }
  pose proof (cp_pass_sim nl dflt Hwf Hok inss st st Hrel Hins Hregs) as Hsim.
  split; [|split; [|split]].
  - eapply Forall2_weaken'; [|exact Hsim]. intros v v'. apply sim_to_out_eq; assumption.
  - exact (link_outs_sub _ _ _ Hlink).
  - eapply Forall_impl; [|exact Hins]. intros ins. apply (link_legal_ins _ _ _ Hlink).
  - exact (link_legal_regs _ _ _ Hlink _ Hregs).
Qed.

Definition cp_loop_steady (nl : netlist) (st : state) : Prop :=
  loop_steady constant_prop_pass cp_steady (S (S (length (nets nl))))
              (1000 * Z.of_nat (length (nets nl))) nl st.

Theorem constant_propagation_preserves nl dflt : constant_propagation_ok nl = true ->
  forall inss st, cp_loop_steady nl st ->
  Forall (legal_ins nl) inss -> legal_regs nl (sregs st) ->
  Forall2 (out_eq nl) (fst (run nl dflt st inss))
          (fst (run (constant_propagation nl) dflt st inss))
  /\ outs_sub nl (constant_propagation nl)
  /\ Forall (legal_ins (constant_propagation nl)) inss
  /\ legal_regs (constant_propagation nl) (sregs st).
Proof.
  intros Hok inss st Hst Hins Hregs.
  exact (loop_preserves constant_prop_pass cp_round_ok cp_steady dflt (cp_round dflt)
           _ _ nl inss st Hok Hst Hins Hregs).
Qed.

(* the decidable form of the steady-state hypothesis implies it *)
Lemma cp_steadyb_sound nl st : cp_steadyb nl (sregs st) = true -> cp_steady nl st.
Proof.
  intros H r Hr. unfold cp_folded in Hr. apply existsb_exists in Hr.
  destruct Hr as [n [Hin Hn]]. apply andb_true_iff in Hn. destruct Hn as [Hf Hd].
  unfold cp_steadyb in H. rewrite forallb_forall in H. specialize (H n Hin). rewrite Hf in H.
  assert (ndest n = r) by lia. subst r. lia.
Qed.

Lemma cp_loop_steadyb_sound : forall fuel prev nl st,
  cp_loop_steadyb fuel prev nl (sregs st) = true ->
  loop_steady constant_prop_pass cp_steady fuel prev nl st.
Proof.
  induction fuel as [|f IH]; intros prev nl st H; cbn [loop_steady cp_loop_steadyb] in *; [exact I|].
  destruct (Z.of_nat (length (nets nl)) <=? prev - 1); [|exact I].
  apply andb_true_iff in H. destruct H as [H1 H2].
  split; [apply cp_steadyb_sound; assumption|apply IH; assumption].
Qed.

Lemma constant_propagation_steadyb_sound nl st :
  constant_propagation_steadyb nl (sregs st) = true -> cp_loop_steady nl st.
Proof. apply cp_loop_steadyb_sound. Qed.
