(* C11 o C01: the MODEL OF pyrtl.Simulation (Sim/SimModel.v, tied to the real
   simulator by C01's check) run on a renaming of a well-formed design shows, on
   every declared wire and every cycle, what it shows on the source.
     Simulation(src) =C01= Sem(src) =C11= Sem(rename f src) =C01= Simulation(rename f src) *)
From PyRTL Require Import Netlist.Sem Netlist.WFDefs Sim.SimModel Sim.SimCorrect
  Pass.Copy Pass.CopyProofs Pass.CopyWF.

Section RenameSim.
Variable f : wid -> wid.
Hypothesis f_inj : forall a b, f a = f b -> a = b.

Lemma find_wire_rename_some ws w' y :
  find_wire (map (rename_wire f) ws) w' = Some y -> exists w, w' = f w.
Proof.
  induction ws as [|x r IH]; [discriminate|].
  cbn [map find_wire rename_wire wname].
  destruct (f (wname x) =? w') eqn:E.
  - intros _. exists (wname x). apply Z.eqb_eq in E. symmetry. exact E.
  - exact IH.
Qed.

Lemma declared_kind_preimage nl w' :
  (forall k, kind_of (rename f nl) w' = k -> k <> KWire -> exists w, w' = f w).
Proof.
  intros k Hk Hne. unfold kind_of, rename in Hk. cbn [wires] in Hk.
  destruct (find_wire (map (rename_wire f) (wires nl)) w') as [y|] eqn:E.
  - exact (find_wire_rename_some _ _ _ E).
  - subst k. contradiction.
Qed.

Lemma legal_ins_rename nl ins ins' :
  legal_ins nl ins -> val_rel f ins ins' -> legal_ins (rename f nl) ins'.
Proof.
  intros H Hr w' Hin. unfold is_input in Hin.
  destruct (kind_of (rename f nl) w') eqn:Ek; try discriminate.
  destruct (declared_kind_preimage nl w' _ Ek) as [w ->]; [discriminate|].
  rewrite (kind_of_rename f f_inj) in Ek. rewrite (width_of_rename f f_inj), Hr.
  apply H. unfold is_input. rewrite Ek. reflexivity.
Qed.

Lemma init_reg_rename nl dflt regmap w :
  init_reg (rename f nl) dflt (rename_map f regmap) (f w) = init_reg nl dflt regmap w.
Proof.
  unfold init_reg. rewrite (assoc_rename_map f f_inj), (kind_of_rename f f_inj). reflexivity.
Qed.

Lemma legal_init_rename nl dflt regmap :
  legal_init nl dflt regmap -> legal_init (rename f nl) dflt (rename_map f regmap).
Proof.
  intros H w' Hr. unfold is_reg in Hr.
  destruct (kind_of (rename f nl) w') eqn:Ek; try discriminate.
  destruct (declared_kind_preimage nl w' _ Ek) as [w ->]; [discriminate|].
  rewrite (kind_of_rename f f_inj) in Ek. rewrite (width_of_rename f f_inj), init_reg_rename.
  apply H. unfold is_reg. rewrite Ek. reflexivity.
Qed.

Lemma Forall_legal_ins_rename nl inss : forall inss',
  Forall (legal_ins nl) inss -> Forall2 (val_rel f) inss inss' ->
  Forall (legal_ins (rename f nl)) inss'.
Proof.
  induction inss as [|i r IH]; intros inss' Hl Hr; inversion Hr; subst; [constructor|].
  inversion Hl; subst. constructor; [eapply legal_ins_rename; eassumption|apply IH; assumption].
Qed.

Lemma Forall2_chain {A B C D} (P : A -> B -> Prop) (Q : A -> C -> Prop) (R : C -> D -> Prop)
      (S : B -> D -> Prop) :
  (forall a b c d, P a b -> Q a c -> R c d -> S b d) ->
  forall la lb lc ld, Forall2 P la lb -> Forall2 Q la lc -> Forall2 R lc ld -> Forall2 S lb ld.
Proof.
  intros H la. induction la as [|a r IH]; intros lb lc ld HP HQ HR.
  - inversion HP; subst. inversion HQ; subst. inversion HR; subst. constructor.
  - inversion HP; subst. inversion HQ; subst. inversion HR; subst.
    constructor; [eapply H; eassumption|eapply IH; eassumption].
Qed.

Theorem sim_of_renaming_agrees nl dflt regmap memmap inss inss' :
  wfb nl = true -> legal_init nl dflt regmap -> Forall (legal_ins nl) inss ->
  Forall2 (val_rel f) inss inss' ->
  Forall2 (fun v v' => forall x, In x (wires nl) ->
                       v' (f (wname x)) = v (wname x)
                       /\ inrange (v' (f (wname x))) (width_of nl (wname x)))
    (fst (sim_run nl dflt (sim_init nl dflt regmap memmap) inss))
    (fst (sim_run (rename f nl) dflt
            (sim_init (rename f nl) dflt (rename_map f regmap) memmap) inss')).
Proof.
  intros Hwf Hinit Hins Hrel.
  pose proof (sim_refines_spec nl dflt regmap memmap inss Hwf Hinit Hins) as H1.
  assert (Hwf' : wfb (rename f nl) = true) by (rewrite (wfb_rename f f_inj); exact Hwf).
  pose proof (sim_refines_spec (rename f nl) dflt (rename_map f regmap) memmap inss' Hwf'
                (legal_init_rename nl dflt regmap Hinit)
                (Forall_legal_ins_rename nl inss inss' Hins Hrel)) as H2.
  pose proof (rename_preserves_semantics f f_inj nl dflt regmap memmap inss inss'
                (wfb_seq_arity nl Hwf) Hrel) as [H3 _].
  refine (Forall2_chain _ _ _ _ _ _ _ _ _ H1 H3 H2).
  intros v sv v' sv' Ha Hr Ha' x Hx.
  destruct (Ha x Hx) as [E1 _].
  assert (Hx' : In (rename_wire f x) (wires (rename f nl))).
  { unfold rename. cbn [wires]. apply in_map. exact Hx. }
  destruct (Ha' _ Hx') as [E2 R2]. cbn [rename_wire wname] in E2, R2.
  rewrite (width_of_rename f f_inj) in R2.
  split; [rewrite E2, Hr, E1; reflexivity|exact R2].
Qed.

End RenameSim.
