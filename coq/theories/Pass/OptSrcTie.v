(* C04 -- bridging theorem between the per-net effect of _constant_prop_pass as
   REGENERATED from the source (Gen/ConstPropCheck.v: cp_check_src, translated
   statement by statement from constant_prop_check and its three closures) and the
   definitions the property theorems are stated over (Opt.cp_decide / Opt.cp_apply /
   Opt.constant_prop_pass). *)
From PyRTL Require Import Netlist.Sem Netlist.WFDefs Gen.ConstFold Pass.Opt Gen.ConstPropCheck
  Pass.OptFoldProofs.
From PyRTL Require Import Sim.SimModel Sim.SimCorrect.
From Coq Require Import ZifyBool.

Local Open Scope Z_scope.

Lemma of_nat_eqb0 k : (Z.of_nat k =? 0) = Nat.eqb k 0.
Proof. destruct k; [reflexivity|]. simpl. reflexivity. Qed.

Lemma of_nat_eqb1 k : (Z.of_nat k =? 1) = Nat.eqb k 1.
Proof. destruct k as [|[|k]]; try reflexivity. rewrite Nat2Z.inj_succ, Nat2Z.inj_succ. simpl Nat.eqb. lia. Qed.

Lemma filter_negb_length {A} (p : A -> bool) l :
  (Z.of_nat (length (filter (fun w => negb (p w)) l)) =? 0) = forallb p l.
Proof.
  induction l as [|x r IH]; [reflexivity|]. simpl. destruct (p x); simpl; [exact IH|reflexivity].
Qed.

Lemma tbl_two_some o a b : in_two_var_ops o = true ->
  two_var_ops o [a; b] = Some (tbl_two_var_ops o a b).
Proof. intros H. destruct o; try discriminate H; reflexivity. Qed.

Lemma land_mask_mod t w : 0 <= w -> Z.land t (mask w) mod 2 ^ w = t mod 2 ^ w.
Proof.
  intros Hw. unfold mask. rewrite Z.land_ones by assumption. apply Z.mod_mod.
  apply Z.pow_nonzero; lia.
Qed.

Definition cp_net_facts (nl : netlist) (n : net) : Prop :=
  0 <= width_of nl (ndest n)
  /\ (in_two_var_ops (nop n) = true -> length (nargs n) = 2%nat)
  /\ (forall a, In a (nargs n) -> is_const nl a = true ->
        inrange (const_val nl a) (width_of nl a)).

(* the regenerated per-net effect IS the model's, for every net with two-argument
   bitwise gates and in-range constants (true of every net of a wfb netlist) *)
Theorem cp_check_src_eq nl k n : cp_net_facts nl n -> cp_check_src nl k n = cp_apply nl k n.
Proof.
  intros [Hwd [Har Hcr]]. unfold cp_check_src, cp_apply, cp_decide.
  destruct (valid_net_ops (nop n)) eqn:Hv; cbn [negb]; [|reflexivity].
  rewrite of_nat_eqb0, of_nat_eqb1.
  set (numc := length (filter (fun w__ => is_const nl w__) (nargs n))).
  change (length (filter (is_const nl) (nargs n))) with numc.
  destruct (Nat.eqb numc 0 || no_optimization_ops (nop n)) eqn:H0; [reflexivity|].
  apply orb_false_iff in H0. destruct H0 as [Hn0 Hno].
  destruct (in_two_var_ops (nop n)) eqn:H2; cbn [andb].
  - specialize (Har eq_refl).
    destruct (nargs n) as [|a [|b [|c r]]] eqn:Eargs; try discriminate Har.
    assert (Ha0 : arg n 0 = a) by (unfold arg; rewrite Eargs; reflexivity).
    assert (Ha1 : arg n 1 = b) by (unfold arg; rewrite Eargs; reflexivity).
    rewrite Ha0, Ha1.
    destruct (Nat.eqb numc 1) eqn:H1.
    + (* exactly one constant, one-bit wires *)
      rewrite filter_negb_length.
      destruct (forallb (fun w => width_of nl w =? 1) ([a; b] ++ net_dests n)) eqn:Hw; cbn [negb];
        [|reflexivity].
      assert (Hws : width_of nl a = 1 /\ width_of nl b = 1 /\ width_of nl (ndest n) = 1).
      { cbn [app forallb] in Hw. apply andb_true_iff in Hw. destruct Hw as [W1 Hw].
        apply andb_true_iff in Hw. destruct Hw as [W2 Hw].
        unfold net_dests in Hw. destruct (nop n); try discriminate H2;
          cbn [op_has_dest forallb] in Hw; apply andb_true_iff in Hw; lia. }
      destruct Hws as [Wa [Wb Wd]].
      apply Nat.eqb_eq in H1. unfold numc in H1.
      assert (Hbit : forall x, In x [a; b] -> is_const nl x = true ->
                const_val nl x = 0 \/ const_val nl x = 1).
      { intros x Hx Hc. specialize (Hcr x Hx Hc).
        assert (Wx : width_of nl x = 1) by (destruct Hx as [<-|[<-|[]]]; assumption).
        rewrite Wx in Hcr. apply bit_of_inrange. exact Hcr. }
      rewrite !(tbl_two_some _ _ _ H2). rewrite Wd.
      destruct (filter_count2 _ _ _ H1) as [[Hca Hcb]|[Hca Hcb]]; rewrite Hcb.
      * destruct (Hbit a (or_introl eq_refl) Hca) as [E|E]; rewrite E;
          destruct (nop n); try discriminate H2;
          destruct (is_output nl (ndest n)); vm_compute; reflexivity.
      * destruct (Hbit b (or_intror (or_introl eq_refl)) Hcb) as [E|E]; rewrite E;
          destruct (nop n); try discriminate H2;
          destruct (is_output nl (ndest n)); vm_compute; reflexivity.
    + (* both constant: any width, masked to the destination *)
      rewrite (tbl_two_some _ _ _ H2). unfold const_encoding.
      rewrite (land_mask_mod _ _ Hwd). reflexivity.
  - (* the one-argument table *)
    cbn [andb].
    destruct (nop n); try discriminate Hv; try discriminate Hno; try discriminate H2;
      unfold tbl_one_var_ops; cbn [one_var_ops]; reflexivity.
Qed.

(* facts every net of a wfb netlist satisfies *)
Lemma nets_ok_arity nl : forall ns rdy n, nets_ok nl rdy ns = true -> In n ns ->
  is_comb (nop n) = true -> arity_ok (nop n) (length (nargs n)) = true.
Proof.
  induction ns as [|m r IH]; intros rdy n Hok Hin Hc; [destruct Hin|].
  cbn [nets_ok] in Hok. apply andb_true_iff in Hok. destruct Hok as [Hm Hr].
  destruct Hin as [<-|Hin]; [|eapply IH; eassumption].
  unfold net_ok in Hm. rewrite Hc in Hm.
  apply andb_true_iff in Hm. destruct Hm as [Hm _]. apply andb_true_iff in Hm. apply Hm.
Qed.

Lemma wfb_net_facts nl n : wfb nl = true -> In n (nets nl) -> cp_net_facts nl n.
Proof.
  intros Hwf Hin. destruct (wfb_parts nl Hwf) as [H1 [H2 [H3 _]]].
  split; [apply (width_nonneg nl H1)|]. split.
  - intros Ht.
    assert (Hc : is_comb (nop n) = true) by (destruct (nop n); try discriminate Ht; reflexivity).
    pose proof (nets_ok_arity nl _ _ n H3 Hin Hc) as Har.
    destruct (nop n); try discriminate Ht; simpl in Har; apply Nat.eqb_eq in Har; exact Har.
  - intros a _ Hc. unfold is_const, const_val, kind_of, width_of in *.
    destruct (find_wire (wires nl) a) as [x|] eqn:E; [|discriminate].
    destruct (find_wire_In _ _ _ E) as [Hx _].
    rewrite forallb_forall in H2. specialize (H2 x Hx).
    destruct (wkind x); try discriminate Hc. apply inrangeb_spec. exact H2.
Qed.

(* the whole pass with the regenerated per-net effect *)
Definition constant_prop_pass_src (nl : netlist) : netlist :=
  let base := max_wid nl + 1 in
  let res := fun n => cp_check_src nl (base + ndest n) n in
  let m := flat_map (fun n => snd (fst (res n))) (nets nl) in
  let rho := find_producer (S (length (nets nl))) m in
  remove_unused_wires
    (mkNetlist (wires nl ++ flat_map (fun n => snd (res n)) (nets nl))
               (flat_map (fun n => map (map_args rho) (fst (fst (res n)))) (nets nl))
               (mems nl)).

Lemma flat_map_ext_in' {A B} (f g : A -> list B) l :
  (forall x, In x l -> f x = g x) -> flat_map f l = flat_map g l.
Proof.
  induction l as [|x r IH]; intros H; [reflexivity|]. simpl.
  rewrite (H x (or_introl eq_refl)), IH; [reflexivity|]. intros y Hy. apply H. right. assumption.
Qed.

Theorem constant_prop_pass_src_eq nl : wfb nl = true ->
  constant_prop_pass_src nl = constant_prop_pass nl.
Proof.
  intros Hwf. unfold constant_prop_pass_src, constant_prop_pass. cbv zeta.
  assert (E : forall n, In n (nets nl) ->
            cp_check_src nl (max_wid nl + 1 + ndest n) n = cp_apply nl (max_wid nl + 1 + ndest n) n).
  { intros n Hin. apply cp_check_src_eq. apply wfb_net_facts; assumption. }
  assert (Em : flat_map (fun n => snd (fst (cp_check_src nl (max_wid nl + 1 + ndest n) n))) (nets nl)
               = flat_map (fun n => snd (fst (cp_apply nl (max_wid nl + 1 + ndest n) n))) (nets nl)).
  { apply flat_map_ext_in'. intros n Hin. rewrite (E n Hin). reflexivity. }
  rewrite Em. f_equal. f_equal.
  - f_equal. apply flat_map_ext_in'. intros n Hin. rewrite (E n Hin). reflexivity.
  - apply flat_map_ext_in'. intros n Hin. rewrite (E n Hin). reflexivity.
Qed.
