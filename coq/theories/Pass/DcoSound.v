(* C09 -- direct_connect_outputs preserves behaviour.  One pass: the valuation
   computed for the original netlist also solves the equations of the result
   (the retargeted producer assigns to the Output what the removed non-truncating
   'w' net assigned to it), so by uniqueness (Pass/Stable.v) it is the valuation
   of the result on every remaining wire.  No range assumption is needed. *)
From PyRTL Require Import Pass.Lower Pass.RewriteSound Pass.LowerPost Pass.Stable Pass.LowerTheorems.
From PyRTL Require Import Pass.LowerHyps.
From Coq Require Import ZifyBool.

Lemma seq_okb_facts ns : seq_okb ns = true ->
  (forall n, In n ns -> is_comb (nop n) = true -> arity_ok (nop n) (length (nargs n)) = true)
  /\ NoDup (cdests ns).
Proof.
  induction ns as [|n r IH]; intro H; [split; [intros ? []|constructor]|].
  destruct (seq_okb_cons n r H) as [Hr Hn]. destruct (IH Hr) as [I1 I2]. split.
  - intros m [<-|Hm] Hc; [exact (proj1 (Hn Hc))|apply I1; assumption].
  - unfold cdests. cbn [filter]. destruct (is_comb (nop n)) eqn:Hc; [|exact I2].
    cbn [map]. constructor; [exact (proj1 (proj2 (Hn eq_refl)))|exact I2].
Qed.

Lemma cdests_in ns n : In n ns -> is_comb (nop n) = true -> In (ndest n) (cdests ns).
Proof. intros H Hc. unfold cdests. apply in_map. apply filter_In. split; assumption. Qed.

Lemma cdests_inv ns w : In w (cdests ns) -> exists n, In n ns /\ is_comb (nop n) = true /\ ndest n = w.
Proof.
  unfold cdests. intro H. apply in_map_iff in H. destruct H as (n & Hd & Hn). apply filter_In in Hn.
  exists n. tauto.
Qed.

Lemma cdests_unique ns a b : NoDup (cdests ns) -> In a ns -> In b ns ->
  is_comb (nop a) = true -> is_comb (nop b) = true -> ndest a = ndest b -> a = b.
Proof.
  unfold cdests. induction ns as [|n r IH]; intros Hnd Ha Hb Hca Hcb He; [destruct Ha|].
  cbn [filter] in Hnd. destruct (is_comb (nop n)) eqn:Hc.
  - cbn [map] in Hnd. inversion Hnd as [|? ? Hni Hnd']; subst.
    destruct Ha as [<-|Ha]; destruct Hb as [<-|Hb]; try reflexivity.
    + exfalso. apply Hni. rewrite He. apply (cdests_in r b Hb Hcb).
    + exfalso. apply Hni. rewrite <- He. apply (cdests_in r a Ha Hca).
    + apply IH; assumption.
  - destruct Ha as [<-|Ha]; [congruence|]. destruct Hb as [<-|Hb]; [congruence|]. apply IH; assumption.
Qed.

Lemma find_wire_filter_names (rw : list wid) ws w :
  find_wire (filter (fun x => negb (mem_in (wname x) rw)) ws) w
  = if mem_in w rw then None else find_wire ws w.
Proof.
  induction ws as [|x r IH]; cbn [filter find_wire]; [destruct (mem_in w rw); reflexivity|].
  destruct (mem_in (wname x) rw) eqn:Ex; cbn [negb].
  - destruct (wname x =? w) eqn:E; [|exact IH].
    assert (Hw : w = wname x) by lia. rewrite IH. rewrite Hw, Ex. reflexivity.
  - cbn [find_wire]. destruct (wname x =? w) eqn:E; [|exact IH].
    assert (Hw : w = wname x) by lia. rewrite Hw, Ex. reflexivity.
Qed.

Lemma readers_in nl w m : In m (nets nl) -> In w (nargs m) -> In m (readers nl w).
Proof. intros Hm Hw. unfold readers. apply filter_In. split; [exact Hm|apply mem_in_iff; exact Hw]. Qed.

Lemma net_val_reduced nl st v n : is_comb (nop n) = true -> arity_ok (nop n) (length (nargs n)) = true ->
  net_val nl st v n mod 2 ^ width_of nl (ndest n) = net_val nl st v n.
Proof.
  intros Hc Ha. unfold net_val, exec_spec.
  pose proof (op_spec_arity (nop n) (length (nargs n)) (argvals nl v n) Hc Ha) as Hs.
  assert (Hl : length (argvals nl v n) = length (nargs n)) by (unfold argvals; apply map_length).
  specialize (Hs Hl).
  destruct (nop n); try discriminate;
    try (destruct Hs as [r Hr]; rewrite Hr, !upd_same; apply Zmod_mod).
  rewrite upd_same. apply Zmod_mod.
Qed.

(* same op and arguments, destinations of equal width: same value *)
Lemma net_val_retarget nl nl' st st' v m m' :
  nop m' = nop m -> nargs m' = nargs m ->
  mems nl' = mems nl -> st_eq st st' ->
  width_of nl' (ndest m') = width_of nl (ndest m) ->
  (forall a, In a (nargs m) -> width_of nl' a = width_of nl a) ->
  is_comb (nop m) = true -> arity_ok (nop m) (length (nargs m)) = true ->
  net_val nl' st' v m' = net_val nl st v m.
Proof.
  intros Ho Hargs Hm Hst Hwd Hwa Hc Ha. unfold net_val, exec_spec. rewrite Ho.
  assert (Hav : argvals nl' v m' = argvals nl v m).
  { unfold argvals. rewrite Hargs. apply map_ext_in. intros a Hin. rewrite (Hwa a Hin). reflexivity. }
  rewrite Hav, Hwd.
  pose proof (op_spec_arity (nop m) (length (nargs m)) (argvals nl v m) Hc Ha) as Hs.
  assert (Hl : length (argvals nl v m) = length (nargs m)) by (unfold argvals; apply map_length).
  specialize (Hs Hl).
  destruct (nop m); try discriminate;
    try (destruct Hs as [r Hr]; rewrite Hr, !upd_same; reflexivity).
  rewrite !upd_same. unfold arg. rewrite Hargs.
  rewrite (mem_read_ext nl' nl st' st m0 _ (eq_sym Hm) (conj (fun r => eq_sym (proj1 Hst r)) (fun a b => eq_sym (proj2 Hst a b)))).
  reflexivity.
Qed.

Section DcoPass.
Variable nl : netlist.
Let nl' := dco_with dco_skips nl.
Let rm := dco_removed_dests dco_skips nl.
Let rw := dco_removed_wires dco_skips nl.

Hypothesis Hseq : seq_okb (nets nl) = true.
Hypothesis Hseq' : seq_okb (nets nl') = true.
Hypothesis Hunread : outputs_unread nl.
(* non-combinational nets: legal arity; a register is not also combinationally driven *)
Hypothesis Hnc : forall n, In n (nets nl) -> is_comb (nop n) = false ->
  arity_ok (nop n) (length (nargs n)) = true
  /\ (nop n = OpReg -> ~ In (ndest n) (cdests (nets nl))).

Lemma cand_facts n r : dco_candidate dco_skips nl n = Some r ->
  dco_skips (nop n) = false /\ readers nl (ndest n) = [r] /\ In r (nets nl) /\ nop r = OpW
  /\ is_output nl (ndest r) = true /\ width_of nl (ndest r) = width_of nl (ndest n).
Proof.
  unfold dco_candidate. destruct (dco_skips (nop n)); [discriminate|].
  destruct (readers nl (ndest n)) as [|r0 [|? ?]] eqn:Er; try discriminate.
  destruct (nop r0) eqn:Eo; try discriminate. destruct (is_output nl (ndest r0)) eqn:Ei; [|discriminate].
  cbn [andb]. destruct (width_of nl (ndest r0) =? width_of nl (ndest n)) eqn:Ew; [|discriminate].
  intro H. injection H as <-. repeat split; auto; [|lia].
  assert (Hin : In r0 (readers nl (ndest n))) by (rewrite Er; left; reflexivity).
  unfold readers in Hin. apply filter_In in Hin. apply Hin.
Qed.

Lemma skips_comb o : dco_skips o = false -> is_comb o = true.
Proof. destruct o; cbn; intro; try reflexivity; discriminate. Qed.

Lemma output_unread_args o m : is_output nl o = true -> In m (nets nl) -> ~ In o (nargs m).
Proof.
  intros Ho Hm Hin. pose proof (output_no_readers nl o Hunread Ho) as Hr.
  pose proof (readers_in nl o m Hm Hin) as H. rewrite Hr in H. destruct H.
Qed.

(* a net reading a removed wire is the removed 'w' net itself *)
Lemma reads_removed m a : In m (nets nl) -> In a (nargs m) -> In a rw ->
  dco_net dco_skips nl rm m = [].
Proof.
  intros Hm Ha Hrw. unfold rw, dco_removed_wires in Hrw. apply in_flat_map in Hrw.
  destruct Hrw as (n2 & Hn2 & Hx). destruct (dco_candidate dco_skips nl n2) as [r2|] eqn:E2; [|destruct Hx].
  destruct Hx as [<-|[]]. destruct (cand_facts n2 r2 E2) as (_ & Hrd & Hr2 & Hw & Ho & _).
  pose proof (readers_in nl (ndest n2) m Hm Ha) as Hin. rewrite Hrd in Hin. destruct Hin as [<-|[]].
  unfold dco_net.
  assert (Hnone : dco_candidate dco_skips nl r2 = None).
  { unfold dco_candidate. rewrite Hw. cbn [dco_skips]. rewrite (output_no_readers nl _ Hunread Ho). reflexivity. }
  rewrite Hnone, Hw.
  assert (Hrm : mem_in (ndest r2) rm = true).
  { apply mem_in_iff. unfold rm, dco_removed_dests. apply in_flat_map. exists n2. split; [exact Hn2|].
    rewrite E2. left. reflexivity. }
  rewrite Hrm. reflexivity.
Qed.

Lemma width_kept w : ~ In w rw -> width_of nl' w = width_of nl w.
Proof.
  intro H. unfold width_of, nl', dco_with. cbn [wires]. fold rw. rewrite find_wire_filter_names.
  destruct (mem_in w rw) eqn:E; [apply mem_in_iff in E; contradiction|reflexivity].
Qed.

Lemma base_kept dflt st st' ins w : st_eq st st' -> ~ In w rw ->
  base_val nl' dflt st' ins w = base_val nl dflt st ins w.
Proof.
  intros [Hr _] H. unfold base_val, nl', dco_with. cbn [wires]. fold rw. rewrite find_wire_filter_names.
  destruct (mem_in w rw) eqn:E; [apply mem_in_iff in E; contradiction|].
  destruct (find_wire (wires nl) w) as [x|]; [|reflexivity]. destruct (wkind x); auto.
Qed.

(* every net of the result comes from a net of the original none of whose
   arguments was removed *)
Lemma result_net m' : In m' (nets nl') ->
  exists m, In m (nets nl) /\ In m' (dco_net dco_skips nl rm m)
            /\ nop m' = nop m /\ nargs m' = nargs m /\ (forall a, In a (nargs m) -> ~ In a rw).
Proof.
  intro H. unfold nl', dco_with in H. cbn [nets] in H. fold rm in H. apply in_flat_map in H.
  destruct H as (m & Hm & Hin). exists m. split; [exact Hm|]. split; [exact Hin|].
  assert (Hshape : nop m' = nop m /\ nargs m' = nargs m).
  { unfold dco_net in Hin. destruct (dco_candidate dco_skips nl m).
    - destruct Hin as [<-|[]]. split; reflexivity.
    - assert (Hin' : In m' [m]).
      { destruct (nop m); try exact Hin. destruct (mem_in (ndest m) rm); [destruct Hin|exact Hin]. }
      destruct Hin' as [<-|[]]. split; reflexivity. }
  destruct Hshape as [H1 H2]. repeat split; try assumption.
  intros a Ha Hrw. rewrite (reads_removed m a Hm Ha Hrw) in Hin. destruct Hin.
Qed.

(* kept nets keep their destination, and it is not a removed wire *)
Lemma kept_dest m : In m (nets nl) -> is_comb (nop m) = true ->
  dco_candidate dco_skips nl m = None -> ~ In (ndest m) rw.
Proof.
  intros Hm Hc Hnone Hrw. unfold rw, dco_removed_wires in Hrw. apply in_flat_map in Hrw.
  destruct Hrw as (n2 & Hn2 & Hx). destruct (dco_candidate dco_skips nl n2) as [r2|] eqn:E2; [|destruct Hx].
  destruct Hx as [He|[]]. destruct (cand_facts n2 r2 E2) as (Hs & _).
  destruct (seq_okb_facts _ Hseq) as [_ Hnd].
  assert (m = n2) by (apply (cdests_unique (nets nl)); auto using skips_comb).
  subst m. congruence.
Qed.

Section Cycle.
Variables (dflt : Z) (st st' : state) (ins : wid -> Z).
Hypothesis Hst : st_eq st st'.
Let v0 := base_val nl dflt st ins.
Let v := comb nl st v0.
Let v' := comb nl' st' (base_val nl' dflt st' ins).

Lemma v_stable : stable nl st (nets nl) v /\ (forall w, ~ In w (cdests (nets nl)) -> v w = v0 w).
Proof. apply (comb_stable nl st (nets nl) v0 Hseq). Qed.

Lemma v'_stable : stable nl' st' (nets nl') v'
  /\ (forall w, ~ In w (cdests (nets nl')) -> v' w = base_val nl' dflt st' ins w).
Proof. apply (comb_stable nl' st' (nets nl') _ Hseq'). Qed.

(* the original valuation solves the equations of the result *)
Lemma v_stable' : stable nl' st' (nets nl') v.
Proof.
  destruct v_stable as [Hs _]. destruct (seq_okb_facts _ Hseq) as [Har Hnd].
  intros m' Hm' Hc' w. destruct (result_net m' Hm') as (m & Hm & Hin & Ho & Hargs & Hkeep).
  assert (Hc : is_comb (nop m) = true) by (rewrite <- Ho; exact Hc').
  pose proof (Har m Hm Hc) as Ha.
  assert (Ha' : arity_ok (nop m') (length (nargs m')) = true) by (rewrite Ho, Hargs; exact Ha).
  rewrite (exec_writes nl' st' v m' Hc' Ha').
  assert (Hwa : forall a, In a (nargs m) -> width_of nl' a = width_of nl a).
  { intros a Hin'. apply width_kept. apply Hkeep. exact Hin'. }
  unfold dco_net in Hin. destruct (dco_candidate dco_skips nl m) as [r|] eqn:Ec.
  - (* retargeted producer *)
    destruct Hin as [<-|[]]. cbn [ndest nop nargs] in *.
    destruct (cand_facts m r Ec) as (_ & Hrd & Hr & Hw & Hout & Hwd).
    assert (Hrc : is_comb (nop r) = true) by (rewrite Hw; reflexivity).
    pose proof (Har r Hr Hrc) as Har_r. rewrite Hw in Har_r. cbn in Har_r.
    assert (Hrargs : nargs r = [ndest m]).
    { assert (Hin' : In r (readers nl (ndest m))) by (rewrite Hrd; left; reflexivity).
      unfold readers in Hin'. apply filter_In in Hin'. destruct Hin' as [_ Hmi]. apply mem_in_iff in Hmi.
      destruct (nargs r) as [|a0 [|? ?]]; try discriminate. destruct Hmi as [->|[]]. reflexivity. }
    assert (Hdo : ~ In (ndest r) rw).
    { intro Hx. unfold rw, dco_removed_wires in Hx. apply in_flat_map in Hx.
      destruct Hx as (n2 & Hn2 & Hx). destruct (dco_candidate dco_skips nl n2) as [r2|] eqn:E2; [|destruct Hx].
      destruct Hx as [He|[]]. destruct (cand_facts n2 r2 E2) as (_ & Hrd2 & _).
      (* ndest n2 = ndest r is an Output, yet read by r2 *)
      assert (Hin2 : In r2 (readers nl (ndest n2))) by (rewrite Hrd2; left; reflexivity).
      unfold readers in Hin2. apply filter_In in Hin2. destruct Hin2 as [Hr2 Hmi]. apply mem_in_iff in Hmi.
      rewrite He in Hmi. apply (output_unread_args (ndest r) r2 Hout Hr2 Hmi). }
    assert (Hval : net_val nl' st' v (mkNet (nop m) (nargs m) (ndest r)) = net_val nl st v m).
    { apply net_val_retarget; try reflexivity; try assumption.
      cbn [ndest]. rewrite (width_kept _ Hdo). exact Hwd. }
    rewrite Hval.
    (* v (ndest m) = net_val m ; v (ndest r) = v (ndest m) mod 2^W = v (ndest m) *)
    assert (Hvt : v (ndest m) = net_val nl st v m).
    { rewrite <- (Hs m Hm Hc (ndest m)). rewrite (exec_writes nl st v m Hc Ha). apply upd_same. }
    assert (Hvo : v (ndest r) = net_val nl st v m).
    { rewrite <- (Hs r Hr Hrc (ndest r)). unfold exec_spec. rewrite Hw. unfold argvals. rewrite Hrargs.
      cbn [map op_spec]. rewrite upd_same, Hvt, Hwd. apply net_val_reduced; assumption. }
    unfold upd. destruct (w =? ndest r) eqn:E; [|reflexivity].
    replace w with (ndest r) by lia. symmetry. exact Hvo.
  - (* kept net *)
    assert (Hmm : m' = m).
    { assert (Hin' : In m' [m]).
      { destruct (nop m); try exact Hin. destruct (mem_in (ndest m) rm); [destruct Hin|exact Hin]. }
      destruct Hin' as [<-|[]]. reflexivity. }
    subst m'. rewrite <- (exec_writes nl' st' v m Hc' Ha').
    transitivity (exec_spec nl st v m w); [|apply Hs; assumption].
    rewrite (exec_spec_st_ext nl' st' st v m (conj (fun r => eq_sym (proj1 Hst r)) (fun a b => eq_sym (proj2 Hst a b)))).
    symmetry. apply exec_spec_nl_ext; [reflexivity|].
    intros a [<-|Hin']; [apply width_kept; apply kept_dest; assumption|apply Hwa; exact Hin'].
Qed.

(* where a combinational destination of the original goes *)
Lemma orig_dest_cases w : In w (cdests (nets nl)) ->
  In w rw \/ In w (cdests (nets nl')).
Proof.
  intro H. destruct (cdests_inv _ _ H) as (m & Hm & Hc & <-).
  destruct (dco_candidate dco_skips nl m) as [r|] eqn:Ec.
  - left. unfold rw, dco_removed_wires. apply in_flat_map. exists m. split; [exact Hm|]. rewrite Ec. left. reflexivity.
  - right. unfold dco_net.
    assert (Hcase : In m (dco_net dco_skips nl rm m) \/ (nop m = OpW /\ mem_in (ndest m) rm = true)).
    { unfold dco_net. rewrite Ec. destruct (nop m) eqn:Eo; try (left; left; reflexivity).
      destruct (mem_in (ndest m) rm); [right; split; reflexivity|left; left; reflexivity]. }
    destruct Hcase as [Hk|[Hw Hrm]].
    + apply (cdests_in (nets nl') m); [|exact Hc]. unfold nl', dco_with. cbn [nets]. fold rm.
      apply in_flat_map. exists m. split; assumption.
    + (* dropped 'w' net: its Output is now written by the retargeted producer *)
      apply mem_in_iff in Hrm. unfold rm, dco_removed_dests in Hrm. apply in_flat_map in Hrm.
      destruct Hrm as (n2 & Hn2 & Hx). destruct (dco_candidate dco_skips nl n2) as [r2|] eqn:E2; [|destruct Hx].
      destruct Hx as [He|[]]. destruct (cand_facts n2 r2 E2) as (Hs2 & _).
      rewrite <- He.
      apply (cdests_in (nets nl') (mkNet (nop n2) (nargs n2) (ndest r2))); [|cbn; apply skips_comb; exact Hs2].
      unfold nl', dco_with. cbn [nets]. fold rm. apply in_flat_map. exists n2. split; [exact Hn2|].
      unfold dco_net. rewrite E2. left. reflexivity.
Qed.

Lemma result_args_kept a : In a (cargs (nets nl')) -> ~ In a rw /\ exists m, In m (nets nl) /\ In a (nargs m).
Proof.
  intro H. unfold cargs in H. apply in_flat_map in H. destruct H as (m' & Hm' & Ha).
  apply filter_In in Hm'. destruct Hm' as [Hm' _].
  destruct (result_net m' Hm') as (m & Hm & _ & _ & Hargs & Hkeep). rewrite Hargs in Ha.
  split; [apply Hkeep; exact Ha|exists m; split; assumption].
Qed.

Lemma removed_dest_is_output w : In w rm -> is_output nl w = true.
Proof.
  intro H. unfold rm, dco_removed_dests in H. apply in_flat_map in H.
  destruct H as (n2 & Hn2 & Hx). destruct (dco_candidate dco_skips nl n2) as [r2|] eqn:E2; [|destruct Hx].
  destruct Hx as [<-|[]]. apply (cand_facts n2 r2 E2).
Qed.

(* a non-destination of the result that some net still reads was not a destination before *)
Lemma nondest_result w : ~ In w (cdests (nets nl')) -> ~ In w rw -> ~ In w (cdests (nets nl)).
Proof. intros H1 H2 H. destruct (orig_dest_cases w H); contradiction. Qed.

Theorem dco_comb_agree : forall w, ~ In w rw -> v w = v' w.
Proof.
  destruct v_stable as [_ Hfr]. destruct v'_stable as [Hs' Hfr'].
  assert (Hd : forall w, In w (cdests (nets nl')) -> v w = v' w).
  { apply (stable_unique nl' st' (nets nl') v v' Hseq' v_stable' Hs').
    intros w Hnd Harg. destruct (result_args_kept w Harg) as [Hk _].
    rewrite (Hfr' w Hnd), (base_kept dflt st st' ins w Hst Hk).
    apply Hfr. apply nondest_result; assumption. }
  intros w Hk. destruct (in_dec Z.eq_dec w (cdests (nets nl'))) as [Hin|Hnin]; [apply Hd; exact Hin|].
  rewrite (Hfr' w Hnin), (base_kept dflt st st' ins w Hst Hk). apply Hfr. apply nondest_result; assumption.
Qed.
End Cycle.

(* ---------- registers and memories ---------- *)
Lemma noncomb_dco_net m : In m (nets nl) ->
  noncomb (dco_net dco_skips nl rm m) = if is_comb (nop m) then [] else [m].
Proof.
  intro Hm. unfold dco_net. destruct (dco_candidate dco_skips nl m) as [r|] eqn:Ec.
  - destruct (cand_facts m r Ec) as (Hs & _). pose proof (skips_comb _ Hs) as Hc. rewrite Hc.
    unfold noncomb. cbn [filter nop]. rewrite Hc. reflexivity.
  - assert (Hnone : is_comb (nop m) = false -> nop m <> OpW) by (intros H1 H2; rewrite H2 in H1; discriminate).
    destruct (is_comb (nop m)) eqn:Hc.
    + destruct (nop m) eqn:Eo; try (unfold noncomb; cbn [filter]; rewrite Eo; reflexivity); try discriminate.
      destruct (mem_in (ndest m) rm); [reflexivity|]. unfold noncomb. cbn [filter]. rewrite Eo. reflexivity.
    + destruct (nop m) eqn:Eo; try discriminate; unfold noncomb; cbn [filter]; rewrite Eo; reflexivity.
Qed.

Lemma noncomb_app l1 l2 : noncomb (l1 ++ l2) = noncomb l1 ++ noncomb l2.
Proof. unfold noncomb. apply filter_app. Qed.

Lemma noncomb_same : noncomb (nets nl') = noncomb (nets nl).
Proof.
  unfold nl', dco_with. cbn [nets]. fold rm.
  assert (H : forall ns, (forall m, In m ns -> In m (nets nl)) ->
            noncomb (flat_map (dco_net dco_skips nl rm) ns) = noncomb ns).
  { induction ns as [|m r IH]; intro Hsub; [reflexivity|]. cbn [flat_map]. rewrite noncomb_app.
    rewrite (noncomb_dco_net m (Hsub m (or_introl eq_refl))), IH by (intros; apply Hsub; right; assumption).
    change (noncomb (m :: r)) with (filter (fun n => negb (is_comb (nop n))) (m :: r)). cbn [filter].
    destruct (is_comb (nop m)); reflexivity. }
  apply H. auto.
Qed.

Lemma noncomb_args_kept m a : In m (nets nl) -> is_comb (nop m) = false -> In a (nargs m) -> ~ In a rw.
Proof.
  intros Hm Hc Ha Hrw. pose proof (reads_removed m a Hm Ha Hrw) as H0.
  pose proof (noncomb_dco_net m Hm) as H1. rewrite H0, Hc in H1. discriminate.
Qed.

Lemma rw_sub_cdests w : In w rw -> In w (cdests (nets nl)).
Proof.
  intro H. unfold rw, dco_removed_wires in H. apply in_flat_map in H.
  destruct H as (n2 & Hn2 & Hx). destruct (dco_candidate dco_skips nl n2) as [r2|] eqn:E2; [|destruct Hx].
  destruct Hx as [<-|[]]. destruct (cand_facts n2 r2 E2) as (Hs & _).
  apply cdests_in; [exact Hn2|apply skips_comb; exact Hs].
Qed.

Definition agree_kept (v v' : wid -> Z) : Prop := forall w, ~ In w rw -> v w = v' w.

Lemma arg_in_nargs m i : (i < length (nargs m))%nat -> In (arg m i) (nargs m).
Proof. intro H. unfold arg. apply nth_In. exact H. Qed.

Lemma regs_agree v v' rg rg' : agree_kept v v' -> (forall r, rg r = rg' r) ->
  forall r, fold_left (regnext_spec nl v) (nets nl) rg r = fold_left (regnext_spec nl' v') (nets nl') rg' r.
Proof.
  intros Hv Hrg r. rewrite fold_regnext_noncomb, (fold_regnext_noncomb nl' v' (nets nl')), noncomb_same.
  assert (H : forall ns, (forall m, In m ns -> In m (nets nl) /\ is_comb (nop m) = false) ->
            forall rg rg', (forall r, rg r = rg' r) ->
            forall r, fold_left (regnext_spec nl v) ns rg r = fold_left (regnext_spec nl' v') ns rg' r).
  { induction ns as [|m rest IH]; intros Hsub g g' Hg r0; [apply Hg|]. cbn [fold_left].
    apply IH; [intros; apply Hsub; right; assumption|].
    destruct (Hsub m (or_introl eq_refl)) as [Hm Hc]. destruct (Hnc m Hm Hc) as [Ha Hreg].
    intro r1. unfold regnext_spec. destruct (nop m) eqn:Eo; try apply Hg. rewrite <- Eo in Hc.
    cbn in Ha. assert (Hl : (0 < length (nargs m))%nat) by (destruct (nargs m) as [|? [|? ?]]; try discriminate; cbn; lia).
    rewrite (Hv (arg m 0)) by (apply (noncomb_args_kept m); [exact Hm|exact Hc|apply arg_in_nargs; exact Hl]).
    rewrite (width_kept (ndest m)) by (intro Hx; apply (Hreg eq_refl); apply rw_sub_cdests; exact Hx).
    unfold upd. destruct (r1 =? ndest m); [reflexivity|apply Hg]. }
  apply H; [|exact Hrg]. intros m Hm. unfold noncomb in Hm. apply filter_In in Hm. destruct Hm as [Hm Hc].
  split; [exact Hm|]. destruct (is_comb (nop m)); [discriminate|reflexivity].
Qed.

Lemma mems_agree v v' ms ms' : agree_kept v v' -> (forall m a, ms m a = ms' m a) ->
  forall m a, fold_left (write_spec v) (nets nl) ms m a = fold_left (write_spec v') (nets nl') ms' m a.
Proof.
  intros Hv Hms m a. rewrite fold_write_noncomb, (fold_write_noncomb v' (nets nl')), noncomb_same.
  assert (H : forall ns, (forall n, In n ns -> In n (nets nl) /\ is_comb (nop n) = false) ->
            forall g g', (forall m a, g m a = g' m a) ->
            forall m a, fold_left (write_spec v) ns g m a = fold_left (write_spec v') ns g' m a).
  { induction ns as [|n rest IH]; intros Hsub g g' Hg m0 a0; [apply Hg|]. cbn [fold_left].
    apply IH; [intros; apply Hsub; right; assumption|].
    destruct (Hsub n (or_introl eq_refl)) as [Hn Hc]. destruct (Hnc n Hn Hc) as [Ha _].
    intros m1 a1. unfold write_spec. destruct (nop n) eqn:Eo; try apply Hg. rewrite <- Eo in Hc.
    cbn in Ha. assert (Hl : length (nargs n) = 3%nat) by (apply Nat.eqb_eq; exact Ha).
    rewrite !(Hv (arg n _)) by (apply (noncomb_args_kept n); [exact Hn|exact Hc|apply arg_in_nargs; lia]).
    destruct (v' (arg n 2) =? 0); [apply Hg|].
    unfold upd. destruct (m1 =? m2); [|apply Hg]. destruct (a1 =? v' (arg n 0)); [reflexivity|apply Hg]. }
  apply H; [|exact Hms]. intros n Hn. unfold noncomb in Hn. apply filter_In in Hn. destruct Hn as [Hn Hc].
  split; [exact Hn|]. destruct (is_comb (nop n)); [discriminate|reflexivity].
Qed.

Lemma dco_step_sound dflt st st' ins : st_eq st st' ->
  agree_kept (fst (step nl dflt st ins)) (fst (step nl' dflt st' ins))
  /\ st_eq (snd (step nl dflt st ins)) (snd (step nl' dflt st' ins)).
Proof.
  intro Hst. unfold step. cbn [fst snd].
  assert (Hv : agree_kept (comb nl st (base_val nl dflt st ins)) (comb nl' st' (base_val nl' dflt st' ins))).
  { intros w Hw. apply (dco_comb_agree dflt st st' ins Hst w Hw). }
  split; [exact Hv|]. destruct Hst as [Hr Hm]. split; cbn [sregs smems].
  - intro r. apply regs_agree; assumption.
  - intros m a. apply mems_agree; assumption.
Qed.

Theorem dco_run_sound dflt inss : forall st st', st_eq st st' ->
  Forall2 agree_kept (fst (run nl dflt st inss)) (fst (run nl' dflt st' inss))
  /\ st_eq (snd (run nl dflt st inss)) (snd (run nl' dflt st' inss)).
Proof.
  induction inss as [|ins rest IH]; intros st st' Hst.
  - cbn. split; [constructor|exact Hst].
  - cbn [run]. destruct (dco_step_sound dflt st st' ins Hst) as [Hv Hs].
    destruct (step nl dflt st ins) as [v s1]. destruct (step nl' dflt st' ins) as [v' s1'].
    cbn [fst snd] in Hv, Hs. specialize (IH s1 s1' Hs).
    destruct (run nl dflt s1 rest) as [vs s2]. destruct (run nl' dflt s1' rest) as [vs' s2'].
    cbn [fst snd] in *. destruct IH as [IH1 IH2]. split; [constructor; assumption|assumption].
Qed.

Lemma wires_kept x : In x (wires nl') -> In x (wires nl) /\ ~ In (wname x) rw.
Proof.
  unfold nl', dco_with. cbn [wires]. fold rw. intro H. apply filter_In in H. destruct H as [H1 H2].
  split; [exact H1|]. intro Hx. apply mem_in_iff in Hx. rewrite Hx in H2. discriminate.
Qed.
End DcoPass.

(* ---------- decidable hypotheses (evaluated by the harness on every design) ---------- *)
Lemma outputs_unreadb_ok nl : outputs_unreadb nl = true -> outputs_unread nl.
Proof.
  unfold outputs_unreadb. intros H x n Hx Hk Hn Hin. rewrite forallb_forall in H. specialize (H x Hx).
  rewrite Hk in H. cbn in H. rewrite forallb_forall in H. specialize (H n Hn).
  apply mem_in_iff in Hin. rewrite Hin in H. discriminate.
Qed.

Lemma noncomb_okb_ok nl : noncomb_okb nl = true ->
  forall n, In n (nets nl) -> is_comb (nop n) = false ->
    arity_ok (nop n) (length (nargs n)) = true
    /\ (nop n = OpReg -> ~ In (ndest n) (cdests (nets nl))).
Proof.
  unfold noncomb_okb. intros H n Hn Hc. rewrite forallb_forall in H. specialize (H n Hn). rewrite Hc in H.
  cbn [orb] in H. apply andb_true_iff in H. destruct H as [H1 H2]. split; [exact H1|].
  intros Eo Hin. rewrite Eo in H2. apply mem_in_iff in Hin. rewrite Hin in H2. discriminate.
Qed.

(* every wire the result still declares has the same value, cycle by cycle *)
Definition preservedW (nl nl' : netlist) : Prop :=
  forall dflt st inss,
    Forall2 (same_on_wires nl') (fst (run nl dflt st inss)) (fst (run nl' dflt st inss))
    /\ st_eq (snd (run nl dflt st inss)) (snd (run nl' dflt st inss)).

Theorem dco_pass_preserves nl : dco_pass_okb nl = true -> preservedW nl (dco_with dco_skips nl).
Proof.
  unfold dco_pass_okb. intro H. rewrite !andb_true_iff in H. destruct H as [[[H1 H2] H3] H4].
  intros dflt st inss.
  destruct (dco_run_sound nl H1 H2 (outputs_unreadb_ok nl H3) (noncomb_okb_ok nl H4) dflt inss st st (st_eq_refl st))
    as [A B].
  split; [|exact B]. eapply Forall2_impl; [|exact A].
  intros v v' Hv x Hx. apply Hv. apply (wires_kept nl x Hx).
Qed.

Lemma dco_with_wires_sub nl x : In x (wires (dco_with dco_skips nl)) -> In x (wires nl).
Proof. unfold dco_with. cbn [wires]. intro H. apply filter_In in H. apply H. Qed.

Lemma dco_iter_wires_sub : forall fuel nl x, In x (wires (dco_iter dco_skips fuel nl)) -> In x (wires nl).
Proof.
  induction fuel as [|f IH]; intros nl x H; cbn [dco_iter] in H; [exact H|].
  destruct (dco_changes dco_skips nl); [|exact H]. apply dco_with_wires_sub. apply IH. exact H.
Qed.

Lemma preservedW_refl nl : preservedW nl nl.
Proof.
  intros dflt st inss. split; [|apply st_eq_refl].
  induction (fst (run nl dflt st inss)); constructor; auto. intros x _. reflexivity.
Qed.

Lemma preservedW_trans nl1 nl2 nl3 :
  (forall x, In x (wires nl3) -> In x (wires nl2)) ->
  preservedW nl1 nl2 -> preservedW nl2 nl3 -> preservedW nl1 nl3.
Proof.
  intros Hsub H12 H23 dflt st inss. destruct (H12 dflt st inss) as [A1 A2]. destruct (H23 dflt st inss) as [B1 B2].
  split.
  - revert B1. generalize (fst (run nl3 dflt st inss)). induction A1 as [|a b l1 l2 Hab _ IH]; intros l3 B1;
      inversion B1; subst; constructor; [|apply IH; assumption].
    intros x Hx. rewrite (Hab x (Hsub x Hx)). auto.
  - destruct A2 as [P1 P2]. destruct B2 as [Q1 Q2]. split; intros; [rewrite P1|rewrite P2]; auto.
Qed.

Theorem dco_iter_preserves : forall fuel nl,
  dco_iter_okb fuel nl = true -> preservedW nl (dco_iter dco_skips fuel nl).
Proof.
  induction fuel as [|f IH]; intros nl H; cbn [dco_iter dco_iter_okb] in *; [apply preservedW_refl|].
  destruct (dco_changes dco_skips nl); [|apply preservedW_refl].
  apply andb_true_iff in H. destruct H as [H1 H2].
  eapply preservedW_trans; [|apply dco_pass_preserves; exact H1|apply IH; exact H2].
  apply dco_iter_wires_sub.
Qed.

Theorem direct_connect_outputs_preserves nl :
  dco_okb nl = true -> preservedW nl (direct_connect_outputs nl).
Proof. apply dco_iter_preserves. Qed.
