(* C04 -- the folding tables of _constant_prop_pass (Gen/ConstFold.v, regenerated
   from the source on every run) agree with the reference op table (Sem.op_spec)
   wherever the pass applies them, and the pass's per-net decision (cp_decide)
   is sound. *)
From PyRTL Require Import Netlist.Sem Netlist.WFDefs Gen.ConstFold Pass.Opt.
From Coq Require Import ZifyBool.

Local Open Scope Z_scope.

(* ---- both arguments constant, any width, result reduced to a destination of
        width wd <= w (sanity_check: the destination is never wider) ---------- *)

Definition two_const_sound_stmt : Prop :=
  forall o w l r c, in_two_var_ops o = true -> 0 <= w -> inrange l w -> inrange r w ->
    two_var_ops o [l; r] = Some c ->
    exists s, op_spec o [(l, w); (r, w)] = Some s
              /\ forall wd, 0 <= wd <= w -> c mod 2 ^ wd = s mod 2 ^ wd.

Lemma lnot_mod_pow2 x w wd : 0 <= wd <= w ->
  Z.lnot x mod 2 ^ wd = (2 ^ w - 1 - x) mod 2 ^ wd.
Proof.
  intros H. unfold Z.lnot.
  replace (2 ^ w) with (2 ^ (w - wd) * 2 ^ wd)
    by (rewrite <- Z.pow_add_r by lia; f_equal; lia).
  replace (2 ^ (w - wd) * 2 ^ wd - 1 - x) with (Z.pred (- x) + 2 ^ (w - wd) * 2 ^ wd) by lia.
  rewrite Z_mod_plus_full. reflexivity.
Qed.

(* generic closing tactic for one table entry: the entry is literally the
   reference function, or differs from it by a multiple of 2^w (Python's ~) *)
Ltac close_entry :=
  first [ reflexivity | apply lnot_mod_pow2; lia ].

Lemma two_const_sound : two_const_sound_stmt.
Proof.
  intros o w l r c Hin Hw Hl Hr Ht.
  destruct o; try discriminate Hin; cbn [two_var_ops] in Ht; injection Ht as <-;
    cbn [op_spec]; eexists; (split; [reflexivity|]); intros wd Hwd;
    rewrite ?Z.max_id; close_entry.
Qed.

(* ---- one-argument table: '~' (value, bitmask of the argument) and 'r' ------- *)

Definition one_var_sound_stmt : Prop :=
  (forall w x c, 0 <= w -> inrange x w ->
     one_var_ops OpNot [x; mask w] = Some c -> op_spec OpNot [(x, w)] = Some c)
  /\ (forall x m c, one_var_ops OpReg [x; m] = Some c -> c = x)
  /\ (forall o, in_one_var_ops o = true -> o = OpNot \/ o = OpReg).

Lemma one_var_sound : one_var_sound_stmt.
Proof.
  split; [|split].
  - intros w x c Hw Hx H. cbn [one_var_ops] in H. injection H as <-.
    cbn [op_spec]. f_equal. symmetry. apply (lnot_mask x w Hw Hx).
  - intros x m c H. cbn [one_var_ops] in H. injection H as <-. reflexivity.
  - intros o H. destruct o; try discriminate H; auto.
Qed.

(* ---- exactly one constant argument, every wire one bit wide: the table is
        applied to (constant value, 0) and (constant value, 1) ------------------ *)

Definition bit (x : Z) : Prop := x = 0 \/ x = 1.

Definition one_const_sound_stmt : Prop :=
  forall o c x v, in_two_var_ops o = true -> bit c -> bit x ->
    two_var_ops o [c; x] = Some v ->
    exists s s', op_spec o [(c, 1); (x, 1)] = Some s /\ op_spec o [(x, 1); (c, 1)] = Some s'
                 /\ v mod 2 = s mod 2 /\ v mod 2 = s' mod 2.

Lemma one_const_sound : one_const_sound_stmt.
Proof.
  intros o c x v Hin [->| ->] [->| ->] Ht;
    destruct o; try discriminate Hin; vm_compute in Ht; injection Ht as <-;
    do 2 eexists; (split; [reflexivity|]); (split; [reflexivity|]); vm_compute; auto.
Qed.

Definition constfold_table_sound_stmt : Prop :=
  two_const_sound_stmt /\ one_var_sound_stmt /\ one_const_sound_stmt.

Theorem constfold_table_sound : constfold_table_sound_stmt.
Proof. exact (conj two_const_sound (conj one_var_sound one_const_sound)). Qed.

(* ---- the pass's decision for one net is sound ------------------------------- *)

Section Decide.
Variable nl : netlist.

(* a valuation that gives every Const wire its value and every argument of the
   net an in-range value (true of every valuation `comb` produces on a wfb netlist) *)
Definition respects_consts (v : wid -> Z) : Prop :=
  forall w c, kind_of nl w = KConst c -> v w = c.

Definition args_inrange (v : wid -> Z) (n : net) : Prop :=
  forall a, In a (nargs n) -> inrange (v a) (width_of nl a).

Definition dest_value (v : wid -> Z) (n : net) (r : Z) : Prop :=
  exists s, op_spec (nop n) (argvals nl v n) = Some s
            /\ r = s mod 2 ^ width_of nl (ndest n).

Definition binary_same_width (n : net) : Prop :=
  match nargs n with
  | [a; b] => width_of nl a = width_of nl b
  | _ => True
  end.

Lemma is_const_val v w : respects_consts v -> is_const nl w = true -> v w = const_val nl w.
Proof.
  intros Hc H. unfold is_const, const_val in *.
  destruct (kind_of nl w) eqn:E; try discriminate. apply Hc. assumption.
Qed.

Lemma bit_of_inrange x : inrange x 1 -> bit x.
Proof. unfold inrange, bit. change (2 ^ 1) with 2. lia. Qed.

Lemma filter_count2 (f : wid -> bool) a b :
  length (filter f [a; b]) = 1%nat ->
  (f a = true /\ f b = false) \/ (f a = false /\ f b = true).
Proof. simpl. destruct (f a), (f b); simpl; intros; auto; discriminate. Qed.

Lemma filter_count_all2 (f : wid -> bool) a b :
  length (filter f [a; b]) <> 0%nat -> length (filter f [a; b]) <> 1%nat ->
  f a = true /\ f b = true.
Proof. simpl. destruct (f a), (f b); simpl; intros; auto; congruence. Qed.

(* The statement: whatever cp_decide answers is the value the reference
   semantics gives the destination (for every valuation of the other wires). *)
Definition cp_decide_sound_stmt : Prop :=
  forall n v r, respects_consts v -> args_inrange v n ->
    0 <= width_of nl (ndest n) ->
    (width_of nl (ndest n) <= width_of nl (arg n 0)) ->
    binary_same_width n ->
    nop n <> OpReg ->
    dest_value v n r ->
    match cp_decide nl n with
    | CpKeep => True
    | CpConst c => r = c mod 2 ^ width_of nl (ndest n)
    | CpWire w => r = v w /\ width_of nl w = 1 /\ width_of nl (ndest n) = 1 /\ In w (nargs n)
    | CpNot w => r = 1 - v w /\ width_of nl w = 1 /\ width_of nl (ndest n) = 1 /\ In w (nargs n)
    end.

Lemma cp_decide_sound : cp_decide_sound_stmt.
Proof.
  intros n v r Hc Hr Hwd Hle Hbw Hnr [s [Hs ->]].
  unfold cp_decide.
  destruct (valid_net_ops (nop n)) eqn:Hv; cbn [negb]; [|exact I].
  destruct (Nat.eqb (length (filter (is_const nl) (nargs n))) 0 || no_optimization_ops (nop n)) eqn:H0;
    [exact I|].
  apply orb_false_iff in H0. destruct H0 as [Hn0 Hno].
  apply Nat.eqb_neq in Hn0.
  destruct (in_two_var_ops (nop n)) eqn:H2; cbn [andb].
  - (* a binary table op: the net has exactly two arguments *)
    assert (Hargs : exists a b, nargs n = [a; b]).
    { unfold argvals in Hs. destruct (nop n); try discriminate H2;
        destruct (nargs n) as [|a [|b [|c rest]]]; try discriminate Hs; eauto. }
    destruct Hargs as [a [b Eargs]].
    unfold binary_same_width in Hbw. rewrite Eargs in Hbw.
    assert (Ha0 : arg n 0 = a) by (unfold arg; rewrite Eargs; reflexivity).
    assert (Ha1 : arg n 1 = b) by (unfold arg; rewrite Eargs; reflexivity).
    unfold args_inrange in Hr. rewrite Ha0, Ha1 in *. rewrite Eargs in *.
    assert (Hra : inrange (v a) (width_of nl a)) by (apply Hr; left; reflexivity).
    assert (Hrb : inrange (v b) (width_of nl b)) by (apply Hr; right; left; reflexivity).
    destruct (Nat.eqb (length (filter (is_const nl) [a; b])) 1) eqn:H1.
    + (* exactly one constant *)
      apply Nat.eqb_eq in H1.
      destruct (forallb (fun w => width_of nl w =? 1) ([a; b] ++ net_dests n)) eqn:Hw1; [|exact I].
      assert (Hwa : width_of nl a = 1 /\ width_of nl b = 1).
      { cbn [app forallb] in Hw1. apply andb_true_iff in Hw1. destruct Hw1 as [H3 H4].
        apply andb_true_iff in H4. destruct H4 as [H4 _]. lia. }
      destruct Hwa as [Hwa Hwb].
      assert (Hwdd : width_of nl (ndest n) = 1).
      { unfold net_dests in Hw1. destruct (nop n); try discriminate H2;
          cbn [op_has_dest app forallb] in Hw1;
          repeat (apply andb_true_iff in Hw1; destruct Hw1 as [? Hw1]); lia. }
      rewrite Hwa in Hra. rewrite Hwb in Hrb.
      apply bit_of_inrange in Hra. apply bit_of_inrange in Hrb.
      unfold argvals in Hs. rewrite Eargs in Hs. cbn [map] in Hs. rewrite Hwa, Hwb in Hs.
      rewrite Hwdd. change (2 ^ 1) with 2.
      destruct (filter_count2 _ _ _ H1) as [[Hca Hcb]|[Hca Hcb]]; rewrite Hcb.
      * (* a is the constant *)
        rewrite <- (is_const_val v a Hc Hca).
        destruct Hra as [Ea|Ea], Hrb as [Eb|Eb]; rewrite ?Ea, ?Eb in Hs; rewrite ?Ea, ?Eb;
          destruct (nop n); try discriminate H2; vm_compute in Hs; injection Hs as <-;
          vm_compute; rewrite ?Ea, ?Eb; repeat split; auto; rewrite ?Hwb; auto.
      * (* b is the constant *)
        rewrite <- (is_const_val v b Hc Hcb).
        destruct Hra as [Ea|Ea], Hrb as [Eb|Eb]; rewrite ?Ea, ?Eb in Hs; rewrite ?Ea, ?Eb;
          destruct (nop n); try discriminate H2; vm_compute in Hs; injection Hs as <-;
          vm_compute; rewrite ?Ea, ?Eb; repeat split; auto; rewrite ?Hwa; auto.
    + (* both constant *)
      apply Nat.eqb_neq in H1.
      destruct (filter_count_all2 _ _ _ Hn0 H1) as [Hca Hcb].
      rewrite <- (is_const_val v a Hc Hca), <- (is_const_val v b Hc Hcb).
      destruct (two_var_ops (nop n) [v a; v b]) as [c|] eqn:Et; [|exact I].
      rewrite <- Hbw in Hrb.
      destruct (two_const_sound (nop n) (width_of nl a) (v a) (v b) c H2
                  ltac:(apply (inrange_nonneg_w (v a)); assumption) Hra Hrb Et) as [s' [Hs' Heq]].
      unfold argvals in Hs. rewrite Eargs in Hs. cbn [map] in Hs. rewrite <- Hbw in Hs.
      rewrite Hs in Hs'. injection Hs' as <-. symmetry. apply Heq. lia.
  - (* the one-argument table: only '~' has a combinational meaning *)
    destruct (nop n) eqn:Eop; try discriminate Hv; try discriminate Hno; try discriminate H2;
      try (cbn [op_spec] in Hs; discriminate Hs).
    unfold argvals in Hs. destruct (nargs n) as [|a [|b rest]] eqn:Eargs; try discriminate Hs.
    assert (Ha0 : arg n 0 = a) by (unfold arg; rewrite Eargs; reflexivity).
    rewrite Ha0 in *.
    assert (Hca : is_const nl a = true).
    { cbn [filter] in Hn0. destruct (is_const nl a); [reflexivity|]. simpl in Hn0. congruence. }
    rewrite <- (is_const_val v a Hc Hca).
    assert (Hra : inrange (v a) (width_of nl a)) by (apply Hr; rewrite Eargs; left; reflexivity).
    destruct (one_var_ops OpNot [v a; mask (width_of nl a)]) as [c|] eqn:Et; [|exact I].
    destruct one_var_sound as [Hnot _].
    specialize (Hnot (width_of nl a) (v a) c (inrange_nonneg_w _ _ Hra) Hra Et).
    cbn [map] in Hs. rewrite Hs in Hnot. injection Hnot as ->. reflexivity.
Qed.

(* the register-of-constant rule: a register whose next-value net reads a Const
   captures that constant at the end of EVERY cycle, whatever the inputs/state;
   so once it holds the constant it holds it forever (the sanctioned steady state) *)
Lemma cp_decide_reg_const n :
  nop n = OpReg -> is_const nl (arg n 0) = true -> nargs n = [arg n 0] ->
  cp_decide nl n = CpConst (const_val nl (arg n 0)).
Proof.
  intros Eop Hca Eargs. unfold cp_decide. rewrite Eop, Eargs. cbn [filter]. rewrite Hca.
  vm_compute. reflexivity.
Qed.

Lemma reg_const_next v rg n :
  respects_consts v -> nop n = OpReg -> is_const nl (arg n 0) = true ->
  regnext_spec nl v rg n (ndest n)
  = const_val nl (arg n 0) mod 2 ^ width_of nl (ndest n).
Proof.
  intros Hc Eop Hca. unfold regnext_spec. rewrite Eop, upd_same.
  rewrite (is_const_val v _ Hc Hca). reflexivity.
Qed.

End Decide.
