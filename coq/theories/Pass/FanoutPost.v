(* C09 -- two_way_fanout: the whole-netlist postcondition.  After the pass no
   non-Output wire is read by more than two argument positions.  Accounting
   argument: every argument occurrence in the result is either an original one
   that found no leaf, or comes out of the table of pending trees (tree nets and
   leaves), and the tree lemma bounds what the table holds per wire. *)
From PyRTL Require Import Pass.Lower Pass.RewriteSound Pass.LowerPost.
From Coq Require Import ZifyBool.

Definition allargs (ns : list net) : list Z := flat_map nargs ns.

(* everything the table can still emit: tree nets' arguments and unused leaves *)
Definition pend (tab : list tentry) : list Z :=
  flat_map (fun e => allargs (te_nets e) ++ te_leaves e) tab.

(* unused leaves of the (first) tree of wire y *)
Fixpoint avail (y : Z) (tab : list tentry) : nat :=
  match tab with
  | [] => 0
  | e :: r => if te_wire e =? y then length (te_leaves e) else avail y r
  end.

Lemma count_cons x a l : count x (a :: l) = ((if (x =? a)%Z then 1 else 0) + count x l)%nat.
Proof. unfold count. cbn [filter]. destruct (x =? a); reflexivity. Qed.

Lemma count_nil x : count x [] = 0%nat.
Proof. reflexivity. Qed.

Lemma count_notin x l : (forall a, In a l -> a <> x) -> count x l = 0%nat.
Proof.
  induction l as [|a r IH]; intro H; [reflexivity|]. rewrite count_cons, IH.
  - destruct (x =? a) eqn:E; [|reflexivity]. exfalso. apply (H a); [left; reflexivity|lia].
  - intros b Hb. apply H. right. exact Hb.
Qed.

Lemma count_nodup x l : NoDup l -> (count x l <= 1)%nat.
Proof.
  induction 1 as [|a r Hn _ IH]; [cbn; lia|]. rewrite count_cons.
  destruct (x =? a) eqn:E; [|lia].
  rewrite count_notin; [lia|]. intros b Hb Hbx. apply Hn. replace a with b by lia. exact Hb.
Qed.

(* ---------- take_leaf ---------- *)
Lemma take_leaf_some a : forall tab l em tab1, take_leaf a tab = Some (l, em, tab1) ->
  (forall y, count y (pend tab) = (count y [l] + count y (allargs em) + count y (pend tab1))%nat)
  /\ avail a tab = S (avail a tab1)
  /\ (forall z, z <> a -> avail z tab1 = avail z tab).
Proof.
  induction tab as [|e r IH]; intros l em tab1 H; cbn [take_leaf] in H; [discriminate|].
  destruct (te_wire e =? a) eqn:E.
  - destruct (te_leaves e) as [|l0 ls] eqn:El; [discriminate|]. injection H as <- <- <-.
    repeat split.
    + intro y. cbn [pend flat_map te_nets te_leaves allargs]. rewrite El.
      rewrite !count_app, !count_cons, count_nil. fold (allargs (te_nets e)). fold (pend r). lia.
    + cbn [avail te_wire te_leaves]. rewrite E, Z.eqb_refl, El. reflexivity.
    + intros z Hz. cbn [avail te_wire]. destruct (a =? z) eqn:E1; [lia|]. destruct (te_wire e =? z) eqn:E2; [lia|reflexivity].
  - destruct (take_leaf a r) as [[[l1 em1] r1]|] eqn:Er; [|discriminate]. injection H as <- <- <-.
    destruct (IH _ _ _ eq_refl) as (H1 & H2 & H3). repeat split.
    + intro y. cbn [pend flat_map]. fold (pend r). fold (pend r1). rewrite !count_app, H1. lia.
    + cbn [avail]. rewrite E. exact H2.
    + intros z Hz. cbn [avail]. destruct (te_wire e =? z); [reflexivity|apply H3; exact Hz].
Qed.

Lemma take_leaf_none a : forall tab, take_leaf a tab = None -> avail a tab = 0%nat.
Proof.
  induction tab as [|e r IH]; intro H; [reflexivity|]. cbn [take_leaf] in H. cbn [avail].
  destruct (te_wire e =? a).
  - destruct (te_leaves e); [reflexivity|discriminate].
  - destruct (take_leaf a r) as [[[? ?] ?]|]; [discriminate|]. apply IH. reflexivity.
Qed.

(* ---------- rewriting the arguments of one net ---------- *)
Lemma rw_args_count y : forall args tab args' em tab',
  rw_args args tab = (args', em, tab') ->
  (count y args' + count y (allargs em) + count y (pend tab')
   <= count y (pend tab) + (count y args - avail y tab))%nat
  /\ avail y tab' = (avail y tab - count y args)%nat.
Proof.
  induction args as [|a r IH]; intros tab args' em tab' H; cbn [rw_args] in H.
  - injection H as <- <- <-. cbn. split; lia.
  - destruct (take_leaf a tab) as [[[l em0] tab1]|] eqn:Et.
    + destruct (rw_args r tab1) as [[r' em1] tab2] eqn:Er. injection H as <- <- <-.
      destruct (take_leaf_some a tab l em0 tab1 Et) as (Hp & Ha & Hz).
      destruct (IH tab1 r' em1 tab2 Er) as [I1 I2].
      unfold allargs in *. rewrite flat_map_app, !count_app, !count_cons. specialize (Hp y).
      rewrite count_cons, count_nil in Hp.
      destruct (y =? a) eqn:Eya.
      * assert (y = a) by lia. subst y. split; lia.
      * assert (Hne : y <> a) by lia. rewrite (Hz y Hne) in *. split; lia.
    + destruct (rw_args r tab) as [[r' em1] tab2] eqn:Er. injection H as <- <- <-.
      destruct (IH tab r' em1 tab2 Er) as [I1 I2].
      rewrite !count_cons. destruct (y =? a) eqn:Eya.
      * assert (y = a) by lia. subst y. pose proof (take_leaf_none a tab Et). split; lia.
      * split; lia.
Qed.

Lemma rw_nets_count y : forall ns tab,
  (count y (allargs (rw_nets ns tab)) <= count y (pend tab) + (count y (allargs ns) - avail y tab))%nat.
Proof.
  induction ns as [|n r IH]; intro tab; cbn [rw_nets]; [cbn; lia|].
  destruct (rw_args (nargs n) tab) as [[args' em] tab'] eqn:E.
  destruct (rw_args_count y _ _ _ _ _ E) as [H1 H2]. specialize (IH tab').
  unfold allargs in *. rewrite flat_map_app. cbn [flat_map nargs]. rewrite !count_app in *. lia.
Qed.

(* ---------- what build_tab puts into the table ---------- *)
Lemma build_tab_roots ns : forall ws next y,
  (count y (map te_wire (fst (build_tab ns ws next))) <= count y (map wname ws))%nat.
Proof.
  induction ws as [|x r IH]; intros next y; cbn [build_tab]; [cbn; lia|].
  cbn [map]. rewrite count_cons.
  destruct (is_output_kind (wkind x) || (count_args (wname x) ns <=? 1)%nat).
  - specialize (IH next y). lia.
  - destruct (make_tree (count_args (wname x) ns) (wname x) (count_args (wname x) ns) next) as [[tn lv] nx].
    cbn [fst map te_wire]. rewrite count_cons. specialize (IH nx y). lia.
Qed.

Lemma build_tab_pend ns : forall ws next,
  (forall x, In x ws -> wname x < next) ->
  forall y,
    (next <= y -> (count y (pend (fst (build_tab ns ws next))) <= 2)%nat)
    /\ (y < next -> count y (pend (fst (build_tab ns ws next)))
                    = count y (map te_wire (fst (build_tab ns ws next)))).
Proof.
  induction ws as [|x r IH]; intros next Hlt y; cbn [build_tab]; [cbn; split; intros; lia|].
  assert (Hr : forall x0, In x0 r -> wname x0 < next) by (intros; apply Hlt; right; assumption).
  destruct (is_output_kind (wkind x) || (count_args (wname x) ns <=? 1)%nat).
  - apply IH. exact Hr.
  - destruct (make_tree (count_args (wname x) ns) (wname x) (count_args (wname x) ns) next) as [[tn lv] nx] eqn:Em.
    pose proof (make_tree_mono _ _ _ _ _ _ _ Em) as Hmono.
    assert (Hxw : wname x < next) by (apply Hlt; left; reflexivity).
    pose proof (make_tree_counts _ _ _ _ _ _ _ Hxw Em y) as Hc.
    cbn [fst pend flat_map te_nets te_leaves map te_wire].
    fold (pend (fst (build_tab ns r nx))). rewrite !(count_app y (allargs tn ++ lv)).
    assert (Hc' : count y (allargs tn ++ lv)
                  = if y =? wname x then 1%nat else if (next <=? y) && (y <? nx) then 2%nat else 0%nat) by exact Hc.
    rewrite Hc'. clear Hc Hc'. rewrite count_cons.
    assert (Hr' : forall x0, In x0 r -> wname x0 < nx) by (intros x0 H0; specialize (Hr x0 H0); lia).
    destruct (IH nx Hr' y) as [I1 I2].
    pose proof (build_tab_roots ns r nx y) as Hroots.
    split; intro Hy.
    + destruct (y =? wname x) eqn:E1; [lia|].
      destruct ((next <=? y) && (y <? nx)) eqn:E2.
      * assert (Hz : count y (map wname r) = 0%nat).
        { apply count_notin. intros a Ha Hay. apply in_map_iff in Ha. destruct Ha as (x0 & <- & Hx0).
          specialize (Hr x0 Hx0). lia. }
        rewrite I2 by lia. lia.
      * assert (nx <= y) by lia. specialize (I1 H). lia.
    + destruct (y =? wname x) eqn:E1.
      * rewrite I2 by lia. lia.
      * destruct ((next <=? y) && (y <? nx)) eqn:E2; [lia|]. rewrite I2 by lia. lia.
Qed.

Lemma build_tab_new_names ns : forall ws next x,
  In x (snd (build_tab ns ws next)) -> next <= wname x /\ wkind x = KWire.
Proof.
  induction ws as [|x0 r IH]; intros next x H; cbn [build_tab] in H; [destruct H|].
  destruct (is_output_kind (wkind x0) || (count_args (wname x0) ns <=? 1)%nat); [apply IH; exact H|].
  destruct (make_tree (count_args (wname x0) ns) (wname x0) (count_args (wname x0) ns) next) as [[tn lv] nx] eqn:Em.
  pose proof (make_tree_mono _ _ _ _ _ _ _ Em). cbn [snd] in H. apply in_app_or in H. destruct H as [H|H].
  - unfold tmp_wires in H. apply in_map_iff in H. destruct H as (i & <- & Hi). apply zrange_in in Hi. cbn. split; [lia|reflexivity].
  - destruct (IH nx x H). split; [lia|assumption].
Qed.

Lemma build_tab_avail ns : forall ws next x,
  NoDup (map wname ws) -> In x ws -> is_output_kind (wkind x) = false ->
  (2 <= count_args (wname x) ns)%nat ->
  avail (wname x) (fst (build_tab ns ws next)) = count_args (wname x) ns.
Proof.
  induction ws as [|x0 r IH]; intros next x Hnd Hin Hout Hk; [destruct Hin|].
  cbn [map] in Hnd. inversion Hnd as [|? ? Hni Hnd']; subst. cbn [build_tab].
  destruct Hin as [->|Hin].
  - rewrite Hout. cbn [orb]. destruct (count_args (wname x) ns <=? 1)%nat eqn:E; [lia|].
    destruct (make_tree (count_args (wname x) ns) (wname x) (count_args (wname x) ns) next) as [[tn lv] nx] eqn:Em.
    cbn [fst avail te_wire te_leaves]. rewrite Z.eqb_refl.
    assert (H1 : (1 <= count_args (wname x) ns)%nat) by lia.
    apply (make_tree_leaves _ _ _ _ _ _ _ (Nat.le_refl _) H1 Em).
  - assert (Hne : wname x0 <> wname x).
    { intro He. apply Hni. rewrite He. apply in_map. exact Hin. }
    destruct (is_output_kind (wkind x0) || (count_args (wname x0) ns <=? 1)%nat); [apply IH; assumption|].
    destruct (make_tree (count_args (wname x0) ns) (wname x0) (count_args (wname x0) ns) next) as [[tn lv] nx].
    cbn [fst avail te_wire]. destruct (wname x0 =? wname x) eqn:E; [lia|]. apply IH; assumption.
Qed.

(* ---------- the postcondition ---------- *)
Theorem two_way_fanout_post_at nl next :
  fresh nl <= next -> NoDup (map wname (wires nl)) ->
  post_two_way_fanout (two_way_fanout_at next nl) = true.
Proof.
  intros Hnext Hnd. unfold post_two_way_fanout, two_way_fanout_at. cbn [wires nets].
  set (ns := nets nl). set (tab0 := fst (build_tab ns (wires nl) next)).
  apply forallb_forall. intros x Hx.
  assert (Hwl : forall x0, In x0 (wires nl) -> wname x0 < next).
  { intros x0 H0. pose proof (fresh_wire nl x0 H0). lia. }
  assert (Hargs : forall a, In a (allargs ns) -> a < next).
  { intros a Ha. unfold allargs in Ha. apply in_flat_map in Ha. destruct Ha as (n & Hn & Ha).
    pose proof (fresh_nets nl) as Hb. rewrite Forall_forall in Hb. destruct (Hb n Hn) as [_ Hb2].
    specialize (Hb2 a Ha). lia. }
  pose proof (rw_nets_count (wname x) ns tab0) as Hcnt.
  change (count_args (wname x) (rw_nets ns tab0)) with (count (wname x) (allargs (rw_nets ns tab0))).
  destruct (build_tab_pend ns (wires nl) next Hwl (wname x)) as [P1 P2]. fold tab0 in P1, P2.
  apply in_app_or in Hx. destruct Hx as [Hx|Hx].
  - (* an original wire *)
    destruct (is_output_kind (wkind x)) eqn:Eo; [reflexivity|]. cbn [orb].
    specialize (Hwl x Hx). rewrite (P2 Hwl) in Hcnt.
    pose proof (build_tab_roots ns (wires nl) next (wname x)) as Hr. fold tab0 in Hr.
    pose proof (count_nodup (wname x) _ Hnd) as H1.
    destruct (Nat.le_gt_cases (count (wname x) (allargs ns)) 1) as [Hk|Hk].
    + apply Nat.leb_le. lia.
    + pose proof (build_tab_avail ns (wires nl) next x Hnd Hx Eo ltac:(unfold count_args; fold (allargs ns); unfold count in *; lia)) as Ha.
      fold tab0 in Ha. unfold count_args in Ha. fold (allargs ns) in Ha. fold (count (wname x) (allargs ns)) in Ha.
      apply Nat.leb_le. lia.
  - (* a tree wire *)
    destruct (build_tab_new_names ns (wires nl) next x Hx) as [Hge Hk]. rewrite Hk. cbn [is_output_kind orb].
    specialize (P1 Hge).
    assert (Hz : count (wname x) (allargs ns) = 0%nat).
    { apply count_notin. intros a Ha Hax. specialize (Hargs a Ha). lia. }
    apply Nat.leb_le. lia.
Qed.

Theorem two_way_fanout_post nl :
  NoDup (map wname (wires nl)) -> post_two_way_fanout (two_way_fanout nl) = true.
Proof. intro H. apply two_way_fanout_post_at; [lia|exact H]. Qed.
