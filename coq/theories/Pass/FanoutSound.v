(* C09 -- two_way_fanout preserves behaviour.  The valuation of the original,
   extended to the tree wires by "every tree wire carries its root's value",
   solves the equations of the result; by uniqueness (Pass/Stable.v) it is the
   valuation of the result.  Needs the root values to be reduced modulo their
   width (in range): automatic for driven wires, a legality hypothesis for
   Inputs / Registers / Consts.  The facts about the table of trees the argument
   uses are a decidable check on the model's output ([fanout_okb]). *)
From PyRTL Require Import Pass.Lower Pass.RewriteSound Pass.LowerPost Pass.Stable Pass.LowerTheorems
  Pass.DcoSound Pass.FanoutPost.
From PyRTL Require Import Pass.LowerHyps.
From Coq Require Import ZifyBool.

Definition tnets (tab : list tentry) : list net := flat_map te_nets tab.
Definition tleaves (tab : list tentry) : list (wid * wid) :=
  flat_map (fun e => map (fun l => (te_wire e, l)) (te_leaves e)) tab.

(* a' stands for a: it is a itself or a leaf of a's tree *)
Definition ren (tab : list tentry) (a a' : wid) : Prop := a' = a \/ In (a, a') (tleaves tab).

Lemma ren_mono tab1 tab a a' : incl (tleaves tab1) (tleaves tab) -> ren tab1 a a' -> ren tab a a'.
Proof. intros H [E|Hin]; [left; exact E|right; apply H; exact Hin]. Qed.

(* ---------- shape of the rewritten netlist ---------- *)
Lemma take_leaf_shape a : forall tab l em tab1, take_leaf a tab = Some (l, em, tab1) ->
  In (a, l) (tleaves tab) /\ incl em (tnets tab)
  /\ incl (tnets tab1) (tnets tab) /\ incl (tleaves tab1) (tleaves tab).
Proof.
  induction tab as [|e r IH]; intros l em tab1 H; cbn [take_leaf] in H; [discriminate|].
  destruct (te_wire e =? a) eqn:E.
  - destruct (te_leaves e) as [|l0 ls] eqn:El; [discriminate|]. injection H as <- <- <-.
    assert (Hw : te_wire e = a) by lia.
    unfold tnets, tleaves. cbn [flat_map te_nets te_leaves te_wire map]. rewrite El, Hw. cbn [map].
    repeat split.
    + left. reflexivity.
    + intros x Hx. apply in_or_app. left. exact Hx.
    + intros x Hx. cbn [app] in Hx. apply in_or_app. right. exact Hx.
    + intros x Hx. apply in_app_or in Hx. cbn [app]. destruct Hx as [Hx|Hx].
      * right. apply in_or_app. left. exact Hx.
      * right. apply in_or_app. right. exact Hx.
  - destruct (take_leaf a r) as [[[l1 em1] r1]|] eqn:Er; [|discriminate]. injection H as <- <- <-.
    destruct (IH _ _ _ eq_refl) as (H1 & H2 & H3 & H4).
    unfold tnets, tleaves in *. cbn [flat_map]. repeat split.
    + apply in_or_app. right. exact H1.
    + intros x Hx. apply in_or_app. right. apply H2. exact Hx.
    + intros x Hx. apply in_app_or in Hx. apply in_or_app. destruct Hx; [left|right; apply H3]; assumption.
    + intros x Hx. apply in_app_or in Hx. apply in_or_app. destruct Hx; [left|right; apply H4]; assumption.
Qed.

Lemma rw_args_shape : forall args tab args' em tab', rw_args args tab = (args', em, tab') ->
  Forall2 (ren tab) args args' /\ incl em (tnets tab)
  /\ incl (tnets tab') (tnets tab) /\ incl (tleaves tab') (tleaves tab).
Proof.
  induction args as [|a r IH]; intros tab args' em tab' H; cbn [rw_args] in H.
  - injection H as <- <- <-. repeat split; [constructor|intros x []|apply incl_refl|apply incl_refl].
  - destruct (take_leaf a tab) as [[[l em0] tab1]|] eqn:Et.
    + destruct (rw_args r tab1) as [[r' em1] tab2] eqn:Er. injection H as <- <- <-.
      destruct (take_leaf_shape a tab l em0 tab1 Et) as (T1 & T2 & T3 & T4).
      destruct (IH tab1 r' em1 tab2 Er) as (I1 & I2 & I3 & I4). repeat split.
      * constructor; [right; exact T1|]. eapply Forall2_impl; [|exact I1]. intros x y. apply ren_mono. exact T4.
      * intros x Hx. apply in_app_or in Hx. destruct Hx; [apply T2|apply T3; apply I2]; assumption.
      * eapply incl_tran; eassumption.
      * eapply incl_tran; eassumption.
    + destruct (rw_args r tab) as [[r' em1] tab2] eqn:Er. injection H as <- <- <-.
      destruct (IH tab r' em1 tab2 Er) as (I1 & I2 & I3 & I4). repeat split; try assumption.
      constructor; [left; reflexivity|exact I1].
Qed.

Lemma rw_nets_shape : forall ns tab,
  (forall m', In m' (rw_nets ns tab) ->
     In m' (tnets tab)
     \/ exists m, In m ns /\ nop m' = nop m /\ ndest m' = ndest m /\ Forall2 (ren tab) (nargs m) (nargs m'))
  /\ (forall m, In m ns -> exists m', In m' (rw_nets ns tab) /\ nop m' = nop m /\ ndest m' = ndest m).
Proof.
  induction ns as [|n r IH]; intro tab; cbn [rw_nets]; [split; [intros ? []|intros ? []]|].
  destruct (rw_args (nargs n) tab) as [[args' em] tab'] eqn:E.
  destruct (rw_args_shape _ _ _ _ _ E) as (A1 & A2 & A3 & A4).
  destruct (IH tab') as [I1 I2]. split.
  - intros m' Hm'. apply in_app_or in Hm'. destruct Hm' as [Hm'|[<-|Hm']].
    + left. apply A2. exact Hm'.
    + right. exists n. repeat split; [left; reflexivity|exact A1].
    + destruct (I1 m' Hm') as [Ht|(m & Hm & H1 & H2 & H3)].
      * left. apply A3. exact Ht.
      * right. exists m. repeat split; try assumption; [right; exact Hm|].
        eapply Forall2_impl; [|exact H3]. intros x y. apply ren_mono. exact A4.
  - intros m [<-|Hm].
    + eexists. split; [apply in_or_app; right; left; reflexivity|split; reflexivity].
    + destruct (I2 m Hm) as (m' & H1 & H2). exists m'. split; [apply in_or_app; right; right; exact H1|exact H2].
Qed.

Lemma upd_id {A} (v : Z -> A) d x w : v d = x -> upd v d x w = v w.
Proof. intro H. unfold upd. destruct (w =? d) eqn:E; [|reflexivity]. replace w with d by lia. symmetry. exact H. Qed.

(* same op, corresponding arguments (equal values and widths), destinations of equal width *)
Lemma net_val_rename nl nl' st st' v v' m m' :
  nop m' = nop m -> argvals nl' v' m' = argvals nl v m ->
  mems nl' = mems nl -> st_eq st st' ->
  width_of nl' (ndest m') = width_of nl (ndest m) ->
  is_comb (nop m) = true -> arity_ok (nop m) (length (nargs m)) = true ->
  net_val nl' st' v' m' = net_val nl st v m.
Proof.
  intros Ho Hav Hm Hst Hwd Hc Ha. unfold net_val, exec_spec. rewrite Ho, Hav, Hwd.
  pose proof (op_spec_arity (nop m) (length (nargs m)) (argvals nl v m) Hc Ha) as Hs.
  assert (Hl : length (argvals nl v m) = length (nargs m)) by (unfold argvals; apply map_length).
  specialize (Hs Hl).
  destruct (nop m) eqn:Eo; try discriminate;
    try (destruct Hs as [r Hr]; rewrite Hr, !upd_same; reflexivity).
  rewrite !upd_same. cbn in Ha.
  assert (Hl' : length (nargs m') = length (nargs m)).
  { rewrite <- Hl, <- Hav. unfold argvals. symmetry. apply map_length. }
  destruct (nargs m) as [|a0 [|? ?]] eqn:En; try discriminate.
  destruct (nargs m') as [|a0' [|? ?]] eqn:En'; try discriminate.
  unfold argvals in Hav. rewrite En, En' in Hav. cbn [map] in Hav. injection Hav as Hv _.
  unfold arg. rewrite En, En'. cbn [nth]. rewrite Hv.
  rewrite (mem_read_ext nl' nl st' st m0 _ (eq_sym Hm) (conj (fun r => eq_sym (proj1 Hst r)) (fun a b => eq_sym (proj2 Hst a b)))).
  reflexivity.
Qed.

Section FanoutPass.
Variable nl : netlist.
Variable next : Z.
Let tab0 := fst (build_tab (nets nl) (wires nl) next).
Let nl' := two_way_fanout_at next nl.
Hypothesis Hok : fanout_okb next nl = true.

Lemma Hparts : fresh nl <= next /\ seq_okb (nets nl) = true /\ seq_okb (nets nl') = true
  /\ tab_okb next nl nl' tab0 = true /\ new_reads_driven next (nets nl') = true
  /\ noncomb_arity (nets nl) = true.
Proof.
  unfold fanout_okb in Hok. cbn zeta in Hok. fold nl' tab0 in Hok. rewrite !andb_true_iff in Hok.
  destruct Hok as [[[[[H1 H2] H3] H4] H5] H6]. repeat split; try assumption. lia.
Qed.

Lemma nets_nl' : nets nl' = rw_nets (nets nl) tab0.
Proof. reflexivity. Qed.

Lemma old_lt w : (In w (flat_map net_ids (nets nl)) \/ exists x, In x (wires nl) /\ wname x = w) -> w < next.
Proof.
  destruct Hparts as (Hn & _). intros [H|(x & Hx & <-)].
  - apply in_flat_map in H. destruct H as (n & Hn' & Hw). pose proof (fresh_nets nl) as Hb.
    rewrite Forall_forall in Hb. destruct (Hb n Hn') as [Hd Ha]. destruct Hw as [<-|Hw]; [lia|]. specialize (Ha w Hw). lia.
  - pose proof (fresh_wire nl x Hx). lia.
Qed.

Lemma find_wire_old' w : w < next -> find_wire (wires nl') w = find_wire (wires nl) w.
Proof.
  intro Hw. unfold nl', two_way_fanout_at. cbn [wires]. apply find_wire_app_l.
  intros x Hx. destruct (build_tab_new_names _ _ _ _ Hx) as [Hge _]. lia.
Qed.

Lemma width_old w : w < next -> width_of nl' w = width_of nl w.
Proof. intro H. unfold width_of. rewrite find_wire_old' by exact H. reflexivity. Qed.

Lemma base_old dflt st st' ins w : st_eq st st' -> w < next ->
  base_val nl' dflt st' ins w = base_val nl dflt st ins w.
Proof.
  intros [Hr _] H. unfold base_val. rewrite find_wire_old' by exact H.
  destruct (find_wire (wires nl) w) as [x|]; [|reflexivity]. destruct (wkind x); auto.
Qed.

(* what the table check gives *)
Lemma tab_facts e : In e tab0 ->
  te_wire e < next
  /\ (forall m, In m (te_nets e) ->
        nop m = OpW /\ exists p, nargs m = [p] /\ phi tab0 p = te_wire e /\ phi tab0 (ndest m) = te_wire e
                                 /\ next <= ndest m /\ width_of nl' (ndest m) = width_of nl (te_wire e))
  /\ (forall l, In l (te_leaves e) -> phi tab0 l = te_wire e /\ width_of nl' l = width_of nl (te_wire e)).
Proof.
  destruct Hparts as (_ & _ & _ & Ht & _). intro He. unfold tab_okb in Ht. rewrite forallb_forall in Ht.
  specialize (Ht e He). rewrite !andb_true_iff in Ht. destruct Ht as [[H1 H2] H3]. split; [lia|]. split.
  - intros m Hm. rewrite forallb_forall in H2. specialize (H2 m Hm).
    destruct (nop m); try discriminate. destruct (nargs m) as [|p [|? ?]]; try discriminate.
    rewrite !andb_true_iff in H2. destruct H2 as [[[A B] C] D]. split; [reflexivity|]. exists p. repeat split; lia.
  - intros l Hl. rewrite forallb_forall in H3. specialize (H3 l Hl). apply andb_true_iff in H3. split; lia.
Qed.

Lemma phi_old y : y < next -> phi tab0 y = y.
Proof.
  intro Hy. assert (H : forall tab, incl tab tab0 -> phi tab y = y).
  { induction tab as [|e r IH]; intro Hsub; [reflexivity|]. cbn [phi].
    destruct (mem_in y (map ndest (te_nets e))) eqn:E.
    - exfalso. apply mem_in_iff in E. apply in_map_iff in E. destruct E as (m & Hd & Hm).
      destruct (tab_facts e (Hsub e (or_introl eq_refl))) as (_ & Hn & _).
      destruct (Hn m Hm) as (_ & p & _ & _ & _ & Hge & _). lia.
    - apply IH. intros x Hx. apply Hsub. right. exact Hx. }
  apply H. apply incl_refl.
Qed.

Lemma ren_facts a a' : a < next -> ren tab0 a a' ->
  phi tab0 a' = a /\ width_of nl' a' = width_of nl a.
Proof.
  intros Ha [->|Hin]; [split; [apply phi_old; exact Ha|apply width_old; exact Ha]|].
  unfold tleaves in Hin. apply in_flat_map in Hin. destruct Hin as (e & He & Hin).
  apply in_map_iff in Hin. destruct Hin as (l & Heq & Hl). injection Heq as <- <-.
  destruct (tab_facts e He) as (_ & _ & Hlv). apply Hlv. exact Hl.
Qed.

Section Cycle.
Variables (dflt : Z) (st st' : state) (ins : wid -> Z).
Hypothesis Hst : st_eq st st'.
Let v0 := base_val nl dflt st ins.
Let v := comb nl st v0.
Let v' := comb nl' st' (base_val nl' dflt st' ins).
Let vs := fun y => v (phi tab0 y).

(* roots that no net drives (Inputs, Registers, Consts) carry in-range values *)
Hypothesis Hlegal : forall e, In e tab0 -> ~ In (te_wire e) (cdests (nets nl)) ->
  v0 (te_wire e) mod 2 ^ width_of nl (te_wire e) = v0 (te_wire e).

Lemma fv_stable : stable nl st (nets nl) v /\ (forall w, ~ In w (cdests (nets nl)) -> v w = v0 w).
Proof. destruct Hparts as (_ & H & _). apply (comb_stable nl st (nets nl) v0 H). Qed.

Lemma fv'_stable : stable nl' st' (nets nl') v'
  /\ (forall w, ~ In w (cdests (nets nl')) -> v' w = base_val nl' dflt st' ins w).
Proof. destruct Hparts as (_ & _ & H & _). apply (comb_stable nl' st' (nets nl') _ H). Qed.

Lemma root_reduced e : In e tab0 -> v (te_wire e) mod 2 ^ width_of nl (te_wire e) = v (te_wire e).
Proof.
  intro He. destruct fv_stable as [Hs Hfr]. destruct Hparts as (_ & Hseq & _).
  destruct (seq_okb_facts _ Hseq) as [Har _].
  destruct (in_dec Z.eq_dec (te_wire e) (cdests (nets nl))) as [Hin|Hnin].
  - destruct (cdests_inv _ _ Hin) as (m & Hm & Hc & Hd).
    pose proof (Har m Hm Hc) as Ha.
    assert (Hv : v (ndest m) = net_val nl st v m).
    { rewrite <- (Hs m Hm Hc (ndest m)). rewrite (exec_writes nl st v m Hc Ha). apply upd_same. }
    rewrite <- Hd, Hv. apply net_val_reduced; assumption.
  - rewrite (Hfr _ Hnin). apply Hlegal; assumption.
Qed.

Lemma vs_stable : stable nl' st' (nets nl') vs.
Proof.
  destruct fv_stable as [Hs _]. destruct Hparts as (_ & Hseq & _). destruct (seq_okb_facts _ Hseq) as [Har _].
  intros m' Hm' Hc' w. rewrite nets_nl' in Hm'.
  destruct (proj1 (rw_nets_shape (nets nl) tab0) m' Hm') as [Ht|(m & Hm & Ho & Hd & Hren)].
  - (* a tree net *)
    unfold tnets in Ht. apply in_flat_map in Ht. destruct Ht as (e & He & Hme).
    destruct (tab_facts e He) as (_ & Hn & _). destruct (Hn m' Hme) as (Hw & p & Hp & Hpp & Hpd & _ & Hwd).
    unfold exec_spec. rewrite Hw. unfold argvals. rewrite Hp. cbn [map op_spec]. rewrite Hwd.
    apply upd_id. unfold vs. rewrite Hpp, Hpd. symmetry. apply root_reduced. exact He.
  - (* a renamed net *)
    assert (Hc : is_comb (nop m) = true) by (rewrite <- Ho; exact Hc').
    pose proof (Har m Hm Hc) as Ha.
    assert (Hlen : length (nargs m') = length (nargs m)).
    { clear -Hren. induction Hren; cbn; auto. }
    assert (Ha' : arity_ok (nop m') (length (nargs m')) = true) by (rewrite Ho, Hlen; exact Ha).
    rewrite (exec_writes nl' st' vs m' Hc' Ha').
    assert (Hargs_lt : forall a, In a (nargs m) -> a < next).
    { intros a Hin. apply old_lt. left. apply in_flat_map. exists m. split; [exact Hm|right; exact Hin]. }
    assert (Hd_lt : ndest m < next).
    { apply old_lt. left. apply in_flat_map. exists m. split; [exact Hm|left; reflexivity]. }
    assert (Hav : argvals nl' vs m' = argvals nl v m).
    { unfold argvals. revert Hargs_lt. clear -Hren Hok. induction Hren as [|a a' l l' Hr _ IH]; intro Hlt; [reflexivity|].
      cbn [map]. f_equal; [|apply IH; intros; apply Hlt; right; assumption].
      destruct (ren_facts a a' (Hlt a (or_introl eq_refl)) Hr) as [Hp Hw]. unfold vs. rewrite Hp, Hw. reflexivity. }
    assert (Hval : net_val nl' st' vs m' = net_val nl st v m).
    { apply net_val_rename; try assumption; [reflexivity|]. rewrite Hd. apply width_old. exact Hd_lt. }
    rewrite Hval, Hd. apply upd_id. unfold vs. rewrite (phi_old _ Hd_lt).
    rewrite <- (Hs m Hm Hc (ndest m)). rewrite (exec_writes nl st v m Hc Ha). apply upd_same.
Qed.

Lemma driven a : In a (flat_map nargs (nets nl')) -> a < next \/ In a (cdests (nets nl')).
Proof.
  destruct Hparts as (_ & _ & _ & _ & Hd & _). intro H. unfold new_reads_driven in Hd.
  rewrite forallb_forall in Hd. specialize (Hd a H). apply orb_true_iff in Hd.
  destruct Hd as [Hd|Hd]; [left; lia|right; apply mem_in_iff; exact Hd].
Qed.

Lemma old_dest_kept w : In w (cdests (nets nl)) -> In w (cdests (nets nl')).
Proof.
  intro H. destruct (cdests_inv _ _ H) as (m & Hm & Hc & <-).
  destruct (proj2 (rw_nets_shape (nets nl) tab0) m Hm) as (m' & Hm' & Ho & Hd).
  rewrite <- Hd. apply cdests_in; [rewrite nets_nl'; exact Hm'|rewrite Ho; exact Hc].
Qed.

Lemma cargs_sub ns a : In a (cargs ns) -> In a (flat_map nargs ns).
Proof.
  unfold cargs. intro H. apply in_flat_map in H. destruct H as (n & Hn & Ha). apply filter_In in Hn.
  apply in_flat_map. exists n. split; [apply Hn|exact Ha].
Qed.

Theorem fanout_comb_agree :
  (forall w, w < next -> v w = v' w)
  /\ (forall a, In a (flat_map nargs (nets nl')) -> v' a = v (phi tab0 a)).
Proof.
  destruct fv_stable as [_ Hfr]. destruct fv'_stable as [Hs' Hfr']. destruct Hparts as (_ & _ & Hseq' & _).
  assert (Hold : forall w, w < next -> ~ In w (cdests (nets nl')) -> vs w = v' w).
  { intros w Hw Hnd. unfold vs. rewrite (phi_old w Hw), (Hfr' w Hnd), (base_old dflt st st' ins w Hst Hw).
    apply Hfr. intro Hx. apply Hnd. apply old_dest_kept. exact Hx. }
  assert (Hd : forall w, In w (cdests (nets nl')) -> vs w = v' w).
  { apply (stable_unique nl' st' (nets nl') vs v' Hseq' vs_stable Hs').
    intros w Hnd Harg. destruct (driven w (cargs_sub _ _ Harg)) as [Hlt|Hin]; [|contradiction].
    apply Hold; assumption. }
  assert (Hall : forall w, w < next \/ In w (cdests (nets nl')) -> vs w = v' w).
  { intros w [Hlt|Hin]; [|apply Hd; exact Hin].
    destruct (in_dec Z.eq_dec w (cdests (nets nl'))) as [Hin|Hnin]; [apply Hd; exact Hin|apply Hold; assumption]. }
  split.
  - intros w Hw. rewrite <- (Hall w (or_introl Hw)). unfold vs. rewrite (phi_old w Hw). reflexivity.
  - intros a Ha. symmetry. apply (Hall a). apply driven. exact Ha.
Qed.
End Cycle.

(* ---------- registers and memories ---------- *)
Lemma tnets_comb m : In m (tnets tab0) -> is_comb (nop m) = true.
Proof.
  intro H. unfold tnets in H. apply in_flat_map in H. destruct H as (e & He & Hm).
  destruct (tab_facts e He) as (_ & Hn & _). destruct (Hn m Hm) as (Hw & _). rewrite Hw. reflexivity.
Qed.

Lemma noncomb_arity_of n : In n (nets nl) -> is_comb (nop n) = false -> arity_ok (nop n) (length (nargs n)) = true.
Proof.
  destruct Hparts as (_ & _ & _ & _ & _ & H). intros Hn Hc. unfold noncomb_arity in H.
  rewrite forallb_forall in H. specialize (H n Hn). rewrite Hc in H. exact H.
Qed.

Section Folds.
Variables v v' : wid -> Z.
Hypothesis HB : forall a, In a (flat_map nargs (nets nl')) -> v' a = v (phi tab0 a).

Lemma ren_val n a a' m' : In n (nets nl) -> In a (nargs n) -> ren tab0 a a' ->
  In m' (nets nl') -> In a' (nargs m') -> v' a' = v a.
Proof.
  intros Hn Ha Hr Hm' Ha'. rewrite (HB a') by (apply in_flat_map; exists m'; split; assumption).
  assert (Hlt : a < next) by (apply old_lt; left; apply in_flat_map; exists n; split; [exact Hn|right; exact Ha]).
  destruct (ren_facts a a' Hlt Hr) as [Hp _]. rewrite Hp. reflexivity.
Qed.

Lemma regs_fanout : forall ns tab,
  incl (tnets tab) (tnets tab0) -> incl (tleaves tab) (tleaves tab0) ->
  (forall n, In n ns -> In n (nets nl)) -> (forall m', In m' (rw_nets ns tab) -> In m' (nets nl')) ->
  forall rg rg', (forall r, rg r = rg' r) ->
  forall r, fold_left (regnext_spec nl v) ns rg r = fold_left (regnext_spec nl' v') (rw_nets ns tab) rg' r.
Proof.
  induction ns as [|n rest IH]; intros tab Ht Hl Hsub Hout rg rg' Hrg r; [apply Hrg|].
  cbn [rw_nets] in *. destruct (rw_args (nargs n) tab) as [[args' em] tab'] eqn:E.
  destruct (rw_args_shape _ _ _ _ _ E) as (A1 & A2 & A3 & A4).
  rewrite fold_left_app. cbn [fold_left].
  rewrite (fold_regnext_comb nl' v' em) by (apply Forall_forall; intros x Hx; apply tnets_comb; apply Ht; apply A2; exact Hx).
  apply IH.
  - eapply incl_tran; eassumption.
  - eapply incl_tran; eassumption.
  - intros; apply Hsub; right; assumption.
  - intros m' Hm'. apply Hout. apply in_or_app. right. right. exact Hm'.
  - intro r1. unfold regnext_spec. cbn [nop ndest].
    destruct (nop n) eqn:Eo; try apply Hrg.
    pose proof (Hsub n (or_introl eq_refl)) as Hn.
    assert (Hc : is_comb (nop n) = false) by (rewrite Eo; reflexivity).
    pose proof (noncomb_arity_of n Hn Hc) as Ha. rewrite Eo in Ha. cbn in Ha.
    destruct (nargs n) as [|a [|? ?]] eqn:En; try discriminate.
    inversion A1 as [|? a' ? l' Hr Hnil]; subst. inversion Hnil; subst.
    assert (Hm' : In (mkNet OpReg [a'] (ndest n)) (nets nl')).
    { apply Hout. apply in_or_app. right. left. reflexivity. }
    unfold arg. cbn [nargs nth]. rewrite En. cbn [nth].
    rewrite (ren_val n a a' _ Hn ltac:(rewrite En; left; reflexivity) (ren_mono _ _ _ _ Hl Hr) Hm' ltac:(left; reflexivity)).
    rewrite (width_old (ndest n)) by (apply old_lt; left; apply in_flat_map; exists n; split; [exact Hn|left; reflexivity]).
    unfold upd. destruct (r1 =? ndest n); [reflexivity|apply Hrg].
Qed.

Lemma mems_fanout : forall ns tab,
  incl (tnets tab) (tnets tab0) -> incl (tleaves tab) (tleaves tab0) ->
  (forall n, In n ns -> In n (nets nl)) -> (forall m', In m' (rw_nets ns tab) -> In m' (nets nl')) ->
  forall ms ms', (forall m a, ms m a = ms' m a) ->
  forall m a, fold_left (write_spec v) ns ms m a = fold_left (write_spec v') (rw_nets ns tab) ms' m a.
Proof.
  induction ns as [|n rest IH]; intros tab Ht Hl Hsub Hout ms ms' Hms m a; [apply Hms|].
  cbn [rw_nets] in *. destruct (rw_args (nargs n) tab) as [[args' em] tab'] eqn:E.
  destruct (rw_args_shape _ _ _ _ _ E) as (A1 & A2 & A3 & A4).
  rewrite fold_left_app. cbn [fold_left].
  rewrite (fold_write_comb v' em) by (apply Forall_forall; intros x Hx; apply tnets_comb; apply Ht; apply A2; exact Hx).
  apply IH.
  - eapply incl_tran; eassumption.
  - eapply incl_tran; eassumption.
  - intros; apply Hsub; right; assumption.
  - intros m' Hm'. apply Hout. apply in_or_app. right. right. exact Hm'.
  - intros m1 a1. unfold write_spec. cbn [nop].
    destruct (nop n) eqn:Eo; try apply Hms.
    pose proof (Hsub n (or_introl eq_refl)) as Hn.
    assert (Hc : is_comb (nop n) = false) by (rewrite Eo; reflexivity).
    pose proof (noncomb_arity_of n Hn Hc) as Ha. rewrite Eo in Ha. cbn in Ha.
    destruct (nargs n) as [|x0 [|x1 [|x2 [|? ?]]]] eqn:En; try discriminate.
    inversion A1 as [|? y0 ? l0 R0 T0]; subst. inversion T0 as [|? y1 ? l1 R1 T1]; subst.
    inversion T1 as [|? y2 ? l2 R2 T2]; subst. inversion T2; subst.
    assert (Hm' : In (mkNet (OpMemWr m0) [y0; y1; y2] (ndest n)) (nets nl')).
    { apply Hout. apply in_or_app. right. left. reflexivity. }
    unfold arg. cbn [nargs nth]. rewrite En. cbn [nth].
    rewrite (ren_val n x0 y0 _ Hn ltac:(rewrite En; cbn; auto) (ren_mono _ _ _ _ Hl R0) Hm' ltac:(cbn; auto)).
    rewrite (ren_val n x1 y1 _ Hn ltac:(rewrite En; cbn; auto) (ren_mono _ _ _ _ Hl R1) Hm' ltac:(cbn; auto)).
    rewrite (ren_val n x2 y2 _ Hn ltac:(rewrite En; cbn; auto) (ren_mono _ _ _ _ Hl R2) Hm' ltac:(cbn; auto)).
    destruct (v x2 =? 0); [apply Hms|].
    unfold upd. destruct (m1 =? m0); [|apply Hms]. destruct (a1 =? v x0); [reflexivity|apply Hms].
Qed.
End Folds.

(* every value visible at the start of a cycle is in range (legal inputs, registers, constants) *)
Definition legal_cycle (dflt : Z) (st : state) (ins : wid -> Z) : Prop :=
  forall x, In x (wires nl) ->
    base_val nl dflt st ins (wname x) mod 2 ^ width_of nl (wname x) = base_val nl dflt st ins (wname x).

Lemma root_declared e : In e tab0 -> exists x, In x (wires nl) /\ wname x = te_wire e.
Proof.
  unfold tab0. generalize next. induction (wires nl) as [|x r IH]; intros nx H; cbn [build_tab] in H; [destruct H|].
  destruct (is_output_kind (wkind x) || (count_args (wname x) (nets nl) <=? 1)%nat).
  - destruct (IH nx H) as (y & Hy & E). exists y. split; [right; exact Hy|exact E].
  - destruct (make_tree (count_args (wname x) (nets nl)) (wname x) (count_args (wname x) (nets nl)) nx) as [[tn lv] nx'].
    cbn [fst] in H. destruct H as [<-|H].
    + exists x. split; [left; reflexivity|reflexivity].
    + destruct (IH nx' H) as (y & Hy & E). exists y. split; [right; exact Hy|exact E].
Qed.

Lemma fanout_step_sound dflt st st' ins : st_eq st st' -> legal_cycle dflt st ins ->
  (forall w, w < next -> fst (step nl dflt st ins) w = fst (step nl' dflt st' ins) w)
  /\ st_eq (snd (step nl dflt st ins)) (snd (step nl' dflt st' ins)).
Proof.
  intros Hst Hleg. unfold step. cbn [fst snd].
  assert (Hroots : forall e, In e tab0 -> ~ In (te_wire e) (cdests (nets nl)) ->
            base_val nl dflt st ins (te_wire e) mod 2 ^ width_of nl (te_wire e) = base_val nl dflt st ins (te_wire e)).
  { intros e He _. destruct (root_declared e He) as (x & Hx & <-). apply Hleg. exact Hx. }
  destruct (fanout_comb_agree dflt st st' ins Hst Hroots) as [HA HB].
  split; [exact HA|]. destruct Hst as [Hr Hm]. split; cbn [sregs smems].
  - intro r. rewrite nets_nl'. apply (regs_fanout _ _ HB); try apply incl_refl; auto.
  - intros m a. rewrite nets_nl'. apply (mems_fanout _ _ HB); try apply incl_refl; auto.
Qed.

Fixpoint legal_run (dflt : Z) (st : state) (inss : list (wid -> Z)) : Prop :=
  match inss with
  | [] => True
  | ins :: rest => legal_cycle dflt st ins /\ legal_run dflt (snd (step nl dflt st ins)) rest
  end.

Theorem fanout_run_sound dflt inss : forall st st', st_eq st st' -> legal_run dflt st inss ->
  Forall2 (fun v v' => forall w, w < next -> v w = v' w)
          (fst (run nl dflt st inss)) (fst (run nl' dflt st' inss))
  /\ st_eq (snd (run nl dflt st inss)) (snd (run nl' dflt st' inss)).
Proof.
  induction inss as [|ins rest IH]; intros st st' Hst Hleg.
  - cbn. split; [constructor|exact Hst].
  - cbn [run]. destruct Hleg as [Hl1 Hl2]. destruct (fanout_step_sound dflt st st' ins Hst Hl1) as [Hv Hs].
    destruct (step nl dflt st ins) as [v s1]. destruct (step nl' dflt st' ins) as [v' s1'].
    cbn [fst snd] in Hv, Hs, Hl2. specialize (IH s1 s1' Hs Hl2).
    destruct (run nl dflt s1 rest) as [vs0 s2]. destruct (run nl' dflt s1' rest) as [vs' s2'].
    cbn [fst snd] in *. destruct IH as [IH1 IH2]. split; [constructor; assumption|assumption].
Qed.
End FanoutPass.

(* the statement for the pass itself: hypothesis = the decidable check + legal values *)
Theorem two_way_fanout_preserves nl : fanout_okb (fresh nl) nl = true ->
  forall dflt st inss, legal_run nl dflt st inss ->
    Forall2 (same_on_wires nl) (fst (run nl dflt st inss)) (fst (run (two_way_fanout nl) dflt st inss))
    /\ st_eq (snd (run nl dflt st inss)) (snd (run (two_way_fanout nl) dflt st inss)).
Proof.
  intros Hok dflt st inss Hleg. unfold two_way_fanout.
  destruct (fanout_run_sound nl (fresh nl) Hok dflt inss st st (st_eq_refl st) Hleg) as [A B].
  split; [|exact B]. eapply Forall2_impl; [|exact A].
  intros v v' Hv x Hx. apply Hv. apply fresh_wire. exact Hx.
Qed.

(* ---------- legal_run from legal constants / default, inputs and initial registers ---------- *)
Definition reduced (nl : netlist) (w : wid) (z : Z) : Prop := z mod 2 ^ width_of nl w = z.

Definition legal_static (nl : netlist) (dflt : Z) : Prop :=
  forall x, In x (wires nl) ->
    match wkind x with
    | KConst c => reduced nl (wname x) c
    | KInput | KReg _ => True
    | _ => reduced nl (wname x) dflt
    end.
Definition legal_ins (nl : netlist) (ins : wid -> Z) : Prop :=
  forall x, In x (wires nl) -> wkind x = KInput -> reduced nl (wname x) (ins (wname x)).
Definition legal_regs (nl : netlist) (rg : wid -> Z) : Prop :=
  forall x, In x (wires nl) -> reduced nl (wname x) (rg (wname x)).

Lemma find_wire_of_in ws x : In x ws -> exists y, find_wire ws (wname x) = Some y.
Proof.
  induction ws as [|z r IH]; intro H; [destruct H|]. cbn [find_wire].
  destruct (wname z =? wname x) eqn:E; [eexists; reflexivity|].
  destruct H as [->|H]; [lia|apply IH; exact H].
Qed.

Lemma legal_cycle_of nl dflt st ins :
  legal_static nl dflt -> legal_ins nl ins -> legal_regs nl (sregs st) -> legal_cycle nl dflt st ins.
Proof.
  intros Hs Hi Hr x Hx. unfold base_val.
  destruct (find_wire_of_in _ x Hx) as [y Hy]. rewrite Hy.
  destruct (find_wire_in _ _ _ Hy) as [Hyin Hyn].
  specialize (Hs y Hyin). specialize (Hi y Hyin). specialize (Hr y Hyin). rewrite Hyn in *.
  unfold reduced in *. destruct (wkind y); auto.
Qed.

Lemma regnext_reduced nl v : forall ns rg w,
  fold_left (regnext_spec nl v) ns rg w = rg w
  \/ reduced nl w (fold_left (regnext_spec nl v) ns rg w).
Proof.
  induction ns as [|n r IH]; intros rg w; [left; reflexivity|]. cbn [fold_left].
  destruct (IH (regnext_spec nl v rg n) w) as [H|H]; [|right; exact H].
  rewrite H. unfold regnext_spec. destruct (nop n); try (left; reflexivity).
  unfold upd. destruct (w =? ndest n) eqn:E; [|left; reflexivity].
  right. unfold reduced. replace w with (ndest n) by lia. apply Zmod_mod.
Qed.

Theorem legal_run_of nl dflt : legal_static nl dflt ->
  forall inss st, Forall (legal_ins nl) inss -> legal_regs nl (sregs st) -> legal_run nl dflt st inss.
Proof.
  intro Hs. induction inss as [|ins rest IH]; intros st Hi Hr; [exact I|].
  inversion Hi as [|? ? Hi1 Hi2]; subst. cbn [legal_run]. split; [apply legal_cycle_of; assumption|].
  apply IH; [exact Hi2|]. unfold step. cbn [snd sregs]. intros x Hx.
  destruct (regnext_reduced nl (comb nl st (base_val nl dflt st ins)) (nets nl) (sregs st) (wname x)) as [H|H];
    [rewrite H; apply Hr; exact Hx|exact H].
Qed.

(* the fan-out bound for blocks accepted by the sanity_check model *)
Theorem two_way_fanout_post_sane nl : Netlist.Sanity.sanity_block nl = true ->
  post_two_way_fanout (two_way_fanout nl) = true.
Proof.
  intro H. apply two_way_fanout_post. apply nodupb_NoDup.
  unfold Netlist.Sanity.sanity_block in H. repeat (apply andb_true_iff in H; destruct H as [H ?]). assumption.
Qed.
