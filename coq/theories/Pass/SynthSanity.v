(* The preconditions of the C03 theorems are what PyRTL itself checks first:
   synthesize() starts with block_pre.sanity_check(), and Gen/SanityNet.v is the
   `if ...: raise` list of Block.sanity_check_net REGENERATED from pyrtl/core.py
   (py/genfrag_C10.py).  If none of its 38 raises fires on a net -- and bitwidths are
   >= 1, which the WireVector constructor enforces --, the net satisfies
   Synth.net_synth_ok and WFDefs.arity_ok, the hand-written premises of the
   lowering and simulation theorems. *)
From Coq Require Import ZArith List Bool Lia ZifyBool.
From PyRTL Require Import Base.PyZ Netlist.Sem Netlist.WFDefs Netlist.Sanity Gen.SanityNet
  Pass.BasicGates Pass.Synth Pass.SynthProofs Pass.SynthSanityDefs.
Import ListNotations.
Open Scope Z_scope.

Lemma first_err_none {A} (f : A -> option Z) l : first_err f l = None -> forall x, In x l -> f x = None.
Proof.
  induction l as [|y r IH]; intros H x Hx; [contradiction|].
  unfold first_err in H. cbn [fold_right] in H. fold (first_err f r) in H.
  destruct (f y) eqn:E; [discriminate H|]. cbn [orelse] in H.
  destruct Hx as [<-|Hx]; [assumption|auto].
Qed.

Lemma declared_pos nl a : widths_posb nl = true -> declared nl a = true -> 1 <= width_of nl a.
Proof.
  intros Hp Hd. unfold declared in Hd. unfold width_of.
  destruct (find_wire (wires nl) a) as [x|] eqn:E; [|discriminate].
  apply find_wire_In in E. destruct E as [Hx _]. unfold widths_posb in Hp.
  rewrite forallb_forall in Hp. specialize (Hp x Hx). lia.
Qed.

Lemma sum_widths nl l :
  fold_right Z.add 0 (map ws_width (map (wshape_of nl) l)) = fold_right (fun a s => width_of nl a + s) 0 l.
Proof. induction l as [|a r IH]; cbn [map fold_right ws_width wshape_of]; [reflexivity|]. rewrite IH. reflexivity. Qed.

Ltac peel H :=
  repeat (match type of H with
          | (if ?c then Some _ else _) = None =>
              let G := fresh "G" in destruct c eqn:G; [discriminate H|]
          | orelse ?a ?b = None =>
              let O := fresh "O" in destruct a eqn:O; [discriminate H|cbn [orelse] in H]
          end).

Ltac norm :=
  cbn [op_in existsb Z.eqb Pos.eqb orb andb negb legal_ops ws_nth nth map wshape_of ws_width
       p_len p_elems p_is_none p_is_tuple p_mem_aw p_mem_dw length] in *.

Ltac peel_all :=
  repeat match goal with
         | Hx : (if _ then _ else _) = None |- _ =>
             progress (cbn [Z.eqb Pos.eqb op_in existsb orb andb negb] in Hx; peel Hx)
         | Hx : None = None |- _ => clear Hx
         end.

Lemma special_case nl n : widths_posb nl = true ->
  (nop n = OpMux \/ nop n = OpConcat \/ exists idx, nop n = OpSelect idx) ->
  check (shape_of nl n) = None ->
  net_synth_ok nl n = true /\ arity_ok (nop n) (length (nargs n)) = true.
Proof.
  intros Hp Hop H. unfold check, shape_of in H.
  assert (Hdecl : first_err (fun v_w => if negb (ws_inblock v_w) then Some 4
                                        else if negb (ws_inset v_w) then Some 5 else None)
                    (map (wshape_of nl) (nargs n)
                     ++ (if has_dest (nop n) then [wshape_of nl (ndest n)] else [])) = None
                  -> forall a, In a (nargs n) -> 1 <= width_of nl a).
  { intros O a Ha. pose proof (first_err_none _ _ O (wshape_of nl a)) as E.
    specialize (E ltac:(apply in_or_app; left; apply in_map; assumption)).
    cbn [wshape_of ws_inblock ws_inset] in E. apply declared_pos; [assumption|].
    destruct (declared nl a); [reflexivity|discriminate E]. }
  unfold net_synth_ok, arg.
  destruct Hop as [Eop|[Eop|[idx Eop]]]; rewrite Eop in *;
    cbn [op_code sh_op sh_args sh_dests sh_param pshape_of has_dest] in H;
    peel H; peel_all; rewrite ?map_length in *.
  - (* mux *)
    destruct (nargs n) as [|a0 [|a1 [|a2 [|a3 rest]]]] eqn:Ea; norm; try lia.
    cbn [arity_ok length Nat.eqb]. split; [|reflexivity]. lia.
  - (* concat *)
    norm. rewrite sum_widths in *. cbn [arity_ok]. split; [lia|reflexivity].
  - (* select *)
    destruct (nargs n) as [|a0 [|a1 rest]] eqn:Ea; norm; try lia.
    cbn [arity_ok length Nat.eqb]. split; [|reflexivity].
    apply andb_true_iff. split; [lia|].
    apply forallb_forall. intros k Hk.
    match goal with Hf : first_err _ idx = None |- _ => pose proof (first_err_none _ _ Hf k Hk) as Ek end.
    cbn beta in Ek. peel Ek. lia.
Qed.

Theorem sanity_net_synth_ok nl n : widths_posb nl = true ->
  check (shape_of nl n) = None ->
  net_synth_ok nl n = true /\ arity_ok (nop n) (length (nargs n)) = true.
Proof.
  intros Hp H.
  destruct (nop n) eqn:Eop0;
    try (rewrite <- Eop0; apply special_case; [assumption|rewrite Eop0; solve [eauto]|assumption]).
  all: rewrite <- Eop0; unfold check, shape_of in H;
    assert (Hdecl : first_err (fun v_w => if negb (ws_inblock v_w) then Some 4
                                          else if negb (ws_inset v_w) then Some 5 else None)
                      (map (wshape_of nl) (nargs n)
                       ++ (if has_dest (nop n) then [wshape_of nl (ndest n)] else [])) = None
                    -> forall a, In a (nargs n) -> 1 <= width_of nl a)
      by (intros O a Ha; pose proof (first_err_none _ _ O (wshape_of nl a)) as E;
          specialize (E ltac:(apply in_or_app; left; apply in_map; assumption));
          cbn [wshape_of ws_inblock ws_inset] in E; apply declared_pos; [assumption|];
          destruct (declared nl a); [reflexivity|discriminate E]);
    unfold net_synth_ok, arg; rewrite Eop0 in *;
    cbn [op_code sh_op sh_args sh_dests sh_param pshape_of has_dest] in H;
    peel H; rewrite ?map_length in *; norm;
    (first [ assert (Hlen : length (nargs n) = 1%nat) by lia
           | assert (Hlen : length (nargs n) = 2%nat) by lia
           | assert (Hlen : length (nargs n) = 3%nat) by lia ]);
    destruct (nargs n) as [|a0 [|a1 [|a2 [|a3 rest]]]] eqn:Ea; cbn [length] in Hlen; try discriminate Hlen;
    norm;
    pose proof (Hdecl O a0 ltac:(left; reflexivity)) as P0;
    try (pose proof (Hdecl O a1 ltac:(right; left; reflexivity)) as P1);
    cbn [arity_ok length Nat.eqb]; (split; [|reflexivity]); lia.
Qed.

(* every net of a netlist on which no raise fires *)
Theorem sanity_implies_synth_ok nl : widths_posb nl = true -> sanity_nets_okb nl = true ->
  synth_okb nl = true /\ (forall n, In n (nets nl) -> arity_ok (nop n) (length (nargs n)) = true).
Proof.
  intros Hp Hs. unfold sanity_nets_okb in Hs. rewrite forallb_forall in Hs. split.
  - unfold synth_okb. apply forallb_forall. intros n Hn. specialize (Hs n Hn).
    destruct (check (shape_of nl n)) eqn:E; [discriminate|]. apply (sanity_net_synth_ok nl n Hp E).
  - intros n Hn. specialize (Hs n Hn).
    destruct (check (shape_of nl n)) eqn:E; [discriminate|]. apply (sanity_net_synth_ok nl n Hp E).
Qed.

(* ---- the C03 theorems with PyRTL's own check as the premise ---- *)

Theorem simulation_sanity_checked nl regmap memmap inss :
  wfb nl = true -> widths_posb nl = true -> sanity_nets_okb nl = true ->
  legal_init nl regmap -> Forall (legal_ins nl) inss ->
  Forall2 (wires_repr nl)
    (fst (run nl 0 (init_state nl 0 regmap memmap) inss))
    (fst (grun nl (ginit nl regmap memmap) inss)).
Proof.
  intros Hwf Hp Hs. apply synth_simulation; [assumption|]. apply (sanity_implies_synth_ok nl Hp Hs).
Qed.
