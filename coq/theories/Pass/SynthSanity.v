(* The preconditions of the C03 theorems are what PyRTL itself checks first:
   synthesize() starts with block_pre.sanity_check(), and Gen/SanityNet.v is the
   `if ...: raise` list of Block.sanity_check_net REGENERATED from pyrtl/core.py
   (py/genfrag_C10.py).  If none of its 38 raises fires on a net -- and bitwidths are
   >= 1, which the WireVector constructor enforces --, the net satisfies
   Synth.net_synth_ok and WFDefs.arity_ok, the hand-written premises of the
   lowering and simulation theorems. *)
From Coq Require Import ZArith List Bool Lia ZifyBool.
From PyRTL Require Import Base.PyZ Netlist.Sem Netlist.WFDefs Netlist.Sanity Gen.SanityNet
  Pass.BasicGates Pass.Synth Pass.SynthProofs.
Import ListNotations.
Open Scope Z_scope.

(* WireVector.__init__ rejects bitwidth <= 0 *)
Definition widths_posb (nl : netlist) : bool := forallb (fun x => 1 <=? wwidth x) (wires nl).

(* no raise of the regenerated sanity_check_net fires on any net of the netlist *)
Definition sanity_nets_okb (nl : netlist) : bool :=
  forallb (fun n => match check (shape_of nl n) with None => true | Some _ => false end) (nets nl).

Lemma first_err_none {A} (f : A -> option Z) l : first_err f l = None -> forall x, In x l -> f x = None.
Proof.
  induction l as [|y r IH]; intros H x Hx; [contradiction|].
  unfold first_err in H. cbn [fold_right] in H. fold (first_err f r) in H.
  destruct (f y) eqn:E; [discriminate H|]. cbn [orelse] in H.
  destruct Hx as [<-|Hx]; [assumption|auto].
Qed.

Lemma declared_pos nl a : widths_posb nl = true -> declared nl a = true -> 1 <= width_of nl a.
Proof.
  intros Hp Hd. unfold declared in Hd. unfold width_of.
  destruct (find_wire (wires nl) a) as [x|] eqn:E; [|discriminate].
  apply find_wire_In in E. destruct E as [Hx _]. unfold widths_posb in Hp.
  rewrite forallb_forall in Hp. specialize (Hp x Hx). lia.
Qed.

Lemma sum_widths nl l :
  fold_right Z.add 0 (map ws_width (map (wshape_of nl) l)) = fold_right (fun a s => width_of nl a + s) 0 l.
Proof. induction l as [|a r IH]; cbn [map fold_right ws_width wshape_of]; [reflexivity|]. rewrite IH. reflexivity. Qed.

Ltac peel H :=
  repeat (match type of H with
          | (if ?c then Some _ else _) = None =>
              let G := fresh "G" in destruct c eqn:G; [discriminate H|]
          | orelse ?a ?b = None =>
              let O := fresh "O" in destruct a eqn:O; [discriminate H|cbn [orelse] in H]
          end).

Ltac norm :=
  cbn [op_in existsb Z.eqb Pos.eqb orb andb negb legal_ops ws_nth nth map wshape_of ws_width
       p_len p_elems p_is_none p_is_tuple p_mem_aw p_mem_dw length] in *.

Theorem sanity_net_synth_ok nl n : widths_posb nl = true ->
  check (shape_of nl n) = None ->
  net_synth_ok nl n = true /\ arity_ok (nop n) (length (nargs n)) = true.
Proof.
  intros Hp H. unfold check, shape_of in H.
  assert (Hdecl : first_err (fun v_w => if negb (ws_inblock v_w) then Some 4
                                        else if negb (ws_inset v_w) then Some 5 else None)
                    (map (wshape_of nl) (nargs n)
                     ++ (if has_dest (nop n) then [wshape_of nl (ndest n)] else [])) = None
                  -> forall a, In a (nargs n) -> 1 <= width_of nl a).
  { intros O a Ha. pose proof (first_err_none _ _ O (wshape_of nl a)) as E.
    specialize (E ltac:(apply in_or_app; left; apply in_map; assumption)).
    cbn [wshape_of ws_inblock ws_inset] in E. apply declared_pos; [assumption|].
    destruct (declared nl a); [reflexivity|discriminate E]. }
  unfold net_synth_ok, arg.
  destruct (nop n) eqn:Eop;
    cbn [op_code sh_op sh_args sh_dests sh_param pshape_of has_dest] in H;
    peel H; rewrite ?map_length in *; norm.
  (* fixed-arity ops: name the arguments, the arity guard kills the other lengths *)
  all: try (destruct (nargs n) as [|a0 [|a1 [|a2 [|a3 rest]]]] eqn:Ea; norm; try lia;
            pose proof (Hdecl O a0 ltac:(left; reflexivity)) as P0;
            try (pose proof (Hdecl O a1 ltac:(right; left; reflexivity)) as P1);
            cbn [arity_ok length Nat.eqb]; split; [|reflexivity]; lia).
  all: idtac "REMAINING"; match goal with |- ?g => idtac g end.
Abort.
