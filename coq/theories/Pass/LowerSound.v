(* C09 -- the rule lemmas: each rewrite rule of the model is locally sound
   ([rule_ok]) for ALL widths and values. *)
From PyRTL Require Import Pass.Lower Pass.RewriteSound Pass.GateSound.
From PyRTL Require Import Gen.LowerRules.
From Coq Require Import ZifyBool.

(* ---------- select_spec, bitwise ---------- *)
Lemma select_spec_bits x idx : forall j, 0 <= j ->
  Z.testbit (select_spec x idx) j
  = if j <? Z.of_nat (length idx) then Z.testbit x (nth (Z.to_nat j) idx 0) else false.
Proof.
  induction idx as [|i r IH]; intros j Hj.
  - cbn [select_spec fold_right length]. rewrite Z.bits_0. destruct (j <? Z.of_nat 0) eqn:E; [lia|reflexivity].
  - cbn [select_spec fold_right length].
    change (fold_right (fun i0 acc => b2z (Z.testbit x i0) + 2 * acc) 0 r) with (select_spec x r).
    replace (b2z (Z.testbit x i) + 2 * select_spec x r)
      with (2 * select_spec x r + Z.b2z (Z.testbit x i)) by (unfold b2z, Z.b2z; lia).
    destruct (Z.eq_dec j 0) as [->|Hne].
    + rewrite Z.testbit_0_r. cbn. reflexivity.
    + replace j with (Z.succ (j - 1)) at 1 by lia. rewrite Z.testbit_succ_r by lia.
      rewrite IH by lia.
      replace (Z.to_nat j) with (S (Z.to_nat (j - 1))) by lia. cbn [nth].
      destruct (j - 1 <? Z.of_nat (length r)) eqn:E1; destruct (j <? Z.of_nat (S (length r))) eqn:E2;
        try reflexivity; lia.
Qed.

Lemma nth_zrange s k i : (i < k)%nat -> nth i (zrange s k) 0 = s + Z.of_nat i.
Proof.
  revert s i. induction k as [|k IH]; intros s i Hi; [lia|].
  cbn [zrange]. destruct i as [|i]; cbn [nth]; [lia|]. rewrite IH by lia. lia.
Qed.

Lemma select_low_mod x k w : 0 <= w <= Z.of_nat k ->
  select_spec x (zrange 0 k) mod 2 ^ w = x mod 2 ^ w.
Proof.
  intro Hw. apply mod_bits_eq; [lia|]. intros i Hi.
  rewrite select_spec_bits by lia. rewrite zrange_length.
  destruct (i <? Z.of_nat k) eqn:E; [|lia].
  rewrite nth_zrange by lia. f_equal. lia.
Qed.

(* ---------- `dest <<= src` ---------- *)
Lemma in_tmp_wires next k w i : (i < k)%nat -> In (mkWire (next + Z.of_nat i) w KWire) (tmp_wires next k w).
Proof.
  intro Hi. unfold tmp_wires. apply in_map_iff. exists (next + Z.of_nat i). split; [reflexivity|].
  apply zrange_in. lia.
Qed.

Lemma tmp_wires_names next k w : map wname (tmp_wires next k w) = zrange next k.
Proof. unfold tmp_wires. rewrite map_map. cbn. apply map_id. Qed.

Lemma tmp_wires_length next k w : length (tmp_wires next k w) = k.
Proof. unfold tmp_wires. rewrite map_length. apply zrange_length. Qed.

Lemma assign_names nl next src srcw d :
  map wname (snd (assign nl next src srcw d)) = zrange next (length (snd (assign nl next src srcw d))).
Proof. unfold assign. destruct (width_of nl d <? srcw); reflexivity. Qed.

Lemma assign_comb nl next src srcw d :
  Forall (fun m => is_comb (nop m) = true) (fst (assign nl next src srcw d)).
Proof. unfold assign. destruct (width_of nl d <? srcw); repeat constructor. Qed.

Lemma assign_sem B nl nl' st next src srcw d u :
  extends B nl nl' -> declares nl' (snd (assign nl next src srcw d)) ->
  B <= next -> d < B -> 0 <= width_of nl d ->
  forall z, z < next ->
    fold_left (exec_spec nl' st) (fst (assign nl next src srcw d)) u z
    = upd u d (u src mod 2 ^ width_of nl d) z.
Proof.
  intros [_ Hw] Hdecl Hnext Hd Hwd z Hz. unfold assign in *.
  destruct (width_of nl d <? srcw) eqn:E; cbn [fst snd fold_left] in *.
  - assert (Hwn : width_of nl' next = width_of nl d).
    { apply (Hdecl (mkWire next (width_of nl d) KWire)). left. reflexivity. }
    unfold exec_spec at 2. cbn [nop nargs ndest argvals map op_spec].
    unfold exec_spec. cbn [nop nargs ndest argvals map op_spec].
    rewrite upd_same, Hwn, (Hw d Hd).
    unfold upd. destruct (z =? d) eqn:Ezd.
    + rewrite Z.mod_mod by (pose proof (pow2_pos _ Hwd); lia).
      apply select_low_mod. lia.
    + destruct (z =? next) eqn:Ezn; [lia|reflexivity].
  - unfold exec_spec. cbn [nop nargs ndest argvals map op_spec]. rewrite (Hw d Hd). reflexivity.
Qed.

(* ---------- gate-basis rules ---------- *)
Definition op_of_code (c : Z) : option op :=
  if c =? 38 then Some OpAnd else if c =? 124 then Some OpOr
  else if c =? 94 then Some OpXor else if c =? 110 then Some OpNand else None.

(* every table entry: rewrites a 2-input gate, is well-shaped, and has the
   truth table of the op it replaces (a decidable check on Gen/LowerRules.v) *)
Definition rules_ok (rules : list (Z * grule)) : bool :=
  forallb (fun cr => match op_of_code (fst cr) with
                     | Some o => grule_ok (snd cr) && tt_agrees (snd cr) o
                     | None => false
                     end) rules.

(* what sanity_check_net guarantees of a 2-input gate net *)
Definition gate_net_ok (nl : netlist) (n : net) : Prop :=
  match nop n with
  | OpAnd | OpOr | OpXor | OpNand =>
      exists a b, nargs n = [a; b] /\ width_of nl a = width_of nl b
                  /\ 0 <= width_of nl (ndest n) <= width_of nl a
  | _ => True
  end.

Lemma find_rule_in c rules r : find_rule c rules = Some r -> In (c, r) rules.
Proof.
  induction rules as [|[c' r'] rest IH]; cbn; [discriminate|].
  destruct (c' =? c) eqn:E.
  - intro H. injection H as ->. left. f_equal. lia.
  - intro H. right. apply IH. exact H.
Qed.

Lemma rules_ok_find rules o r : rules_ok rules = true ->
  find_rule (op_code o) rules = Some r ->
  match o with OpAnd | OpOr | OpXor | OpNand => True | _ => False end
  /\ grule_ok r = true /\ tt_agrees r o = true.
Proof.
  intros Hok Hf. apply find_rule_in in Hf. unfold rules_ok in Hok.
  rewrite forallb_forall in Hok. specialize (Hok _ Hf). cbn [fst snd] in Hok.
  destruct o; cbn in Hok; try discriminate; apply andb_true_iff in Hok; intuition.
Qed.

Lemma lower_prog_comb n next : forall p i, gprog_ok i p = true ->
  Forall (fun m => is_comb (nop m) = true) (lower_prog n next i p).
Proof.
  induction p as [|[o opds] r IH]; intros i H; cbn [lower_prog]; [constructor|].
  cbn [gprog_ok] in H. apply andb_true_iff in H. destruct H as [Hg Hr].
  constructor; [|apply IH; exact Hr].
  cbn [nop]. unfold gins_ok in Hg. destruct o; try discriminate; reflexivity.
Qed.

Lemma lower_prog_length n next : forall p i, length (lower_prog n next i p) = length p.
Proof. induction p as [|[o opds] r IH]; intro i; cbn; auto. Qed.

Theorem gate_rule_ok keep rules nl B :
  rules_ok rules = true -> rule_ok (gate_net_ok nl) (gate_rule keep rules) nl B.
Proof.
  intros Hok next n rn rw Hnext HB0 Hbn HP E.
  unfold gate_rule in E. destruct (mem_in (op_code (nop n)) keep); [discriminate|].
  destruct (find_rule (op_code (nop n)) rules) as [r|] eqn:F; [|discriminate].
  destruct (rules_ok_find rules (nop n) r Hok F) as (Htgt & Hgr & Htt).
  unfold grule_ok in Hgr. apply andb_true_iff in Hgr. destruct Hgr as [Hpo Hro].
  unfold lower_gate in E. injection E as <- <-.
  set (w := width_of nl (arg n 0)) in *. set (k := length (gprog r)) in *.
  set (src := resolve n next (gres r)) in *.
  assert (HPn : exists a b, nargs n = [a; b] /\ width_of nl a = width_of nl b
                            /\ 0 <= width_of nl (ndest n) <= width_of nl a).
  { unfold gate_net_ok in HP. destruct (nop n); try contradiction; exact HP. }
  destruct HPn as (a & b & Hargs & Hwab & Hwd).
  assert (Hw : w = width_of nl a) by (unfold w, arg; rewrite Hargs; reflexivity).
  destruct Hbn as [Hd Hab].
  assert (Ha : a < B) by (apply Hab; rewrite Hargs; left; reflexivity).
  assert (Hb : b < B) by (apply Hab; rewrite Hargs; right; left; reflexivity).
  repeat split.
  - rewrite map_app, app_length, tmp_wires_names, tmp_wires_length, assign_names, zrange_app. reflexivity.
  - destruct (nop n); try contradiction; reflexivity.
  - apply Forall_app. split; [apply lower_prog_comb; exact Hpo|apply assign_comb].
  - intros nl' st v v' Hext Hdecl Hv.
    apply declares_app in Hdecl. destruct Hdecl as [Hd1 Hd2].
    pose proof Hext as [_ Hwx].
    rewrite fold_left_app.
    set (u' := fold_left (exec_spec nl' st) (lower_prog n next 0 (gprog r)) v').
    assert (Hwd' : forall i, (i < 0 + length (gprog r))%nat -> width_of nl' (next + Z.of_nat i) = w).
    { intros i Hi. apply (Hd1 (mkWire (next + Z.of_nat i) w KWire)). apply in_tmp_wires. exact Hi. }
    assert (Hc0 : carries next w v' 0 (fun _ => [])).
    { split; [reflexivity|]. intros i j Hi. lia. }
    destruct (prog_inv nl' st n next w a b Hargs
                (eq_trans (Hwx a Ha) (eq_sym Hw)) (eq_trans (Hwx b Hb) (eq_trans (eq_sym Hwab) (eq_sym Hw)))
                ltac:(lia) ltac:(lia)
                (gprog r) 0%nat v' (fun _ => []) Hpo Hwd' Hc0) as [Hcar Hold].
    fold u' in Hcar, Hold. cbn [Nat.add] in Hcar.
    intros z Hz.
    rewrite (assign_sem B nl nl' st (next + Z.of_nat k) src w (ndest n) u' Hext Hd2
               ltac:(lia) Hd ltac:(lia) z ltac:(lia)).
    assert (Hexec : exec_spec nl st v n
                    = match op_spec (nop n) [(v a, w); (v b, w)] with
                      | Some r0 => upd v (ndest n) (r0 mod 2 ^ width_of nl (ndest n))
                      | None => v
                      end).
    { unfold exec_spec, argvals. rewrite Hargs. cbn [map]. rewrite <- Hwab, <- Hw.
      destruct (nop n); try contradiction; reflexivity. }
    rewrite Hexec.
    assert (Hsome : exists r0, op_spec (nop n) [(v a, w); (v b, w)] = Some r0).
    { destruct (nop n); try contradiction; cbn; eexists; reflexivity. }
    destruct Hsome as [r0 Hr0]. rewrite Hr0.
    unfold upd. destruct (z =? ndest n) eqn:Ez.
    + apply mod_bits_eq; [lia|]. intros j Hj.
      assert (Hjw : 0 <= j < w) by lia.
      change [(v a, w); (v b, w)] with (map (fun x => (x, w)) [v a; v b]) in Hr0.
      rewrite (op_spec_gate_bits (nop n) [v a; v b] w r0 j Hjw Hr0)
        by (destruct (nop n); try contradiction; exact I).
      cbn [map]. unfold src.
      rewrite (resolve_bit n next w a b Hargs u' k _ (gres r) j Hro Hcar Hjw).
      rewrite (Hold a ltac:(lia)), (Hold b ltac:(lia)), <- (Hv a Ha), <- (Hv b Hb).
      symmetry. apply (tt_agrees_spec r (nop n) Htt).
    + rewrite Hold by lia. apply Hv. exact Hz.
Qed.

(* the generated tables pass the check *)
Lemma nand_synth_rules_ok : rules_ok nand_synth_rules = true.
Proof. vm_compute. reflexivity. Qed.

Lemma and_inverter_synth_rules_ok : rules_ok and_inverter_synth_rules = true.
Proof. vm_compute. reflexivity. Qed.

(* ---------- two_way_concat: associativity of concat ---------- *)
Definition cat (x : Z) (rest : list (Z * Z)) : Z :=
  fold_left (fun acc vw => acc * 2 ^ (snd vw) + fst vw) rest x.

Definition sumw (rest : list (Z * Z)) : Z := fold_right (fun vw s => snd vw + s) 0 rest.

Lemma concat_spec_cons x w rest : concat_spec ((x, w) :: rest) = cat x rest.
Proof. unfold concat_spec, cat. cbn [fold_left fst snd]. reflexivity. Qed.

Lemma mod_scale a b m c d : 0 < m -> 0 < c -> a mod m = b mod m ->
  (a * c + d) mod (m * c) = (b * c + d) mod (m * c).
Proof.
  intros Hm Hc H.
  assert (Ha : a * c + d = a mod m * c + d + (a / m) * (m * c)).
  { pose proof (Z.div_mod a m ltac:(lia)) as Ea.
    set (q := a / m) in *. set (r := a mod m) in *. clearbody q r. subst a. ring. }
  assert (Hb : b * c + d = b mod m * c + d + (b / m) * (m * c)).
  { pose proof (Z.div_mod b m ltac:(lia)) as Eb.
    set (q := b / m) in *. set (r := b mod m) in *. clearbody q r. subst b. ring. }
  rewrite Ha, Hb, H, !Z_mod_plus_full. reflexivity.
Qed.

Lemma sumw_nonneg rest : (forall vw, In vw rest -> 0 <= snd vw) -> 0 <= sumw rest.
Proof.
  induction rest as [|vw r IH]; intro H; cbn; [lia|].
  pose proof (H vw (or_introl eq_refl)). assert (0 <= sumw r) by (apply IH; intros; apply H; right; auto).
  unfold sumw in *. lia.
Qed.

Lemma cat_mod : forall rest x y w, 0 <= w -> (forall vw, In vw rest -> 0 <= snd vw) ->
  x mod 2 ^ w = y mod 2 ^ w ->
  cat x rest mod 2 ^ (w + sumw rest) = cat y rest mod 2 ^ (w + sumw rest).
Proof.
  induction rest as [|[a wa] r IH]; intros x y w Hw Hr H.
  - cbn. rewrite Z.add_0_r. exact H.
  - cbn [cat fold_left sumw fold_right fst snd].
    assert (Hwa : 0 <= wa) by (apply (Hr (a, wa)); left; reflexivity).
    change (fold_left (fun acc vw => acc * 2 ^ snd vw + fst vw) r (x * 2 ^ wa + a)) with (cat (x * 2 ^ wa + a) r).
    change (fold_left (fun acc vw => acc * 2 ^ snd vw + fst vw) r (y * 2 ^ wa + a)) with (cat (y * 2 ^ wa + a) r).
    change (fold_right (fun vw s => snd vw + s) 0 r) with (sumw r).
    replace (w + (wa + sumw r)) with ((w + wa) + sumw r) by lia.
    apply IH; [lia|intros; apply Hr; right; assumption|].
    rewrite Z.pow_add_r by lia.
    apply mod_scale; try (apply pow2_pos; lia). exact H.
Qed.

Lemma mod_eq_bits x y F i : 0 <= i < F -> x mod 2 ^ F = y mod 2 ^ F -> Z.testbit x i = Z.testbit y i.
Proof.
  intros Hi H. rewrite <- (testbit_low_mod x F i Hi), <- (testbit_low_mod y F i Hi), H. reflexivity.
Qed.

Definition restvals (nl : netlist) (u : wid -> Z) (rest : list wid) : list (Z * Z) :=
  map (fun a => (u a, width_of nl a)) rest.

Lemma restvals_sumw nl u u' rest : sumw (restvals nl u rest) = sumw (restvals nl u' rest).
Proof. induction rest as [|a r IH]; cbn; [reflexivity|]. unfold sumw, restvals in *. cbn. rewrite IH. reflexivity. Qed.

(* the chain computes, on its last temporary, the n-way concat (modulo its width) *)
Lemma concat_chain_sem B nl nl' st : extends B nl nl' -> (forall w, 0 <= width_of nl w) ->
  forall rest next acc accw u ns ws fin finw,
    concat_chain nl next acc accw rest = (ns, ws, (fin, finw)) ->
    declares nl' ws -> B <= next -> acc < next -> 0 <= accw ->
    (forall a, In a rest -> a < B) ->
    let u' := fold_left (exec_spec nl' st) ns u in
    u' fin mod 2 ^ finw = cat (u acc) (restvals nl u rest) mod 2 ^ finw
    /\ finw = accw + sumw (restvals nl u rest)
    /\ fin < next + Z.of_nat (length ws)
    /\ map wname ws = zrange next (length ws)
    /\ Forall (fun m => is_comb (nop m) = true) ns
    /\ (forall z, z < next -> u' z = u z).
Proof.
  intros Hext Hnn. pose proof Hext as [_ Hwx].
  induction rest as [|a r IH]; intros next acc accw u ns ws fin finw E Hdecl Hnext Hacc Haccw Hr.
  - cbn in E. injection E as <- <- <- <-. cbn. rewrite Z.add_0_r.
    repeat split; auto; lia.
  - cbn [concat_chain] in E.
    destruct (concat_chain nl (next + 1) next (accw + width_of nl a) r) as [[ns1 ws1] fin1] eqn:E1.
    destruct fin1 as [f1 fw1]. injection E as <- <- <- <-.
    assert (Ha : a < B) by (apply Hr; left; reflexivity).
    assert (Hwn : width_of nl' next = accw + width_of nl a).
    { apply (Hdecl (mkWire next (accw + width_of nl a) KWire)). left. reflexivity. }
    cbn [fold_left].
    set (u1 := exec_spec nl' st u (mkNet OpConcat [acc; a] next)).
    assert (Hu1 : forall z, u1 z = upd u next ((u acc * 2 ^ width_of nl a + u a) mod 2 ^ (accw + width_of nl a)) z).
    { intro z. unfold u1, exec_spec. cbn [nop nargs ndest argvals map op_spec].
      unfold concat_spec. cbn [fold_left fst snd]. rewrite Hwn, (Hwx a Ha).
      replace (0 * 2 ^ width_of nl' acc + u acc) with (u acc) by lia. reflexivity. }
    assert (Hd1 : declares nl' ws1) by (intros x Hx; apply Hdecl; right; exact Hx).
    assert (Hr1 : forall a0, In a0 r -> a0 < B) by (intros; apply Hr; right; assumption).
    pose proof (Hnn a) as Hwa.
    destruct (IH (next + 1) next (accw + width_of nl a) u1 ns1 ws1 f1 fw1 E1 Hd1
                 ltac:(lia) ltac:(lia) ltac:(lia) Hr1) as (Hval & Hfw & Hfin & Hnm & Hcomb & Hframe).
    assert (Hrv : restvals nl u1 r = restvals nl u r).
    { unfold restvals. apply map_ext_in. intros x Hx. rewrite Hu1, upd_other; [reflexivity|].
      pose proof (Hr1 x Hx). lia. }
    rewrite Hrv in Hval, Hfw.
    repeat split.
    + rewrite Hval. cbn [restvals map cat fold_left fst snd].
      change (fold_left (fun acc0 vw => acc0 * 2 ^ snd vw + fst vw) (map (fun a0 => (u a0, width_of nl a0)) r)
                (u acc * 2 ^ width_of nl a + u a))
        with (cat (u acc * 2 ^ width_of nl a + u a) (restvals nl u r)).
      rewrite Hfw. apply cat_mod; [lia| |].
      * intros vw Hvw. unfold restvals in Hvw. apply in_map_iff in Hvw. destruct Hvw as (x & <- & _). apply Hnn.
      * rewrite Hu1, upd_same. apply Z.mod_mod. pose proof (pow2_pos (accw + width_of nl a)). lia.
    + rewrite Hfw. cbn [restvals map sumw fold_right snd]. unfold sumw, restvals. lia.
    + cbn [length]. lia.
    + cbn [map length zrange wname]. f_equal. exact Hnm.
    + constructor; [reflexivity|exact Hcomb].
    + intros z Hz. rewrite Hframe by lia. rewrite Hu1. apply upd_other. lia.
Qed.

Lemma concat_chain_struct nl : forall rest next acc accw ns ws fin,
  concat_chain nl next acc accw rest = (ns, ws, fin) ->
  map wname ws = zrange next (length ws) /\ Forall (fun m => is_comb (nop m) = true) ns.
Proof.
  induction rest as [|a r IH]; intros next acc accw ns ws fin Ec.
  - cbn in Ec. injection Ec as <- <- <-. split; [reflexivity|constructor].
  - cbn [concat_chain] in Ec.
    destruct (concat_chain nl (next + 1) next (accw + width_of nl a) r) as [[ns1 ws1] f1] eqn:E1.
    injection Ec as <- <- <-. destruct (IH _ _ _ _ _ _ E1) as [Hn Hc].
    split; [cbn [map length zrange wname]; f_equal; exact Hn|constructor; [reflexivity|exact Hc]].
Qed.

Definition concat_net_ok (nl : netlist) (n : net) : Prop :=
  (forall w, 0 <= width_of nl w)
  /\ (nop n = OpConcat ->
      width_of nl (ndest n) <= fold_right Z.add 0 (map (width_of nl) (nargs n))).

Lemma sumw_restvals nl u l : sumw (restvals nl u l) = fold_right Z.add 0 (map (width_of nl) l).
Proof. induction l as [|a r IH]; cbn; [reflexivity|]. unfold sumw, restvals in *. cbn. rewrite IH. reflexivity. Qed.

Theorem two_way_concat_rule_ok nl B : rule_ok (concat_net_ok nl) two_way_concat_rule nl B.
Proof.
  intros next n rn rw Hnext HB0 Hbn [Hnn HP] E.
  unfold two_way_concat_rule in E.
  destruct (nop n) eqn:Eop; try discriminate.
  destruct (nargs n) as [|a0 rest] eqn:Eargs; [discriminate|].
  destruct (2 <? length (a0 :: rest))%nat; [|discriminate].
  destruct (concat_chain nl next a0 (width_of nl a0) rest) as [[ns ws] [fin finw]] eqn:Ec.
  injection E as <- <-.
  destruct Hbn as [Hd Hab]. rewrite Eargs in Hab.
  assert (Ha0 : a0 < B) by (apply Hab; left; reflexivity).
  assert (Hrest : forall a, In a rest -> a < B) by (intros; apply Hab; right; assumption).
  specialize (HP eq_refl). try rewrite Eargs in HP. cbn [map fold_right] in HP.
  (* structural facts do not depend on the valuation: instantiate the chain lemma once *)
  assert (Hstruct : forall nl' st u, extends B nl nl' -> declares nl' ws ->
            let u' := fold_left (exec_spec nl' st) ns u in
            u' fin mod 2 ^ finw = cat (u a0) (restvals nl u rest) mod 2 ^ finw
            /\ finw = width_of nl a0 + sumw (restvals nl u rest)
            /\ fin < next + Z.of_nat (length ws)
            /\ map wname ws = zrange next (length ws)
            /\ Forall (fun m => is_comb (nop m) = true) ns
            /\ (forall z, z < next -> u' z = u z)).
  { intros nl' st u Hext Hdecl.
    apply (concat_chain_sem B nl nl' st Hext Hnn rest next a0 (width_of nl a0) u ns ws fin finw Ec Hdecl);
      try assumption; try lia. apply Hnn. }
  repeat split.
  - rewrite map_app, app_length, assign_names, zrange_app. f_equal.
    apply (concat_chain_struct nl _ _ _ _ _ _ _ Ec).
  - apply Forall_app. split; [|apply assign_comb].
    apply (concat_chain_struct nl _ _ _ _ _ _ _ Ec).
  - intros nl' st v v' Hext Hdecl Hv.
    apply declares_app in Hdecl. destruct Hdecl as [Hd1 Hd2].
    destruct (Hstruct nl' st v' Hext Hd1) as (Hval & Hfw & Hfin & _ & _ & Hframe).
    rewrite fold_left_app.
    set (u' := fold_left (exec_spec nl' st) ns v') in *.
    intros z Hz.
    rewrite (assign_sem B nl nl' st (next + Z.of_nat (length ws)) fin finw (ndest n) u' Hext Hd2
               ltac:(lia) Hd (Hnn _) z ltac:(lia)).
    unfold exec_spec. rewrite Eop. cbn [op_spec]. unfold argvals. rewrite Eargs. cbn [map].
    rewrite concat_spec_cons.
    unfold upd. destruct (z =? ndest n) eqn:Ez.
    + rewrite sumw_restvals in Hfw.
      assert (Hrv : restvals nl v rest = restvals nl v' rest).
      { unfold restvals. apply map_ext_in. intros x Hx. rewrite (Hv x) by auto. reflexivity. }
      change (map (fun a => (v a, width_of nl a)) rest) with (restvals nl v rest).
      rewrite Hrv, (Hv a0 Ha0).
      apply mod_bits_eq; [apply Hnn|]. intros i Hi.
      symmetry. apply (mod_eq_bits _ _ finw i); [lia|exact Hval].
    + rewrite Hframe by lia. apply Hv. exact Hz.
Qed.

(* ---------- one_bit_selects: select = concat of 1-bit selects ---------- *)
Lemma concat_rev_select x idx :
  concat_spec (rev (map (fun i => (b2z (Z.testbit x i), 1)) idx)) = select_spec x idx.
Proof.
  unfold concat_spec. induction idx as [|i r IH]; [reflexivity|].
  cbn [map rev]. rewrite fold_left_app. cbn [fold_left fst snd]. rewrite IH.
  cbn [select_spec fold_right].
  change (fold_right (fun i0 acc => b2z (Z.testbit x i0) + 2 * acc) 0 r) with (select_spec x r).
  change (2 ^ 1) with 2. lia.
Qed.

Lemma nth_firstn_lt {A} (l : list A) d : forall m i, (i < m)%nat -> nth i (firstn m l) d = nth i l d.
Proof.
  induction l as [|a r IH]; intros m i Hi.
  - rewrite firstn_nil. reflexivity.
  - destruct m as [|m]; [lia|]. cbn [firstn]. destruct i as [|i]; [reflexivity|]. cbn [nth]. apply IH. lia.
Qed.

Lemma bit_selects_comb src : forall idx next,
  Forall (fun m => is_comb (nop m) = true) (bit_selects src next idx).
Proof. induction idx as [|i r IH]; intro next; cbn [bit_selects]; constructor; [reflexivity|apply IH]. Qed.

Lemma bit_selects_sem nl' st src : forall idx next u,
  src < next ->
  (forall j, (j < length idx)%nat -> width_of nl' (next + Z.of_nat j) = 1) ->
  let u' := fold_left (exec_spec nl' st) (bit_selects src next idx) u in
  map u' (zrange next (length idx)) = map (fun i => b2z (Z.testbit (u src) i)) idx
  /\ (forall z, z < next -> u' z = u z).
Proof.
  induction idx as [|i r IH]; intros next u Hsrc Hw.
  - cbn. split; auto.
  - cbn [bit_selects fold_left length zrange map]. cbn [length] in Hw. cbv zeta.
    match goal with |- context [fold_left (exec_spec nl' st) (bit_selects src (next + 1) r) ?x] =>
      remember x as u1 eqn:Eu1 end.
    assert (Hw0 : width_of nl' next = 1).
    { specialize (Hw 0%nat). rewrite Z.add_0_r in Hw. apply Hw. lia. }
    assert (Hu1 : forall z, u1 z = upd u next (b2z (Z.testbit (u src) i)) z).
    { intro z. rewrite Eu1. unfold exec_spec. cbn [nop nargs ndest argvals map op_spec select_spec fold_right].
      rewrite Hw0. destruct (Z.testbit (u src) i); reflexivity. }
    destruct (IH (next + 1) u1 ltac:(lia)) as (Hmap & Hframe).
    { intros j Hj. replace (next + 1 + Z.of_nat j) with (next + Z.of_nat (S j)) by lia. apply Hw. lia. }
    split.
    + f_equal.
      * rewrite Hframe by lia. rewrite Hu1. apply upd_same.
      * rewrite Hmap. apply map_ext. intro i0. rewrite Hu1, upd_other by lia. reflexivity.
    + intros z Hz. rewrite Hframe by lia. rewrite Hu1. apply upd_other. lia.
Qed.

Lemma bit_selects_length src next idx : length (bit_selects src next idx) = length idx.
Proof. revert next. induction idx; intro next; cbn; auto. Qed.

Definition select_net_ok (nl : netlist) (n : net) : Prop := forall w, 0 <= width_of nl w.

Lemma select_firstn_bits x idx0 m j : 0 <= j < Z.of_nat m ->
  Z.testbit (select_spec x (firstn m idx0)) j = Z.testbit (select_spec x idx0) j.
Proof.
  intro Hj. rewrite !select_spec_bits by lia. rewrite firstn_length.
  destruct (j <? Z.of_nat (length idx0)) eqn:E0.
  - destruct (j <? Z.of_nat (Nat.min m (length idx0))) eqn:E1; [|lia].
    rewrite nth_firstn_lt by lia. reflexivity.
  - destruct (j <? Z.of_nat (Nat.min m (length idx0))) eqn:E1; [lia|reflexivity].
Qed.

(* the temporaries next..next+k-1 hold the selected bits: the concat of them
   (most significant first) is select_spec *)
Lemma bits_concat nl' u x idx next :
  (forall j, (j < length idx)%nat -> width_of nl' (next + Z.of_nat j) = 1) ->
  map u (zrange next (length idx)) = map (fun i => b2z (Z.testbit x i)) idx ->
  concat_spec (map (fun a => (u a, width_of nl' a)) (rev (zrange next (length idx)))) = select_spec x idx.
Proof.
  intros Hw Hm. rewrite <- concat_rev_select. f_equal. rewrite map_rev. f_equal.
  rewrite <- (map_map (fun i => b2z (Z.testbit x i)) (fun v => (v, 1))), <- Hm, map_map.
  apply map_ext_in. intros a Ha. apply zrange_in in Ha.
  assert (Hwa : width_of nl' a = 1).
  { replace a with (next + Z.of_nat (Z.to_nat (a - next))) by lia. apply Hw. lia. }
  rewrite Hwa. reflexivity.
Qed.

Theorem one_bit_selects_rule_ok nl B : rule_ok (select_net_ok nl) one_bit_selects_rule nl B.
Proof.
  intros next n rn rw Hnext HB0 Hbn Hnn E.
  unfold one_bit_selects_rule in E.
  destruct (nop n) as [| | | | | | | | | | | | | |idx0| | |] eqn:Eop; try discriminate.
  destruct (nargs n) as [|src [|? ?]] eqn:Eargs; try discriminate.
  set (wd := width_of nl (ndest n)) in *.
  set (idx := firstn (Z.to_nat wd) idx0) in *.
  destruct Hbn as [Hd Hab]. try rewrite Eargs in Hab.
  assert (Hsrc : src < B) by (apply Hab; left; reflexivity).
  assert (Hwd : 0 <= wd) by apply Hnn.
  assert (Horig : forall st v, exec_spec nl st v n = upd v (ndest n) (select_spec (v src) idx0 mod 2 ^ wd)).
  { intros st v. unfold exec_spec. rewrite Eop. unfold argvals. rewrite Eargs. reflexivity. }
  assert (Hfinal : forall x sv, (forall j, 0 <= j < wd -> Z.testbit sv j = Z.testbit (select_spec x idx) j) ->
             sv mod 2 ^ wd = select_spec x idx0 mod 2 ^ wd).
  { intros x sv Hsv. apply mod_bits_eq; [exact Hwd|]. intros j Hj. rewrite Hsv by exact Hj.
    unfold idx. apply select_firstn_bits. lia. }
  destruct (length idx) as [|[|k2]] eqn:Ek; [discriminate| |].
  - (* one index: no concat *)
    injection E as <- <-.
    repeat split.
    + cbn [map length wname zrange]. f_equal. apply assign_names.
    + apply Forall_app. split; [apply bit_selects_comb|apply assign_comb].
    + intros nl' st v v' Hext Hdecl Hv.
      change (mkWire next 1 KWire :: snd (assign nl (next + 1) next 1 (ndest n)))
        with (tmp_wires next 1 1 ++ snd (assign nl (next + 1) next 1 (ndest n))) in Hdecl.
      apply declares_app in Hdecl. destruct Hdecl as [Hd1 Hd2].
      rewrite fold_left_app.
      destruct (bit_selects_sem nl' st src idx next v' ltac:(lia)) as [Hmap Hframe].
      { rewrite Ek. intros j Hj. apply (Hd1 (mkWire (next + Z.of_nat j) 1 KWire)). apply in_tmp_wires. exact Hj. }
      set (u' := fold_left (exec_spec nl' st) (bit_selects src next idx) v') in *.
      intros z Hz.
      rewrite (assign_sem B nl nl' st (next + 1) next 1 (ndest n) u' Hext Hd2 ltac:(lia) Hd Hwd z ltac:(lia)).
      rewrite Horig. unfold upd. destruct (z =? ndest n) eqn:Ez.
      * symmetry. rewrite (Hv src Hsrc). apply Hfinal. intros j Hj. f_equal.
        rewrite Ek in Hmap. clearbody u'. clear Hfinal. clearbody idx.
        destruct idx as [|i0 [|? ?]]; try discriminate.
        cbn [zrange map] in Hmap. injection Hmap as Hm. rewrite Hm.
        cbn [select_spec fold_right]. lia.
      * rewrite Hframe by lia. apply Hv. exact Hz.
  - (* k >= 2 indices: concat of the 1-bit selects *)
    remember (S (S k2)) as k eqn:Hk. assert (Hk2 : (2 <= k)%nat) by lia. clear Hk k2.
    injection E as <- <-.
    repeat split.
    + rewrite map_app, app_length, tmp_wires_names, tmp_wires_length. cbn [map length wname].
      rewrite assign_names.
      match goal with |- context [S (length ?l)] => set (la := length l) end.
      replace (k + S la)%nat with (k + (1 + la))%nat by lia. rewrite !zrange_app.
      change (Z.of_nat 1) with 1. reflexivity.
    + apply Forall_app. split; [apply bit_selects_comb|]. constructor; [reflexivity|apply assign_comb].
    + intros nl' st v v' Hext Hdecl Hv.
      apply declares_app in Hdecl. destruct Hdecl as [Hd1 Hd2].
      assert (Hdc : width_of nl' (next + Z.of_nat k) = Z.of_nat k).
      { apply (Hd2 (mkWire (next + Z.of_nat k) (Z.of_nat k) KWire)). left. reflexivity. }
      assert (Hd3 : declares nl' (snd (assign nl (next + Z.of_nat k + 1) (next + Z.of_nat k) (Z.of_nat k) (ndest n)))).
      { intros y Hy. apply Hd2. right. exact Hy. }
      assert (Hw1 : forall j, (j < length idx)%nat -> width_of nl' (next + Z.of_nat j) = 1).
      { rewrite Ek. intros j Hj. apply (Hd1 (mkWire (next + Z.of_nat j) 1 KWire)). apply in_tmp_wires. exact Hj. }
      rewrite fold_left_app.
      destruct (bit_selects_sem nl' st src idx next v' ltac:(lia) Hw1) as [Hmap Hframe].
      set (u' := fold_left (exec_spec nl' st) (bit_selects src next idx) v') in *.
      cbn [fold_left].
      set (cnet := mkNet OpConcat (rev (zrange next k)) (next + Z.of_nat k)).
      set (u2 := exec_spec nl' st u' cnet).
      assert (Hu2 : forall z, u2 z = upd u' (next + Z.of_nat k) (select_spec (v' src) idx mod 2 ^ Z.of_nat k) z).
      { intro z. unfold u2, exec_spec. cbn [nop cnet ndest op_spec]. unfold argvals. cbn [nargs cnet].
        rewrite Hdc.
        match goal with |- context [concat_spec ?l] =>
          replace (concat_spec l) with (select_spec (v' src) idx)
            by (symmetry; rewrite <- Ek; exact (bits_concat nl' u' (v' src) idx next Hw1 Hmap)) end.
        reflexivity. }
      intros z Hz.
      rewrite (assign_sem B nl nl' st (next + Z.of_nat k + 1) (next + Z.of_nat k) (Z.of_nat k) (ndest n) u2
                 Hext Hd3 ltac:(lia) Hd Hwd z ltac:(lia)).
      rewrite Horig. unfold upd at 1 2. destruct (z =? ndest n) eqn:Ez.
      * symmetry. rewrite (Hv src Hsrc). apply Hfinal. intros j Hj.
        rewrite Hu2, upd_same.
        rewrite testbit_mod_pow2 by lia.
        destruct (j <? Z.of_nat k) eqn:Ejk; [reflexivity|].
        rewrite select_spec_bits by lia. rewrite Ek. rewrite Ejk. reflexivity.
      * rewrite Hu2, upd_other by lia. rewrite Hframe by lia. apply Hv. exact Hz.
Qed.
