(* C11 -- proofs about Pass/Copy.v.
   Main result: renaming the wire identities of ANY netlist by an injective map
   preserves the reference semantics (Netlist/Sem.v) on every wire, in every
   cycle, for every input sequence and every initial state. *)
From PyRTL Require Import Netlist.Sem Netlist.WFDefs Pass.Copy.
From Coq Require Import ZifyBool.

Section Rename.
Variable f : wid -> wid.
Hypothesis f_inj : forall a b, f a = f b -> a = b.

Lemma eqb_inj a b : (f a =? f b) = (a =? b).
Proof.
  destruct (a =? b) eqn:E.
  - apply Z.eqb_eq in E. subst. apply Z.eqb_refl.
  - apply Z.eqb_neq. intro H. apply f_inj in H. apply Z.eqb_neq in E. contradiction.
Qed.

Lemma find_wire_rename ws w :
  find_wire (map (rename_wire f) ws) (f w) = option_map (rename_wire f) (find_wire ws w).
Proof.
  induction ws as [|x r IH]; [reflexivity|].
  cbn [map find_wire rename_wire wname]. rewrite eqb_inj.
  destruct (wname x =? w); [reflexivity|exact IH].
Qed.

Lemma width_of_rename nl w : width_of (rename f nl) (f w) = width_of nl w.
Proof.
  unfold width_of, rename. cbn [wires]. rewrite find_wire_rename.
  destruct (find_wire (wires nl) w); reflexivity.
Qed.

Lemma kind_of_rename nl w : kind_of (rename f nl) (f w) = kind_of nl w.
Proof.
  unfold kind_of, rename. cbn [wires]. rewrite find_wire_rename.
  destruct (find_wire (wires nl) w); reflexivity.
Qed.

Lemma upd_rel v v' d x : val_rel f v v' -> val_rel f (upd v d x) (upd v' (f d) x).
Proof.
  intros H w. unfold upd. rewrite eqb_inj. destruct (w =? d); [reflexivity|apply H].
Qed.

Lemma mem_read_rename nl st st' m a :
  (forall m a, smems st' m a = smems st m a) ->
  mem_read (rename f nl) st' m a = mem_read nl st m a.
Proof.
  intro H. unfold mem_read, rename. cbn [mems].
  destruct (find_mem (mems nl) m) as [mm|]; [destruct (mrom mm)|]; auto.
Qed.

Lemma base_val_rename nl dflt st st' ins ins' :
  state_rel f st st' -> val_rel f ins ins' ->
  val_rel f (base_val nl dflt st ins) (base_val (rename f nl) dflt st' ins').
Proof.
  intros [Hr _] Hi w. unfold base_val, rename. cbn [wires]. rewrite find_wire_rename.
  destruct (find_wire (wires nl) w) as [x|]; [|reflexivity].
  cbn [option_map rename_wire wkind]. destruct (wkind x); auto.
Qed.

Lemma argvals_rename nl v v' n :
  val_rel f v v' -> argvals (rename f nl) v' (rename_net f n) = argvals nl v n.
Proof.
  intro H. unfold argvals, rename_net. cbn [nargs]. rewrite map_map.
  apply map_ext. intro a. rewrite H, width_of_rename. reflexivity.
Qed.

Lemma arg_rename n i : (i < length (nargs n))%nat -> arg (rename_net f n) i = f (arg n i).
Proof.
  intro H. unfold arg, rename_net. cbn [nargs].
  rewrite (nth_indep (map f (nargs n)) 0 (f 0)) by (rewrite map_length; exact H).
  apply map_nth.
Qed.

Lemma exec_spec_rename nl st st' v v' n :
  seq_arity_ok n = true ->
  (forall m a, smems st' m a = smems st m a) -> val_rel f v v' ->
  val_rel f (exec_spec nl st v n) (exec_spec (rename f nl) st' v' (rename_net f n)).
Proof.
  intros Ha Hm Hv. unfold exec_spec. cbn [rename_net nop ndest].
  change (mkNet (nop n) (map f (nargs n)) (f (ndest n))) with (rename_net f n).
  rewrite (argvals_rename nl v v' n Hv).
  destruct (nop n) eqn:E;
    try (destruct (op_spec _ (argvals nl v n));
         [rewrite width_of_rename; apply upd_rel; exact Hv|exact Hv]);
    try exact Hv.
  (* OpMemRd *)
  unfold seq_arity_ok in Ha. rewrite E in Ha.
  rewrite arg_rename by lia. rewrite Hv, width_of_rename.
  rewrite (mem_read_rename nl st st' m _ Hm). apply upd_rel. exact Hv.
Qed.

Lemma comb_rename_gen nl st st' ns v v' :
  forallb seq_arity_ok ns = true ->
  (forall m a, smems st' m a = smems st m a) -> val_rel f v v' ->
  val_rel f (fold_left (exec_spec nl st) ns v)
            (fold_left (exec_spec (rename f nl) st') (map (rename_net f) ns) v').
Proof.
  revert v v'. induction ns as [|n r IH]; intros v v' Ha Hm Hv; [exact Hv|].
  cbn [forallb] in Ha. apply andb_true_iff in Ha. destruct Ha as [Ha1 Ha2].
  cbn [map fold_left]. apply IH; [exact Ha2|exact Hm|].
  apply exec_spec_rename; assumption.
Qed.

Lemma write_spec_rename v v' ms ms' n :
  seq_arity_ok n = true -> val_rel f v v' ->
  (forall m a, ms' m a = ms m a) ->
  forall m a, write_spec v' ms' (rename_net f n) m a = write_spec v ms n m a.
Proof.
  intros Ha Hv Hm m a. unfold write_spec. cbn [rename_net nop].
  change (mkNet (nop n) (map f (nargs n)) (f (ndest n))) with (rename_net f n).
  destruct (nop n) eqn:E; try apply Hm.
  unfold seq_arity_ok in Ha. rewrite E in Ha.
  rewrite !arg_rename by lia. rewrite !Hv.
  destruct (v (arg n 2) =? 0); [apply Hm|].
  unfold upd. destruct (m =? m0); [|apply Hm].
  destruct (a =? v (arg n 0)); [reflexivity|apply Hm].
Qed.

Lemma writes_rename_gen v v' ns ms ms' :
  forallb seq_arity_ok ns = true -> val_rel f v v' ->
  (forall m a, ms' m a = ms m a) ->
  forall m a, fold_left (write_spec v') (map (rename_net f) ns) ms' m a
              = fold_left (write_spec v) ns ms m a.
Proof.
  revert ms ms'. induction ns as [|n r IH]; intros ms ms' Ha Hv Hm; [exact Hm|].
  cbn [forallb] in Ha. apply andb_true_iff in Ha. destruct Ha as [Ha1 Ha2].
  cbn [map fold_left]. apply IH; [exact Ha2|exact Hv|].
  apply write_spec_rename; assumption.
Qed.

Lemma regnext_rename nl v v' rg rg' n :
  seq_arity_ok n = true -> val_rel f v v' -> val_rel f rg rg' ->
  val_rel f (regnext_spec nl v rg n) (regnext_spec (rename f nl) v' rg' (rename_net f n)).
Proof.
  intros Ha Hv Hr. unfold regnext_spec. cbn [rename_net nop ndest].
  change (mkNet (nop n) (map f (nargs n)) (f (ndest n))) with (rename_net f n).
  destruct (nop n) eqn:E; try exact Hr.
  unfold seq_arity_ok in Ha. rewrite E in Ha.
  rewrite arg_rename by lia. rewrite Hv, width_of_rename. apply upd_rel. exact Hr.
Qed.

Lemma regnexts_rename_gen nl v v' ns rg rg' :
  forallb seq_arity_ok ns = true -> val_rel f v v' -> val_rel f rg rg' ->
  val_rel f (fold_left (regnext_spec nl v) ns rg)
            (fold_left (regnext_spec (rename f nl) v') (map (rename_net f) ns) rg').
Proof.
  revert rg rg'. induction ns as [|n r IH]; intros rg rg' Ha Hv Hr; [exact Hr|].
  cbn [forallb] in Ha. apply andb_true_iff in Ha. destruct Ha as [Ha1 Ha2].
  cbn [map fold_left]. apply IH; [exact Ha2|exact Hv|].
  apply regnext_rename; assumption.
Qed.

(* one cycle *)
Lemma step_rename nl dflt st st' ins ins' :
  seq_arity nl = true -> state_rel f st st' -> val_rel f ins ins' ->
  val_rel f (fst (step nl dflt st ins)) (fst (step (rename f nl) dflt st' ins'))
  /\ state_rel f (snd (step nl dflt st ins)) (snd (step (rename f nl) dflt st' ins')).
Proof.
  intros Ha Hs Hi. unfold step. cbn [fst snd].
  assert (Hv : val_rel f (comb nl st (base_val nl dflt st ins))
                         (comb (rename f nl) st' (base_val (rename f nl) dflt st' ins'))).
  { unfold comb. cbn [rename nets].
    change (mkNetlist (map (rename_wire f) (wires nl)) (map (rename_net f) (nets nl)) (mems nl))
      with (rename f nl).
    apply comb_rename_gen; [exact Ha|exact (proj2 Hs)|].
    apply base_val_rename; assumption. }
  split; [exact Hv|]. split; cbn [sregs smems rename nets].
  - change (mkNetlist (map (rename_wire f) (wires nl)) (map (rename_net f) (nets nl)) (mems nl))
      with (rename f nl).
    apply regnexts_rename_gen; [exact Ha|exact Hv|exact (proj1 Hs)].
  - apply writes_rename_gen; [exact Ha|exact Hv|exact (proj2 Hs)].
Qed.

(* every cycle of every input sequence, from related states *)
Lemma run_rename nl dflt inss : forall inss' st st',
  seq_arity nl = true -> state_rel f st st' -> Forall2 (val_rel f) inss inss' ->
  Forall2 (val_rel f) (fst (run nl dflt st inss)) (fst (run (rename f nl) dflt st' inss'))
  /\ state_rel f (snd (run nl dflt st inss)) (snd (run (rename f nl) dflt st' inss')).
Proof.
  induction inss as [|ins rest IH]; intros inss' st st' Ha Hs Hi.
  - inversion Hi; subst. cbn [run fst snd]. split; [constructor|exact Hs].
  - inversion Hi as [|? ins' ? rest' Hi1 Hi2]; subst. cbn [run].
    destruct (step_rename nl dflt st st' ins ins' Ha Hs Hi1) as [Hv Hs1].
    destruct (step nl dflt st ins) as [v s1].
    destruct (step (rename f nl) dflt st' ins') as [v' s1'].
    cbn [fst snd] in Hv, Hs1.
    specialize (IH rest' s1 s1' Ha Hs1 Hi2).
    destruct (run nl dflt s1 rest) as [vs s2].
    destruct (run (rename f nl) dflt s1' rest') as [vs' s2'].
    cbn [fst snd] in *. destruct IH as [IH1 IH2].
    split; [constructor; assumption|exact IH2].
Qed.

Lemma assoc_rename_map l r : assoc (rename_map f l) (f r) = assoc l r.
Proof.
  induction l as [|[k v] t IH]; [reflexivity|].
  cbn [rename_map map assoc fst snd]. rewrite eqb_inj.
  destruct (k =? r); [reflexivity|exact IH].
Qed.

(* reset: register_value_map > reset_value > default, memory_value_map > default *)
Lemma init_state_rename nl dflt regmap memmap :
  state_rel f (init_state nl dflt regmap memmap)
              (init_state (rename f nl) dflt (rename_map f regmap) memmap).
Proof.
  split; [|reflexivity].
  intro w. cbn [init_state sregs]. unfold init_reg.
  rewrite assoc_rename_map, kind_of_rename. reflexivity.
Qed.

(* THE theorem: a design over other wire identities that keeps every class,
   bitwidth, Const value, reset value, ROM content and the net structure has
   the same value on every corresponding wire in every cycle, from reset. *)
Theorem rename_preserves_semantics_sec nl dflt regmap memmap inss inss' :
  seq_arity nl = true -> Forall2 (val_rel f) inss inss' ->
  Forall2 (val_rel f)
    (fst (run nl dflt (init_state nl dflt regmap memmap) inss))
    (fst (run (rename f nl) dflt (init_state (rename f nl) dflt (rename_map f regmap) memmap) inss'))
  /\ state_rel f
    (snd (run nl dflt (init_state nl dflt regmap memmap) inss))
    (snd (run (rename f nl) dflt (init_state (rename f nl) dflt (rename_map f regmap) memmap) inss')).
Proof.
  intros Ha Hi. apply run_rename; [exact Ha| |exact Hi]. apply init_state_rename.
Qed.

End Rename.

Definition injective (f : wid -> wid) : Prop := forall a b, f a = f b -> a = b.

Definition rename_preserves_semantics := rename_preserves_semantics_sec.
Definition rename_preserves_run := run_rename.
Definition rename_preserves_step := step_rename.

(* wfb (the premise of C01's refinement theorem, evaluated on every dumped
   design) implies the arity premise used here *)
Lemma nets_ok_arity nl ns : forall rdy n,
  nets_ok nl rdy ns = true -> In n ns -> is_comb (nop n) = true ->
  arity_ok (nop n) (length (nargs n)) = true.
Proof.
  induction ns as [|x r IH]; intros rdy n H Hin Hc; [destruct Hin|].
  cbn [nets_ok] in H. apply andb_prop in H. destruct H as [H1 H2].
  destruct Hin as [->|Hin]; [|exact (IH _ n H2 Hin Hc)].
  unfold net_ok in H1. rewrite Hc in H1.
  apply andb_prop in H1. destruct H1 as [H1 _].
  apply andb_prop in H1. destruct H1 as [_ H1]. exact H1.
Qed.

Lemma wfb_seq_arity nl : wfb nl = true -> seq_arity nl = true.
Proof.
  unfold wfb, seq_arity. intro H.
  apply andb_prop in H; destruct H as [H _].
  apply andb_prop in H; destruct H as [H Hn].
  apply andb_prop in H; destruct H as [_ Hc].
  rewrite forallb_forall in Hn |- *. intros n Hin. specialize (Hn n Hin).
  pose proof (nets_ok_arity nl (nets nl) _ n Hc Hin) as Hc'.
  unfold seq_arity_ok. destruct (nop n); try reflexivity.
  - cbn [is_comb] in Hn. apply andb_prop in Hn. destruct Hn as [_ Hn]. cbn [arity_ok] in Hn.
    apply Nat.eqb_eq in Hn. rewrite Hn. reflexivity.
  - specialize (Hc' eq_refl). cbn [arity_ok] in Hc'.
    apply Nat.eqb_eq in Hc'. rewrite Hc'. reflexivity.
  - cbn [is_comb] in Hn. apply andb_prop in Hn. destruct Hn as [_ Hn]. cbn [arity_ok] in Hn.
    apply Nat.eqb_eq in Hn. rewrite Hn. reflexivity.
Qed.

(* ---------------------------------------------------------------- copy_block *)

Lemma fresh_map_injective nl : injective (fresh_map nl).
Proof. intros a b H. unfold fresh_map in H. lia. Qed.

Lemma max_id_ge nl x : In x (wires nl) -> wname x <= max_id nl.
Proof.
  unfold max_id. induction (wires nl) as [|y r IH]; [intros []|].
  intros [->|H]; cbn [fold_right]; [lia|specialize (IH H); lia].
Qed.

Lemma min_id_le nl x : In x (wires nl) -> min_id nl <= wname x.
Proof.
  unfold min_id. induction (wires nl) as [|y r IH]; [intros []|].
  intros [->|H]; cbn [fold_right]; [lia|specialize (IH H); lia].
Qed.

(* the copy under ANY per-class attribute policy ck is the renaming of the
   source whose kinds went through ck *)
Lemma copy_with_rename ck nl :
  fst (copy_with ck nl) = rename (snd (copy_with ck nl)) (map_kinds ck nl).
Proof.
  unfold copy_with, rename, map_kinds. cbn [fst snd wires nets mems]. f_equal.
  - rewrite map_map. reflexivity.
  - rewrite <- (map_id (mems nl)) at 2. apply map_ext. intros []; reflexivity.
Qed.

Lemma map_kinds_id nl : map_kinds clone_kind_spec nl = nl.
Proof.
  unfold map_kinds, clone_kind_spec. destruct nl as [ws ns ms]. cbn [wires nets mems]. f_equal.
  rewrite <- (map_id ws) at 2. apply map_ext. intros []; reflexivity.
Qed.

(* if clone_wire keeps every attribute the copy IS the renaming (reset values
   and ROM contents included) *)
Lemma copy_isomorphic_of ck nl :
  (forall k, ck k = k) -> fst (copy_with ck nl) = rename (snd (copy_with ck nl)) nl.
Proof.
  intro H. rewrite copy_with_rename. f_equal.
  unfold map_kinds. destruct nl as [ws ns ms]. cbn [wires nets mems]. f_equal.
  rewrite <- (map_id ws) at 2. apply map_ext. intros [a b k]; cbn. rewrite H. reflexivity.
Qed.

Lemma copy_spec_isomorphic nl :
  fst (copy_block_spec nl) = rename (snd (copy_block_spec nl)) nl
  /\ injective (snd (copy_block_spec nl)).
Proof.
  split; [apply copy_isomorphic_of; reflexivity|apply fresh_map_injective].
Qed.

(* the code as it is: isomorphic to the source with reset values erased *)
Lemma copy_block_rename nl :
  fst (copy_block nl) = rename (snd (copy_block nl)) (map_kinds clone_kind nl)
  /\ injective (snd (copy_block nl)).
Proof. split; [apply copy_with_rename|apply fresh_map_injective]. Qed.

(* identities: no wire of the copy is a wire of the source, whatever ck *)
Lemma copy_disjoint ck nl x y :
  In x (wires nl) -> In y (wires (fst (copy_with ck nl))) -> wname x <> wname y.
Proof.
  intros Hx Hy. unfold copy_with in Hy. cbn [fst wires] in Hy.
  apply in_map_iff in Hy. destruct Hy as [z [<- Hz]].
  cbn [clone_wire wname]. unfold fresh_map, fresh_offset.
  pose proof (max_id_ge nl x Hx). pose proof (min_id_le nl z Hz). lia.
Qed.

(* ... and the copy has exactly as many wires, nets, memories, with the
   memories under the same ids *)
Lemma copy_counts ck nl :
  length (wires (fst (copy_with ck nl))) = length (wires nl)
  /\ length (nets (fst (copy_with ck nl))) = length (nets nl)
  /\ map mid (mems (fst (copy_with ck nl))) = map mid (mems nl).
Proof.
  unfold copy_with. cbn [fst wires nets mems]. rewrite !map_length, map_map.
  repeat split; reflexivity.
Qed.

Lemma shift_ins_rel nl ins : val_rel (fresh_map nl) ins (shift_ins (fresh_offset nl) ins).
Proof. intro w. unfold shift_ins, fresh_map. f_equal. lia. Qed.

Lemma shift_inss_rel nl inss :
  Forall2 (val_rel (fresh_map nl)) inss (map (shift_ins (fresh_offset nl)) inss).
Proof. induction inss; cbn [map]; constructor; [apply shift_ins_rel|assumption]. Qed.

(* behaviour of the copy the property requires: identical to the source, from
   reset, on every wire, every cycle, every input sequence *)
Theorem copy_spec_behaviour nl dflt regmap memmap inss :
  seq_arity nl = true ->
  let '(cp, f) := copy_block_spec nl in
  Forall2 (val_rel f)
    (fst (run nl dflt (init_state nl dflt regmap memmap) inss))
    (fst (run cp dflt (init_state cp dflt (rename_map f regmap) memmap)
              (map (shift_ins (fresh_offset nl)) inss))).
Proof.
  intro Ha. destruct (copy_block_spec nl) as [cp f] eqn:E.
  pose proof (copy_spec_isomorphic nl) as [Hiso Hinj]. rewrite E in Hiso, Hinj.
  cbn [fst snd] in Hiso, Hinj. subst cp.
  assert (Hf : f = fresh_map nl) by (unfold copy_block_spec, copy_with in E; inversion E; reflexivity).
  apply (rename_preserves_semantics_sec f Hinj nl dflt regmap memmap inss _ Ha).
  rewrite Hf. apply shift_inss_rel.
Qed.

(* a pass that is correct on its own input, run on a private copy, yields a
   block that behaves like the SOURCE: composition with copy_spec_behaviour *)
Theorem nonupdating_on_renaming (pass : netlist -> netlist) :
  forall nl, nonupdating pass nl = pass (rename (fresh_map nl) nl).
Proof.
  intro nl. unfold nonupdating. f_equal.
  pose proof (copy_spec_isomorphic nl) as [H _]. exact H.
Qed.

(* ---------------------------------------------------------------- fingerprint, edits *)

Lemma map_fp_wire_inj a b : map fp_wire a = map fp_wire b -> a = b.
Proof.
  revert b. induction a as [|[x1 x2 x3] r IH]; intros [|[y1 y2 y3] s] H; try discriminate; [reflexivity|].
  cbn [map fp_wire wname wwidth wkind] in H. inversion H. f_equal. apply IH. assumption.
Qed.

Lemma map_fp_net_inj a b : map fp_net a = map fp_net b -> a = b.
Proof.
  revert b. induction a as [|[x1 x2 x3] r IH]; intros [|[y1 y2 y3] s] H; try discriminate; [reflexivity|].
  cbn [map fp_net nop nargs ndest] in H. inversion H. f_equal. apply IH. assumption.
Qed.

Lemma map_fp_mem_inj a b : map fp_mem a = map fp_mem b -> a = b.
Proof.
  revert b. induction a as [|[x1 x2 x3 x4] r IH]; intros [|[y1 y2 y3 y4] s] H; try discriminate; [reflexivity|].
  cbn [map fp_mem mid maddrw mdataw mrom] in H. inversion H. f_equal. apply IH. assumption.
Qed.

(* the fingerprint determines the design: nothing is left out of it *)
Lemma fingerprint_complete a b : fingerprint a = fingerprint b <-> a = b.
Proof.
  split; [|intros ->; reflexivity].
  destruct a as [w1 n1 m1], b as [w2 n2 m2]. unfold fingerprint. cbn [wires nets mems].
  intro H. inversion H as [[Hw Hn Hm]].
  apply map_fp_wire_inj in Hw. apply map_fp_net_inj in Hn. apply map_fp_mem_inj in Hm.
  subst. reflexivity.
Qed.

(* equal fingerprints => equal behaviour (trivially, via fingerprint_complete);
   stated for use by the check: "fingerprint of the source unchanged" implies
   "every trace of the source unchanged" *)
Lemma fingerprint_determines_run a b dflt st inss :
  fingerprint a = fingerprint b -> run a dflt st inss = run b dflt st inss.
Proof. intro H. apply fingerprint_complete in H. subst. reflexivity. Qed.

(* independence in the functional model: structural (the other component of the
   pair is not an argument of the edit).  The content of "no aliasing" is in
   Pass/CopyHeap.v (shared-heap model) and in the implementation check. *)
Lemma independent_edits es w :
  fingerprint (snd (fold_left (fun w e => edit_fst e w) es w)) = fingerprint (snd w)
  /\ fingerprint (fst (fold_left (fun w e => edit_snd e w) es w)) = fingerprint (fst w).
Proof.
  split; revert w; induction es as [|e r IH]; intro w; cbn [fold_left]; try reflexivity;
    rewrite IH; reflexivity.
Qed.

(* the edits are not vacuous: each one can change the fingerprint of the block
   it is applied to *)
Definition edit_witness : netlist :=
  {| wires := [mkWire 1 2 KInput; mkWire 2 2 KOutput]; nets := [mkNet OpW [1] 2]; mems := [] |}.

Lemma edits_change_target :
  forallb (fun e => negb (if list_eq_dec (list_eq_dec Z.eq_dec)
                               (fp_code (apply_edit e edit_witness)) (fp_code edit_witness)
                          then true else false))
          [EAddWire (mkWire 3 1 KWire); EAddNet (mkNet OpW [1] 3); ERemoveNet 0;
           ERenameWire 1 7; ERemoveWire 2; ESetKind 2 (KReg (Some 1))] = true.
Proof. vm_compute. reflexivity. Qed.

(* ---------------------------------------------------------------- defect F2 *)

(* r = Register(4, reset_value=5); r.next <<= r + 1; o <<= r *)
Definition f2_nl : netlist :=
  {| wires := [ mkWire 1 4 (KReg (Some 5)); mkWire 2 4 (KConst 1); mkWire 3 5 KWire;
                mkWire 4 4 KWire; mkWire 5 4 KOutput ];
     nets := [ mkNet OpAdd [1; 2] 3; mkNet (OpSelect [0; 1; 2; 3]) [3] 4;
               mkNet OpW [1] 5; mkNet OpReg [4] 1 ];
     mems := [] |}.

Definition out_trace (nl : netlist) (o : wid) (k : nat) : list Z :=
  map (fun v => v o) (fst (run nl 0 (init_state nl 0 [] []) (repeat (fun _ => 0) k))).

(* copy_block as the code stands: the copy of a design whose register has
   reset_value 5 shows [0;1] on the output where the source shows [5;6] *)
Lemma copy_reset_refuted_of ck :
  ck (KReg (Some 5)) = KReg None -> (forall v, ck (KConst v) = KConst v) ->
  ck KWire = KWire -> ck KOutput = KOutput ->
  out_trace f2_nl 5 2 = [5; 6]
  /\ out_trace (fst (copy_with ck f2_nl)) (snd (copy_with ck f2_nl) 5) 2 = [0; 1]
  /\ fst (copy_with ck f2_nl) <> rename (snd (copy_with ck f2_nl)) f2_nl.
Proof.
  intros H1 H2 H3 H4. unfold copy_with, f2_nl.
  cbn [fst snd wires nets mems map]. unfold clone_wire. cbn [wname wwidth wkind].
  rewrite H1, H2, H3, H4. vm_compute. repeat split; try reflexivity. intro H. discriminate H.
Qed.
