(* C04 -- decidable side conditions of the pass-correctness theorems
   (definitions only; evaluated by the harness on every sampled design, so the
   premises of the theorems are known to hold of the designs the real passes
   were run on). *)
From PyRTL Require Import Netlist.Sem Netlist.WFDefs Pass.Opt.

Definition kind_eqb (a b : kind) : bool :=
  match a, b with
  | KWire, KWire | KInput, KInput | KOutput, KOutput => true
  | KConst x, KConst y => x =? y
  | KReg None, KReg None => true
  | KReg (Some x), KReg (Some y) => x =? y
  | _, _ => false
  end.

Definition owire_eqb (a b : option wire) : bool :=
  match a, b with
  | None, None => true
  | Some x, Some y => (wname x =? wname y) && (wwidth x =? wwidth y) && kind_eqb (wkind x) (wkind y)
  | _, _ => false
  end.

(* wire w is untouched by a net-dropping pass: no dropped net writes it and its
   declaration is the same before and after *)
Definition same_wire (nl nl' : netlist) (keep : net -> bool) (w : wid) : bool :=
  negb (mem_in w (map ndest (filter (fun n => negb (keep n)) (nets nl))))
  && owire_eqb (find_wire (wires nl') w) (find_wire (wires nl) w).

(* premises of Pass/OptProofs.dead_run for "nl' = nl without the nets not kept" *)
Definition dead_pass_ok (nl nl' : netlist) (keep : net -> bool) : bool :=
  forallb (fun n => keep n || op_has_dest (nop n)) (nets nl)
  && same_wire nl nl' keep 0
  && forallb (fun n => if keep n
                       then forallb (same_wire nl nl' keep) (nargs n)
                            && (if op_has_dest (nop n) then same_wire nl nl' keep (ndest n) else true)
                       else true) (nets nl).

Definition unlistened_ok (nl : netlist) : bool :=
  dead_pass_ok nl (remove_unlistened_nets nl) (listened_net nl (listened_wires nl)).

(* What the construction API guarantees beyond Block.sanity_check (which also
   accepts truncating destinations): identity-like and bitwise nets have a
   destination exactly as wide as their argument(s); select indices are inside
   the source and the destination is as wide as the index list. *)
Definition api_net_ok (nl : netlist) (n : net) : bool :=
  let wd := width_of nl (ndest n) in
  match nop n with
  | OpW | OpNot | OpReg => wd =? width_of nl (arg n 0)
  | OpAnd | OpOr | OpXor | OpNand =>
      (wd =? width_of nl (arg n 0)) && (width_of nl (arg n 0) =? width_of nl (arg n 1))
  | OpSelect idx =>
      forallb (fun i => (0 <=? i) && (i <? width_of nl (arg n 0))) idx
      && (wd =? Z.of_nat (length idx))
  | _ => true
  end.

Definition api_built (nl : netlist) : bool := forallb (api_net_ok nl) (nets nl).

(* ---- premises of Pass/OptAliasProofs.alias_run for remove_nets_by ------------- *)

Definition alias_gone (nl : netlist) (sel : net -> bool) (n : net) : bool :=
  sel n && negb (is_output nl (ndest n)).

Definition alias_map (nl : netlist) (sel : net -> bool) : list (Z * Z) :=
  flat_map (fun n => if alias_gone nl sel n then [(ndest n, arg n 0)] else []) (nets nl).

Definition alias_rho (nl : netlist) (sel : net -> bool) : wid -> wid :=
  find_producer (S (length (nets nl))) (alias_map nl sel).

Definition alias_dead (nl : netlist) (sel : net -> bool) : list wid :=
  flat_map (fun n => if alias_gone nl sel n then [ndest n] else []) (nets nl).

Definition alias_ok (nl : netlist) (sel : net -> bool) : bool :=
  let rho := alias_rho nl sel in
  let dead := alias_dead nl sel in
  forallb (fun n => if alias_gone nl sel n
                    then (rho (ndest n) =? rho (arg n 0))
                         && Nat.eqb (length (nargs n)) 1
                         && (width_of nl (ndest n) =? width_of nl (arg n 0))
                    else true) (nets nl)
  && forallb (fun w => (mem_in w dead || (rho w =? w))
                       && (width_of nl (rho w) =? width_of nl w)
                       && negb (mem_in (rho w) dead)) (rdy_final nl)
  && forallb (fun w => negb (mem_in w dead)) (rdy0 nl)
  && forallb (fun n => alias_gone nl sel n || negb (op_has_dest (nop n))
                       || negb (mem_in (ndest n) dead)) (nets nl).

(* sanity_check's rules for a select: indices inside the source, destination not
   wider than the index list *)
Definition slices_sane (nl : netlist) : bool :=
  forallb (fun n => match nop n with
                    | OpSelect idx =>
                        forallb (fun i => (0 <=? i) && (i <? width_of nl (arg n 0))) idx
                        && (width_of nl (ndest n) <=? Z.of_nat (length idx))
                    | _ => true
                    end) (nets nl).

Definition wire_removal_ok (nl : netlist) : bool := alias_ok nl is_w_net.
Definition slice_removal_ok (nl : netlist) : bool :=
  alias_ok nl (is_full_slice nl) && slices_sane nl.

(* ---- _constant_prop_pass as an instance of Pass/OptSimProofs: the pieces and the
        decidable premises of its preservation theorem ------------------------------ *)

Definition cp_kid (nl : netlist) (n : net) : Z := max_wid nl + 1 + ndest n.
Definition cp_res (nl : netlist) (n : net) := cp_apply nl (cp_kid nl n) n.
Definition cp_map (nl : netlist) : list (Z * Z) :=
  flat_map (fun n => snd (fst (cp_res nl n))) (nets nl).
Definition cp_rho (nl : netlist) : wid -> wid :=
  find_producer (S (length (nets nl))) (cp_map nl).
Definition cp_tr (nl : netlist) (n : net) : list net :=
  map (map_args (cp_rho nl)) (fst (fst (cp_res nl n))).
Definition cp_K (nl : netlist) : list wid :=
  flat_map (fun n => map wname (snd (cp_res nl n))) (nets nl).

(* registers whose next-value net is folded to a constant, and that constant *)
Definition cp_fold_net (nl : netlist) (n : net) : bool :=
  match nop n, cp_decide nl n with
  | OpReg, CpConst _ => true
  | _, _ => false
  end.
Definition cp_folded (nl : netlist) (r : wid) : bool :=
  existsb (fun n => cp_fold_net nl n && (ndest n =? r)) (nets nl).
Definition cp_cst (nl : netlist) (r : wid) : Z :=
  match find (fun n => cp_fold_net nl n && (ndest n =? r)) (nets nl) with
  | Some n => const_val nl (arg n 0) mod 2 ^ width_of nl r
  | None => 0
  end.

Definition declared (nl : netlist) (w : wid) : bool :=
  match find_wire (wires nl) w with Some _ => true | None => false end.
Definition is_kconst (nl : netlist) (k c : Z) : bool :=
  match kind_of nl k with KConst c' => c' =? c | _ => false end.

Section CpOk.
Variable nl nl' : netlist.
Variable rho : wid -> wid.
Variable K : list wid.

(* the destination of an emitted net keeps its identity and width *)
Definition cp_keep_dest_g (d : wid) : bool :=
  (rho d =? d) && negb (mem_in d K) && (width_of nl' d =? width_of nl d).

(* width premises of cp_decide_sound (true of API-built nets) *)
Definition cp_sound_pre_g (n : net) : bool :=
  (width_of nl (ndest n) <=? width_of nl (arg n 0))
  && match nargs n with [a; b] => width_of nl a =? width_of nl b | _ => true end.

Definition cp_alias_const_g (d k c : Z) : bool :=
  (rho d =? k) && mem_in k K && (if declared nl' k then is_kconst nl' k c else true).

Definition cp_comb_ok_g (n : net) : bool :=
  let d := ndest n in
  let k := cp_kid nl n in
  let wd := width_of nl d in
  match cp_decide nl n with
  | CpKeep =>
      cp_keep_dest_g d
      && forallb (fun a => declared nl' (rho a) && (width_of nl' (rho a) =? width_of nl a)) (nargs n)
  | CpConst c =>
      cp_sound_pre_g n
      && if is_output nl d
         then cp_keep_dest_g d && (rho k =? k) && mem_in k K && declared nl' k
              && is_kconst nl' k (c mod 2 ^ wd)
         else cp_alias_const_g d k (c mod 2 ^ wd)
  | CpWire w =>
      cp_sound_pre_g n
      && if is_output nl d then cp_keep_dest_g d && declared nl' (rho w) else (rho d =? rho w)
  | CpNot w =>
      cp_sound_pre_g n && cp_keep_dest_g d && declared nl' (rho w)
      && (width_of nl' (rho w) =? width_of nl w)
  end.

Definition cp_reg_ok_g (n : net) : bool :=
  let d := ndest n in
  match cp_decide nl n with
  | CpKeep => negb (cp_folded nl d) && (width_of nl' d =? width_of nl d) && declared nl' (rho (arg n 0))
  | CpConst _ =>
      negb (is_output nl d) && is_register nl d && is_const nl (arg n 0)
      && (cp_cst nl d =? const_val nl (arg n 0) mod 2 ^ width_of nl d)
      && cp_alias_const_g d (cp_kid nl n) (cp_cst nl d)
  | _ => false
  end.

Definition cp_wr_ok_g (n : net) : bool :=
  match cp_decide nl n with
  | CpKeep => forallb (fun a => declared nl' (rho a)) (nargs n)
  | _ => false
  end.

Definition cp_net_ok_g (n : net) : bool :=
  if is_comb (nop n) then cp_comb_ok_g n
  else match nop n with
       | OpReg => cp_reg_ok_g n
       | _ => cp_wr_ok_g n
       end.

Definition cp_base_ok_g (w : wid) : bool :=
  cp_folded nl w
  || ((rho w =? w)
      && (if declared nl' w then owire_eqb (find_wire (wires nl') w) (find_wire (wires nl) w) else true)).

End CpOk.

Definition cp_keep_dest (nl : netlist) := cp_keep_dest_g nl (constant_prop_pass nl) (cp_rho nl) (cp_K nl).
Definition cp_sound_pre (nl : netlist) := cp_sound_pre_g nl.
Definition cp_alias_const (nl : netlist) := cp_alias_const_g (constant_prop_pass nl) (cp_rho nl) (cp_K nl).
Definition cp_comb_ok (nl : netlist) := cp_comb_ok_g nl (constant_prop_pass nl) (cp_rho nl) (cp_K nl).
Definition cp_reg_ok (nl : netlist) := cp_reg_ok_g nl (constant_prop_pass nl) (cp_rho nl) (cp_K nl).
Definition cp_wr_ok (nl : netlist) := cp_wr_ok_g nl (constant_prop_pass nl) (cp_rho nl).
Definition cp_net_ok (nl : netlist) := cp_net_ok_g nl (constant_prop_pass nl) (cp_rho nl) (cp_K nl).
Definition cp_base_ok (nl : netlist) := cp_base_ok_g nl (constant_prop_pass nl) (cp_rho nl).

(* the pass result, the producer map and the fresh constants are computed once *)
Definition cp_pass_ok (nl : netlist) : bool :=
  let nl' := constant_prop_pass nl in
  let m := cp_map nl in
  let rho := find_producer (S (length (nets nl))) m in
  let K := cp_K nl in
  forallb (cp_net_ok_g nl nl' rho K) (nets nl) && forallb (cp_base_ok_g nl nl' rho) (rdy0 nl).


(* ---- links between a netlist and the result of one pass round (decidable) ------ *)

Definition is_out_kind (k : kind) : bool := match k with KOutput => true | _ => false end.
Definition is_src_kind (k : kind) : bool :=
  match k with KInput | KReg _ => true | _ => false end.

(* every Output of nl is represented by itself and is still declared, unchanged, in nl';
   every Input of nl is still declared, unchanged, in nl' (Inputs and Outputs are kept);
   every Input / Register of nl' is one of nl, unchanged (nothing is invented) *)
Definition link_ok (nl nl' : netlist) (rho : wid -> wid) : bool :=
  forallb (fun x => if is_out_kind (wkind x)
                    then (rho (wname x) =? wname x)
                         && owire_eqb (find_wire (wires nl') (wname x)) (find_wire (wires nl) (wname x))
                    else true) (wires nl)
  && forallb (fun x => match wkind x with
                       | KInput => owire_eqb (find_wire (wires nl') (wname x)) (find_wire (wires nl) (wname x))
                       | _ => true
                       end) (wires nl)
  && forallb (fun x' => if is_src_kind (wkind x')
                        then owire_eqb (find_wire (wires nl) (wname x')) (find_wire (wires nl') (wname x'))
                        else true) (wires nl').

(* `while shrinking: pass` with a per-round decidable premise *)
Fixpoint loop_ok (ok : netlist -> bool) (fuel : nat) (pass : netlist -> netlist)
         (prev : Z) (nl : netlist) : bool :=
  match fuel with
  | O => true
  | S f =>
      let cur := Z.of_nat (length (nets nl)) in
      if cur <=? prev - 1 then ok nl && loop_ok ok f pass cur (pass nl) else true
  end.

Definition shrinking_ok (ok : netlist -> bool) (pass : netlist -> netlist) (nl : netlist) : bool :=
  loop_ok ok (S (S (length (nets nl)))) pass (1000 * Z.of_nat (length (nets nl))) nl.

Definition cp_round_ok (nl : netlist) : bool :=
  wfb nl && cp_pass_ok nl
  && (let m := cp_map nl in
      link_ok nl (constant_prop_pass nl) (find_producer (S (length (nets nl))) m)).

Definition constant_propagation_ok (nl : netlist) : bool :=
  shrinking_ok cp_round_ok constant_prop_pass nl.

(* ---- one CSE round as an instance of Pass/OptSimProofs --------------------------- *)

Definition net_eqb (a b : net) : bool :=
  op_eqb (nop a) (nop b) && list_Z_eqb (nargs a) (nargs b) && (ndest a =? ndest b).

Fixpoint nets_eqb (a b : list net) : bool :=
  match a, b with
  | [], [] => true
  | x :: a', y :: b' => net_eqb x y && nets_eqb a' b'
  | _, _ => false
  end.

Definition cse_wm (nl : netlist) : list (Z * Z) := snd (cse_scan nl [] (nets nl)).
Definition rho_of (wm : list (Z * Z)) (w : wid) : wid :=
  match assoc wm w with Some d => d | None => w end.
Definition cse_gone_g (nl : netlist) (wm : list (Z * Z)) (n : net) : bool :=
  normal_dest nl n && match assoc wm (ndest n) with Some _ => true | None => false end.
Definition cse_tr_g (nl : netlist) (wm : list (Z * Z)) (n : net) : list net :=
  if cse_gone_g nl wm n then [] else [map_args (rho_of wm) n].

(* a discarded net has an earlier net with the same key, an equally wide destination,
   and that destination is what it is replaced by; a kept net's wires keep their widths *)
Definition cse_net_ok_g (nl nl' : netlist) (wm : list (Z * Z)) (pre : list net) (n : net) : bool :=
  let rho := rho_of wm in
  let d := ndest n in
  if cse_gone_g nl wm n then
    is_comb (nop n)
    && existsb (fun n0 => (ndest n0 =? rho d) && key_eqb (cse_key nl n0) (cse_key nl n)
                          && is_comb (nop n0)
                          && (width_of nl (ndest n0) =? width_of nl d)) pre
    && (rho (rho d) =? rho d)
  else
    forallb (fun a => declared nl' (rho a) && (width_of nl' (rho a) =? width_of nl a)) (nargs n)
    && (if op_has_dest (nop n) then (rho d =? d) && (width_of nl' d =? width_of nl d) else true).

Fixpoint cse_nets_ok_g (nl nl' : netlist) (wm : list (Z * Z)) (pre ns : list net) : bool :=
  match ns with
  | [] => true
  | n :: r => cse_net_ok_g nl nl' wm pre n && cse_nets_ok_g nl nl' wm (pre ++ [n]) r
  end.

Definition cse_base_ok_g (nl nl' : netlist) (wm : list (Z * Z)) (w : wid) : bool :=
  (rho_of wm w =? w)
  && (if declared nl' w then owire_eqb (find_wire (wires nl') w) (find_wire (wires nl) w) else true).

Definition cse_rho (nl : netlist) : wid -> wid := rho_of (cse_wm nl).
Definition cse_gone (nl : netlist) := cse_gone_g nl (cse_wm nl).
Definition cse_tr (nl : netlist) := cse_tr_g nl (cse_wm nl).
Definition cse_net_ok (nl : netlist) := cse_net_ok_g nl (cse_round nl) (cse_wm nl).
Definition cse_nets_ok (nl : netlist) := cse_nets_ok_g nl (cse_round nl) (cse_wm nl).
Definition cse_base_ok (nl : netlist) := cse_base_ok_g nl (cse_round nl) (cse_wm nl).

(* the round's result and its wire map are computed once *)
Definition cse_pass_ok (nl : netlist) : bool :=
  let wm := cse_wm nl in
  let nl' := cse_round nl in
  nets_eqb (nets nl') (flat_map (cse_tr_g nl wm) (nets nl))
  && cse_nets_ok_g nl nl' wm [] (nets nl)
  && forallb (cse_base_ok_g nl nl' wm) (rdy0 nl).

Definition cse_round_ok (nl : netlist) : bool :=
  wfb nl && cse_pass_ok nl && (let wm := cse_wm nl in link_ok nl (cse_round nl) (rho_of wm)).

Definition cse_ok (nl : netlist) : bool := shrinking_ok cse_round_ok cse_round nl.

(* ---- stages of optimize() and their decidable premises --------------------------- *)

Definition id_rho (w : wid) : wid := w.

Definition wire_stage_ok (nl : netlist) : bool :=
  wfb nl && wire_removal_ok nl && link_ok nl (remove_wire_nets nl) id_rho.

Definition slice_stage_ok (nl : netlist) : bool :=
  wfb nl && slice_removal_ok nl && link_ok nl (remove_slice_nets nl) id_rho.

Definition unlistened_stage_ok (nl : netlist) : bool :=
  unlistened_ok nl
  && forallb (fun x => if is_out_kind (wkind x)
                       then same_wire nl (remove_unlistened_nets nl)
                                      (listened_net nl (listened_wires nl)) (wname x)
                       else true) (wires nl)
  && link_ok nl (remove_unlistened_nets nl) id_rho.

Definition optimize_ok (nl : netlist) : bool :=
  let n1 := remove_wire_nets nl in
  let n2 := remove_slice_nets n1 in
  let n3 := constant_propagation n2 in
  let n4 := remove_unlistened_nets n3 in
  wire_stage_ok nl && slice_stage_ok n1 && constant_propagation_ok n2
  && unlistened_stage_ok n3 && cse_ok n4.

(* ---- the steady-state hypothesis, decidably (evaluated on the harness's initial state) *)

Definition cp_steadyb (nl : netlist) (rg : wid -> Z) : bool :=
  forallb (fun n => if cp_fold_net nl n then rg (ndest n) =? cp_cst nl (ndest n) else true) (nets nl).

Fixpoint cp_loop_steadyb (fuel : nat) (prev : Z) (nl : netlist) (rg : wid -> Z) : bool :=
  match fuel with
  | O => true
  | S f =>
      let cur := Z.of_nat (length (nets nl)) in
      if cur <=? prev - 1
      then cp_steadyb nl rg && cp_loop_steadyb f cur (constant_prop_pass nl) rg
      else true
  end.

Definition constant_propagation_steadyb (nl : netlist) (rg : wid -> Z) : bool :=
  cp_loop_steadyb (S (S (length (nets nl)))) (1000 * Z.of_nat (length (nets nl))) nl rg.

Definition optimize_steadyb (nl : netlist) (rg : wid -> Z) : bool :=
  constant_propagation_steadyb (remove_slice_nets (remove_wire_nets nl)) rg.
