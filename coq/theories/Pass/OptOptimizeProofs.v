(* C04 -- optimize() = _remove_wire_nets ; _remove_slice_nets ; constant_propagation ;
   _remove_unlistened_nets ; common_subexp_elimination preserves every Output on every
   cycle (composition of the per-pass theorems), and so does repeated application. *)
From PyRTL Require Import Netlist.Sem Netlist.WFDefs Gen.ConstFold Pass.Opt Pass.OptCheck
  Pass.OptProofs Pass.OptDeadProofs Pass.OptAliasProofs Pass.OptRemoveProofs Pass.OptSimProofs
  Pass.OptCpProofs Pass.OptLoopProofs Pass.OptCpLoopProofs Pass.OptCseProofs.
From PyRTL Require Import Sim.SimModel Sim.SimCorrect.
From Coq Require Import ZifyBool.

Local Open Scope Z_scope.

(* the common shape of a stage's theorem *)
Definition stage_preserves (dflt : Z) (nl nl' : netlist) (inss : list (wid -> Z)) (st : state) : Prop :=
  Forall2 (out_eq nl) (fst (run nl dflt st inss)) (fst (run nl' dflt st inss))
  /\ outs_sub nl nl'
  /\ Forall (legal_ins nl') inss /\ legal_regs nl' (sregs st).

Lemma stage_compose dflt nl1 nl2 nl3 inss st :
  stage_preserves dflt nl1 nl2 inss st -> stage_preserves dflt nl2 nl3 inss st ->
  stage_preserves dflt nl1 nl3 inss st.
Proof.
  intros [R1 [S1 _]] [R2 [S2 [I2 G2]]]. split; [eapply out_eq_trans; eassumption|].
  split; [intros o Ho; apply S2; apply S1; assumption|auto].
Qed.

Lemma link_stage dflt nl nl' rho inss st :
  link_ok nl nl' rho = true -> Forall (legal_ins nl) inss -> legal_regs nl (sregs st) ->
  Forall2 (out_eq nl) (fst (run nl dflt st inss)) (fst (run nl' dflt st inss)) ->
  stage_preserves dflt nl nl' inss st.
Proof.
  intros Hlink Hins Hregs HR. split; [assumption|]. split; [exact (link_outs_sub _ _ _ Hlink)|].
  split; [eapply Forall_impl; [|exact Hins]; intros ins; apply (link_legal_ins _ _ _ Hlink)|].
  exact (link_legal_regs _ _ _ Hlink _ Hregs).
Qed.

Lemma st_eq_refl st : st_eq st st.
Proof. split; reflexivity. Qed.

(* an Output is never the destination of a removed identity net *)
Lemma output_not_alias_dead nl sel o : is_output nl o = true -> ~ In o (alias_dead nl sel).
Proof.
  intros Ho Hin. unfold alias_dead in Hin. apply in_flat_map in Hin. destruct Hin as [n [_ Hn]].
  destruct (alias_gone nl sel n) eqn:Eg; [|destruct Hn].
  destruct Hn as [<-|[]]. unfold alias_gone in Eg. apply andb_true_iff in Eg. destruct Eg as [_ Eg].
  rewrite Ho in Eg. discriminate.
Qed.

Lemma survives_out_eq nl sel v v' : wfb nl = true -> survives nl sel v v' -> out_eq nl v v'.
Proof.
  intros Hwf Hs o Ho. apply Hs; [apply output_in_rdy_final; assumption|].
  apply output_not_alias_dead. assumption.
Qed.

Theorem wire_stage dflt nl inss st : wire_stage_ok nl = true ->
  Forall (legal_ins nl) inss -> legal_regs nl (sregs st) ->
  stage_preserves dflt nl (remove_wire_nets nl) inss st.
Proof.
  intros Hok Hins Hregs. unfold wire_stage_ok in Hok.
  apply andb_true_iff in Hok. destruct Hok as [Hok Hlink].
  apply andb_true_iff in Hok. destruct Hok as [Hwf Hok].
  apply (link_stage dflt _ _ _ _ _ Hlink Hins Hregs).
  eapply Forall2_weaken'; [|exact (remove_wire_nets_preserves nl dflt Hwf Hok inss st st (st_eq_refl st) Hins Hregs)].
  intros v v'. apply survives_out_eq. assumption.
Qed.

Theorem slice_stage dflt nl inss st : slice_stage_ok nl = true ->
  Forall (legal_ins nl) inss -> legal_regs nl (sregs st) ->
  stage_preserves dflt nl (remove_slice_nets nl) inss st.
Proof.
  intros Hok Hins Hregs. unfold slice_stage_ok in Hok.
  apply andb_true_iff in Hok. destruct Hok as [Hok Hlink].
  apply andb_true_iff in Hok. destruct Hok as [Hwf Hok].
  apply (link_stage dflt _ _ _ _ _ Hlink Hins Hregs).
  eapply Forall2_weaken'; [|exact (remove_slice_nets_preserves nl dflt Hwf Hok inss st st (st_eq_refl st) Hins Hregs)].
  intros v v'. apply survives_out_eq. assumption.
Qed.

Theorem unlistened_stage dflt nl inss st : unlistened_stage_ok nl = true ->
  Forall (legal_ins nl) inss -> legal_regs nl (sregs st) ->
  stage_preserves dflt nl (remove_unlistened_nets nl) inss st.
Proof.
  intros Hok Hins Hregs. unfold unlistened_stage_ok in Hok.
  apply andb_true_iff in Hok. destruct Hok as [Hok Hlink].
  apply andb_true_iff in Hok. destruct Hok as [Hok Houts].
  apply (link_stage dflt _ _ _ _ _ Hlink Hins Hregs).
  destruct (remove_unlistened_preserves nl dflt Hok) as [_ Hrun].
  eapply Forall2_weaken'; [|apply (Hrun inss st st); split; [intros w _; reflexivity|reflexivity]].
  intros v v' Ha o Ho. apply Ha. unfold dead.
  unfold is_output, kind_of in Ho. destruct (find_wire (wires nl) o) as [x|] eqn:E; [|discriminate].
  destruct (find_wire_In _ _ _ E) as [Hx Hn]. subst o.
  rewrite forallb_forall in Houts. specialize (Houts x Hx).
  assert (Hk : is_out_kind (wkind x) = true) by (destruct (wkind x); try discriminate Ho; reflexivity).
  rewrite Hk in Houts. rewrite Houts. discriminate.
Qed.

Definition optimize_steady (nl : netlist) (st : state) : Prop :=
  cp_loop_steady (remove_slice_nets (remove_wire_nets nl)) st.

Theorem optimize_preserves nl dflt : optimize_ok nl = true ->
  forall inss st, optimize_steady nl st ->
  Forall (legal_ins nl) inss -> legal_regs nl (sregs st) ->
  stage_preserves dflt nl (optimize nl) inss st.
Proof.
  intros Hok inss st Hst Hins Hregs. unfold optimize_ok in Hok. cbv zeta in Hok.
  apply andb_true_iff in Hok. destruct Hok as [Hok H5].
  apply andb_true_iff in Hok. destruct Hok as [Hok H4].
  apply andb_true_iff in Hok. destruct Hok as [Hok H3].
  apply andb_true_iff in Hok. destruct Hok as [H1 H2].
  pose proof (wire_stage dflt nl inss st H1 Hins Hregs) as P1.
  destruct P1 as [R1 [S1 [I1 G1]]].
  pose proof (slice_stage dflt _ inss st H2 I1 G1) as P2. destruct P2 as [R2 [S2 [I2 G2]]].
  pose proof (constant_propagation_preserves _ dflt H3 inss st Hst I2 G2) as P3.
  destruct P3 as [R3 [S3 [I3 G3]]].
  pose proof (unlistened_stage dflt _ inss st H4 I3 G3) as P4. destruct P4 as [R4 [S4 [I4 G4]]].
  pose proof (cse_preserves _ dflt H5 inss st I4 G4) as P5.
  unfold optimize.
  eapply stage_compose; [|exact P5].
  eapply stage_compose; [|exact (conj R4 (conj S4 (conj I4 G4)))].
  eapply stage_compose; [|exact (conj R3 (conj S3 (conj I3 G3)))].
  eapply stage_compose; [|exact (conj R2 (conj S2 (conj I2 G2)))].
  exact (conj R1 (conj S1 (conj I1 G1))).
Qed.

(* repeated application *)
Theorem optimize_twice_preserves nl dflt :
  optimize_ok nl = true -> optimize_ok (optimize nl) = true ->
  forall inss st, optimize_steady nl st -> optimize_steady (optimize nl) st ->
  Forall (legal_ins nl) inss -> legal_regs nl (sregs st) ->
  stage_preserves dflt nl (optimize (optimize nl)) inss st.
Proof.
  intros H1 H2 inss st S1 S2 Hins Hregs.
  pose proof (optimize_preserves nl dflt H1 inss st S1 Hins Hregs) as P1.
  destruct P1 as [R1 [O1 [I1 G1]]].
  eapply stage_compose; [exact (conj R1 (conj O1 (conj I1 G1)))|].
  exact (optimize_preserves _ dflt H2 inss st S2 I1 G1).
Qed.

(* Inputs are kept by a linked round as well *)
Lemma link_inputs_kept nl nl' rho : link_ok nl nl' rho = true ->
  forall w, is_input nl w = true -> is_input nl' w = true.
Proof.
  intros Hlink w Hw. destruct (link_parts nl nl' rho Hlink) as [_ [L2 _]].
  unfold is_input, kind_of in *. destruct (find_wire (wires nl) w) as [x|] eqn:E; [|discriminate].
  destruct (find_wire_In _ _ _ E) as [Hx Hn]. subst w.
  assert (Hk : wkind x = KInput) by (destruct (wkind x); try discriminate Hw; reflexivity).
  rewrite (L2 x Hx Hk), E. exact Hw.
Qed.
