(* C09 -- the DECIDABLE hypotheses of the C09 theorems (definitions only, no
   proofs): the harness evaluates them on every design it dumps, so the premises
   of the theorems are known to hold of the designs the implementation ran on. *)
From PyRTL Require Export Pass.Lower.

(* destinations written during the combinational phase *)
Definition cdests (ns : list net) : list wid :=
  map ndest (filter (fun n => is_comb (nop n)) ns).

(* in list order: a combinational net has a legal arity, its destination is not
   written again later (single driver), and none of its arguments is written by
   itself or later (written before read).  Decidable; evaluated by the harness. *)
Fixpoint seq_okb (ns : list net) : bool :=
  match ns with
  | [] => true
  | n :: r =>
      (if is_comb (nop n)
       then arity_ok (nop n) (length (nargs n))
            && negb (mem_in (ndest n) (cdests r))
            && forallb (fun a => negb (mem_in a (cdests (n :: r)))) (nargs n)
       else true)
      && seq_okb r
  end.


Definition sumwidths (nl : netlist) (l : list wid) : Z := fold_right Z.add 0 (map (width_of nl) l).


(* the decidable form evaluated by the harness on every design *)
Definition lower_net_okb (nl : netlist) (n : net) : bool :=
  match nop n with
  | OpAnd | OpOr | OpXor | OpNand =>
      match nargs n with
      | [a; b] => (width_of nl a =? width_of nl b) && (0 <=? width_of nl (ndest n))
                  && (width_of nl (ndest n) <=? width_of nl a)
      | _ => false
      end
  | OpConcat => width_of nl (ndest n) <=? sumwidths nl (nargs n)
  | _ => true
  end.

Definition lower_okb (nl : netlist) : bool :=
  forallb (fun x => 0 <=? wwidth x) (wires nl) && forallb (lower_net_okb nl) (nets nl).


Definition outputs_unreadb (nl : netlist) : bool :=
  forallb (fun x => negb (is_output_kind (wkind x))
                    || forallb (fun n => negb (mem_in (wname x) (nargs n))) (nets nl)) (wires nl).


Definition noncomb_okb (nl : netlist) : bool :=
  forallb (fun n => is_comb (nop n)
                    || (arity_ok (nop n) (length (nargs n))
                        && match nop n with
                           | OpReg => negb (mem_in (ndest n) (cdests (nets nl)))
                           | _ => true
                           end)) (nets nl).


Definition dco_pass_okb (nl : netlist) : bool :=
  seq_okb (nets nl) && seq_okb (nets (dco_with dco_skips nl)) && outputs_unreadb nl && noncomb_okb nl.

Fixpoint dco_iter_okb (fuel : nat) (nl : netlist) : bool :=
  match fuel with
  | O => true
  | S f => if dco_changes dco_skips nl
           then dco_pass_okb nl && dco_iter_okb f (dco_with dco_skips nl)
           else true
  end.


(* hypothesis of the theorem for the pass itself *)
Definition dco_okb (nl : netlist) : bool := dco_iter_okb (length (nets nl)) nl.


(* ---------- the root of a tree wire ---------- *)
Fixpoint phi (tab : list tentry) (y : wid) : wid :=
  match tab with
  | [] => y
  | e :: r => if mem_in y (map ndest (te_nets e)) then te_wire e else phi r y
  end.

(* ---------- the decidable check on the model's output ---------- *)
Definition tab_okb (next : Z) (nl nl' : netlist) (tab0 : list tentry) : bool :=
  forallb (fun e =>
    (te_wire e <? next)
    && forallb (fun m => match nop m, nargs m with
                         | OpW, [p] => (phi tab0 p =? te_wire e) && (phi tab0 (ndest m) =? te_wire e)
                                       && (next <=? ndest m)
                                       && (width_of nl' (ndest m) =? width_of nl (te_wire e))
                         | _, _ => false
                         end) (te_nets e)
    && forallb (fun l => (phi tab0 l =? te_wire e) && (width_of nl' l =? width_of nl (te_wire e)))
               (te_leaves e)) tab0.

Definition new_reads_driven (next : Z) (ns' : list net) : bool :=
  forallb (fun a => (a <? next) || mem_in a (cdests ns')) (flat_map nargs ns').

Definition noncomb_arity (ns : list net) : bool :=
  forallb (fun n => is_comb (nop n) || arity_ok (nop n) (length (nargs n))) ns.

Definition fanout_okb (next : Z) (nl : netlist) : bool :=
  let nl' := two_way_fanout_at next nl in
  (fresh nl <=? next)
  && seq_okb (nets nl) && seq_okb (nets nl')
  && tab_okb next nl nl' (fst (build_tab (nets nl) (wires nl) next))
  && new_reads_driven next (nets nl')
  && noncomb_arity (nets nl).

