(* C04 -- a general simulation theorem for net-rewriting passes.

   A pass turns the (topologically ordered) net list of nl into
   nets nl' = flat_map tr (nets nl): each net is dropped (its destination d is
   from now on represented by the wire rho d of nl'), or replaced by one net
   with the same destination.  K are wires of nl' that no net of nl' drives
   (fresh constants).  `folded` registers are registers whose next-value net is
   dropped because it is the constant cst r (the sanctioned steady-state rule).

   From per-net semantic step conditions (Hstep / Hreg / Hwr) the theorem
   derives, for every cycle of every input sequence, from related states:
       v w = v' (rho w)   for every wire w of nl whose representative is declared in nl'.
   The passes instantiate the step conditions from their local soundness lemmas. *)
From PyRTL Require Import Netlist.Sem Netlist.WFDefs Pass.Opt Pass.OptAliasProofs.
From PyRTL Require Import Sim.SimModel Sim.SimCorrect.
From Coq Require Import ZifyBool.

Local Open Scope Z_scope.

Lemma exec_dest_ext nl st v1 v2 n : is_comb (nop n) = true ->
  arity_ok (nop n) (length (nargs n)) = true ->
  (forall a, In a (nargs n) -> v1 a = v2 a) ->
  exec_spec nl st v1 n (ndest n) = exec_spec nl st v2 n (ndest n).
Proof.
  intros Hc Har Hargs. unfold exec_spec.
  assert (Hav : argvals nl v1 n = argvals nl v2 n).
  { unfold argvals. apply map_ext_in. intros a Ha. rewrite (Hargs a Ha). reflexivity. }
  rewrite Hav.
  destruct (nop n) eqn:Eop; try discriminate Hc;
    try (match goal with
         | |- context [op_spec ?o ?l] =>
             destruct (op_spec_some o l) as [x Hx];
             [ reflexivity | unfold argvals; rewrite map_length; exact Har
             | intros m0; discriminate | rewrite Hx, !upd_same; reflexivity ]
         end).
  (* memory read *)
  simpl in Har. apply Nat.eqb_eq in Har.
  destruct (nargs n) as [|a0 [|a1 r]] eqn:Eargs; try discriminate Har.
  unfold arg. rewrite Eargs. cbn [nth]. rewrite (Hargs a0 (or_introl eq_refl)), !upd_same.
  reflexivity.
Qed.

Lemma in_app_weaken {A} (x d : A) K rdy : In x (K ++ rdy) -> In x (K ++ d :: rdy).
Proof. intros H. apply in_app_or in H. apply in_or_app. destruct H; [left|right; right]; assumption. Qed.

Section Sim.
Variable nl nl' : netlist.
Variable tr : net -> list net.
Variable rho : wid -> wid.
Variable K : list wid.
Variable folded : wid -> bool.
Variable cst : wid -> Z.
Variable dflt : Z.

Definition declared' (w : wid) : bool :=
  match find_wire (wires nl') w with Some _ => true | None => false end.
Definition live (w : wid) : bool := declared' (rho w).

Definition st_rel (st st' : state) : Prop :=
  (forall r, folded r = false -> sregs st r = sregs st' r)
  /\ (forall r, folded r = true -> sregs st r = cst r)
  /\ (forall m a, smems st m a = smems st' m a).

Definition solved (st : state) (rdy : list wid) (v : wid -> Z) (n0 : net) : Prop :=
  In (ndest n0) rdy /\ (forall a, In a (nargs n0) -> In a rdy)
  /\ arity_ok (nop n0) (length (nargs n0)) = true
  /\ v (ndest n0) = exec_spec nl st v n0 (ndest n0).

Record Inv (pre : list net) (rdy : list wid) (st st' : state) (ins : wid -> Z)
           (v v' : wid -> Z) : Prop := mkInv {
  inv_sim : forall w, In w rdy ->
              (live w = true -> v w = v' (rho w))
              /\ inrange (v w) (width_of nl w) /\ In (rho w) (K ++ rdy);
  inv_base : forall w, In w (rdy0 nl) -> v w = base_val nl dflt st ins w;
  inv_K : forall k, In k K -> v' k = base_val nl' dflt st' ins k;
  inv_solved : forall n0, In n0 pre -> is_comb (nop n0) = true -> solved st rdy v n0 }.

Hypothesis Hwf : wfb nl = true.
Hypothesis Hnets : nets nl' = flat_map tr (nets nl).
Hypothesis Hmems : mems nl' = mems nl.

(* a combinational net: both sides agree on the value x of its destination *)
Hypothesis Hstep : forall pre n post, nets nl = pre ++ n :: post -> is_comb (nop n) = true ->
  forall rdy st st' ins v v', st_rel st st' -> Inv pre rdy st st' ins v v' ->
  (forall a, In a (nargs n) -> In a rdy) -> ~ In (ndest n) rdy ->
  arity_ok (nop n) (length (nargs n)) = true ->
  exists x, exec_spec nl st v n = upd v (ndest n) x /\ inrange x (width_of nl (ndest n)) /\
    ((tr n = [] /\ (live (ndest n) = true -> x = v' (rho (ndest n)))
                /\ In (rho (ndest n)) (K ++ rdy))
     \/ (exists n'', tr n = [n''] /\ is_comb (nop n'') = true
                     /\ exec_spec nl' st' v' n'' = upd v' (ndest n) x
                     /\ rho (ndest n) = ndest n /\ ~ In (ndest n) K)).

(* a register's next-value net: folded to the constant, or kept with its argument redirected *)
Hypothesis Hreg : forall n, In n (nets nl) -> nop n = OpReg ->
  (tr n = [] /\ folded (ndest n) = true
   /\ forall st ins v, (forall w, In w (rdy0 nl) -> v w = base_val nl dflt st ins w) ->
        v (arg n 0) mod 2 ^ width_of nl (ndest n) = cst (ndest n))
  \/ (exists n'', tr n = [n''] /\ nop n'' = OpReg /\ ndest n'' = ndest n
        /\ folded (ndest n) = false /\ arg n'' 0 = rho (arg n 0)
        /\ width_of nl' (ndest n) = width_of nl (ndest n) /\ live (arg n 0) = true).

(* a memory write: kept with its arguments redirected *)
Hypothesis Hwr : forall n m, In n (nets nl) -> nop n = OpMemWr m ->
  exists n'', tr n = [n''] /\ nop n'' = OpMemWr m
    /\ forall i, (i < 3)%nat -> arg n'' i = rho (arg n i) /\ live (arg n i) = true.

(* cycle-start values *)
Hypothesis Hbase : forall st st' ins, st_rel st st' -> forall w, In w (rdy0 nl) ->
  (live w = true -> base_val nl dflt st ins w = base_val nl' dflt st' ins (rho w))
  /\ In (rho w) (K ++ rdy0 nl).

Let Hparts := wfb_parts nl Hwf.
Let Hwidths : forallb (fun x => 0 <=? wwidth x) (wires nl) = true := proj1 Hparts.

Lemma rdy_mono' ns : forall rdy w, In w rdy -> In w (fold_left rdy_next ns rdy).
Proof.
  induction ns as [|n r IH]; intros rdy w Hin; simpl; [assumption|].
  apply IH. unfold rdy_next. destruct (is_comb (nop n)); [right|]; assumption.
Qed.

Lemma noncomb_fold st' : forall l v', (forall n'', In n'' l -> is_comb (nop n'') = false) ->
  fold_left (exec_spec nl' st') l v' = v'.
Proof.
  induction l as [|n'' r IH]; intros v' H; simpl; [reflexivity|].
  rewrite IH by (intros; apply H; right; assumption).
  unfold exec_spec. specialize (H n'' (or_introl eq_refl)).
  destruct (nop n''); try discriminate H; reflexivity.
Qed.

Lemma tr_noncomb n : In n (nets nl) -> is_comb (nop n) = false ->
  forall n'', In n'' (tr n) -> is_comb (nop n'') = false.
Proof.
  intros Hin Hc n'' Hn''. destruct (nop n) eqn:Eop; try discriminate Hc.
  - destruct (Hreg n Hin Eop) as [[Ht _]|[n1 [Ht [Hop _]]]]; rewrite Ht in Hn''.
    + destruct Hn''.
    + destruct Hn'' as [<-|[]]. rewrite Hop. reflexivity.
  - destruct (Hwr n m Hin Eop) as [n1 [Ht [Hop _]]]. rewrite Ht in Hn''.
    destruct Hn'' as [<-|[]]. rewrite Hop. reflexivity.
Qed.

Lemma comb_sim st st' ins : st_rel st st' ->
  forall ns pre rdy v v', nets nl = pre ++ ns -> nets_ok nl rdy ns = true ->
  fold_left rdy_next ns rdy = rdy_final nl -> incl (rdy0 nl) rdy ->
  Inv pre rdy st st' ins v v' ->
  Inv (nets nl) (rdy_final nl) st st' ins (fold_left (exec_spec nl st) ns v)
      (fold_left (exec_spec nl' st') (flat_map tr ns) v').
Proof.
  intros Hst. induction ns as [|n r IH]; intros pre rdy v v' Hsplit Hok Hfin Hb0 HI.
  - simpl in *. subst rdy. rewrite app_nil_r in Hsplit. rewrite Hsplit. assumption.
  - cbn [fold_left flat_map]. rewrite fold_left_app.
    assert (Hin : In n (nets nl)) by (rewrite Hsplit; apply in_or_app; right; left; reflexivity).
    cbn [nets_ok] in Hok. apply andb_true_iff in Hok. destruct Hok as [Hn Hr].
    cbn [fold_left] in Hfin.
    assert (Hsplit' : nets nl = (pre ++ [n]) ++ r) by (rewrite <- app_assoc; exact Hsplit).
    apply (IH (pre ++ [n]) (rdy_next rdy n)); try assumption.
    { unfold rdy_next. destruct (is_comb (nop n)); [intros w Hw; right; apply Hb0|]; assumption. }
    unfold net_ok in Hn. unfold rdy_next. destruct (is_comb (nop n)) eqn:Hc.
    + apply andb_true_iff in Hn. destruct Hn as [Hn Hop].
      apply andb_true_iff in Hn. destruct Hn as [Hn Har].
      apply andb_true_iff in Hn. destruct Hn as [Hargs Hfresh].
      rewrite forallb_forall in Hargs.
      assert (Hargs' : forall a, In a (nargs n) -> In a rdy)
        by (intros a Ha; apply mem_in_In; apply Hargs; assumption).
      assert (Hd : ~ In (ndest n) rdy).
      { intro Hd. apply mem_in_In in Hd. rewrite Hd in Hfresh. discriminate. }
      destruct (Hstep pre n r Hsplit Hc rdy st st' ins v v' Hst HI Hargs' Hd Har)
        as [x [Hex [Hx Hcase]]].
      rewrite Hex.
      destruct HI as [Isim Ibase IK Isol].
      assert (Hsol_new : forall v2, (forall w, In w rdy -> v2 w = v w) -> v2 (ndest n) = x ->
                forall n0, In n0 (pre ++ [n]) -> is_comb (nop n0) = true ->
                solved st (ndest n :: rdy) v2 n0).
      { intros v2 Hsame Hvd n0 Hn0 Hc0. apply in_app_or in Hn0. destruct Hn0 as [Hn0|[<-|[]]].
        - destruct (Isol n0 Hn0 Hc0) as [S1 [S2 [S3 S4]]].
          split; [right; assumption|]. split; [intros a Ha; right; apply S2; assumption|].
          split; [assumption|].
          rewrite (Hsame _ S1), S4. apply exec_dest_ext; try assumption.
          intros a Ha. symmetry. apply Hsame. apply S2. assumption.
        - split; [left; reflexivity|]. split; [intros a Ha; right; apply Hargs'; assumption|].
          split; [assumption|].
          rewrite Hvd.
          assert (Hx' : exec_spec nl st v n (ndest n) = x) by (rewrite Hex; apply upd_same).
          rewrite <- Hx'. apply exec_dest_ext; try assumption.
          intros a Ha. symmetry. apply Hsame. apply Hargs'. assumption. }
      assert (Hv2 : forall w, In w rdy -> upd v (ndest n) x w = v w).
      { intros w Hw. apply upd_other. intro; subst; contradiction. }
      destruct Hcase as [[Ht [Hlive Hrd]]|[n'' [Ht [Hc'' [Hex' [Hrd HdK]]]]]]; rewrite Ht; cbn [fold_left].
      * (* dropped: represented by rho d *)
        constructor.
        -- intros w [<-|Hw].
           ++ rewrite upd_same. split; [assumption|]. split; [assumption|].
              apply in_app_weaken. assumption.
           ++ rewrite (Hv2 w Hw). destruct (Isim w Hw) as [H1 [H2 H3]].
              split; [assumption|]. split; [assumption|apply in_app_weaken; assumption].
        -- intros w Hw. rewrite (Hv2 w (Hb0 w Hw)). apply Ibase. assumption.
        -- assumption.
        -- apply Hsol_new; [assumption|apply upd_same].
      * (* replaced by one net driving the same destination *)
        rewrite Hex'. constructor.
        -- intros w [<-|Hw].
           ++ rewrite Hrd, !upd_same. split; [reflexivity|]. split; [assumption|].
              apply in_or_app. right. left. reflexivity.
           ++ rewrite (Hv2 w Hw). destruct (Isim w Hw) as [H1 [H2 H3]].
              assert (rho w <> ndest n).
              { intro Heq. rewrite Heq in H3. apply in_app_or in H3. destruct H3; contradiction. }
              rewrite upd_other by assumption.
              split; [assumption|]. split; [assumption|apply in_app_weaken; assumption].
        -- intros w Hw. rewrite (Hv2 w (Hb0 w Hw)). apply Ibase. assumption.
        -- intros k Hk. rewrite upd_other by (intro; subst; contradiction). apply IK. assumption.
        -- apply Hsol_new; [assumption|apply upd_same].
    + (* register / memory-write nets do nothing during propagation *)
      rewrite (noncomb_fold st' (tr n) v' (tr_noncomb n Hin Hc)).
      assert (Hex : exec_spec nl st v n = v).
      { unfold exec_spec. destruct (nop n); try discriminate Hc; reflexivity. }
      rewrite Hex. destruct HI as [Isim Ibase IK Isol]. constructor; try assumption.
      intros n0 Hn0 Hc0. apply in_app_or in Hn0. destruct Hn0 as [Hn0|[<-|[]]].
      * apply Isol; assumption.
      * congruence.
Qed.

Definition reg_rel (rg rg' : wid -> Z) : Prop :=
  (forall r, folded r = false -> rg r = rg' r) /\ (forall r, folded r = true -> rg r = cst r).

Lemma nonreg_fold v' : forall l rg', (forall n'', In n'' l -> nop n'' <> OpReg) ->
  fold_left (regnext_spec nl' v') l rg' = rg'.
Proof.
  induction l as [|n'' r IH]; intros rg' H; simpl; [reflexivity|].
  rewrite IH by (intros; apply H; right; assumption).
  unfold regnext_spec. specialize (H n'' (or_introl eq_refl)).
  destruct (nop n''); try reflexivity. congruence.
Qed.

Lemma nonwr_fold v' : forall l ms', (forall n'', In n'' l -> forall m, nop n'' <> OpMemWr m) ->
  fold_left (write_spec v') l ms' = ms'.
Proof.
  induction l as [|n'' r IH]; intros ms' H; simpl; [reflexivity|].
  rewrite IH by (intros; apply H; right; assumption).
  unfold write_spec. specialize (H n'' (or_introl eq_refl)).
  destruct (nop n''); try reflexivity. exfalso. eapply H. reflexivity.
Qed.

(* what tr emits for a combinational net is combinational *)
Hypothesis Hcomb_tr : forall n, In n (nets nl) -> is_comb (nop n) = true ->
  forall n'', In n'' (tr n) -> is_comb (nop n'') = true.

Lemma regs_sim st st' ins v v' : Inv (nets nl) (rdy_final nl) st st' ins v v' ->
  forall ns rg rg', incl ns (nets nl) -> reg_rel rg rg' ->
  reg_rel (fold_left (regnext_spec nl v) ns rg) (fold_left (regnext_spec nl' v') (flat_map tr ns) rg').
Proof.
  intros HI. induction ns as [|n rest IH]; intros rg rg' Hincl Hrel; [exact Hrel|].
  cbn [fold_left flat_map]. rewrite fold_left_app.
  assert (Hin : In n (nets nl)) by (apply Hincl; left; reflexivity).
  assert (Hrest : incl rest (nets nl)) by (intros x Hx; apply Hincl; right; assumption).
  apply IH; [assumption|]. destruct Hrel as [R1 R2].
  destruct (nop n) eqn:Eop;
    try (assert (Hc : is_comb (nop n) = true) by (rewrite Eop; reflexivity);
         rewrite nonreg_fold by (intros n'' Hn'' E; pose proof (Hcomb_tr n Hin Hc n'' Hn'') as Hcc;
                                 rewrite E in Hcc; discriminate);
         unfold regnext_spec; rewrite Eop; split; assumption).
  - (* register *)
    destruct (Hreg n Hin Eop) as [[Ht [Hf Hval]]|[n'' [Ht [Hop [Hd [Hf [Ha [Hw Hl]]]]]]]];
      rewrite Ht; cbn [fold_left].
    + unfold regnext_spec. rewrite Eop.
      rewrite (Hval st ins v (inv_base _ _ _ _ _ _ _ HI)).
      split; intros r Hr; unfold upd; destruct (r =? ndest n) eqn:E.
      * assert (r = ndest n) by lia. subst. congruence.
      * apply R1. assumption.
      * assert (r = ndest n) by lia. subst. reflexivity.
      * apply R2. assumption.
    + pose proof Hparts as Hp. destruct Hp as [_ [_ [_ [Hseq _]]]]. rewrite forallb_forall in Hseq.
      specialize (Hseq n Hin). rewrite Eop in Hseq. cbn [is_comb] in Hseq.
      apply andb_true_iff in Hseq. destruct Hseq as [Hargs Har].
      simpl in Har. apply Nat.eqb_eq in Har.
      assert (Ha0 : In (arg n 0) (rdy_final nl)).
      { unfold arg. destruct (nargs n) as [|a0 [|a1 r']] eqn:Eargs; try discriminate Har.
        rewrite forallb_forall in Hargs. apply mem_in_In. apply Hargs. left. reflexivity. }
      destruct (inv_sim _ _ _ _ _ _ _ HI _ Ha0) as [Hv0 _]. specialize (Hv0 Hl).
      unfold regnext_spec. rewrite Eop, Hop, Hd, Ha, Hw, <- Hv0.
      split; intros r Hr; unfold upd; destruct (r =? ndest n) eqn:E; try reflexivity.
      * apply R1. assumption.
      * assert (r = ndest n) by lia. subst. congruence.
      * apply R2. assumption.
  - (* memory write: no register changes on either side *)
    destruct (Hwr n m Hin Eop) as [n'' [Ht [Hop _]]]. rewrite Ht. cbn [fold_left].
    unfold regnext_spec. rewrite Eop, Hop. split; assumption.
Qed.

Lemma mems_sim st st' ins v v' : Inv (nets nl) (rdy_final nl) st st' ins v v' ->
  forall ns ms ms', incl ns (nets nl) -> (forall m a, ms m a = ms' m a) ->
  forall m a, fold_left (write_spec v) ns ms m a
              = fold_left (write_spec v') (flat_map tr ns) ms' m a.
Proof.
  intros HI. induction ns as [|n rest IH]; intros ms ms' Hincl Heq; [exact Heq|].
  cbn [fold_left flat_map]. rewrite fold_left_app.
  assert (Hin : In n (nets nl)) by (apply Hincl; left; reflexivity).
  assert (Hrest : incl rest (nets nl)) by (intros x Hx; apply Hincl; right; assumption).
  apply IH; [assumption|].
  destruct (nop n) eqn:Eop;
    try (assert (Hc : is_comb (nop n) = true) by (rewrite Eop; reflexivity);
         rewrite nonwr_fold by (intros n'' Hn'' m0 E; pose proof (Hcomb_tr n Hin Hc n'' Hn'') as Hcc;
                                rewrite E in Hcc; discriminate);
         unfold write_spec; rewrite Eop; assumption).
  - (* register net: no memory changes *)
    unfold write_spec at 1. rewrite Eop.
    destruct (Hreg n Hin Eop) as [[Ht _]|[n'' [Ht [Hop _]]]]; rewrite Ht; cbn [fold_left].
    + assumption.
    + unfold write_spec. rewrite Hop. assumption.
  - destruct (Hwr n m Hin Eop) as [n'' [Ht [Hop Hargs]]]. rewrite Ht. cbn [fold_left].
    pose proof Hparts as Hp. destruct Hp as [_ [_ [_ [Hseq _]]]]. rewrite forallb_forall in Hseq.
    specialize (Hseq n Hin). rewrite Eop in Hseq. cbn [is_comb] in Hseq.
    apply andb_true_iff in Hseq. destruct Hseq as [Hal Har].
    simpl in Har. apply Nat.eqb_eq in Har.
    assert (Hai : forall i, (i < 3)%nat -> v (arg n i) = v' (arg n'' i)).
    { intros i Hi. destruct (Hargs i Hi) as [Ha Hl]. rewrite Ha.
      assert (Hin' : In (arg n i) (rdy_final nl)).
      { rewrite forallb_forall in Hal. apply mem_in_In. apply Hal. unfold arg. apply nth_In. lia. }
      destruct (inv_sim _ _ _ _ _ _ _ HI _ Hin') as [Hv _]. apply Hv. assumption. }
    unfold write_spec. rewrite Eop, Hop.
    rewrite <- (Hai 0%nat), <- (Hai 1%nat), <- (Hai 2%nat) by lia.
    intros m0 a. destruct (v (arg n 2) =? 0); [apply Heq|].
    unfold upd. destruct (m0 =? m); [|apply Heq]. destruct (a =? v (arg n 0)); [reflexivity|apply Heq].
Qed.

Lemma base_inv st st' ins : st_rel st st' -> legal_ins nl ins -> legal_regs nl (sregs st) ->
  Inv [] (rdy0 nl) st st' ins (base_val nl dflt st ins) (base_val nl' dflt st' ins).
Proof.
  intros Hst Hins Hregs. constructor.
  - intros w Hw. destruct (Hbase st st' ins Hst w Hw) as [H1 H2].
    split; [assumption|]. split; [|assumption].
    unfold rdy0 in Hw. apply filter_In in Hw. destruct Hw as [_ Hb].
    unfold is_base in Hb. unfold base_val, width_of.
    destruct (find_wire (wires nl) w) as [x|] eqn:E; [|discriminate].
    pose proof (find_wire_In _ _ _ E) as [Hx _].
    destruct (wkind x) eqn:Ek; try discriminate.
    + specialize (Hins w). unfold is_input, kind_of, width_of in Hins. rewrite E, Ek in Hins.
      apply Hins. reflexivity.
    + pose proof Hparts as Hp. destruct Hp as [_ [Hc _]]. rewrite forallb_forall in Hc.
      specialize (Hc x Hx). rewrite Ek in Hc. apply inrangeb_spec in Hc. assumption.
    + specialize (Hregs w). unfold is_reg, kind_of, width_of in Hregs. rewrite E, Ek in Hregs.
      apply Hregs. reflexivity.
  - reflexivity.
  - reflexivity.
  - intros n0 [].
Qed.

Definition sim_val (v v' : wid -> Z) : Prop :=
  forall w, In w (rdy_final nl) -> live w = true -> v w = v' (rho w).

Theorem sim_step st st' ins : st_rel st st' -> legal_ins nl ins -> legal_regs nl (sregs st) ->
  sim_val (fst (step nl dflt st ins)) (fst (step nl' dflt st' ins))
  /\ st_rel (snd (step nl dflt st ins)) (snd (step nl' dflt st' ins))
  /\ legal_regs nl (sregs (snd (step nl dflt st ins))).
Proof.
  intros Hst Hins Hregs. unfold step, comb. cbn [fst snd]. rewrite Hnets.
  pose proof Hparts as Hp. destruct Hp as [_ [_ [Hnok _]]].
  pose proof (comb_sim st st' ins Hst (nets nl) [] (rdy0 nl) _ _ eq_refl Hnok eq_refl
                (incl_refl _) (base_inv st st' ins Hst Hins Hregs)) as HI.
  split; [intros w Hw Hl; apply (inv_sim _ _ _ _ _ _ _ HI w Hw); assumption|].
  destruct Hst as [S1 [S2 S3]].
  split; [|cbn [sregs]; apply (regs_legal nl Hwidths (proj1 (proj2 Hparts))); exact Hregs].
  destruct (regs_sim st st' ins _ _ HI (nets nl) (sregs st) (sregs st') (incl_refl _) (conj S1 S2))
    as [R1 R2].
  split; [exact R1|]. split; [exact R2|]. cbn [smems].
  apply (mems_sim st st' ins _ _ HI); [apply incl_refl|assumption].
Qed.

Theorem sim_run : forall inss st st', st_rel st st' ->
  Forall (legal_ins nl) inss -> legal_regs nl (sregs st) ->
  Forall2 sim_val (fst (run nl dflt st inss)) (fst (run nl' dflt st' inss)).
Proof.
  induction inss as [|ins rest IH]; intros st st' Hst Hins Hregs; cbn [run]; [constructor|].
  inversion Hins as [|? ? Hi Hrest]; subst.
  destruct (sim_step st st' ins Hst Hi Hregs) as [Hv [Hs' Hl]].
  destruct (step nl dflt st ins) as [v st1]. destruct (step nl' dflt st' ins) as [v' st1'].
  cbn [fst snd] in Hv, Hs', Hl. specialize (IH st1 st1' Hs' Hrest Hl).
  destruct (run nl dflt st1 rest) as [vs st2]. destruct (run nl' dflt st1' rest) as [vs' st2'].
  cbn [fst] in *. constructor; assumption.
Qed.

End Sim.

(* ---- generic facts about one combinational net used by the instances ---------- *)

Lemma exec_upd_form nl st v n : is_comb (nop n) = true ->
  arity_ok (nop n) (length (nargs n)) = true ->
  exec_spec nl st v n = upd v (ndest n) (exec_spec nl st v n (ndest n)).
Proof.
  intros Hc Har. unfold exec_spec.
  destruct (nop n) eqn:Eop; try discriminate Hc;
    try (match goal with
         | |- context [op_spec ?o ?l] =>
             destruct (op_spec_some o l) as [x Hx];
             [ reflexivity | unfold argvals; rewrite map_length; exact Har
             | intros m0; discriminate | rewrite Hx, upd_same; reflexivity ]
         end).
  rewrite upd_same. reflexivity.
Qed.

Lemma exec_value_form nl st v n : is_comb (nop n) = true ->
  arity_ok (nop n) (length (nargs n)) = true -> (forall m, nop n <> OpMemRd m) ->
  exists s, op_spec (nop n) (argvals nl v n) = Some s
            /\ exec_spec nl st v n (ndest n) = s mod 2 ^ width_of nl (ndest n).
Proof.
  intros Hc Har Hm.
  destruct (op_spec_some (nop n) (argvals nl v n) Hc) as [s Hs];
    [unfold argvals; rewrite map_length; exact Har|exact Hm|].
  exists s. split; [assumption|]. unfold exec_spec.
  destruct (nop n) eqn:Eop; try discriminate Hc; try (rewrite Hs, upd_same; reflexivity).
  exfalso. eapply Hm. reflexivity.
Qed.

Lemma exec_inrange nl st v n : 0 <= width_of nl (ndest n) -> is_comb (nop n) = true ->
  arity_ok (nop n) (length (nargs n)) = true ->
  inrange (exec_spec nl st v n (ndest n)) (width_of nl (ndest n)).
Proof.
  intros Hw Hc Har. unfold exec_spec.
  destruct (nop n) eqn:Eop; try discriminate Hc;
    try (match goal with
         | |- context [op_spec ?o ?l] =>
             destruct (op_spec_some o l) as [x Hx];
             [ reflexivity | unfold argvals; rewrite map_length; exact Har
             | intros m0; discriminate | rewrite Hx, upd_same; apply mod_range; assumption ]
         end).
  rewrite upd_same. apply mod_range. assumption.
Qed.

(* a net kept with its arguments redirected computes the same destination value *)
Lemma kept_net_value nl nl' rho st st' v v' n :
  mems nl' = mems nl -> (forall m a, smems st m a = smems st' m a) ->
  is_comb (nop n) = true -> arity_ok (nop n) (length (nargs n)) = true ->
  (forall a, In a (nargs n) -> v a = v' (rho a) /\ width_of nl' (rho a) = width_of nl a) ->
  width_of nl' (ndest n) = width_of nl (ndest n) ->
  exec_spec nl' st' v' (map_args rho n) = upd v' (ndest n) (exec_spec nl st v n (ndest n)).
Proof.
  intros Hmems Hm Hc Har Hargs Hwd.
  assert (Har' : arity_ok (nop (map_args rho n)) (length (nargs (map_args rho n))) = true).
  { unfold map_args. cbn [nop nargs]. rewrite map_length. assumption. }
  rewrite (exec_upd_form nl' st' v' (map_args rho n) Hc Har'). cbn [ndest map_args].
  f_equal.
  assert (Hav : argvals nl' v' (map_args rho n) = argvals nl v n).
  { unfold argvals, map_args. cbn [nargs]. rewrite map_map. apply map_ext_in. intros a Ha.
    destruct (Hargs a Ha) as [-> ->]. reflexivity. }
  unfold exec_spec. rewrite Hav. cbn [nop ndest map_args]. rewrite Hwd.
  destruct (nop n) eqn:Eop; try discriminate Hc;
    try (match goal with
         | |- context [op_spec ?o ?l] =>
             destruct (op_spec_some o l) as [x Hx];
             [ reflexivity | unfold argvals; rewrite map_length; exact Har
             | intros m0; discriminate | rewrite Hx, !upd_same; reflexivity ]
         end).
  (* memory read *)
  rewrite !upd_same.
  simpl in Har. apply Nat.eqb_eq in Har.
  destruct (nargs n) as [|a0 [|a1 r]] eqn:Eargs; try discriminate Har.
  unfold arg, map_args. cbn [nargs]. rewrite Eargs. cbn [map nth].
  destruct (Hargs a0 (or_introl eq_refl)) as [<- _].
  unfold mem_read. rewrite Hmems.
  destruct (find_mem (mems nl) m) as [mm|]; [destruct (mrom mm)|]; rewrite ?Hm; reflexivity.
Qed.
