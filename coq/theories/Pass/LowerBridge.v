(* C09 -- bridging theorems: the guards, thresholds and split arithmetic that
   Pass/Lower.v writes by hand are exactly the ones REGENERATED from
   pyrtl/passes.py into Gen/LowerGuards.v on every run (the rest of each function
   is pinned textually by the translator's skeleton templates).  An edit of a
   guard in the source changes the generated definition and breaks the
   corresponding theorem here. *)
From PyRTL Require Import Pass.Lower.
From PyRTL Require Import Gen.LowerGuards.
From Coq Require Import ZifyBool.

(* two_way_concat: the rule keeps a net exactly when the code returns True *)
Theorem two_way_concat_guard_bridge nl next n :
  two_way_concat_rule nl next n = None
  <-> two_way_concat_keep (op_code (nop n)) (Z.of_nat (length (nargs n))) = true.
Proof.
  unfold two_way_concat_rule, two_way_concat_keep.
  destruct (nop n); cbn [op_code]; try (split; [reflexivity|reflexivity]).
  destruct (nargs n) as [|a0 rest] eqn:E; [split; reflexivity|].
  destruct (2 <? length (a0 :: rest))%nat eqn:E2.
  - destruct (concat_chain nl next a0 (width_of nl a0) rest) as [[ns ws] [fin finw]].
    split; [discriminate|]. intro H. exfalso. lia.
  - split; [intros _|reflexivity]. lia.
Qed.

(* one_bit_selects: only select nets are rewritten; and a well-shaped select net is *)
Theorem one_bit_selects_guard_bridge nl next n :
  (one_bit_selects_keep (op_code (nop n)) = true -> one_bit_selects_rule nl next n = None)
  /\ (one_bit_selects_keep (op_code (nop n)) = false <-> exists idx, nop n = OpSelect idx).
Proof.
  unfold one_bit_selects_rule, one_bit_selects_keep. split.
  - destruct (nop n); cbn [op_code]; intro H; try reflexivity. discriminate.
  - destruct (nop n); cbn [op_code]; split; intro H; try discriminate; try (destruct H; discriminate).
    + eexists. reflexivity.
    + reflexivity.
Qed.

Theorem one_bit_selects_rewrites nl next n idx src :
  nop n = OpSelect idx -> nargs n = [src] ->
  firstn (Z.to_nat (width_of nl (ndest n))) idx <> [] ->
  one_bit_selects_rule nl next n <> None.
Proof.
  intros Ho Ha Hne. unfold one_bit_selects_rule. rewrite Ho, Ha.
  destruct (firstn (Z.to_nat (width_of nl (ndest n))) idx) as [|i [|j r]]; [contradiction| |]; cbn [length]; discriminate.
Qed.

(* direct_connect_outputs: the candidate test is the generated guard list *)
Theorem dco_candidate_bridge nl n :
  dco_candidate dco_skips nl n
  = match readers nl (ndest n) with
    | [r] => if dco_skip (op_code (nop n)) 1 (op_code (nop r)) (is_output nl (ndest r))
                         (width_of nl (ndest r)) (width_of nl (ndest n))
             then None else Some r
    | _ => None
    end.
Proof.
  unfold dco_candidate, dco_skip.
  destruct (readers nl (ndest n)) as [|r [|? ?]]; [destruct (dco_skips (nop n)); reflexivity| |destruct (dco_skips (nop n)); reflexivity].
  destruct (nop n); cbn; try reflexivity;
    destruct (nop r); cbn; try reflexivity;
    destruct (is_output nl (ndest r)); cbn; try reflexivity;
    destruct (width_of nl (ndest r) =? width_of nl (ndest n)); reflexivity.
Qed.

(* a destination with no reader or with several readers is never a candidate *)
Theorem dco_skip_readers pop k rop b w1 w2 : 0 <= k -> k <> 1 -> dco_skip pop k rop b w1 w2 = true.
Proof.
  intros H0 H1. unfold dco_skip.
  assert (Hk : (k =? 0) || (k >? 1) = true) by lia.
  rewrite Hk. rewrite orb_true_r. reflexivity.
Qed.

Theorem dco_skips_bridge o : dco_skips o = mem_in (op_code o) [64; 114].
Proof. destruct o; reflexivity. Qed.

(* two_way_fanout: tree threshold, leaf test and split of _make_tree *)
Theorem fanout_threshold_bridge (k : nat) : (k <=? 1)%nat = negb (fanout_needs_tree (Z.of_nat k)).
Proof. unfold fanout_needs_tree. destruct (k <=? 1)%nat eqn:E; lia. Qed.

Theorem make_tree_split_bridge (n : nat) : (1 <= n)%nat ->
  (n <=? 1)%nat = make_tree_is_leaf (Z.of_nat n)
  /\ Z.of_nat (n / 2) = make_tree_left (Z.of_nat n)
  /\ Z.of_nat (n - n / 2) = make_tree_right (Z.of_nat n).
Proof.
  intro H. unfold make_tree_is_leaf, make_tree_right, make_tree_left.
  assert (Hd : Z.of_nat (n / 2) = Z.of_nat n / 2) by (rewrite Nat2Z.inj_div; reflexivity).
  repeat split.
  - destruct (n <=? 1)%nat eqn:E; lia.
  - exact Hd.
  - rewrite <- Hd. assert ((n / 2 <= n)%nat) by (apply Nat.div_le_upper_bound; lia). lia.
Qed.
