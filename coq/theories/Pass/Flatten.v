(* The synthesized block as a Syntax.netlist: definitions only, no proofs.

   `flatten merge nl` turns the per-net gate groups of `Synth.synth nl` into a flat
   netlist of 1-bit nets with explicit wire ids:
     - bit i of original wire w            -> id  bid w i  (a 1-bit wire of the
       same kind: Const bit, 1-bit Register with bit i of the reset value, and --
       when I/O is not merged -- 1-bit Input/Output);
     - every gate of a gate expression      -> one net ~ & | ^ nand with a fresh
       1-bit destination (ids allocated positionally from T0 upwards), constants
       -> fresh 1-bit Const wires; a `w` net copies the root into bid dest i;
     - a register net                       -> one 1-bit `r` net per bit;
     - memory ports                         -> concat of the address (and data)
       bits into a fresh vector, the port, and one select per data bit;
     - merge_io_vectors                     -> the original Input vector and one
       select per bit; one concat per Output vector.
   Gate expressions are trees, so carries shared in the real block are
   duplicated here: `flatten` is for stating and proving, not for running wide
   adders. *)
From PyRTL Require Export Netlist.Sem Pass.BasicGates Pass.Synth.

Section Flatten.
Variable merge : bool.
Variable nl : netlist.

Definition maxw : Z := fold_right (fun x m => Z.max (wwidth x) m) 0 (wires nl).
Definition maxid : Z := fold_right (fun x m => Z.max (wname x) m) 0 (wires nl).
Definition KK : Z := maxw + 1.
Definition NN : Z := maxid + 1.

(* id of bit i of original wire w; temporaries start at T0 *)
Definition bid (w : wid) (i : nat) : Z := NN + w * KK + Z.of_nat i.
Definition T0 : Z := NN + NN * KK.

Fixpoint gsize (g : gexp) : Z :=
  match g with
  | GVar _ _ => 0
  | GConst _ => 1
  | GNot a => 1 + gsize a
  | GAnd a b | GOr a b | GXor a b | GNand a b => 1 + gsize a + gsize b
  end.

Definition gate2 (o : op) (emit : gexp -> Z -> Z * (list net * list wire)) (a b : gexp) (base : Z) :=
  let '(ia, (na, wa)) := emit a (base + 1) in
  let '(ib, (nb, wb)) := emit b (base + 1 + gsize a) in
  (base, (na ++ nb ++ [mkNet o [ia; ib] base], mkWire base 1 KWire :: wa ++ wb)).

(* (wire carrying g, nets in dependency order, declared wires); ids in [base, base + gsize g) *)
Fixpoint emit (g : gexp) (base : Z) : Z * (list net * list wire) :=
  match g with
  | GVar w i => (bid w i, ([], []))
  | GConst b => (base, ([], [mkWire base 1 (KConst (b2z b))]))
  | GNot a =>
      let '(ia, (na, wa)) := emit a (base + 1) in
      (base, (na ++ [mkNet OpNot [ia] base], mkWire base 1 KWire :: wa))
  | GAnd a b => gate2 OpAnd emit a b base
  | GOr a b => gate2 OpOr emit a b base
  | GXor a b => gate2 OpXor emit a b base
  | GNand a b => gate2 OpNand emit a b base
  end.

Definition bits_size (bits : list gexp) : Z := fold_right (fun g s => gsize g + s) 0 bits.

(* destination bits j, j+1, ... of wire dest *)
Fixpoint emit_bits (dest : wid) (j : nat) (bits : list gexp) (base : Z) : list net * list wire :=
  match bits with
  | [] => ([], [])
  | g :: r =>
      let '(id, (ns, ws)) := emit g base in
      let '(ns', ws') := emit_bits dest (S j) r (base + gsize g) in
      (ns ++ mkNet OpW [id] (bid dest j) :: ns', ws ++ ws')
  end.

(* concat_list([bit 0, ..., bit n-1]) -> vector t *)
Definition cat_net (a : wid) (n : nat) (t : Z) : net :=
  mkNet OpConcat (rev (map (bid a) (seq 0 n))) t.

Definition gnet_size (g : gnet) : Z :=
  match g with
  | GAssign _ bits => bits_size bits
  | GReg _ _ _ => 0
  | GMemRd _ _ _ _ _ => 2
  | GMemWr _ _ _ _ _ _ => 2
  end.

Definition emit_gnet (g : gnet) (base : Z) : list net * list wire :=
  match g with
  | GAssign w bits => emit_bits w 0 bits base
  | GReg w n src => (map (fun i => mkNet OpReg [bid src i] (bid w i)) (seq 0 n), [])
  | GMemRd m w n a na =>
      (cat_net a na base :: mkNet (OpMemRd m) [base] (base + 1)
         :: map (fun i => mkNet (OpSelect [Z.of_nat i]) [base + 1] (bid w i)) (seq 0 n),
       [mkWire base (Z.of_nat na) KWire; mkWire (base + 1) (Z.of_nat n) KWire])
  | GMemWr m a na d nd en =>
      ([cat_net a na base; cat_net d nd (base + 1); mkNet (OpMemWr m) [base; base + 1; bid en 0] 0],
       [mkWire base (Z.of_nat na) KWire; mkWire (base + 1) (Z.of_nat nd) KWire])
  end.

Fixpoint emit_gnets (gs : list gnet) (base : Z) : list net * list wire :=
  match gs with
  | [] => ([], [])
  | g :: r =>
      let '(ns, ws) := emit_gnet g base in
      let '(ns', ws') := emit_gnets r (base + gnet_size g) in
      (ns ++ ns', ws ++ ws')
  end.

(* the 1-bit wire created for bit i of an original wire *)
Definition bit_kind (x : wire) (i : nat) : kind :=
  match wkind x with
  | KConst c => KConst (g_const_bit c (Z.of_nat i))
  | KReg rv => KReg (g_reset_bit rv (Z.of_nat i))
  | KInput => if merge then KWire else KInput
  | KOutput => if merge then KWire else KOutput
  | KWire => KWire
  end.

Definition xnat (x : wire) : nat := Z.to_nat (wwidth x).

Definition bit_wires : list wire :=
  flat_map (fun x => map (fun i => mkWire (bid (wname x) i) 1 (bit_kind x i)) (seq 0 (xnat x)))
           (wires nl).

Definition is_in (x : wire) : bool := match wkind x with KInput => true | _ => false end.
Definition is_out (x : wire) : bool := match wkind x with KOutput => true | _ => false end.

Definition vec_wires : list wire := if merge then filter is_io (wires nl) else [].

Definition in_nets : list net :=
  if merge then
    flat_map (fun x => map (fun i => mkNet (OpSelect [Z.of_nat i]) [wname x] (bid (wname x) i))
                           (seq 0 (xnat x)))
             (filter is_in (wires nl))
  else [].

Definition out_nets : list net :=
  if merge then map (fun x => cat_net (wname x) (xnat x) (wname x)) (filter is_out (wires nl))
  else [].

(* combinational groups first (in the netlist's dependency order), then the
   register and memory-write groups: their arguments need only be ready at the
   end of the combinational phase (Sem reads them from the final valuation) *)
Definition comb_nets : list net := filter (fun n => is_comb (nop n)) (nets nl).
Definition seq_nets : list net := filter (fun n => negb (is_comb (nop n))) (nets nl).
Definition osynth : list gnet := map (synth_net nl) comb_nets ++ map (synth_net nl) seq_nets.

Definition flatten : netlist :=
  let '(ns, ws) := emit_gnets osynth T0 in
  {| wires := vec_wires ++ bit_wires ++ ws;
     nets := in_nets ++ ns ++ out_nets;
     mems := mems nl |}.

(* the testbench of the original design, as seen by the flattened block:
   inputs by vector (merged) or by bit (bid w i <- bit i of the value) *)
Definition flat_ins (ins : wid -> Z) : wid -> Z :=
  fun id => if id <? NN then ins id
            else b2z (Z.testbit (ins ((id - NN) / KK)) ((id - NN) mod KK)).

(* the state of the flattened block that corresponds to a gate-level state:
   1-bit register bid r i holds bit (r, i) *)
Definition flat_state (gst : gstate) : state :=
  {| sregs := fun id => b2z (gregs gst ((id - NN) / KK) (Z.to_nat ((id - NN) mod KK)));
     smems := gmems gst |}.

End Flatten.

(* ids are usable: original wire ids positive and strictly increasing in `wires`
   (py/nlx.py numbers the wires 1..n in list order) *)
Fixpoint incb (lo : Z) (ws : list wire) : bool :=
  match ws with [] => true | x :: r => (lo <? wname x) && incb (wname x) r end.

Definition ids_okb (nl : netlist) : bool := incb 0 (wires nl).
