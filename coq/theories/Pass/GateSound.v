(* C09 -- gate-basis rewrite rules: a straight-line gate program whose 1-bit
   truth table equals that of the op it replaces computes, at EVERY width and for
   ALL argument values, exactly what the reference semantics assigns to the old
   net (Z.testbit extensionality). *)
From PyRTL Require Import Pass.Lower Pass.RewriteSound.
From Coq Require Import ZifyBool.

(* ---------- bit-level reading of a gate program ---------- *)
Definition bgate (o : op) (bs : list bool) : bool :=
  match o, bs with
  | OpNot, [x] => negb x
  | OpAnd, [x; y] => x && y
  | OpOr, [x; y] => x || y
  | OpXor, [x; y] => xorb x y
  | OpNand, [x; y] => negb (x && y)
  | _, _ => false
  end.

Definition bopd (xa xb : bool) (acc : list bool) (o : gopd) : bool :=
  match o with
  | GA O => xa
  | GA _ => xb
  | GT i => nth i acc false
  end.

Fixpoint brun (xa xb : bool) (acc : list bool) (p : list gins) : list bool :=
  match p with
  | [] => acc
  | (o, opds) :: r => brun xa xb (acc ++ [bgate o (map (bopd xa xb acc) opds)]) r
  end.

Definition beval (r : grule) (xa xb : bool) : bool :=
  bopd xa xb (brun xa xb [] (gprog r)) (gres r).

(* shape: every instruction is a 1- or 2-input gate over arg(0)/arg(1) and
   EARLIER temporaries *)
Definition opd_ok (i : nat) (o : gopd) : bool :=
  match o with GA k => (k <? 2)%nat | GT k => (k <? i)%nat end.

Definition gins_ok (i : nat) (g : gins) : bool :=
  match g with
  | (OpNot, [x]) => opd_ok i x
  | (OpAnd, [x; y]) | (OpOr, [x; y]) | (OpXor, [x; y]) | (OpNand, [x; y]) => opd_ok i x && opd_ok i y
  | _ => false
  end.

Fixpoint gprog_ok (i : nat) (p : list gins) : bool :=
  match p with
  | [] => true
  | g :: r => gins_ok i g && gprog_ok (S i) r
  end.

Definition grule_ok (r : grule) : bool :=
  gprog_ok 0 (gprog r) && opd_ok (length (gprog r)) (gres r).

Definition bools : list bool := [false; true].

(* the four 1-bit input pairs *)
Definition tt_agrees (r : grule) (o : op) : bool :=
  forallb (fun xa => forallb (fun xb => Bool.eqb (beval r xa xb) (bgate o [xa; xb])) bools) bools.

Lemma tt_agrees_spec r o : tt_agrees r o = true ->
  forall xa xb, beval r xa xb = bgate o [xa; xb].
Proof.
  unfold tt_agrees, bools. cbn [forallb]. rewrite !andb_true_r, !andb_true_iff.
  intros [[H1 H2] [H3 H4]] xa xb.
  destruct xa, xb; apply Bool.eqb_prop; assumption.
Qed.

(* ---------- bit lemmas, all integers (no range assumption) ---------- *)
Lemma compl_mod w z : 0 <= w -> (2 ^ w - 1 - z) mod 2 ^ w = Z.lnot z mod 2 ^ w.
Proof.
  intro Hw. replace (2 ^ w - 1 - z) with (Z.lnot z + 1 * 2 ^ w) by (unfold Z.lnot; lia).
  apply Z_mod_plus_full.
Qed.

Lemma testbit_compl w z j : 0 <= j < w ->
  Z.testbit (2 ^ w - 1 - z) j = negb (Z.testbit z j).
Proof.
  intro Hj. rewrite <- (Z.mod_pow2_bits_low (2 ^ w - 1 - z) w j) by lia.
  rewrite compl_mod by lia. rewrite Z.mod_pow2_bits_low by lia. apply Z.lnot_spec. lia.
Qed.

Lemma testbit_low_mod a w j : 0 <= j < w -> Z.testbit (a mod 2 ^ w) j = Z.testbit a j.
Proof. intro Hj. apply Z.mod_pow2_bits_low. lia. Qed.

(* value of a 2-input / 1-input gate under the reference semantics, bitwise *)
Lemma op_spec_gate_bits o (xs : list Z) w r j :
  0 <= j < w ->
  op_spec o (map (fun x => (x, w)) xs) = Some r ->
  match o with OpNot | OpAnd | OpOr | OpXor | OpNand => True | _ => False end ->
  Z.testbit r j = bgate o (map (fun x => Z.testbit x j) xs).
Proof.
  intros Hj Hs Ho. destruct o; try contradiction;
    (destruct xs as [|x [|y [|? ?]]]; cbn in Hs; try discriminate; injection Hs as <-); cbn [map bgate].
  - apply testbit_compl. exact Hj.
  - apply Z.land_spec.
  - apply Z.lor_spec.
  - apply Z.lxor_spec.
  - rewrite Z.max_id. rewrite testbit_compl by exact Hj. rewrite Z.land_spec. reflexivity.
Qed.

(* ---------- executing a lowered program ---------- *)
Section Prog.
Variable nl' : netlist.
Variable st : state.
Variable n : net.
Variable next w : Z.
Variable a b : wid.
Hypothesis Hargs : nargs n = [a; b].
Hypothesis Hwa : width_of nl' a = w.
Hypothesis Hwb : width_of nl' b = w.
Hypothesis Ha : a < next.
Hypothesis Hb : b < next.
Hypothesis Hw0 : 0 <= w.

(* u carries the bit-level run [accb j] (one list per bit position) on the
   temporaries next .. next+i-1 *)
Definition carries (u : wid -> Z) (i : nat) (accb : Z -> list bool) : Prop :=
  (forall j, length (accb j) = i)
  /\ forall k j, (k < i)%nat -> 0 <= j < w ->
       Z.testbit (u (next + Z.of_nat k)) j = nth k (accb j) false.

Lemma resolve_lt i o : opd_ok i o = true -> resolve n next o < next + Z.of_nat i.
Proof.
  destruct o as [k|k]; cbn [opd_ok resolve]; intro H.
  - unfold arg. rewrite Hargs. destruct k as [|[|k]]; cbn; lia.
  - lia.
Qed.

Lemma resolve_width i o tw : opd_ok i o = true ->
  (forall k, (k < i)%nat -> width_of nl' (next + Z.of_nat k) = tw) -> tw = w ->
  width_of nl' (resolve n next o) = w.
Proof.
  intros H Ht ->. destruct o as [k|k]; cbn [opd_ok resolve] in *.
  - unfold arg. rewrite Hargs. destruct k as [|[|k]]; cbn; auto. lia.
  - apply Ht. lia.
Qed.

Lemma resolve_bit u i accb o j : opd_ok i o = true -> carries u i accb -> 0 <= j < w ->
  Z.testbit (u (resolve n next o)) j
  = bopd (Z.testbit (u a) j) (Z.testbit (u b) j) (accb j) o.
Proof.
  intros H [_ Hc] Hj. destruct o as [k|k]; cbn [opd_ok resolve bopd] in *.
  - unfold arg. rewrite Hargs. destruct k as [|[|k]]; cbn; try reflexivity. lia.
  - apply Hc; [lia|exact Hj].
Qed.

Lemma prog_inv : forall p i u accb,
  gprog_ok i p = true ->
  (forall k, (k < i + length p)%nat -> width_of nl' (next + Z.of_nat k) = w) ->
  carries u i accb ->
  let u' := fold_left (exec_spec nl' st) (lower_prog n next i p) u in
  carries u' (i + length p)
          (fun j => brun (Z.testbit (u a) j) (Z.testbit (u b) j) (accb j) p)
  /\ (forall x, x < next -> u' x = u x).
Proof.
  induction p as [|[o opds] r IH]; intros i u accb Hok Hwd Hc.
  - cbn. rewrite Nat.add_0_r. split; [exact Hc|auto].
  - cbn [gprog_ok] in Hok. apply andb_true_iff in Hok. destruct Hok as [Hg Hr].
    cbn [lower_prog fold_left length]. cbn [length] in Hwd.
    set (net := mkNet o (map (resolve n next) opds) (next + Z.of_nat i)).
    set (u1 := exec_spec nl' st u net).
    (* the instruction writes bit-wise the gate of its operands *)
    assert (Hstep : carries u1 (S i)
              (fun j => accb j ++ [bgate o (map (bopd (Z.testbit (u a) j) (Z.testbit (u b) j) (accb j)) opds)])
            /\ (forall x, x < next -> u1 x = u x)).
    { assert (Hopds : forall x, In x opds -> opd_ok i x = true).
      { intros x Hx. unfold gins_ok in Hg.
        destruct o; try discriminate;
          destruct opds as [|x1 [|x2 [|? ?]]]; try discriminate;
          cbn in Hx; try apply andb_true_iff in Hg; intuition (subst; auto). }
      assert (Hgate : match o with OpNot | OpAnd | OpOr | OpXor | OpNand => True | _ => False end).
      { unfold gins_ok in Hg. destruct o; try discriminate; exact I. }
      assert (Hav : argvals nl' u net = map (fun x => (x, w)) (map (fun od => u (resolve n next od)) opds)).
      { unfold argvals, net. cbn [nargs]. rewrite !map_map. apply map_ext_in. intros od Hod.
        f_equal. apply (resolve_width i od w); auto. intros k Hk. apply Hwd. lia. }
      assert (Hsome : exists rv, op_spec o (argvals nl' u net) = Some rv).
      { rewrite Hav. unfold gins_ok in Hg.
        destruct o; try discriminate;
          destruct opds as [|x1 [|x2 [|? ?]]]; try discriminate; cbn; eexists; reflexivity. }
      destruct Hsome as [rv Hrv].
      assert (Hu1 : forall x, u1 x = upd u (next + Z.of_nat i) (rv mod 2 ^ w) x).
      { intro x. unfold u1, exec_spec. cbn [nop net ndest].
        assert (Hwi : width_of nl' (next + Z.of_nat i) = w) by (apply Hwd; lia).
        destruct o; try contradiction; change (nop net) with o; rewrite ?Hrv, Hwi; reflexivity. }
      split.
      - destruct Hc as [Hlen Hc]. split.
        + intro j. rewrite app_length, Hlen. cbn. lia.
        + intros k j Hk Hj. rewrite Hu1. destruct (Nat.eq_dec k i) as [->|Hne].
          * rewrite upd_same. rewrite app_nth2 by (rewrite Hlen; lia). rewrite Hlen, Nat.sub_diag. cbn [nth].
            rewrite testbit_low_mod by exact Hj.
            rewrite Hav in Hrv.
            rewrite (op_spec_gate_bits o _ w rv j Hj Hrv Hgate). f_equal.
            rewrite map_map. apply map_ext_in. intros od Hod.
            apply (resolve_bit u i accb od j); [auto|split; assumption|exact Hj].
          * rewrite upd_other by lia. rewrite app_nth1 by (rewrite Hlen; lia). apply Hc; [lia|exact Hj].
      - intros x Hx. rewrite Hu1. apply upd_other. lia. }
    destruct Hstep as [Hc1 Hold1].
    assert (Hwd' : forall k, (k < S i + length r)%nat -> width_of nl' (next + Z.of_nat k) = w).
    { intros k Hk. apply Hwd. lia. }
    pose proof (IH (S i) u1 _ Hr Hwd' Hc1) as IH1. cbn zeta in IH1. destruct IH1 as [IHc IHold].
    rewrite (Hold1 a Ha), (Hold1 b Hb) in IHc.
    replace (i + S (length r))%nat with (S i + length r)%nat by lia.
    split.
    + cbn [brun]. exact IHc.
    + intros x Hx. rewrite IHold by exact Hx. apply Hold1. exact Hx.
Qed.
End Prog.
