(* C04 -- _remove_wire_nets and _remove_slice_nets (model) preserve the value of
   every surviving wire on every cycle: instances of OptAliasProofs.alias_run. *)
From PyRTL Require Import Netlist.Sem Netlist.WFDefs Gen.ConstFold Pass.Opt Pass.OptCheck
  Pass.OptProofs Pass.OptAliasProofs.
From PyRTL Require Import Sim.SimModel Sim.SimCorrect.
From Coq Require Import ZifyBool.

Local Open Scope Z_scope.

Lemma remove_nets_by_is_nl' nl sel :
  remove_nets_by sel nl = nl' nl sel (alias_rho nl sel).
Proof. reflexivity. Qed.

Lemma Forall2_weaken {A B} (P Q : A -> B -> Prop) : (forall a b, P a b -> Q a b) ->
  forall l l', Forall2 P l l' -> Forall2 Q l l'.
Proof. intros H l l' HF. induction HF; constructor; auto. Qed.

Definition survives (nl : netlist) (sel : net -> bool) (v v' : wid -> Z) : Prop :=
  forall w, In w (rdy_final nl) -> ~ In w (alias_dead nl sel) -> v w = v' w.

Section Instance.
Variable nl : netlist.
Variable sel : net -> bool.
Variable dflt : Z.
Hypothesis Hwf : wfb nl = true.
Hypothesis Hok : alias_ok nl sel = true.
(* the selected nets are semantic identities *)
Hypothesis Hsem : forall n, In n (nets nl) -> alias_gone nl sel n = true ->
  nargs n = [arg n 0] -> width_of nl (ndest n) = width_of nl (arg n 0) ->
  is_comb (nop n) = true
  /\ forall st v, inrange (v (arg n 0)) (width_of nl (arg n 0)) ->
       exec_spec nl st v n = upd v (ndest n) (v (arg n 0)).

Lemma ok_parts :
  (forall n, In n (nets nl) -> alias_gone nl sel n = true ->
     alias_rho nl sel (ndest n) = alias_rho nl sel (arg n 0)
     /\ nargs n = [arg n 0] /\ width_of nl (ndest n) = width_of nl (arg n 0))
  /\ (forall w, In w (rdy_final nl) ->
        (In w (alias_dead nl sel) \/ alias_rho nl sel w = w)
        /\ width_of nl (alias_rho nl sel w) = width_of nl w
        /\ ~ In (alias_rho nl sel w) (alias_dead nl sel))
  /\ (forall w, In w (rdy0 nl) -> ~ In w (alias_dead nl sel))
  /\ (forall n, In n (nets nl) -> alias_gone nl sel n = false -> op_has_dest (nop n) = true ->
        ~ In (ndest n) (alias_dead nl sel)).
Proof.
  unfold alias_ok in Hok.
  apply andb_true_iff in Hok. destruct Hok as [H H4].
  apply andb_true_iff in H. destruct H as [H H3].
  apply andb_true_iff in H. destruct H as [H1 H2].
  rewrite forallb_forall in H1, H2, H3, H4.
  split; [|split; [|split]].
  - intros n Hin Hg. specialize (H1 n Hin). rewrite Hg in H1.
    apply andb_true_iff in H1. destruct H1 as [H1 Hw].
    apply andb_true_iff in H1. destruct H1 as [Hr Hl].
    split; [lia|]. split; [|lia].
    apply Nat.eqb_eq in Hl. unfold arg. destruct (nargs n) as [|a [|b r]]; try discriminate Hl.
    reflexivity.
  - intros w Hw. specialize (H2 w Hw).
    apply andb_true_iff in H2. destruct H2 as [H2 Hal].
    apply andb_true_iff in H2. destruct H2 as [Hid Hwd].
    split; [|split; [lia|]].
    + apply orb_true_iff in Hid. destruct Hid as [Hd|Hi]; [left; apply mem_in_In; assumption|right; lia].
    + intro Hc. apply mem_in_In in Hc. rewrite Hc in Hal. discriminate.
  - intros w Hw Hc. specialize (H3 w Hw). apply mem_in_In in Hc. rewrite Hc in H3. discriminate.
  - intros n Hin Hg Hd Hc. specialize (H4 n Hin). rewrite Hg, Hd in H4. simpl in H4.
    apply mem_in_In in Hc. rewrite Hc in H4. discriminate.
Qed.

Theorem removal_preserves : forall inss st st', st_eq st st' ->
  Forall (legal_ins nl) inss -> legal_regs nl (sregs st) ->
  Forall2 (survives nl sel) (fst (run nl dflt st inss))
          (fst (run (remove_nets_by sel nl) dflt st' inss)).
Proof.
  intros inss st st' Hst Hins Hregs. rewrite remove_nets_by_is_nl'.
  destruct ok_parts as [P1 [P2 [P3 P4]]].
  assert (Hrun : Forall2 (sim_val nl (alias_rho nl sel)) (fst (run nl dflt st inss))
                   (fst (run (nl' nl sel (alias_rho nl sel)) dflt st' inss))).
  { apply alias_run; try assumption.
    - intros n Hin Hg. destruct (P1 n Hin Hg) as [_ [Hargs Hw]].
      destruct (Hsem n Hin Hg Hargs Hw) as [Hc Hid].
      split; [assumption|]. split; [rewrite Hargs; left; reflexivity|]. split; assumption.
    - intros n Hin Hg. apply (P1 n Hin Hg).
    - intros w Hw Hd. destruct (P2 w Hw) as [[Hc|Hi] _]; [contradiction|assumption].
    - intros w Hw. apply (P2 w Hw).
    - intros w Hw. apply (P2 w Hw). }
  eapply Forall2_weaken; [|exact Hrun].
  intros v v' Hs w Hw Hd. rewrite (Hs w Hw).
  destruct (P2 w Hw) as [[Hc|Hi] _]; [contradiction|]. rewrite Hi. reflexivity.
Qed.

End Instance.

(* `w` nets *)
Theorem remove_wire_nets_preserves nl dflt :
  wfb nl = true -> wire_removal_ok nl = true ->
  forall inss st st', st_eq st st' -> Forall (legal_ins nl) inss -> legal_regs nl (sregs st) ->
  Forall2 (survives nl is_w_net) (fst (run nl dflt st inss))
          (fst (run (remove_wire_nets nl) dflt st' inss)).
Proof.
  intros Hwf Hok. apply (removal_preserves nl is_w_net dflt Hwf Hok).
  intros n Hin Hg Hargs Hw. unfold alias_gone in Hg. apply andb_true_iff in Hg.
  destruct Hg as [Hsel _]. unfold is_w_net in Hsel.
  destruct (nop n) eqn:Eop; try discriminate Hsel. split; [reflexivity|].
  intros st v Hr. unfold exec_spec, argvals. rewrite Eop, Hargs. cbn [map op_spec].
  rewrite Hw. rewrite Z.mod_small by exact Hr. reflexivity.
Qed.

(* full-width selects *)
Theorem remove_slice_nets_preserves nl dflt :
  wfb nl = true -> slice_removal_ok nl = true ->
  forall inss st st', st_eq st st' -> Forall (legal_ins nl) inss -> legal_regs nl (sregs st) ->
  Forall2 (survives nl (is_full_slice nl)) (fst (run nl dflt st inss))
          (fst (run (remove_slice_nets nl) dflt st' inss)).
Proof.
  intros Hwf Hok. unfold slice_removal_ok in Hok. apply andb_true_iff in Hok.
  destruct Hok as [Hok Hsane].
  apply (removal_preserves nl (is_full_slice nl) dflt Hwf Hok).
  intros n Hin Hg Hargs Hw. unfold alias_gone in Hg. apply andb_true_iff in Hg.
  destruct Hg as [Hsel _]. pose proof Hsel as Hfull. unfold is_full_slice in Hsel.
  destruct (nop n) eqn:Eop; try discriminate Hsel. split; [reflexivity|].
  intros st v Hr. unfold exec_spec, argvals. rewrite Eop, Hargs. cbn [map op_spec].
  unfold slices_sane in Hsane. rewrite forallb_forall in Hsane. specialize (Hsane n Hin).
  rewrite Eop in Hsane. apply andb_true_iff in Hsane. destruct Hsane as [Hb Hl].
  rewrite forallb_forall in Hb.
  rewrite (full_slice_identity nl n idx (v (arg n 0)) Eop Hfull); try assumption; try lia.
  - reflexivity.
  - intros i Hi. specialize (Hb i Hi). lia.
Qed.
