(* C04 harness entry points (definitions only; evaluated by py/checks/C04.py). *)
From PyRTL Require Import Netlist.Sem Netlist.WFDefs Netlist.SpecHarness Pass.Opt Pass.OptCheck.

Definition opt_pass (p : Z) : netlist -> netlist :=
  match p with
  | 0 => optimize
  | 1 => constant_propagation
  | 2 => common_subexp_elimination
  | 3 => remove_wire_nets
  | 4 => remove_slice_nets
  | 5 => remove_unlistened_nets
  | 6 => constant_prop_pass
  | 7 => cse_round
  | _ => fun nl => nl
  end.

Fixpoint iter_pass (k : nat) (f : netlist -> netlist) (nl : netlist) : netlist :=
  match k with
  | O => nl
  | S k' => iter_pass k' f (f nl)
  end.

Definition kind_code (k : kind) : list Z :=
  match k with
  | KWire => [0; 0]
  | KInput => [1; 0]
  | KOutput => [2; 0]
  | KConst c => [3; c]
  | KReg None => [4; -1]
  | KReg (Some v) => [4; v]
  end.

Definition op_code (o : op) : list Z :=
  match o with
  | OpW => [0] | OpNot => [1] | OpAnd => [2] | OpOr => [3] | OpXor => [4] | OpNand => [5]
  | OpAdd => [6] | OpSub => [7] | OpMul => [8] | OpLt => [9] | OpGt => [10] | OpEq => [11]
  | OpMux => [12] | OpConcat => [13] | OpSelect idx => 14 :: idx
  | OpReg => [15] | OpMemRd m => [16; m] | OpMemWr m => [17; m]
  end.

(* wire rows [id; width; kind; value], net rows [dest; #args; args...; opcode; params...] *)
Definition dump_nl (nl : netlist) : list (list Z) * list (list Z) :=
  (map (fun x => wname x :: wwidth x :: kind_code (wkind x)) (wires nl),
   map (fun n => ndest n :: Z.of_nat (length (nargs n)) :: nargs n ++ op_code (nop n)) (nets nl)).

(* the model's result netlist, and the Output traces of that result under the
   reference semantics from the given initial state *)
Definition opt_case2 (chk : bool) (p reps : Z) (nl : netlist) (dflt : Z) (regmap : list (Z * Z))
    (memmap : list (Z * list (Z * Z))) (inss : list (list (Z * Z))) (outs : list Z)
  : (list (list Z) * list (list Z)) * list (list Z) :=
  let prev := iter_pass (Nat.pred (Z.to_nat reps)) (opt_pass p) nl in
  let nl' := opt_pass p prev in
  let st0 := init_state nl dflt regmap memmap in
  let '(vs, st) := run nl' dflt (init_state nl' dflt regmap memmap) (map ins_of inss) in
  (* row 0: result is wfb; the input of this application satisfies the API-built
     assumption; the decidable premise of the pass's preservation theorem holds of it
     (2 = not evaluated: chk = false);
     the initial state satisfies the theorem's steady-state hypothesis *)
  (dump_nl nl',
   [b2z (wfb nl'); b2z (api_built prev);
    if negb chk then 2 else
    b2z (match p with
         | 0 => optimize_ok prev
         | 1 => constant_propagation_ok prev
         | 2 => cse_ok prev
         | 3 => wire_stage_ok prev
         | 4 => slice_stage_ok prev
         | 5 => unlistened_stage_ok prev
         | _ => true
         end);
    if negb chk then 2 else
    b2z (match p with
         | 0 => optimize_steadyb prev (sregs st0)
         | 1 => constant_propagation_steadyb prev (sregs st0)
         | _ => true
         end)]
   :: map (fun v => map v outs) vs).

Definition opt_case := opt_case2 true.

(* first-pass folding decisions: [dest; kind; payload] per net of the dump
   (kind 0 keep, 1 const, 2 wire, 3 not) *)
Definition cp_decisions (nl : netlist) : list (list Z) :=
  map (fun n => ndest n :: match cp_decide nl n with
                           | CpKeep => [0; 0]
                           | CpConst c => [1; c mod 2 ^ width_of nl (ndest n)]
                           | CpWire w => [2; w]
                           | CpNot w => [3; w]
                           end) (nets nl).
