(* C04 -- translator tie for the per-net logic of _constant_prop_pass.
   Gen/ConstPropCheck.v (cp_check_src) is regenerated on every run, statement by
   statement, from passes._constant_prop_pass.constant_prop_check and the closures
   replace_net / replace_net_with_const / replace_net_with_wire: the op-class guards,
   the count of Const arguments, the 1-bit "long wires" guard, which argument is the
   constant, the two table look-ups and their `& 1`, the three-way decision
   (constant / pass-through wire / inverter), the masking of the both-constant fold,
   the new Const's width and value, and the Output special case ('w' net instead of a
   producer link).  The theorems below say that this regenerated function IS the
   model the C04 preservation theorems are stated over; a source edit to any of those
   statements changes the generated text and breaks these proofs (or the translation). *)
From PyRTL Require Import Netlist.Sem Netlist.WFDefs Gen.ConstFold Pass.Opt Pass.OptCheck
  Gen.ConstPropCheck Pass.OptSrcTie Pass.OptSimProofs Pass.OptCpProofs.
From PyRTL Require Import Sim.SimModel Sim.SimCorrect.

(* per net: nets standing for it afterwards, producer links, Const wires created *)
Theorem C04_constprop_check_tie :
  forall nl k n,
    0 <= width_of nl (ndest n) ->
    (in_two_var_ops (nop n) = true -> length (nargs n) = 2%nat) ->
    (forall a, In a (nargs n) -> is_const nl a = true -> inrange (const_val nl a) (width_of nl a)) ->
    cp_check_src nl k n = cp_apply nl k n.
Proof. intros nl k n H1 H2 H3. exact (cp_check_src_eq nl k n (conj H1 (conj H2 H3))). Qed.
Print Assumptions C04_constprop_check_tie.

(* every net of a well-formed netlist satisfies those side conditions, so the whole
   pass built from the regenerated per-net effect is the model's pass *)
Theorem C04_constprop_pass_tie :
  forall nl, wfb nl = true -> constant_prop_pass_src nl = constant_prop_pass nl.
Proof. exact constant_prop_pass_src_eq. Qed.
Print Assumptions C04_constprop_pass_tie.

(* hence the preservation theorem holds of the pass as regenerated from the source *)
Theorem C04_constant_prop_pass_src_preserves :
  forall nl dflt, wfb nl = true -> cp_pass_ok nl = true ->
  forall inss st st', st_rel (cp_folded nl) (cp_cst nl) st st' ->
  Forall (legal_ins nl) inss -> legal_regs nl (sregs st) ->
  Forall2 (fun v v' => forall w, In w (rdy_final nl) ->
                         live (constant_prop_pass nl) (cp_rho nl) w = true -> v w = v' (cp_rho nl w))
          (fst (run nl dflt st inss)) (fst (run (constant_prop_pass_src nl) dflt st' inss)).
Proof.
  intros nl dflt Hwf. rewrite (constant_prop_pass_src_eq nl Hwf). exact (cp_pass_sim nl dflt Hwf).
Qed.
Print Assumptions C04_constant_prop_pass_src_preserves.

(* non-vacuity: on a netlist with a constant &, a folded register, a nand against a
   2-bit constant and an Output-driving fold, the regenerated function gives, net by
   net, what the model gives -- and it is not the identity *)
Definition tie_nl : netlist :=
  {| wires := [ mkWire 1 1 KInput; mkWire 2 2 KInput; mkWire 3 1 (KConst 1); mkWire 4 1 (KConst 0);
                mkWire 5 2 (KConst 3); mkWire 6 1 KWire; mkWire 7 1 KOutput; mkWire 8 2 KWire;
                mkWire 9 2 KWire; mkWire 10 2 (KReg (Some 1)); mkWire 11 1 KOutput; mkWire 12 2 KOutput;
                mkWire 13 1 KWire; mkWire 14 2 KOutput ];
     nets := [ mkNet OpAnd [1; 3] 6; mkNet OpXor [4; 1] 7; mkNet OpNand [2; 5] 8; mkNet OpAnd [5; 5] 9;
               mkNet OpNand [1; 3] 13; mkNet OpOr [6; 13] 11; mkNet OpXor [8; 9] 12; mkNet OpW [10] 14;
               mkNet OpReg [5] 10 ];
     mems := [] |}.

Example C04_tie_example :
  wfb tie_nl = true
  /\ map (cp_check_src tie_nl 100) (nets tie_nl) = map (cp_apply tie_nl 100) (nets tie_nl)
  /\ map (fun n => fst (fst (cp_check_src tie_nl 100 n))) (nets tie_nl)
     = [ []; [mkNet OpW [1] 7]; [mkNet OpNand [2; 5] 8]; []; [mkNet OpNot [1] 13];
         [mkNet OpOr [6; 13] 11]; [mkNet OpXor [8; 9] 12]; [mkNet OpW [10] 14]; [] ]
  /\ nets (constant_prop_pass_src tie_nl) = nets (constant_prop_pass tie_nl).
Proof. vm_compute. repeat split; reflexivity. Qed.
