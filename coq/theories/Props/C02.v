(* C02 -- placeholder while the harness is brought up; replaced below. *)
From PyRTL Require Import Sim.FastModel Sim.CLimb.
Example C02_stub : nlimbs 65 = 2%nat.
Proof. vm_compute. reflexivity. Qed.
