(* C02 -- FastSimulation and CompiledSimulation are observably identical to Simulation.
   Only statements + `exact`; the proofs live in Sim/FastModelProofs.v and Sim/CLimbProofs.v.
   All three simulators are related to the same reference semantics (Netlist/Sem.v), to which
   C01 relates pyrtl.Simulation.

   Models: Sim/FastModel.v (the Python statements FastSimulation._compiled emits, on Python ints),
           Sim/CLimb.v    (the C statements CompiledSimulation._build_* emit, on 64-bit limbs).
   Regenerated from /repo on every run: Gen/FastMask.v (_no_mask_bitwidth), Gen/FastOps.v
   (the emitted expression texts, plain and under `mask &`), Gen/CHelpers.v (_limbs, _makemask,
   _getarglimb, the order of the loop tests of _build_concat). *)
From PyRTL Require Import Sim.FastModel Sim.FastModelProofs Sim.SimCorrect.
From PyRTL Require Import Sim.CLimb Sim.CLimbProofs Sim.CLimbMul Sim.CLimbConcat.
From PyRTL Require Import Sim.CEmitModel Sim.CEmitProofs Sim.CEmitHash Sim.CEmitHashProofs.
From PyRTL Require Import Netlist.Sem.

(* ======================= translated fragments ======================================= *)

(* Whenever FastSimulation elides the mask (dest width = _no_mask_bitwidth[op](net)), the
   unmasked Python-int expression is already in [0, 2^destwidth), for every argument value
   in range: '+' at max+1, '*' at the sum of the widths, concat at the sum, select at the
   number of indices, comparisons at 1 bit, ...  A mutated table entry breaks this proof. *)
Theorem fast_mask_elision_sound : forall o args wd e,
  fast_args_ok o args -> 0 <= wd ->
  fast_elides o (map snd args) wd = true ->
  fast_pyexpr o args = Some e ->
  inrange e wd.
Proof. exact fast_mask_elision_sound_lemma. Qed.
Print Assumptions fast_mask_elision_sound.

(* _limbs w = ceil(w / 64) *)
Theorem limbs_spec : forall w, 64 * (c_limbs w - 1) < w <= 64 * c_limbs w.
Proof. exact limbs_spec_lemma. Qed.
Print Assumptions limbs_spec.

(* ======================= FastSimulation ============================================== *)

(* One cycle: every declared wire has exactly the reference value and lies in [0, 2^bitwidth);
   the successor states (new `regs`, memories after the postponed writes) stay related. *)
Theorem C02_fast_step_refines_spec : forall nl dflt st fs ins,
  wfb nl = true -> fast_wfb nl = true ->
  RF dflt st fs -> legal_ins nl ins -> legal_regs nl (sregs st) ->
  let '(v, st') := step nl dflt st ins in
  let '(v', fs') := fast_step nl dflt fs ins in
  (forall x, In x (wires nl) ->
     v' (wname x) = v (wname x) /\ inrange (v' (wname x)) (width_of nl (wname x)))
  /\ RF dflt st' fs' /\ legal_regs nl (sregs st').
Proof. exact fast_step_refines_wf. Qed.
Print Assumptions C02_fast_step_refines_spec.

(* Every cycle of every legal input sequence from every legal initial state. *)
Theorem C02_fast_refines_spec : forall nl dflt regmap memmap inss,
  wfb nl = true -> fast_wfb nl = true ->
  legal_init nl dflt regmap -> Forall (legal_ins nl) inss ->
  Forall2 (wires_agree nl)
    (fst (run nl dflt (init_state nl dflt regmap memmap) inss))
    (fst (fast_run nl dflt (fast_init nl dflt regmap memmap) inss)).
Proof. exact fast_refines_spec. Qed.
Print Assumptions C02_fast_refines_spec.

(* fast_wfb = the width rules of Block.sanity_check_net (equal operand widths, mux branches) and
   "arguments of r/@ nets are ready where the net stands"; it holds of every block the harness
   dumps (evaluated per design).  While the source's masked assignment was `dest = mask & expr`
   (unparenthesised) it also had to exclude truncating mux/concat/select nets; the generated
   flag Gen/FastOps.fast_mask_parenthesised records which text the source has now. *)
Example C02_fast_mask_text_parenthesised : fast_mask_parenthesised = true.
Proof. reflexivity. Qed.

(* Sim/FastModel.v keeps one store per memory id (fmems : Z -> ...).  That is FastSimulation's
   behaviour because its key function _mem_varname is `'fs_mem' + str(val.id)` (read off the source:
   Gen/FastOps.fast_mem_key_uses_id); keyed by NAME, same-named memories of a design would alias. *)
Example C02_fast_mem_store_keyed_by_id : fast_mem_key_uses_id = true.
Proof. reflexivity. Qed.

(* ======================= CompiledSimulation: per-builder, every limb count ============== *)

Theorem C02_c_wire_correct : forall wa a wd,
  limbs_ok wa a -> 0 <= wd <= wa ->
  limbs_ok wd (c_wire wa a wd) /\ limbs_to_Z (c_wire wa a wd) = limbs_to_Z a mod 2 ^ wd.
Proof. exact c_wire_correct. Qed.
Print Assumptions C02_c_wire_correct.

Theorem C02_c_not_correct : forall wa a wd,
  limbs_ok wa a -> 0 <= wd <= wa ->
  limbs_ok wd (c_not a wd)
  /\ limbs_to_Z (c_not a wd) = (2 ^ wa - 1 - limbs_to_Z a) mod 2 ^ wd.
Proof. exact c_not_correct. Qed.
Print Assumptions C02_c_not_correct.

Theorem C02_c_bitwise_correct : forall f wa a wb b wd,
  is_bitwise f -> 0 <= wa -> 0 <= wb -> limbs_ok wa a -> limbs_ok wb b -> 0 <= wd ->
  limbs_ok wd (c_bitwise f wa a wb b wd)
  /\ limbs_to_Z (c_bitwise f wa a wb b wd) = f (limbs_to_Z a) (limbs_to_Z b) mod 2 ^ wd.
Proof. exact c_bitwise_correct. Qed.
Print Assumptions C02_c_bitwise_correct.

Theorem C02_c_nand_correct : forall wa a wb b wd,
  0 <= wa -> 0 <= wb -> limbs_ok wa a -> limbs_ok wb b -> 0 <= wd <= Z.max wa wb ->
  limbs_ok wd (c_nand wa a wb b wd)
  /\ limbs_to_Z (c_nand wa a wb b wd)
     = (2 ^ Z.max wa wb - 1 - Z.land (limbs_to_Z a) (limbs_to_Z b)) mod 2 ^ wd.
Proof. exact c_nand_correct. Qed.
Print Assumptions C02_c_nand_correct.

(* carry chain, by induction on the limbs *)
Theorem C02_c_add_correct : forall wa a wb b wd,
  0 <= wa -> 0 <= wb -> limbs_ok wa a -> limbs_ok wb b -> 0 <= wd ->
  limbs_ok wd (c_add wa a wb b wd)
  /\ limbs_to_Z (c_add wa a wb b wd) = (limbs_to_Z a + limbs_to_Z b) mod 2 ^ wd.
Proof. exact c_add_correct. Qed.
Print Assumptions C02_c_add_correct.

(* borrow chain *)
Theorem C02_c_sub_correct : forall wa a wb b wd,
  0 <= wa -> 0 <= wb -> limbs_ok wa a -> limbs_ok wb b -> 0 <= wd ->
  limbs_ok wd (c_sub wa a wb b wd)
  /\ limbs_to_Z (c_sub wa a wb b wd) = (limbs_to_Z a - limbs_to_Z b) mod 2 ^ wd.
Proof. exact c_sub_correct. Qed.
Print Assumptions C02_c_sub_correct.

Theorem C02_c_eq_correct : forall wa a wb b,
  0 <= wa -> 0 <= wb -> limbs_ok wa a -> limbs_ok wb b ->
  limbs_to_Z (c_eq wa a wb b) = b2z (limbs_to_Z a =? limbs_to_Z b).
Proof. exact c_eq_correct. Qed.
Print Assumptions C02_c_eq_correct.

Theorem C02_c_lt_correct : forall wa a wb b,
  0 <= wa -> 0 <= wb -> limbs_ok wa a -> limbs_ok wb b ->
  limbs_to_Z (c_cmp Z.ltb wa a wb b) = b2z (limbs_to_Z a <? limbs_to_Z b).
Proof. exact c_lt_correct. Qed.
Print Assumptions C02_c_lt_correct.

Theorem C02_c_gt_correct : forall wa a wb b,
  0 <= wa -> 0 <= wb -> limbs_ok wa a -> limbs_ok wb b ->
  limbs_to_Z (c_cmp Z.gtb wa a wb b) = b2z (limbs_to_Z a >? limbs_to_Z b).
Proof. exact c_gt_correct. Qed.
Print Assumptions C02_c_gt_correct.

Theorem C02_c_mux_correct : forall s wf f wt t wd,
  limbs_ok 1 s -> limbs_ok wf f -> limbs_ok wt t -> 0 <= wd <= wf -> wd <= wt ->
  limbs_ok wd (c_mux s wf f wt t wd)
  /\ limbs_to_Z (c_mux s wf f wt t wd)
     = (if limbs_to_Z s =? 0 then limbs_to_Z f else limbs_to_Z t) mod 2 ^ wd.
Proof. exact c_mux_correct. Qed.
Print Assumptions C02_c_mux_correct.

(* one term per destination bit; indices as sanity_check_net guarantees them *)
Theorem C02_c_select_correct : forall w src idx wd,
  0 <= w -> limbs_ok w src -> (forall b, In b idx -> 0 <= b < w) ->
  0 <= wd <= Z.of_nat (length idx) ->
  limbs_ok wd (c_select src idx wd)
  /\ limbs_to_Z (c_select src idx wd) = select_spec (limbs_to_Z src) idx mod 2 ^ wd.
Proof. exact c_select_correct. Qed.
Print Assumptions C02_c_select_correct.

(* schoolbook rows with 128-bit partial products, every limb count (row / column invariants
   modulo 2^destwidth in Sim/CLimbMul.v) *)
Theorem C02_c_mul_correct : forall wa a wb b wd,
  0 <= wa -> 0 <= wb -> limbs_ok wa a -> limbs_ok wb b -> 0 <= wd ->
  limbs_ok wd (c_mul wa a wb b wd)
  /\ limbs_to_Z (c_mul wa a wb b wd) = (limbs_to_Z a * limbs_to_Z b) mod 2 ^ wd.
Proof. exact c_mul_correct. Qed.
Print Assumptions C02_c_mul_correct.

(* piece assembly with the leftover of a straddling piece carried into the next limb; every
   argument list and limb count.  Relies on Gen/CHelpers.c_concat_split_first = true (the order
   of the loop tests in the source); with the other order (defect F5) the proof fails. *)
Theorem C02_c_concat_correct : forall (args : list (Z * list Z)) (wd : Z),
  Forall (fun wa => 0 <= fst wa /\ limbs_ok (fst wa) (snd wa)) args ->
  0 <= wd <= cat_total args ->
  limbs_ok wd (c_concat args wd)
  /\ limbs_to_Z (c_concat args wd) = concat_spec (cat_vals args) mod 2 ^ wd.
Proof. exact c_concat_correct. Qed.
Print Assumptions C02_c_concat_correct.

Example C02_concat_order_in_source : c_concat_split_first = true.
Proof. reflexivity. Qed.

(* _build_add / _build_sub / _build_mul are textually the functions Sim/CLimb.v transliterates
   (AST digests checked by py/genfrag_C02.py on every run; a changed builder fails the generator) *)
Example C02_arith_builders_as_modelled : c_arith_builders_audited = true.
Proof. reflexivity. Qed.

(* register update through regtmp, masked like a wire copy *)
Theorem C02_c_regcopy_correct : forall wrin rin wrout,
  limbs_ok wrin rin -> 0 <= wrout <= wrin ->
  limbs_ok wrout (c_regcopy wrin rin wrout)
  /\ limbs_to_Z (c_regcopy wrin rin wrout) = limbs_to_Z rin mod 2 ^ wrout.
Proof. exact c_regcopy_correct. Qed.
Print Assumptions C02_c_regcopy_correct.

(* run(): unpack (pack v n) = v *)
Theorem C02_input_packing_roundtrip : forall n v,
  0 <= v < 2 ^ (64 * Z.of_nat n) -> c_unpack (c_pack n v) = v.
Proof. exact c_pack_roundtrip. Qed.
Print Assumptions C02_input_packing_roundtrip.

(* a packed input is a well-formed limb array holding the value *)
Theorem C02_input_packing_ok : forall w v, 0 <= w -> 0 <= v < 2 ^ w ->
  limbs_ok w (c_pack (nlimbs w) v) /\ limbs_to_Z (c_pack (nlimbs w) v) = v.
Proof. exact c_pack_ok. Qed.
Print Assumptions C02_input_packing_ok.

(* ======================= CompiledSimulation: the whole emitted program ==================== *)

(* One call of sim_run_step (Sim/CEmitModel.v: inputs copied in, builders in block order, enabled
   inserts, registers through regtmp): every declared wire is a well-formed limb array holding
   exactly the reference value; the successor states (static register arrays, hash maps) stay
   related.  c_wfb = the width rules of Block.sanity_check_net the C text relies on + "a memory
   key fits one limb" (CompiledSimulation rejects wider address buses). *)
Theorem C02_c_step_refines_spec : forall nl dflt st cs ins,
  wfb nl = true -> c_wfb nl = true -> RC nl st cs -> legal_ins nl ins ->
  let '(v, st') := step nl dflt st ins in
  let '(cv, cs') := c_step nl cs ins in
  cwires_agree nl v cv /\ RC nl st' cs'.
Proof. exact c_step_refines_wf. Qed.
Print Assumptions C02_c_step_refines_spec.

(* Every cycle of every legal input sequence from every legal initial state, default_value 0
   (a non-zero default is not applied to memories by CompiledSimulation: the sanctioned
   difference, outside this statement). *)
Theorem C02_c_refines_spec : forall nl regmap memmap inss,
  wfb nl = true -> c_wfb nl = true ->
  legal_init nl 0 regmap -> legal_cmems nl memmap -> Forall (legal_ins nl) inss ->
  Forall2 (cwires_agree nl)
    (fst (run nl 0 (init_state nl 0 regmap memmap) inss))
    (fst (c_run nl (c_init nl 0 regmap memmap) inss)).
Proof. exact c_refines_spec. Qed.
Print Assumptions C02_c_refines_spec.

(* ======================= CompiledSimulation: the hash map behind every memory =========== *)

(* Sim/CEmitHash.v transliterates the emitted C helpers (hashmap_t, create_hash_map, hash_code,
   insert with its in-place update / new head node, lookup with its default array).  For every
   number of buckets, every key pair -- colliding into one chain or not -- a lookup after an
   insert finds the inserted limbs for that key and is unchanged for every other key. *)
Theorem C02_c_hashmap_lookup_insert : forall h key val k', hm_ok h ->
  hm_find (hm_insert h key val) k'
  = if key =? k' then Some (firstn (hlimbs h) val) else hm_find h k'.
Proof. exact hm_find_insert. Qed.
Print Assumptions C02_c_hashmap_lookup_insert.

Theorem C02_c_hashmap_create : forall size limbs, 0 < size -> HM_R (hm_create size limbs) [].
Proof. exact HM_R_create. Qed.
Print Assumptions C02_c_hashmap_create.

(* lookup returns the bound array, else val_limbs zeros (default_value is NOT applied: the
   sanctioned difference) *)
Theorem C02_c_hashmap_lookup : forall h l key, HM_R h l ->
  hm_lookup h key = match lassoc l key with Some v => v | None => repeat 0 (hlimbs h) end.
Proof. exact HM_R_lookup. Qed.
Print Assumptions C02_c_hashmap_lookup.

(* every history of inserts (initialize_mems(), then the enabled writes of every cycle): the
   hash map keeps representing the finite map Sim/CEmitModel.v computes with *)
Theorem C02_c_hashmap_refines_map : forall limbs (ops : list (Z * list Z)) h l,
  HM_R h l -> hlimbs h = limbs ->
  let h' := fold_left (fun h kv => hm_insert h (fst kv) (snd kv)) ops h in
  let l' := fold_left (fun l kv => (fst kv, firstn limbs (snd kv)) :: l) ops l in
  HM_R h' l' /\ hlimbs h' = limbs.
Proof. exact hm_history_refines. Qed.
Print Assumptions C02_c_hashmap_refines_map.

(* bridge to the definitions C02_c_step_refines_spec is about: the program's `lookup(mem, addr[0])`
   and `if (enable[0]) insert(mem, addr[0], data)` on hash maps are c_lookup / c_insert *)
Theorem C02_c_lookup_on_hashmap : forall nl hs mv m a mm,
  HMems nl hs mv -> find_mem (mems nl) m = Some mm -> mrom mm = None ->
  hm_lookup (hs m) a = c_lookup nl mv m a.
Proof. exact hm_lookup_is_c_lookup. Qed.
Print Assumptions C02_c_lookup_on_hashmap.

Theorem C02_c_insert_on_hashmap : forall nl hs mv cv n m,
  HMems nl hs mv -> nop n = OpMemWr m ->
  (nlimbs (mem_dataw nl m) <= length (cv (arg n 1)))%nat ->
  HMems nl (if rd (cv (arg n 2)) 0 =? 0 then hs
            else upd hs m (hm_insert (hs m) (rd (cv (arg n 0)) 0) (cv (arg n 1))))
        (c_insert nl cv mv n).
Proof. exact hm_insert_is_c_insert. Qed.
Print Assumptions C02_c_insert_on_hashmap.

(* the helper text is the audited one; 256 buckets; keys 1, 257, 513 share a chain *)
Example C02_hashmap_as_modelled : c_hashmap_helpers_audited = true /\ 0 < c_hash_buckets.
Proof. split; reflexivity. Qed.

Example C02_hashmap_collisions :
  hm_replay 2 [(1, [5; 6]); (257, [7; 8]); (513, [9; 1; 4]); (257, [2; 2])] [1; 257; 513; 769]
  = [[5; 6]; [2; 2]; [9; 1]; [0; 0]].
Proof. vm_compute. reflexivity. Qed.

(* ======================= non-vacuity =================================================== *)

(* a design with a register, a memory, a truncating subtract, a 70-bit add, a concat and a
   select satisfies wfb and fast_wfb; Fast model and reference semantics give the same trace *)
Definition ex_nl : netlist :=
  {| wires := [ mkWire 1 70 KInput; mkWire 2 70 (KReg (Some 5)); mkWire 3 3 KWire;
                mkWire 4 71 KWire; mkWire 5 74 KWire; mkWire 6 2 KOutput;
                mkWire 7 1 (KConst 1); mkWire 8 3 KWire; mkWire 9 3 KWire ];
     nets := [ mkNet OpSub [1; 2] 3; mkNet OpAdd [1; 2] 4; mkNet OpConcat [3; 4] 5;
               mkNet (OpSelect [73; 0]) [5] 6; mkNet (OpMemRd 0) [3] 8;
               mkNet (OpSelect [0; 1; 2]) [4] 9;
               mkNet (OpMemWr 0) [3; 9; 7] 0; mkNet OpReg [4] 2 ];
     mems := [ mkMem 0 3 3 None ] |}.

Example C02_example_wf : wfb ex_nl = true /\ fast_wfb ex_nl = true /\ c_wfb ex_nl = true.
Proof. vm_compute. repeat split; reflexivity. Qed.

Definition ex_ins : list (wid -> Z) :=
  [ (fun _ => 2 ^ 69 + 3); (fun _ => 7); (fun _ => 2 ^ 70 - 1) ].

Definition ex_probe (vs : list (wid -> Z)) : list (list Z) :=
  map (fun v => map v [1; 2; 3; 4; 5; 6; 8; 9]) vs.

Example C02_example_trace :
  ex_probe (fst (fast_run ex_nl 0 (fast_init ex_nl 0 [] []) ex_ins))
  = ex_probe (fst (run ex_nl 0 (init_state ex_nl 0 [] []) ex_ins))
  /\ ex_probe (map (fun cv w => limbs_to_Z (cv w)) (fst (c_run ex_nl (c_init ex_nl 0 [] []) ex_ins)))
     = ex_probe (fst (run ex_nl 0 (init_state ex_nl 0 [] []) ex_ins)).
Proof. vm_compute. split; reflexivity. Qed.

(* limb arrays: 130-bit operands, 3 limbs each *)
Example C02_example_limbs :
  let a := c_pack (nlimbs 130) (2 ^ 129 + 2 ^ 64 - 1) in
  let b := c_pack (nlimbs 130) (2 ^ 128 + 1) in
  limbs_to_Z (c_add 130 a 130 b 131) = 2 ^ 129 + 2 ^ 64 - 1 + (2 ^ 128 + 1)
  /\ limbs_to_Z (c_sub 130 b 130 a 131) = (2 ^ 128 + 1 - (2 ^ 129 + 2 ^ 64 - 1)) mod 2 ^ 131
  /\ limbs_to_Z (c_cmp Z.ltb 130 b 130 a) = 1
  /\ limbs_to_Z (c_mul 130 a 130 b 200) = ((2 ^ 129 + 2 ^ 64 - 1) * (2 ^ 128 + 1)) mod 2 ^ 200
  /\ limbs_to_Z (c_concat [(32, c_pack (nlimbs 32) 5); (33, c_pack (nlimbs 33) 7)] 65) = 5 * 2 ^ 33 + 7.
Proof. vm_compute. repeat split; reflexivity. Qed.
