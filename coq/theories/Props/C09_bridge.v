(* C09 (bridge) -- the hand-written guards of Pass/Lower.v ARE the ones in the
   current pyrtl/passes.py: Gen/LowerGuards.v is regenerated on every run by the
   fail-closed translator py/genfrag_C09.py (guard / threshold / arithmetic
   expressions translated, every other statement of the six functions pinned by a
   skeleton template), and the theorems below identify each generated definition
   with what the model -- hence every Props/C09.v theorem -- uses.  Only
   statements + `exact`; proofs in Pass/LowerBridge.v. *)
From PyRTL Require Import Pass.Lower Pass.LowerBridge Gen.LowerGuards.

(* two_way_concat keeps a net exactly when the code's two `return True` guards fire *)
Theorem C09_bridge_two_way_concat_guard : forall nl next n,
  two_way_concat_rule nl next n = None
  <-> two_way_concat_keep (op_code (nop n)) (Z.of_nat (length (nargs n))) = true.
Proof. exact two_way_concat_guard_bridge. Qed.
Print Assumptions C09_bridge_two_way_concat_guard.

(* one_bit_selects rewrites select nets and only select nets *)
Theorem C09_bridge_one_bit_selects_guard : forall nl next n,
  (one_bit_selects_keep (op_code (nop n)) = true -> one_bit_selects_rule nl next n = None)
  /\ (one_bit_selects_keep (op_code (nop n)) = false <-> exists idx, nop n = OpSelect idx).
Proof. exact one_bit_selects_guard_bridge. Qed.
Print Assumptions C09_bridge_one_bit_selects_guard.

Theorem C09_bridge_one_bit_selects_rewrites : forall nl next n idx src,
  nop n = OpSelect idx -> nargs n = [src] ->
  firstn (Z.to_nat (width_of nl (ndest n))) idx <> [] ->
  one_bit_selects_rule nl next n <> None.
Proof. exact one_bit_selects_rewrites. Qed.
Print Assumptions C09_bridge_one_bit_selects_rewrites.

(* direct_connect_outputs: the model's candidate test is the generated list of
   `continue` guards (skipped producer ops, exactly one reader, reader is a 'w'
   net into an Output, equal widths) *)
Theorem C09_bridge_dco_guard : forall nl n,
  dco_candidate dco_skips nl n
  = match readers nl (ndest n) with
    | [r] => if dco_skip (op_code (nop n)) 1 (op_code (nop r)) (is_output nl (ndest r))
                         (width_of nl (ndest r)) (width_of nl (ndest n))
             then None else Some r
    | _ => None
    end.
Proof. exact dco_candidate_bridge. Qed.
Print Assumptions C09_bridge_dco_guard.

Theorem C09_bridge_dco_readers : forall pop k rop b w1 w2,
  0 <= k -> k <> 1 -> dco_skip pop k rop b w1 w2 = true.
Proof. exact dco_skip_readers. Qed.
Print Assumptions C09_bridge_dco_readers.

(* two_way_fanout: tree threshold; _make_tree: leaf test and the split n -> n//2, n - n//2 *)
Theorem C09_bridge_fanout_threshold : forall k : nat,
  (k <=? 1)%nat = negb (fanout_needs_tree (Z.of_nat k)).
Proof. exact fanout_threshold_bridge. Qed.
Print Assumptions C09_bridge_fanout_threshold.

Theorem C09_bridge_make_tree_split : forall n : nat, (1 <= n)%nat ->
  (n <=? 1)%nat = make_tree_is_leaf (Z.of_nat n)
  /\ Z.of_nat (n / 2) = make_tree_left (Z.of_nat n)
  /\ Z.of_nat (n - n / 2) = make_tree_right (Z.of_nat n).
Proof. exact make_tree_split_bridge. Qed.
Print Assumptions C09_bridge_make_tree_split.

(* the generated guards on concrete nets: a 3-operand concat is rewritten, a
   2-operand one kept; a register producer and a truncating 'w' net are skipped *)
Example C09_bridge_example :
  two_way_concat_keep 99 3 = false /\ two_way_concat_keep 99 2 = true /\ two_way_concat_keep 38 5 = true
  /\ dco_skip 126 1 119 true 3 3 = false /\ dco_skip 114 1 119 true 3 3 = true
  /\ dco_skip 126 1 119 true 2 3 = true /\ dco_skip 126 2 119 true 3 3 = true
  /\ fanout_needs_tree 2 = true /\ fanout_needs_tree 1 = false
  /\ (make_tree_left 5, make_tree_right 5) = (2, 3).
Proof. vm_compute. repeat split; reflexivity. Qed.
