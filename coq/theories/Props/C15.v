(* C15 -- All observation channels of a simulation agree; illegal inputs are refused.
   Statements + `exact` (proofs in Sim/TraceProofs.v and IO/VcdProofs.v), then non-vacuity
   Examples decided by vm_compute. *)
From PyRTL Require Import Base.PyZ Sim.TraceBase Sim.Trace Gen.InputGuards Gen.StepOrder Sim.TraceProofs IO.Vcd IO.VcdProofs.
From Coq Require Import Permutation Sorted String.
Import List ListNotations.

(* ---- input validation: the guards below are regenerated from the simulators'
   source on every run (py/genfrag_C15.py -> Gen/InputGuards.v) *)
Theorem C15_input_guard_simulation : forall v w, 1 <= w ->
  (guard_simulation v w = true <-> ~ (0 <= v < 2 ^ w)).
Proof. exact simulation_guard_correct. Qed.
Print Assumptions C15_input_guard_simulation.

Theorem C15_input_guard_fast : forall v w, 1 <= w ->
  (guard_fast v w = true <-> ~ (0 <= v < 2 ^ w)).
Proof. exact fast_guard_correct. Qed.
Print Assumptions C15_input_guard_fast.

(* CompiledSimulation.run.  Until commit "fix F6" the guard was only `val >= 1 << bw`
   (negative values accepted); it is now `val >= 1 << bw or val < 0` and the positive
   theorem holds.  Sim/TraceProofs.v contains both conditional lemmas and compiles in either
   state of the source; exactly one of `compiled_guard_correct_if eq_refl` /
   `compiled_guard_refuted_if eq_refl` type-checks.  If the guard regresses, this theorem
   stops compiling; the statement to prove then is the commented one below. *)
Theorem C15_input_guard_compiled : forall v w, 1 <= w ->
  (guard_compiled v w = true <-> ~ (0 <= v < 2 ^ w)).
Proof. exact (compiled_guard_correct_if eq_refl). Qed.
Print Assumptions C15_input_guard_compiled.

(* F6-PRESENT (kept for reference; was proved against the unrepaired source):
Theorem C15_compiled_guard_refuted :
  exists v w, 1 <= w /\ ~ (0 <= v < 2 ^ w) /\ guard_compiled v w = false.
Proof. exact (compiled_guard_refuted_if eq_refl). Qed.
Print Assumptions C15_compiled_guard_refuted.
*)

(* ---- inspect / trace / length.  The design is abstract: `stepf` is one clock cycle.
   `sim_step` = Simulation.step / FastSimulation.step / CompiledSimulation.step:
   validate, simulate, append to the trace, then check_rtl_assertions. *)
Section Channels.
  Variable State : Type.
  Variable stepf : State -> inputs -> State * (name -> Z).
  Variable input_widths : list (name * Z).
  Variable guard : Z -> Z -> bool.
  Variable asserts : list name.
  Notation sim_step := (sim_step State stepf input_widths guard asserts).
  Notation run := (run State stepf input_widths guard asserts).
  Notation step_multiple := (step_multiple State stepf input_widths guard asserts).
  Notation accepted ins := (bad_inputs input_widths guard ins || missing_inputs input_widths ins = false).

  (* ---- the step order is not hand-written: Gen/StepOrder.v lists, for each simulator, the
     observable events of one step() call in the order of the CURRENT source (py/genfrag_C15.py,
     fail-closed statement classification); interpreted by `exec_order` they are exactly the
     `sim_step` all theorems below are about.  Moving check_rtl_assertions in front of the tracer
     call, storing input values while still validating, tracing before the values are published
     ... changes the list and breaks these proofs. *)
  Theorem C15_step_order_simulation : forall s ins,
    exec_order State stepf input_widths guard asserts step_order_simulation s ins = sim_step s ins.
  Proof. exact (step_order_simulation_ok State stepf input_widths guard asserts). Qed.

  Theorem C15_step_order_fast : forall s ins,
    exec_order State stepf input_widths guard asserts step_order_fast s ins = sim_step s ins.
  Proof. exact (step_order_fast_ok State stepf input_widths guard asserts). Qed.

  (* CompiledSimulation.step = run([inputs]); it checks no rtl_assert *)
  Theorem C15_step_order_compiled : forall s ins,
    exec_order State stepf input_widths guard [] step_order_compiled s ins
    = Trace.sim_step State stepf input_widths guard [] s ins.
  Proof. exact (step_order_compiled_ok State stepf input_widths guard). Qed.

  (* after every step that was not refused, for every traced wire: the last trace entry is
     inspect(w) (value map of Simulation, context of FastSimulation; for CompiledSimulation
     inspect IS `trace_last`, and the entry is the value the cycle computed) *)
  Theorem C15_inspect_is_last_after_step : forall s ins s' o w,
    sim_step s ins = (s', o) -> o <> Rejected -> In w (trace_names (str s)) ->
    trace_last (str s') w = Some (inspect State s' w).
  Proof. exact (step_inspect_last State stepf input_widths guard asserts). Qed.

  (* after any sequence of step calls that simulated at least one cycle (k calls returned,
     the next one possibly raised an rtl_assert exception or was refused) *)
  Theorem C15_inspect_is_last : forall inss s s' k o w,
    run s inss = (s', k, o) -> (0 < cycles k o)%nat -> In w (trace_names (str s)) ->
    trace_last (str s') w = Some (inspect State s' w).
  Proof. exact (run_inspect_last State stepf input_widths guard asserts). Qed.

  (* a refused step changes nothing: trace not advanced, inspect unchanged *)
  Theorem C15_rejected_step_changes_nothing : forall s ins s',
    sim_step s ins = (s', Rejected) -> s' = s.
  Proof. exact (step_rejected State stepf input_widths guard asserts). Qed.

  (* a step is refused iff some provided value fails the guard / names no Input / an Input is missing *)
  Theorem C15_step_rejected_iff : forall s ins,
    snd (sim_step s ins) = Rejected <-> ~ accepted ins.
  Proof. exact (step_rejected_iff State stepf input_widths guard asserts). Qed.

  (* every traced list has exactly as many entries as cycles were simulated *)
  Theorem C15_trace_length : forall inss s s' k o n,
    run s inss = (s', k, o) -> all_len (str s) n -> all_len (str s') (n + cycles k o).
  Proof. exact (run_length State stepf input_widths guard asserts). Qed.

  Theorem C15_trace_length_all_done : forall inss ws st v0 s' k,
    run (mkSim st v0 (new_trace ws)) inss = (s', k, Done) ->
    k = length inss /\ all_len (str s') (length inss).
  Proof. exact (run_length_all_done State stepf input_widths guard asserts). Qed.

  (* the trace is keyed by wire NAME: a wires_to_track list that names a wire several times gives one
     list per wire, and after n returned calls each listed wire has exactly n entries under its name *)
  Theorem C15_trace_length_by_name : forall inss ws st v0 s' k w,
    run (mkSim st v0 (new_trace ws)) inss = (s', k, Done) -> In w ws ->
    exists l, lookup (str s') w = Some l /\ length l = length inss.
  Proof. exact (run_length_by_name State stepf input_widths guard asserts). Qed.

  (* ---- rtl_assert: with legal inputs, stepping raises the exception of assertion a after
     exactly t calls returned, iff cycle t is the first in which some assertion wire is 0
     (a being the first registered assertion that is 0 in that cycle); otherwise every call returns *)
  Theorem C15_rtl_assert_first_failure : forall inss s s' k o,
    Forall (fun ins => accepted ins) inss -> run s inss = (s', k, o) ->
    match first_assert_failure asserts (pure_vals State stepf (sst s) inss) with
    | Some (t, a) => k = t /\ o = AssertFailed a
    | None => k = length inss /\ o = Done
    end.
  Proof. exact (run_first_assert State stepf input_widths guard asserts). Qed.

  Theorem C15_first_assert_failure_is_first_zero : forall vms t a,
    first_assert_failure asserts vms = Some (t, a) <->
    (exists vm, nth_error vms t = Some vm /\ failing_assert asserts vm = Some a) /\
    (forall t' vm', (t' < t)%nat -> nth_error vms t' = Some vm' -> failing_assert asserts vm' = None).
  Proof. exact (first_assert_failure_spec asserts). Qed.

  Theorem C15_failing_assert_none : forall vm,
    failing_assert asserts vm = None <-> forall a, In a asserts -> vm a <> 0.
  Proof. exact (failing_assert_none asserts). Qed.

  Theorem C15_failing_assert_some : forall vm a,
    failing_assert asserts vm = Some a -> In a asserts /\ vm a = 0.
  Proof. exact (failing_assert_some asserts). Qed.

  (* ---- step_multiple (one model for the three textually identical copies, gate T14) *)
  (* the prologue: number of steps and the length requirements *)
  Theorem C15_step_multiple_nsteps : forall provided (expected : list (name * list (option Z))) nsteps n,
    sm_nsteps provided expected nsteps = inr n ->
    n = nsteps_of provided nsteps /\ 1 <= n /\
    Forall (fun p => n <= len (snd p)) provided /\ Forall (fun p => n <= len (snd p)) expected.
  Proof. exact (@sm_nsteps_ok (option Z)). Qed.

  (* = calling step once per cycle (same final object), and the failed list is the list of
     mismatches of those single steps, in step order *)
  Theorem C15_step_multiple_equiv : forall provided expected nsteps s n s',
    sm_nsteps provided expected nsteps = inr n ->
    run s (map (inputs_at provided) (seq 0 (Z.to_nat n))) = (s', Z.to_nat n, Done) ->
    step_multiple provided expected nsteps false s =
      SmFinished s' (mismatches State stepf input_widths guard asserts provided expected s (seq 0 (Z.to_nat n))).
  Proof. exact (step_multiple_all State stepf input_widths guard asserts). Qed.

  (* exactly the mismatching expected outputs: (i, w, e, a) is reported for the object s_i
     reached after step i iff expected[w][i] = e is not '?', a = inspect(w) and e <> a *)
  Theorem C15_step_multiple_exact_mismatches : forall expected s_i i f,
    In f (check_expected State expected s_i i) <->
    exists w l e, In (w, l) expected /\ nth i l None = Some e /\ e <> inspect State s_i w
                  /\ f = (i, w, e, inspect State s_i w).
  Proof. exact (check_in State). Qed.

  (* if a single step would raise (refused input, rtl_assert), step_multiple raises at the same
     step with the same object, and writes nothing *)
  Theorem C15_step_multiple_raises : forall provided expected nsteps s n s' k o,
    sm_nsteps provided expected nsteps = inr n ->
    run s (map (inputs_at provided) (seq 0 (Z.to_nat n))) = (s', k, o) -> o <> Done ->
    step_multiple provided expected nsteps false s = SmRaised s' k o.
  Proof. exact (step_multiple_raises State stepf input_widths guard asserts). Qed.

  (* stop_after_first_error: stops after the first step that has a mismatch and reports that step *)
  Theorem C15_step_multiple_stop : forall provided expected nsteps s n s',
    sm_nsteps provided expected nsteps = inr n ->
    run s (map (inputs_at provided) (seq 0 (Z.to_nat n))) = (s', Z.to_nat n, Done) ->
    step_multiple provided expected nsteps true s =
      let idx := seq 0 (Z.to_nat n) in
      let r := stop_result State expected s
                 (combine idx (states State stepf input_widths guard asserts s (map (inputs_at provided) idx))) in
      SmFinished (fst r) (snd r).
  Proof. exact (step_multiple_stop State stepf input_widths guard asserts). Qed.

  (* without expected outputs: exactly the single steps, up to and including the one that raises
     (the k legal cycles before a refused input ARE simulated and traced) *)
  Theorem C15_step_multiple_no_expected : forall provided nsteps s n s' k o,
    sm_nsteps provided (@nil (name * list (option Z))) nsteps = inr n ->
    run s (map (inputs_at provided) (seq 0 (Z.to_nat n))) = (s', k, o) ->
    step_multiple provided [] nsteps false s =
      match o with Done => SmFinished s' [] | _ => SmRaised s' k o end.
  Proof. exact (step_multiple_no_expected State stepf input_widths guard asserts). Qed.

  Theorem C15_step_multiple_prologue_error : forall provided expected nsteps stop s e,
    sm_nsteps provided expected nsteps = inl e ->
    step_multiple provided expected nsteps stop s = SmError e.
  Proof. exact (step_multiple_prologue_error State stepf input_widths guard asserts). Qed.
End Channels.
Print Assumptions C15_step_order_simulation.
Print Assumptions C15_step_order_fast.
Print Assumptions C15_step_order_compiled.
Print Assumptions C15_inspect_is_last_after_step.
Print Assumptions C15_inspect_is_last.
Print Assumptions C15_rejected_step_changes_nothing.
Print Assumptions C15_step_rejected_iff.
Print Assumptions C15_trace_length.
Print Assumptions C15_trace_length_all_done.
Print Assumptions C15_trace_length_by_name.
Print Assumptions C15_rtl_assert_first_failure.
Print Assumptions C15_first_assert_failure_is_first_zero.
Print Assumptions C15_failing_assert_none.
Print Assumptions C15_failing_assert_some.
Print Assumptions C15_step_multiple_nsteps.
Print Assumptions C15_step_multiple_equiv.
Print Assumptions C15_step_multiple_exact_mismatches.
Print Assumptions C15_step_multiple_raises.
Print Assumptions C15_step_multiple_stop.
Print Assumptions C15_step_multiple_prologue_error.
Print Assumptions C15_step_multiple_no_expected.

Theorem C15_trace_keys_unique : forall ws,
  NoDup (trace_names (new_trace ws)) /\ (forall w, In w (trace_names (new_trace ws)) <-> In w ws).
Proof. exact new_trace_names. Qed.
Print Assumptions C15_trace_keys_unique.

(* the written report lists exactly the failed entries, ordered by (step, natural name key) *)
Theorem C15_report_is_sorted_permutation : forall failed,
  Permutation (report failed) failed /\ Sorted (fun f g => failure_leb f g = true) (report failed).
Proof. exact (fun failed => conj (report_perm failed) (report_sorted failed)). Qed.
Print Assumptions C15_report_is_sorted_permutation.

(* ---- text channels (IO/Vcd.v): text = list of character codes, `string_of_text` gives the
   Coq string.  Numerals: '{:b}' '{:o}' '{:d}' '{:x}' are render 2/8/10/16. *)
Theorem C15_numeral_roundtrip : forall b n, 2 <= b <= 16 -> 0 <= n -> parse b (render b n) = Some n.
Proof. exact parse_render. Qed.
Print Assumptions C15_numeral_roundtrip.

(* print_trace(base, compact=False) decodes back to the traced values, for every base 2..16
   (in particular 2, 8, 10, 16), every set of rows and every number of cycles; names are
   non-empty and contain no space / newline, values are non-negative *)
Theorem C15_print_trace_roundtrip : forall base rows, 2 <= base <= 16 -> Forall good_row rows ->
  decode_trace base false (print_trace base false rows) = Some rows.
Proof. exact print_trace_roundtrip. Qed.
Print Assumptions C15_print_trace_roundtrip.

(* compact=True writes one character per value: decodable iff every value is a single digit *)
Theorem C15_print_trace_compact_roundtrip : forall base rows, 2 <= base <= 16 ->
  Forall (single_row base) rows ->
  decode_trace base true (print_trace base true rows) = Some rows.
Proof. exact print_trace_compact_roundtrip. Qed.
Print Assumptions C15_print_trace_compact_roundtrip.

(* ... and is not injective otherwise (documented: "omit spaces"): the precondition above is needed *)
Theorem C15_print_trace_compact_ambiguous :
  print_trace 10 true [(codes "a", [1; 11])] = print_trace 10 true [(codes "a", [11; 1])].
Proof. exact print_trace_compact_ambiguous. Qed.
Print Assumptions C15_print_trace_compact_ambiguous.

(* print_vcd (whole text, with or without the clock): decoding gives back every traced list,
   provided the identifiers are unique (and none is `clk` when the clock is included), contain no
   newline, all lists have the same length and values / widths are non-negative *)
Theorem C15_vcd_roundtrip : forall clock rows,
  Forall (good_vrow_full (endtime rows)) rows -> NoDup (map vid rows) ->
  (clock = true -> ~ In (codes "clk") (map vid rows)) ->
  decode_vcd (map vid rows) (print_vcd clock rows) = map vvals rows.
Proof. exact vcd_roundtrip. Qed.
Print Assumptions C15_vcd_roundtrip.

Theorem C15_vcd_body_roundtrip : forall clock rows,
  Forall (good_vrow (endtime rows)) rows -> NoDup (map vid rows) ->
  (clock = true -> ~ In (codes "clk") (map vid rows)) ->
  decode_vcd_body (map vid rows) (vcd_body clock rows) = map vvals rows.
Proof. exact vcd_body_roundtrip. Qed.
Print Assumptions C15_vcd_body_roundtrip.

(* the uniqueness hypothesis cannot be dropped: with the identifiers print_vcd actually assigns to
   wires named `_vcd_tmp_0` and `a.b` (both `_vcd_tmp_0`), decoding by identifier returns the
   interleaving of the two lists, i.e. neither wire's trace *)
Definition ex_collide : list vrow :=
  [mkVrow (codes "_vcd_tmp_0") (codes "_vcd_tmp_0") 4 [3; 5]; mkVrow (codes "a.b") (codes "_vcd_tmp_0") 4 [12; 10]].
Theorem C15_vcd_needs_unique_identifiers :
  NoDup (map vname ex_collide) /\
  decode_vcd (map vid ex_collide) (print_vcd false ex_collide) = [[3; 12; 5; 10]; [3; 12; 5; 10]] /\
  decode_vcd (map vid ex_collide) (print_vcd false ex_collide) <> map vvals ex_collide.
Proof.
  split; [|split; [vm_compute; reflexivity|vm_compute; discriminate]].
  cbn [map ex_collide vname]. repeat (first [apply NoDup_nil | apply NoDup_cons]); vm_compute; intuition (try discriminate; try lia).
Qed.
Print Assumptions C15_vcd_needs_unique_identifiers.

(* the report written by step_multiple decodes back to the sorted failed list *)
Theorem C15_report_roundtrip : forall stop failed, failed <> [] -> Forall good_failure failed ->
  decode_report (report_text stop failed) = Some (report failed).
Proof. exact report_roundtrip. Qed.
Print Assumptions C15_report_roundtrip.

(* ---- non-vacuity.  A 2-register design observed through every channel:
   state = cycle counter c; wires: a (input), c, o = a + c, ok = (c <> 2). *)
Definition nm (s : String.string) : name := codes s.
Definition ex_stepf (c : Z) (ins : inputs) : Z * (name -> Z) :=
  let a := match lookup ins (nm "a") with Some v => v | None => 0 end in
  (c + 1, fun w => if text_eqb w (nm "a") then a
                   else if text_eqb w (nm "c") then c
                   else if text_eqb w (nm "o10") then a + c
                   else if text_eqb w (nm "ok") then (if c =? 2 then 0 else 1)
                   else 0).
Definition ex_sim : sim Z := mkSim 0 (fun _ => 0) (new_trace [nm "a"; nm "c"; nm "o10"; nm "ok"]).
Definition ex_widths := [(nm "a", 4)].
Definition ex_run (asserts : list name) (vals : list Z) :=
  run Z ex_stepf ex_widths guard_simulation asserts ex_sim (map (fun v => [(nm "a", v)]) vals).

Example C15_example_guards :
  map (fun v => (guard_simulation v 4, guard_fast v 4, guard_compiled v 4)) [-1; 0; 15; 16; 2 ^ 64]
  = [(true, true, true); (false, false, false); (false, false, false); (true, true, true); (true, true, true)].
Proof. vm_compute. reflexivity. Qed.

(* three accepted steps: every list has three entries, inspect = last entry *)
Example C15_example_trace :
  match ex_run [] [3; 7; 15] with
  | (s, k, o) => k = 3%nat /\ o = Done /\ str s = [(nm "a", [3; 7; 15]); (nm "c", [0; 1; 2]);
                                                  (nm "o10", [3; 8; 17]); (nm "ok", [1; 1; 0])]
                 /\ map (inspect Z s) [nm "a"; nm "c"; nm "o10"] = [15; 2; 17]
                 /\ map (trace_last (str s)) [nm "a"; nm "c"; nm "o10"] = [Some 15; Some 2; Some 17]
  end.
Proof. vm_compute. repeat split; reflexivity. Qed.

(* wires_to_track = [o10; a; o10; a; o10]: two keys, one entry per cycle each *)
Example C15_example_repeated_wires :
  match run Z ex_stepf ex_widths guard_simulation []
            (mkSim 0 (fun _ => 0) (new_trace [nm "o10"; nm "a"; nm "o10"; nm "a"; nm "o10"]))
            (map (fun v => [(nm "a", v)]) [3; 7; 15]) with
  | (s, k, o) => k = 3%nat /\ str s = [(nm "o10", [3; 8; 17]); (nm "a", [3; 7; 15])]
  end.
Proof. vm_compute. repeat split; reflexivity. Qed.

(* the order matters: with check_rtl_assertions in front of the tracer call the failing cycle is
   simulated but never traced (2 entries), with the generated orders it is traced (3 entries) *)
Example C15_example_order_matters :
  let s2 := fst (fst (ex_run [nm "ok"] [3; 7])) in
  let len_after evs := trace_len (str (fst (exec_order Z ex_stepf ex_widths guard_simulation [nm "ok"] evs s2
                                                       [(nm "a", 15)]))) in
  len_after [EvValidate; EvCompute; EvCommit; EvPublish; EvAssert; EvTrace] = 2
  /\ len_after step_order_fast = 3 /\ len_after step_order_simulation = 3.
Proof. vm_compute. repeat split; reflexivity. Qed.

(* a refused value (16 does not fit 4 bits) in the third call: two cycles traced, nothing else changes *)
Example C15_example_rejected :
  match ex_run [] [3; 7; 16; 1] with
  | (s, k, o) => k = 2%nat /\ o = Rejected /\ trace_len (str s) = 2
  end.
Proof. vm_compute. repeat split; reflexivity. Qed.

(* rtl_assert on `ok`: raised by the third call (cycle 2, the first cycle with ok = 0), after tracing it *)
Example C15_example_assert :
  match ex_run [nm "ok"] [3; 7; 15; 1] with
  | (s, k, o) => k = 2%nat /\ o = AssertFailed (nm "ok") /\ trace_len (str s) = 3
  end
  /\ first_assert_failure [nm "ok"] (pure_vals Z ex_stepf 0 (map (fun v => [(nm "a", v)]) [3; 7; 15; 1]))
     = Some (2%nat, nm "ok").
Proof. vm_compute. repeat split; reflexivity. Qed.

(* step_multiple with wrong entries and '?': the failed list, its report order and text *)
Example C15_example_step_multiple :
  match step_multiple Z ex_stepf ex_widths guard_simulation []
          [(nm "a", [3; 7; 15])]
          [(nm "o10", [Some 3; None; Some 9]); (nm "c", [Some 1; Some 1; Some 5])] None false ex_sim with
  | SmFinished s failed =>
      failed = [(0%nat, nm "c", 1, 0); (2%nat, nm "o10", 9, 17); (2%nat, nm "c", 5, 2)]
      /\ report failed = [(0%nat, nm "c", 1, 0); (2%nat, nm "c", 5, 2); (2%nat, nm "o10", 9, 17)]
      /\ trace_len (str s) = 3
      /\ string_of_text (report_text false failed) =
"Unexpected output on one or more steps:
 step       name expected   actual
    0          c        1        0
    2          c        5        2
    2        o10        9       17
"%string
  | _ => False
  end.
Proof. vm_compute. repeat split; reflexivity. Qed.

(* no expected outputs, 16 does not fit at step 2: the two legal cycles are traced, then the step raises *)
Example C15_example_step_multiple_illegal_step :
  match step_multiple Z ex_stepf ex_widths guard_simulation [] [(nm "a", [3; 7; 16; 1])] [] None false ex_sim with
  | SmRaised s i o => i = 2%nat /\ o = Rejected /\ trace_len (str s) = 2
  | _ => False
  end.
Proof. vm_compute. repeat split; reflexivity. Qed.

Example C15_example_step_multiple_errors :
  (* nsteps greater than the values supplied; no inputs and no nsteps; an expected list too short *)
  map (fun r => match r with SmError k => k | _ => 0 end)
    [ step_multiple Z ex_stepf ex_widths guard_simulation [] [(nm "a", [3; 7])] [] (Some 3) false ex_sim;
      step_multiple Z ex_stepf ex_widths guard_simulation [] [] [] None false ex_sim;
      step_multiple Z ex_stepf ex_widths guard_simulation [] [(nm "a", [3; 7])] [(nm "c", [Some 0])] None false ex_sim ]
  = [2; 1; 5].
Proof. vm_compute. reflexivity. Qed.

Ltac listy := repeat (first [apply Forall_nil | apply Forall_cons | apply NoDup_nil | apply NoDup_cons]).
Definition ex_rows : list row := [(nm "a", [3; 255]); (nm "out[3]", [0; 18])].
Example C15_example_print_trace :
  string_of_text (print_trace 16 false ex_rows) =
"   --- Values in base 16 ---
a       3 ff
out[3]  0 12
"%string
  /\ Forall good_row ex_rows
  /\ decode_trace 16 false (print_trace 16 false ex_rows) = Some ex_rows.
Proof.
  split; [vm_compute; reflexivity|]. split; [|vm_compute; reflexivity].
  unfold ex_rows. listy; (split; [split; [discriminate|split; vm_compute; intuition lia]|listy; lia]).
Qed.

Definition ex_vrows : list vrow :=
  [mkVrow (nm "a") (nm "a") 8 [3; 255]; mkVrow (nm "out[3]") (nm "_vcd_tmp_0") 5 [0; 18]].
Example C15_example_print_vcd :
  string_of_text (print_vcd false ex_vrows) =
"$timescale 1ns $end
$scope module logic $end
$var wire 8 a a $end
$var wire 5 _vcd_tmp_0 _vcd_tmp_0 $end
$upscope $end
$enddefinitions $end
$dumpvars
b11 a
b0 _vcd_tmp_0
$end
#0
b11 a
b0 _vcd_tmp_0

#10
b11111111 a
b10010 _vcd_tmp_0

#20
"%string
  /\ decode_vcd [nm "a"; nm "_vcd_tmp_0"] (print_vcd true ex_vrows) = [[3; 255]; [0; 18]]
  /\ Forall (good_vrow_full (endtime ex_vrows)) ex_vrows /\ NoDup (map vid ex_vrows).
Proof.
  split; [vm_compute; reflexivity|]. split; [vm_compute; reflexivity|]. split.
  - unfold ex_vrows. listy; (split; [split; [reflexivity|split; [listy; lia|vm_compute; intuition lia]]|cbn; lia]).
  - cbn [map ex_vrows vid]. listy; vm_compute; intuition (try discriminate; try lia).
Qed.
