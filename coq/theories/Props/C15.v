(* C15 -- All observation channels of a simulation agree; illegal inputs are refused.
   Only statements + `exact`; proofs in Sim/TraceProofs.v and IO/VcdProofs.v. *)
From PyRTL Require Import Base.PyZ Sim.TraceBase Sim.Trace Gen.InputGuards Sim.TraceProofs.
From Coq Require Import Permutation.

(* ---- input validation: the guards below are regenerated from the simulators'
   source on every run (py/genfrag_C15.py -> Gen/InputGuards.v) *)
Theorem C15_input_guard_simulation : forall v w, 1 <= w ->
  (guard_simulation v w = true <-> ~ (0 <= v < 2 ^ w)).
Proof. exact simulation_guard_correct. Qed.
Print Assumptions C15_input_guard_simulation.

Theorem C15_input_guard_fast : forall v w, 1 <= w ->
  (guard_fast v w = true <-> ~ (0 <= v < 2 ^ w)).
Proof. exact fast_guard_correct. Qed.
Print Assumptions C15_input_guard_fast.

(* CompiledSimulation.run.  Until commit "fix F6" the guard was only `val >= 1 << bw`
   (negative values accepted); it is now `val >= 1 << bw or val < 0` and the positive
   theorem holds.  Sim/TraceProofs.v contains both conditional lemmas and compiles in either
   state of the source; exactly one of `compiled_guard_correct_if eq_refl` /
   `compiled_guard_refuted_if eq_refl` type-checks.  If the guard regresses, this theorem
   stops compiling; the statement to prove then is the commented one below. *)
Theorem C15_input_guard_compiled : forall v w, 1 <= w ->
  (guard_compiled v w = true <-> ~ (0 <= v < 2 ^ w)).
Proof. exact (compiled_guard_correct_if eq_refl). Qed.
Print Assumptions C15_input_guard_compiled.

(* F6-PRESENT (kept for reference; was proved against the unrepaired source):
Theorem C15_compiled_guard_refuted :
  exists v w, 1 <= w /\ ~ (0 <= v < 2 ^ w) /\ guard_compiled v w = false.
Proof. exact (compiled_guard_refuted_if eq_refl). Qed.
Print Assumptions C15_compiled_guard_refuted.
*)

(* holds in both states of the source: values that are too large are always refused *)
Theorem C15_input_guard_compiled_upper_partial : forall v w, 1 <= w -> 2 ^ w <= v ->
  guard_compiled v w = true.
Proof. exact compiled_guard_upper. Qed.
Print Assumptions C15_input_guard_compiled_upper_partial.
