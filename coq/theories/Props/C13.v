(* C13 -- rtllib adders and multipliers are exact for all widths and values.
   Only statements + `exact`; models in Lib/Adders.v, Lib/Mult.v, Lib/SeqMult.v,
   proofs in Lib/AddersProofs.v, Lib/ReducerProofs.v, Lib/MultProofs.v,
   Lib/SeqMultProofs.v.  Bit lists are LSB first; bval = unsigned value. *)
From PyRTL Require Import Lib.Mult Lib.SeqMult Lib.BitListFacts Lib.AddersProofs
  Lib.AddersProofs2 Lib.AddersProofs3 Lib.AddersProofs4 Lib.AddersProofs5 Lib.ReducerProofs
  Lib.MultProofs Lib.MultProofs2 Lib.MultProofs3
  Lib.SeqMultProofs.

(* ------------------------------------------------------------------ adders *)

(* ripple_add (with ripple_half_add and the operand swap): a + b + cin, width max+1 *)
Theorem C13_ripple_add_exact : forall a b cin,
  bval (ripple_add a b cin) = bval a + bval b + b2z cin /\
  length (ripple_add a b cin) = S (Nat.max (length a) (length b)).
Proof. exact ripple_add_exact. Qed.
Print Assumptions C13_ripple_add_exact.

(* kogge_stone as the code is today (carry-in folded into generate bit 0, fix
   fa565d3): a + b + cin for every cin, via the prefix invariant "after the stage
   with distance d, gen[i] = generate of bits max(0,i-2d+1)..i" *)
Theorem C13_kogge_stone_exact : forall a b cin,
  bval (kogge_stone a b cin) = bval a + bval b + b2z cin /\
  length (kogge_stone a b cin) = S (Nat.max (length a) (length b)).
Proof. exact kogge_stone_exact. Qed.
Print Assumptions C13_kogge_stone_exact.

(* F9, the code before the fix (generate bits a & b): exact for cin = 0 only; the
   statement for every cin was false of it *)
Theorem C13_kogge_prefix_exact_cin0 : forall a b,
  bval (kogge_stone_with ks_init_gen_asis a b false) = bval a + bval b /\
  length (kogge_stone_with ks_init_gen_asis a b false) = S (Nat.max (length a) (length b)).
Proof. exact kogge_stone_prefix_exact_cin0. Qed.
Print Assumptions C13_kogge_prefix_exact_cin0.

Theorem C13_kogge_prefix_cin_refuted :
  exists a b cin,
    bval (kogge_stone_with ks_init_gen_asis a b cin) <> bval a + bval b + b2z cin.
Proof. exact kogge_prefix_cin_refuted. Qed.
Print Assumptions C13_kogge_prefix_cin_refuted.

(* cla_adder / _cla_adder_unit: exact for every look-ahead unit length >= 1 *)
Theorem C13_cla_adder_exact : forall la a b cin, (1 <= la)%nat ->
  bval (cla_adder la a b cin) = bval a + bval b + b2z cin /\
  length (cla_adder la a b cin) = S (Nat.max (length a) (length b)).
Proof. exact cla_adder_exact. Qed.
Print Assumptions C13_cla_adder_exact.

(* carrysave_adder as the code is today (fix 36743df), any exact final adder:
   never raises and returns a + b + c *)
Theorem C13_carrysave_exact : forall add a b c,
  adder_ok add ->
  exists r, carrysave_adder add a b c = Some r /\ bval r = bval a + bval b + bval c.
Proof. exact carrysave_exact. Qed.
Print Assumptions C13_carrysave_exact.

(* F12, the code before the fix: exact whenever it returned, returned for widths >= 2,
   raised when all three operands are one bit wide *)
Theorem C13_carrysave_prefix_exact : forall raises1 add a b c r,
  adder_ok add -> carrysave_adder_with raises1 add a b c = Some r ->
  bval r = bval a + bval b + bval c.
Proof. exact carrysave_exact_gen. Qed.
Print Assumptions C13_carrysave_prefix_exact.

Theorem C13_carrysave_prefix_defined : forall raises1 add a b c,
  (2 <= Nat.max (length a) (Nat.max (length b) (length c)))%nat ->
  exists r, carrysave_adder_with raises1 add a b c = Some r.
Proof. exact carrysave_defined. Qed.
Print Assumptions C13_carrysave_prefix_defined.

Theorem C13_carrysave_prefix_width1_refuted :
  exists a b c, length a = 1%nat /\ length b = 1%nat /\ length c = 1%nat /\
                carrysave_adder_with true add_ripple a b c = None.
Proof. exact carrysave_prefix_width1_refuted. Qed.
Print Assumptions C13_carrysave_prefix_width1_refuted.

(* the final adders used by the reducers (two-argument call, cin = 0) are exact *)
Theorem C13_final_adders_exact :
  adder_ok add_ks /\ adder_ok add_ripple /\ forall la, (1 <= la)%nat -> adder_ok (add_cla la).
Proof. exact (conj add_ks_ok (conj add_ripple_ok add_cla_ok)). Qed.
Print Assumptions C13_final_adders_exact.

(* ---------------------------------------------------------------- reducers *)

(* one Wallace / Dada pass preserves the weighted column sum  sum_i 2^i*popcount(col_i) *)
Theorem C13_wallace_pass_invariant : forall cols cin,
  colsum (wallace_pass cols cin) = popc cin + colsum cols.
Proof. exact wallace_pass_sum. Qed.
Print Assumptions C13_wallace_pass_invariant.

Theorem C13_dada_pass_invariant : forall target cols cin r,
  dada_pass target cols cin = Some r -> colsum r = popc cin + colsum cols.
Proof. exact dada_pass_sum. Qed.
Print Assumptions C13_dada_pass_invariant.

(* wallace_reducer (any fuel, any exact final adder): column sum mod 2^result_bitwidth *)
Theorem C13_wallace_exact : forall fuel add cols rw r,
  adder_ok add -> wallace_reducer_fuel fuel add cols rw = Some r ->
  bval r = colsum cols mod 2 ^ Z.of_nat rw.
Proof. exact wallace_fuel_exact. Qed.
Print Assumptions C13_wallace_exact.

(* fuel sufficiency: with the fuel wallace_reducer uses (the maximal column height) the
   reduction loop always finishes -- a pass lowers the maximal height while it is >= 3 --
   so wallace_reducer returns None only where _sparse_adder raises *)
Theorem C13_wallace_fuel_sufficient : forall cols rw,
  exists c', wallace_loop (maxheight cols) rw cols = Some c'.
Proof. exact wallace_fuel_sufficient. Qed.
Print Assumptions C13_wallace_fuel_sufficient.

(* hence (with _sparse_adder total since fix be08f74) wallace_reducer always returns *)
Theorem C13_wallace_reducer_returns : forall add cols rw,
  (length cols <= rw)%nat -> exists r, wallace_reducer add cols rw = Some r.
Proof. exact wallace_reducer_returns. Qed.
Print Assumptions C13_wallace_reducer_returns.

(* dada_reducer (schedule 2,3,4,6,9,...; every column ends with height <= 2):
   column sum mod 2^result_bitwidth whenever it returns *)
Theorem C13_dada_exact : forall add cols rw r,
  adder_ok add -> dada_reducer add cols rw = Some r ->
  bval r = colsum cols mod 2 ^ Z.of_nat rw.
Proof. exact dada_exact. Qed.
Print Assumptions C13_dada_exact.

Theorem C13_dada_columns_le2 : forall cols rw c',
  dada_reduced cols rw = Some c' -> all_le2 c' = true.
Proof. exact dada_reduced_le2. Qed.
Print Assumptions C13_dada_columns_le2.

(* fast_group_adder: L + ceil(log2 k) result bits always hold the exact sum *)
Theorem C13_fast_group_adder_exact : forall red add ws r,
  reducer_ok red -> adder_ok add ->
  fast_group_adder red add ws = Some r -> bval r = sum_bvals ws.
Proof. exact fast_group_adder_exact. Qed.
Print Assumptions C13_fast_group_adder_exact.

(* ------------------------------------------------------------- multipliers *)

(* tree_multiplier = partial products + reducer + final adder: exact product *)
Theorem C13_tree_multiplier_exact : forall red add A B r,
  reducer_ok red -> adder_ok add ->
  tree_multiplier red add A B = Some r -> bval r = bval A * bval B.
Proof. exact tree_multiplier_exact. Qed.
Print Assumptions C13_tree_multiplier_exact.

Theorem C13_reducers_ok : reducer_ok wallace_reducer /\ reducer_ok dada_reducer.
Proof. exact (conj wallace_exact dada_exact). Qed.
Print Assumptions C13_reducers_ok.

(* signed_tree_multiplier as the code is today (full-width magnitudes, fix 04b48dd);
   sval = to_signed: exact for every operand pair, the most negative value included *)
Theorem C13_signed_tree_multiplier_exact : forall A B r,
  signed_tree_multiplier A B = Some r ->
  sval r = sval A * sval B /\ length r = (length A + length B)%nat.
Proof. exact signed_tree_multiplier_fullmag_signed. Qed.
Print Assumptions C13_signed_tree_multiplier_exact.

(* F10, the code before the fix (a[:-1], b[:-1]): wrong for the most negative operand,
   exact otherwise *)
Theorem C13_signed_prefix_most_negative_refuted :
  exists A B r, signed_tree_multiplier_with stm_magnitude_prefix A B = Some r /\
    bval r <> (sval A * sval B) mod 2 ^ Z.of_nat (length A + length B).
Proof. exact signed_tree_most_negative_refuted. Qed.
Print Assumptions C13_signed_prefix_most_negative_refuted.

Theorem C13_signed_prefix_partial : forall A B r,
  signed_tree_multiplier_with stm_magnitude_prefix A B = Some r ->
  sval A <> - 2 ^ Z.of_nat (length A - 1) -> sval B <> - 2 ^ Z.of_nat (length B - 1) ->
  sval r = sval A * sval B /\ length r = (length A + length B)%nat.
Proof. exact signed_tree_multiplier_partial_signed. Qed.
Print Assumptions C13_signed_prefix_partial.

(* generalized_fma: the full statement is false of the code (F11) ... *)
Definition C13_fma_full_statement : Prop := forall red add pairs adds r,
  reducer_ok red -> adder_ok add ->
  generalized_fma red add pairs adds = Some r -> bval r = fma_exact pairs adds.

Theorem C13_fma_width_refuted :
  exists a b c r,
    fused_multiply_adder wallace_reducer add_ks a b c = Some r /\
    length r = fma_width [(a, b)] [c] /\
    bval r <> bval a * bval b + bval c.
Proof. exact fma_width_refuted. Qed.
Print Assumptions C13_fma_width_refuted.

(* ... it returns the exact value modulo 2^(its result width), hence the exact
   value under the explicit "fits in the result width" side condition *)
Theorem C13_fma_mod_width : forall red add pairs adds r,
  reducer_ok red -> adder_ok add ->
  generalized_fma red add pairs adds = Some r ->
  bval r = fma_exact pairs adds mod 2 ^ Z.of_nat (fma_width pairs adds).
Proof. exact generalized_fma_mod. Qed.
Print Assumptions C13_fma_mod_width.

Theorem C13_fma_exact_when_fits : forall red add pairs adds r,
  reducer_ok red -> adder_ok add ->
  generalized_fma red add pairs adds = Some r ->
  fma_exact pairs adds < 2 ^ Z.of_nat (fma_width pairs adds) ->
  bval r = fma_exact pairs adds.
Proof. exact generalized_fma_exact_when_fits. Qed.
Print Assumptions C13_fma_exact_when_fits.

(* ------------------------------------ totality and result widths (unconditional) *)

(* Dada completion: the schedule never runs out of wires, for EVERY column array
   (pass invariant: 2*height <= 3*target and at most floor(target/2) carries in) *)
Theorem C13_dada_reducer_returns : forall add cols rw,
  (length cols <= rw)%nat -> exists r, dada_reducer add cols rw = Some r.
Proof. exact dada_reducer_returns. Qed.
Print Assumptions C13_dada_reducer_returns.

(* both reducers: exact, total, and filling all result_bitwidth bits (`fills`:
   the array is rw long, or has a column of height >= 3, or height 2 and rw <= len+1);
   the three final adders: exact with result length max+1 *)
Theorem C13_reducers_good : reducer_good wallace_reducer /\ reducer_good dada_reducer.
Proof. exact reducers_good. Qed.
Print Assumptions C13_reducers_good.

Theorem C13_adders_good :
  adder_good add_ks /\ adder_good add_ripple /\ forall la, (1 <= la)%nat -> adder_good (add_cla la).
Proof. exact adders_good. Qed.
Print Assumptions C13_adders_good.

(* tree_multiplier always returns the exact product at width len(A)+len(B) *)
Theorem C13_tree_multiplier_total : forall red add A B,
  reducer_good red -> adder_good add -> (1 <= length A)%nat -> (1 <= length B)%nat ->
  exists r, tree_multiplier red add A B = Some r /\
            bval r = bval A * bval B /\ length r = (length A + length B)%nat.
Proof. exact tree_multiplier_total. Qed.
Print Assumptions C13_tree_multiplier_total.

(* signed_tree_multiplier always returns (operands at least 2 bits: sign bit required) *)
Theorem C13_signed_tree_multiplier_total : forall A B,
  (2 <= length A)%nat -> (2 <= length B)%nat ->
  exists r, signed_tree_multiplier A B = Some r /\
            sval r = sval A * sval B /\ length r = (length A + length B)%nat.
Proof. exact signed_tree_multiplier_total. Qed.
Print Assumptions C13_signed_tree_multiplier_total.

(* fast_group_adder always returns the exact sum at width L + ceil(log2 k) *)
Theorem C13_fast_group_adder_total : forall red add ws,
  reducer_good red -> adder_good add -> wires_nonempty ws ->
  exists r, fast_group_adder red add ws = Some r /\
            bval r = sum_bvals ws /\ length r = fga_width ws.
Proof. exact fast_group_adder_total. Qed.
Print Assumptions C13_fast_group_adder_total.

(* generalized_fma / fused_multiply_adder always return, at the code's result width,
   the exact value modulo 2^width (F11: that width can be too narrow) *)
Theorem C13_generalized_fma_total : forall red add pairs adds,
  reducer_good red -> adder_good add -> pairs_nonempty pairs -> wires_nonempty adds ->
  exists r, generalized_fma red add pairs adds = Some r /\
            bval r = fma_exact pairs adds mod 2 ^ Z.of_nat (fma_width pairs adds) /\
            length r = fma_width pairs adds.
Proof. exact generalized_fma_total. Qed.
Print Assumptions C13_generalized_fma_total.

(* ---------------------------------------------------- sequential multipliers *)

(* start high for one cycle (any prior state), then operands held with start low:
   done is low for d cycles, d <= len(A), then stays high and accum = A*B.
   The state after the start cycle is visible one cycle after start, so done is
   raised within len(A)+1 cycles of start. *)
Theorem C13_simple_mult_done_and_product : forall alen blen A B st0,
  0 < alen -> 0 < blen -> 0 <= A < 2 ^ alen -> 0 <= B < 2 ^ blen ->
  let st1 := simple_step alen blen true A B st0 in
  let hold := simple_step alen blen false A B in
  exists d, (d <= Z.to_nat alen)%nat /\
    (forall j, (j < d)%nat -> m_done (m_run hold j st1) = false) /\
    (forall k, (d <= k)%nat ->
       m_done (m_run hold k st1) = true /\ accum (m_run hold k st1) = A * B).
Proof. exact simple_mult_done_and_product. Qed.
Print Assumptions C13_simple_mult_done_and_product.

(* complex_mult: the same with ceil(len(A)/shifts) *)
Theorem C13_complex_mult_done_and_product : forall alen blen sh A B st0,
  0 < alen -> 0 < blen -> (1 <= sh)%nat -> 0 <= A < 2 ^ alen -> 0 <= B < 2 ^ blen ->
  let st1 := complex_step alen blen sh true A B st0 in
  let hold := complex_step alen blen sh false A B in
  let bound := Z.to_nat ((alen + Z.of_nat sh - 1) / Z.of_nat sh) in
  exists d, (d <= bound)%nat /\
    (forall j, (j < d)%nat -> m_done (m_run hold j st1) = false) /\
    (forall k, (d <= k)%nat ->
       m_done (m_run hold k st1) = true /\ accum (m_run hold k st1) = A * B).
Proof. exact complex_mult_done_and_product. Qed.
Print Assumptions C13_complex_mult_done_and_product.

(* a start pulse is honoured whatever the unit is doing: issued while an earlier
   multiplication is still busy, it latches the new operands, clears accum, and the
   product of the NEW operands is delivered within the same bound *)
Theorem C13_simple_mult_restart_while_busy : forall alen blen A B st0,
  0 < alen -> 0 < blen -> 0 <= A < 2 ^ alen -> 0 <= B < 2 ^ blen ->
  m_done st0 = false ->
  let st1 := simple_step alen blen true A B st0 in
  let hold := simple_step alen blen false A B in
  st1 = MkM A B 0 /\
  exists d, (d <= Z.to_nat alen)%nat /\
    (forall j, (j < d)%nat -> m_done (m_run hold j st1) = false) /\
    (forall k, (d <= k)%nat ->
       m_done (m_run hold k st1) = true /\ accum (m_run hold k st1) = A * B).
Proof. exact simple_mult_restart_while_busy. Qed.
Print Assumptions C13_simple_mult_restart_while_busy.

Theorem C13_complex_mult_restart_while_busy : forall alen blen sh A B st0,
  0 < alen -> 0 < blen -> (1 <= sh)%nat -> 0 <= A < 2 ^ alen -> 0 <= B < 2 ^ blen ->
  m_done st0 = false ->
  let st1 := complex_step alen blen sh true A B st0 in
  let hold := complex_step alen blen sh false A B in
  let bound := Z.to_nat ((alen + Z.of_nat sh - 1) / Z.of_nat sh) in
  st1 = MkM A B 0 /\
  exists d, (d <= bound)%nat /\
    (forall j, (j < d)%nat -> m_done (m_run hold j st1) = false) /\
    (forall k, (d <= k)%nat ->
       m_done (m_run hold k st1) = true /\ accum (m_run hold k st1) = A * B).
Proof. exact complex_mult_restart_while_busy. Qed.
Print Assumptions C13_complex_mult_restart_while_busy.

(* non-vacuity: 45*19 started, interrupted after 2 cycles (busy) by a start of 7*30 *)
Example C13_example_restart :
  let busy := m_run (simple_step 6 5 false 45 19) 2 (simple_step 6 5 true 45 19 m_init) in
  m_done busy = false /\
  accum (m_run (simple_step 6 5 false 7 30) 3 (simple_step 6 5 true 7 30 busy)) = 210.
Proof. vm_compute. split; reflexivity. Qed.

(* --------------------------------------------------------------- non-vacuity *)

(* the reducers do return on multiplier-shaped and adder-shaped arrays *)
Example C13_example_tree_returns :
  option_map bval (tree_multiplier wallace_reducer add_ks (zbits 5 23) (zbits 4 13)) = Some (23 * 13)
  /\ option_map bval (tree_multiplier dada_reducer add_ripple (zbits 5 23) (zbits 4 13)) = Some (23 * 13)
  /\ option_map bval (fast_group_adder dada_reducer add_ks [zbits 3 7; zbits 5 31; zbits 1 1; zbits 4 9])
     = Some (7 + 31 + 1 + 9)
  /\ option_map bval (generalized_fma wallace_reducer add_ks [(zbits 3 7, zbits 3 5); (zbits 2 3, zbits 4 11)] [zbits 4 6])
     = Some (7 * 5 + 3 * 11 + 6).
Proof. vm_compute. repeat split; reflexivity. Qed.

(* signed: (-3) * 5 and (-8) * (-8) (both most negative) on 4x4 bits *)
Example C13_example_signed :
  option_map sval (signed_tree_multiplier (zbits 4 (-3)) (zbits 4 5)) = Some (-15)
  /\ option_map sval (signed_tree_multiplier (zbits 4 (-8)) (zbits 4 (-8))) = Some 64.
Proof. vm_compute. split; reflexivity. Qed.

(* a 5-bit multiplication on the register machine: done after 3 cycles (A = 5 = 0b101) *)
Example C13_example_simple_mult :
  let st1 := simple_step 5 5 true 5 27 m_init in
  let hold := simple_step 5 5 false 5 27 in
  map (fun k => (b2z (m_done (m_run hold k st1)), accum (m_run hold k st1))) [0; 1; 2; 3; 4]%nat
  = [(0, 0); (0, 27); (0, 27); (1, 135); (1, 135)].
Proof. vm_compute. reflexivity. Qed.
