(* C13 -- placeholder while the proofs are being written *)
From PyRTL Require Import Lib.C13Harness.

Example C13_smoke : bval (kogge_stone [true] [false] true) = 0.
Proof. vm_compute. reflexivity. Qed.
