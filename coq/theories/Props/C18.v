(* C18 -- AES and PRNG generators implement their published algorithms (work in progress). *)
From Coq Require Import ZArith List.
From PyRTL Require Import Lib.AesSpec Lib.AesModel.
Open Scope Z_scope.

Example C18_fips197_appendix_B :
  CipherZ 0x2b7e151628aed2a6abf7158809cf4f3c 0x3243f6a8885a308d313198a2e0370734
  = 0x3925841d02dc09fbdc118597196a0b32.
Proof. vm_compute. reflexivity. Qed.
