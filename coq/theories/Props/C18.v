(* C18 -- AES and PRNG generators implement their published algorithms.
   Only statements + `exact`; proofs live in Lib/AesProofs.v, AesSteps.v, AesCipher.v, AesInverse.v,
   AesSm.v, PrngProofs.v, PrngProto.v.  Specifications: Lib/AesSpec.v (FIPS-197), Lib/PrngSpec.v (published PRNGs).
   Structure models of rtllib: Lib/AesModel.v (over Gen/AesTables.v, regenerated from
   pyrtl/rtllib/aes.py on every run), Lib/PrngModel.v (proved equal to Gen/PrngFrag.v, the step
   functions regenerated from pyrtl/rtllib/prngs.py on every run: Props/C18gen.v). *)
From Coq Require Import ZArith List Bool.
From PyRTL Require Import Gen.AesTables Lib.AesSpec Lib.AesModel Lib.AesProofs Lib.AesSteps
  Lib.AesCipher Lib.AesInverse Lib.AesSm Lib.PrngSpec Lib.PrngModel Lib.PrngProofs Lib.PrngProto.
Import ListNotations.
Open Scope Z_scope.

(* ---- the regenerated tables are the functions they stand for.  Finite domain: 256 entries per
   table, decided by a vm_compute sweep lifted with forallb_forall (a proof, bound = 256). ---- *)
Theorem C18_aes_tables_correct : forall b, 0 <= b < 256 ->
  rom mem_sbox b = SubByte b /\ rom mem_inv_sbox b = InvSubByte b /\
  m_galois_mult b 2 = gmul 2 b /\ m_galois_mult b 3 = gmul 3 b /\
  m_galois_mult b 9 = gmul 9 b /\ m_galois_mult b 11 = gmul 11 b /\
  m_galois_mult b 13 = gmul 13 b /\ m_galois_mult b 14 = gmul 14 b /\
  (1 <= b -> rom mem_rcon b = xtime_pow (Z.to_nat (b - 1)) 1) /\
  InvSubByte (SubByte b) = b /\ SubByte (InvSubByte b) = b.
Proof. exact aes_tables_correct_lemma. Qed.
Print Assumptions C18_aes_tables_correct.

Theorem C18_aes_table_lengths :
  map (@length Z) [tbl_sbox_data; tbl_inv_sbox_data; tbl_rcon_data; tbl_GM2_data; tbl_GM3_data;
                   tbl_GM9_data; tbl_GM11_data; tbl_GM13_data; tbl_GM14_data] = repeat 256%nat 9.
Proof. exact table_lengths. Qed.
Print Assumptions C18_aes_table_lengths.

(* ---- every sub-function of aes.py is the FIPS-197 transformation, for every 16-byte state ---- *)
Theorem C18_aes_steps_are_fips197 : forall s, good16 s ->
  m_sub_bytes false (of_bytes_be s) = of_bytes_be (SubBytes s) /\
  m_sub_bytes true (of_bytes_be s) = of_bytes_be (InvSubBytes s) /\
  m_shift_rows (of_bytes_be s) = of_bytes_be (ShiftRows s) /\
  m_inv_shift_rows (of_bytes_be s) = of_bytes_be (InvShiftRows s) /\
  m_mix_columns false (of_bytes_be s) = of_bytes_be (MixColumns s) /\
  m_mix_columns true (of_bytes_be s) = of_bytes_be (InvMixColumns s).
Proof.
  exact (fun s H => conj (m_sub_bytes_spec s H) (conj (m_inv_sub_bytes_spec s H)
        (conj (m_shift_rows_spec s H) (conj (m_inv_shift_rows_spec s H)
        (conj (m_mix_columns_spec s H) (m_inv_mix_columns_spec s H)))))).
Qed.
Print Assumptions C18_aes_steps_are_fips197.

(* the code's per-round key expansion computes the FIPS-197 key schedule *)
Theorem C18_aes_key_schedule_is_fips197 : forall kb r, good16 kb -> (r <= 10)%nat ->
  nth r (m_key_list (of_bytes_be kb)) 0 = of_bytes_be (round_key (KeyExpansion kb) r).
Proof. exact (fun kb r H Hr => proj2 (proj2 (round_key_spec kb r H Hr))). Qed.
Print Assumptions C18_aes_key_schedule_is_fips197.

(* ---- AES.encryption = FIPS-197 Cipher, for every key and every block ---- *)
Theorem C18_aes_encrypt_model_is_fips197 : forall key pt,
  0 <= key < 2 ^ 128 -> 0 <= pt < 2 ^ 128 -> m_encryption key pt = CipherZ key pt.
Proof. exact enc_model_is_fips197. Qed.
Print Assumptions C18_aes_encrypt_model_is_fips197.

(* ---- AES.decryption = FIPS-197 InvCipher ---- *)
Theorem C18_aes_decrypt_model_is_fips197 : forall key ct,
  0 <= key < 2 ^ 128 -> 0 <= ct < 2 ^ 128 -> m_decryption key ct = InvCipherZ key ct.
Proof. exact dec_model_is_fips197. Qed.
Print Assumptions C18_aes_decrypt_model_is_fips197.

(* ---- decryption inverts encryption (from the per-step inverses) ---- *)
Theorem C18_aes_decrypt_inverts : forall key pt,
  0 <= key < 2 ^ 128 -> 0 <= pt < 2 ^ 128 -> m_decryption key (m_encryption key pt) = pt.
Proof. exact dec_inverts_enc. Qed.
Print Assumptions C18_aes_decrypt_inverts.

Theorem C18_fips197_invcipher_inverts_cipher : forall key pt,
  0 <= key < 2 ^ 128 -> 0 <= pt < 2 ^ 128 -> InvCipherZ key (CipherZ key pt) = pt.
Proof. exact InvCipherZ_CipherZ. Qed.
Print Assumptions C18_fips197_invcipher_inverts_cipher.

(* ---- AES state machines, for EVERY key, block, prior state and bogus input sequence: from any
   state, a reset pulse with (x, key) followed by at least 11 cycles without reset leaves ready = 1
   and the FIPS-197 result (the bound the suite documents; the next theorem gives the exact one). ---- *)
Definition C18_aes_state_machines_full_statement : Prop :=
  forall key x s (rest : list sm_input),
    0 <= key < 2 ^ 128 -> 0 <= x < 2 ^ 128 ->
    Forall (fun i => fst (fst i) = 0) rest -> (11 <= length rest)%nat ->
    sm_out (fold_left enc_sm_step rest (enc_sm_step s (1, x, key))) = (1, CipherZ key x) /\
    sm_out (fold_left dec_sm_step rest (dec_sm_step s (1, x, key))) = (1, InvCipherZ key x).

Theorem C18_aes_state_machines : C18_aes_state_machines_full_statement.
Proof. exact aes_state_machines_full. Qed.
Print Assumptions C18_aes_state_machines.

(* ready EXACTLY from the 10th cycle after the reset cycle on: with fewer than 10 further cycles
   ready is 0; with 10 or more it is 1 with Cipher / InvCipher, held while reset stays low *)
Theorem C18_aes_state_machines_ready_exactly : forall key x s rest,
  0 <= key < 2 ^ 128 -> 0 <= x < 2 ^ 128 -> Forall sm_no_reset rest ->
  let e := sm_out (fold_left enc_sm_step rest (enc_sm_step s (1, x, key))) in
  let d := sm_out (fold_left dec_sm_step rest (dec_sm_step s (1, x, key))) in
  ((length rest < 10)%nat -> fst e = 0 /\ fst d = 0) /\
  ((10 <= length rest)%nat -> e = (1, CipherZ key x) /\ d = (1, InvCipherZ key x)).
Proof. exact aes_state_machines_lemma. Qed.
Print Assumptions C18_aes_state_machines_ready_exactly.

(* the invariant: n cycles after the reset (n capped at 10) the counter is n, the text register is
   the FIPS-197 state after round n and (encryption) the key register is round key n *)
Theorem C18_aes_encrypt_state_machine_invariant : forall key x s rest,
  0 <= key < 2 ^ 128 -> 0 <= x < 2 ^ 128 -> Forall sm_no_reset rest ->
  let j := Nat.min (length rest) 10 in
  let w := KeyExpansion (bytes_be key) in
  fold_left enc_sm_step rest (enc_sm_step s (1, x, key))
  = (Z.of_nat j, of_bytes_be (enc_state w (bytes_be x) j), of_bytes_be (round_key w j)).
Proof. exact enc_sm_invariant. Qed.
Print Assumptions C18_aes_encrypt_state_machine_invariant.

Theorem C18_aes_decrypt_state_machine_invariant : forall key x s rest,
  0 <= key < 2 ^ 128 -> 0 <= x < 2 ^ 128 -> Forall sm_no_reset rest ->
  let j := Nat.min (length rest) 10 in
  let w := KeyExpansion (bytes_be key) in
  fold_left dec_sm_step rest (dec_sm_step s (1, x, key))
  = (Z.of_nat j, of_bytes_be (dec_state w (bytes_be x) j), key).
Proof. exact dec_sm_invariant. Qed.
Print Assumptions C18_aes_decrypt_state_machine_invariant.

Definition fips_k : Z := 0x000102030405060708090a0b0c0d0e0f.
Definition fips_p : Z := 0x00112233445566778899aabbccddeeff.
Definition fips_c : Z := 0x69c4e0d86a7b0430d8cdb78070b4c55a.

(* instance at the FIPS-197 Appendix C.1 vector *)
Example C18_aes_state_machines_instance :
  map fst (sm_run enc_sm_step sm_init ((1, fips_p, fips_k) :: repeat (0, 5, 1) 13))
    = [0; 0; 0; 0; 0; 0; 0; 0; 0; 0; 0; 1; 1; 1] /\
  nth 11 (sm_run enc_sm_step sm_init ((1, fips_p, fips_k) :: repeat (0, 5, 1) 13)) (0, 0) = (1, fips_c) /\
  nth 13 (sm_run enc_sm_step sm_init ((1, fips_p, fips_k) :: repeat (0, 5, 1) 13)) (0, 0) = (1, fips_c) /\
  map fst (sm_run dec_sm_step sm_init ((1, fips_c, fips_k) :: repeat (0, 5, 1) 13))
    = [0; 0; 0; 0; 0; 0; 0; 0; 0; 0; 0; 1; 1; 1] /\
  nth 13 (sm_run dec_sm_step sm_init ((1, fips_c, fips_k) :: repeat (0, 5, 1) 13)) (0, 0) = (1, fips_p).
Proof. vm_compute. repeat split; reflexivity. Qed.

(* ---- prng_lfsr: the leap-ahead of `n` chained concats (growing vector, truncated to the register
   width W >= 127 on assignment) is n single steps of the published LFSR, for every n, W, state ---- *)
Theorem C18_lfsr_leap : forall n W la, 127 <= W ->
  low W (m_leap n la) = iter n (lfsr_step W) (low W la).
Proof. exact lfsr_leap_lemma. Qed.
Print Assumptions C18_lfsr_leap.

(* a register wider than 127 bits only keeps more history of the same 127-bit LFSR *)
Theorem C18_lfsr_wide_register_is_127bit_lfsr : forall W s, 127 <= W ->
  low 127 (lfsr_step W s) = lfsr_step 127 (low 127 s).
Proof. exact lfsr_step_127. Qed.
Print Assumptions C18_lfsr_wide_register_is_127bit_lfsr.

(* the n low bits after n steps are the n stream bits of the 127-bit LFSR, earliest most significant *)
Theorem C18_lfsr_output_is_stream : forall n W s, 127 <= W -> Z.of_nat n <= W ->
  low (Z.of_nat n) (iter n (lfsr_step W) s) = msb_first (lfsr_stream n (low 127 s)).
Proof. exact lfsr_output_stream. Qed.
Print Assumptions C18_lfsr_output_is_stream.

(* hence one request of the circuit model, from any register content: rand = the next `bitwidth`
   stream bits MSB-first *)
Theorem C18_lfsr_request_outputs_stream : forall bw lfsr seed, 0 < bw ->
  m_lfsr_out bw (m_lfsr_step bw lfsr (0, 1, seed)) = msb_first (lfsr_stream (Z.to_nat bw) (low 127 lfsr)).
Proof. exact lfsr_request_is_stream. Qed.
Print Assumptions C18_lfsr_request_outputs_stream.

(* ---- prng_xoroshiro128: the un-truncated shift/or/xor network, truncated to 64 bits on assignment,
   and the truncated sum are the published xoroshiro128+ step ---- *)
Theorem C18_xoroshiro_step_is_published : forall s0 s1, 0 <= s0 < 2 ^ 64 -> 0 <= s1 < 2 ^ 64 ->
  m_xo_output s0 s1 = fst (xoro_next (s0, s1)) /\
  low 64 (m_xo_s0_next s0 s1) = fst (snd (xoro_next (s0, s1))) /\
  low 64 (m_xo_s1_next s0 s1) = snd (snd (xoro_next (s0, s1))).
Proof. exact xoroshiro_step_lemma. Qed.
Print Assumptions C18_xoroshiro_step_is_published.

(* ---- csprng_trivium: k <= 64 parallel taps with index offset -i, and the concat word assembly,
   are k serial steps of the published cipher (output bits in order, same final state).  Holds
   because the smallest tap index (65) minus 64 is still >= 1: an induction, not a sweep. ---- *)
Theorem C18_trivium_parallel_is_serial : forall k st, (k <= 64)%nat -> tv_inrange st ->
  m_tv_par k st = triv_run k st.
Proof. exact trivium_parallel_lemma. Qed.
Print Assumptions C18_trivium_parallel_is_serial.

Theorem C18_trivium_state_stays_in_range : forall key iv k,
  tv_inrange (triv_load key iv) /\ tv_inrange (snd (triv_run k (triv_load key iv))).
Proof. exact (fun key iv k => conj (triv_load_inrange key iv) (triv_run_inrange k _ (triv_load_inrange key iv))). Qed.
Print Assumptions C18_trivium_state_stays_in_range.

(* ---- PRNG load/req/ready protocol, for EVERY schedule of (load, req, seed) inputs: the cycle-level
   model of each circuit (registers, counters with their computed widths, WAIT/INIT/GEN, load over
   req priority, word assembly) produces exactly the (ready, rand) sequence of the protocol
   specification built from the published single steps (Trivium warm-up = 1152 serial steps). ---- *)
Definition C18_prng_protocol_full_statement : Prop :=
  (forall bw ins, 0 < bw -> m_lfsr_run bw 0 ins = s_lfsr_run bw 0 ins) /\
  (forall bw ins, 0 < bw -> m_xo_run bw xo_init ins = s_xo_run bw sxo_init ins) /\
  (forall bw k ins, 0 < bw -> In k [1; 2; 4; 8; 16; 32; 64] ->
     m_tv_run bw k tv_init ins = s_tv_run bw k stv_init ins).

Theorem C18_prng_protocol : C18_prng_protocol_full_statement.
Proof. exact prng_protocol_all. Qed.
Print Assumptions C18_prng_protocol.

(* ---- waiting is stationary: in every state in which a unit waits for the user (nothing loaded,
   seed initialised = ready after load, result delivered = ready after req) ANY number of idle cycles
   leaves every register unchanged and (ready, rand) constant; no internal counter keeps running, so
   the result does not depend on how long the user idles.  ready = 1 implies such a state. ---- *)
Theorem C18_prng_waiting_is_stationary :
  (forall bw k ins m, Forall idle_in ins -> tv_waiting bw k m ->
     fold_left (m_tv_step bw k) ins m = m /\
     m_tv_run bw k m ins = repeat (m_tv_out bw k m (0, 0, 0)) (length ins)) /\
  (forall bw ins m, Forall idle_in ins -> xo_waiting bw m ->
     fold_left (m_xo_step bw) ins m = m /\
     m_xo_run bw m ins = repeat (m_xo_out bw m (0, 0, 0)) (length ins)) /\
  (forall bw ins lfsr, Forall idle_in ins ->
     fold_left (m_lfsr_step bw) ins lfsr = lfsr /\
     m_lfsr_run bw lfsr ins = repeat (m_lfsr_out bw lfsr) (length ins)) /\
  (forall bw k m, fst (m_tv_out bw k m (0, 0, 0)) = 1 -> tv_waiting bw k m).
Proof.
  exact (conj tv_waiting_stationary (conj xo_waiting_stationary (conj lfsr_idle_stationary tv_ready_is_waiting))).
Qed.
Print Assumptions C18_prng_waiting_is_stationary.

(* ---- the seed may also be given as a Python int constant, 0 included (every load then loads it):
   for the LFSR and xoroshiro128+ the seed 0 is the degenerate all-zero stream of the published
   algorithm (for Trivium key = IV = 0 is an ordinary seed) ---- *)
Theorem C18_zero_seed_streams : forall n,
  lfsr_stream n 0 = repeat false n /\ xoro_words n (0, 0) = repeat 0 n.
Proof. exact zero_seed_streams. Qed.
Print Assumptions C18_zero_seed_streams.

Definition tv_seed : Z := 0x0100000000000000000000000000000000000000.
Definition tv_sched : list (Z * Z * Z) :=
  (1, 0, tv_seed) :: repeat (0, 0, 0) 19 ++ (0, 1, 0) :: repeat (0, 0, 0) 3.

(* instance: the first Trivium vector of the suite (eSTREAM) through both machines: warm-up is
   1152 = 18 x 64 steps, ready at cycle 19, 128 key-stream bits ready 2 cycles after req *)
Example C18_prng_protocol_instance :
  m_tv_run 128 64 tv_init tv_sched = s_tv_run 128 64 stv_init tv_sched /\
  nth 19 (s_tv_run 128 64 stv_init tv_sched) (0, 0) = (1, 0) /\
  nth 22 (s_tv_run 128 64 stv_init tv_sched) (0, 0) = (1, 0x1cd761ffceb05e39f5b18f5c22042ab0) /\
  msb_first (triv_keystream (Z.shiftr tv_seed 80) tv_seed 128) = 0x1cd761ffceb05e39f5b18f5c22042ab0 /\
  triv_warmup = 1152%nat.
Proof. vm_compute. repeat split; reflexivity. Qed.

(* ---- the specifications reproduce the published vectors; hypotheses are satisfiable ---- *)
Example C18_fips197_appendix_B :
  CipherZ 0x2b7e151628aed2a6abf7158809cf4f3c 0x3243f6a8885a308d313198a2e0370734
  = 0x3925841d02dc09fbdc118597196a0b32.
Proof. vm_compute. reflexivity. Qed.

Example C18_fips197_appendix_C1 :
  CipherZ fips_k fips_p = fips_c /\ InvCipherZ fips_k fips_c = fips_p /\
  m_encryption fips_k fips_p = fips_c /\ m_decryption fips_k fips_c = fips_p.
Proof. vm_compute. repeat split; reflexivity. Qed.

Example C18_fips197_appendix_A1_key_expansion :
  nth 4 (KeyExpansion (bytes_be 0x2b7e151628aed2a6abf7158809cf4f3c)) [] = [0xa0; 0xfa; 0xfe; 0x17] /\
  nth 43 (KeyExpansion (bytes_be 0x2b7e151628aed2a6abf7158809cf4f3c)) [] = [0xb6; 0x63; 0x0c; 0xa6].
Proof. vm_compute. split; reflexivity. Qed.

Example C18_good16_example : good16 (bytes_be fips_p) /\ tv_inrange (triv_load 5 9).
Proof. split; [apply bytes_be_good|apply triv_load_inrange]. Qed.

Example C18_lfsr_example :
  low 127 (m_leap 200 0x102030405060708090a0b0c0d0e0f01) = iter 200 (lfsr_step 127) 0x102030405060708090a0b0c0d0e0f01
  /\ msb_first (lfsr_stream 8 (2 ^ 126)) = 0x80.
Proof. vm_compute. split; reflexivity. Qed.
