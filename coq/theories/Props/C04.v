(* C04 -- optimize() and its constituent passes preserve observable behaviour.
   Only statements + `exact`; proofs in Pass/OptFoldProofs.v, Pass/OptProofs.v,
   Pass/OptDeadProofs.v.  Gen/ConstFold.v (the folding tables one_var_ops /
   two_var_ops and the op-class strings, incl. ops_where_arg_order_matters) is
   regenerated from pyrtl/passes.py on every run, so the theorems below are
   re-checked against the current source. *)
From PyRTL Require Import Netlist.Sem Netlist.WFDefs Gen.ConstFold Pass.Opt Pass.OptCheck
  Pass.OptFoldProofs Pass.OptProofs Pass.OptDeadProofs Pass.OptAliasProofs Pass.OptRemoveProofs
  Pass.OptSimProofs Pass.OptCpProofs Pass.OptLoopProofs Pass.OptCpLoopProofs Pass.OptCseProofs
  Pass.OptOptimizeProofs.
From PyRTL Require Import Sim.SimModel Sim.SimCorrect.

(* ---- (T) the folding tables agree with the reference op table wherever
        _constant_prop_pass applies them ---------------------------------------- *)

(* both arguments Const, ANY width w (the "compatible with long wires" branch):
   the table entry, reduced to a destination of width wd <= w, is the reference
   value reduced to wd.  (This is the statement that was false for 'n' while the
   entry was `1 - (l & r)`: Const(3,2).nand(Const(3,2)).) *)
Theorem C04_constfold_two_const_sound :
  forall o w l r c, in_two_var_ops o = true -> 0 <= w -> inrange l w -> inrange r w ->
    two_var_ops o [l; r] = Some c ->
    exists s, op_spec o [(l, w); (r, w)] = Some s
              /\ forall wd, 0 <= wd <= w -> c mod 2 ^ wd = s mod 2 ^ wd.
Proof. exact two_const_sound. Qed.
Print Assumptions C04_constfold_two_const_sound.

(* one_var_ops: '~' applied to (value, bitmask) is the w-bit complement; 'r' is
   the identity (the register-of-constant rule); the table has no other key *)
Theorem C04_constfold_one_var_sound :
  (forall w x c, 0 <= w -> inrange x w ->
     one_var_ops OpNot [x; mask w] = Some c -> op_spec OpNot [(x, w)] = Some c)
  /\ (forall x m c, one_var_ops OpReg [x; m] = Some c -> c = x)
  /\ (forall o, in_one_var_ops o = true -> o = OpNot \/ o = OpReg).
Proof. exact one_var_sound. Qed.
Print Assumptions C04_constfold_one_var_sound.

(* exactly one Const argument, every wire one bit (the only case in which the pass
   applies the table to a non-constant): table(const, x) is the reference value of
   the gate for x = 0, 1 with the constant in either argument position *)
Theorem C04_constfold_one_const_sound :
  forall o c x v, in_two_var_ops o = true -> bit c -> bit x ->
    two_var_ops o [c; x] = Some v ->
    exists s s', op_spec o [(c, 1); (x, 1)] = Some s /\ op_spec o [(x, 1); (c, 1)] = Some s'
                 /\ v mod 2 = s mod 2 /\ v mod 2 = s' mod 2.
Proof. exact one_const_sound. Qed.
Print Assumptions C04_constfold_one_const_sound.

Theorem C04_constfold_table_sound : constfold_table_sound_stmt.
Proof. exact constfold_table_sound. Qed.
Print Assumptions C04_constfold_table_sound.

(* ---- (M) the per-net decision of _constant_prop_pass is sound ----------------
   for EVERY valuation v of the other wires (v gives Consts their value and the
   net's arguments in-range values), the value r the reference semantics gives
   the destination is what the pass replaces the net by *)
Theorem C04_cp_decide_sound :
  forall nl n v r, respects_consts nl v -> args_inrange nl v n ->
    0 <= width_of nl (ndest n) ->
    width_of nl (ndest n) <= width_of nl (arg n 0) ->
    binary_same_width nl n ->
    nop n <> OpReg ->
    dest_value nl v n r ->
    match cp_decide nl n with
    | CpKeep => True
    | CpConst c => r = c mod 2 ^ width_of nl (ndest n)
    | CpWire w => r = v w /\ width_of nl w = 1 /\ width_of nl (ndest n) = 1 /\ In w (nargs n)
    | CpNot w => r = 1 - v w /\ width_of nl w = 1 /\ width_of nl (ndest n) = 1 /\ In w (nargs n)
    end.
Proof. exact cp_decide_sound. Qed.
Print Assumptions C04_cp_decide_sound.

(* the register-of-constant rule exactly as the property sanctions it: a register
   whose next-value net reads a Const is folded to that Const, and at the end of
   EVERY cycle -- whatever the state and inputs -- it captures exactly that
   constant; so from a state where it already holds it, nothing changes *)
Theorem C04_reg_const_rule :
  forall nl n, nop n = OpReg -> is_const nl (arg n 0) = true -> nargs n = [arg n 0] ->
    cp_decide nl n = CpConst (const_val nl (arg n 0))
    /\ forall v rg, respects_consts nl v ->
         regnext_spec nl v rg n (ndest n)
         = const_val nl (arg n 0) mod 2 ^ width_of nl (ndest n).
Proof.
  intros nl n H1 H2 H3. split.
  - exact (cp_decide_reg_const nl n H1 H2 H3).
  - intros v rg Hc. exact (reg_const_next nl v rg n Hc H1 H2).
Qed.
Print Assumptions C04_reg_const_rule.

(* ---- CSE: equal keys => same op and same value under every valuation and
        memory state.  The proof needs commutativity of exactly the binary ops
        that are NOT in ops_where_arg_order_matters. ---------------------------- *)
Theorem C04_cse_key_sound :
  forall nl n1 n2 st v, respects_consts nl v ->
    key_eqb (cse_key nl n1) (cse_key nl n2) = true ->
    nop n1 = nop n2 /\ net_value nl st v n1 = net_value nl st v n2.
Proof. exact cse_key_sound. Qed.
Print Assumptions C04_cse_key_sound.

Theorem C04_cse_merge_sound :
  forall nl n1 n2 st v, respects_consts nl v ->
    key_eqb (cse_key nl n1) (cse_key nl n2) = true ->
    is_comb (nop n1) = true ->
    width_of nl (ndest n1) = width_of nl (ndest n2) ->
    forall r, net_value nl st v n1 = Some r ->
    exec_spec nl st v n1 (ndest n1) = exec_spec nl st v n2 (ndest n2).
Proof. exact cse_merge_sound. Qed.
Print Assumptions C04_cse_merge_sound.

(* ---- `w` nets and full-width selects are identities -------------------------- *)
Theorem C04_w_net_identity : forall x w, op_spec OpW [(x, w)] = Some x.
Proof. exact w_net_identity. Qed.
Print Assumptions C04_w_net_identity.

Theorem C04_full_slice_identity :
  forall nl n idx x,
    nop n = OpSelect idx -> is_full_slice nl n = true ->
    (forall i, In i idx -> 0 <= i < width_of nl (arg n 0)) ->
    width_of nl (ndest n) <= Z.of_nat (length idx) ->
    inrange x (width_of nl (arg n 0)) ->
    select_spec x idx mod 2 ^ width_of nl (ndest n) = x.
Proof. exact full_slice_identity. Qed.
Print Assumptions C04_full_slice_identity.

(* ---- dead-net removal, semantically: dropping any set of nets that write only
        wires no kept net reads (and no memory) leaves every other wire unchanged
        on every cycle of every input sequence, from states that agree outside
        the dropped wires ------------------------------------------------------- *)
Theorem C04_dead_removal_sound :
  forall (nl nl' : netlist) (keep : net -> bool) (D : wid -> Prop) (dflt : Z),
    nets nl' = filter keep (nets nl) -> mems nl' = mems nl ->
    (forall w, ~ D w -> find_wire (wires nl') w = find_wire (wires nl) w) ->
    ~ D 0 ->
    (forall n, In n (nets nl) -> keep n = true ->
       (forall a, In a (nargs n) -> ~ D a) /\ (op_has_dest (nop n) = true -> ~ D (ndest n))) ->
    (forall n, In n (nets nl) -> keep n = false -> op_has_dest (nop n) = true /\ D (ndest n)) ->
    forall inss st st', st_agree D st st' ->
      Forall2 (agree D) (fst (run nl dflt st inss)) (fst (run nl' dflt st' inss)).
Proof. exact dead_run. Qed.
Print Assumptions C04_dead_removal_sound.

(* _remove_unlistened_nets (model): every wire that is not written by a removed
   net and keeps its declaration -- in particular every driven Output -- has the
   same value on every cycle.  `unlistened_ok nl` is a decidable premise (the kept
   set is closed: kept nets read no removed destination, no memory write is
   removed); the harness evaluates it on every sampled design. *)
Theorem C04_remove_unlistened_preserves :
  forall nl dflt, unlistened_ok nl = true ->
  let nl' := remove_unlistened_nets nl in
  let D := dead nl (listened_net nl (listened_wires nl)) nl' in
  (forall o n, In n (nets nl) -> op_has_dest (nop n) = true -> ndest n = o ->
               is_output nl o = true -> ~ D o)
  /\ forall inss st st', st_agree D st st' ->
       Forall2 (agree D) (fst (run nl dflt st inss)) (fst (run nl' dflt st' inss)).
Proof. exact remove_unlistened_preserves. Qed.
Print Assumptions C04_remove_unlistened_preserves.

(* _remove_wire_nets / _remove_slice_nets (model): every wire that is not the
   destination of a removed net has the same value on every cycle of every legal
   input sequence from every legal state -- in particular every Output (removed
   nets never drive Outputs).  wire_removal_ok / slice_removal_ok are decidable
   premises (the producer map resolves every removed destination to a surviving
   wire of the same width; removed nets have one argument as wide as their
   destination; selects obey sanity_check's index rules); the harness evaluates
   them on every sampled design. *)
Theorem C04_remove_wire_nets_preserves :
  forall nl dflt, wfb nl = true -> wire_removal_ok nl = true ->
  forall inss st st', st_eq st st' -> Forall (legal_ins nl) inss -> legal_regs nl (sregs st) ->
  Forall2 (fun v v' => forall w, In w (rdy_final nl) -> ~ In w (alias_dead nl is_w_net) -> v w = v' w)
          (fst (run nl dflt st inss)) (fst (run (remove_wire_nets nl) dflt st' inss)).
Proof. exact remove_wire_nets_preserves. Qed.
Print Assumptions C04_remove_wire_nets_preserves.

Theorem C04_remove_slice_nets_preserves :
  forall nl dflt, wfb nl = true -> slice_removal_ok nl = true ->
  forall inss st st', st_eq st st' -> Forall (legal_ins nl) inss -> legal_regs nl (sregs st) ->
  Forall2 (fun v v' => forall w, In w (rdy_final nl) -> ~ In w (alias_dead nl (is_full_slice nl)) -> v w = v' w)
          (fst (run nl dflt st inss)) (fst (run (remove_slice_nets nl) dflt st' inss)).
Proof. exact remove_slice_nets_preserves. Qed.
Print Assumptions C04_remove_slice_nets_preserves.

(* the general simulation behind both: any set of identity nets may be removed
   with their readers redirected through any map rho that sends a removed
   destination where its source goes *)
Theorem C04_alias_removal_sound :
  forall nl sel rho dflt, wfb nl = true ->
  (forall n, In n (nets nl) -> gone nl sel n = true ->
     is_comb (nop n) = true /\ In (arg n 0) (nargs n)
     /\ width_of nl (ndest n) = width_of nl (arg n 0)
     /\ forall st v, inrange (v (arg n 0)) (width_of nl (arg n 0)) ->
          exec_spec nl st v n = upd v (ndest n) (v (arg n 0))) ->
  (forall n, In n (nets nl) -> gone nl sel n = true -> rho (ndest n) = rho (arg n 0)) ->
  (forall w, In w (rdy_final nl) -> ~ In w (dead_list nl sel) -> rho w = w) ->
  (forall w, In w (rdy_final nl) -> width_of nl (rho w) = width_of nl w) ->
  (forall w, In w (rdy_final nl) -> ~ In (rho w) (dead_list nl sel)) ->
  (forall w, In w (rdy0 nl) -> ~ In w (dead_list nl sel)) ->
  (forall n, In n (nets nl) -> gone nl sel n = false -> op_has_dest (nop n) = true ->
     ~ In (ndest n) (dead_list nl sel)) ->
  forall inss st st', st_eq st st' -> Forall (legal_ins nl) inss -> legal_regs nl (sregs st) ->
  Forall2 (OptAliasProofs.sim_val nl rho) (fst (run nl dflt st inss))
          (fst (run (OptAliasProofs.nl' nl sel rho) dflt st' inss)).
Proof. exact alias_run. Qed.
Print Assumptions C04_alias_removal_sound.

(* ---- whole-pass preservation -------------------------------------------------
   Every theorem below has the shape
       <pass>_ok nl = true  ->  [steady-state hypothesis]  ->  legal inputs / registers  ->
       every Output of nl has the same value on every cycle in nl and in (pass nl)
       /\ the Outputs of nl are Outputs of (pass nl)
       /\ the inputs / registers stay legal for (pass nl)        (so theorems chain)
   `<pass>_ok` is a DECIDABLE premise (Pass/OptCheck.v): wfb of every intermediate
   netlist, the width facts the construction API guarantees, that the producer map
   resolves every removed destination to a declared wire of the same width, that
   Inputs / Outputs keep their declarations, ...  The harness evaluates it (and the
   decidable form of the steady-state hypothesis) on every sampled design, for the
   first and for the repeated application. ----------------------------------------- *)

(* the sanctioned steady-state hypothesis, exactly as the property states it: every
   register a round of _constant_prop_pass folds starts out holding the constant it
   is folded to (cp_steady); for the loop: of every round the loop runs *)
Theorem C04_steady_decidable :
  (forall nl st, cp_steadyb nl (sregs st) = true ->
     forall r, cp_folded nl r = true -> sregs st r = cp_cst nl r)
  /\ (forall nl st, constant_propagation_steadyb nl (sregs st) = true -> cp_loop_steady nl st).
Proof. exact (conj cp_steadyb_sound constant_propagation_steadyb_sound). Qed.
Print Assumptions C04_steady_decidable.

(* one round of _constant_prop_pass: EVERY wire w of nl whose representative
   (cp_rho nl w: itself, the wire it was replaced by, or the fresh Const) is declared in
   the result has the value of that representative, on every cycle *)
Theorem C04_constant_prop_pass_preserves :
  forall nl dflt, wfb nl = true -> cp_pass_ok nl = true ->
  forall inss st st', st_rel (cp_folded nl) (cp_cst nl) st st' ->
  Forall (legal_ins nl) inss -> legal_regs nl (sregs st) ->
  Forall2 (fun v v' => forall w, In w (rdy_final nl) ->
                         live (constant_prop_pass nl) (cp_rho nl) w = true -> v w = v' (cp_rho nl w))
          (fst (run nl dflt st inss)) (fst (run (constant_prop_pass nl) dflt st' inss)).
Proof. exact cp_pass_sim. Qed.
Print Assumptions C04_constant_prop_pass_preserves.

(* constant_propagation = the `while net_count.shrinking()` loop *)
Theorem C04_constant_propagation_preserves :
  forall nl dflt, constant_propagation_ok nl = true ->
  forall inss st, cp_loop_steady nl st ->
  Forall (legal_ins nl) inss -> legal_regs nl (sregs st) ->
  Forall2 (fun v v' => forall o, is_output nl o = true -> v o = v' o)
          (fst (run nl dflt st inss)) (fst (run (constant_propagation nl) dflt st inss))
  /\ (forall o, is_output nl o = true -> is_output (constant_propagation nl) o = true)
  /\ Forall (legal_ins (constant_propagation nl)) inss
  /\ legal_regs (constant_propagation nl) (sregs st).
Proof. exact constant_propagation_preserves. Qed.
Print Assumptions C04_constant_propagation_preserves.

(* one CSE round: every wire of nl has the value of its representative (itself or the
   kept member of its class) *)
Theorem C04_cse_round_preserves :
  forall nl dflt, wfb nl = true -> cse_pass_ok nl = true ->
  forall inss st st', st_rel (fun _ => false) (fun _ => 0) st st' ->
  Forall (legal_ins nl) inss -> legal_regs nl (sregs st) ->
  Forall2 (fun v v' => forall w, In w (rdy_final nl) ->
                         live (cse_round nl) (cse_rho nl) w = true -> v w = v' (cse_rho nl w))
          (fst (run nl dflt st inss)) (fst (run (cse_round nl) dflt st' inss)).
Proof. exact cse_round_sim. Qed.
Print Assumptions C04_cse_round_preserves.

Theorem C04_cse_preserves :
  forall nl dflt, cse_ok nl = true ->
  forall inss st, Forall (legal_ins nl) inss -> legal_regs nl (sregs st) ->
  Forall2 (fun v v' => forall o, is_output nl o = true -> v o = v' o)
          (fst (run nl dflt st inss)) (fst (run (common_subexp_elimination nl) dflt st inss))
  /\ (forall o, is_output nl o = true -> is_output (common_subexp_elimination nl) o = true)
  /\ Forall (legal_ins (common_subexp_elimination nl)) inss
  /\ legal_regs (common_subexp_elimination nl) (sregs st).
Proof. exact cse_preserves. Qed.
Print Assumptions C04_cse_preserves.

(* the three removal passes in the same chainable form *)
Theorem C04_removal_stages :
  forall nl dflt inss st, Forall (legal_ins nl) inss -> legal_regs nl (sregs st) ->
  (wire_stage_ok nl = true -> stage_preserves dflt nl (remove_wire_nets nl) inss st)
  /\ (slice_stage_ok nl = true -> stage_preserves dflt nl (remove_slice_nets nl) inss st)
  /\ (unlistened_stage_ok nl = true -> stage_preserves dflt nl (remove_unlistened_nets nl) inss st).
Proof.
  intros nl dflt inss st Hi Hr. split; [|split]; intros H.
  - exact (wire_stage dflt nl inss st H Hi Hr).
  - exact (slice_stage dflt nl inss st H Hi Hr).
  - exact (unlistened_stage dflt nl inss st H Hi Hr).
Qed.
Print Assumptions C04_removal_stages.

(* optimize() = the composition; the only hypothesis on the initial state is the
   steady-state one of its constant_propagation stage *)
Theorem C04_optimize_preserves :
  forall nl dflt, optimize_ok nl = true ->
  forall inss st, cp_loop_steady (remove_slice_nets (remove_wire_nets nl)) st ->
  Forall (legal_ins nl) inss -> legal_regs nl (sregs st) ->
  Forall2 (fun v v' => forall o, is_output nl o = true -> v o = v' o)
          (fst (run nl dflt st inss)) (fst (run (optimize nl) dflt st inss))
  /\ (forall o, is_output nl o = true -> is_output (optimize nl) o = true)
  /\ Forall (legal_ins (optimize nl)) inss
  /\ legal_regs (optimize nl) (sregs st).
Proof. exact optimize_preserves. Qed.
Print Assumptions C04_optimize_preserves.

(* repeated application *)
Theorem C04_optimize_twice_preserves :
  forall nl dflt, optimize_ok nl = true -> optimize_ok (optimize nl) = true ->
  forall inss st, optimize_steady nl st -> optimize_steady (optimize nl) st ->
  Forall (legal_ins nl) inss -> legal_regs nl (sregs st) ->
  Forall2 (fun v v' => forall o, is_output nl o = true -> v o = v' o)
          (fst (run nl dflt st inss)) (fst (run (optimize (optimize nl)) dflt st inss))
  /\ (forall o, is_output nl o = true -> is_output (optimize (optimize nl)) o = true)
  /\ Forall (legal_ins (optimize (optimize nl))) inss
  /\ legal_regs (optimize (optimize nl)) (sregs st).
Proof. exact optimize_twice_preserves. Qed.
Print Assumptions C04_optimize_twice_preserves.

(* Inputs and Outputs are kept by every round whose link premise holds (it is a
   conjunct of every <pass>_ok above) *)
Theorem C04_inputs_outputs_kept :
  forall nl nl' rho, link_ok nl nl' rho = true ->
  (forall w, is_input nl w = true -> is_input nl' w = true)
  /\ (forall o, is_output nl o = true -> is_output nl' o = true)
  /\ (forall ins, legal_ins nl ins -> legal_ins nl' ins)
  /\ (forall rg, legal_regs nl rg -> legal_regs nl' rg).
Proof.
  intros nl nl' rho H. split; [exact (link_inputs_kept nl nl' rho H)|].
  split; [exact (link_outs_sub nl nl' rho H)|].
  split; [exact (link_legal_ins nl nl' rho H)|exact (link_legal_regs nl nl' rho H)].
Qed.
Print Assumptions C04_inputs_outputs_kept.

(* ---- what is NOT proved: that the decidable premises hold of EVERY well-formed
        API-built netlist (they are evaluated on every sampled design instead).  With
        it, the theorems above would need no premise beyond wfb / api_built, and
        wfb of every pass result would follow. -------------------------------------- *)
Definition C04_premises_always_hold_full_statement : Prop :=
  forall nl, wfb nl = true -> api_built nl = true ->
    optimize_ok nl = true /\ constant_propagation_ok nl = true /\ cse_ok nl = true
    /\ wire_stage_ok nl = true /\ slice_stage_ok nl = true /\ unlistened_stage_ok nl = true
    /\ wfb (optimize nl) = true /\ api_built (optimize nl) = true.

(* ---- non-vacuity ------------------------------------------------------------- *)

(* in 1:a/2  2:b/2  ; 3 = a & b ; 4 = b & a ; 5 = a - b ; 6 = b - a ; 7 = a n Const3
   8: Const(3,2) ; 9 = c & c (const expr) ; 10 = ~ 3 (dead) ; 11: reg <- Const 2 (12)
   13: out = 3 ; 14: out = 4 ; 15: out = 5 ; 16: out = 6 ; 17: out = reg ; 18: out = 9
   19 = w(1) ; 20 = select [0;1] of 19 (full slice) ; 21: out = 20 *)
Definition ex_nl : netlist :=
  {| wires := [ mkWire 1 2 KInput; mkWire 2 2 KInput; mkWire 3 2 KWire; mkWire 4 2 KWire;
                mkWire 5 3 KWire; mkWire 6 3 KWire; mkWire 7 2 KWire; mkWire 8 2 (KConst 3);
                mkWire 9 2 KWire; mkWire 10 2 KWire; mkWire 11 2 (KReg (Some 2));
                mkWire 12 2 (KConst 2); mkWire 13 2 KOutput; mkWire 14 2 KOutput;
                mkWire 15 3 KOutput; mkWire 16 3 KOutput; mkWire 17 2 KOutput;
                mkWire 18 2 KOutput; mkWire 19 2 KWire; mkWire 20 2 KWire; mkWire 21 2 KOutput ];
     nets := [ mkNet OpAnd [1; 2] 3; mkNet OpAnd [2; 1] 4; mkNet OpSub [1; 2] 5;
               mkNet OpSub [2; 1] 6; mkNet OpNand [1; 8] 7; mkNet OpAnd [8; 8] 9;
               mkNet OpNot [3] 10; mkNet OpW [3] 13; mkNet OpW [4] 14; mkNet OpW [5] 15;
               mkNet OpW [6] 16; mkNet OpW [11] 17; mkNet OpW [9] 18; mkNet OpW [1] 19;
               mkNet (OpSelect [0; 1]) [19] 20; mkNet OpW [20] 21; mkNet OpReg [12] 11 ];
     mems := [] |}.

Example C04_example_wf :
  wfb ex_nl = true /\ api_built ex_nl = true /\ unlistened_ok ex_nl = true
  /\ wire_removal_ok ex_nl = true /\ slice_removal_ok (remove_wire_nets ex_nl) = true
  /\ length (nets (remove_wire_nets ex_nl)) = 16%nat
  /\ length (nets (remove_slice_nets (remove_wire_nets ex_nl))) = 15%nat
  /\ optimize_ok ex_nl = true /\ optimize_ok (optimize ex_nl) = true
  /\ constant_propagation_ok ex_nl = true /\ cse_ok ex_nl = true
  /\ cp_folded ex_nl 11 = true /\ cp_cst ex_nl 11 = 2
  /\ optimize_steadyb ex_nl (sregs (init_state ex_nl 0 [] [])) = true
  /\ optimize_steadyb ex_nl (sregs (init_state ex_nl 0 [(11, 1)] [])) = false.
Proof. vm_compute. repeat split; reflexivity. Qed.

(* a & b / b & a share a key; a - b / b - a do not *)
Example C04_example_keys :
  key_eqb (cse_key ex_nl (mkNet OpAnd [1; 2] 3)) (cse_key ex_nl (mkNet OpAnd [2; 1] 4)) = true
  /\ key_eqb (cse_key ex_nl (mkNet OpSub [1; 2] 5)) (cse_key ex_nl (mkNet OpSub [2; 1] 6)) = false.
Proof. vm_compute. split; reflexivity. Qed.

(* Const(3,2) & Const(3,2) folds to 3, the register of Const 2 to 2, a nand with a
   2-bit constant is left alone, the w-of-select-of-w chain is an identity *)
Example C04_example_decisions :
  cp_decide ex_nl (mkNet OpAnd [8; 8] 9) = CpConst 3
  /\ cp_decide ex_nl (mkNet OpReg [12] 11) = CpConst 2
  /\ cp_decide ex_nl (mkNet OpNand [1; 8] 7) = CpKeep
  /\ is_full_slice ex_nl (mkNet (OpSelect [0; 1]) [19] 20) = true.
Proof. vm_compute. repeat split; reflexivity. Qed.

(* optimize shrinks the example from 17 nets to 10 (the dead ~, the dead nand, the
   constant &, the register, one of the two &s and the w/slice chain are gone) and,
   from the steady state (register = 2), every Output has the same 3-cycle trace *)
Definition ex_ins : list (wid -> Z) :=
  [ (fun w => if w =? 1 then 3 else 1); (fun w => if w =? 1 then 0 else 2); (fun _ => 2) ].
Definition ex_outs (nl : netlist) (vs : list (wid -> Z)) : list (list Z) :=
  map (fun v => map v [13; 14; 15; 16; 17; 18; 21]) vs.

Example C04_example_optimize :
  length (nets (optimize ex_nl)) = 10%nat
  /\ wfb (optimize ex_nl) = true
  /\ ex_outs ex_nl (fst (run ex_nl 0 (init_state ex_nl 0 [] []) ex_ins))
     = ex_outs (optimize ex_nl)
         (fst (run (optimize ex_nl) 0 (init_state (optimize ex_nl) 0 [] []) ex_ins))
  /\ ex_outs ex_nl (fst (run ex_nl 0 (init_state ex_nl 0 [] []) ex_ins))
     = [[1; 1; 2; 6; 2; 3; 3]; [0; 0; 6; 2; 2; 3; 0]; [2; 2; 0; 0; 2; 3; 2]].
Proof. vm_compute. repeat split; reflexivity. Qed.
