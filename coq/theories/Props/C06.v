(* C06 -- placeholder while the proofs are being written *)
From PyRTL Require Import Front.Ops.

Theorem mul_width_refuted : exists a b : sv, wd (op_mul a b) <> wd a + wd b.
Proof. exists (0, 3), (0, 5). vm_compute. discriminate. Qed.
Print Assumptions mul_width_refuted.
