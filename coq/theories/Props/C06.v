(* C06 -- Hardware operators compute exact integer results at the documented widths.
   Statements only; proofs live in Front/{PySliceProofs,OpsProofs,SignedProofs,BarrelProofs,KindsProofs}.v.

   The model (Front/Ops.v, PySlice.v, Signed.v, Barrel.v) builds every operator the way
   pyrtl/wire.py, corecircuits.py and rtllib/barrel.py build it out of primitive nets whose
   meaning is the reference semantics Netlist/Sem.v.  A wire value is sv = (value, bitwidth);
   wf a := 1 <= wd a /\ 0 <= val a < 2^(wd a).  Every theorem is for ALL widths and ALL values. *)
From Coq Require Import ZArith List Bool Lia.
From PyRTL Require Import Front.Ops Front.Signed Front.Barrel.
From PyRTL Require Import Front.PySliceProofs Front.OpsProofs Front.SignedProofs Front.BarrelProofs
                          Front.KindsProofs.
From PyRTL Require Import Gen.C06Src Front.SrcTie Front.HelpersTie.
Open Scope Z_scope.

(* ------------------------------------------------------------------ translator tie *)
(* Gen/C06Src.v is regenerated from /repo on every run (py/genfrag_C06.py): the model's
   result-length rule IS the if/elif chain of WireVector._two_var_op, and the model's
   Const(int)/Const(bool) conversion IS helperfuncs._convert_int/_convert_bool *)
Theorem C06_width_rule_matches_source : forall o w, In o two_var_ops ->
  two_var_result_len (op_char o) w = Ok (result_len o w).
Proof. exact SrcTie.result_len_tie. Qed.
Print Assumptions C06_width_rule_matches_source.

Theorem C06_convert_int_matches_source : forall v bw s,
  Ops.convert_int v bw s = res_opt (C06Src.convert_int v bw s).
Proof. exact SrcTie.convert_int_tie. Qed.
Print Assumptions C06_convert_int_matches_source.

Theorem C06_convert_bool_matches_source : forall b bw s,
  Ops.convert_bool b bw s = res_opt (C06Src.convert_bool b bw s).
Proof. exact SrcTie.convert_bool_tie. Qed.
Print Assumptions C06_convert_bool_matches_source.

(* ------------------------------------------------------------------ + - *  *)
Theorem C06_add_exact : forall a b, wf a -> wf b ->
  op_add a b = (val a + val b, Z.max (wd a) (wd b) + 1).
Proof. exact OpsProofs.add_exact. Qed.
Print Assumptions C06_add_exact.

Theorem C06_sub_wrap : forall a b, wf a -> wf b ->
  op_sub a b = ((val a - val b) mod 2 ^ (Z.max (wd a) (wd b) + 1), Z.max (wd a) (wd b) + 1).
Proof. exact OpsProofs.sub_wrap. Qed.
Print Assumptions C06_sub_wrap.

(* the product is exact; its width is what the code builds: twice the wider operand *)
Theorem mul_exact : forall a b, wf a -> wf b ->
  op_mul a b = (val a * val b, Z.max (wd a) (wd b) * 2).
Proof. exact OpsProofs.mul_exact. Qed.
Print Assumptions mul_exact.

(* the property's width clause for `*` ("sum of widths") -- FALSE of the code when the operand
   widths differ (finding F14); kept visible, refuted by a witness, proved for equal widths *)
Definition C06_mul_width_full_statement : Prop :=
  forall a b, wf a -> wf b -> wd (op_mul a b) = wd a + wd b.

Theorem mul_width_refuted : exists a b, wf a /\ wf b /\ wd (op_mul a b) <> wd a + wd b.
Proof. exact OpsProofs.mul_width_refuted. Qed.
Print Assumptions mul_width_refuted.

Theorem C06_mul_width_statement_refuted : ~ C06_mul_width_full_statement.
Proof. exact OpsProofs.mul_width_statement_refuted. Qed.
Print Assumptions C06_mul_width_statement_refuted.

Theorem C06_mul_width_partial : forall a b, wf a -> wf b ->
  (wd a = wd b -> wd (op_mul a b) = wd a + wd b) /\ wd a + wd b <= wd (op_mul a b).
Proof. exact OpsProofs.mul_width_partial. Qed.
Print Assumptions C06_mul_width_partial.

(* ------------------------------------------------------------------ comparisons: unsigned order, 1 bit *)
Theorem C06_comparisons : forall a b, wf a -> wf b ->
  op_lt a b = (b2z (val a <? val b), 1) /\ op_le a b = (b2z (val a <=? val b), 1) /\
  op_gt a b = (b2z (val a >? val b), 1) /\ op_ge a b = (b2z (val a >=? val b), 1) /\
  op_eq a b = (b2z (val a =? val b), 1) /\ op_ne a b = (b2z (negb (val a =? val b)), 1).
Proof. exact OpsProofs.comparisons. Qed.
Print Assumptions C06_comparisons.

(* ------------------------------------------------------------------ bitwise after zero-extension *)
Theorem C06_bitwise_zero_ext : forall a b, wf a -> wf b ->
  let m := Z.max (wd a) (wd b) in
  op_and a b = (Z.land (val a) (val b), m) /\ op_or a b = (Z.lor (val a) (val b), m) /\
  op_xor a b = (Z.lxor (val a) (val b), m) /\ op_nand a b = (2 ^ m - 1 - Z.land (val a) (val b), m).
Proof. exact OpsProofs.bitwise. Qed.
Print Assumptions C06_bitwise_zero_ext.

Theorem C06_invert : forall a, wf a -> op_invert a = (2 ^ wd a - 1 - val a, wd a).
Proof. exact OpsProofs.invert_spec. Qed.
Print Assumptions C06_invert.

Theorem C06_select : forall a b s, wf a -> wf b ->
  select s a b = (if val s =? 0 then val b else val a, Z.max (wd a) (wd b)).
Proof. exact (fun a b s Ha Hb => OpsProofs.select_mux a b Ha Hb s). Qed.
Print Assumptions C06_select.

(* ------------------------------------------------------------------ slicing: Python index semantics *)
(* result bit j is source bit indices[j]; the width is the number of selected indices *)
Theorem C06_getitem_spec : forall a it r, getitem a it = Some r ->
  exists idx, getitem_indices (wd a) it = Some idx /\
    wd r = Z.of_nat (length idx) /\ inrange (val r) (wd r) /\
    forall j, 0 <= j < wd r -> Z.testbit (val r) j = Z.testbit (val a) (nth (Z.to_nat j) idx 0).
Proof. exact OpsProofs.getitem_spec. Qed.
Print Assumptions C06_getitem_spec.

(* the executable slice model = the declarative definition of Python slicing
   (is_slice_of: Language Reference, "s[i:j:k]"; bit 0 = LSB), and every index is a valid bit *)
Theorem C06_slice_model_is_python_slicing : forall n s e st l, 0 <= n ->
  (slice_indices n s e st = Some l <-> is_slice_of n s e st l).
Proof. exact PySliceProofs.slice_indices_iff. Qed.
Print Assumptions C06_slice_model_is_python_slicing.

Theorem C06_slice_step_zero : forall n s e st, slice_indices n s e st = None <-> st = Some 0.
Proof. exact PySliceProofs.slice_indices_none_iff. Qed.
Print Assumptions C06_slice_step_zero.

Theorem C06_getitem_indices_valid : forall n it l x, 0 <= n ->
  getitem_indices n it = Some l -> l <> [] /\ (In x l -> 0 <= x < n).
Proof. exact PySliceProofs.getitem_indices_valid. Qed.
Print Assumptions C06_getitem_indices_valid.

Theorem C06_int_index : forall n i,
  index_int n i = if (0 <=? i) && (i <? n) then Some i
                  else if (- n <=? i) && (i <? 0) then Some (i + n) else None.
Proof. exact PySliceProofs.index_int_spec. Qed.
Print Assumptions C06_int_index.

(* __getitem__ against the declarative definition directly: an empty selection raises,
   otherwise result bit j = source bit idx[j] where idx IS the Python slice of range(len) *)
Theorem C06_getitem_slice_python : forall a s e st idx, 0 <= wd a -> is_slice_of (wd a) s e st idx ->
  (idx = [] -> getitem a (ISlice s e st) = None) /\
  (idx <> [] -> exists r, getitem a (ISlice s e st) = Some r /\
      wd r = Z.of_nat (length idx) /\ inrange (val r) (wd r) /\
      forall j, 0 <= j < wd r -> Z.testbit (val r) j = Z.testbit (val a) (nth (Z.to_nat j) idx 0)).
Proof. exact OpsProofs.getitem_slice_python. Qed.
Print Assumptions C06_getitem_slice_python.

Theorem C06_getitem_int : forall a i, wf a ->
  getitem a (IInt i) =
  if (- wd a <=? i) && (i <? wd a)
  then Some (b2z (Z.testbit (val a) (if i <? 0 then i + wd a else i)), 1)
  else None.
Proof. exact OpsProofs.getitem_int_spec. Qed.
Print Assumptions C06_getitem_int.

Theorem C06_getitem_reverse : forall a, wf a ->
  exists r, getitem a (ISlice None None (Some (-1))) = Some r /\ wd r = wd a /\
    inrange (val r) (wd a) /\
    forall j, 0 <= j < wd a -> Z.testbit (val r) j = Z.testbit (val a) (wd a - 1 - j).
Proof. exact OpsProofs.getitem_reverse. Qed.
Print Assumptions C06_getitem_reverse.

(* the contiguous forms: a[:k] (truncate), a[k:], a[-1] *)
Theorem C06_truncate : forall a n, wf a -> 1 <= n ->
  truncate a n = if wd a <? n then None else Some (val a mod 2 ^ n, n).
Proof. exact OpsProofs.truncate_spec. Qed.
Print Assumptions C06_truncate.

Theorem C06_slice_from : forall a k, wf a -> 0 <= k < wd a ->
  getitem a (ISlice (Some k) None None) = Some (val a / 2 ^ k, wd a - k).
Proof. exact OpsProofs.getitem_from. Qed.
Print Assumptions C06_slice_from.

Theorem C06_msb : forall a, wf a -> msb a = (b2z (Z.testbit (val a) (wd a - 1)), 1).
Proof. exact OpsProofs.msb_spec. Qed.
Print Assumptions C06_msb.

(* ------------------------------------------------------------------ concat: first argument most significant *)
Theorem C06_concat_first_msb : forall args, Forall wf args -> args <> [] ->
  concat args = (concat_val args, sumw args).
Proof. exact OpsProofs.concat_first_msb. Qed.
Print Assumptions C06_concat_first_msb.

Theorem C06_concat2 : forall a b, wf a -> wf b ->
  concat [a; b] = (val a * 2 ^ wd b + val b, wd a + wd b).
Proof. exact OpsProofs.concat2. Qed.
Print Assumptions C06_concat2.

Theorem C06_concat_list : forall args, Forall wf args -> args <> [] ->
  concat_list args = (concat_val (rev args), sumw (rev args)).
Proof. exact OpsProofs.concat_list_spec. Qed.
Print Assumptions C06_concat_list.

(* ------------------------------------------------------------------ <<= and extension *)
Theorem C06_ilshift_zero_ext_or_trunc : forall a dw, wf a -> 1 <= dw ->
  exists r, ilshift (Some dw) (OWire a) = Some r /\ wd r = dw /\
    (wd a <= dw -> val r = val a) /\ (dw < wd a -> val r = val a mod 2 ^ dw).
Proof. exact OpsProofs.ilshift_zero_ext_or_trunc. Qed.
Print Assumptions C06_ilshift_zero_ext_or_trunc.

Theorem C06_ilshift_nowidth : forall a, wf a -> ilshift None (OWire a) = Some a.
Proof. exact OpsProofs.ilshift_nowidth. Qed.
Print Assumptions C06_ilshift_nowidth.

Theorem C06_zero_extended : forall a n, wf a ->
  zero_extended a n = if n <? wd a then None else Some (val a, n).
Proof. exact OpsProofs.zero_extended_spec. Qed.
Print Assumptions C06_zero_extended.

Theorem C06_sign_extended : forall a n, wf a ->
  sign_extended a n = if n <? wd a then None else Some (sval a mod 2 ^ n, n).
Proof. exact OpsProofs.sign_extended_spec. Qed.
Print Assumptions C06_sign_extended.

(* sign extension keeps the two's-complement value *)
Theorem C06_sign_ext_keeps_value : forall a n, wf a -> wd a <= n ->
  sign_ext a n = (sval a mod 2 ^ n, n) /\ wf (sign_ext a n) /\ sval (sign_ext a n) = sval a.
Proof. exact OpsProofs.sign_ext_spec. Qed.
Print Assumptions C06_sign_ext_keeps_value.

(* ------------------------------------------------------------------ signed helpers, mixed widths *)
Theorem C06_signed_add_exact : forall a b, wf a -> wf b ->
  wd (signed_add a b) = Z.max (wd a) (wd b) + 1 /\ sval (signed_add a b) = sval a + sval b.
Proof. exact SignedProofs.signed_add_exact. Qed.
Print Assumptions C06_signed_add_exact.

Theorem C06_signed_mult_exact : forall a b, wf a -> wf b ->
  wd (signed_mult a b) = wd a + wd b /\ sval (signed_mult a b) = sval a * sval b.
Proof. exact SignedProofs.signed_mult_exact. Qed.
Print Assumptions C06_signed_mult_exact.

Theorem C06_signed_lt : forall a b, wf a -> wf b -> signed_lt a b = (b2z (sval a <? sval b), 1).
Proof. exact SignedProofs.signed_lt_spec. Qed.
Print Assumptions C06_signed_lt.

Theorem C06_signed_le : forall a b, wf a -> wf b -> signed_le a b = (b2z (sval a <=? sval b), 1).
Proof. exact SignedProofs.signed_le_spec. Qed.
Print Assumptions C06_signed_le.

Theorem C06_signed_gt : forall a b, wf a -> wf b -> signed_gt a b = (b2z (sval a >? sval b), 1).
Proof. exact SignedProofs.signed_gt_spec. Qed.
Print Assumptions C06_signed_gt.

Theorem C06_signed_ge : forall a b, wf a -> wf b -> signed_ge a b = (b2z (sval a >=? sval b), 1).
Proof. exact SignedProofs.signed_ge_spec. Qed.
Print Assumptions C06_signed_ge.

(* ------------------------------------------------------------------ barrel shifter and shift_* *)
(* full shift by the VALUE of the amount wire, any amount width (saturating once the amount
   reaches the data width), either direction (dir <> 0: up/left), vacated bits = bit_in *)
Theorem C06_barrel_full_shift : forall x fw f dir dist, 1 <= fw -> inrange x fw -> wf dist ->
  barrel_shifter (x, fw) (b2z f, 1) dir dist =
  (if negb (val dir =? 0) then shl_fill x fw f (val dist) else shr_fill x fw f (val dist), fw).
Proof. exact BarrelProofs.barrel_full_shift. Qed.
Print Assumptions C06_barrel_full_shift.

(* what shl_fill / shr_fill mean, bit by bit *)
Theorem C06_shift_fill_bits : forall x w f m j, 0 <= m -> inrange x w -> 0 <= j < w ->
  Z.testbit (shl_fill x w f m) j = (if j <? m then f else Z.testbit x (j - m)) /\
  Z.testbit (shr_fill x w f m) j = (if j + m <? w then Z.testbit x (j + m) else f).
Proof. exact BarrelProofs.shift_fill_bits. Qed.
Print Assumptions C06_shift_fill_bits.

Theorem C06_shift_left_logical : forall bits amt, wf bits -> wf amt ->
  shift_left_logical bits amt = ((val bits * 2 ^ val amt) mod 2 ^ wd bits, wd bits).
Proof. exact BarrelProofs.shift_left_logical_spec. Qed.
Print Assumptions C06_shift_left_logical.

Theorem C06_shift_left_arithmetic : forall bits amt, wf bits -> wf amt ->
  shift_left_arithmetic bits amt = ((val bits * 2 ^ val amt) mod 2 ^ wd bits, wd bits).
Proof. exact BarrelProofs.shift_left_arithmetic_spec. Qed.
Print Assumptions C06_shift_left_arithmetic.

Theorem C06_shift_right_logical : forall bits amt, wf bits -> wf amt ->
  shift_right_logical bits amt = (val bits / 2 ^ val amt, wd bits).
Proof. exact BarrelProofs.shift_right_logical_spec. Qed.
Print Assumptions C06_shift_right_logical.

(* arithmetic right shift = floor division of the two's-complement value *)
Theorem C06_shift_right_arithmetic : forall bits amt, wf bits -> wf amt ->
  wd (shift_right_arithmetic bits amt) = wd bits /\
  sval (shift_right_arithmetic bits amt) = sval bits / 2 ^ val amt.
Proof. exact BarrelProofs.shift_right_arithmetic_signed. Qed.
Print Assumptions C06_shift_right_arithmetic.

(* Python-int amounts 1..width-1: same function as the wire-amount form *)
Theorem C06_const_shifts : forall bits k, wf bits -> 1 <= k <= wd bits - 1 ->
  sll_const bits k = Some ((val bits * 2 ^ k) mod 2 ^ wd bits, wd bits) /\
  sla_const bits k = Some ((val bits * 2 ^ k) mod 2 ^ wd bits, wd bits) /\
  srl_const bits k = Some (val bits / 2 ^ k, wd bits) /\
  sra_const bits k = Some (shr_fill (val bits) (wd bits) (Z.testbit (val bits) (wd bits - 1)) k, wd bits).
Proof. exact BarrelProofs.const_shifts. Qed.
Print Assumptions C06_const_shifts.

Theorem C06_const_shift_agrees : forall bits k wk, wf bits -> 1 <= k <= wd bits - 1 -> wf (k, wk) ->
  sll_const bits k = Some (shift_left_logical bits (k, wk)) /\
  srl_const bits k = Some (shift_right_logical bits (k, wk)) /\
  sra_const bits k = Some (shift_right_arithmetic bits (k, wk)).
Proof. exact BarrelProofs.const_shift_agrees. Qed.
Print Assumptions C06_const_shift_agrees.

(* ------------------------------------------------------------------ operand kinds *)
(* int / bool / Verilog-string operands ARE the equivalent Const (as_wires builds exactly that
   Const), and the Const has the documented value and width *)
Theorem C06_operand_kinds_agree : forall f (c : operand) x,
  (forall a, c <> OWire a) -> (forall o bw s, c <> OConst o bw s) -> (forall a, c <> OLazy a) ->
  lift2 f x c = lift2 f x (OConst c None false).
Proof. exact KindsProofs.operand_kinds_agree. Qed.
Print Assumptions C06_operand_kinds_agree.

(* a not-yet-materialised memory/ROM read mem[addr] as an operand is the read-data wire, on
   either side, operand order as written (so mem[a] - b is (mem[a] - b) mod 2^(max+1)) *)
Theorem C06_lazy_read_is_wire : forall f a y,
  lift2 f (OLazy a) y = lift2 f (OWire a) y /\ lift2 f y (OLazy a) = lift2 f y (OWire a) /\
  lift2s f (OLazy a) y = lift2s f (OWire a) y /\ lift2s f y (OLazy a) = lift2s f y (OWire a).
Proof. exact KindsProofs.lazy_read_is_wire. Qed.
Print Assumptions C06_lazy_read_is_wire.

Theorem C06_lazy_sub : forall a b, wf a -> wf b ->
  lift2 op_sub (OLazy a) (OWire b)
  = Some ((val a - val b) mod 2 ^ (Z.max (wd a) (wd b) + 1), Z.max (wd a) (wd b) + 1).
Proof. exact KindsProofs.lazy_sub. Qed.
Print Assumptions C06_lazy_sub.

Theorem C06_const_int_unsigned : forall v, 0 <= v ->
  exists w, Ops.convert_int v None false = Some (v, w) /\ wf (v, w) /\ (forall w', 1 <= w' -> v < 2 ^ w' -> w <= w').
Proof. exact KindsProofs.const_int_unsigned. Qed.
Print Assumptions C06_const_int_unsigned.

Theorem C06_const_int_signed : forall v,
  exists r, Ops.convert_int v None true = Some r /\ wf r /\ sval r = v.
Proof. exact KindsProofs.const_int_signed. Qed.
Print Assumptions C06_const_int_signed.

Theorem C06_const_bool : forall b, as_wires (OBool b) None = Some (b2z b, 1).
Proof. exact KindsProofs.const_bool. Qed.
Print Assumptions C06_const_bool.

Theorem C06_const_vstr : forall bw num, 1 <= bw -> 0 <= num < 2 ^ bw ->
  as_wires (OVStr false bw num) None = Some (num, bw).
Proof. exact KindsProofs.const_vstr. Qed.
Print Assumptions C06_const_vstr.

(* ------------------------------------------------------------------ regenerated helper bodies *)
(* Gen/C06Helpers.v (module G) is regenerated from /repo on every run: the BODIES of
   corecircuits.signed_add/signed_mult/signed_lt/le/gt/ge, of the four shift_* (wire-amount and
   int-amount paths) and of one iteration of the stage loop of rtllib/barrel.py barrel_shifter,
   translated statement by statement into compositions of the operator models above
   (w = WireVector parameter, i = Python int parameter).  The theorems below are ABOUT THOSE
   REGENERATED BODIES: a change to a helper's source changes G and these are re-checked. *)
Theorem C06_src_signed_add_exact : forall a b, wf a -> wf b ->
  wd (G.signed_add_ww a b) = Z.max (wd a) (wd b) + 1 /\
  sval (G.signed_add_ww a b) = sval a + sval b.
Proof. exact HelpersTie.src_signed_add_exact. Qed.
Print Assumptions C06_src_signed_add_exact.

Theorem C06_src_signed_mult_exact : forall a b, wf a -> wf b ->
  wd (G.signed_mult_ww a b) = wd a + wd b /\ sval (G.signed_mult_ww a b) = sval a * sval b.
Proof. exact HelpersTie.src_signed_mult_exact. Qed.
Print Assumptions C06_src_signed_mult_exact.

Theorem C06_src_signed_comparisons : forall a b, wf a -> wf b ->
  G.signed_lt_ww a b = (b2z (sval a <? sval b), 1) /\ G.signed_le_ww a b = (b2z (sval a <=? sval b), 1) /\
  G.signed_gt_ww a b = (b2z (sval a >? sval b), 1) /\ G.signed_ge_ww a b = (b2z (sval a >=? sval b), 1).
Proof. exact HelpersTie.src_signed_comparisons. Qed.
Print Assumptions C06_src_signed_comparisons.

(* a Python int operand of signed_add / signed_mult (either side) counts with its own value *)
Theorem C06_src_signed_int_exact : forall a v, wf a ->
  sval (G.signed_add_wi a v) = sval a + v /\ sval (G.signed_add_iw v a) = v + sval a /\
  sval (G.signed_mult_wi a v) = sval a * v /\ sval (G.signed_mult_iw v a) = v * sval a.
Proof. exact HelpersTie.src_signed_int_exact. Qed.
Print Assumptions C06_src_signed_int_exact.

(* the barrel shifter folded over the REGENERATED stage *)
Theorem C06_src_barrel_full_shift : forall x fw f dir dist, 1 <= fw -> inrange x fw -> wf dist ->
  barrel_shifter_src (x, fw) (b2z f, 1) dir dist =
  (if negb (val dir =? 0) then shl_fill x fw f (val dist) else shr_fill x fw f (val dist), fw).
Proof. exact HelpersTie.src_barrel_full_shift. Qed.
Print Assumptions C06_src_barrel_full_shift.

Theorem C06_src_barrel_stage_is_model : forall fw dir dist st i,
  G.barrel_stage fw dir dist st i = Barrel.barrel_stage fw dir dist st i.
Proof. exact HelpersTie.barrel_stage_src. Qed.
Print Assumptions C06_src_barrel_stage_is_model.

Theorem C06_src_shift_wire : forall bits amt, wf bits -> wf amt ->
  G.shift_left_logical_ww bits amt = ((val bits * 2 ^ val amt) mod 2 ^ wd bits, wd bits) /\
  G.shift_left_arithmetic_ww bits amt = ((val bits * 2 ^ val amt) mod 2 ^ wd bits, wd bits) /\
  G.shift_right_logical_ww bits amt = (val bits / 2 ^ val amt, wd bits) /\
  (wd (G.shift_right_arithmetic_ww bits amt) = wd bits /\
   sval (G.shift_right_arithmetic_ww bits amt) = sval bits / 2 ^ val amt).
Proof. exact HelpersTie.src_shift_wire. Qed.
Print Assumptions C06_src_shift_wire.

Theorem C06_src_shift_int : forall bits k, wf bits -> 1 <= k <= wd bits - 1 ->
  G.shift_left_logical_wi bits k = ((val bits * 2 ^ k) mod 2 ^ wd bits, wd bits) /\
  G.shift_left_arithmetic_wi bits k = ((val bits * 2 ^ k) mod 2 ^ wd bits, wd bits) /\
  G.shift_right_logical_wi bits k = (val bits / 2 ^ k, wd bits) /\
  G.shift_right_arithmetic_wi bits k
    = (shr_fill (val bits) (wd bits) (Z.testbit (val bits) (wd bits - 1)) k, wd bits).
Proof. exact HelpersTie.src_shift_int. Qed.
Print Assumptions C06_src_shift_int.

(* the hand-written definitions evaluated by the harness (Front/Signed.v, Front/Barrel.v) ARE the
   regenerated bodies *)
Theorem C06_src_bodies_are_model : forall a b, wf a -> wf b ->
  G.signed_add_ww a b = signed_add a b /\ G.signed_mult_ww a b = signed_mult a b /\
  G.signed_lt_ww a b = signed_lt a b /\ G.signed_le_ww a b = signed_le a b /\
  G.signed_gt_ww a b = signed_gt a b /\ G.signed_ge_ww a b = signed_ge a b /\
  G.shift_left_logical_ww a b = shift_left_logical a b /\
  G.shift_left_arithmetic_ww a b = shift_left_arithmetic a b /\
  G.shift_right_logical_ww a b = shift_right_logical a b /\
  G.shift_right_arithmetic_ww a b = shift_right_arithmetic a b.
Proof. exact HelpersTie.src_bodies_are_model. Qed.
Print Assumptions C06_src_bodies_are_model.

Example C06_example_src :
  G.signed_add_ww (5, 3) (20, 5) = (49, 6) /\ G.signed_lt_ww (5, 3) (20, 5) = (0, 1) /\
  G.signed_add_wi (5, 3) (-3) = (10, 4) /\ G.shift_right_arithmetic_wi (9, 4) 2 = (14, 4) /\
  barrel_shifter_src (5, 4) (1, 1) (1, 1) (9, 7) = (15, 4).
Proof. vm_compute. repeat split; reflexivity. Qed.

(* ------------------------------------------------------------------ non-vacuity *)
Example C06_example_wf : wf (5, 3) /\ wf (20, 5) /\ wf (0, 1) /\ wf (2 ^ 130 - 1, 130).
Proof. repeat split; vm_compute; congruence. Qed.

Example C06_example_ops :
  op_add (5, 3) (20, 5) = (25, 6) /\ op_sub (5, 3) (20, 5) = (49, 6) /\ op_mul (5, 3) (20, 5) = (100, 10) /\
  signed_lt (5, 3) (20, 5) = (0, 1) /\ signed_add (5, 3) (20, 5) = (49, 6) /\
  getitem (11, 4) (ISlice None None (Some (-1))) = Some (13, 4) /\
  shift_right_arithmetic (9, 4) (6, 3) = (15, 4) /\ shift_left_logical (5, 4) (1, 3) = (10, 4) /\
  barrel_shifter (5, 4) (1, 1) (1, 1) (9, 7) = (15, 4).
Proof. vm_compute. repeat split; reflexivity. Qed.
