(* C19 -- rtllib Matrix operations equal integer-matrix arithmetic modulo the result width.
   Only statements + `exact`; the model is Lib/Matrix.v (tied to pyrtl/rtllib/matrix.py on every run
   by py/checks/C19.py), the proofs live in Lib/MatrixProofs.v.

   Vocabulary (Lib/MatrixProofs.v): `wfx r c a` = a has r>0 rows of c>0 elements; `mrange a` = every
   element is in [0, 2^bits a); `el a i j` = element (i,j); `flat` = row-major reading;
   `sumZ` = integer sum of a list; `dot_spec a b K i j` = sum_k a[i,k]*b[k,j];
   `is_max/is_min m l` = m is a maximum/minimum of l; `first_index m l n` = n is the first position of m in l.
   All statements are for ALL shapes, widths, max_bits and values. *)
From PyRTL Require Import Base.PyZ Lib.Matrix Lib.MatrixProofs Gen.MatrixRules Lib.MatrixGen.
From PyRTL Require Import Gen.MatrixKeys Lib.MatrixKeysBase Lib.MatrixKeysGen.

(* ---------------------------------------------------------------- translator tie
   Gen/MatrixRules.v is regenerated from pyrtl/rtllib/matrix.py on every run (py/genfrag_C19.py); the
   model's width rules, constructor slice arithmetic, put index handling and reshape index arithmetic
   ARE what the source says now. *)
Theorem C19_gen_width_rules :
  (forall b mb, ctor_bits_gen b mb = capb b mb) /\
  (forall a b,
  bits (madd a b) = ctor_bits_gen (add_bits_gen (bits a) (bits b)) (maxb a)) /\
  (forall a b,
  bits (msub a b) = ctor_bits_gen (sub_bits_gen (bits a) (bits b)) (maxb a)) /\
  (forall a b,
  bits (mmul a b) = ctor_bits_gen (mul_bits_gen (bits a) (bits b)) (maxb a)) /\
  (forall a ws s,
  bits (mscal a ws s) = ctor_bits_gen (scal_bits_gen (bits a) ws) (maxb a)) /\
  (forall a b,
  bits (mmatmul a b) =
  ctor_bits_gen (matmul_bits_gen (Z.of_nat (cols_of a)) (Z.of_nat (rows_of b)) (bits a) (bits b)) (maxb a)).
Proof. exact (conj gen_ctor_bits (conj gen_add_bits (conj gen_sub_bits (conj gen_mul_bits (conj gen_scal_bits gen_matmul_bits))))). Qed.
Print Assumptions C19_gen_width_rules.

Theorem C19_gen_ctor_layout : forall r c b mb v i j, 0 <= i < Z.of_nat r -> 0 <= j < Z.of_nat c ->
  let b' := ctor_bits_gen b mb in
  let start := ctor_start_gen i j b' (Z.of_nat c) in
  el (mx_in r c b mb v) (Z.to_nat (ctor_row_gen (Z.of_nat r) i)) (Z.to_nat (ctor_col_gen (Z.of_nat c) j))
  = (v / 2 ^ start) mod 2 ^ (ctor_stop_gen start b' - start).
Proof. exact gen_ctor_layout. Qed.
Print Assumptions C19_gen_ctor_layout.

Theorem C19_gen_put :
  (forall count m ix, 0 <= m <= 2 ->
  put_ix_gen count m ix = put_ix count (mode_of m) ix) /\
  (forall a ix x,
  set_flat a ix x =
  MkMx (bits a) (maxb a)
    (mk (rows_of a) (cols_of a) (fun i j =>
       if Nat.eqb i (Z.to_nat (put_row_gen ix (Z.of_nat (cols_of a)))) &&
          Nat.eqb j (Z.to_nat (put_col_gen ix (Z.of_nat (cols_of a))))
       then trunc (bits a) x else el a i j))).
Proof. exact (conj gen_put_ix gen_put_position). Qed.
Print Assumptions C19_gen_put.

Theorem C19_gen_reshape :
  (forall r c ix, (0 < c)%nat ->
  src_C r c ix = (Z.to_nat (reshape_C_r_gen (Z.of_nat ix) (Z.of_nat r) (Z.of_nat c)),
                  Z.to_nat (reshape_C_c_gen (Z.of_nat ix) (Z.of_nat r) (Z.of_nat c)))) /\
  (forall r c ix, (0 < r)%nat ->
  src_F r c ix = (Z.to_nat (reshape_F_r_gen (Z.of_nat ix) (Z.of_nat r) (Z.of_nat c)),
                  Z.to_nat (reshape_F_c_gen (Z.of_nat ix) (Z.of_nat r) (Z.of_nat c)))) /\
  (forall count nr nc,
  resolve_shape count nr nc =
  if (nr =? -1) && (nc =? -1) then None
  else let '(r, c) := if nr =? -1 then (reshape_infer_rows_gen count nc, nc)
                      else if nc =? -1 then (nr, reshape_infer_cols_gen count nr) else (nr, nc) in
       if negb (reshape_size_bad_gen r c count) && (0 <? r) && (0 <? c) then Some (r, c) else None).
Proof. exact (conj gen_reshape_C (conj gen_reshape_F gen_resolve_shape)). Qed.
Print Assumptions C19_gen_reshape.

(* the cap carried by a constructed result (it decides what a LATER + * @ on that result computes):
   every Matrix(...) built by these methods receives max_bits = the source says self.max_bits *)
Theorem C19_gen_max_bits :
  (forall a b ws s,
     maxb (mtranspose a) = transpose_maxbits_gen (bits a) (maxb a) /\
     maxb (mreversed a) = reversed_maxbits_gen (bits a) (maxb a) /\
     maxb (mcopy a) = copy_maxbits_gen (bits a) (maxb a) /\
     maxb (madd a b) = add_maxbits_gen (bits a) (maxb a) /\
     maxb (msub a b) = sub_maxbits_gen (bits a) (maxb a) /\
     maxb (mmul a b) = mul_maxbits_gen (bits a) (maxb a) /\
     maxb (mscal a ws s) = mul_maxbits_gen (bits a) (maxb a) /\
     maxb (mmatmul a b) = matmul_maxbits_gen (bits a) (maxb a)) /\
  (forall a nr nc o res, mreshape a nr nc o = Some res -> maxb res = reshape_maxbits_gen (bits a) (maxb a)) /\
  (forall a kr kc res, mgetitem a kr kc = Some res -> maxb res = getitem_maxbits_gen (bits a) (maxb a)) /\
  (forall bits max_bits, reshape_maxbits_gen bits max_bits = max_bits /\ getitem_maxbits_gen bits max_bits = max_bits /\
     transpose_maxbits_gen bits max_bits = max_bits /\ copy_maxbits_gen bits max_bits = max_bits /\
     add_maxbits_gen bits max_bits = max_bits /\ mul_maxbits_gen bits max_bits = max_bits /\
     matmul_maxbits_gen bits max_bits = max_bits /\ sub_maxbits_gen bits max_bits = max_bits /\
     reversed_maxbits_gen bits max_bits = max_bits).
Proof.
  exact (conj gen_max_bits (conj gen_max_bits_reshape (conj gen_max_bits_getitem
         (fun _ _ => conj eq_refl (conj eq_refl (conj eq_refl (conj eq_refl (conj eq_refl (conj eq_refl
                     (conj eq_refl (conj eq_refl eq_refl))))))))))).
Qed.
Print Assumptions C19_gen_max_bits.

(* ---------------------------------------------------------------- translator tie: key normalisation
   Gen/MatrixKeys.v is the `if isinstance(key, tuple):` fragment of __getitem__ and of __setitem__ (int
   normalisation, step test, start/stop defaults and negative bounds, the two bounds checks) executed
   symbolically from the CURRENT source for every combination of int / slice keys; `keys_model kg r c kr kc`
   pairs the model's per-dimension resolution (key_get / key_set, on which every getitem/setitem theorem
   below rests).  None = the code raises. *)
Theorem C19_gen_getitem_keys : forall r c kr kc,
  match kr, kc with
  | KInt x, KInt y => getitem_keys_II_gen r c x y
  | KInt x, KSl a b st => getitem_keys_IS_gen r c x a b st
  | KSl a b st, KInt y => getitem_keys_SI_gen r c a b st y
  | KSl a b st, KSl a' b' st' => getitem_keys_SS_gen r c a b st a' b' st'
  end = keys_model key_get r c kr kc.
Proof. exact gen_getitem_keys. Qed.
Print Assumptions C19_gen_getitem_keys.

Theorem C19_gen_setitem_keys : forall r c kr kc,
  match kr, kc with
  | KInt x, KInt y => setitem_keys_II_gen r c x y
  | KInt x, KSl a b st => setitem_keys_IS_gen r c x a b st
  | KSl a b st, KInt y => setitem_keys_SI_gen r c a b st y
  | KSl a b st, KSl a' b' st' => setitem_keys_SS_gen r c a b st a' b' st'
  end = keys_model key_set r c kr kc.
Proof. exact gen_setitem_keys. Qed.
Print Assumptions C19_gen_setitem_keys.

(* m[k] and m[k] = v with one int: slice(start, start+1, None) then self[key, :] *)
Theorem C19_gen_single_int_key :
  (forall r c k,
     match getitem_intkey_gen r c k with
     | Some (s, e) => getitem_keys_SS_gen r c (Some s) (Some e) None None None None
     | None => None
     end = keys_model key_get r c (KInt k) (KSl None None None)) /\
  (forall r c k,
     match setitem_intkey_gen r c k with
     | Some (s, e) => setitem_keys_SS_gen r c (Some s) (Some e) None None None None
     | None => None
     end = keys_model key_set r c (KInt k) (KSl None None None)).
Proof. exact (conj gen_getitem_intkey gen_setitem_intkey). Qed.
Print Assumptions C19_gen_single_int_key.

(* what __getitem__ does with the resolved bounds: single-element test, result shape and source
   coordinates are the regenerated expressions *)
Theorem C19_gen_getitem_block : forall a kr kc,
  mgetitem a kr kc =
  match keys_model key_get (Z.of_nat (rows_of a)) (Z.of_nat (cols_of a)) kr kc with
  | None => None
  | Some (rs, re, cs, ce) =>
      let nr := getitem_result_rows_gen rs re cs ce in
      let nc := getitem_result_cols_gen rs re cs ce in
      if (nr <=? 0) || (nc <=? 0) then None
      else if getitem_is_scalar_gen rs re cs ce
           then Some (MkMx (bits a) (maxb a) [[el a (Z.to_nat rs) (Z.to_nat cs)]])
           else Some (mnew (Z.to_nat nr) (Z.to_nat nc) (bits a) (maxb a) (fun i j =>
                  el a (Z.to_nat (getitem_src_row_gen rs re cs ce (Z.of_nat i) (Z.of_nat j)))
                       (Z.to_nat (getitem_src_col_gen rs re cs ce (Z.of_nat i) (Z.of_nat j)))))
  end.
Proof. exact gen_getitem_block. Qed.
Print Assumptions C19_gen_getitem_block.

(* ---------------------------------------------------------------- WireVector <-> Matrix *)
Theorem C19_layout_inverse :
  (forall b l, 0 <= b -> all_inrange b l ->
  decode b (length l) (encode b l) = l) /\
  (forall b n v, 0 <= b ->
  encode b (decode b n v) = v mod 2 ^ (b * Z.of_nat n)).
Proof. exact (conj decode_encode encode_decode). Qed.
Print Assumptions C19_layout_inverse.

(* matrix_wv_to_list(m.to_wirevector(), rows, columns, bits) = m *)
Theorem C19_wv_roundtrip : forall r c a, wfx r c a -> 0 <= bits a -> mrange a ->
  matrix_wv_to_list (to_wv a) r c (bits a) = dat a.
Proof. exact wv_roundtrip. Qed.
Print Assumptions C19_wv_roundtrip.

Theorem C19_list_roundtrip : forall r c b mb v, 0 <= b -> (0 < r)%nat -> (0 < c)%nat ->
  to_wv (MkMx b mb (matrix_wv_to_list v r c b)) = v mod 2 ^ (b * Z.of_nat (r * c)).
Proof. exact list_roundtrip. Qed.
Print Assumptions C19_list_roundtrip.

(* list_to_int's shift-or loop is the same layout, each element truncated to n_bits *)
Theorem C19_list_to_int_layout : forall m b, 0 <= b ->
  list_to_int m b = encode b (map (trunc b) (flat m)).
Proof. exact list_to_int_encode. Qed.
Print Assumptions C19_list_to_int_layout.

(* the constructor's slice arithmetic (start = j*bits + i*columns*bits, stored at [rows-i-1][columns-j-1])
   reads element (i,j) from the row-major position i*c+j *)
Theorem C19_constructor_layout : forall r c b mb v i j, (i < r)%nat -> (j < c)%nat ->
  el (mx_in r c b mb v) i j = nth (i * c + j) (decode (capb b mb) (r * c) v) 0.
Proof. exact mx_in_layout. Qed.
Print Assumptions C19_constructor_layout.

Theorem C19_copy_preserves : forall r c a, wfx r c a -> 0 <= bits a <= maxb a -> mrange a ->
  dat (mcopy a) = dat a /\ bits (mcopy a) = bits a.
Proof. exact copy_correct. Qed.
Print Assumptions C19_copy_preserves.

(* ---------------------------------------------------------------- + , saturating - , * *)
Theorem C19_add_mod : forall r c a b, wfx r c a -> mrange a -> mrange b ->
  forall i j, (i < r)%nat -> (j < c)%nat ->
  bits (madd a b) = capb (Z.max (bits a) (bits b) + 1) (maxb a) /\
  el (madd a b) i j = (el a i j + el b i j) mod 2 ^ bits (madd a b).
Proof. exact add_mod. Qed.
Print Assumptions C19_add_mod.

Theorem C19_add_width_exact : forall r c a b, wfx r c a -> mrange a -> mrange b ->
  forall i j, (i < r)%nat -> (j < c)%nat -> Z.max (bits a) (bits b) + 1 <= maxb a ->
  bits (madd a b) = Z.max (bits a) (bits b) + 1 /\ el (madd a b) i j = el a i j + el b i j.
Proof. exact add_width_exact. Qed.
Print Assumptions C19_add_width_exact.

Theorem C19_sub_mod : forall r c a b, wfx r c a -> mrange a -> mrange b ->
  forall i j, (i < r)%nat -> (j < c)%nat ->
  bits (msub a b) = capb (Z.max (bits a) (bits b)) (maxb a) /\
  el (msub a b) i j = Z.max (el a i j - el b i j) 0 mod 2 ^ bits (msub a b).
Proof. exact sub_mod. Qed.
Print Assumptions C19_sub_mod.

Theorem C19_sub_saturates : forall r c a b, wfx r c a -> mrange a -> mrange b ->
  forall i j, (i < r)%nat -> (j < c)%nat -> Z.max (bits a) (bits b) <= maxb a ->
  el (msub a b) i j = (if el a i j <=? el b i j then 0 else el a i j - el b i j).
Proof. exact sub_saturates. Qed.
Print Assumptions C19_sub_saturates.

Theorem C19_mul_mod : forall r c a b, wfx r c a -> mrange a -> mrange b ->
  forall i j, (i < r)%nat -> (j < c)%nat ->
  bits (mmul a b) = capb (bits a + bits b) (maxb a) /\
  el (mmul a b) i j = (el a i j * el b i j) mod 2 ^ bits (mmul a b).
Proof. exact mul_mod. Qed.
Print Assumptions C19_mul_mod.

Theorem C19_mul_width_exact : forall r c a b, wfx r c a -> mrange a -> mrange b ->
  forall i j, (i < r)%nat -> (j < c)%nat -> bits a + bits b <= maxb a ->
  bits (mmul a b) = bits a + bits b /\ el (mmul a b) i j = el a i j * el b i j.
Proof. exact mul_width_exact. Qed.
Print Assumptions C19_mul_width_exact.

Theorem C19_scalar_mul_mod : forall r c a ws s i j,
  wfx r c a -> mrange a -> inrange s ws -> (i < r)%nat -> (j < c)%nat ->
  bits (mscal a ws s) = capb (bits a + ws) (maxb a) /\
  el (mscal a ws s) i j = (el a i j * s) mod 2 ^ bits (mscal a ws s).
Proof. exact scal_mod. Qed.
Print Assumptions C19_scalar_mul_mod.

Theorem C19_scalar_mul_width_exact : forall r c a ws s i j,
  wfx r c a -> mrange a -> inrange s ws -> (i < r)%nat -> (j < c)%nat -> bits a + ws <= maxb a ->
  bits (mscal a ws s) = bits a + ws /\ el (mscal a ws s) i j = el a i j * s.
Proof. exact scal_width_exact. Qed.
Print Assumptions C19_scalar_mul_width_exact.

(* ---------------------------------------------------------------- @ *)
(* the fused multiply-add's own width (F11: one bit short when the addend is as wide as the product)
   never shows: the result is truncated to result.bits, which is below the fma width *)
Theorem C19_fma_truncation_harmless : forall wa wb rb x y acc, 0 <= rb ->
  trunc rb (fma wa wb rb x y acc) = (x * y + acc) mod 2 ^ rb.
Proof. exact fma_trunc_harmless. Qed.
Print Assumptions C19_fma_truncation_harmless.

Theorem C19_matmul_mod : forall r K c a b i j,
  wfx r K a -> wfx K c b -> 0 <= maxb a -> 0 <= bits a + bits b -> (i < r)%nat -> (j < c)%nat ->
  bits (mmatmul a b) = capb (Z.of_nat K * Z.of_nat K * (bits a + bits b)) (maxb a) /\
  el (mmatmul a b) i j = dot_spec a b K i j mod 2 ^ bits (mmatmul a b).
Proof. exact matmul_mod. Qed.
Print Assumptions C19_matmul_mod.

Theorem C19_matmul_width_bound : forall K wa wb, 1 <= K -> 0 <= wa -> 0 <= wb -> 1 <= wa + wb ->
  K * ((2 ^ wa - 1) * (2 ^ wb - 1)) < 2 ^ (K * K * (wa + wb)).
Proof. exact matmul_width_bound. Qed.
Print Assumptions C19_matmul_width_bound.

Theorem C19_matmul_width_exact : forall r K c a b i j,
  wfx r K a -> wfx K c b -> mrange a -> mrange b -> 1 <= bits a + bits b ->
  Z.of_nat K * Z.of_nat K * (bits a + bits b) <= maxb a -> (i < r)%nat -> (j < c)%nat ->
  bits (mmatmul a b) = Z.of_nat K * Z.of_nat K * (bits a + bits b) /\
  el (mmatmul a b) i j = dot_spec a b K i j.
Proof. exact matmul_width_exact. Qed.
Print Assumptions C19_matmul_width_exact.

(* ---------------------------------------------------------------- transpose, reshape *)
Theorem C19_transpose_correct : forall r c a i j, wfx r c a -> mrange a -> bits a <= maxb a ->
  (i < c)%nat -> (j < r)%nat ->
  el (mtranspose a) i j = el a j i /\ bits (mtranspose a) = bits a /\ wfx c r (mtranspose a).
Proof. exact transpose_correct. Qed.
Print Assumptions C19_transpose_correct.

Theorem C19_transpose_involutive : forall r c a, wfx r c a -> mrange a -> bits a <= maxb a ->
  dat (mtranspose (mtranspose a)) = dat a.
Proof. exact transpose_involutive. Qed.
Print Assumptions C19_transpose_involutive.

Theorem C19_reshape_index_bijection :
  (forall r c, (0 < c)%nat ->
  (forall ix, (ix < r * c)%nat ->
     (fst (src_C r c ix) < r)%nat /\ (snd (src_C r c ix) < c)%nat /\
     ix_C r c (fst (src_C r c ix)) (snd (src_C r c ix)) = ix) /\
  (forall i j, (i < r)%nat -> (j < c)%nat ->
     (ix_C r c i j < r * c)%nat /\ src_C r c (ix_C r c i j) = (i, j))) /\
  (forall r c, (0 < r)%nat ->
  (forall ix, (ix < r * c)%nat ->
     (fst (src_F r c ix) < r)%nat /\ (snd (src_F r c ix) < c)%nat /\
     ix_F r c (fst (src_F r c ix)) (snd (src_F r c ix)) = ix) /\
  (forall i j, (i < r)%nat -> (j < c)%nat ->
     (ix_F r c i j < r * c)%nat /\ src_F r c (ix_F r c i j) = (i, j))).
Proof. exact (conj reshape_C_bijection reshape_F_bijection). Qed.
Print Assumptions C19_reshape_index_bijection.

(* C order keeps the row-major reading; F order keeps the column-major reading *)
Theorem C19_reshape_C_correct : forall r c a r' c' i j, wfx r c a -> mrange a -> bits a <= maxb a ->
  (0 < r')%nat -> (0 < c')%nat -> (r' * c' = r * c)%nat -> (i < r')%nat -> (j < c')%nat ->
  exists res, mreshape a (Z.of_nat r') (Z.of_nat c') false = Some res /\ wfx r' c' res /\
    bits res = bits a /\ el res i j = nth (i * c' + j) (flat (dat a)) 0.
Proof. exact reshape_C_correct. Qed.
Print Assumptions C19_reshape_C_correct.

Theorem C19_reshape_F_correct : forall r c a r' c' i j, wfx r c a -> mrange a -> bits a <= maxb a ->
  (0 < r')%nat -> (0 < c')%nat -> (r' * c' = r * c)%nat -> (i < r')%nat -> (j < c')%nat ->
  exists res, mreshape a (Z.of_nat r') (Z.of_nat c') true = Some res /\ wfx r' c' res /\
    bits res = bits a /\ el res i j = nth (j * r' + i) (flat (dat (mtranspose a))) 0.
Proof. exact reshape_F_correct. Qed.
Print Assumptions C19_reshape_F_correct.

Theorem C19_reshape_infers_minus_one :
  (forall count nc, 0 < nc -> (count / nc) * nc = count -> 0 < count ->
  resolve_shape count (-1) nc = Some (count / nc, nc)) /\
  (forall count nr, 0 < nr -> nr * (count / nr) = count -> 0 < count ->
  resolve_shape count nr (-1) = Some (nr, count / nr)).
Proof. exact (conj resolve_shape_infer_rows resolve_shape_infer_cols). Qed.
Print Assumptions C19_reshape_infers_minus_one.

(* ---------------------------------------------------------------- sum / min / max / argmax *)
Theorem C19_sum_all_exact : forall r c a bo, wfx r c a -> mrange a ->
  el (msum a AxNone bo) 0 0 = sumZ (flat (dat a)) /\
  bits (msum a AxNone bo) = bits a + Z.of_nat (r * c) - 1.
Proof. exact sum_all_exact. Qed.
Print Assumptions C19_sum_all_exact.

Theorem C19_sum_axis :
  (forall r c a bo j, wfx r c a -> mrange a -> (j < c)%nat ->
  bits (msum a Ax0 bo) = capb (default_bits a bo) 64 /\
  el (msum a Ax0 bo) 0 j = sumZ (col a j) mod 2 ^ bits (msum a Ax0 bo)) /\
  (forall r c a bo i, wfx r c a -> mrange a -> (i < r)%nat ->
  bits (msum a Ax1 bo) = capb (default_bits a bo) 64 /\
  el (msum a Ax1 bo) 0 i = sumZ (row a i) mod 2 ^ bits (msum a Ax1 bo)).
Proof. exact (conj sum_axis0 sum_axis1). Qed.
Print Assumptions C19_sum_axis.

Theorem C19_max :
  (forall r c a bo, wfx r c a -> is_max (el (mmax a AxNone bo) 0 0) (flat (dat a))) /\
  (forall r c a bo j, wfx r c a -> (j < c)%nat ->
  exists m, is_max m (col a j) /\ el (mmax a Ax0 bo) 0 j = m mod 2 ^ bits (mmax a Ax0 bo)) /\
  (forall r c a bo i, wfx r c a -> (i < r)%nat ->
  exists m, is_max m (row a i) /\ el (mmax a Ax1 bo) 0 i = m mod 2 ^ bits (mmax a Ax1 bo)).
Proof. exact (conj max_all (conj max_axis0 max_axis1)). Qed.
Print Assumptions C19_max.

Theorem C19_min :
  (forall r c a bo, wfx r c a -> is_min (el (mmin a AxNone bo) 0 0) (flat (dat a))) /\
  (forall r c a bo j, wfx r c a -> (j < c)%nat ->
  exists m, is_min m (col a j) /\ el (mmin a Ax0 bo) 0 j = m mod 2 ^ bits (mmin a Ax0 bo)) /\
  (forall r c a bo i, wfx r c a -> (i < r)%nat ->
  exists m, is_min m (row a i) /\ el (mmin a Ax1 bo) 0 i = m mod 2 ^ bits (mmin a Ax1 bo)).
Proof. exact (conj min_all (conj min_axis0 min_axis1)). Qed.
Print Assumptions C19_min.

Theorem C19_argmax_all_first_max : forall r c a bo, wfx r c a ->
  exists m n, is_max m (flat (dat a)) /\ first_index m (flat (dat a)) n /\
              el (margmax a AxNone bo) 0 0 = Z.of_nat n.
Proof. exact argmax_all_first_max. Qed.
Print Assumptions C19_argmax_all_first_max.

(* The full statement for argmax along an axis ... *)
Definition C19_argmax_axis0_full_statement : Prop :=
  forall r c a bo j, wfx r c a -> mrange a -> (j < c)%nat ->
  exists m n, is_max m (col a j) /\ first_index m (col a j) n /\
              el (margmax a Ax0 bo) 0 j = Z.of_nat n mod 2 ^ bits (margmax a Ax0 bo).

(* ... holds for every `bits` argument when the element width is at most 64 (the intermediate
   max(matrix, axis, bits=matrix.bits) is built with the default max_bits=64) ... *)
Theorem C19_argmax_axis_first_max_partial :
  (forall r c a bo j, wfx r c a -> mrange a -> (j < c)%nat ->
  bits a <= 64 ->
  exists m n, is_max m (col a j) /\ first_index m (col a j) n /\
              el (margmax a Ax0 bo) 0 j = Z.of_nat n mod 2 ^ bits (margmax a Ax0 bo)) /\
  (forall r c a bo i, wfx r c a -> mrange a -> (i < r)%nat ->
  bits a <= 64 ->
  exists m n, is_max m (row a i) /\ first_index m (row a i) n /\
              el (margmax a Ax1 bo) 0 i = Z.of_nat n mod 2 ^ bits (margmax a Ax1 bo)).
Proof. exact (conj argmax_axis0_first_max argmax_axis1_first_max). Qed.
Print Assumptions C19_argmax_axis_first_max_partial.

(* ... and is false beyond: 65-bit elements (max_bits=100), column [2^64; 2^64+1] -> index 0.
   Outside the property's quantifier (element widths 1..8); recorded, not searched. *)
Theorem C19_argmax_wide_elements_refuted :
  exists a bo j m n, wfx 2 1 a /\ mrange a /\ is_max m (col a j) /\ first_index m (col a j) n /\
     el (margmax a Ax0 bo) 0 j <> Z.of_nat n mod 2 ^ bits (margmax a Ax0 bo).
Proof. exact argmax_wide_elements_refuted. Qed.
Print Assumptions C19_argmax_wide_elements_refuted.

(* ---------------------------------------------------------------- indexing, put, stacking *)
(* an int key follows Python sequence indexing (negative counts from the end, out of range raises) *)
Theorem C19_getitem_int_index : forall n z, 0 < n ->
  key_get n (KInt z) = if (- n <=? z) && (z <? n) then Some (from_end n z, from_end n z + 1) else None.
Proof. exact key_get_int. Qed.
Print Assumptions C19_getitem_int_index.

(* start/stop follow Python; a step other than None / 1 is rejected (never silently ignored) *)
Theorem C19_getitem_slice_bounds : forall n s e st, 0 < n -> step_accepted st = true ->
  (forall z, s = Some z -> - n <= z <= n) -> (forall z, e = Some z -> - n <= z <= n) ->
  key_get n (KSl s e st) = Some (py_bound n 0 s, py_bound n n e).
Proof. exact key_get_slice. Qed.
Print Assumptions C19_getitem_slice_bounds.

Theorem C19_getitem_step_rejected : forall n s e z, z <> 1 -> key_get n (KSl s e (Some z)) = None.
Proof. exact key_get_step_rejected. Qed.
Print Assumptions C19_getitem_step_rejected.

(* __setitem__ resolves int keys like __getitem__ (m[-1, c] = v addresses the last row) *)
Theorem C19_setitem_int_index : forall n z, key_set n (KInt z) = key_get n (KInt z).
Proof. exact key_set_int. Qed.
Print Assumptions C19_setitem_int_index.

Theorem C19_getitem_block : forall r c a kr kc rs re cs ce i j, wfx r c a -> mrange a -> bits a <= maxb a ->
  key_get (Z.of_nat r) kr = Some (rs, re) -> key_get (Z.of_nat c) kc = Some (cs, ce) ->
  0 <= rs < re -> 0 <= cs < ce -> (Z.of_nat i < re - rs) -> (Z.of_nat j < ce - cs) ->
  exists res, mgetitem a kr kc = Some res /\ bits res = bits a /\
              el res i j = el a (Z.to_nat rs + i) (Z.to_nat cs + j).
Proof. exact getitem_block. Qed.
Print Assumptions C19_getitem_block.

Theorem C19_put_index_modes :
  (forall count ix, 0 < count ->
  put_ix count PRaise ix = if (- count <=? ix) && (ix <? count) then Some (from_end count ix) else None) /\
  (forall count ix, 0 < count -> put_ix count PWrap ix = Some (ix mod count)) /\
  (forall count ix, 0 < count ->
  put_ix count PClip ix = Some (Z.max 0 (Z.min (count - 1) (from_end count ix)))).
Proof. exact (conj put_ix_raise (conj put_ix_wrap put_ix_clip)). Qed.
Print Assumptions C19_put_index_modes.

Theorem C19_put_writes_flat_position : forall r c a ix x i j, wfx r c a -> 0 <= ix < Z.of_nat (r * c) ->
  (i < r)%nat -> (j < c)%nat ->
  el (set_flat a ix x) i j = if Z.of_nat (i * c + j) =? ix then trunc (bits a) x else el a i j.
Proof. exact set_flat_spec. Qed.
Print Assumptions C19_put_writes_flat_position.

(* a row-vector Matrix of values behaves like the list of its elements *)
Theorem C19_put_matrix_value_as_list : forall a ind v mode, nth 0 (dat v) [] <> [] ->
  mput_mat a ind v mode = mput_list a ind (nth 0 (dat v) []) mode.
Proof. exact put_matrix_value_as_list. Qed.
Print Assumptions C19_put_matrix_value_as_list.

(* dot with a 1x1 operand is the scalar product (C19_scalar_mul_mod), on either side *)
Theorem C19_dot_1x1 :
  (forall a b, is11 a = true -> is11 b = false ->
  mdot a b = Some (mscal b (bits a) (el a 0 0))) /\
  (forall a b, is11 a = false -> is11 b = true ->
  mdot a b = Some (mscal a (bits b) (el b 0 0))).
Proof. exact (conj dot_1x1_first dot_1x1_second). Qed.
Print Assumptions C19_dot_1x1.

Theorem C19_hstack_rows : forall m1 m2 ms i, let all := m1 :: m2 :: ms in
  forallb (fun x => Nat.eqb (rows_of x) (rows_of m1)) all = true -> (i < rows_of m1)%nat ->
  exists res, mhstack all = Some res /\
    bits res = capb (zmaxl (map bits all)) (zmaxl (map maxb all)) /\
    nth i (dat res) [] = map (trunc (bits res)) (concat (map (fun m => row m i) all)).
Proof. exact hstack_rows. Qed.
Print Assumptions C19_hstack_rows.

Theorem C19_vstack_rows : forall m1 m2 ms, let all := m1 :: m2 :: ms in
  forallb (fun x => Nat.eqb (cols_of x) (cols_of m1)) all = true ->
  (forall m, In m all -> wfm (rows_of m) (cols_of m1) (dat m)) ->
  exists res, mvstack all = Some res /\
    bits res = capb (zmaxl (map bits all)) (zmaxl (map maxb all)) /\
    dat res = map (map (trunc (bits res))) (concat (map dat all)).
Proof. exact vstack_rows. Qed.
Print Assumptions C19_vstack_rows.

(* ---------------------------------------------------------------- reversed, __setitem__, bits setter *)
Theorem C19_reversed_correct : forall r c a i j, wfx r c a -> mrange a -> bits a <= maxb a ->
  (i < r)%nat -> (j < c)%nat ->
  el (mreversed a) i j = el a (r - 1 - i) (c - 1 - j) /\ bits (mreversed a) = bits a.
Proof. exact reversed_correct. Qed.
Print Assumptions C19_reversed_correct.

Theorem C19_setitem :
  (forall r c a kr kc x rs cs i j, wfx r c a ->
     key_set (Z.of_nat r) kr = Some (rs, rs + 1) -> key_set (Z.of_nat c) kc = Some (cs, cs + 1) ->
     (i < r)%nat -> (j < c)%nat ->
     exists res, msetitem_s a kr kc x = Some res /\ bits res = bits a /\
       el res i j = if (Z.of_nat i =? rs) && (Z.of_nat j =? cs) then trunc (bits a) x else el a i j) /\
  (forall r c a kr kc v rs re cs ce i j, wfx r c a ->
     key_set (Z.of_nat r) kr = Some (rs, re) -> key_set (Z.of_nat c) kc = Some (cs, ce) ->
     0 <= rs -> 0 <= cs -> Z.of_nat (rows_of v) = re - rs -> Z.of_nat (cols_of v) = ce - cs ->
     (i < r)%nat -> (j < c)%nat ->
     exists res, msetitem_m a kr kc v = Some res /\ bits res = bits a /\
       el res i j = if (rs <=? Z.of_nat i) && (Z.of_nat i <? re) && (cs <=? Z.of_nat j) && (Z.of_nat j <? ce)
                    then trunc (bits a) (el v (i - Z.to_nat rs) (j - Z.to_nat cs)) else el a i j).
Proof. exact (conj setitem_scalar setitem_block). Qed.
Print Assumptions C19_setitem.

Theorem C19_bits_setter_truncates : forall a b i j,
  el (mset_bits a b) i j = trunc b (el a i j) /\ bits (mset_bits a b) = b.
Proof. exact set_bits_correct. Qed.
Print Assumptions C19_bits_setter_truncates.

(* ---------------------------------------------------------------- ** and dot's inner product *)
(* a ** n (reduce of __matmul__ over copies; identity for n = 0): entry (i,j) is the mathematical power
   A^n[i,j] (mat_pow_spec: A^0 = I, A^1 = A, A^(n+1) = A^n . A) modulo 2^bits of the result -- exact
   until max_bits is first reached, and from then on every intermediate has exactly max_bits bits *)
Theorem C19_pow_correct : forall r a n i j, wfx r r a -> mrange a -> 0 < bits a <= maxb a ->
  (i < r)%nat -> (j < r)%nat ->
  el (mpow a n) i j = mat_pow_spec a n i j mod 2 ^ bits (mpow a n).
Proof. exact pow_correct. Qed.
Print Assumptions C19_pow_correct.

(* dot of two vectors (inner_product): the integer inner product modulo 2^len(result); exact when
   max_bits is not reached by the products *)
Theorem C19_dot_inner_product : forall r c x y, wfx r c x -> mrange x -> mrange y -> 0 <= maxb x ->
  el (inner_product x y) 0 0 = inner_spec x y r c mod 2 ^ bits (inner_product x y) /\
  (bits x + bits y <= maxb x -> el (inner_product x y) 0 0 = inner_spec x y r c).
Proof. exact inner_product_correct. Qed.
Print Assumptions C19_dot_inner_product.

(* ---------------------------------------------------------------- put as a whole, dot dispatch, in-place, stacking *)
(* m.put(ind, v, mode): fails exactly when some index does not resolve under the mode (only possible
   for mode raise, see C19_put_index_modes); otherwise shape/bits/max_bits are kept and every element holds
   the LAST value written to its flat position (`put_last`: the writes in the order of ind, value k =
   v[k] or the last element of v when v is shorter), truncated to bits, else its old value.  A row-vector
   Matrix of values behaves like the list of its elements (C19_put_matrix_value_as_list). *)
Theorem C19_put_loop : forall r c a ind v mode, wfx r c a -> v <> [] ->
  let count := Z.of_nat (r * c) in
  (mput_list a ind v mode = None <-> exists ix, In ix ind /\ put_ix count mode ix = None) /\
  (forall res, mput_list a ind v mode = Some res ->
     wfx r c res /\ bits res = bits a /\ maxb res = maxb a /\
     forall i j, (i < r)%nat -> (j < c)%nat ->
       el res i j = put_last count mode (put_val_list v) (bits a) (Z.of_nat (i * c + j)) ind 0 (el a i j)).
Proof. exact put_list_spec. Qed.
Print Assumptions C19_put_loop.

(* put with ONE value, e.g. the bare int of m.put(ix, x): x mod 2^bits is written at the resolved position
   for every x -- 0 included; "nothing to place" is ONLY the empty list/tuple (regenerated guard) *)
Theorem C19_put_scalar_value : forall r c a ix x mode p i j, wfx r c a ->
  put_ix (Z.of_nat (r * c)) mode ix = Some p -> (i < r)%nat -> (j < c)%nat ->
  exists res, mput_list a [ix] [x] mode = Some res /\
    el res i j = if Z.of_nat (i * c + j) =? p then trunc (bits a) x else el a i j.
Proof. exact put_scalar_value. Qed.
Print Assumptions C19_put_scalar_value.

Theorem C19_gen_put_early_return :
  (forall v : list Z,
     put_early_return_gen true (Z.of_nat (length v)) = (match v with [] => true | _ => false end) /\
     (forall n, put_early_return_gen false n = false) /\
     put_int_wrapped_before_return_gen = true) /\
  (forall a ind mode, mput_list a ind [] mode = Some a).
Proof. exact (conj gen_put_early_return put_nothing). Qed.
Print Assumptions C19_gen_put_early_return.

(* dot(first, second) for EVERY pair of shapes: 1x1 operand -> scalar product (either side); two vectors
   (row or column, any combination) -> inner product if their lengths agree, else an error; otherwise
   matrix product if columns(first) = rows(second), else an error *)
Theorem C19_dot_dispatch : forall r1 c1 r2 c2 a b, wfx r1 c1 a -> wfx r2 c2 b ->
  mdot a b =
    if ((r1 =? 1) && (c1 =? 1))%nat then
      if ((r2 =? 1) && (c2 =? 1))%nat
      then Some (MkMx (2 * Z.max (bits a) (bits b)) (maxb a) [[el a 0 0 * el b 0 0]])
      else Some (mscal b (bits a) (el a 0 0))
    else if ((r2 =? 1) && (c2 =? 1))%nat then Some (mscal a (bits b) (el b 0 0))
    else if (((r1 =? 1) || (c1 =? 1)) && ((r2 =? 1) || (c2 =? 1)))%nat then
      if (r1 * c1 =? r2 * c2)%nat then Some (inner_product a (orient a b)) else None
    else if (c1 =? r2)%nat then Some (mmatmul a b) else None.
Proof. exact dot_dispatch. Qed.
Print Assumptions C19_dot_dispatch.

(* ... and the vector.vector value in terms of the two readings, whatever the orientations *)
Theorem C19_dot_vectors : forall r1 c1 r2 c2 a b, wfx r1 c1 a -> wfx r2 c2 b ->
  mrange a -> mrange b -> 0 <= maxb a -> bits b <= maxb b ->
  (r1 = 1 \/ c1 = 1)%nat -> (r2 = 1 \/ c2 = 1)%nat -> (r1 * c1 <> 1)%nat -> (r2 * c2 <> 1)%nat ->
  (r1 * c1 = r2 * c2)%nat ->
  let ip := sumZ (map (fun k => nth k (flat (dat a)) 0 * nth k (flat (dat b)) 0) (seq 0 (r1 * c1))) in
  exists res, mdot a b = Some res /\ el res 0 0 = ip mod 2 ^ bits res /\
              (bits a + bits b <= maxb a -> el res 0 0 = ip).
Proof. exact dot_vectors. Qed.
Print Assumptions C19_dot_vectors.

(* a += b, a -= b, a *= b, a @= b, a **= n: the operator's result re-read through to_wirevector (copy):
   same elements, same bits, and the max_bits of a *)
Theorem C19_inplace_operators :
  (forall r c a b, wfx r c a -> 0 <= bits a -> 0 <= bits b -> 0 <= maxb a ->
     (dat (miadd a b) = dat (madd a b) /\ bits (miadd a b) = bits (madd a b) /\ maxb (miadd a b) = maxb a) /\
     (dat (misub a b) = dat (msub a b) /\ bits (misub a b) = bits (msub a b) /\ maxb (misub a b) = maxb a) /\
     (dat (mimul a b) = dat (mmul a b) /\ bits (mimul a b) = bits (mmul a b) /\ maxb (mimul a b) = maxb a)) /\
  (forall r K c a b, wfx r K a -> wfx K c b -> 0 <= maxb a -> 0 <= bits a + bits b ->
     dat (mimatmul a b) = dat (mmatmul a b) /\ bits (mimatmul a b) = bits (mmatmul a b) /\
     maxb (mimatmul a b) = maxb a) /\
  (forall r a n, wfx r r a -> mrange a -> 0 < bits a <= maxb a ->
     dat (mipow a n) = dat (mpow a n) /\ bits (mipow a n) = bits (mpow a n) /\ maxb (mipow a n) = maxb a).
Proof. exact (conj inplace_elementwise (conj inplace_matmul inplace_pow)). Qed.
Print Assumptions C19_inplace_operators.

(* hstack / vstack of ANY number n >= 1 of operands (stackable_h R m: R rows, elements in range,
   0 <= bits <= max_bits): rows concatenated / appended, widest element width, no element changed *)
Theorem C19_hstack_any : forall R ms i, ms <> [] -> (forall m, In m ms -> stackable_h R m) -> (i < R)%nat ->
  exists res, mhstack ms = Some res /\ bits res = zmaxl (map bits ms) /\
    nth i (dat res) [] = concat (map (fun m => nth i (dat m) []) ms).
Proof. exact hstack_any. Qed.
Print Assumptions C19_hstack_any.

Theorem C19_vstack_any : forall C ms, ms <> [] -> (forall m, In m ms -> stackable_v C m) ->
  exists res, mvstack ms = Some res /\ bits res = zmaxl (map bits ms) /\
    dat res = concat (map dat ms).
Proof. exact vstack_any. Qed.
Print Assumptions C19_vstack_any.

(* shape errors: no operand; operands whose row counts (hstack) / column counts (vstack) differ;
   concatenate dispatches on axis 0 / 1 and rejects any other axis *)
Theorem C19_stack_errors :
  (mhstack [] = None /\
   forall m1 m2 ms, forallb (fun x => Nat.eqb (rows_of x) (rows_of m1)) (m1 :: m2 :: ms) = false ->
                    mhstack (m1 :: m2 :: ms) = None) /\
  (mvstack [] = None /\
   forall m1 m2 ms, forallb (fun x => Nat.eqb (cols_of x) (cols_of m1)) (m1 :: m2 :: ms) = false ->
                    mvstack (m1 :: m2 :: ms) = None) /\
  (forall ms ax, mconcatenate ms ax = if ax =? 0 then mhstack ms else if ax =? 1 then mvstack ms else None).
Proof. exact (conj hstack_errors (conj vstack_errors concatenate_dispatch)). Qed.
Print Assumptions C19_stack_errors.

(* ---------------------------------------------------------------- histories on a pool of objects
   Lib/Matrix.v `papply`/`prun`: every name of a program is an index into a pool of matrices (as values);
   each API call is a function on the pool.  py/checks/C19.py runs random call sequences with the real
   class, observes EVERY object after EVERY step and compares with `prun` and with nested-list arithmetic. *)
(* FRAME: a call changes at most its documented target (augmented assignments, __setitem__, put, the
   bits setter); every other object -- operands included -- is untouched; at most one object is created *)
Theorem C19_pool_frame : forall p s p', papply p s = Some p' ->
  (length p <= length p' <= S (length p))%nat /\
  forall k, (k < length p)%nat -> step_target s <> Some k -> nth_error p' k = nth_error p k.
Proof. exact papply_frame. Qed.
Print Assumptions C19_pool_frame.

(* stacking ONE matrix creates a new object (a copy); an augmented assignment leaves the operator's
   result in its target and returns a copy of it; the bits setter updates its target only *)
Theorem C19_pool_steps :
  (forall p i a, nth_error p i = Some a ->
     papply p (PHstack [i]) = Some (p ++ [mcopy a]) /\ papply p (PVstack [i]) = Some (p ++ [mcopy a]) /\
     papply p (PConcat [i] 0) = Some (p ++ [mcopy a]) /\ papply p (PConcat [i] 1) = Some (p ++ [mcopy a])) /\
  (forall p i j a b, nth_error p i = Some a -> nth_error p j = Some b -> same_shape a b = true ->
     papply p (PIsub i j) = Some (pset p i (inplace_self a (msub a b)) ++ [misub a b])) /\
  (forall p i b a, nth_error p i = Some a ->
     exists p', papply p (PSetbits i b) = Some p' /\ nth_error p' i = Some (mset_bits a b) /\ length p' = length p).
Proof. exact (conj papply_stack_one (conj papply_isub papply_setbits)). Qed.
Print Assumptions C19_pool_steps.

(* m.bits = k; m.bits = k2 >= k: the old elements mod 2^k, zero-extended -- dropped bits never return *)
Theorem C19_bits_narrow_then_widen : forall a k k2 i j, 0 <= k <= k2 ->
  el (mset_bits (mset_bits a k) k2) i j = trunc k (el a i j) /\ bits (mset_bits (mset_bits a k) k2) = k2.
Proof. exact bits_narrow_widen. Qed.
Print Assumptions C19_bits_narrow_then_widen.

(* ---------------------------------------------------------------- non-vacuity *)
Definition exA : Mx := MkMx 3 64 [[1; 2; 3]; [4; 5; 6]].
Definition exB : Mx := MkMx 4 64 [[15; 0; 9]; [7; 7; 1]].
Definition exC : Mx := MkMx 2 64 [[3; 1]; [0; 2]; [3; 3]].
Definition mrangeb (a : Mx) : bool :=
  forallb (forallb (fun x => inrangeb x (bits a))) (dat a).

Example C19_example_shapes :
  wfx 2 3 exA /\ wfx 2 3 exB /\ wfx 3 2 exC /\
  mrangeb exA = true /\ mrangeb exB = true /\ mrangeb exC = true.
Proof. repeat split; try (vm_compute; lia); try reflexivity; repeat constructor. Qed.

Example C19_example_ops :
  out (madd exA exB) = (5, [[16; 2; 12]; [11; 12; 7]], encode 5 [16; 2; 12; 11; 12; 7]) /\
  dat (msub exA exB) = [[0; 2; 0]; [0; 0; 5]] /\
  dat (mmul exA exB) = [[15; 0; 27]; [28; 35; 6]] /\ bits (mmul exA exB) = 7 /\
  out (mmatmul exA exC) = (45, [[12; 14]; [30; 32]], 12 * 2 ^ 135 + 14 * 2 ^ 90 + 30 * 2 ^ 45 + 32) /\
  dat (mtranspose exA) = [[1; 4]; [2; 5]; [3; 6]] /\
  outo (mreshape exA 3 (-1) true) = Some (3, [[1; 5]; [4; 3]; [2; 6]], encode 3 [1; 5; 4; 3; 2; 6]) /\
  dat (msum exA Ax0 None) = [[5; 7; 1]] /\
  dat (margmax exB Ax1 None) = [[0; 0]] /\ dat (margmax exB AxNone None) = [[0]] /\
  matrix_wv_to_list (to_wv exA) 2 3 3 = dat exA /\
  dat (mmatmul (MkMx 3 4 [[7]]) (MkMx 3 4 [[7]])) = [[1]] /\
  outxo (mput_list exA [0; -1; 7; 0] [9; 5] PWrap) = Some (3, [[5; 5; 3]; [4; 5; 5]], encode 3 [5; 5; 3; 4; 5; 5], 64) /\
  mput_list exA [6] [1] PRaise = None /\
  outxo (mdot (mtranspose (MkMx 2 64 [[1; 2; 3]])) (MkMx 3 64 [[4; 5; 6]])) = Some (7, [[32]], 32, 64) /\
  mdot exA exB = None /\
  outx (miadd exA exB) = outx (madd exA exB) /\
  outxo (mhstack [exA; exB; exA]) =
    Some (4, [[1; 2; 3; 15; 0; 9; 1; 2; 3]; [4; 5; 6; 7; 7; 1; 4; 5; 6]],
          encode 4 [1; 2; 3; 15; 0; 9; 1; 2; 3; 4; 5; 6; 7; 7; 1; 4; 5; 6], 64) /\
  mvstack [exA; exC] = None /\
  prun_out [exA; exB] [PProbe 0; PIsub 1 0; PHstack [0%nat]; PSetbits 2 1; PSetbits 2 3] =
    [ [outx exA; outx exB];
      [outx exA; (4, [[14; 0; 6]; [3; 2; 0]], encode 4 [14; 0; 6; 3; 2; 0], 64);
                 (4, [[14; 0; 6]; [3; 2; 0]], encode 4 [14; 0; 6; 3; 2; 0], 64)];
      [outx exA; outx (msub exB exA); outx (msub exB exA); outx exA];
      [outx exA; outx (msub exB exA); (1, [[0; 0; 0]; [1; 0; 0]], 4, 64); outx exA];
      [outx exA; outx (msub exB exA); (3, [[0; 0; 0]; [1; 0; 0]], encode 3 [0; 0; 0; 1; 0; 0], 64); outx exA] ].
Proof. vm_compute. repeat split; reflexivity. Qed.
