(* C01 -- Simulation computes the documented cycle semantics of every primitive.
   Only statements + `exact`; the proofs live in Sim/SimCorrect.v. *)
From PyRTL Require Import Sim.SimModel Sim.OpLemmas Sim.SimCorrect Netlist.Unique.
From Coq Require Import Permutation.

(* One cycle: every declared wire has exactly the reference value and lies in
   [0, 2^bitwidth); the successor states stay related. *)
Theorem C01_step_refines_spec : forall nl dflt st sst ins,
  wfb nl = true ->
  R nl dflt st sst -> legal_ins nl ins -> legal_regs nl (sregs st) ->
  let '(v, st') := step nl dflt st ins in
  let '(v', sst') := sim_step nl dflt sst ins in
  (forall x, In x (wires nl) ->
     v' (wname x) = v (wname x) /\ inrange (v' (wname x)) (width_of nl (wname x)))
  /\ R nl dflt st' sst' /\ legal_regs nl (sregs st').
Proof. exact step_refines_wf. Qed.
Print Assumptions C01_step_refines_spec.

(* Every cycle of every legal input sequence from every legal initial state
   (register_value_map > reset_value > default; memory_value_map > default). *)
Theorem C01_run_refines_spec : forall nl dflt regmap memmap inss,
  wfb nl = true -> legal_init nl dflt regmap -> Forall (legal_ins nl) inss ->
  Forall2 (wires_agree nl)
    (fst (run nl dflt (init_state nl dflt regmap memmap) inss))
    (fst (sim_run nl dflt (sim_init nl dflt regmap memmap) inss)).
Proof. exact sim_refines_spec. Qed.
Print Assumptions C01_run_refines_spec.

(* The per-cycle valuation does not depend on which dependency order of the nets
   Block.__iter__ happened to produce: any two well-formed orders of the same
   nets give every reachable wire the same value. *)
Theorem C01_order_independent : forall nl st l1 l2 rdy v0,
  nets_ok nl rdy l1 = true -> nets_ok nl rdy l2 = true -> Permutation l1 l2 ->
  forall w, In w (fold_left rdy_next l1 rdy) ->
    fold_left (exec_spec nl st) l1 v0 w = fold_left (exec_spec nl st) l2 v0 w.
Proof. exact comb_order_independent. Qed.
Print Assumptions C01_order_independent.

(* The fragments of pyrtl/simulation.py (and WireVector.bitmask) that py/genfrag_C01.py translates
   into Gen/SimExec.v on every run, each shown to be the documented function.  Sim/SimModel.v is
   built from these definitions, so the refinement theorems above are about what the source says
   now; a source edit that changes one of them stops the corresponding theorem below (and with it
   the refinement proof). *)

(* Simulation._sanitize with WireVector.bitmask = reduction mod 2^bitwidth *)
Theorem C01_src_sanitize_is_mod : forall v w, 0 <= w -> sx_sanitize v w = v mod 2 ^ w.
Proof. exact sx_sanitize_mod. Qed.
Print Assumptions C01_src_sanitize_is_mod.

(* the 'c' loop of _execute (start value, body, direction over net.args) = arithmetic concatenation,
   first argument most significant *)
Theorem C01_src_concat_loop : forall args,
  (forall v w, In (v, w) args -> 0 <= w /\ inrange v w) ->
  sim_concat args = concat_spec args.
Proof. exact sim_concat_spec. Qed.
Print Assumptions C01_src_concat_loop.

(* the 's' loop of _execute (start value, body, direction over op_param) : bit j of the result is
   bit op_param[j] of the source *)
Theorem C01_src_select_loop : forall src idx,
  (forall i, In i idx -> 0 <= i) ->
  sim_select src idx = select_spec src idx.
Proof. exact sim_select_spec. Qed.
Print Assumptions C01_src_select_loop.

(* the dict lookup of the 'm' arm: memvalue[memid].get(read_addr, default_value) *)
Theorem C01_src_mem_get : forall d a dflt, sx_mem_get d a dflt = assoc_d d a dflt.
Proof. exact sx_mem_get_spec. Qed.
Print Assumptions C01_src_mem_get.

(* _mem_update stores args[1] at args[0] exactly when args[2] is non-zero *)
Theorem C01_src_mem_write : forall a0 a1 a2,
  sx_mem_write_cond a0 a1 a2 = negb (a2 =? 0)
  /\ sx_mem_write_addr a0 a1 a2 = a0 /\ sx_mem_write_data a0 a1 a2 = a1.
Proof. exact sx_mem_write_spec. Qed.
Print Assumptions C01_src_mem_write.

(* the register capture of step: the next-value argument reduced mod 2^bitwidth of the register *)
Theorem C01_src_reg_capture : forall x w, 0 <= w -> sx_reg_capture x w = x mod 2 ^ w.
Proof. exact sx_reg_capture_mod. Qed.
Print Assumptions C01_src_reg_capture.

(* the register rule of _initialize, regenerated from its three statements, is the documented priority
   register_value_map > reset_value > default_value (the initial state of the reference semantics) *)
Theorem C01_src_init_reg : forall nl dflt regmap w,
  sx_init_reg (assoc regmap w) (reset_of nl w) dflt = init_reg nl dflt regmap w.
Proof. exact sx_init_reg_spec. Qed.
Print Assumptions C01_src_init_reg.

(* the memory rule of _initialize: the caller's map when given, else an empty dict, read with the default *)
Theorem C01_src_init_mem : forall (memmap : list (Z * list (Z * Z))) m a dflt,
  assoc_d (sx_init_mem (match find (fun p => fst p =? m) memmap with Some (_, d) => Some d | None => None end)) a dflt
  = match find (fun p => fst p =? m) memmap with Some (_, d) => assoc_d d a dflt | None => dflt end.
Proof. exact sx_init_mem_spec. Qed.
Print Assumptions C01_src_init_mem.

(* Non-vacuity: a design with a register (reset 5), a truncating subtract, a
   nand, a concat, a select and a memory satisfies wfb; both sides compute the
   same 3-cycle trace. *)
Definition ex_nl : netlist :=
  {| wires := [ mkWire 1 3 KInput; mkWire 2 3 (KReg (Some 5)); mkWire 3 3 KWire;
                mkWire 4 3 KWire; mkWire 5 6 KWire; mkWire 6 2 KOutput;
                mkWire 7 1 (KConst 1); mkWire 8 3 KWire ];
     nets := [ mkNet OpSub [1; 2] 3; mkNet OpNand [1; 3] 4; mkNet OpConcat [3; 4] 5;
               mkNet (OpSelect [5; 0]) [5] 6; mkNet (OpMemRd 0) [4] 8;
               mkNet (OpMemWr 0) [1; 3; 7] 0; mkNet OpReg [8] 2 ];
     mems := [ mkMem 0 3 3 None ] |}.

Example C01_example_wf : wfb ex_nl = true.
Proof. vm_compute. reflexivity. Qed.

Definition ex_ins : list (wid -> Z) :=
  [ (fun _ => 3); (fun _ => 7); (fun _ => 0) ].

Definition ex_probe (vs : list (wid -> Z)) : list (list Z) :=
  map (fun v => map v [1; 2; 3; 4; 5; 6; 8]) vs.

Example C01_example_trace :
  ex_probe (fst (sim_run ex_nl 0 (sim_init ex_nl 0 [] []) ex_ins))
  = ex_probe (fst (run ex_nl 0 (init_state ex_nl 0 [] []) ex_ins))
  /\ ex_probe (fst (run ex_nl 0 (init_state ex_nl 0 [] []) ex_ins))
     = [[3; 5; 6; 5; 53; 3; 0]; [7; 0; 7; 0; 56; 1; 0]; [0; 0; 0; 7; 7; 2; 7]].
Proof. vm_compute. split; reflexivity. Qed.
