(* C14 -- multiplexing and bit-manipulation helpers select exactly the documented bits. *)
From Coq Require Import ZArith List String.
From PyRTL Require Import Front.SliceC14 Front.Mux Front.Struct Front.C14Harness.
Import ListNotations. Open Scope Z_scope.

Example C14_example_mux :
  t_mux [2;2]%nat (SW 0) [SW 1; SC 3 5; SC 1 1] (Some (SC 1 0)) <> None.
Proof. vm_compute. discriminate. Qed.
