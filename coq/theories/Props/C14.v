(* C14 -- multiplexing and bit-manipulation helpers select exactly the documented bits.
   Only statements + `exact`.  Models (definitions only, evaluated by the harness and compared with
   the real helpers on every run): Front/{SliceC14,Mux,BarrelC14,Bitfield,Pattern,Struct}.v;
   proofs: Front/{SliceC14,Mux,BarrelC14,Bitfield,Pattern,Struct}Proofs.v.
   A wire value is a bit list, LSB first; bitwidth = length; `None` = the helper raises.
   All statements are for ALL widths, shapes and values. *)
From Coq Require Import ZArith List Bool Ascii String Permutation.
From PyRTL Require Import Base.PyZ Front.SliceC14 Front.Mux Front.BarrelC14 Front.Bitfield Front.Pattern
     Front.Struct Front.C14Harness Front.SliceC14Proofs Front.MuxProofs Front.BitfieldProofs
     Front.BarrelC14Proofs Front.PatternProofs Front.StructProofs.
Import ListNotations. Open Scope Z_scope.

(* ================= mux / select ================= *)
(* the input addressed by the index; the default only for index values beyond the list;
   result zero-extended to the longest (padded) input *)
Theorem C14_mux_selects : forall idx ins dflt r,
  mux idx ins dflt = Some r ->
  let k := Z.to_nat (to_Z idx) in
  let chosen := if Nat.ltb k (length ins) then nth k ins []
                else match dflt with Some d => d | None => [] end in
  (1 <= length idx)%nat /\
  length (mux_pad (length idx) ins dflt) = (2 ^ length idx)%nat /\
  r = zext (maxlen (mux_pad (length idx) ins dflt)) chosen /\
  to_Z r = to_Z chosen /\
  (k < length ins \/ dflt <> None)%nat.
Proof. exact mux_selects. Qed.
Print Assumptions C14_mux_selects.

(* it raises exactly when the (padded) input count is not 2 ** len(index) *)
Theorem C14_mux_arity : forall idx ins dflt,
  mux idx ins dflt <> None <->
  (1 <= length idx)%nat /\ length (mux_pad (length idx) ins dflt) = (2 ^ length idx)%nat.
Proof. exact mux_arity. Qed.
Print Assumptions C14_mux_arity.

Theorem C14_select : forall s t f,
  to_Z (select s t f) = (if s then to_Z t else to_Z f) /\
  length (select s t f) = Nat.max (length f) (length t).
Proof. exact select_spec. Qed.
Print Assumptions C14_select.

(* ================= sparse_mux / enum_mux / MultiSelector ================= *)
(* tags_ok: wires the code judges equivalent (`is`, or equal Consts) carry the same bits *)
Theorem C14_sparse_mux_listed : forall sel vals dflt r k v,
  NoDup (map fst vals) ->
  tags_ok (sparse_fill (length sel) vals dflt) ->
  sparse_mux sel vals dflt = Some r ->
  In (k, v) vals -> to_Z sel = k -> to_Z (wbits r) = to_Z (wbits v).
Proof. exact sparse_mux_listed. Qed.
Print Assumptions C14_sparse_mux_listed.

Theorem C14_sparse_mux_default : forall sel vals d r,
  NoDup (map fst vals) ->
  tags_ok (sparse_fill (length sel) vals (Some d)) ->
  sparse_mux sel vals (Some d) = Some r ->
  lookup (to_Z sel) vals = None -> to_Z (wbits r) = to_Z (wbits d).
Proof. exact sparse_mux_default. Qed.
Print Assumptions C14_sparse_mux_default.

Theorem C14_enum_mux_spec : forall cntrl members table dflt strict r,
  enum_mux cntrl members table dflt strict = Some r ->
  sparse_mux cntrl (enum_vals table) (enum_default table dflt) = Some r /\
  (enum_default table dflt = dflt \/ dflt = None) /\
  (strict = true -> enum_default table dflt = None ->
   forall m, In m members -> lookup m (enum_vals table) <> None).
Proof. exact enum_mux_spec. Qed.
Print Assumptions C14_enum_mux_spec.

Theorem C14_multiselector_option : forall sel dws opts rs j k data,
  multiselector sel dws opts = Some rs ->
  (j < length dws)%nat ->
  tags_ok (sparse_fill (length sel) (ms_vals opts (nth j dws 0%nat) j) (ms_dflt opts (nth j dws 0%nat) j)) ->
  In (Some k, data) opts -> to_Z sel = k ->
  to_Z (nth j rs []) = to_Z (wbits (nth j data (mkW None []))) mod 2 ^ Z.of_nat (nth j dws 0%nat).
Proof. exact multiselector_option. Qed.
Print Assumptions C14_multiselector_option.

Theorem C14_multiselector_default : forall sel dws opts rs j d,
  multiselector sel dws opts = Some rs ->
  (j < length dws)%nat ->
  ms_dflt opts (nth j dws 0%nat) j = Some d ->
  tags_ok (sparse_fill (length sel) (ms_vals opts (nth j dws 0%nat) j) (Some d)) ->
  lookup (to_Z sel) (ms_vals opts (nth j dws 0%nat) j) = None ->
  to_Z (nth j rs []) = to_Z (wbits d) mod 2 ^ Z.of_nat (nth j dws 0%nat).
Proof. exact multiselector_default. Qed.
Print Assumptions C14_multiselector_default.

(* ================= prioritized_mux ================= *)
Theorem C14_prioritized_mux_first_high : forall sels vals r,
  prioritized_mux sels vals = Some r ->
  length sels = length vals /\ vals <> [] /\
  to_Z r = to_Z (nth (first_high sels) vals []) /\ length r = maxlen vals.
Proof. exact prioritized_mux_first_high. Qed.
Print Assumptions C14_prioritized_mux_first_high.

(* first_high = index of the first high select, the last index if none is high *)
Theorem C14_first_high_meaning : forall sels, sels <> [] ->
  let k := first_high sels in
  (forall j, (j < k)%nat -> nth j sels false = false) /\
  (nth k sels false = true \/
   (k = length sels - 1)%nat /\ forall j, (j < length sels)%nat -> nth j sels false = false).
Proof. exact first_high_spec. Qed.
Print Assumptions C14_first_high_meaning.

(* ================= demux ================= *)
Theorem C14_demux_one_hot : forall sel, (1 <= length sel)%nat ->
  length (demux sel) = (2 ^ length sel)%nat /\
  forall j, (j < 2 ^ length sel)%nat -> nth j (demux sel) false = (to_Z sel =? Z.of_nat j).
Proof. exact demux_one_hot. Qed.
Print Assumptions C14_demux_one_hot.

(* ================= barrel_shifter ================= *)
(* s = the FULL value of shift_dist (also when it is wider than log2(width)); bit j of the result is
   bit j-s (dir=1, up) resp. j+s (dir=0, down) of the input when that bit exists, else bit_in *)
Theorem C14_barrel_full_shift : forall x b dir sd,
  (1 <= length x)%nat ->
  let r := barrel_shifter x [b] dir sd in
  length r = length x /\
  forall j, (j < length x)%nat -> nth j r false = shift_bit x b dir (Z.to_nat (to_Z sd)) j.
Proof. exact barrel_full_shift. Qed.
Print Assumptions C14_barrel_full_shift.

Theorem C14_barrel_full_shift_eq : forall x b dir sd,
  (1 <= length x)%nat ->
  barrel_shifter x [b] dir sd = shift_spec x b dir (Z.to_nat (to_Z sd)).
Proof. exact barrel_full_shift_eq. Qed.
Print Assumptions C14_barrel_full_shift_eq.

(* ================= bitfield_update(_set) ================= *)
(* idx = Python's range(len(w))[s:e]; bit j of the new value lands on idx[j];
   every bit of w outside idx is unchanged; the bitwidth is unchanged *)
Theorem C14_bitfield_update_spec : forall w s e nv tr r,
  bitfield_update w s e nv tr = Some r ->
  let idx := pyslice (seq 0 (length w)) s e in
  idx <> [] /\ length r = length w /\
  (length nv <= length idx \/ tr = true)%nat /\
  (forall j, (j < length idx)%nat -> nth (nth j idx 0%nat) r false = nth j nv false) /\
  (forall i, ~ In i idx -> nth i r false = nth i w false).
Proof. exact bitfield_update_spec. Qed.
Print Assumptions C14_bitfield_update_spec.

(* Python int new value of either sign: the field receives the two's complement of v AT THE FIELD
   WIDTH (bit j of the field = bit j of v, so a negative value sign-fills the field); without
   truncating it must fit in [-2^(m-1), 2^m) *)
Theorem C14_bitfield_update_int_spec : forall w s e v tr r,
  bitfield_update_int w s e v tr = Some r ->
  let idx := pyslice (seq 0 (length w)) s e in
  idx <> [] /\ length r = length w /\
  (tr = true \/ - 2 ^ (Z.of_nat (length idx) - 1) <= v < 2 ^ Z.of_nat (length idx)) /\
  (forall j, (j < length idx)%nat -> nth (nth j idx 0%nat) r false = Z.testbit v (Z.of_nat j)) /\
  (forall i, ~ In i idx -> nth i r false = nth i w false).
Proof. exact bitfield_update_int_spec. Qed.
Print Assumptions C14_bitfield_update_int_spec.

(* an int that converts acts exactly as the wire holding its field-width two's complement bits
   (so every wire-valued theorem, incl. the set theorems, applies to int entries through this) *)
Theorem C14_bitfield_update_int_as_wire : forall w s e v tr,
  bitfield_update_int w s e v tr =
  match conv_int v tr (length (pyslice (seq 0 (length w)) s e)) with
  | Some b => bitfield_update w s e b false
  | None => None
  end.
Proof. exact bitfield_update_int_as_wire. Qed.
Print Assumptions C14_bitfield_update_int_as_wire.

Theorem C14_bitfield_update_set_nv_wires : forall w ups tr,
  bitfield_update_set_nv w (map (fun u => (fst u, NVw (snd u))) ups) tr = bitfield_update_set w ups tr.
Proof. exact bitfield_update_set_nv_wires. Qed.
Print Assumptions C14_bitfield_update_set_nv_wires.

Theorem C14_bitfield_update_set_nv_int_step : forall w sl s e v tr rest,
  bfus_rec_nv w sl (((s, e), NVi v) :: rest) tr =
  if existsb (fun b : bool => b) (pyslice sl s e) then None else
  match conv_int v tr (length (pyslice (seq 0 (length w)) s e)) with
  | None => None
  | Some b => match bitfield_update w s e b false with
              | None => None
              | Some w' => bfus_rec_nv w' (set_slice sl s e) rest tr
              end
  end.
Proof. exact bitfield_update_set_nv_int_step. Qed.
Print Assumptions C14_bitfield_update_set_nv_int_step.

(* the addressed indices form the contiguous run [a, b) given by the slice bounds *)
Theorem C14_slice_indices : forall n s e,
  pyslice (seq 0 n) s e =
  seq (fst (slice_bounds n s e)) (snd (slice_bounds n s e) - fst (slice_bounds n s e)).
Proof. exact pyslice_seq. Qed.
Print Assumptions C14_slice_indices.

(* non-empty pairwise disjoint ranges (else it raises); each receives its value;
   bits outside all ranges unchanged *)
Theorem C14_bitfield_update_set_spec : forall w ups tr r,
  bitfield_update_set w ups tr = Some r ->
  length r = length w /\
  (forall u, In u ups ->
     let idx := idx_of (length w) u in
     idx <> [] /\ (length (snd u) <= length idx \/ tr = true)%nat /\
     (forall j, (j < length idx)%nat -> nth (nth j idx 0%nat) r false = nth j (snd u) false)) /\
  (forall i, (forall u, In u ups -> ~ In i (idx_of (length w) u)) -> nth i r false = nth i w false) /\
  ForallOrdPairs (fun u1 u2 => forall i, In i (idx_of (length w) u1) -> ~ In i (idx_of (length w) u2)) ups.
Proof. exact bitfield_update_set_spec. Qed.
Print Assumptions C14_bitfield_update_set_spec.

(* overlap = non-empty intersection of the addressed bit sets, whatever the dictionary order *)
Theorem C14_bitfield_update_set_disjoint : forall w ups tr r,
  bitfield_update_set w ups tr = Some r ->
  forall u1 u2, In u1 ups -> In u2 ups -> u1 <> u2 ->
  forall i, In i (idx_of (length w) u1) -> ~ In i (idx_of (length w) u2).
Proof. exact bitfield_update_set_disjoint. Qed.
Print Assumptions C14_bitfield_update_set_disjoint.

Theorem C14_bitfield_update_set_overlap_raises : forall w ups tr u1 u2 i,
  In u1 ups -> In u2 ups -> u1 <> u2 ->
  In i (idx_of (length w) u1) -> In i (idx_of (length w) u2) ->
  bitfield_update_set w ups tr = None.
Proof. exact bitfield_update_set_overlap_raises. Qed.
Print Assumptions C14_bitfield_update_set_overlap_raises.

(* non-empty, fitting, pairwise disjoint ranges are accepted ... *)
Theorem C14_bitfield_update_set_ok : forall w ups tr,
  (forall u, In u ups ->
     idx_of (length w) u <> [] /\ (length (snd u) <= length (idx_of (length w) u) \/ tr = true)%nat) ->
  ForallOrdPairs (fun u1 u2 => forall i, In i (idx_of (length w) u1) -> ~ In i (idx_of (length w) u2)) ups ->
  bitfield_update_set w ups tr <> None.
Proof. exact bitfield_update_set_ok. Qed.
Print Assumptions C14_bitfield_update_set_ok.

(* ... so acceptance and the result are both independent of the dictionary order *)
Theorem C14_bitfield_update_set_order_independent : forall w ups ups' tr,
  Permutation ups ups' -> NoDup ups ->
  bitfield_update_set w ups tr <> None -> bitfield_update_set w ups' tr <> None.
Proof. exact bitfield_update_set_order_independent. Qed.
Print Assumptions C14_bitfield_update_set_order_independent.

Theorem C14_bitfield_update_set_perm : forall w ups ups' tr r r',
  Permutation ups ups' ->
  bitfield_update_set w ups tr = Some r -> bitfield_update_set w ups' tr = Some r' -> r = r'.
Proof. exact bitfield_update_set_perm. Qed.
Print Assumptions C14_bitfield_update_set_perm.

(* ================= match_bitpattern ================= *)
(* ns = the pattern with '_' and whitespace removed (match_bitpattern w pat = match_bits w (strip pat));
   matched = 1 <-> every position holding 0/1 agrees with the wire (positions counted from the lsb) *)
Theorem C14_match_bitpattern_matched : forall w ns m fs,
  match_bits w ns = Some (m, fs) ->
  length w = length ns /\
  (m = true <->
   forall i, (i < length w)%nat ->
     (nth i (rev ns) "?"%char = "1"%char -> nth i w false = true) /\
     (nth i (rev ns) "?"%char = "0"%char -> nth i w false = false)).
Proof. exact match_bits_matched. Qed.
Print Assumptions C14_match_bitpattern_matched.

(* fields: one per letter (not 0/1/?), letters in first-occurrence order (dedup), each field read
   msb-first = the wire bits standing under that letter, left to right *)
Theorem C14_match_bitpattern_fields : forall w ns m fs,
  match_bits w ns = Some (m, fs) ->
  map fst fs = dedup (filter is_field ns) /\
  NoDup (map fst fs) /\
  (forall c, In c (map fst fs) <-> In c ns /\ is_field c = true) /\
  (forall c bs, In (c, bs) fs ->
     rev bs = map snd (filter (fun p => Ascii.eqb (fst p) c) (combine ns (rev w)))).
Proof. exact match_bits_fields. Qed.
Print Assumptions C14_match_bitpattern_fields.

Theorem C14_match_bitpattern_strip : forall w pat,
  match_bitpattern w pat = match_bits w (strip (list_ascii_of_string pat)).
Proof. exact match_bitpattern_unfold. Qed.
Print Assumptions C14_match_bitpattern_strip.

(* field_map: the match bit and the fields (positionally, in the order their letters first appear in the
   pattern) are those of the call without a map, only the names are replaced; the order in which the
   map's keys are written plays no role; it raises exactly when a field letter is not a key *)
Theorem C14_match_bitpattern_field_map : forall w ns fm m l,
  match_bits_fm w ns fm = Some (m, l) ->
  exists fs, match_bits w ns = Some (m, fs) /\
             map snd l = map snd fs /\
             map (fun cf => fm_lookup fm (fst cf)) fs = map (fun nl => Some (fst nl)) l.
Proof. exact match_bits_fm_spec. Qed.
Print Assumptions C14_match_bitpattern_field_map.

Theorem C14_match_bitpattern_field_map_order : forall w ns fm fm',
  NoDup (map fst fm) -> Permutation fm fm' -> match_bits_fm w ns fm = match_bits_fm w ns fm'.
Proof. exact match_bits_fm_perm. Qed.
Print Assumptions C14_match_bitpattern_field_map_order.

Theorem C14_match_bitpattern_field_map_raises : forall w ns fm,
  match_bits_fm w ns fm = None <->
  length w <> length ns \/ exists c, In c ns /\ is_field c = true /\ ~ In c (map fst fm).
Proof. exact match_bits_fm_raises. Qed.
Print Assumptions C14_match_bitpattern_field_map_raises.

(* ================= chop / partition_wire ================= *)
Theorem C14_chop_spec : forall w ws ps, chop w ws = Some ps ->
  sum_nat ws = length w /\ length ps = length ws /\
  (forall i, (i < length ws)%nat ->
     nth i ps [] = firstn (nth i ws 0%nat) (skipn (sum_nat (skipn (S i) ws)) w) /\
     length (nth i ps []) = nth i ws 0%nat /\ (1 <= nth i ws 0)%nat) /\
  concat_msb ps = w.
Proof. exact chop_spec. Qed.
Print Assumptions C14_chop_spec.

Theorem C14_partition_wire_spec : forall w size ps, partition_wire w size = Some ps ->
  (1 <= size)%nat /\ Nat.modulo (length w) size = 0%nat /\ length ps = (length w / size)%nat /\
  (forall k, (k < length w / size)%nat ->
     nth k ps [] = firstn size (skipn (k * size) w) /\ length (nth k ps []) = size) /\
  concat_lsb ps = w.
Proof. exact partition_wire_spec. Qed.
Print Assumptions C14_partition_wire_spec.

(* ================= wire_struct / wire_matrix ================= *)
(* slicing mode: the instance is the value; it is well sliced at every nesting level (each node has
   sbw bits and is the msb-first concatenation of its components); component i is exactly the range
   [sum of widths of later components, + own width); components are themselves sliced instances *)
Theorem C14_struct_slice_spec : forall s v, length v = sbw s ->
  croot (slice_comp s v) = v /\
  well_sliced s (slice_comp s v) /\
  (forall i, (i < length (children s))%nat ->
     croot (nth i (ckids (slice_comp s v)) (CNode [] [])) =
     firstn (sbw (nth i (children s) (SLeaf 0))) (skipn (sumbw (skipn (S i) (children s))) v)) /\
  Forall2 (fun c k => k = slice_comp c (croot k)) (children s) (ckids (slice_comp s v)).
Proof. exact struct_slice_spec. Qed.
Print Assumptions C14_struct_slice_spec.

(* concatenation mode *)
Theorem C14_struct_concat_spec : forall s vals t,
  concat_comp s vals = Some t ->
  length vals = length (children s) /\
  (Forall2 (fun c v => length v = sbw c) (children s) vals -> children s <> [] ->
   croot t = concat_msb vals /\ map croot (ckids t) = vals /\ well_sliced s t).
Proof. exact struct_concat_spec. Qed.
Print Assumptions C14_struct_concat_spec.

(* concatenation mode, drivers of ANY width: `component <<= driver` truncates / zero-extends each
   driver to its declared field width (resize); the components read back are these normalised wires
   and the whole is THEIR msb-first concatenation (not the raw drivers'), hence every component is
   again exactly its bit range of the whole (well_sliced) *)
Theorem C14_struct_concat_norm : forall s vals t,
  concat_comp s vals = Some t -> children s <> [] ->
  map croot (ckids t) = norm_vals (children s) vals /\
  croot t = concat_msb (norm_vals (children s) vals) /\
  length (croot t) = sbw s /\
  well_sliced s t.
Proof. exact struct_concat_norm. Qed.
Print Assumptions C14_struct_concat_norm.

(* ================= WrappedWireVector forwarding (the cross family's Coq side) =================
   A helper that starts with as_wires(instance) sees the instance's concatenated wire (croot); that
   wire is the msb-first concatenation of the component wires, so ANY helper H on "the components
   concatenated" is H on the plain wire -- for both construction modes and at every nesting level. *)
Theorem C14_wrapped_forwarding : forall (A : Type) (H : bits -> A) s t,
  well_sliced s t -> children s <> [] -> H (inst_view t) = H (as_wires_inst t).
Proof. exact wrapped_forwarding. Qed.
Print Assumptions C14_wrapped_forwarding.

Theorem C14_instance_view_slice : forall s v, length v = sbw s -> children s <> [] ->
  as_wires_inst (slice_comp s v) = v /\ inst_view (slice_comp s v) = v.
Proof. exact instance_view_slice. Qed.
Print Assumptions C14_instance_view_slice.

Theorem C14_instance_view_concat : forall s vals t, concat_comp s vals = Some t -> children s <> [] ->
  as_wires_inst t = concat_msb (norm_vals (children s) vals) /\ inst_view t = as_wires_inst t.
Proof. exact instance_view_concat. Qed.
Print Assumptions C14_instance_view_concat.

(* a component reached by any path of component indices is exactly the bit range
   [lo, lo + width) of the instance's wire (lo = widths of all later siblings along the path)
   and is itself a sliced instance: a helper on the component = the helper on that plain slice *)
Theorem C14_component_at_path : forall p s v node lo,
  length v = sbw s -> path_range s p = Some (node, lo) ->
  exists t, cpath (slice_comp s v) p = Some t /\
            croot t = firstn (sbw node) (skipn lo v) /\
            t = slice_comp node (croot t) /\
            (lo + sbw node <= sbw s)%nat.
Proof. exact component_at_path. Qed.
Print Assumptions C14_component_at_path.

(* ================= shift_* with a Python int amount ================= *)
Theorem C14_sll_const_spec : forall x k r, (0 <= k)%nat -> sll_const x (Z.of_nat k) = Some r ->
  (0 < k < length x)%nat /\ r = shift_spec x false true k.
Proof. exact sll_const_spec. Qed.
Print Assumptions C14_sll_const_spec.

Theorem C14_srl_const_spec : forall x k r, srl_const x (Z.of_nat k) = Some r ->
  (k < length x)%nat /\ r = shift_spec x false false k.
Proof. exact srl_const_spec. Qed.
Print Assumptions C14_srl_const_spec.

Theorem C14_sra_const_spec : forall x k r, sra_const x (Z.of_nat k) = Some r ->
  (k < length x)%nat /\ r = shift_spec x (last x false) false k.
Proof. exact sra_const_spec. Qed.
Print Assumptions C14_sra_const_spec.

(* ================= no spurious errors: documented uses do not raise ================= *)
Theorem C14_sparse_mux_ok : forall sel vals dflt,
  (1 <= length sel)%nat -> NoDup (map fst vals) ->
  (forall k v, In (k, v) vals -> 0 <= k <= 2 ^ Z.of_nat (length sel) - 1) ->
  (vals <> [] \/ dflt <> None) ->
  sparse_mux sel vals dflt <> None.
Proof. exact sparse_mux_ok. Qed.
Print Assumptions C14_sparse_mux_ok.

Theorem C14_enum_mux_listed : forall cntrl members table dflt strict r k v,
  enum_mux cntrl members table dflt strict = Some r ->
  NoDup (map fst (enum_vals table)) ->
  tags_ok (sparse_fill (length cntrl) (enum_vals table) (enum_default table dflt)) ->
  In (Some k, v) table -> to_Z cntrl = k -> to_Z (wbits r) = to_Z (wbits v).
Proof. exact enum_mux_listed. Qed.
Print Assumptions C14_enum_mux_listed.

Theorem C14_enum_mux_default : forall cntrl members table dflt strict r d,
  enum_mux cntrl members table dflt strict = Some r ->
  NoDup (map fst (enum_vals table)) ->
  enum_default table dflt = Some d ->
  tags_ok (sparse_fill (length cntrl) (enum_vals table) (Some d)) ->
  lookup (to_Z cntrl) (enum_vals table) = None -> to_Z (wbits r) = to_Z (wbits d).
Proof. exact enum_mux_default. Qed.
Print Assumptions C14_enum_mux_default.

Theorem C14_prioritized_mux_ok : forall sels vals,
  length sels = length vals -> vals <> [] -> prioritized_mux sels vals <> None.
Proof. exact prioritized_mux_ok. Qed.
Print Assumptions C14_prioritized_mux_ok.

Theorem C14_bitfield_update_ok : forall w s e nv tr,
  pyslice (seq 0 (length w)) s e <> [] ->
  (length nv <= length (pyslice (seq 0 (length w)) s e) \/ tr = true)%nat ->
  bitfield_update w s e nv tr <> None.
Proof. exact bitfield_update_ok. Qed.
Print Assumptions C14_bitfield_update_ok.

Theorem C14_match_bitpattern_ok : forall w ns, match_bits w ns <> None <-> length w = length ns.
Proof. exact match_bits_ok. Qed.
Print Assumptions C14_match_bitpattern_ok.

Theorem C14_chop_ok : forall w ws,
  sum_nat ws = length w -> (forall i, (i < length ws)%nat -> (1 <= nth i ws 0)%nat) -> chop w ws <> None.
Proof. exact chop_ok. Qed.
Print Assumptions C14_chop_ok.

Theorem C14_partition_wire_ok : forall w size,
  (1 <= size)%nat -> Nat.modulo (length w) size = 0%nat -> partition_wire w size <> None.
Proof. exact partition_wire_ok. Qed.
Print Assumptions C14_partition_wire_ok.

(* ================= non-vacuity: every hypothesis is satisfiable on a non-trivial instance ================= *)
Example C14_example_mux :
  option_map to_Z (mux [false; true] [[true]; [true; false; true]; [true; true]] (Some [false; true])) = Some 3 /\
  option_map to_Z (mux [true; true] [[true]; [true; false; true]; [true; true]] (Some [false; true])) = Some 2 /\
  mux [true; true] [[true]; [true; false; true]; [true; true]] None = None.
Proof. vm_compute. repeat split; reflexivity. Qed.

Example C14_example_sparse :
  let vals := [(0, mkW (Some 1) [true; false]); (5, mkW (Some 2) [true; true]); (6, mkW (Some 1) [true; false])] in
  NoDup (map fst vals) /\
  option_map (fun r => to_Z (wbits r)) (sparse_mux [true; false; true] vals (Some (mkW (Some 3) [false]))) = Some 3 /\
  option_map (fun r => to_Z (wbits r)) (sparse_mux [true; true; true] vals (Some (mkW (Some 3) [false]))) = Some 0.
Proof. vm_compute. repeat split; try reflexivity. repeat constructor; cbn; intuition discriminate. Qed.

Example C14_example_enum_multi :
  option_map (fun r => to_Z (wbits r))
    (enum_mux [false; true] [1; 2] [(Some 1, mkW (Some 0) [true; true]); (None, mkW (Some 1) [false; true])] None true)
    = Some 2 /\
  option_map (map to_Z)
    (multiselector [true; false] [2; 1]%nat
       [(Some 1, [mkW (Some 0) [true; true; true]; mkW (Some 1) [true]]); (None, [mkW (Some 2) [false]; mkW (Some 3) [false]])])
    = Some [3; 1].
Proof. vm_compute. split; reflexivity. Qed.

Example C14_example_pmux_demux :
  option_map to_Z (prioritized_mux [false; true; true] [[true]; [false; true]; [true; true]]) = Some 2 /\
  demux [false; true] = [false; false; true; false].
Proof. vm_compute. split; reflexivity. Qed.

Example C14_example_barrel :
  to_Z (barrel_shifter (of_Z 5 19) [true] true (of_Z 4 2)) = 15 /\
  to_Z (barrel_shifter (of_Z 5 19) [false] false (of_Z 4 9)) = 0 /\
  option_map to_Z (sll_const (of_Z 5 19) 2) = Some 12 /\ option_map to_Z (srl_const (of_Z 5 19) 1) = Some 9 /\
  option_map to_Z (sra_const (of_Z 5 19) 1) = Some 25 /\ sll_const (of_Z 5 19) 5 = None.
Proof. vm_compute. repeat split; reflexivity. Qed.

Example C14_example_path :
  path_range (SStruct [SLeaf 1; SMatrix (SStruct [SLeaf 1; SLeaf 2]) 2; SLeaf 1]) [1; 0; 1]%nat
    = Some (SLeaf 2, 4%nat) /\
  option_map (fun t => to_Z (croot t))
    (cpath (slice_comp (SStruct [SLeaf 1; SMatrix (SStruct [SLeaf 1; SLeaf 2]) 2; SLeaf 1]) (of_Z 8 (3 * 16))) [1; 0; 1]%nat)
    = Some 3.
Proof. vm_compute. split; reflexivity. Qed.

Example C14_example_bitfield :
  option_map to_Z (bitfield_update (of_Z 6 0) (Some (-4)) (Some 5) (of_Z 3 7) false) = Some 28 /\
  option_map to_Z (bitfield_update_set (of_Z 6 63) [((None, Some 1), [false]); ((Some 4, None), [true; false])] false)
    = Some 30 /\
  bitfield_update_set (of_Z 6 63) [((None, Some 2), [false]); ((Some 1, None), [true; false])] false = None /\
  (* a later range that strictly encloses an earlier one is an overlap too *)
  bitfield_update_set (of_Z 8 0) [((Some 3, Some 5), [true; true]); ((Some 1, Some 8), of_Z 7 0)] false = None /\
  bitfield_update_set (of_Z 6 0) [((Some (-4), Some (-2)), [true; true]); ((Some 2, None), of_Z 4 0)] false = None /\
  option_map to_Z (bitfield_update_int (of_Z 4 0) (Some 0) (Some 2) 7 true) = Some 3 /\
  (* negative ints are sign-filled to the field width; -3 in 8 bits is 0xFD *)
  option_map to_Z (bitfield_update_int (of_Z 12 0) (Some 4) (Some 12) (-3) true) = Some (253 * 16) /\
  option_map to_Z (bitfield_update_int (of_Z 12 0) (Some 4) (Some 12) (-3) false) = Some (253 * 16) /\
  bitfield_update_int (of_Z 4 0) (Some 0) (Some 2) (-3) false = None /\
  option_map to_Z (bitfield_update_set_nv (of_Z 8 0) [((Some 0, Some 2), NVi (-1)); ((Some 4, Some 8), NVi (-3))] true)
    = Some 211 /\
  bitfield_update_int (of_Z 4 0) (Some 0) (Some 2) 7 false = None.
Proof. vm_compute. repeat split; reflexivity. Qed.

Example C14_example_pattern :
  match_bitpattern (of_Z 6 37) "1a_0? ba"%string
  = Some (true, [("a"%char, [true; false]); ("b"%char, [false])]) /\
  match_bitpattern_fm (of_Z 6 37) "1a_0? ba"%string [("b"%char, "bar"%string); ("a"%char, "foo"%string)]
  = Some (true, [("foo"%string, [true; false]); ("bar"%string, [false])]) /\
  match_bitpattern_fm (of_Z 6 37) "1a_0? ba"%string [("b"%char, "bar"%string)] = None.
Proof. vm_compute. repeat split; reflexivity. Qed.

Example C14_example_chop_struct :
  option_map (map to_Z) (chop (of_Z 6 45) [1; 3; 2]%nat) = Some [1; 3; 1] /\
  option_map (map to_Z) (partition_wire (of_Z 6 45) 2) = Some [1; 3; 2] /\
  map to_Z (cflat (slice_comp (SStruct [SLeaf 1; SMatrix (SLeaf 2) 2; SLeaf 1]) (of_Z 6 45))) = [45; 1; 6; 1; 2; 1] /\
  (* a 2-bit driver into a 3-bit field and a 5-bit driver into a 2-bit field *)
  option_map (fun t => map to_Z (cflat t)) (concat_comp (SStruct [SLeaf 3; SLeaf 2]) [of_Z 2 3; of_Z 5 30])
    = Some [14; 3; 2].
Proof. vm_compute. repeat split; reflexivity. Qed.
