(* C07 -- conditional_assignment gives each target its unique active branch's value.
   Only statements + `exact`; the model is Front/Cond.v (elaborator state machine of
   pyrtl/conditional.py), the specification is Front/CondSpec.v (direct tree interpreter),
   the proofs live in Front/CondProofs.v.
   All statements quantify over ALL condition trees (any depth, any sibling chains, any
   otherwise placement, any sharing of predicates, any number of targets), all declared
   defaults and all environments (predicate values, data values, register values). *)
From Coq Require Import ZArith List Bool.
From PyRTL Require Import Front.Cond Front.CondSpec Front.CondProofs Front.CondWidth.
Import ListNotations.
Open Scope Z_scope.

(* 1. For an accepted program, the (select, rhs) list _predicate_map holds for a target is,
      in assignment order, the list of its assignments and every select wire evaluates to
      "this branch is active" of the tree interpreter (predicate holds, all enclosing branches
      active, no earlier sibling since the last otherwise taken). *)
Theorem C07_select_is_activity : forall prog s,
  elab_forest prog init_st = Some s ->
  forall rho l,
    map (fun sp => (snd sp, beval rho (fst sp))) (am_get (pmap s) l) = flags_for rho prog l.
Proof. exact select_is_activity. Qed.
Print Assumptions C07_select_is_activity.

(* 2. Soundness of the syntactic conflict check: in a program that passes it, under every
      valuation at most one assigning branch of each target is active. *)
Theorem C07_accepted_implies_exclusive : forall prog d res,
  elab prog d = Some res ->
  forall rho l, (length (active_for rho prog l) <= 1)%nat.
Proof. exact accepted_exclusive_elab. Qed.
Print Assumptions C07_accepted_implies_exclusive.

(* 3. The elaborator raises PyrtlError (None) exactly when the program is not accepted by the
      syntactic criterion read off the tree: some assignment is under no predicate, or two
      assignments to one target have path conditions without a complementary literal. *)
Theorem C07_rejects_iff_not_syntactically_exclusive : forall prog d,
  elab prog d = None <-> spec_accepts prog = false.
Proof. exact elab_none_iff. Qed.
Print Assumptions C07_rejects_iff_not_syntactically_exclusive.

Theorem C07_rejects_non_exclusive : forall prog d l la lb a b c,
  slits prog = a ++ (l, la) :: b ++ (l, lb) :: c ->
  syn_excl la lb = false ->
  elab prog d = None.
Proof. exact rejects_non_exclusive. Qed.
Print Assumptions C07_rejects_non_exclusive.

(* 3'. The criterion is semantically grounded: exclusive path conditions never hold together,
       and (for independent predicates) two satisfiable path conditions that are not
       syntactically exclusive DO hold together under some valuation. *)
Theorem C07_syntactic_exclusion_sound : forall rho a b,
  syn_excl a b = true -> holds rho a = true -> holds rho b = true -> False.
Proof. exact syn_excl_sound. Qed.
Print Assumptions C07_syntactic_exclusion_sound.

Theorem C07_syntactic_exclusion_exact : forall a b,
  syn_excl a b = false -> syn_excl a a = false -> syn_excl b b = false ->
  exists rho, holds rho a = true /\ holds rho b = true.
Proof. exact syn_excl_complete. Qed.
Print Assumptions C07_syntactic_exclusion_exact.

(* 4. Value theorem, wires and registers: the expression _finalize builds for an assigned
      target evaluates, in every environment, to the rhs of the unique active branch, else to
      the default (declared default; else 0 for a wire, the register itself for a register). *)
Theorem C07_value : forall prog d res,
  elab prog d = Some res ->
  forall t, In (LW t) (map fst (slits prog)) ->
  exists e, res_get res (LW t) = Some (FVal e) /\
            forall E, Some (veval E e) = spec_value E d prog t.
Proof. exact value_wire. Qed.
Print Assumptions C07_value.

(* 4'. Explicit hold (`r.next |= r`, the rhs wire is the register itself): if that branch is the unique
       active one the register keeps its value, whatever default is declared for it (the declared
       default applies only when NO assigning branch is active). *)
Theorem C07_explicit_hold : forall prog d res, elab prog d = Some res ->
  forall i, In (LW (TReg i)) (map fst (slits prog)) ->
  exists e, res_get res (LW (TReg i)) = Some (FVal e) /\
    forall E r, active_for (e_pred E) prog (LW (TReg i)) = [PVal r] ->
                e_leaf E r = e_reg E i -> veval E e = e_reg E i.
Proof. exact explicit_hold. Qed.
Print Assumptions C07_explicit_hold.

(* 5. Value theorem, memories: the combined write port has enable 0 when no assigning branch is
      active (memory not written), else exactly the active branch's address, data and enable. *)
Theorem C07_memory : forall prog d res,
  elab prog d = Some res ->
  forall m, In (LM m) (map fst (slits prog)) ->
  exists en ad da, res_get res (LM m) = Some (FMem en ad da) /\
    forall E,
      match spec_mem E prog m with
      | Some None => veval E en = 0
      | Some (Some (a, dd, e)) => veval E en = e /\ veval E ad = a /\ veval E da = dd
      | None => False
      end.
Proof. exact value_mem. Qed.
Print Assumptions C07_memory.

(* 6. _finalize drives every conditionally assigned target exactly once (and nothing else), in
      first-assignment order (the insertion order of _predicate_map). *)
Theorem C07_one_driver_per_target : forall prog d res,
  elab prog d = Some res ->
  map fst res = assigned prog /\ NoDup (map fst res) /\
  (forall l, In l (map fst res) <-> In l (map fst (slits prog))).
Proof. exact one_driver_per_target. Qed.
Print Assumptions C07_one_driver_per_target.

(* 7. Several cycles: starting from any register file and for any sequence of predicate / data
      inputs, latching the elaborated next-value expressions every cycle produces exactly the
      register trajectory of the tree interpreter (a register keeps its value, or takes its
      declared default, in every cycle where none of its branches is active). *)
Theorem C07_multi_cycle_registers : forall prog d res,
  elab prog d = Some res ->
  forall inputs regs, model_run res inputs regs = spec_run d prog inputs regs.
Proof. exact run_agree. Qed.
Print Assumptions C07_multi_cycle_registers.

(* 8. Misuse that must raise.  (a) `|=` directly under conditional_assignment, outside any `with`;
      (b) an assignment directly inside a top-level `with otherwise:` that closes no chain -- it is the
      first branch of the block or directly follows another otherwise (chain_empty_before);
      (c) in general any assignment whose path condition is empty.  An otherwise that is first / repeated
      but does not assign directly is legal for the code and for the model (theorem 3 is the exact
      characterisation). *)
Theorem C07_rejects_unguarded : forall prog d l,
  In (l, []) (slits prog) -> elab prog d = None.
Proof. exact rejects_unguarded. Qed.
Print Assumptions C07_rejects_unguarded.

Theorem C07_top_level_assignment_rejected : forall pre t r post d,
  elab (pre ++ Assign t r :: post) d = None.
Proof. exact top_level_assign_rejected. Qed.
Print Assumptions C07_top_level_assignment_rejected.

Theorem C07_top_level_memory_assignment_rejected : forall pre m a dd e post d,
  elab (pre ++ MemAssign m a dd e :: post) d = None.
Proof. exact top_level_memassign_rejected. Qed.
Print Assumptions C07_top_level_memory_assignment_rejected.

Theorem C07_dangling_otherwise_assignment_rejected : forall pre bpre t r bpost post d,
  chain_empty_before pre ->
  elab (pre ++ Otherwise (bpre ++ Assign t r :: bpost) :: post) d = None.
Proof. exact dangling_otherwise_assign_rejected. Qed.
Print Assumptions C07_dangling_otherwise_assignment_rejected.

Theorem C07_dangling_otherwise_memory_assignment_rejected : forall pre bpre m a dd e bpost post d,
  chain_empty_before pre ->
  elab (pre ++ Otherwise (bpre ++ MemAssign m a dd e :: bpost) :: post) d = None.
Proof. exact dangling_otherwise_memassign_rejected. Qed.
Print Assumptions C07_dangling_otherwise_memory_assignment_rejected.

Theorem C07_chain_empty_cases : chain_empty_before [] /\
  (forall pre b, chain_empty_before (pre ++ [Otherwise b])).
Proof. exact (conj chain_empty_first chain_empty_after_otherwise). Qed.

(* 9. Predicates wider than one bit.  elab_w mirrors _push_condition's guard (checked when the `with`
      is entered).  Entering a `with` on a multi-bit wire anywhere raises; the width check commutes out
      of the state machine, so an accepted program has only 1-bit predicates and theorems 1-7 apply. *)
Theorem C07_multibit_predicate_rejected : forall pw prog d t,
  In t prog -> has_wide pw t -> elab_w pw prog d = None.
Proof. exact wide_predicate_rejected. Qed.
Print Assumptions C07_multibit_predicate_rejected.

Theorem C07_width_check_commutes : forall pw prog d,
  elab_w pw prog d = if forest_w1 pw prog then elab prog d else None.
Proof. exact elab_w_char. Qed.
Print Assumptions C07_width_check_commutes.

Theorem C07_rejects_iff_with_widths : forall pw prog d,
  elab_w pw prog d = None <-> spec_accepts_w pw prog = false.
Proof. exact elab_w_none_iff. Qed.
Print Assumptions C07_rejects_iff_with_widths.

Theorem C07_accepted_with_widths : forall pw prog d res,
  elab_w pw prog d = Some res -> forest_w1 pw prog = true /\ elab prog d = Some res.
Proof. exact elab_w_some. Qed.
Print Assumptions C07_accepted_with_widths.

(* 11. The value an integer right-hand side denotes (`t |= v`): a constant of the target's width w --
       accepted exactly for -2^(w-1) <= v < 2^w, and then the value is v modulo 2^w in [0, 2^w)
       (two's complement for negatives).  The harness compares this rule (and its Python twin coerce_ok,
       which also covers bools, Verilog strings, Const objects and wires) with the real |= on every
       kind of right-hand side in every slot. *)
Theorem C07_int_rhs_value : forall w v x, 0 < w -> coerce_int w v = Some x ->
  0 <= x < 2 ^ w /\ x mod 2 ^ w = v mod 2 ^ w /\ - 2 ^ (w - 1) <= v < 2 ^ w.
Proof. exact coerce_int_some. Qed.
Print Assumptions C07_int_rhs_value.

Theorem C07_int_rhs_rejected : forall w v, 0 < w ->
  (coerce_int w v = None <-> v >= 2 ^ w \/ v < - 2 ^ (w - 1)).
Proof. exact coerce_int_none. Qed.
Print Assumptions C07_int_rhs_rejected.

(* ---- non-vacuity: the docstring example of conditional.py extended with a memory, a nested
   otherwise and a chain restarted after an otherwise *)
Definition ex_prog : list ctree :=
  [ With 0 [ Assign (TReg 1) 10; With 1 [ Assign (TReg 2) 11 ] ];
    With 2 [ Assign (TReg 1) 12; Assign (TReg 2) 12; MemAssign 0 20 21 22 ];
    Otherwise [ Assign (TReg 2) 13;
                With 1 [ MemAssign 0 23 24 25 ];
                Otherwise [ Assign (TWire 3) 14 ] ];
    With 3 [ With 0 [ Assign (TWire 3) 15; With 2 [ Otherwise [ MemAssign 0 26 27 28 ] ] ] ] ].

Example C07_example_accepted :
  spec_accepts ex_prog = true /\
  (exists res, elab ex_prog [(TReg 2, 30)] = Some res /\
               map fst res = [LW (TReg 1); LW (TReg 2); LM 0; LW (TWire 3)]).
Proof. split; [vm_compute; reflexivity|eexists; split; vm_compute; reflexivity]. Qed.

(* a = c = 0, b = d = 1: r1 keeps its value (7), r2 takes the otherwise branch (leaf 13),
   the memory is written through the nested `with b`, w3 has no active branch (0).
   a = c = d = 1, b = 0: r1 takes `with a`, r2 its declared default (leaf 30), w3 and the
   memory are driven from the chain restarted after the otherwise. *)
Definition ex_env : env :=
  mkEnv (fun p => (p =? 1) || (p =? 3)) (fun r => 100 + r) (fun _ => 7).
Definition ex_env2 : env :=
  mkEnv (fun p => negb (p =? 1)) (fun r => 100 + r) (fun _ => 7).

Example C07_example_values :
  spec_value ex_env [(TReg 2, 30)] ex_prog (TReg 1) = Some 7 /\
  spec_value ex_env [(TReg 2, 30)] ex_prog (TReg 2) = Some 113 /\
  spec_value ex_env [(TReg 2, 30)] ex_prog (TWire 3) = Some 0 /\
  spec_mem ex_env ex_prog 0 = Some (Some (123, 124, 125)) /\
  spec_value ex_env2 [(TReg 2, 30)] ex_prog (TReg 1) = Some 110 /\
  spec_value ex_env2 [(TReg 2, 30)] ex_prog (TReg 2) = Some 130 /\
  spec_value ex_env2 [(TReg 2, 30)] ex_prog (TWire 3) = Some 115 /\
  spec_mem ex_env2 ex_prog 0 = Some (Some (126, 127, 128)).
Proof. vm_compute. repeat split; reflexivity. Qed.

(* three cycles of r1, r2 (register file [_; r1; r2]) : hold, then `with a`, then `with c` *)
Example C07_example_run :
  spec_run [(TReg 2, 30)] ex_prog
    [ (fun p => p =? 3, fun r => 100 + r);
      (fun p => p =? 0, fun r => 200 + r);
      (fun p => (p =? 2) || (p =? 1), fun r => 300 + r) ] [0; 5; 6]
  = [[0; 5; 113]; [0; 210; 230]; [0; 312; 312]].
Proof. vm_compute. reflexivity. Qed.

(* a 2-bit predicate (p1) deep inside an otherwise: rejected although nothing is assigned under it;
   the same program with 1-bit predicates is accepted *)
Example C07_example_multibit :
  elab_w (fun p => if p =? 1 then 2 else 1) [ With 0 [ Assign (TWire 0) 1 ]; Otherwise [ With 1 [] ] ] [] = None /\
  (exists res, elab_w (fun _ => 1) [ With 0 [ Assign (TWire 0) 1 ]; Otherwise [ With 1 [] ] ] [] = Some res).
Proof. split; [vm_compute; reflexivity|eexists; vm_compute; reflexivity]. Qed.

(* otherwise first / two otherwise in a row WITHOUT a direct assignment are accepted *)
Example C07_example_otherwise_first_is_legal :
  (exists res, elab [ Otherwise [ With 0 [ Assign (TWire 0) 1 ] ]; Otherwise []; Otherwise [ With 1 [] ] ] [] = Some res).
Proof. eexists; vm_compute; reflexivity. Qed.

(* rejected: a chain restarted after an otherwise re-assigns the same wire; an assignment
   under a top-level otherwise only; an assignment under no predicate at all *)
Example C07_example_rejected :
  elab [ With 0 [ Assign (TWire 0) 1 ]; Otherwise []; With 1 [ Assign (TWire 0) 2 ] ] [] = None /\
  elab [ Otherwise [ Assign (TWire 0) 1 ] ] [] = None /\
  elab [ Assign (TWire 0) 1 ] [] = None.
Proof. vm_compute. repeat split; reflexivity. Qed.
