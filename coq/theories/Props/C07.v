(* C07 -- placeholder while the proofs are being written *)
From PyRTL Require Import Front.Cond Front.CondSpec.
From Coq Require Import ZArith List. Import ListNotations. Open Scope Z_scope.
Example C07_example_accepts :
  spec_accepts [With 0 [Assign (TWire 0) 1]; Otherwise [Assign (TWire 0) 2]] = true.
Proof. vm_compute. reflexivity. Qed.
