(* C14 -- translator tie (kept in its own Props file so that a source edit that breaks it leaves the
   other C14 theorems checkable).  Only statements + `exact`. *)
From Coq Require Import ZArith List Bool.
From PyRTL Require Import Base.PyZ Front.SliceC14 Front.Mux Front.BarrelC14 Front.Struct
     Front.Bitfield Front.MuxRulesTie Front.BitfieldTie Conv.ConvBase Gen.Conv Gen.MuxRules.
Import ListNotations. Open Scope Z_scope.

(* ================= translator tie =================
   Gen/MuxRules.v is regenerated from the current source on every run (py/genfrag_C14.py); the
   hand-written models use exactly these rules: mux arity guard / default padding / base test / half;
   sparse_mux key guard, small and base tests, half, the two halves' conditions and re-keying;
   prioritized_mux guards and half; demux base test; the barrel stage test; partition_wire guard *)
Theorem C14_rules_tie :
  (forall n (ins : list bits),
     negb (Nat.eqb (2 ^ n) (length ins)) = mux_arity_bad (Z.of_nat n) (Z.of_nat (length ins))) /\
  (forall n (ins : list bits) d,
     mux_pad n ins (Some d) =
     if mux_pads (mux_short_by (Z.of_nat n) (Z.of_nat (length ins)))
     then ins ++ repeat d (Z.to_nat (mux_short_by (Z.of_nat n) (Z.of_nat (length ins)))) else ins) /\
  (forall n', (match n' with O => true | S _ => false end) = mux_base (Z.of_nat (S n'))) /\
  (forall ins : list bits, Z.of_nat (Nat.div (length ins) 2) = mux_half (Z.of_nat (length ins))) /\
  (forall n (vals : list (Z * wire)),
     keys_ok (2 ^ Z.of_nat n - 1) vals =
     forallb (fun kv => negb (sparse_key_bad (fst kv) (sparse_max_val (Z.of_nat n)))) vals) /\
  (forall vals : list (Z * wire),
     (match vals with [] => true | [_] => true | _ => false end) = sparse_small (Z.of_nat (length vals))) /\
  (forall n', (match n' with O => true | S _ => false end) = sparse_base (Z.of_nat (S n'))) /\
  (forall n', 2 ^ Z.of_nat n' = sparse_half (Z.of_nat (S n'))) /\
  (forall k half,
     (k <? half) = sparse_in_first k half /\ sparse_first_key k = k /\
     (half <=? k) = sparse_in_second k half /\ k - half = sparse_second_key k half) /\
  (forall (sels : list bool) (vals : list bits),
     negb (Nat.eqb (length sels) (length vals)) = pmux_mismatch (Z.of_nat (length sels)) (Z.of_nat (length vals)) /\
     (match vals with [] => true | _ => false end) = pmux_empty (Z.of_nat (length vals)) /\
     (match vals with [_] => true | _ => false end) = pmux_single (Z.of_nat (length vals)) /\
     Z.of_nat (Nat.div (length vals) 2) = pmux_half (Z.of_nat (length vals))) /\
  (forall n', (match n' with O => true | S _ => false end) = demux_base (Z.of_nat (S n'))) /\
  (forall i fw, Nat.ltb (2 ^ i) fw = barrel_stage_shifts (barrel_shift_amt (Z.of_nat i)) (Z.of_nat fw)) /\
  (forall (w : bits) size,
     negb (Nat.eqb (Nat.modulo (length w) size) 0) = partition_bad (Z.of_nat (length w)) (Z.of_nat size)).
Proof. exact rules_tie. Qed.
Print Assumptions C14_rules_tie.

(* Python-int new values of bitfield_update(_set): the model's conversion is exactly the regenerated
   truncation  newvalue &= (1 << len(idxs_middle)) - 1  (only when truncating) followed by the regenerated
   helperfuncs._convert_int(val, bitwidth=field width, signed=False) *)
Theorem C14_int_newvalue_tie : forall v tr bw, (1 <= bw)%nat ->
  conv_int v tr bw =
  as_bits bw (convert_int (if tr then bfu_trunc_int v (Z.of_nat bw) else v) (Some (Z.of_nat bw)) false).
Proof. exact conv_int_tie. Qed.
Print Assumptions C14_int_newvalue_tie.
