(* C13 -- translator tie: the gate expressions, loop conditions, guards, indices and width
   formulas of pyrtl/rtllib/adders.py, multipliers.py, libutils.py are REGENERATED from the
   current source on every run (Gen/C13Src.v, py/genfrag_C13.py; the rest of every modelled
   function must be AST-identical to its frozen template), and each regenerated definition is
   proved to be what the hand-written model computes at that place.  Statements + `exact` only;
   proofs in Lib/C13SrcTie.v. *)
From PyRTL Require Import Gen.C13Src Lib.Mult Lib.SeqMult Lib.C13SrcTie.

Theorem C13_src_gates :
  (forall a b c, full_add a b c = (src_fa_sum a b c, src_fa_cout a b c)) /\
  (forall a b, half_add a b = (src_ha_sum a b, src_ha_cout a b)) /\
  (forall a b c, cs_sum a b c = src_cs_sum a b c /\ cs_carry a b c = src_cs_carry a b c) /\
  (forall a b, andb a b = src_tree_pp a b /\ andb a b = src_fma_pp a b) /\
  (forall s t, xorb s t = src_st_sign s t).
Proof. exact src_gates. Qed.
Print Assumptions C13_src_gates.

Theorem C13_src_ripple :
  (forall a b : list bool, (length a <? length b)%nat
      = src_rp_swap (Z.of_nat (length a)) (Z.of_nat (length b))) /\
  (* the model recurses on the list structure: "tail empty" is the source's len(..) == 1 *)
  (forall (x : bool) t, src_rp_a1 (Z.of_nat (length (x :: t))) = match t with [] => true | _ => false end) /\
  (forall (x : bool) t, src_rp_b1 (Z.of_nat (length (x :: t))) = match t with [] => true | _ => false end) /\
  (forall (x : bool) t, src_rh_a1 (Z.of_nat (length (x :: t))) = match t with [] => true | _ => false end).
Proof. exact src_ripple. Qed.
Print Assumptions C13_src_ripple.

Theorem C13_src_kogge :
  (forall d g p i, ks_update d (g, p) i =
     (set_nth i (src_ks_upd_gen (nth i g false) (nth i p false) (nth (i - d) g false)) g,
      if src_ks_guard (Z.of_nat i) (Z.of_nat d)
      then set_nth i (src_ks_upd_prop (nth i p false) (nth (i - d) p false)) p else p)) /\
  (forall f d n gp, ks_loop (S f) d n gp =
     if src_ks_loop_cond (Z.of_nat d) (Z.of_nat n)
     then ks_loop f (2 * d) n (ks_stage d n gp) else gp) /\
  (* `prop_dist *= 2` is part of the frozen skeleton; the initial lists: *)
  (forall a b, map2 xorb a b = map2 src_ks_prop a b /\ map2 andb a b = map2 src_ks_gen a b) /\
  (forall x y ta tb cin,
     ks_init_gen (x :: ta) (y :: tb) cin
     = src_ks_fold (src_ks_gen x y) (src_ks_prop x y) cin :: map2 src_ks_gen ta tb).
Proof. exact src_kogge. Qed.
Print Assumptions C13_src_kogge.

Theorem C13_src_cla :
  (forall la (a : list bool), (length a <=? la)%nat = src_cla_fits (Z.of_nat (length a)) (Z.of_nat la)) /\
  (forall a b, map2 andb a b = map2 src_cla_gen a b /\ map2 xorb a b = map2 src_cla_prop a b) /\
  (forall g p t cg cp cprev,
     cla_unit_loop ((g, p) :: t) cg cp cprev =
     let '(ss, fin) := cla_unit_loop t (src_cla_cur_gen g p cg) (src_cla_cur_prop cp p)
                                     (src_cla_carry g p cprev) in
     (src_cla_sumbit p cprev :: ss, fin)) /\
  (forall x y ta tb cin,
     cla_unit (x :: ta) (y :: tb) cin =
     let g0 := src_cla_gen x y in let p0 := src_cla_prop x y in
     let '(ss, (cg, cp)) := cla_unit_loop (combine (map2 src_cla_gen ta tb) (map2 src_cla_prop ta tb))
                                         g0 p0 (src_cla_c0 g0 p0 cin) in
     (src_cla_s0 p0 cin :: ss, src_cla_cout cg cp cin)).
Proof. exact src_cla. Qed.
Print Assumptions C13_src_cla.

Theorem C13_src_reducers :
  (forall c : list bool, (length c <=? 2)%nat = src_wl_done (Z.of_nat (length c))) /\
  (forall w, wallace_col w =
     if src_wl_full (Z.of_nat (length w)) then
       match w with
       | x :: y :: z :: t => let '(s, c) := full_add x y z in
                             let '(st, ca) := wallace_col t in (s :: st, c :: ca)
       | _ => (w, [])
       end
     else if src_wl_half (Z.of_nat (length w)) then
       match w with [x; y] => let '(s, c) := half_add x y in ([s], [c]) | _ => (w, []) end
     else (w, [])) /\
  (* deferred has result_bitwidth + 1 rows, one more than take_pad keeps *)
  (forall rw, src_wl_rows (Z.of_nat rw) = Z.of_nat (S rw) /\ src_dd_rows (Z.of_nat rw) = Z.of_nat (S rw)) /\
  (* `result[:rw] if len(result) > rw else result` is firstn rw *)
  (forall rw (r : list bool),
     firstn rw r = (if src_wl_trunc (Z.of_nat (length r)) (Z.of_nat rw) then firstn rw r else r) /\
     firstn rw r = (if src_dd_trunc (Z.of_nat (length r)) (Z.of_nat rw) then firstn rw r else r)) /\
  (forall f target w def carry, dada_col (S f) target w def carry =
     if negb (src_dd_more (Z.of_nat (length w)) (Z.of_nat (length def)) (Z.of_nat target))
     then Some (def ++ w, carry)
     else if src_dd_full (Z.of_nat (length w)) (Z.of_nat (length def)) (Z.of_nat target) then
       match w with
       | x :: y :: z :: t => let '(s, c) := full_add x y z in dada_col f target t (def ++ [s]) (carry ++ [c])
       | _ => None
       end
     else
       match w with
       | x :: y :: t => let '(s, c) := half_add x y in dada_col f target t (def ++ [s]) (carry ++ [c])
       | _ => None
       end) /\
  (* the "Expected ... reduce more wires" raise is dead: after the while loop exits it cannot fire *)
  (forall lw ld t, src_dd_more lw ld t = false -> src_dd_err (lw + ld) t = false) /\
  (* the reduction schedule 2, 3, 4, 6, 9, ... *)
  (forall f cur maxw, dada_sched_up (S f) cur maxw =
     if src_dd_sched_cond (Z.of_nat cur) (Z.of_nat maxw)
     then cur :: dada_sched_up f (Z.to_nat (src_dd_sched_next (Z.of_nat cur))) maxw else []) /\
  (forall c : list bool, (length c =? 2)%nat = src_sp_two (Z.of_nat (length c))).
Proof. exact src_reducers. Qed.
Print Assumptions C13_src_reducers.

Theorem C13_src_widths :
  (forall ws, fga_width ws
     = Z.to_nat (src_fga_width (Z.of_nat (maxlen ws)) (Z.of_nat (length ws)))) /\
  (forall pairs adds, fma_width pairs adds
     = Z.to_nat (src_fma_width (Z.of_nat (fma_longest pairs adds)) (Z.of_nat (length adds))
                               (Z.of_nat (length pairs)))) /\
  (forall (a b : list bool), (1 <= length a + length b)%nat ->
     Z.of_nat (length a + length b - 1) = src_fma_pairlen (Z.of_nat (length a)) (Z.of_nat (length b))) /\
  (forall A B : list bool,
     Z.of_nat (length A + length B) = src_tree_len (Z.of_nat (length A)) (Z.of_nat (length B)) /\
     Z.of_nat (length A + length B) = src_st_len (Z.of_nat (length A)) (Z.of_nat (length B))).
Proof. exact src_widths. Qed.
Print Assumptions C13_src_widths.

Theorem C13_src_multipliers :
  (forall A B cols i j, (i < length A)%nat -> (j < length B)%nat ->
     In (src_tree_pp (nth i A false) (nth j B false))
        (nth (Z.to_nat (src_tree_idx (Z.of_nat i) (Z.of_nat j))) (add_pp cols A B) [])) /\
  (forall i j, src_fma_idx i j = src_tree_idx i j) /\
  (forall A B : list bool,
     trivial_mult A B =
     let '(A', B') := if src_tm_b1 (Z.of_nat (length B)) then (B, A) else (A, B) in
     if src_tm_a1 (Z.of_nat (length A')) then Some (map (andb (hd false A')) B' ++ [false]) else None) /\
  (* sign bit required: the source refuses exactly when the model returns None (lengths >= 1) *)
  (forall A B : list bool, (1 <= length A)%nat -> (1 <= length B)%nat ->
     ((length A =? 1)%nat || (length B =? 1)%nat || (length A =? 0)%nat || (length B =? 0)%nat)
     = src_st_guard (Z.of_nat (length A)) (Z.of_nat (length B))).
Proof. exact src_multipliers. Qed.
Print Assumptions C13_src_multipliers.

Theorem C13_src_sequential :
  (forall alen blen, alen + blen = src_sm_w alen blen /\ alen + blen = src_cm_w alen blen) /\
  (* complex_mult raises unless shifts <= len(A) and shifts <= len(B) *)
  (forall sh alen blen, src_cm_guard sh alen blen = false <-> sh <= alen /\ sh <= blen) /\
  (* _one_cycle_mult recursion: rem_bits == 0 / rem_bits - 1 / curr_bit + 1 *)
  (forall a b w sum cb,
     one_cycle_mult a b w O sum cb = sum /\ src_oc_done (Z.of_nat O) = true) /\
  (forall a b w r sum cb,
     src_oc_done (Z.of_nat (S r)) = false /\
     one_cycle_mult a b w (S r) sum cb =
     one_cycle_mult a b w (Z.to_nat (src_oc_dec (Z.of_nat (S r))))
       (sum + (if Z.testbit a cb then (Z.shiftl b cb) mod 2 ^ w else 0)) (src_oc_inc cb)) /\
  (* the curr_bit == 0 branch omits the shift: shifting by 0 is the identity *)
  (forall b cb, src_oc_first cb = true -> Z.shiftl b cb = b) /\
  (* _shifted_reg_next returns 0 when num >= len(reg): the model's shift already is 0 then *)
  (forall reg num lreg, 0 <= lreg -> 0 <= reg < 2 ^ lreg -> src_sr_over num lreg = true ->
     Z.shiftr reg num = 0).
Proof. exact src_sequential. Qed.
Print Assumptions C13_src_sequential.

(* non-vacuity: the regenerated definitions are the current source's expressions, evaluated *)
Example C13_src_example :
  src_fa_cout true false true = true /\ src_ks_guard 4 2 = true /\ src_ks_guard 3 2 = false /\
  src_fga_width 4 5 = 7 /\ src_fma_width 3 1 1 = 4 /\ src_dd_sched_next 6 = 9 /\
  src_dd_full 5 1 4 = true /\ src_dd_full 4 1 4 = false /\ src_cm_guard 3 2 5 = true.
Proof. vm_compute. repeat split; reflexivity. Qed.
