(* C03 -- synthesize() preserves behaviour and the simulation interface.
   Only statements + `exact`; proofs in Pass/BasicGatesProofs.v (generators),
   Pass/SynthProofs.v (per-bit lowering, gate-level simulation, interface maps),
   Pass/SynthStructure.v (naturality: emitted gate expressions = their values),
   Pass/FlattenProofs.v (the synthesized block as a netlist under Sem.run),
   Pass/FlattenShape.v (the shape predicate holds of that netlist),
   Pass/SynthSanity.v (the premises follow from the regenerated sanity_check_net).
   `balg` = the gate algebra at bool; the generator expressions come from
   Gen/SynthGates.v, regenerated from /repo on every run. *)
From Coq Require Import ZArith List Bool.
From PyRTL Require Import Netlist.Sem Netlist.WFDefs Pass.BasicGates Pass.BasicGatesProofs Pass.Synth Pass.SynthProofs Pass.SynthStructure Pass.SynthHarness Pass.Flatten Pass.FlattenProofs Pass.FlattenShape
  Netlist.Sanity Gen.SanityNet Pass.SynthSanityDefs Pass.SynthSanity.
Import ListNotations.
Open Scope Z_scope.

(* ---------------- gate-level generators: ALL widths, ALL values ---------------- *)

(* _basic_add: ripple of _one_bit_add, result = concat(carry_out, sumbits); exact
   sum at width max+1 (operands of any two widths, zero-extended as the code does) *)
Theorem C03_basic_add_correct : forall a b,
  to_Z (basic_add balg a b) = to_Z a + to_Z b
  /\ length (basic_add balg a b) = S (Nat.max (length a) (length b)).
Proof. exact basic_add_correct. Qed.
Print Assumptions C03_basic_add_correct.

(* _basic_sub at FULL result width n+1 (two's complement difference) *)
Theorem C03_basic_sub_correct : forall a b, length a = length b ->
  to_Z (basic_sub balg a b) = (to_Z a - to_Z b) mod 2 ^ Z.of_nat (S (length a))
  /\ length (basic_sub balg a b) = S (length a).
Proof. exact (basic_sub_correct_if (fun c => eq_refl)). Qed.
Print Assumptions C03_basic_sub_correct.
(* History: while defect F1 was present (`concat(carry_out, sumbits)`) the theorem
   here was
     C03_basic_sub_refuted / C03_basic_sub_top_bit_inverted :
       to_Z (basic_sub balg a b) = (to_Z a - to_Z b + 2^n) mod 2^(n+1)
     := basic_sub_inverted_if (fun c => eq_refl)
   both forms are proved in BasicGatesProofs.v relative to the generated top-bit
   formula g_sub_top; a regression of the code to the carry breaks the `exact` above. *)

(* what _basic_sub computes whatever the code puts in the top position *)
Theorem C03_basic_sub_value : forall a b, length a = length b ->
  to_Z (basic_sub balg a b)
  = (to_Z a - to_Z b) mod 2 ^ Z.of_nat (length a)
    + 2 ^ Z.of_nat (length a) * b2z (g_sub_top balg (to_Z b <=? to_Z a))
  /\ length (basic_sub balg a b) = S (length a).
Proof. exact basic_sub_value. Qed.
Print Assumptions C03_basic_sub_value.

Theorem C03_basic_eq_correct : forall a b, basic_eq balg a b = [to_Z a =? to_Z b].
Proof. exact basic_eq_correct. Qed.
Print Assumptions C03_basic_eq_correct.

Theorem C03_basic_lt_correct : forall a b, length a = length b -> a <> [] ->
  basic_lt balg a b = [to_Z a <? to_Z b].
Proof. exact basic_lt_correct. Qed.
Print Assumptions C03_basic_lt_correct.

Theorem C03_basic_gt_correct : forall a b, length a = length b -> a <> [] ->
  basic_gt balg a b = [to_Z a >? to_Z b].
Proof. exact basic_gt_correct. Qed.
Print Assumptions C03_basic_gt_correct.

Theorem C03_basic_select_correct : forall s a b, length a = length b ->
  basic_select balg s a b = if s then b else a.
Proof. exact basic_select_correct. Qed.
Print Assumptions C03_basic_select_correct.

(* Wallace multiplier: one pass of the reduction loop preserves the weighted
   column sum modulo 2^result_bitwidth (d = carries dropped off the top) *)
Theorem C03_basic_mult_step_invariant : forall cols cin, exists d, 0 <= d
  /\ colsum (pass balg cols cin) + 2 ^ Z.of_nat (length cols) * d = popc cin + colsum cols
  /\ length (pass balg cols cin) = length cols.
Proof. exact pass_spec. Qed.
Print Assumptions C03_basic_mult_step_invariant.

(* the loop ends (within the fuel the model gives it) with <= 2 wires per column *)
Theorem C03_basic_mult_loop_terminates : forall fuel cols, (total_bits cols <= fuel)%nat ->
  reduced (wallace balg fuel cols) = true.
Proof. exact wallace_reduced. Qed.
Print Assumptions C03_basic_mult_loop_terminates.

(* _basic_mult is exact for all operand widths (including the 1-bit special case) *)
Theorem C03_basic_mult_correct : forall a b,
  to_Z (basic_mult balg a b) = to_Z a * to_Z b.
Proof. exact basic_mult_correct. Qed.
Print Assumptions C03_basic_mult_correct.

(* ---------------- the per-bit lowering of every primitive ---------------- *)

(* For every combinational primitive o (w ~ & | ^ n + - * < > = x c s): the bits
   that the gates emitted by synthesize (_replace_op + _decompose, model
   Synth.lower / lower_val) compute for the destination are exactly the bits of
   the documented op (Sem.op_spec) applied to the values spelled by the argument
   bits, reduced to the destination width. *)
Theorem C03_decompose_correct : forall nl v bv n,
  forallb (fun x => 0 <=? wwidth x) (wires nl) = true ->
  net_synth_ok nl n = true -> arity_ok (nop n) (length (nargs n)) = true ->
  (forall a, In a (nargs n) -> v a = bits_val bv a (wnat nl a)) ->
  match nop n with OpReg | OpMemRd _ | OpMemWr _ => True | _ =>
    exists r, op_spec (nop n) (argvals nl v n) = Some r
      /\ to_Z (lower_val nl bv n) = r mod 2 ^ width_of nl (ndest n)
      /\ length (lower_val nl bv n) = wnat nl (ndest n)
  end.
Proof. intros nl v bv n H. exact (decompose_correct nl H v bv n). Qed.
Print Assumptions C03_decompose_correct.

(* ---------------- C03_simulation ---------------- *)

(* One cycle from related states: every declared wire of the original design has
   the value spelled by its synthesized bits (value(w) = sum_i bit(w_i) 2^i), and
   the successor states (registers bit by bit, memories) stay related. *)
Theorem C03_step_simulation : forall nl st gst ins,
  wfb nl = true -> synth_okb nl = true ->
  Rs nl st gst -> legal_ins nl ins ->
  wires_repr nl (fst (step nl 0 st ins)) (fst (gstep nl gst ins))
  /\ Rs nl (snd (step nl 0 st ins)) (snd (gstep nl gst ins)).
Proof. exact step_related_wf. Qed.
Print Assumptions C03_step_simulation.

(* Every cycle of every legal input sequence, started from the state the ORIGINAL
   testbench describes (register_value_map through reg_map > reset value bit by
   bit > 0; memory_value_map keyed by the original memories): every wire -- in
   particular every Output -- of Sem.run on the original netlist equals the value
   re-assembled from the synthesized block's bits. *)
Theorem C03_simulation : forall nl regmap memmap inss,
  wfb nl = true -> synth_okb nl = true -> legal_init nl regmap -> Forall (legal_ins nl) inss ->
  Forall2 (wires_repr nl)
    (fst (run nl 0 (init_state nl 0 regmap memmap) inss))
    (fst (grun nl (ginit nl regmap memmap) inss)).
Proof. exact synth_simulation. Qed.
Print Assumptions C03_simulation.

(* ---------------- the emitted structure ---------------- *)

(* The generators are natural in the gate algebra, so the gate EXPRESSIONS that
   the model of synthesize emits for a net (Synth.lower: trees over ~ & | ^ nand,
   constants and argument bits) evaluate to the bits used above. *)
Theorem C03_emitted_gates_compute_lowering : forall nl bv n,
  map (geval bv) (lower nl n) = lower_val nl bv n.
Proof. exact lower_structure. Qed.
Print Assumptions C03_emitted_gates_compute_lowering.

(* C03_shape on the model: the block emitted for a netlist is, net by net, either
   the list of gate expressions of the destination bits (only 1-bit ~ & | ^ nand
   gates by the type gexp), one 1-bit register per destination bit, or a memory
   port whose address/data are re-assembled from bits; nothing else exists in the
   type.  (The same property is CHECKED on every real synthesized block by the
   boolean predicate SynthHarness.shapeb, see py/checks/C03.py.) *)
Theorem C03_shape : forall nl n,
  match synth_net nl n with
  | GAssign w bits => w = ndest n /\ bits = lower nl n
  | GReg w k src => nop n = OpReg /\ w = ndest n /\ k = wnat nl (ndest n)
  | GMemRd m w k a na => nop n = OpMemRd m /\ na = wnat nl a
  | GMemWr m a na d nd en => nop n = OpMemWr m /\ na = wnat nl a /\ nd = wnat nl d
  end.
Proof. exact synth_shape. Qed.
Print Assumptions C03_shape.

(* C03_simulation stated on the emitted block as data (gate expressions evaluated
   by geval, 1-bit registers, memory ports) *)
Theorem C03_simulation_emitted_block : forall nl regmap memmap inss,
  wfb nl = true -> synth_okb nl = true -> legal_init nl regmap -> Forall (legal_ins nl) inss ->
  Forall2 (wires_repr nl)
    (fst (run nl 0 (init_state nl 0 regmap memmap) inss))
    (fst (gnet_run nl (synth nl) (ginit nl regmap memmap) inss)).
Proof. intros. rewrite run_structure. apply synth_simulation; assumption. Qed.
Print Assumptions C03_simulation_emitted_block.

(* the two per-bit formulas of synthesize itself (regenerated from the source):
   Const bit i = (val >> i) & 1, reset bit i = (reset_value >> i) & 1 or None *)
Theorem C03_const_and_reset_bits : forall c rv (i : nat),
  negb (g_const_bit c (Z.of_nat i) =? 0) = Z.testbit c (Z.of_nat i)
  /\ synth_reset rv i = option_map (fun v => Z.testbit v (Z.of_nat i)) rv.
Proof. intros. split; [apply const_bit_spec|apply synth_reset_spec]. Qed.
Print Assumptions C03_const_and_reset_bits.
(* History: while defect F2 was present g_reset_bit was `None` and the theorem was
   C03_reset_refuted : exists rv i, synth_reset rv i <> option_map ... rv  (rv = Some 5, i = 0),
   which made C03_simulation false for a register with a non-zero reset value. *)

(* ---------------- the synthesized block as a netlist under Sem.run ---------------- *)

(* synthesize never indexes a bit that does not exist: every gate expression
   emitted for a net reads only bits (a, i) with a an argument of that net and
   i < bitwidth(a)  (in the code: wv_map[(net.args[x], i)] cannot raise KeyError) *)
Theorem C03_no_dangling_bits : forall nl n,
  net_synth_ok nl n = true -> arity_ok (nop n) (length (nargs n)) = true ->
  forallb (gclosed (Qn nl n)) (lower nl n) = true.
Proof. exact lower_closed. Qed.
Print Assumptions C03_no_dangling_bits.

(* FULL STATEMENT of C03_simulation: `flatten merge nl` is the synthesized block as
   a Syntax.netlist (1-bit wires bid w i, one 1-bit net per gate with fresh ids,
   1-bit registers, memory ports with concat/select re-assembly, merged or
   per-bit I/O).  Under the reference semantics Sem.run, from the state and the
   inputs the original testbench describes, on EVERY cycle every wire of the
   original design equals sum_i bit_i 2^i of its 1-bit wires in the flattened
   netlist, and (merged I/O) every Output vector has exactly the original value. *)
Theorem C03_simulation_netlist : forall merge nl regmap memmap inss,
  ids_okb nl = true -> wfb nl = true -> synth_okb nl = true ->
  legal_init nl regmap -> Forall (legal_ins nl) inss ->
  Forall2 (fun v vf => forall x, In x (wires nl) ->
             v (wname x) = to_Z (map (flat_bit nl vf (wname x)) (seq 0 (wnat nl (wname x))))
             /\ (merge = true -> is_out x = true -> vf (wname x) = v (wname x)))
    (fst (run nl 0 (init_state nl 0 regmap memmap) inss))
    (fst (run (flatten merge nl) 0 (flat_state nl (ginit nl regmap memmap)) (map (flat_ins nl) inss))).
Proof. intros merge nl regmap memmap inss H1 H2 H3. exact (flatten_simulation merge nl H1 H2 H3 regmap memmap inss). Qed.
Print Assumptions C03_simulation_netlist.

(* C03_shape as the boolean predicate: the synthesized netlist of EVERY well-formed
   design satisfies SynthHarness.shapeb -- the very predicate py/checks/C03.py
   evaluates on the dump of every real synthesized block: each net is a 1-bit
   ~ & | ^ nand w r gate, a memory port, a single-index select off an Input vector
   or off a read port's data, or a concat of 1-bit wires feeding only memory
   ports / an Output vector (merged I/O); no + - * < > = x survives. *)
Theorem C03_shape_netlist : forall merge nl,
  ids_okb nl = true -> wfb nl = true -> synth_okb nl = true ->
  shapeb merge (flatten merge nl) = true.
Proof. intros merge nl H1 H2 H3. exact (flatten_shape merge nl (incb_inc 0 _ H1) H2 H3). Qed.
Print Assumptions C03_shape_netlist.

(* ---------------- the premises are what PyRTL itself checks first ---------------- *)

(* synthesize() begins with block_pre.sanity_check().  `check` (Gen/SanityNet.v) is the
   list of the 38 `if ...: raise` of Block.sanity_check_net REGENERATED from
   pyrtl/core.py on every run.  If none of them fires on a net (and bitwidths are
   >= 1, which WireVector.__init__ enforces), the net satisfies the hand-written
   premises net_synth_ok / arity_ok of every theorem above: equal argument widths,
   destination widths within the natural result, select indices in range, a 1-bit
   mux select and write enable, the right number of arguments. *)
Theorem C03_sanity_check_establishes_premises : forall nl n,
  widths_posb nl = true -> check (shape_of nl n) = None ->
  net_synth_ok nl n = true /\ arity_ok (nop n) (length (nargs n)) = true.
Proof. exact sanity_net_synth_ok. Qed.
Print Assumptions C03_sanity_check_establishes_premises.

Theorem C03_sanity_check_implies_synth_okb : forall nl,
  widths_posb nl = true -> sanity_nets_okb nl = true ->
  synth_okb nl = true /\ (forall n, In n (nets nl) -> arity_ok (nop n) (length (nargs n)) = true).
Proof. exact sanity_implies_synth_ok. Qed.
Print Assumptions C03_sanity_check_implies_synth_okb.

(* C03_simulation / C03_simulation_netlist / C03_shape_netlist with the regenerated
   check as premise instead of synth_okb *)
Theorem C03_simulation_sanity_checked : forall nl regmap memmap inss,
  wfb nl = true -> widths_posb nl = true -> sanity_nets_okb nl = true ->
  legal_init nl regmap -> Forall (legal_ins nl) inss ->
  Forall2 (wires_repr nl)
    (fst (run nl 0 (init_state nl 0 regmap memmap) inss))
    (fst (grun nl (ginit nl regmap memmap) inss)).
Proof. exact simulation_sanity_checked. Qed.
Print Assumptions C03_simulation_sanity_checked.

Theorem C03_simulation_netlist_sanity_checked : forall merge nl regmap memmap inss,
  ids_okb nl = true -> wfb nl = true -> widths_posb nl = true -> sanity_nets_okb nl = true ->
  legal_init nl regmap -> Forall (legal_ins nl) inss ->
  Forall2 (fun v vf => forall x, In x (wires nl) ->
             v (wname x) = to_Z (map (flat_bit nl vf (wname x)) (seq 0 (wnat nl (wname x))))
             /\ (merge = true -> is_out x = true -> vf (wname x) = v (wname x)))
    (fst (run nl 0 (init_state nl 0 regmap memmap) inss))
    (fst (run (flatten merge nl) 0 (flat_state nl (ginit nl regmap memmap)) (map (flat_ins nl) inss))).
Proof.
  intros merge nl regmap memmap inss H1 H2 Hp Hs.
  exact (flatten_simulation merge nl H1 H2 (proj1 (sanity_implies_synth_ok nl Hp Hs)) regmap memmap inss).
Qed.
Print Assumptions C03_simulation_netlist_sanity_checked.

Theorem C03_shape_netlist_sanity_checked : forall merge nl,
  ids_okb nl = true -> wfb nl = true -> widths_posb nl = true -> sanity_nets_okb nl = true ->
  shapeb merge (flatten merge nl) = true.
Proof.
  intros merge nl H1 H2 Hp Hs.
  exact (flatten_shape merge nl (incb_inc 0 _ H1) H2 (proj1 (sanity_implies_synth_ok nl Hp Hs))).
Qed.
Print Assumptions C03_shape_netlist_sanity_checked.

(* ---------------- interface maps keyed by the original objects ---------------- *)

Theorem C03_maps_keyed_by_original : forall nl merge,
  map fst (io_map nl merge) = map wname (filter is_io (wires nl))
  /\ map fst (reg_map nl) = map wname (filter is_reg (wires nl))
  /\ map fst (mem_map nl) = map MOrig (used_mems nl)
  /\ (forall m, In m (used_mems nl) -> mem_map_lookup (MOrig m) (mem_map nl) = Some (MPost m)).
Proof.
  intros nl merge. split; [apply io_map_keys|]. split; [apply reg_map_keys|].
  split; [apply mem_map_keys|]. apply mem_map_by_original.
Qed.
Print Assumptions C03_maps_keyed_by_original.
(* History: while defect F19 was present (Synth.mem_map_key m = MCopy m) the last two
   conjuncts were false: C03_mem_map_refuted := exists nl m, In m (used_mems nl) /\
   mem_map_lookup (MOrig m) (mem_map nl) = None (the testbench's KeyError). *)

(* the source-text gates of py/genfrag_C03.py passed on this run: the control
   skeletons of _decompose / _replace_op, the op -> generator table and the
   construction of mem_map in /repo are the ones Pass/Synth.v mirrors *)
Example C03_source_skeletons_unchanged :
  g_decompose_skeleton_ok = true /\ g_mem_map_keyed_by_original = true.
Proof. split; reflexivity. Qed.

(* non-vacuity / regression examples *)

(* a design with a full-width subtract, a multiplier, a comparison, a mux, a
   register with a non-zero reset value and a memory with initial contents *)
Definition ex_nl : netlist :=
  {| wires := [ mkWire 1 3 KInput; mkWire 2 3 (KReg (Some 5)); mkWire 3 4 KWire;
                mkWire 4 6 KWire; mkWire 5 1 KWire; mkWire 6 3 KWire; mkWire 7 3 KOutput;
                mkWire 8 1 (KConst 1); mkWire 9 3 KWire; mkWire 10 4 KOutput ];
     nets := [ mkNet OpSub [1; 2] 3; mkNet OpMul [1; 2] 4; mkNet OpLt [1; 2] 5;
               mkNet OpMux [5; 1; 2] 6; mkNet (OpMemRd 0) [6] 9;
               mkNet (OpMemWr 0) [1; 2; 8] 0; mkNet (OpSelect [0; 1; 5]) [4] 7;
               mkNet OpW [3] 10; mkNet OpReg [9] 2 ];
     mems := [ mkMem 0 3 3 None ] |}.

Example C03_example_hyps : wfb ex_nl = true /\ synth_okb ex_nl = true.
Proof. vm_compute. split; reflexivity. Qed.

(* the flattened synthesized netlist satisfies the C03 shape predicate (the one
   evaluated on every real synthesized block), with merged and with per-bit I/O;
   on a smaller design also Sem's well-formedness (every net reads only wires
   driven before it: the emitted order is a dependency order) *)
Definition ex_small : netlist :=
  {| wires := [ mkWire 1 2 KInput; mkWire 2 2 (KReg (Some 2)); mkWire 3 3 KWire;
                mkWire 4 1 KWire; mkWire 5 2 KOutput; mkWire 6 1 (KConst 1); mkWire 7 2 KWire;
                mkWire 8 2 KWire ];
     nets := [ mkNet OpSub [1; 2] 3; mkNet OpLt [1; 2] 4; mkNet OpMux [4; 1; 2] 8; mkNet OpW [8] 5;
               mkNet (OpMemWr 0) [1; 2; 6] 0; mkNet (OpMemRd 0) [8] 7; mkNet OpReg [7] 2 ];
     mems := [ mkMem 0 2 2 None ] |}.

Example C03_example_flatten_shape :
  ids_okb ex_nl = true
  /\ shapeb true (flatten true ex_nl) = true /\ shapeb false (flatten false ex_nl) = true
  /\ wfb ex_small = true /\ synth_okb ex_small = true /\ ids_okb ex_small = true
  /\ wfb (flatten true ex_small) = true /\ shapeb true (flatten true ex_small) = true
  /\ wfb (flatten false ex_small) = true /\ shapeb false (flatten false ex_small) = true.
Proof. vm_compute. repeat split; reflexivity. Qed.

Definition ex_ins : list (wid -> Z) := [ (fun _ => 3); (fun _ => 7); (fun _ => 0); (fun _ => 6) ].
Definition ex_mem : list (Z * list (Z * Z)) := [ (0, [(3, 6); (5, 2)]) ].

(* both sides on a 4-cycle run: Output 10 carries the full-width difference
   (3 - 5 = 14 mod 16 on the first cycle: reset value 5, borrow set) *)
Example C03_example_trace :
  map (fun v => map v [7; 10; 2]) (fst (run ex_nl 0 (init_state ex_nl 0 [] ex_mem) ex_ins))
  = map (fun bv => map (fun w => bits_val bv w (wnat ex_nl w)) [7; 10; 2])
        (fst (grun ex_nl (ginit ex_nl [] ex_mem) ex_ins))
  /\ map (fun v => map v [7; 10; 2]) (fst (run ex_nl 0 (init_state ex_nl 0 [] ex_mem) ex_ins))
     = [[3; 14; 5]; [2; 5; 2]; [0; 0; 0]; [0; 6; 0]].
Proof. vm_compute. split; reflexivity. Qed.


(* Sem.run of the flattened synthesized netlist: Outputs 7 and 10 on every cycle
   are the original design's (cf. C03_example_trace) *)
Example C03_example_flatten_trace :
  map (fun v => map v [7; 10])
      (fst (run (flatten true ex_nl) 0 (flat_state ex_nl (ginit ex_nl [] ex_mem)) (map (flat_ins ex_nl) ex_ins)))
  = [[3; 14]; [2; 5]; [0; 0]; [0; 6]].
Proof. vm_compute. reflexivity. Qed.

(* write ports whose enable is a CONSTANT wire: the theorems make no case distinction
   on the kind of the enable wire (its bit comes from gbase like any other), so a
   port switched off at build time (Const 0) stays off after synthesis and a Const 1
   port stays on: memory 0 keeps its initial word, memory 1 takes the written one *)
Definition ex_en : netlist :=
  {| wires := [ mkWire 1 2 KInput; mkWire 2 2 KInput; mkWire 3 1 (KConst 0); mkWire 4 1 (KConst 1);
                mkWire 5 2 KOutput; mkWire 6 2 KOutput ];
     nets := [ mkNet (OpMemWr 0) [1; 2; 3] 0; mkNet (OpMemWr 1) [1; 2; 4] 0;
               mkNet (OpMemRd 0) [1] 5; mkNet (OpMemRd 1) [1] 6 ];
     mems := [ mkMem 0 2 2 None; mkMem 1 2 2 None ] |}.

Example C03_example_const_enable :
  wfb ex_en = true /\ synth_okb ex_en = true
  /\ map (fun v => map v [5; 6])
         (fst (run ex_en 0 (init_state ex_en 0 [] [(0, [(1, 3)]); (1, [(1, 3)])]) [ (fun _ => 1); (fun _ => 1) ]))
     = [[3; 3]; [3; 1]]
  /\ map (fun bv => map (fun w => bits_val bv w (wnat ex_en w)) [5; 6])
         (fst (grun ex_en (ginit ex_en [] [(0, [(1, 3)]); (1, [(1, 3)])]) [ (fun _ => 1); (fun _ => 1) ]))
     = [[3; 3]; [3; 1]].
Proof. vm_compute. repeat split; reflexivity. Qed.

(* the regenerated check accepts every net of the example designs (non-vacuity of the
   `_sanity_checked` theorems), and rejects what the premises exclude: operands of
   different widths (raise 15), a 2-bit mux select (raise 13) *)
Example C03_example_sanity_premises :
  widths_posb ex_nl = true /\ sanity_nets_okb ex_nl = true
  /\ widths_posb ex_small = true /\ sanity_nets_okb ex_small = true
  /\ widths_posb ex_en = true /\ sanity_nets_okb ex_en = true
  /\ check (shape_of (mkNetlist [mkWire 1 3 KInput; mkWire 2 2 KInput; mkWire 3 4 KWire] [] [])
                     (mkNet OpAdd [1; 2] 3)) = Some 15
  /\ check (shape_of (mkNetlist [mkWire 1 2 KInput; mkWire 2 2 KInput; mkWire 3 2 KWire] [] [])
                     (mkNet OpMux [1; 2; 2] 3)) = Some 13.
Proof. vm_compute. repeat split; reflexivity. Qed.

Example C03_example_sub : to_Z (basic_sub balg (of_Z 3 0) (of_Z 3 0)) = 0
  /\ to_Z (basic_sub balg (of_Z 3 2) (of_Z 3 5)) = 13.
Proof. vm_compute. split; reflexivity. Qed.

Example C03_example_mult : to_Z (basic_mult balg (of_Z 5 27) (of_Z 5 31)) = 837
  /\ length (basic_mult balg (of_Z 5 27) (of_Z 5 31)) = 10%nat.
Proof. vm_compute. split; reflexivity. Qed.
