(* C11 -- Copying and non-updating passes never disturb the source block.
   Only statements + `exact`; the proofs live in Pass/CopyProofs.v (pure model)
   Pass/CopyWF.v, Pass/CopySim.v (composition with C01) and Pass/CopyHeap.v
   (shared-heap model of Python object aliasing). *)
From PyRTL Require Import Netlist.Sem Netlist.WFDefs Sim.SimModel Sim.SimCorrect
  Pass.Copy Pass.CopyProofs Pass.CopyWF Pass.CopySim Pass.CopyGen Pass.CopyHeap.

(* (1) THE behavioural theorem.  For EVERY netlist, every injective map f of wire
   identities, every default value, register_value_map, memory_value_map and
   every input sequence: the design `rename f nl` (same classes, bitwidths,
   Const values, reset values, ROM contents, memory ids, net structure; other
   wire identities), started from reset with the corresponding initial values
   and fed the same values on corresponding Inputs, shows on every wire f w in
   every cycle exactly the value the source shows on w, and ends in the
   corresponding register state and the same memory contents.
   Only premise on the netlist: 'r'/'m' nets have their argument and '@' nets
   their three (part of sanity_check_net; implied by wfb, see below). *)
Theorem C11_rename_preserves_semantics :
  forall (f : wid -> wid), injective f ->
  forall nl dflt regmap memmap inss inss',
  seq_arity nl = true -> Forall2 (val_rel f) inss inss' ->
  Forall2 (val_rel f)
    (fst (run nl dflt (init_state nl dflt regmap memmap) inss))
    (fst (run (rename f nl) dflt (init_state (rename f nl) dflt (rename_map f regmap) memmap) inss'))
  /\ state_rel f
    (snd (run nl dflt (init_state nl dflt regmap memmap) inss))
    (snd (run (rename f nl) dflt (init_state (rename f nl) dflt (rename_map f regmap) memmap) inss')).
Proof. exact rename_preserves_semantics. Qed.
Print Assumptions C11_rename_preserves_semantics.

(* ... and from ANY pair of corresponding states (e.g. after any history) *)
Theorem C11_rename_preserves_run :
  forall (f : wid -> wid), injective f ->
  forall nl dflt inss inss' st st',
  seq_arity nl = true -> state_rel f st st' -> Forall2 (val_rel f) inss inss' ->
  Forall2 (val_rel f) (fst (run nl dflt st inss)) (fst (run (rename f nl) dflt st' inss'))
  /\ state_rel f (snd (run nl dflt st inss)) (snd (run (rename f nl) dflt st' inss')).
Proof. exact rename_preserves_run. Qed.
Print Assumptions C11_rename_preserves_run.

Theorem C11_wellformed_has_arity : forall nl, wfb nl = true -> seq_arity nl = true.
Proof. exact wfb_seq_arity. Qed.
Print Assumptions C11_wellformed_has_arity.

(* well-formedness (the premise of C01) is invariant under renaming, so the
   copy of a well-formed design is well-formed ... *)
Theorem C11_wfb_invariant_under_renaming : forall (f : wid -> wid), injective f ->
  forall nl, wfb (rename f nl) = wfb nl.
Proof. exact wfb_rename. Qed.
Print Assumptions C11_wfb_invariant_under_renaming.

(* ... and C01 composes on both sides: the model of pyrtl.Simulation run on the
   renamed design shows on every declared wire, in every cycle, an in-range
   value equal to what it shows on the source
   (Simulation(src) =C01= Sem(src) =C11= Sem(copy) =C01= Simulation(copy)). *)
Theorem C11_simulation_of_renaming_agrees :
  forall (f : wid -> wid), injective f ->
  forall nl dflt regmap memmap inss inss',
  wfb nl = true -> legal_init nl dflt regmap -> Forall (legal_ins nl) inss ->
  Forall2 (val_rel f) inss inss' ->
  Forall2 (fun v v' => forall x, In x (wires nl) ->
                       v' (f (wname x)) = v (wname x)
                       /\ inrange (v' (f (wname x))) (width_of nl (wname x)))
    (fst (sim_run nl dflt (sim_init nl dflt regmap memmap) inss))
    (fst (sim_run (rename f nl) dflt
            (sim_init (rename f nl) dflt (rename_map f regmap) memmap) inss')).
Proof. exact sim_of_renaming_agrees. Qed.
Print Assumptions C11_simulation_of_renaming_agrees.

(* "is a renaming of" is symmetric: renaming back by a left inverse restores the
   source, attribute for attribute *)
Theorem C11_renaming_invertible : forall f g nl,
  (forall w, g (f w) = w) -> rename g (rename f nl) = nl.
Proof. exact rename_left_inverse. Qed.
Print Assumptions C11_renaming_invertible.

(* (2) copy_block.  Whatever clone_wire does to the per-class attributes (ck),
   the copy is the renaming -- under the injective fresh-identity map -- of the
   source with ck applied; memories keep id, widths and ROM contents. *)
Theorem C11_copy_is_renaming_modulo_clone : forall ck nl,
  fst (copy_with ck nl) = rename (snd (copy_with ck nl)) (map_kinds ck nl)
  /\ injective (snd (copy_with ck nl)).
Proof. intros ck nl. split; [apply copy_with_rename|apply fresh_map_injective]. Qed.
Print Assumptions C11_copy_is_renaming_modulo_clone.

(* hence: a clone_wire that keeps every attribute gives a copy isomorphic to the
   source, reset values and ROM data included ... *)
Theorem C11_copy_isomorphic_if_clone_keeps_attributes : forall ck nl,
  (forall k, ck k = k) -> fst (copy_with ck nl) = rename (snd (copy_with ck nl)) nl.
Proof. exact copy_isomorphic_of. Qed.
Print Assumptions C11_copy_isomorphic_if_clone_keeps_attributes.

(* ... and behaviourally identical to it from reset (corollary of (1)) *)
Theorem C11_copy_spec_behaviour : forall nl dflt regmap memmap inss,
  seq_arity nl = true ->
  let '(cp, f) := copy_block_spec nl in
  Forall2 (val_rel f)
    (fst (run nl dflt (init_state nl dflt regmap memmap) inss))
    (fst (run cp dflt (init_state cp dflt (rename_map f regmap) memmap)
              (map (shift_ins (fresh_offset nl)) inss))).
Proof. exact copy_spec_behaviour. Qed.
Print Assumptions C11_copy_spec_behaviour.

(* non-updating passes: synthesize/optimize(update_working_block=False) run the
   pass on copy_block's result, i.e. on an isomorphic design over fresh
   identities; the source is not an argument of the pass (source-untouched is
   STRUCTURAL in the functional model -- its content is in the implementation
   check), and what the pass owes the caller is its own correctness (C03/C04)
   on a design that by (1) behaves exactly like the source. *)
Theorem C11_nonupdating_pass_runs_on_isomorphic_copy : forall (pass : netlist -> netlist) nl,
  nonupdating pass nl = pass (rename (fresh_map nl) nl)
  /\ injective (fresh_map nl)
  /\ wfb (rename (fresh_map nl) nl) = wfb nl.
Proof.
  intros pass nl. split; [apply nonupdating_on_renaming|].
  split; [apply fresh_map_injective|apply wfb_rename; apply fresh_map_injective].
Qed.
Print Assumptions C11_nonupdating_pass_runs_on_isomorphic_copy.

(* The full statement for the code as it is: *)
Definition C11_copy_isomorphic_statement : Prop :=
  forall nl, fst (copy_block nl) = rename (snd (copy_block nl)) nl.

(* `clone_kind` is read off Gen/CopyAttrs.v `gen_clone_wire`, REGENERATED on every
   run from the source of transform.clone_wire by py/genfrag_C11.py: the full
   statement is re-proved against what the code says now. *)
Theorem C11_copy_isomorphic : C11_copy_isomorphic_statement.
Proof. exact copy_isomorphic_current. Qed.
Print Assumptions C11_copy_isomorphic.

(* The translated fragments (Gen/CopyAttrs.v, nothing hand-written):
   clone_wire keeps class, bitwidth, Const value and Register reset_value for
   every wire class ... *)
Theorem C11_clone_wire_keeps_every_attribute : forall name x,
  gen_clone_wire name x = mkWire name (wwidth x) (wkind x).
Proof. exact gen_clone_wire_keeps. Qed.
Print Assumptions C11_clone_wire_keeps_every_attribute.

(* ... the clone loop of _clone_block_and_wires covers every declared wire ... *)
Theorem C11_generated_clone_loop_covers_every_wire : forall f ws x,
  In x ws -> In (gen_clone_wire (f (wname x)) x) (gen_clone_wires f ws).
Proof. exact gen_clone_wires_all. Qed.
Print Assumptions C11_generated_clone_loop_covers_every_wire.

(* ... _make_copy followed by `new_mem.id = old_mem.id` keeps the part of a
   memory the netlist semantics reads (id, widths, ROM contents) whatever id the
   constructor drew; a MemBlock copy keeps EVERY constructor attribute (name,
   widths, asynchronous, max_read_ports, max_write_ports); a RomBlock copy keeps
   every one (incl. romdata and pad_with_zeros) EXCEPT build_new_roms, which
   RomBlock._make_copy does not pass ... *)
Theorem C11_memory_copy_keeps_netlist_part : forall fid a,
  core_mem (gen_get_new_block_mem_instance fid a) = core_mem a.
Proof. exact gen_mem_copy_core. Qed.
Print Assumptions C11_memory_copy_keeps_netlist_part.

Theorem C11_memblock_copy_keeps_all_attributes : forall fid a,
  ma_rom a = None -> ma_pad a = false -> ma_newroms a = false ->
  gen_get_new_block_mem_instance fid a = a.
Proof. exact gen_memblock_copy_keeps_all. Qed.
Print Assumptions C11_memblock_copy_keeps_all_attributes.

Theorem C11_romblock_copy_keeps_all_but_build_new_roms : forall fid a,
  is_rom a = true -> ma_max_write a = Some 0 ->
  gen_get_new_block_mem_instance fid a = without_newroms a
  /\ (ma_newroms a = false -> gen_get_new_block_mem_instance fid a = a).
Proof.
  intros fid a H1 H2. split; [exact (gen_romblock_copy_keeps fid a H1 H2)|].
  exact (gen_romblock_copy_keeps_all fid a H1 H2).
Qed.
Print Assumptions C11_romblock_copy_keeps_all_but_build_new_roms.

(* ... and copy_block assembled from ONLY those fragments (gen_clone_wires,
   gen_copy_net, gen_make_copy_mem) is the model every theorem above is about:
   it is the renaming of the source under an injective map, and behaves like the
   source from reset on every wire, every cycle, every input sequence. *)
Theorem C11_generated_copy_is_model : forall nl, copy_block_gen nl = copy_block nl.
Proof. exact copy_block_gen_is_model. Qed.
Print Assumptions C11_generated_copy_is_model.

Theorem C11_generated_copy_isomorphic : forall nl,
  fst (copy_block_gen nl) = rename (snd (copy_block_gen nl)) nl /\ injective (snd (copy_block_gen nl)).
Proof. exact copy_gen_isomorphic. Qed.
Print Assumptions C11_generated_copy_isomorphic.

Theorem C11_generated_copy_behaviour : forall nl dflt regmap memmap inss,
  seq_arity nl = true ->
  let '(cp, f) := copy_block_gen nl in
  Forall2 (val_rel f)
    (fst (run nl dflt (init_state nl dflt regmap memmap) inss))
    (fst (run cp dflt (init_state cp dflt (rename_map f regmap) memmap)
              (map (shift_ins (fresh_offset nl)) inss))).
Proof. exact copy_gen_behaviour. Qed.
Print Assumptions C11_generated_copy_behaviour.

(* What the defect F2 was (kept as a regression theorem about the defective
   clone policy `clone_kind_f2`, KReg _ |-> KReg None): for
   r = Register(4, reset_value=5); r.next <<= r + 1; o <<= r  the source shows
   [5;6] on o, the F2 copy [0;1], and the F2 copy is not a renaming of the source. *)
Theorem C11_copy_reset_refuted_under_f2 :
  out_trace f2_nl 5 2 = [5; 6]
  /\ out_trace (fst (copy_with clone_kind_f2 f2_nl)) (snd (copy_with clone_kind_f2 f2_nl) 5) 2 = [0; 1]
  /\ fst (copy_with clone_kind_f2 f2_nl) <> rename (snd (copy_with clone_kind_f2 f2_nl)) f2_nl.
Proof. exact (copy_reset_refuted_of clone_kind_f2 eq_refl (fun _ => eq_refl) eq_refl eq_refl). Qed.
Print Assumptions C11_copy_reset_refuted_under_f2.

(* pins that no net mentions (a reserved Input, a pin left dangling by an earlier
   in-place optimize, an unused Const) are wires of the block like any other:
   every declared wire has its clone, and the copy has the source's interface
   (every Input/Output pin, same width and class, at the corresponding identity) *)
Theorem C11_copy_keeps_every_declared_wire : forall ck nl x,
  In x (wires nl) -> In (clone_wire ck (fresh_map nl) x) (wires (fst (copy_with ck nl))).
Proof. exact copy_keeps_every_declared_wire. Qed.
Print Assumptions C11_copy_keeps_every_declared_wire.

Theorem C11_copy_keeps_interface : forall nl,
  iface (fst (copy_block nl))
  = map (fun p => (snd (copy_block nl) (fst (fst p)), snd (fst p), snd p)) (iface nl).
Proof. exact copy_block_interface. Qed.
Print Assumptions C11_copy_keeps_interface.

(* (3) identities: no wire of the copy is a wire of the source; same counts;
   memories re-instantiated under the same ids *)
Theorem C11_copy_disjoint : forall ck nl x y,
  In x (wires nl) -> In y (wires (fst (copy_with ck nl))) -> wname x <> wname y.
Proof. exact copy_disjoint. Qed.
Print Assumptions C11_copy_disjoint.

Theorem C11_copy_counts : forall ck nl,
  length (wires (fst (copy_with ck nl))) = length (wires nl)
  /\ length (nets (fst (copy_with ck nl))) = length (nets nl)
  /\ map mid (mems (fst (copy_with ck nl))) = map mid (mems nl).
Proof. exact copy_counts. Qed.
Print Assumptions C11_copy_counts.

(* the fingerprint the check compares leaves nothing out: equal fingerprints
   <-> equal designs (hence equal traces) *)
Theorem C11_fingerprint_complete : forall a b, fingerprint a = fingerprint b <-> a = b.
Proof. exact fingerprint_complete. Qed.
Print Assumptions C11_fingerprint_complete.

(* (4a) independence in the functional model.  STRUCTURAL: source and result
   are two values, an edit of one is not a function of the other.  (The model
   cannot exhibit aliasing; see (4b) and the implementation check.) *)
Theorem C11_independent_edits_functional : forall es w,
  fingerprint (snd (fold_left (fun w e => edit_fst e w) es w)) = fingerprint (snd w)
  /\ fingerprint (fst (fold_left (fun w e => edit_snd e w) es w)) = fingerprint (fst w).
Proof. exact independent_edits. Qed.
Print Assumptions C11_independent_edits_functional.

(* (4b) independence in a model WITH aliasing: blocks are sets of object
   addresses into one shared heap of mutable wire/memory objects (Python's
   object graph).  If the address sets of two blocks are disjoint -- what the
   check measures with id() on the real objects -- then no sequence of edits
   issued through one block (attribute mutation of its own objects, allocation
   of new objects, adding/removing nets and wires) changes the fingerprint of
   the other, and disjointness itself is preserved. *)
Theorem C11_disjoint_blocks_independent : forall ops h a b,
  hdisjoint a b -> owned_fresh h a b ->
  let '(h', a') := run_ops ops h a in
  hfingerprint h' b = hfingerprint h b /\ hdisjoint a' b.
Proof. exact disjoint_independent. Qed.
Print Assumptions C11_disjoint_blocks_independent.

(* and the converse direction, showing the premise is needed: with one shared
   wire object an attribute edit through block a changes b's fingerprint *)
Theorem C11_shared_object_not_independent :
  exists h a b op, ~ hdisjoint a b /\ hfingerprint (fst (run_ops [op] h a)) b <> hfingerprint h b.
Proof. exact shared_not_independent. Qed.
Print Assumptions C11_shared_object_not_independent.

(* (3b,4c) copying IN the heap model: clone every reachable object at a fresh
   address.  The copy reaches no object of any block that existed before; making
   it changes no existing block's fingerprint; and after ANY sequence of edits
   through the copy the source's fingerprint is still what it was. *)
Theorem C11_heap_copy_disjoint : forall ck h b c,
  owned h b -> owned h c -> hdisjoint (snd (hcopy ck h b)) c.
Proof. exact hcopy_disjoint. Qed.
Print Assumptions C11_heap_copy_disjoint.

Theorem C11_heap_copy_isomorphic : forall h b,
  owned h b ->
  hfingerprint (fst (hcopy (fun o => o) h b)) (snd (hcopy (fun o => o) h b)) = hfingerprint h b.
Proof. exact hcopy_isomorphic. Qed.
Print Assumptions C11_heap_copy_isomorphic.

Theorem C11_heap_copy_preserves_others : forall ck h b c,
  owned h b -> owned h c -> hfingerprint (fst (hcopy ck h b)) c = hfingerprint h c.
Proof. exact hcopy_preserves_others. Qed.
Print Assumptions C11_heap_copy_preserves_others.

Theorem C11_heap_copy_then_edits_independent : forall ck ops h b,
  owned h b ->
  let '(h1, cp) := hcopy ck h b in
  let '(h2, cp') := run_ops ops h1 cp in
  hfingerprint h2 b = hfingerprint h b.
Proof. exact hcopy_then_edits_independent. Qed.
Print Assumptions C11_heap_copy_then_edits_independent.

(* ---- non-vacuity *)
Definition ex_nl : netlist :=
  {| wires := [ mkWire 1 3 KInput; mkWire 2 3 (KReg (Some 5)); mkWire 3 3 KWire;
                mkWire 4 3 KWire; mkWire 5 6 KWire; mkWire 6 2 KOutput;
                mkWire 7 1 (KConst 1); mkWire 8 3 KWire; mkWire 9 3 KWire ];
     nets := [ mkNet OpSub [1; 2] 3; mkNet OpNand [1; 3] 4; mkNet OpConcat [3; 4] 5;
               mkNet (OpSelect [5; 0]) [5] 6; mkNet (OpMemRd 0) [4] 8; mkNet (OpMemRd 1) [3] 9;
               mkNet (OpMemWr 0) [1; 3; 7] 0; mkNet OpReg [8] 2 ];
     mems := [ mkMem 0 3 3 None; mkMem 1 3 3 (Some [(0, 7); (1, 6); (2, 5); (7, 1)]) ] |}.

Definition ex_ins : list (wid -> Z) :=
  [ (fun _ => 3); (fun _ => 7); (fun _ => 0) ].

Definition probe_at (ids : list wid) (vs : list (wid -> Z)) : list (list Z) :=
  map (fun v => map v ids) vs.

(* a design with a register (reset 5), a memory, a ROM: premises hold, the
   identities of the copy are fresh (offset 10), and the required copy computes
   the source's 3-cycle trace on the shifted identities *)
Example C11_example_premises :
  wfb ex_nl = true /\ seq_arity ex_nl = true /\ fresh_offset ex_nl = 10.
Proof. vm_compute. repeat split; reflexivity. Qed.

Example C11_example_copy_trace :
  let '(cp, f) := copy_block_spec ex_nl in
  probe_at (map f [1; 2; 3; 4; 5; 6; 8; 9])
    (fst (run cp 0 (init_state cp 0 [] []) (map (shift_ins 10) ex_ins)))
  = probe_at [1; 2; 3; 4; 5; 6; 8; 9] (fst (run ex_nl 0 (init_state ex_nl 0 [] []) ex_ins))
  /\ probe_at [1; 2; 3; 4; 5; 6; 8; 9] (fst (run ex_nl 0 (init_state ex_nl 0 [] []) ex_ins))
     = [[3; 5; 6; 5; 53; 3; 0; 0]; [7; 0; 7; 0; 56; 1; 0; 1]; [0; 0; 0; 7; 7; 2; 7; 7]].
Proof. vm_compute. split; reflexivity. Qed.

(* a clone_wire that drops reset_value (F2) differs from the required copy
   exactly on reset values *)
Example C11_example_f2_vs_spec :
  fp_code (fst (copy_with clone_kind_f2 ex_nl)) <> fp_code (fst (copy_block_spec ex_nl))
  /\ fp_code (fst (copy_block_spec (map_kinds clone_kind_f2 ex_nl))) = fp_code (fst (copy_with clone_kind_f2 ex_nl)).
Proof. vm_compute. split; [intro H; discriminate H|reflexivity]. Qed.

(* heap model: a block with a register object, a memory object and a net; its
   copy lives at fresh addresses, sees the same attributes, and edits through
   the copy (reset_value assignment, a new wire, a new net) change the copy's
   fingerprint but not the source's *)
Definition ex_heap : heap :=
  [(1, OWire 1 4 (KReg (Some 5))); (2, OWire 2 4 KOutput); (3, OMem (mkMem 0 2 4 None))].
Definition ex_hb : hblock := mkHB [1; 2] [3] [mkHNet (OpMemRd 3) [1] [2]].

Example C11_example_heap :
  let '(h1, cp) := hcopy (fun o => o) ex_heap ex_hb in
  let ops := [HMutate 5 (OWire 1 4 (KReg (Some 9))); HAllocWire (OWire 7 1 KWire);
              HAddNet (mkHNet OpW [5] [6])] in
  let '(h2, cp') := run_ops ops h1 cp in
  reach cp = [5; 6; 7; 5; 6; 7]
  /\ hfingerprint h1 cp = hfingerprint ex_heap ex_hb
  /\ hfingerprint h2 cp' <> hfingerprint h1 cp
  /\ hfingerprint h2 ex_hb = hfingerprint ex_heap ex_hb.
Proof. vm_compute. repeat split; try reflexivity. intro H. discriminate H. Qed.

(* a design with a reserved Input pin (wire 3) and an unused Const (wire 4) that
   no net mentions: well-formed, the copy declares both, has the same interface,
   and computes the same trace whatever is fed to the dangling pin *)
Definition ex_pins : netlist :=
  {| wires := [ mkWire 1 4 KInput; mkWire 2 4 KOutput; mkWire 3 2 KInput; mkWire 4 3 (KConst 5) ];
     nets := [ mkNet OpNot [1] 2 ];
     mems := [] |}.

Example C11_example_dangling_pins :
  wfb ex_pins = true
  /\ fp_code (fst (copy_block ex_pins)) = fp_code (rename (snd (copy_block ex_pins)) ex_pins)
  /\ iface (fst (copy_block ex_pins)) = [(6, 4, KInput); (7, 4, KOutput); (8, 2, KInput)]
  /\ (let '(cp, f) := copy_block ex_pins in
      probe_at (map f [1; 2; 3])
        (fst (run cp 0 (init_state cp 0 [] []) (map (shift_ins 5) [(fun w => w + 2); (fun _ => 3)])))
      = probe_at [1; 2; 3] (fst (run ex_pins 0 (init_state ex_pins 0 [] []) [(fun w => w + 2); (fun _ => 3)]))).
Proof. vm_compute. repeat split; reflexivity. Qed.

(* attribute records satisfying the premises of the memory-copy theorems: a
   read/write MemBlock and a padded RomBlock; the generated copy of the ROM with
   build_new_roms=True differs from it exactly there *)
Example C11_example_memory_attributes :
  let m := mkMAttrs 7 11 8 3 true None (Some 1) None false false in
  let r := mkMAttrs 9 12 4 2 true (Some 2) (Some 0) (Some [(0, 5); (1, 3)]) true false in
  let r' := mkMAttrs 9 12 4 2 true (Some 2) (Some 0) (Some [(0, 5); (1, 3)]) true true in
  gen_get_new_block_mem_instance 100 m = m /\ gen_get_new_block_mem_instance 101 r = r
  /\ gen_get_new_block_mem_instance 102 r' = r /\ r' <> r.
Proof. vm_compute. repeat split; try reflexivity. intro H. discriminate H. Qed.

(* a full-width select in non-ascending bit order (w[::-1]) is a select like any
   other for (1): the copy reverses the bits exactly as the source does (input 1
   shows 8, 6 shows 6, 13 shows 11 on the 4-bit output), it is NOT the identity *)
Definition ex_rev : netlist :=
  {| wires := [ mkWire 1 4 KInput; mkWire 2 4 KOutput ];
     nets := [ mkNet (OpSelect [3; 2; 1; 0]) [1] 2 ];
     mems := [] |}.

Example C11_example_bit_reversal :
  let ins := [(fun _ => 1); (fun _ => 6); (fun _ => 13)] in
  let '(cp, f) := copy_block_gen ex_rev in
  wfb ex_rev = true
  /\ probe_at [2] (fst (run ex_rev 0 (init_state ex_rev 0 [] []) ins)) = [[8]; [6]; [11]]
  /\ probe_at [f 2] (fst (run cp 0 (init_state cp 0 [] []) (map (shift_ins (fresh_offset ex_rev)) ins)))
     = [[8]; [6]; [11]].
Proof. vm_compute. repeat split; reflexivity. Qed.
