(* C09 -- Lowering / restructuring passes preserve behaviour and meet their
   postconditions.  Only statements + `exact`; proofs in Pass/RewriteSound.v
   (generic lemma), Pass/GateSound.v + Pass/LowerSound.v (rule lemmas),
   Pass/LowerPost.v + Pass/FanoutPost.v (postconditions), Pass/LowerTheorems.v
   (assembly), Pass/LowerCompose.v (orderings), Pass/Stable.v + Pass/DcoSound.v +
   Pass/FanoutSound.v (graph-edit passes).  Decidable hypotheses: Pass/LowerHyps.v
   (evaluated by the harness on every design).
   The model is Pass/Lower.v; the gate right-hand sides come from
   Gen/LowerRules.v, regenerated from pyrtl/passes.py on every run. *)
From PyRTL Require Import Pass.Lower Pass.LowerHyps Pass.RewriteSound Pass.GateSound Pass.LowerSound
  Pass.LowerPost Pass.LowerTheorems Pass.LowerCompose Pass.Stable Pass.FanoutPost Pass.DcoSound
  Pass.FanoutSound Pass.LowerIdem Gen.LowerRules Netlist.Sanity.

(* ===== (2) the generic lemma ===== *)
(* A rule that, net by net, yields a sub-netlist computing on the old
   destination what the old net computed, from the same arguments, writing only
   fresh wires ([rule_ok]), preserves -- for EVERY state and EVERY input sequence,
   cycle by cycle -- the value of every old wire, and the registers and memories. *)
Theorem C09_local_rewrite_sound : forall P rl nl,
  rule_ok P rl nl (fresh nl) -> Forall P (nets nl) ->
  forall dflt st inss,
    Forall2 (agree (fresh nl)) (fst (run nl dflt st inss)) (fst (run (apply_rule rl nl) dflt st inss))
    /\ st_eq (snd (run nl dflt st inss)) (snd (run (apply_rule rl nl) dflt st inss)).
Proof. exact local_rewrite_sound. Qed.
Print Assumptions C09_local_rewrite_sound.

(* ===== (1) the rule lemmas, all widths and all values ===== *)
(* ANY gate program whose 1-bit truth table is that of the 2-input op it
   replaces ([rules_ok]: a decidable check) is a sound rewrite at every width:
   bitwise identities by Z.testbit extensionality, no range assumption on the
   argument values. *)
Theorem C09_gate_rule_all_widths : forall keep rules nl B,
  rules_ok rules = true -> rule_ok (gate_net_ok nl) (gate_rule keep rules) nl B.
Proof. exact gate_rule_ok. Qed.
Print Assumptions C09_gate_rule_all_widths.

(* the tables translated from passes.py pass that check: & | ^ via nand/not ... *)
Theorem C09_nand_synth_rules_truth_tables : rules_ok nand_synth_rules = true.
Proof. exact nand_synth_rules_ok. Qed.
Print Assumptions C09_nand_synth_rules_truth_tables.

(* ... and | ^ n via and/not (holds since the xor right-hand side was repaired) *)
Theorem C09_and_inverter_synth_rules_truth_tables : rules_ok and_inverter_synth_rules = true.
Proof. exact and_inverter_synth_rules_ok. Qed.
Print Assumptions C09_and_inverter_synth_rules_truth_tables.

(* n-ary concat = left fold of 2-way concats (associativity; intermediate
   results reduced modulo their width) *)
Theorem C09_two_way_concat_rule : forall nl B,
  rule_ok (concat_net_ok nl) two_way_concat_rule nl B.
Proof. exact two_way_concat_rule_ok. Qed.
Print Assumptions C09_two_way_concat_rule.

(* select = concat of 1-bit selects (of the low len(dest) indices) *)
Theorem C09_one_bit_selects_rule : forall nl B,
  rule_ok (select_net_ok nl) one_bit_selects_rule nl B.
Proof. exact one_bit_selects_rule_ok. Qed.
Print Assumptions C09_one_bit_selects_rule.

(* ===== behaviour preservation of the four rule-based passes =====
   for every netlist accepted by the sanity_check model: every declared wire (so
   every Output) has the same value on every cycle of every input sequence from
   every state; registers and memories stay equal. *)
Theorem C09_nand_synth_preserves : forall nl,
  sanity_block nl = true -> preserved nl (nand_synth nl).
Proof. exact nand_synth_preserves_sane. Qed.
Print Assumptions C09_nand_synth_preserves.

Theorem C09_and_inverter_synth_preserves : forall nl,
  sanity_block nl = true -> preserved nl (and_inverter_synth nl).
Proof. exact and_inverter_synth_preserves_sane. Qed.
Print Assumptions C09_and_inverter_synth_preserves.

Theorem C09_two_way_concat_preserves : forall nl,
  sanity_block nl = true -> preserved nl (two_way_concat nl).
Proof. exact two_way_concat_preserves_sane. Qed.
Print Assumptions C09_two_way_concat_preserves.

Theorem C09_one_bit_selects_preserves : forall nl,
  sanity_block nl = true -> preserved nl (one_bit_selects nl).
Proof. exact one_bit_selects_preserves_sane. Qed.
Print Assumptions C09_one_bit_selects_preserves.

(* ===== (3) postconditions, all netlists ===== *)
Theorem C09_nand_synth_post : forall nl,
  pre_nand_synth nl = true -> post_nand_synth (nand_synth nl) = true.
Proof. exact nand_synth_post. Qed.
Print Assumptions C09_nand_synth_post.

Theorem C09_and_inverter_synth_post : forall nl,
  pre_and_inverter_synth nl = true -> post_and_inverter_synth (and_inverter_synth nl) = true.
Proof. exact and_inverter_synth_post. Qed.
Print Assumptions C09_and_inverter_synth_post.

Theorem C09_two_way_concat_post : forall nl next,
  post_two_way_concat (apply_rule_at next two_way_concat_rule nl) = true.
Proof. exact two_way_concat_post. Qed.
Print Assumptions C09_two_way_concat_post.

Theorem C09_one_bit_selects_post : forall nl,
  sanity_block nl = true -> post_one_bit_selects (one_bit_selects nl) = true.
Proof. exact one_bit_selects_post_sane. Qed.
Print Assumptions C09_one_bit_selects_post.

(* two_way_fanout, the tree lemma (induction on the fuel = number of uses): in
   _make_tree's result the root is read once, every new wire exactly twice,
   nothing else; and it has one leaf per use. *)
Theorem C09_fanout_tree_counts : forall fuel w n next tn lv nx,
  w < next -> make_tree fuel w n next = (tn, lv, nx) ->
  forall x, count x (flat_map nargs tn ++ lv)
            = if x =? w then 1%nat else if (next <=? x) && (x <? nx) then 2%nat else 0%nat.
Proof. exact make_tree_counts. Qed.
Print Assumptions C09_fanout_tree_counts.

Theorem C09_fanout_tree_leaves : forall fuel w n next tn lv nx,
  (n <= fuel)%nat -> (1 <= n)%nat -> make_tree fuel w n next = (tn, lv, nx) -> length lv = n.
Proof. exact make_tree_leaves. Qed.
Print Assumptions C09_fanout_tree_leaves.

(* two_way_fanout, the whole netlist: no non-Output wire is read by more than two
   argument positions (accounting over the table of pending trees + the tree lemma) *)
Theorem C09_two_way_fanout_post : forall nl,
  sanity_block nl = true -> post_two_way_fanout (two_way_fanout nl) = true.
Proof. exact two_way_fanout_post_sane. Qed.
Print Assumptions C09_two_way_fanout_post.

Theorem C09_two_way_fanout_post_unique_names : forall nl next,
  fresh nl <= next -> NoDup (map wname (wires nl)) ->
  post_two_way_fanout (two_way_fanout_at next nl) = true.
Proof. exact two_way_fanout_post_at. Qed.
Print Assumptions C09_two_way_fanout_post_unique_names.

(* ===== pass ORDERINGS: every sequence of the four rule-based passes =====
   [lower_okb] (decidable: gate nets have two equal-width arguments and a
   destination no wider; concat destinations no wider than the sum; widths >= 0;
   implied by sanity_block) is re-established by each rule-based pass, so any
   sequence, in any order and of any length, preserves behaviour. *)
Theorem C09_rule_pass_keeps_hypotheses : forall p nl, lower_ok nl -> lower_ok (run_rpass p nl).
Proof. exact rpass_lower_ok. Qed.
Print Assumptions C09_rule_pass_keeps_hypotheses.

Theorem C09_rule_pass_sequences_preserve : forall ps nl,
  lower_okb nl = true -> preserved nl (run_rpasses ps nl).
Proof. exact rule_pass_sequences_preserve_b. Qed.
Print Assumptions C09_rule_pass_sequences_preserve.

Theorem C09_rule_pass_sequences_preserve_sane : forall ps nl,
  sanity_block nl = true -> preserved nl (run_rpasses ps nl).
Proof. exact rule_pass_sequences_preserve_sane. Qed.
Print Assumptions C09_rule_pass_sequences_preserve_sane.

(* ===== a pass applied TWICE =====
   nand_synth, and_inverter_synth, two_way_concat and direct_connect_outputs are
   idempotent: the second run leaves the result of the first exactly as it is.
   (one_bit_selects and two_way_fanout are not idempotent in the code -- every
   select is rewritten again, a buffer with two readers gets a tree again; the
   general preservation and postcondition theorems cover their second run, see
   C09_example_twice.) *)
Theorem C09_nand_synth_idempotent : forall nl,
  pre_nand_synth nl = true -> nand_synth (nand_synth nl) = nand_synth nl.
Proof. exact nand_synth_idem. Qed.
Print Assumptions C09_nand_synth_idempotent.

Theorem C09_and_inverter_synth_idempotent : forall nl,
  pre_and_inverter_synth nl = true -> and_inverter_synth (and_inverter_synth nl) = and_inverter_synth nl.
Proof. exact and_inverter_synth_idem. Qed.
Print Assumptions C09_and_inverter_synth_idempotent.

Theorem C09_two_way_concat_idempotent : forall nl,
  two_way_concat (two_way_concat nl) = two_way_concat nl.
Proof. exact two_way_concat_idem. Qed.
Print Assumptions C09_two_way_concat_idempotent.

Theorem C09_direct_connect_outputs_idempotent : forall nl,
  sanity_block nl = true -> direct_connect_outputs (direct_connect_outputs nl) = direct_connect_outputs nl.
Proof. exact dco_idem. Qed.
Print Assumptions C09_direct_connect_outputs_idempotent.

(* ===== the graph-edit passes preserve behaviour =====
   Shared tool: on a sequentially ordered netlist ([seq_okb]: legal arities,
   single driver, written before read) Sem.comb computes THE valuation that every
   combinational net leaves unchanged and that extends the cycle-start values. *)
Theorem C09_comb_stable : forall nl st ns v0, seq_okb ns = true ->
  let v := fold_left (exec_spec nl st) ns v0 in
  stable nl st ns v /\ (forall w, ~ In w (cdests ns) -> v w = v0 w).
Proof. exact comb_stable. Qed.
Print Assumptions C09_comb_stable.

Theorem C09_stable_unique : forall nl st ns v1 v2, seq_okb ns = true ->
  stable nl st ns v1 -> stable nl st ns v2 ->
  (forall w, ~ In w (cdests ns) -> In w (cargs ns) -> v1 w = v2 w) ->
  forall w, In w (cdests ns) -> v1 w = v2 w.
Proof. exact stable_unique. Qed.
Print Assumptions C09_stable_unique.

(* direct_connect_outputs (the whole loop): every wire the result still declares
   -- every Input, Output, Register -- has the same value on every cycle of every
   input sequence from every state; registers and memories stay equal.  No range
   assumption.  [dco_okb]: at every changing pass the netlist and the pass result
   are sequentially ordered, no net reads an Output, non-combinational nets have
   legal arity and registers are not combinationally driven. *)
Theorem C09_direct_connect_outputs_preserves : forall nl,
  dco_okb nl = true -> preservedW nl (direct_connect_outputs nl).
Proof. exact direct_connect_outputs_preserves. Qed.
Print Assumptions C09_direct_connect_outputs_preserves.

(* two_way_fanout: every old wire has the same value on every cycle, for every
   run whose cycle-start values (inputs, registers, constants, default) are in
   range.  [fanout_okb]: the netlist and the result are sequentially ordered and
   the table of trees is consistent (every tree net is a 'w' net between wires of
   one tree of the root's width; new wires that are read are driven). *)
Theorem C09_two_way_fanout_preserves : forall nl,
  fanout_okb (fresh nl) nl = true ->
  forall dflt st inss, legal_run nl dflt st inss ->
    Forall2 (same_on_wires nl) (fst (run nl dflt st inss)) (fst (run (two_way_fanout nl) dflt st inss))
    /\ st_eq (snd (run nl dflt st inss)) (snd (run (two_way_fanout nl) dflt st inss)).
Proof. exact two_way_fanout_preserves. Qed.
Print Assumptions C09_two_way_fanout_preserves.

(* legal_run follows from in-range constants/default, inputs and initial registers *)
Theorem C09_legal_run_of : forall nl dflt, legal_static nl dflt ->
  forall inss st, Forall (legal_ins nl) inss -> legal_regs nl (sregs st) -> legal_run nl dflt st inss.
Proof. exact legal_run_of. Qed.
Print Assumptions C09_legal_run_of.

(* ===== non-vacuity: a sane design exercising every rule ===== *)
Definition ex_nl : netlist :=
  mkNetlist [mkWire 1 3 KInput; mkWire 2 3 KInput; mkWire 3 3 KWire; mkWire 4 3 KOutput;
             mkWire 5 2 KOutput; mkWire 6 2 KWire; mkWire 7 9 KWire; mkWire 8 8 KOutput;
             mkWire 9 3 KWire; mkWire 10 3 KWire; mkWire 11 3 KOutput; mkWire 12 3 (KReg (Some 5));
             mkWire 13 3 KWire; mkWire 14 3 KOutput]
    [mkNet OpXor [1; 2] 3; mkNet OpW [3] 4; mkNet (OpSelect [0; 2; 2]) [3] 6; mkNet OpW [6] 5;
     mkNet OpConcat [1; 3; 2] 7; mkNet OpW [7] 8; mkNet OpOr [1; 12] 9; mkNet OpNand [9; 3] 10;
     mkNet OpAnd [10; 10] 13; mkNet OpW [13] 14;
     mkNet OpW [10] 11; mkNet OpReg [9] 12] [].

Definition ex_outs (vs : list (wid -> Z)) : list (list Z) := map (fun v => map v [4; 5; 8; 11; 14]) vs.
Definition ex_run (nl : netlist) : list (list Z) :=
  ex_outs (fst (run nl 0 (init_state nl 0 [] [])
                    [(fun w => if w =? 1 then 5 else 3); (fun w => if w =? 1 then 7 else 1)])).

Example C09_example_hypotheses :
  sanity_block ex_nl = true /\ pre_nand_synth ex_nl = true /\ pre_and_inverter_synth ex_nl = true
  /\ lower_okb ex_nl = true /\ dco_okb ex_nl = true /\ fanout_okb (fresh ex_nl) ex_nl = true
  /\ dco_okb dco_chain_witness = true.
Proof. vm_compute. repeat split; reflexivity. Qed.

(* the semantic hypothesis of C09_two_way_fanout_preserves on the example run *)
Definition ex_ins : list (wid -> Z) :=
  [(fun w => if w =? 1 then 5 else 3); (fun w => if w =? 1 then 7 else 1)].

Example C09_example_legal_run : legal_run ex_nl 0 (init_state ex_nl 0 [] []) ex_ins.
Proof.
  apply legal_run_of.
  - intros x Hx. cbn [wires ex_nl] in Hx.
    repeat (destruct Hx as [<-|Hx]; [vm_compute; first [reflexivity|exact I]|]). destruct Hx.
  - repeat constructor; intros x Hx Hk; cbn [wires ex_nl] in Hx;
      repeat (destruct Hx as [<-|Hx]; [first [discriminate Hk|vm_compute; reflexivity]|]); destruct Hx.
  - intros x Hx. cbn [wires ex_nl] in Hx.
    repeat (destruct Hx as [<-|Hx]; [vm_compute; reflexivity|]). destruct Hx.
Qed.

(* the two non-idempotent passes applied twice, and fan-out / nand_synth / fan-out:
   the netlist keeps changing, behaviour, well-formedness, postcondition and the
   theorems' hypotheses keep holding *)
Example C09_example_twice :
  let f2 := two_way_fanout (two_way_fanout ex_nl) in
  let s2 := one_bit_selects (one_bit_selects ex_nl) in
  let fnf := two_way_fanout (nand_synth (two_way_fanout ex_nl)) in
  (length (nets (two_way_fanout ex_nl)) <? length (nets f2))%nat = true
  /\ (length (nets (one_bit_selects ex_nl)) <? length (nets s2))%nat = true
  /\ ex_run f2 = ex_run ex_nl /\ ex_run s2 = ex_run ex_nl /\ ex_run fnf = ex_run ex_nl
  /\ sanity_block f2 = true /\ sanity_block s2 = true /\ sanity_block fnf = true
  /\ post_two_way_fanout f2 = true /\ post_one_bit_selects s2 = true /\ post_two_way_fanout fnf = true
  /\ fanout_okb (fresh (two_way_fanout ex_nl)) (two_way_fanout ex_nl) = true
  /\ fanout_okb (fresh (nand_synth (two_way_fanout ex_nl))) (nand_synth (two_way_fanout ex_nl)) = true.
Proof. vm_compute. repeat split; reflexivity. Qed.

(* memory write ports count as readers: two memories written at the same address
   under the same enable; address / enable / data get fan-out trees, the '@' nets
   are rebuilt onto the leaves, behaviour and final memory contents are unchanged *)
Definition ex_mem : netlist :=
  mkNetlist [mkWire 1 2 KInput; mkWire 2 1 KInput; mkWire 3 2 KInput; mkWire 4 2 KOutput; mkWire 5 2 KOutput;
             mkWire 6 2 KWire; mkWire 7 2 KWire]
    [mkNet (OpMemRd 0) [1] 6; mkNet OpW [6] 4; mkNet (OpMemRd 1) [1] 7; mkNet OpW [7] 5;
     mkNet (OpMemWr 0) [1; 3; 2] 0; mkNet (OpMemWr 1) [1; 3; 2] 0]
    [mkMem 0 2 2 None; mkMem 1 2 2 None].

Definition ex_mem_run (nl : netlist) : list (list Z) * list Z :=
  let '(vs, st) := run nl 0 (init_state nl 0 [] [])
                       [(fun w => if w =? 1 then 2 else if w =? 2 then 1 else 3);
                        (fun w => if w =? 1 then 2 else if w =? 2 then 0 else 1);
                        (fun w => if w =? 1 then 1 else if w =? 2 then 1 else 2)] in
  (map (fun v => map v [4; 5]) vs, [smems st 0 2; smems st 1 2; smems st 0 1; smems st 1 1; smems st 0 0]).

Example C09_example_memory_write_ports :
  sanity_block ex_mem = true /\ post_two_way_fanout ex_mem = false
  /\ post_two_way_fanout (two_way_fanout ex_mem) = true
  /\ fanout_okb (fresh ex_mem) ex_mem = true /\ dco_okb ex_mem = true
  /\ ex_mem_run (two_way_fanout ex_mem) = ex_mem_run ex_mem
  /\ ex_mem_run (direct_connect_outputs ex_mem) = ex_mem_run ex_mem
  /\ ex_mem_run ex_mem = ([[0; 0]; [3; 3]; [0; 0]], [3; 3; 2; 2; 0])
  /\ forallb (fun n => match nop n with
                       | OpMemWr _ => forallb (fun a => 7 <? a) (nargs n)
                       | _ => true
                       end) (nets (two_way_fanout ex_mem)) = true.
Proof. vm_compute. repeat split; reflexivity. Qed.

(* a pass sequence in both orders, and a three-pass sequence *)
Example C09_example_orderings :
  ex_run (run_rpasses [PNand; PSelect] ex_nl) = ex_run ex_nl
  /\ ex_run (run_rpasses [PSelect; PNand] ex_nl) = ex_run ex_nl
  /\ ex_run (run_rpasses [PConcat; PAig; PSelect] ex_nl) = ex_run ex_nl
  /\ lower_okb (run_rpasses [PConcat; PAig; PSelect] ex_nl) = true.
Proof. vm_compute. repeat split; reflexivity. Qed.

Example C09_example_traces :
  ex_run ex_nl = [[6; 2; 115; 3; 3]; [6; 2; 241; 1; 1]]
  /\ ex_run (nand_synth ex_nl) = ex_run ex_nl /\ ex_run (and_inverter_synth ex_nl) = ex_run ex_nl
  /\ ex_run (two_way_concat ex_nl) = ex_run ex_nl /\ ex_run (one_bit_selects ex_nl) = ex_run ex_nl
  /\ ex_run (direct_connect_outputs ex_nl) = ex_run ex_nl /\ ex_run (two_way_fanout ex_nl) = ex_run ex_nl.
Proof. vm_compute. repeat split; reflexivity. Qed.

Example C09_example_passes_change_the_netlist :
  (length (nets (nand_synth ex_nl)), length (nets (and_inverter_synth ex_nl)),
   length (nets (two_way_concat ex_nl)), length (nets (one_bit_selects ex_nl)),
   length (nets (direct_connect_outputs ex_nl)), length (nets (two_way_fanout ex_nl)))
  = (21, 25, 14, 15, 10, 21)%nat /\ length (nets ex_nl) = 12%nat.
Proof. vm_compute. split; reflexivity. Qed.

Example C09_example_postconditions :
  post_nand_synth (nand_synth ex_nl) = true /\ post_and_inverter_synth (and_inverter_synth ex_nl) = true
  /\ post_two_way_concat (two_way_concat ex_nl) = true /\ post_one_bit_selects (one_bit_selects ex_nl) = true
  /\ post_direct_connect_outputs (direct_connect_outputs ex_nl) = true
  /\ post_two_way_fanout (two_way_fanout ex_nl) = true
  /\ post_two_way_fanout ex_nl = false /\ post_direct_connect_outputs ex_nl = false
  /\ sanity_block (direct_connect_outputs ex_nl) = true /\ sanity_block (two_way_fanout ex_nl) = true.
Proof. vm_compute. repeat split; reflexivity. Qed.

(* every 1-bit input pair of every rule, evaluated (the sweep behind rules_ok) *)
Example C09_example_xor_aig_truth_table :
  match find_rule 94 and_inverter_synth_rules with
  | Some r => map (fun ab => beval r (fst ab) (snd ab)) [(false, false); (false, true); (true, false); (true, true)]
  | None => []
  end = [false; true; true; false].
Proof. vm_compute. split; reflexivity. Qed.

(* ===== direct_connect_outputs on a register producer (F4) =====
   `r.next <<= i; o <<= r`: the repaired code (dco_skips in Pass/Lower.v: '@' and
   'r' producers are skipped) leaves the design alone and well-formed ... *)
Theorem C09_dco_register_producer_kept :
  sanity_block dco_reg_witness = true
  /\ direct_connect_outputs dco_reg_witness = dco_reg_witness.
Proof. vm_compute. split; reflexivity. Qed.
Print Assumptions C09_dco_register_producer_kept.

(* ... whereas skipping only '@' (the code before the repair) retargets the 'r'
   net to the Output, which sanity_check rejects: the skip is necessary. *)
Theorem C09_dco_unrepaired_wf_refuted :
  exists nl, sanity_block nl = true /\ sanity_block (dco_with dco_skips_unrepaired nl) = false.
Proof. exists dco_reg_witness. vm_compute. split; reflexivity. Qed.
Print Assumptions C09_dco_unrepaired_wf_refuted.

(* ===== direct_connect_outputs postcondition =====
   The repaired code repeats the pass until nothing changes.  For every
   netlist in which no net reads an Output (in particular every netlist accepted
   by the sanity_check model) the result has no NON-TRUNCATING w-net before an
   Output whose source has no other reader and an eligible (non '@'/'r') producer
   (a truncating w-net is not redundant and is kept, repair 67971b1):
   every changing pass removes a net, so the loop reaches its fixpoint. *)
Theorem C09_dco_post : forall nl,
  sanity_block nl = true -> post_direct_connect_outputs (direct_connect_outputs nl) = true.
Proof. exact dco_post_sane. Qed.
Print Assumptions C09_dco_post.

Theorem C09_dco_post_outputs_unread : forall nl,
  outputs_unread nl -> post_direct_connect_outputs (direct_connect_outputs nl) = true.
Proof. exact dco_post. Qed.
Print Assumptions C09_dco_post_outputs_unread.

(* one pass alone does not establish it on a chain of 'w' nets
   (`t1 <<= ~a; t2 <<= t1; o <<= t2`): the loop (repair f048c69) is necessary *)
Theorem C09_dco_single_pass_refuted :
  exists nl, sanity_block nl = true
             /\ post_direct_connect_outputs (dco_with dco_skips nl) = false
             /\ post_direct_connect_outputs (direct_connect_outputs nl) = true
             /\ length (nets (direct_connect_outputs nl)) = 1%nat.
Proof. exists dco_chain_witness. vm_compute. repeat split; reflexivity. Qed.
Print Assumptions C09_dco_single_pass_refuted.
