(* C09 -- placeholder while the harness is brought up *)
From PyRTL Require Import Pass.Lower.
Example C09_placeholder : fresh (mkNetlist [] [] []) = 1.
Proof. vm_compute. reflexivity. Qed.
