(* C14 -- the slice model used by every C14 theorem (bitfield_update(_set), chop, partition_wire,
   barrel_shifter, wire_struct / wire_matrix, the index slicing of mux / sparse_mux / demux) IS Python
   slicing: for every length and all bounds (None, negative, out of range) it equals C06's
   transcription of CPython's slice.indices and satisfies the declarative statement of the language
   reference (is_slice_of), which it determines uniquely.  Kept in its own Props file because it
   depends on C06's Front/PySlice*.v.  Only statements + `exact`. *)
From Coq Require Import ZArith List Bool.
From PyRTL Require Import Base.PyZ Front.SliceC14 Front.PySlice Front.PySliceProofs Front.SliceC14Bridge.
Import ListNotations. Open Scope Z_scope.

Theorem C14_pyslice_eq_cpython : forall n s e st, st = None \/ st = Some 1 ->
  slice_indices (Z.of_nat n) s e st = Some (map Z.of_nat (pyslice (seq 0 n) s e)).
Proof. exact pyslice_eq_cpython. Qed.
Print Assumptions C14_pyslice_eq_cpython.

Theorem C14_pyslice_is_python_slice : forall n s e,
  is_slice_of (Z.of_nat n) s e None (map Z.of_nat (pyslice (seq 0 n) s e)).
Proof. exact pyslice_is_python_slice. Qed.
Print Assumptions C14_pyslice_is_python_slice.

Theorem C14_pyslice_unique : forall n s e l,
  is_slice_of (Z.of_nat n) s e None l -> l = map Z.of_nat (pyslice (seq 0 n) s e).
Proof. exact pyslice_unique. Qed.
Print Assumptions C14_pyslice_unique.

(* a slice of any sequence (wire bits, index lists, the setlist of bitfield_update_set) is the
   elements at those indices *)
Theorem C14_pyslice_elements : forall (A : Type) (l : list A) (d : A) s e,
  pyslice l s e = map (fun i => nth i l d) (pyslice (seq 0 (length l)) s e).
Proof. exact pyslice_elements. Qed.
Print Assumptions C14_pyslice_elements.

(* WireVector.__getitem__: same error (empty selection / index out of range) and same selected bits
   as C06's getitem_indices = the select net's op_param *)
Theorem C14_wslice_getitem : forall w s e,
  match getitem_indices (Z.of_nat (length w)) (ISlice s e None) with
  | None => wslice w s e = None
  | Some idx => wslice w s e = Some (map (fun i => nth (Z.to_nat i) w false) idx)
  end.
Proof. exact wslice_getitem. Qed.
Print Assumptions C14_wslice_getitem.

Theorem C14_windex_index_int : forall w i,
  windex w i = option_map (fun x => nth (Z.to_nat x) w false) (index_int (Z.of_nat (length w)) i).
Proof. exact windex_index_int. Qed.
Print Assumptions C14_windex_index_int.

Example C14_example_slice :
  pyslice [10; 11; 12; 13; 14] (Some (-4)) (Some 9) = [11; 12; 13; 14] /\
  slice_indices 5 (Some (-4)) (Some 9) None = Some [1; 2; 3; 4] /\
  pyslice [10; 11; 12; 13; 14] (Some 3) (Some (-3)) = [] /\
  wslice [true; false; true] (Some 2) (Some 1) = None.
Proof. vm_compute. repeat split; reflexivity. Qed.
