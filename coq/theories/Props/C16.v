(* C16 -- value conversion helpers are range-exact and mutually inverse (work in progress). *)
From PyRTL Require Import Base.PyZ Conv.ConvBase Gen.Conv Conv.Str.

Example C16_example_infer : convert_int (-3) None true = Ok (5, 3).
Proof. vm_compute. reflexivity. Qed.
