(* C16 -- Value conversion helpers are range-exact and mutually inverse.
   Only statements + `exact`; proofs live in Conv/ConvProofs.v and Conv/StrProofs.v.
   convert_int / convert_bool / verilog_tail / val_to_signed_integer / twos_comp_repr /
   rev_twos_comp_repr / const_postchecks are Gen/Conv.v, regenerated from pyrtl's source on every
   run; infer / verilog_parse / formatted_* / bitpattern_* are the hand models of Conv/Str.v. *)
From PyRTL Require Import Base.PyZ Conv.ConvBase Gen.Conv Conv.Spec Conv.Str Conv.ConvProofs Conv.StrProofs
  Conv.FmtProofs Conv.PatProofs Conv.ParseProofs Gen.ConvFmt Conv.FmtBridge.

(* --- infer_val_and_bitwidth on integers: accepts exactly the representable triples --- *)
Theorem C16_int_accepts_iff_representable : forall v w signed,
  (exists r, infer (RInt v) (Some w) signed = Ok r) <-> representable v w signed.
Proof. exact int_accepts_iff_representable. Qed.
Print Assumptions C16_int_accepts_iff_representable.

(* ... and returns the two's-complement encoding v mod 2^w at the given width *)
Theorem C16_int_encoding : forall v w signed n w',
  infer (RInt v) (Some w) signed = Ok (n, w') -> w' = w /\ n = v mod 2 ^ w.
Proof. exact int_encoding. Qed.
Print Assumptions C16_int_encoding.

(* no bitwidth given: accepted (non-negative, or signed), and the width is the minimal one *)
Theorem C16_int_minimal_bitwidth : forall v signed, 0 <= v \/ signed = true ->
  exists w, infer (RInt v) None signed = Ok (v mod 2 ^ w, w) /\
            representable v w signed /\ forall w', representable v w' signed -> w <= w'.
Proof. exact int_minimal_bitwidth. Qed.
Print Assumptions C16_int_minimal_bitwidth.

Theorem C16_int_negative_needs_width_or_signed : forall v, v < 0 ->
  infer (RInt v) None false = Err 2.
Proof. exact int_negative_needs_width_or_signed. Qed.
Print Assumptions C16_int_negative_needs_width_or_signed.

(* --- booleans: never signed, width 1 only --- *)
Theorem C16_bool_rules : forall b w signed,
  infer (RBool b) w signed =
  if signed then Err 1
  else match w with
       | None => Ok (b2z b, 1)
       | Some w' => if w' =? 1 then Ok (b2z b, 1) else Err 2
       end.
Proof. exact convert_bool_rules. Qed.
Print Assumptions C16_bool_rules.

(* --- Const: the internal range post-checks never fire --- *)
Theorem C16_const_postchecks_never_fire_int : forall v w signed n w',
  infer (RInt v) w signed = Ok (n, w') -> const_postchecks n w' = None.
Proof. exact const_int_postchecks_never_fire. Qed.
Print Assumptions C16_const_postchecks_never_fire_int.

Theorem C16_const_postchecks_never_fire_bool : forall b w signed n w',
  infer (RBool b) w signed = Ok (n, w') -> const_postchecks n w' = None.
Proof. exact const_bool_postchecks_never_fire. Qed.
Print Assumptions C16_const_postchecks_never_fire_bool.

Theorem C16_const_postchecks_never_fire_str : forall s w signed n w',
  infer (RStr s) w signed = Ok (n, w') -> 0 <= w' -> const_postchecks n w' = None.
Proof. exact const_str_postchecks_never_fire. Qed.
Print Assumptions C16_const_postchecks_never_fire_str.

(* --- Verilog-style strings agree with the integer path ---
   Full statement (no side conditions besides a successful parse of a non-negative number): *)
Definition C16_verilog_str_agrees_full_statement : Prop :=
  forall s neg num w passed,
    verilog_parse s = Ok (neg, w, num) -> 0 <= num ->
    res_opt (infer (RStr s) passed false)
    = match passed with
      | Some p => if p =? w then res_opt (infer (RInt (if neg then - num else num)) (Some w) false) else None
      | None => res_opt (infer (RInt (if neg then - num else num)) (Some w) false)
      end.

(* It is FALSE of the code in one place (reported by the search as a spec violation, kept as a known finding): *)
(* F13: "-4'd8" is rejected although Const(-8, bitwidth=4) is accepted *)
Theorem C16_verilog_str_most_negative_refuted :
  exists s neg num w,
    verilog_parse s = Ok (neg, w, num) /\ 0 <= num /\ 1 <= w /\
    is_ok (infer (RStr s) None false) = false /\
    infer (RInt (if neg then - num else num)) (Some w) false = Ok (8, 4).
Proof. exists [45; 52; 39; 100; 56], true, 8, 4. vm_compute. repeat split; intro; discriminate. Qed.
Print Assumptions C16_verilog_str_most_negative_refuted.

(* (repaired in /repo during this work: a width < 1 written in the string is now rejected, in
   agreement with the integer path) *)
Theorem C16_verilog_str_zero_width_rejected : forall s neg num w passed,
  verilog_parse s = Ok (neg, w, num) -> w < 1 -> is_ok (infer (RStr s) passed false) = false.
Proof. exact verilog_str_zero_width. Qed.
Print Assumptions C16_verilog_str_zero_width_rejected.

(* Outside exactly that input (the most negative value of the written width) the full statement
   holds for every string, width, value and bitwidth parameter: *)
Theorem C16_verilog_str_agrees_partial : forall s neg num w passed,
  verilog_parse s = Ok (neg, w, num) -> 0 <= num ->
  ~ (neg = true /\ 1 <= w /\ num = 2 ^ (w - 1)) ->
  res_opt (infer (RStr s) passed false)
  = match passed with
    | Some p => if p =? w then res_opt (infer (RInt (if neg then - num else num)) (Some w) false) else None
    | None => res_opt (infer (RInt (if neg then - num else num)) (Some w) false)
    end.
Proof. exact verilog_str_agrees_all. Qed.
Print Assumptions C16_verilog_str_agrees_partial.

(* (repaired in /repo during this work: a bitwidth parameter of 0 used to be treated as "not given") *)
Theorem C16_verilog_str_width_mismatch_rejected : forall s neg num w p,
  verilog_parse s = Ok (neg, w, num) -> p <> w ->
  is_ok (infer (RStr s) (Some p) false) = false.
Proof. exact verilog_str_width_mismatch. Qed.
Print Assumptions C16_verilog_str_width_mismatch_rejected.

Theorem C16_verilog_str_signed_rejected : forall s passed,
  is_ok (infer (RStr s) passed true) = false.
Proof. exact verilog_str_signed_rejected. Qed.
Print Assumptions C16_verilog_str_signed_rejected.

(* --- the parser model itself: parse (print ...) for EVERY width, radix letter and value ---
   verilog_print neg w letter body = [-]<decimal w>'[letter]<body>.  The body may contain underscores
   and upper-case digits: what counts is int(., radix) of its lower-cased, underscore-free text.  `radix_of` says the
   letter is a key of the generated `bases` table (any case), or absent with a body starting with a
   decimal digit (radix = the source's default). *)
Theorem C16_verilog_parse_print : forall neg w letter body base v,
  0 <= w -> radix_of letter body base -> ~ In 39 body ->
  py_int base (filter (fun x => negb (x =? verilog_ignored_char)) (map lower body)) = Some v ->
  verilog_parse (verilog_print neg w letter body) = Ok (neg, w, v).
Proof. exact verilog_parse_print. Qed.
Print Assumptions C16_verilog_parse_print.

Theorem C16_verilog_parse_print_digits : forall neg w letter base v,
  0 <= w -> 0 <= v ->
  (match letter with Some c => radix_letter c base | None => base = verilog_default_base end) ->
  verilog_parse (verilog_print neg w letter (nat_str base v)) = Ok (neg, w, v).
Proof. exact verilog_parse_print_digits. Qed.
Print Assumptions C16_verilog_parse_print_digits.

(* hence infer_val_and_bitwidth on every printed constant, in closed form: unsigned accepted iff
   v < 2^w with value v; negated accepted iff v = 0 or v < 2^(w-1) with value 2^w - v (the excluded
   v = 2^(w-1) is F13) *)
Theorem C16_verilog_str_value : forall neg w letter base v passed,
  1 <= w -> 0 <= v ->
  (match letter with Some c => radix_letter c base | None => base = verilog_default_base end) ->
  passed = None \/ passed = Some w ->
  res_opt (infer (RStr (verilog_print neg w letter (nat_str base v))) passed false)
  = if neg
    then (if v =? 0 then Some (0, w) else if v <? 2 ^ (w - 1) then Some (2 ^ w - v, w) else None)
    else (if v <? 2 ^ w then Some (v, w) else None).
Proof. exact verilog_str_value. Qed.
Print Assumptions C16_verilog_str_value.

(* --- every accepted input (int, bool or string) yields a width >= 1 and an in-range value --- *)
Theorem C16_infer_result_in_range : forall r bw signed n w,
  infer r bw signed = Ok (n, w) -> 1 <= w /\ 0 <= n < 2 ^ w.
Proof. exact infer_ok_range. Qed.
Print Assumptions C16_infer_result_in_range.

(* --- Const = _validate_bitwidth on the argument, then infer_val_and_bitwidth; the post-checks and
   the second validation in WireVector.__init__ never change the outcome --- *)
Theorem C16_const_equals_validate_then_infer : forall r bw signed,
  const_model r bw signed =
  match validate_bitwidth bw with
  | Err k => Err (100 + k)
  | Ok _ => infer r bw signed
  end.
Proof. exact const_model_eq. Qed.
Print Assumptions C16_const_equals_validate_then_infer.

Theorem C16_validate_bitwidth_spec : forall bw,
  is_ok (validate_bitwidth bw) = match bw with None => true | Some b => 1 <=? b end.
Proof. exact validate_bitwidth_spec. Qed.
Print Assumptions C16_validate_bitwidth_spec.

(* --- val_to_signed_integer inverts the signed encoding --- *)
Theorem C16_val_to_signed_inverts : forall v w, representable v w true ->
  val_to_signed_integer (v mod 2 ^ w) w = Ok v.
Proof. exact val_to_signed_inverts. Qed.
Print Assumptions C16_val_to_signed_inverts.

Theorem C16_val_to_signed_value : forall u w, 1 <= w -> 0 <= u < 2 ^ w ->
  val_to_signed_integer u w = Ok (signed_value u w).
Proof. exact val_to_signed_value. Qed.
Print Assumptions C16_val_to_signed_value.

(* --- libutils two's-complement helpers: domain, encoding, mutual inverses --- *)
Theorem C16_twos_comp_accepts_iff : forall v w,
  (exists r, twos_comp_repr v w = Ok r) <-> (1 <= w /\ - 2 ^ (w - 1) < v < 2 ^ (w - 1)).
Proof. exact twos_accepts_iff. Qed.
Print Assumptions C16_twos_comp_accepts_iff.

Theorem C16_twos_comp_encoding : forall v w r, twos_comp_repr v w = Ok r -> r = v mod 2 ^ w.
Proof. exact twos_encoding. Qed.
Print Assumptions C16_twos_comp_encoding.

Theorem C16_twos_then_rev : forall v w r,
  twos_comp_repr v w = Ok r -> rev_twos_comp_repr r w = Ok v.
Proof. exact twos_then_rev. Qed.
Print Assumptions C16_twos_then_rev.

Theorem C16_rev_then_twos : forall r w v, 1 <= w -> 0 <= r ->
  rev_twos_comp_repr r w = Ok v -> twos_comp_repr v w = Ok r.
Proof. exact rev_then_twos. Qed.
Print Assumptions C16_rev_then_twos.

(* --- val_to_formatted_str / formatted_str_to_val are mutual inverses --- *)
(* formats s, u, x, b (type characters 115, 117, 120, 98), every width and in-range value *)
Theorem C16_formatted_roundtrip : forall v f ty w es,
  format_parse f = Some (ty, w) -> fmt_type_ok ty -> 1 <= w -> 0 <= v < 2 ^ w ->
  exists s, val_to_formatted_str v f es = Ok s /\ formatted_str_to_val s f es = Ok v.
Proof. exact formatted_roundtrip. Qed.
Print Assumptions C16_formatted_roundtrip.

(* the converse on the canonical texts *)
Theorem C16_formatted_roundtrip_text : forall v f ty w es s,
  format_parse f = Some (ty, w) -> fmt_type_ok ty -> 1 <= w -> 0 <= v < 2 ^ w ->
  val_to_formatted_str v f es = Ok s ->
  exists v', formatted_str_to_val s f es = Ok v' /\ val_to_formatted_str v' f es = Ok s.
Proof. exact formatted_roundtrip_text. Qed.
Print Assumptions C16_formatted_roundtrip_text.

(* enum format (type character 101): any value the enum names comes back *)
Theorem C16_formatted_roundtrip_enum : forall v f w es e n,
  format_parse f = Some (101, w) -> enum_of f es = Ok e -> enum_names_distinct e ->
  val_to_formatted_str v f es = Ok n -> formatted_str_to_val n f es = Ok v.
Proof. exact formatted_roundtrip_enum. Qed.
Print Assumptions C16_formatted_roundtrip_enum.

(* ... wherever the named enum sits among the others of the enum_set (class names distinct): the
   enum a format denotes is the first one with exactly that name, for both directions *)
Theorem C16_formatted_roundtrip_enum_any_order : forall v f w es n e s,
  format_parse f = Some (101, w) -> enum_name f = Some n ->
  enum_set_distinct es -> In (n, e) es -> enum_names_distinct e ->
  val_to_formatted_str v f es = Ok s -> formatted_str_to_val s f es = Ok v.
Proof. exact formatted_roundtrip_enum_any_order. Qed.
Print Assumptions C16_formatted_roundtrip_enum_any_order.

Theorem C16_enum_lookup_is_first_exact_name : forall n es e, find_enum n es = Some e ->
  exists es1 es2, es = es1 ++ (n, e) :: es2 /\ (forall n' e', In (n', e') es1 -> n' <> n).
Proof. exact find_enum_spec. Qed.
Print Assumptions C16_enum_lookup_is_first_exact_name.

Theorem C16_formatted_unknown_type_rejected : forall v d f ty w es,
  format_parse f = Some (ty, w) -> ~ fmt_type_ok ty -> ty <> 101 ->
  is_ok (val_to_formatted_str v f es) = false /\ is_ok (formatted_str_to_val d f es) = false.
Proof. exact formatted_unknown_type. Qed.
Print Assumptions C16_formatted_unknown_type_rejected.

(* --- the same, about the source text itself: src_formatted_str_to_val / src_val_to_formatted_str are
   Gen/ConvFmt.v, REGENERATED from the two functions of helperfuncs.py statement by statement on every
   run (strings as code lists; s[k], l[k], int(), a negative shift count and val_to_signed_integer
   raise in evaluation order).  They accept exactly what the definitions above accept, with the same
   results -- for every data string, format string and enum_set: *)
Theorem C16_src_formatted_str_to_val_is_model : forall data f es,
  res_opt (src_formatted_str_to_val data f es) = res_opt (formatted_str_to_val data f es).
Proof. exact src_formatted_str_to_val_bridge. Qed.
Print Assumptions C16_src_formatted_str_to_val_is_model.

Theorem C16_src_val_to_formatted_str_is_model : forall v f es,
  res_opt (src_val_to_formatted_str v f es) = res_opt (val_to_formatted_str v f es).
Proof. exact src_val_to_formatted_str_bridge. Qed.
Print Assumptions C16_src_val_to_formatted_str_is_model.

(* hence the round trips hold of the regenerated source functions *)
Theorem C16_src_formatted_roundtrip : forall v f ty w es,
  format_parse f = Some (ty, w) -> fmt_type_ok ty -> 1 <= w -> 0 <= v < 2 ^ w ->
  exists s, src_val_to_formatted_str v f es = Ok s /\ src_formatted_str_to_val s f es = Ok v.
Proof. exact src_formatted_roundtrip. Qed.
Print Assumptions C16_src_formatted_roundtrip.

Theorem C16_src_formatted_roundtrip_enum : forall v f w es n e s,
  format_parse f = Some (101, w) -> enum_name f = Some n ->
  enum_set_distinct es -> In (n, e) es -> enum_names_distinct e ->
  src_val_to_formatted_str v f es = Ok s -> src_formatted_str_to_val s f es = Ok v.
Proof. exact src_formatted_roundtrip_enum. Qed.
Print Assumptions C16_src_formatted_roundtrip_enum.

(* the hypothesis `format_parse f = Some (ty, w)` holds of every format string "<type><decimal w>[/...]" *)
Theorem C16_format_parse_print : forall ty w tail,
  0 <= w -> (tail = [] \/ exists t, tail = 47 :: t) ->
  format_parse (ty :: nat_str 10 w ++ tail) = Some (ty, w).
Proof. exact format_parse_print. Qed.
Print Assumptions C16_format_parse_print.

(* the digit-string model itself: int(str(n)) = n for every integer, int(digits(n, radix), radix) = n *)
Theorem C16_int_of_str_roundtrip : forall n, py_int 10 (py_str n) = Some n.
Proof. exact py_int_py_str. Qed.
Print Assumptions C16_int_of_str_roundtrip.

Theorem C16_int_of_digits_roundtrip : forall base n, 2 <= base <= 36 -> 0 <= n ->
  py_int base (nat_str base n) = Some n.
Proof. exact py_int_nat_str. Qed.
Print Assumptions C16_int_of_digits_roundtrip.

(* --- bitpattern_to_val produces a value that match_bitpattern matches and decodes back --- *)
(* every pattern (any length, any letters), every field tuple the helper accepts; negative fields come
   back reduced modulo 2^(number of positions of the letter) *)
Theorem C16_bitpattern_roundtrip : forall p fields v,
  bitpattern_to_val p fields = Ok v -> nospace p = p ->
  match_bitpattern v p = (true, decoded_fields p fields).
Proof. exact bitpattern_roundtrip. Qed.
Print Assumptions C16_bitpattern_roundtrip.

Theorem C16_bitpattern_roundtrip_nonneg : forall p fields v,
  bitpattern_to_val p fields = Ok v -> nospace p = p -> Forall (fun f => 0 <= f) fields ->
  match_bitpattern v p = (true, fields).
Proof. exact bitpattern_roundtrip_nonneg. Qed.
Print Assumptions C16_bitpattern_roundtrip_nonneg.

(* the value-level match: matched iff every '0' position holds 0 and every '1' position holds 1 *)
Theorem C16_match_bits_spec : forall v prev i,
  match_bits prev v i = true <->
  (forall j c, nth_error prev j = Some c ->
     (c = 48 -> Z.testbit v (i + Z.of_nat j) = false) /\ (c = 49 -> Z.testbit v (i + Z.of_nat j) = true)).
Proof. exact match_bits_spec. Qed.
Print Assumptions C16_match_bits_spec.

(* the converse: packing the fields decoded from any matching value gives that value back *)
Theorem C16_bitpattern_match_then_pack : forall p v,
  p <> [] -> nospace p = p -> ~ In 63 p -> 0 <= v < 2 ^ Z.of_nat (length p) ->
  fst (match_bitpattern v p) = true ->
  bitpattern_to_val p (snd (match_bitpattern v p)) = Ok v.
Proof. exact match_then_pack. Qed.
Print Assumptions C16_bitpattern_match_then_pack.

(* --- non-vacuity --- *)
Example C16_example_infer :
  infer (RInt (-3)) None true = Ok (5, 3) /\ infer (RInt (-8)) (Some 4) false = Ok (8, 4)
  /\ infer (RInt 8) (Some 4) true = Err 1 /\ representable (-8) 4 true /\ ~ representable 8 4 true.
Proof. vm_compute. repeat split; try reflexivity; try (intro; discriminate). intros [_ [_ H]]. discriminate. Qed.

Example C16_example_verilog :
  verilog_parse [45; 52; 39; 100; 55] = Ok (true, 4, 7) /\
  infer (RStr [45; 52; 39; 100; 55]) None false = Ok (9, 4) /\ infer (RInt (-7)) (Some 4) false = Ok (9, 4).
Proof. vm_compute. repeat split; reflexivity. Qed.

Example C16_example_twos :
  twos_comp_repr (-3) 3 = Ok 5 /\ rev_twos_comp_repr 5 3 = Ok (-3) /\ val_to_signed_integer 5 3 = Ok (-3).
Proof. vm_compute. repeat split; reflexivity. Qed.

(* "s3" parses as (115, 3); 5 prints as "-3" and reads back as 5; "e3/C" with enum C = {A = 5} *)
Example C16_example_format :
  format_parse [115; 51] = Some (115, 3) /\ fmt_type_ok 115 /\
  val_to_formatted_str 5 [115; 51] [] = Ok [45; 51] /\ formatted_str_to_val [45; 51] [115; 51] [] = Ok 5 /\
  val_to_formatted_str 5 [101; 51; 47; 67] [([67], [([65], 5)])] = Ok [65] /\
  enum_names_distinct [([65], 5)].
Proof. vm_compute. repeat split; try reflexivity. left. reflexivity. Qed.

(* bitpattern "ba0ab" with b = 3, a = 1 is 0b10011 = 19; matching 19 decodes (b, a) = (3, 1) *)
Example C16_example_bitpattern :
  bitpattern_to_val [98; 97; 48; 97; 98] [3; 1] = Ok 19 /\ nospace [98; 97; 48; 97; 98] = [98; 97; 48; 97; 98]
  /\ match_bitpattern 19 [98; 97; 48; 97; 98] = (true, [3; 1])
  /\ match_bitpattern 23 [98; 97; 48; 97; 98] = (false, [3; 1]).
Proof. vm_compute. repeat split; reflexivity. Qed.

(* "-12'H0f_F" is verilog_print true 12 (Some 'H') "0f_F"; 'H' is a radix letter for 16; it parses
   to (neg, 12, 255) and infer gives 2^12 - 255 *)
Example C16_example_print :
  verilog_print true 12 (Some 72) [48; 102; 95; 70] = [45; 49; 50; 39; 72; 48; 102; 95; 70] /\
  radix_letter 72 16 /\
  verilog_parse [45; 49; 50; 39; 72; 48; 102; 95; 70] = Ok (true, 12, 255) /\
  infer (RStr [45; 49; 50; 39; 72; 48; 102; 95; 70]) None false = Ok (3841, 12) /\
  const_model (RStr [45; 49; 50; 39; 72; 48; 102; 95; 70]) (Some 12) false = Ok (3841, 12).
Proof. vm_compute. repeat split; reflexivity. Qed.

(* the regenerated source functions on "s3": 5 prints as "-3" and reads back; a negative width in the
   format string is a ValueError (code 1002) in both directions; "e3/C" goes through the enum idioms *)
Example C16_example_src_format :
  src_val_to_formatted_str 5 [115; 51] [] = Ok [45; 51] /\
  src_formatted_str_to_val [45; 51] [115; 51] [] = Ok 5 /\
  src_formatted_str_to_val [49] [117; 45; 49] [] = Err 1002 /\
  src_val_to_formatted_str 5 [101; 51; 47; 67] [([67; 67], [([66], 5)]); ([67], [([65], 5)])] = Ok [65] /\
  src_formatted_str_to_val [65] [101; 51; 47; 67] [([67; 67], [([66], 5)]); ([67], [([65], 5)])] = Ok 5.
Proof. vm_compute. repeat split; reflexivity. Qed.

(* hex digits that are also radix letters keep their value in every position: "8'hd5" = 213, "4'hb" = 11,
   "-12'HB_d" = -(0xbd) (instances of C16_verilog_parse_print_digits / C16_verilog_parse_print) *)
Example C16_example_hex_radix_letter_digits :
  verilog_parse [56; 39; 104; 100; 53] = Ok (false, 8, 213) /\
  infer (RStr [52; 39; 104; 98]) None false = Ok (11, 4) /\
  verilog_parse [45; 49; 50; 39; 72; 66; 95; 100] = Ok (true, 12, 189) /\
  const_model (RInt 4) (Some 3) true = infer (RInt 4) (Some 3) true /\ is_ok (infer (RInt 4) (Some 3) true) = false.
Proof. vm_compute. repeat split; reflexivity. Qed.
