(* C08 -- MemBlock/RomBlock behave as arrays under every history of reads and writes.
   Only statements + `exact`; definitions are in Mem/MemDefs.v, proofs in Mem/MemProofs.v.

   Vocabulary (Mem/MemDefs.v):
     array = Z -> Z;  wport = (addr, data, enable);  cycle = (list wport, list raddr);
     arr_step: reads answer from the array BEFORE the cycle's writes, then the enabled
     writes are applied;  hist_reads: the same in the property's words (word last written
     to the address in a strictly earlier cycle, else the initial content, else default);
     cycle_ok c: the enabled write addresses of the cycle are pairwise distinct;
     cycle_perm c c': c' presents the same ports with the write ports in another order
     (the order in which the back-end happens to visit its '@' nets). *)
From PyRTL Require Import Mem.MemDefs Mem.MemProofs Mem.MemVerilog Mem.MemVerilogProofs.
From Coq Require Import Permutation.

(* ---- the specification itself ------------------------------------------------ *)

(* array semantics = "word last written in a strictly earlier cycle, else initial" *)
Theorem C08_array_is_last_write : forall A0 h,
  Forall cycle_ok h -> fst (arr_run A0 h) = hist_reads A0 [] h.
Proof. exact arr_run_last_write_from_start. Qed.
Print Assumptions C08_array_is_last_write.

(* writes to distinct addresses commute: port order / set order is irrelevant *)
Theorem C08_writes_commute : forall ws ws',
  Permutation ws ws' -> NoDup (enabled_addrs ws) ->
  forall A a, fold_left arr_write ws A a = fold_left arr_write ws' A a.
Proof. exact writes_commute. Qed.
Print Assumptions C08_writes_commute.

(* ---- refinement, one theorem per concrete model ------------------------------ *)

(* (i) Simulation: dict + _mem_update.  abs(d) = fun a => d.get(a, default).
   For EVERY history, every port visiting order: same reads, abs commutes with run. *)
Theorem C08_refines_array_sim : forall dflt h h' d A,
  (forall a, pyd_get dflt d a = A a) ->
  Forall cycle_ok h -> Forall2 cycle_perm h h' ->
  fst (sim_mem_run dflt d h') = fst (arr_run A h)
  /\ forall a, pyd_get dflt (snd (sim_mem_run dflt d h')) a = snd (arr_run A h) a.
Proof. exact sim_refines_array. Qed.
Print Assumptions C08_refines_array_sim.

(* C08_widths: with the `& bitmask` on the read port, for every data width dw >= 0 and
   data that fit, the mask is the identity and every word read is in [0, 2^dw) *)
Theorem C08_refines_array_sim_masked : forall dflt dw, 0 <= dw -> forall h h' d,
  Forall cycle_ok h -> Forall2 cycle_perm h h' -> Forall (data_fit dw) h' ->
  let A := fun a => sanitize (pyd_get dflt d a) dw in
  fst (sim_mem_run_w dflt dw d h') = fst (arr_run A h)
  /\ (forall a, sanitize (pyd_get dflt (snd (sim_mem_run_w dflt dw d h')) a) dw = snd (arr_run A h) a)
  /\ Forall (Forall (fun v => inrange v dw)) (fst (sim_mem_run_w dflt dw d h')).
Proof. exact sim_w_refines_array. Qed.
Print Assumptions C08_refines_array_sim_masked.

(* the dict stays a dict (unique keys), so list(d.items()) is a function of the history *)
Theorem C08_sim_dict_keys_unique : forall dflt h d,
  NoDup (map fst d) -> NoDup (map fst (snd (sim_mem_run dflt d h))).
Proof. exact sim_dict_keys_unique. Qed.
Print Assumptions C08_sim_dict_keys_unique.

(* (ii) FastSimulation: the generated straight-line program, for ANY interleaving of
   `x = d[mem].get(a, default)` and `if en: mem_ws.append(...)`, followed by applying
   mem_ws, is the per-cycle step ... *)
Theorem C08_fast_program : forall dflt d prog,
  fast_prog_step dflt d prog = fast_mem_step dflt d (prog_writes prog, prog_reads prog).
Proof. exact fast_prog_step_spec. Qed.
Print Assumptions C08_fast_program.

(* ... which refines the array *)
Theorem C08_refines_array_fast : forall dflt h h' d A,
  (forall a, pyd_get dflt d a = A a) ->
  Forall cycle_ok h -> Forall2 cycle_perm h h' ->
  fst (fast_mem_run dflt d h') = fst (arr_run A h)
  /\ forall a, pyd_get dflt (snd (fast_mem_run dflt d h')) a = snd (arr_run A h) a.
Proof. exact fast_refines_array. Qed.
Print Assumptions C08_refines_array_fast.

(* (iii) the chained hash map of the generated C is a finite map, for EVERY bucket count
   (h <> [] : size >= 1), EVERY hash function and every value type *)
Theorem C08_hashmap_is_finite_map : forall (V : Type) (hash : Z -> Z) (h : @hmap V) k v k',
  h <> [] ->
  hm_find hash (hm_insert hash h k v) k' = fmap_set (hm_find hash h) k v k'.
Proof. exact (@hm_find_insert). Qed.
Print Assumptions C08_hashmap_is_finite_map.

Theorem C08_hashmap_create_empty : forall (V : Type) (hash : Z -> Z) n k,
  hm_find hash (@hm_create V n) k = None.
Proof. exact (@hm_find_create). Qed.
Print Assumptions C08_hashmap_create_empty.

(* bucket structure: every reachable map is well formed (no key twice in a chain, every key
   in the bucket `hash key mod size`), and an insert adds a node exactly when the key is new *)
Theorem C08_hashmap_insert_wf : forall (V : Type) (hash : Z -> Z) (h : @hmap V) k v,
  h <> [] -> hm_wf hash h -> hm_wf hash (hm_insert hash h k v).
Proof. exact (@hm_wf_insert). Qed.
Print Assumptions C08_hashmap_insert_wf.

Theorem C08_hashmap_insert_no_duplicate_node : forall (V : Type) (c : @chain V) k v,
  length (chain_insert c k v)
  = if existsb (Z.eqb k) (map fst c) then length c else Datatypes.S (length c).
Proof. exact (@chain_insert_no_duplicate_node). Qed.
Print Assumptions C08_hashmap_insert_no_duplicate_node.

Theorem C08_compiled_states_wf : forall nl size init h, (0 < size)%nat ->
  hm_wf c_hash (snd (comp_mem_run nl (c_init nl size init) h)).
Proof. exact comp_states_wf. Qed.
Print Assumptions C08_compiled_states_wf.

(* CompiledSimulation (limbs of 64 bits, key = low limb of the address): refines the
   array for addresses below 2^64 and data of any number of limbs *)
Theorem C08_refines_array_compiled : forall nl h h' (s : cmap) A,
  s <> [] -> (forall a, c_oka a -> c_lookup nl s a = A a) ->
  Forall cycle_ok h -> Forall2 cycle_perm h h' -> Forall (cyc_adm (c_okw nl) c_oka) h' ->
  fst (comp_mem_run nl s h') = fst (arr_run A h)
  /\ forall a, c_oka a -> c_lookup nl (snd (comp_mem_run nl s h')) a = snd (arr_run A h) a.
Proof. exact comp_refines_array. Qed.
Print Assumptions C08_refines_array_compiled.

(* the emitted C executes inserts in place; that is the per-cycle step because every lookup
   is emitted before every insert (checked on the generated text of every design, and on
   the emitter's source by the translator) -- and it would NOT be otherwise *)
Theorem C08_c_program : forall nl prog (h : cmap), lookups_first prog = true ->
  c_prog_step nl h prog = comp_mem_step nl h (c_prog_writes prog, c_prog_reads prog).
Proof. exact c_prog_step_spec. Qed.
Print Assumptions C08_c_program.

Theorem C08_c_program_order_matters :
  exists prog, lookups_first prog = false
    /\ fst (c_prog_step 1 (c_init 1 c_size []) prog)
       <> fst (comp_mem_step 1 (c_init 1 c_size []) (c_prog_writes prog, c_prog_reads prog)).
Proof. exact c_prog_order_matters. Qed.
Print Assumptions C08_c_program_order_matters.

(* initialize_mems (one insert per memory_value_map item) builds the initial array *)
Theorem C08_compiled_init : forall nl size init, (0 < size)%nat -> c_init_ok nl init ->
  forall a, c_oka a -> c_lookup nl (c_init nl size init) a = arr_init init 0 a.
Proof. exact c_init_arr_ok. Qed.
Print Assumptions C08_compiled_init.

(* ---- from the initial state, in the property's words -------------------------- *)

Theorem C08_sim_reads_last_written : forall dflt init h h', hist_ok h h' ->
  fst (sim_mem_run dflt init h') = hist_reads (arr_init init dflt) [] h.
Proof. exact sim_from_init. Qed.
Print Assumptions C08_sim_reads_last_written.

Theorem C08_fast_reads_last_written : forall dflt init h h', hist_ok h h' ->
  fst (fast_mem_run dflt init h') = hist_reads (arr_init init dflt) [] h.
Proof. exact fast_from_init. Qed.
Print Assumptions C08_fast_reads_last_written.

Theorem C08_compiled_reads_last_written : forall nl size init h h',
  (0 < size)%nat -> c_init_ok nl init ->
  hist_ok h h' -> Forall (cyc_adm (c_okw nl) c_oka) h' ->
  fst (comp_mem_run nl (c_init nl size init) h') = hist_reads (arr_init init 0) [] h.
Proof. exact comp_from_init. Qed.
Print Assumptions C08_compiled_reads_last_written.

(* "holds identically in the three simulators" *)
Theorem C08_backends_agree : forall nl size init h h1 h2 h3,
  (0 < size)%nat -> c_init_ok nl init ->
  hist_ok h h1 -> hist_ok h h2 -> hist_ok h h3 -> Forall (cyc_adm (c_okw nl) c_oka) h3 ->
  fst (sim_mem_run 0 init h1) = fst (fast_mem_run 0 init h2)
  /\ fst (fast_mem_run 0 init h2) = fst (comp_mem_run nl (c_init nl size init) h3).
Proof. exact backends_agree. Qed.
Print Assumptions C08_backends_agree.

(* The bound 2^64 on addresses is necessary: the key of the hash map is `addr[0]` (the low
   64-bit limb), so without it addresses alias modulo 2^64 and the array property is FALSE
   of the model.  (Found by this check on the original tree -- CompiledSimulation accepted
   addrwidth > 64; repaired in /repo by rejecting such memories at construction, which the
   harness now checks.) *)
Definition C08_compiled_unbounded_statement : Prop :=
  forall nl h, Forall cycle_ok h ->
    fst (comp_mem_run nl (c_init nl c_size []) h) = fst (arr_run (arr_init [] 0) h).

Theorem C08_compiled_unbounded_refuted :
  exists h, Forall cycle_ok h
            /\ fst (comp_mem_run 1 (c_init 1 c_size []) h) <> fst (arr_run (arr_init [] 0) h).
Proof. exact comp_wide_addr_refuted. Qed.
Print Assumptions C08_compiled_unbounded_refuted.

(* (v) exported Verilog memory block: continuous read assigns + non-blocking enabled
   writes at posedge clk, write statements in any (emission) order *)
Theorem C08_refines_array_verilog : forall h h' m A,
  (forall a, m a = A a) -> Forall cycle_ok h -> Forall2 cycle_perm h h' ->
  fst (vlog_run m h') = fst (arr_run A h)
  /\ forall a, snd (vlog_run m h') a = snd (arr_run A h) a.
Proof. exact vlog_refines_array. Qed.
Print Assumptions C08_refines_array_verilog.

(* (v') the exported module under the Verilog semantics IO/VerilogSem.v (the formalisation of
   the emitted IEEE 1364-2001 subset, C05's specification): for EVERY module of that subset
   (any expressions, registers, several memories), every memory mm, every stimulus and every
   run (settled valuation per cycle, clock edge between cycles), memory mm IS the array driven
   by what its write statements `if (en) mem[a] <= d;` and read assigns `assign x = mem[a];`
   present in each valuation: the read assigns show the array's words and the contents after
   the run are the array's. *)
Theorem C08_verilog_module_memory_is_array : forall m mm stim envs st,
  NoDup (map fst (m_memwrs m)) -> vtrace m st stim envs ->
  Forall2 (vreads_show m mm) envs (fst (arr_run (vmems st mm) (vhistory m mm envs)))
  /\ forall a, vmems (vstate_after m st stim envs) mm a
               = snd (arr_run (vmems st mm) (vhistory m mm envs)) a.
Proof. exact vsem_memory_is_array. Qed.
Print Assumptions C08_verilog_module_memory_is_array.

(* ... in the property's words *)
Theorem C08_verilog_module_reads_last_written : forall m mm stim envs st,
  NoDup (map fst (m_memwrs m)) -> vtrace m st stim envs ->
  Forall cycle_ok (vhistory m mm envs) ->
  Forall2 (vreads_show m mm) envs (hist_reads (vmems st mm) [] (vhistory m mm envs)).
Proof. exact vsem_reads_last_written. Qed.
Print Assumptions C08_verilog_module_reads_last_written.

(* the run the harness evaluates on every exported design (vrun with an untrusted evaluation
   order, each valuation CHECKED by settledb) is such a run *)
Theorem C08_verilog_evaluated_run_is_a_trace : forall m order stim st,
  forallb (fun eo => snd eo) (fst (vrun m order st stim)) = true ->
  vtrace m st stim (map fst (fst (vrun m order st stim)))
  /\ snd (vrun m order st stim) = vstate_after m st stim (map fst (fst (vrun m order st stim))).
Proof. exact vrun_is_trace. Qed.
Print Assumptions C08_verilog_evaluated_run_is_a_trace.

(* (vi) after synthesize: ports split into 1-bit wires and re-assembled by concat_list /
   data[i] are the same ports, for every address width and data width and every machine *)
Theorem C08_synth_bits_roundtrip : forall n x, 0 <= x < 2 ^ Z.of_nat n -> rebuild n x = x.
Proof. exact rebuild_id. Qed.
Print Assumptions C08_synth_bits_roundtrip.

Theorem C08_synth_ports_identity : forall (S : Type) (step : S -> cycle -> list Z * S) aw dw s c,
  cycle_fits aw dw c ->
  Forall (fun v => 0 <= v < 2 ^ Z.of_nat dw) (fst (step s c)) ->
  synth_step step aw dw s c = step s c.
Proof. exact (@synth_step_id). Qed.
Print Assumptions C08_synth_ports_identity.

(* ---- corollaries in the property's words -------------------------------------- *)

Theorem C08_read_during_write_returns_old : forall A a d rs,
  fst (arr_run A [([(a, d, 1)], [a]); ([], a :: rs)]) = [[A a]; d :: map (upd A a d) rs].
Proof. exact read_during_write. Qed.
Print Assumptions C08_read_during_write_returns_old.

Theorem C08_disabled_write_noop : forall A ws rs,
  Forall (fun w => w_en w = 0) ws -> forall a, snd (arr_step A (ws, rs)) a = A a.
Proof. exact disabled_write_noop. Qed.
Print Assumptions C08_disabled_write_noop.

Theorem C08_disabled_write_noop_dict : forall d ws,
  Forall (fun w => w_en w = 0) ws -> fold_left sim_mem_update ws d = d.
Proof. exact disabled_write_noop_dict. Qed.
Print Assumptions C08_disabled_write_noop_dict.

Theorem C08_disabled_write_noop_hashmap : forall nl (h : cmap) ws,
  Forall (fun w => w_en w = 0) ws -> fold_left (c_write nl) ws h = h.
Proof. exact disabled_write_noop_hashmap. Qed.
Print Assumptions C08_disabled_write_noop_hashmap.

Theorem C08_read_ports_compose : forall A ws rs1 rs2,
  fst (arr_step A (ws, rs1 ++ rs2)) = fst (arr_step A (ws, rs1)) ++ fst (arr_step A (ws, rs2))
  /\ snd (arr_step A (ws, rs1 ++ rs2)) = snd (arr_step A (ws, [])).
Proof. exact read_ports_compose. Qed.
Print Assumptions C08_read_ports_compose.

Theorem C08_write_ports_compose : forall A c, cycle_ok c ->
  (forall w, In w (fst c) -> enabled w = true -> snd (arr_step A c) (w_addr w) = w_data w)
  /\ (forall a, ~ In a (enabled_addrs (fst c)) -> snd (arr_step A c) a = A a).
Proof. exact write_ports_compose. Qed.
Print Assumptions C08_write_ports_compose.

(* ---- a write port described under conditional_assignment (conditional._finalize) ---- *)

(* the select chains over (enable, addr, data) yield exactly the taken branch's write, with
   that branch's own enable; no branch taken = nothing written; a taken EnabledWrite branch
   with enable 0 is a no-op *)
Theorem C08_conditional_port_is_taken_branch : forall pre w post,
  Forall (fun pw => fst pw = false) pre -> Forall (fun pw => fst pw = false) post ->
  cond_port (pre ++ (true, w) :: post) = w.
Proof. exact cond_port_taken. Qed.
Print Assumptions C08_conditional_port_is_taken_branch.

Theorem C08_conditional_port_no_branch : forall brs,
  Forall (fun pw => fst pw = false) brs -> enabled (cond_port brs) = false.
Proof. exact cond_port_none. Qed.
Print Assumptions C08_conditional_port_no_branch.

Theorem C08_conditional_disabled_branch_noop : forall pre w post A,
  Forall (fun pw => fst pw = false) pre -> Forall (fun pw => fst pw = false) post ->
  w_en w = 0 -> forall a, arr_write A (cond_port (pre ++ (true, w) :: post)) a = A a.
Proof. exact cond_port_disabled_branch. Qed.
Print Assumptions C08_conditional_disabled_branch_noop.

(* ---- translated fragments (re-proved against the source text on every run) -------- *)

(* `if write_enable:` in Simulation._mem_update is "enable is non-zero" *)
Theorem C08_mem_update_condition : forall w, mem_update_cond (w_en w) = enabled w.
Proof. exact mem_update_cond_enabled. Qed.
Print Assumptions C08_mem_update_condition.

(* MemBlock._build, Simulation._mem_update and the C emitter agree on the operand positions *)
Theorem C08_port_operands_agree : forall w,
  sim_port (build_args w) = w /\ c_port (build_args w) = w.
Proof. exact port_args_roundtrip. Qed.
Print Assumptions C08_port_operands_agree.

(* create_hash_map(<size>, limbs) has at least one bucket, as the theorems above require *)
Theorem C08_c_size_positive : (0 < c_size)%nat.
Proof. exact c_size_positive. Qed.
Print Assumptions C08_c_size_positive.

(* ---- ROM ---------------------------------------------------------------------- *)

(* 0 <= a < 2^aw -> _get_read_data = data[a]  (0 if padded, error otherwise; a value
   outside [0, 2^bw) is an error) for list, dict and function data.  rom_read uses the
   address guard, the value guard and the padded values TRANSLATED from the source
   (Gen/MemFrag.v): editing any of them in memory.py re-checks or breaks this proof. *)
Theorem C08_rom : forall aw bw pad data a, 0 <= bw -> 0 <= a < 2 ^ aw ->
  rom_read aw bw pad data a = rom_spec bw pad data a.
Proof. exact rom_read_spec. Qed.
Print Assumptions C08_rom.

Theorem C08_rom_out_of_range : forall aw bw pad data a, a < 0 \/ 2 ^ aw <= a ->
  rom_read aw bw pad data a = RomErr ErrAddr.
Proof. exact rom_read_oob. Qed.
Print Assumptions C08_rom_out_of_range.

Theorem C08_rom_ok_is_datum : forall aw bw pad data a v, 0 <= bw ->
  rom_read aw bw pad data a = RomOk v ->
  0 <= a < 2 ^ aw /\ 0 <= v < 2 ^ bw
  /\ (rom_data_at data a = Some v \/ (rom_data_at data a = None /\ pad = true /\ v = 0)).
Proof. exact rom_read_ok. Qed.
Print Assumptions C08_rom_ok_is_datum.

Theorem C08_rom_mask_identity : forall aw bw pad data a v, 0 <= bw ->
  rom_read aw bw pad data a = RomOk v -> sanitize v bw = v.
Proof. exact rom_mask_identity. Qed.
Print Assumptions C08_rom_mask_identity.

(* CompiledSimulation / Verilog tabulate the ROM when the artefact is built *)
Theorem C08_rom_table : forall aw bw pad data tbl a, 0 <= aw ->
  rom_table aw bw pad data = Some tbl -> 0 <= a < 2 ^ aw ->
  rom_read aw bw pad data a = RomOk (nth (Z.to_nat a) tbl 0).
Proof. exact rom_table_spec. Qed.
Print Assumptions C08_rom_table.

(* ---- non-vacuity --------------------------------------------------------------- *)

(* 3 write ports, 2 read ports, 70-bit data, a disabled port colliding with an enabled
   one, a read-during-write, an uninitialised address; back-ends visit the ports in
   three different orders *)
Definition ex_h : list cycle :=
  [ ([(3, 7, 1); (3, 1, 0); (4, 2 ^ 69 + 1, 1)], [3; 4]);
    ([(5, 1, 1); (3, 9, 1); (0, 0, 0)], [3; 4]);
    ([(0, 0, 0); (0, 0, 0); (0, 0, 0)], [3; 6]) ].
Definition ex_rot (h : list cycle) : list cycle :=
  map (fun c => (match fst c with [x; y; z] => [z; x; y] | l => l end, snd c)) h.

Example C08_example_hypotheses :
  forallb cycle_okb ex_h = true
  /\ forallb (fun cc => nodupb (enabled_addrs (fst cc))) (ex_rot ex_h) = true.
Proof. vm_compute. split; reflexivity. Qed.

Example C08_example_trace :
  fst (arr_run (arr_init [(3, 5)] 0) ex_h) = [[5; 0]; [7; 2 ^ 69 + 1]; [9; 0]]
  /\ fst (sim_mem_run 0 [(3, 5)] (ex_rot ex_h)) = fst (arr_run (arr_init [(3, 5)] 0) ex_h)
  /\ fst (fast_mem_run 0 [(3, 5)] ex_h) = fst (arr_run (arr_init [(3, 5)] 0) ex_h)
  /\ fst (comp_mem_run 2 (c_init 2 c_size [(3, 5)]) (ex_rot (ex_rot ex_h)))
     = fst (arr_run (arr_init [(3, 5)] 0) ex_h)
  /\ hist_reads (arr_init [(3, 5)] 0) [] ex_h = fst (arr_run (arr_init [(3, 5)] 0) ex_h).
Proof. vm_compute. repeat split; reflexivity. Qed.

(* a 3-bucket map with colliding keys: chains, replacement in place, prepending *)
Example C08_example_hashmap :
  let h := hm_insert c_hash (hm_insert c_hash (hm_insert c_hash (hm_insert c_hash
             (hm_create 3) 1 [10]) 4 [40]) 7 [70]) 4 [41] in
  h = [[]; [(7, [70]); (4, [41]); (1, [10])]; []]
  /\ hm_lookup c_hash [0] h 4 = [41] /\ hm_lookup c_hash [0] h 10 = [0].
Proof. vm_compute. repeat split; reflexivity. Qed.

Example C08_example_rom :
  map (rom_read 2 3 false (RomList [1; 2; 9])) [0; 1; 2; 3; 4]
  = [RomOk 1; RomOk 2; RomErr ErrValue; RomErr ErrIndex; RomErr ErrAddr]
  /\ map (rom_read 2 3 true (RomDict [(3, 7)])) [0; 3] = [RomOk 0; RomOk 7]
  /\ rom_table 2 3 true (RomFun (fun a => Some (a + 1))) = Some [1; 2; 3; 4].
Proof. vm_compute. repeat split; reflexivity. Qed.

(* a module of the emitted subset: one 4-word x 8-bit memory, a write statement and a read
   assign; ids 1..5 = we, wa, wd, ra, o *)
Definition ex_vmod : vmodule :=
  mkVModule [(1, 1); (2, 2); (3, 8); (4, 2)] [(5, 8)] [] [(6, 8)] [(0, (8, 4))] []
            [(5, VId 6)] [(6, (0, 4))] RNone [] [] [(0, [mkVW 1 2 3])].
Definition ex_vins (l : list (Z * Z)) : (Z -> Z) * bool :=
  (fun x => match assoc l x with Some v => v | None => 0 end, false).
Definition ex_vstim := [ex_vins [(1, 1); (2, 3); (3, 200); (4, 3)]; ex_vins [(4, 3)]].

Example C08_example_verilog_module :
  let r := vrun ex_vmod [6; 5] (mkVState (fun _ => 0) (fun _ _ => 7)) ex_vstim in
  forallb (fun eo => snd eo) (fst r) = true
  /\ map (fun eo => fst eo 5) (fst r) = [7; 200]
  /\ NoDup (map fst (m_memwrs ex_vmod)).
Proof. vm_compute. repeat split; try reflexivity. repeat constructor; simpl; tauto. Qed.
