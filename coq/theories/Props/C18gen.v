(* C18, second file -- the PRNG structure model is REGENERATED from the source.
   Only statements + `exact`; proofs in Lib/PrngGenProofs.v.  Kept apart from Props/C18.v so that an
   edit of prngs.py that breaks this bridge leaves the theorems about AES and about the model
   itself counted as discharged. *)
From Coq Require Import ZArith List Bool.
From PyRTL Require Import Lib.PrngSpec Lib.PrngModel Lib.PrngProofs Lib.PrngProto
  Lib.PrngGenBase Gen.PrngFrag Lib.PrngGenRun Lib.PrngGenProofs.
Import ListNotations.
Open Scope Z_scope.

Definition tv_seed : Z := 0x0100000000000000000000000000000000000000.
Definition tv_sched : list (Z * Z * Z) :=
  (1, 0, tv_seed) :: repeat (0, 0, 0) 19 ++ (0, 1, 0) :: repeat (0, 0, 0) 3.

(* ---- the PRNG structure model IS the current source: the step functions of Gen/PrngFrag.v, which
   py/genfrag_C18prng.py regenerates from prng_lfsr / prng_xoroshiro128 / csprng_trivium on every run
   (integer parameters, register widths, tap indices with Python's operator precedence, shifts,
   concat word assembly, the conditional_assignment priority chains, ready, returned slices), equal
   the hand-written model the theorems above are stated over -- for ALL parameters, register
   contents and inputs (load / req one bit, seed within its declared width). ---- *)
Theorem C18_gen_lfsr_is_model : forall bw lfsr i,
  g_lfsr_step bw lfsr i = (m_lfsr_step bw lfsr i, m_lfsr_out bw lfsr).
Proof. exact gen_lfsr_is_model. Qed.
Print Assumptions C18_gen_lfsr_is_model.

Theorem C18_gen_xoroshiro_is_model : forall bw s0 s1 rand counter state load req seed,
  bit1 load -> bit1 req ->
  g_xo_step bw (s0, s1, rand, counter, state) (load, req, seed)
  = (m_xo_step bw (s0, s1, rand, counter, state) (load, req, seed),
     m_xo_out bw (s0, s1, rand, counter, state) (load, req, seed)).
Proof. exact gen_xoroshiro_is_model. Qed.
Print Assumptions C18_gen_xoroshiro_is_model.

Theorem C18_gen_trivium_is_model : forall bw k a b c rand counter state load req seed,
  bit1 load -> bit1 req -> 0 <= seed < 2 ^ 160 ->
  g_tv_step bw k (a, b, c, rand, counter, state) (load, req, seed)
  = (let '(abc', rand', counter', state') := m_tv_step bw k ((a, b, c), rand, counter, state) (load, req, seed) in
     let '(a', b', c') := abc' in (a', b', c', rand', counter', state'),
     m_tv_out bw k ((a, b, c), rand, counter, state) (load, req, seed)).
Proof. exact gen_trivium_is_model. Qed.
Print Assumptions C18_gen_trivium_is_model.

(* the regenerated parameter guard of csprng_trivium accepts, among 1..64, exactly the seven
   documented values of bits_per_cycle (finite domain: 64 values, vm_compute sweep lifted) *)
Theorem C18_gen_trivium_guard : forall k, 1 <= k <= 64 ->
  (g_tv_rejects 0 k = false <-> In k [1; 2; 4; 8; 16; 32; 64]).
Proof. exact gen_trivium_guard. Qed.
Print Assumptions C18_gen_trivium_guard.

(* end to end: running the REGENERATED step functions from the all-zero registers over ANY schedule
   of in-range inputs yields exactly the (ready, rand) sequence of the protocol specification built
   from the published algorithms *)
Theorem C18_gen_prng_protocol :
  (forall bw ins, 0 < bw -> g_lfsr_run bw 0 ins = s_lfsr_run bw 0 ins) /\
  (forall bw ins, 0 < bw -> Forall (ins_ok 128) ins ->
     g_xo_run bw (0, 0, 0, 0, 0) ins = s_xo_run bw sxo_init ins) /\
  (forall bw k ins, 0 < bw -> g_tv_rejects bw k = false -> 1 <= k <= 64 -> Forall (ins_ok 160) ins ->
     g_tv_run bw k (0, 0, 0, 0, 0, 0) ins = s_tv_run bw k stv_init ins).
Proof. exact gen_prng_protocol. Qed.
Print Assumptions C18_gen_prng_protocol.

Example C18_gen_example :
  ins_ok 160 (1, 0, tv_seed) /\ g_tv_rejects 128 64 = false /\ g_tv_rejects 128 3 = true /\
  g_tv_run 128 64 (0, 0, 0, 0, 0, 0) tv_sched = s_tv_run 128 64 stv_init tv_sched.
Proof. vm_compute. repeat split; (reflexivity || (left; reflexivity) || (right; reflexivity) || discriminate). Qed.

