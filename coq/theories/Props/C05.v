(* C05 -- Exported Verilog (module and testbench) reproduces the simulation.
   Only statements + `exact`; proofs in IO/VerilogProofs.v.
   The meaning of the emitted text is IO/VerilogSem.v (trusted formalisation of
   the IEEE 1364-2001 subset); the emitter model is IO/VerilogEmit.v, tied to
   the real emitter on every run by py/checks/C05.py. *)
From PyRTL Require Import Netlist.Sem Netlist.WFDefs IO.VerilogEmit IO.VerilogProofs.

(* For every exportable op, ALL operand widths and in-range operand values, and
   every destination width allowed by Block.sanity_check_net (vrules keeps only
   the rules the statement needs: non-negative widths, `~` destination not wider
   than its argument, select indices inside the argument): under Verilog-2001
   sizing the emitted `assign d = <emit_expr>;` stores exactly the documented
   value of the op reduced mod 2^(width of d).  So `+` keeps its carry when d is
   one bit wider, `-` wraps in d's width, the mux is `s ? b : a`, select is
   `{a[i_k],...,a[i_0]}` (scalar source without index), concat puts its first
   argument in the most significant position. *)
Theorem C05_assign_correct : forall nl env n e,
  emit_expr nl n = Some e ->
  vrules nl n = true ->
  (forall a, In a (nargs n) -> inrange (env a) (width_of nl a)) ->
  exists r, op_spec (nop n) (argvals nl env n) = Some r
            /\ vassign (width_of nl) env (ndest n) e = r mod 2 ^ width_of nl (ndest n).
Proof. exact assign_correct. Qed.
Print Assumptions C05_assign_correct.

(* every op except nand, memory ports and registers has an emitted expression *)
Example C05_every_comb_op_exported :
  forallb (fun o => match emit_expr (mkNetlist [] [] []) (mkNet o [1; 2] 4) with
                    | Some _ => true | None => false end)
          [OpAnd; OpOr; OpXor; OpAdd; OpSub; OpMul; OpLt; OpGt; OpEq] = true
  /\ emit_expr (mkNetlist [] [] []) (mkNet OpNand [1; 2] 3) = None.
Proof. vm_compute. split; reflexivity. Qed.

(* non-vacuity: 3-bit a=5, b=6: 4-bit sum keeps the carry, 4-bit difference wraps
   to 15, select [2;0] of a = 0b11, mux picks b when s=1 *)
Definition ex_nl : netlist :=
  {| wires := [ mkWire 1 3 KInput; mkWire 2 3 KInput; mkWire 3 4 KWire; mkWire 4 4 KWire;
                mkWire 5 2 KWire; mkWire 6 1 KInput; mkWire 7 3 KOutput ];
     nets := []; mems := [] |}.
Definition ex_env : Z -> Z := fun x => match x with 1 => 5 | 2 => 6 | 6 => 1 | _ => 0 end.
Definition ex_assign (n : net) : option Z :=
  match emit_expr ex_nl n with
  | Some e => Some (vassign (width_of ex_nl) ex_env (ndest n) e)
  | None => None
  end.
Example C05_example_values :
  map ex_assign [ mkNet OpAdd [1; 2] 3; mkNet OpSub [1; 2] 4; mkNet (OpSelect [2; 0]) [1] 5;
                  mkNet OpMux [6; 1; 2] 7; mkNet OpConcat [6; 1] 4; mkNet OpNot [1] 7 ]
  = [Some 11; Some 15; Some 3; Some 6; Some 13; Some 2]
  /\ forallb (vrules ex_nl) [ mkNet OpAdd [1; 2] 3; mkNet OpSub [1; 2] 4;
                             mkNet (OpSelect [2; 0]) [1] 5; mkNet OpMux [6; 1; 2] 7 ] = true.
Proof. vm_compute. split; reflexivity. Qed.
