(* C05 -- Exported Verilog (module and testbench) reproduces the simulation.
   Only statements + `exact`; proofs in IO/VerilogProofs.v (per-op),
   IO/VerilogModuleProofs.v (module), IO/VerilogTestbenchProofs.v (testbench).
   The meaning of the emitted text is IO/VerilogSem.v (trusted formalisation of
   the IEEE 1364-2001 subset); the emitter model is IO/VerilogEmit.v, tied to
   the real emitter on every run by py/checks/C05.py. *)
From PyRTL Require Import Netlist.Sem Netlist.WFDefs IO.VerilogEmit IO.VerilogTestbench
  IO.VerilogProofs IO.VerilogModuleProofs IO.VerilogTestbenchProofs IO.VerilogEmitSrc Gen.C05Emit.

(* gen_emit_expr (Gen/C05Emit.v) is the per-op table REGENERATED on every run from the source of
   _to_verilog_combinational by symbolic execution of its loop body (py/genfrag_C05.py).
   For every exportable op, ALL operand widths and in-range operand values, and
   every destination width allowed by Block.sanity_check_net (vrules keeps only
   the rules the statement needs: non-negative widths, `~` destination not wider
   than its argument, select indices inside the argument): under Verilog-2001
   sizing the emitted `assign d = <emit_expr>;` stores exactly the documented
   value of the op reduced mod 2^(width of d).  So `+` keeps its carry when d is
   one bit wider, `-` wraps in d's width, the mux is `s ? b : a`, select is
   `{a[i_k],...,a[i_0]}` (scalar source without index), concat puts its first
   argument in the most significant position. *)
Theorem C05_assign_correct : forall nl env n e,
  gen_emit_expr nl n = Some e ->
  vrules nl n = true ->
  (forall a, In a (nargs n) -> inrange (env a) (width_of nl a)) ->
  exists r, op_spec (nop n) (argvals nl env n) = Some r
            /\ vassign (width_of nl) env (ndest n) e = r mod 2 ^ width_of nl (ndest n).
Proof. exact assign_correct_src. Qed.
Print Assumptions C05_assign_correct.

(* Every expression / statement table the structural predicate emitted_ok is built from
   (IO/VerilogEmit.v, hand-written) IS the table regenerated from the current source
   (Gen/C05Emit.v): the per-op assign of _to_verilog_combinational, the constant literal, the
   register update and reset statements of _to_verilog_sequential (reset_value, else 0), the
   memory write statement (enable = args[2], address = args[0], data = args[1]) and the memory
   read address of _to_verilog_memories.  So C05_module_refines_spec is a statement about the
   source's tables, for ALL ops -- not only for the ops of the sampled designs. *)
Theorem C05_model_tables_match_source :
  (forall nl n, emit_expr nl n = gen_emit_expr nl n)
  /\ (forall c, VDec c = gen_const_expr c)
  /\ (forall nl, expected_updates nl
                 = map (fun n => (ndest n, gen_update_expr n)) (filter is_regnet (nets nl)))
  /\ (forall nl mode, mode <> RNone ->
        expected_resets nl mode
        = map (fun n => (ndest n, gen_reset_expr (reg_reset nl (ndest n)))) (filter is_regnet (nets nl)))
  /\ (forall nl mm, expected_writes nl mm = map gen_memwrite (filter (writes_to mm) (nets nl)))
  /\ (forall n, arg n 0 = gen_memread_addr n).
Proof. exact model_tables_match_source. Qed.
Print Assumptions C05_model_tables_match_source.

(* every op except nand, memory ports and registers has an emitted expression *)
Example C05_every_comb_op_exported :
  forallb (fun o => match gen_emit_expr (mkNetlist [] [] []) (mkNet o [1; 2] 4) with
                    | Some _ => true | None => false end)
          [OpAnd; OpOr; OpXor; OpAdd; OpSub; OpMul; OpLt; OpGt; OpEq] = true
  /\ gen_emit_expr (mkNetlist [] [] []) (mkNet OpNand [1; 2] 3) = None.
Proof. vm_compute. split; reflexivity. Qed.

(* non-vacuity: 3-bit a=5, b=6: 4-bit sum keeps the carry, 4-bit difference wraps
   to 15, select [2;0] of a = 0b11, mux picks b when s=1 *)
Definition ex_nl : netlist :=
  {| wires := [ mkWire 1 3 KInput; mkWire 2 3 KInput; mkWire 3 4 KWire; mkWire 4 4 KWire;
                mkWire 5 2 KWire; mkWire 6 1 KInput; mkWire 7 3 KOutput ];
     nets := []; mems := [] |}.
Definition ex_env : Z -> Z := fun x => match x with 1 => 5 | 2 => 6 | 6 => 1 | _ => 0 end.
Definition ex_assign (n : net) : option Z :=
  match gen_emit_expr ex_nl n with
  | Some e => Some (vassign (width_of ex_nl) ex_env (ndest n) e)
  | None => None
  end.
Example C05_example_values :
  map ex_assign [ mkNet OpAdd [1; 2] 3; mkNet OpSub [1; 2] 4; mkNet (OpSelect [2; 0]) [1] 5;
                  mkNet OpMux [6; 1; 2] 7; mkNet OpConcat [6; 1] 4; mkNet OpNot [1] 7 ]
  = [Some 11; Some 15; Some 3; Some 6; Some 13; Some 2]
  /\ forallb (vrules ex_nl) [ mkNet OpAdd [1; 2] 3; mkNet OpSub [1; 2] 4;
                             mkNet (OpSelect [2; 0]) [1] 5; mkNet OpMux [6; 1; 2] 7 ] = true.
Proof. vm_compute. split; reflexivity. Qed.

(* ---- the module ------------------------------------------------------------
   nl   : the design (any well-formed netlist: wfb, the premise of C01 as well);
   mode : the add_reset option (RNone = False, RSync = True, RAsync = 'asynchronous');
   m    : ANY module that passes the structural tie emitted_ok nl mode m -- on every
          run py/checks/C05.py evaluates this very predicate on the parse of the text
          the real output_to_verilog wrote, for each sampled design and option;
   SR   : same register values; every memory word of the module (ROM words come from
          its `initial` blocks) is what the reference semantics reads;
   envs : ANY sequence of settled valuations of the module (continuous assignments
          hold simultaneously) linked by clock edges with rst low.
   Then on every cycle every declared wire -- in particular every Output -- has
   exactly the value of the reference run, for every legal input sequence and
   every initial memory content, under all three add_reset options. *)
Theorem C05_module_refines_spec : forall nl mode m dflt inss st vst envs,
  wfb nl = true -> emitted_ok nl mode m = true ->
  SR nl st vst -> legal_regs nl (sregs st) -> Forall (legal_ins nl) inss ->
  vtrace m vst (map (fun i => (i, false)) inss) envs ->
  Forall2 (fun v env => forall x, In x (wires nl) ->
             env (wname x) = v (wname x) /\ inrange (env (wname x)) (width_of nl (wname x)))
          (fst (run nl dflt st inss)) envs.
Proof. intros nl mode m dflt inss st vst envs Hwf Hok. exact (run_refines nl mode m Hwf Hok dflt inss st vst envs). Qed.
Print Assumptions C05_module_refines_spec.

(* The hypothesis SR is satisfiable from every reference state, in particular the
   reset state init_state nl 0 [] memmap (registers at reset_value, else 0): give
   the module the same register values and memory contents; its ROM arrays are
   filled by its own initial blocks. *)
Theorem C05_initial_state_related : forall nl mode m st,
  wfb nl = true -> emitted_ok nl mode m = true ->
  SR nl st (mkVState (sregs st) (vinit_mems m (smems st))).
Proof. intros nl mode m st Hwf Hok. exact (init_related nl mode m Hwf Hok st). Qed.
Print Assumptions C05_initial_state_related.

(* add_reset = True / 'asynchronous': one clock edge with rst high loads every
   register with its reset value (0 if none), whatever it held before. *)
Theorem C05_reset_edge_loads_reset_values : forall nl mode m,
  wfb nl = true -> emitted_ok nl mode m = true -> mode <> RNone ->
  forall env vst n, In n (nets nl) -> nop n = OpReg ->
  vregs (vedge m true env vst) (ndest n) = reset_of nl (ndest n) mod 2 ^ width_of nl (ndest n).
Proof. exact reset_loads. Qed.
Print Assumptions C05_reset_edge_loads_reset_values.

(* What the search's executable evaluator (vrun: order-hinted evaluation + check of
   every equation) returns IS a run of the relational semantics, hence the reference
   trace: the search can only disagree with Sem.run if the tie or wfb is false. *)
Theorem C05_evaluator_refines_spec : forall nl mode m order dflt st inss,
  wfb nl = true -> emitted_ok nl mode m = true ->
  legal_regs nl (sregs st) -> Forall (legal_ins nl) inss ->
  let tr := fst (vrun m order (mkVState (sregs st) (vinit_mems m (smems st)))
                      (map (fun i => (i, false)) inss)) in
  forallb (fun eo => snd eo) tr = true ->
  Forall2 (fun v env => forall x, In x (wires nl) -> env (wname x) = v (wname x))
          (fst (run nl dflt st inss)) (map fst tr).
Proof. exact evaluator_refines_spec. Qed.
Print Assumptions C05_evaluator_refines_spec.

(* ---- the testbench ---------------------------------------------------------
   tb_ok is the decidable predicate the harness evaluates on the parse of the text
   output_verilog_testbench wrote for a trace of each simulator; st0 is the state
   the simulation was started from (register_value_map > reset_value > default,
   memory_value_map > default), inss the traced inputs. *)
Theorem C05_testbench_replays : forall nl st0 inss tb,
  tb_ok nl st0 inss tb = true ->
  (forall x, In x (wires nl) -> is_kreg x = true ->
     tregs (tb_state tb) (wname x) = Some (sregs st0 (wname x)))
  /\ (forall mm, In mm (mems nl) -> mrom mm = None -> forall a, 0 <= a < 2 ^ maddrw mm ->
        tmems (tb_state tb) (mid mm) a = Some (smems st0 (mid mm) a))
  /\ Forall2 (drives_spec nl) inss (tb_cycles tb).
Proof. exact tb_ok_sound. Qed.
Print Assumptions C05_testbench_replays.

(* ---- non-vacuity: a design with a register (reset 9), a written memory, a ROM,
   +, -, <, mux, selects; module = parse of the text the real emitter wrote for it
   with add_reset='asynchronous' (generated once with py/checks/C05.py's reader) *)
Definition ex2_nl : netlist :=
  mkNetlist [mkWire 1 3 KInput; mkWire 2 3 KInput; mkWire 3 4 KOutput; mkWire 4 3 KOutput; mkWire 5 4 KOutput; mkWire 6 4 (KReg (Some 9)); mkWire 7 4 KWire; mkWire 8 4 KWire; mkWire 9 4 KWire; mkWire 10 4 KWire; mkWire 11 2 KWire; mkWire 12 1 KWire; mkWire 13 2 KWire; mkWire 14 4 KWire; mkWire 15 2 KWire; mkWire 16 3 KWire; mkWire 17 1 KWire] [mkNet (OpSelect [0]) [2] 12; mkNet (OpSelect [0; 1]) [2] 13; mkNet (OpMemRd 0) [13] 14; mkNet OpW [14] 3; mkNet OpSub [1; 2] 8; mkNet OpLt [1; 2] 17; mkNet OpAdd [1; 2] 7; mkNet (OpSelect [0; 1]) [1] 11; mkNet (OpSelect [1; 2]) [6] 15; mkNet OpXor [7; 6] 10; mkNet OpMux [17; 8; 6] 9; mkNet (OpMemRd 1) [15] 16; mkNet OpW [9] 5; mkNet OpW [16] 4; mkNet OpReg [10] 6; mkNet (OpMemWr 0) [11; 8; 12] 0] [mkMem 0 2 4 None; mkMem 1 2 3 (Some [(0, 5); (1, 1); (2, 7); (3, 2)])].
Definition ex2_m : vmodule :=
  mkVModule [(1, 3); (2, 3)] [(3, 4); (4, 3); (5, 4)] [(6, 4)] [(7, 4); (8, 4); (10, 4); (11, 2); (12, 1); (13, 2); (14, 4); (15, 2); (16, 3); (17, 1); (9, 4)] [(0, (4, 4)); (1, (3, 4))] [(1, [(0, (VSized 3 5)); (1, (VSized 3 1)); (2, (VSized 3 7)); (3, (VSized 3 2))])] [(3, (VId 14)); (4, (VId 16)); (5, (VId 9)); (7, (VBin BAdd (VId 1) (VId 2))); (8, (VBin BSub (VId 1) (VId 2))); (10, (VBin BXor (VId 7) (VId 6))); (11, (VCat [(VBit 1 1); (VBit 1 0)])); (12, (VCat [(VBit 2 0)])); (13, (VCat [(VBit 2 1); (VBit 2 0)])); (15, (VCat [(VBit 6 2); (VBit 6 1)])); (17, (VCmp CLt (VId 1) (VId 2))); (9, (VCond (VId 17) (VId 6) (VId 8)))] [(14, (0, 13)); (16, (1, 15))] RAsync [(6, (VDec 9))] [(6, (VId 10))] [(0, [mkVW 12 11 8])].
Definition ex2_order : list Z := [12; 13; 14; 3; 8; 17; 7; 11; 15; 10; 9; 16; 5; 4].
Definition ex2_ins : list (wid -> Z) :=
  map (fun p x => match x with 1 => fst p | 2 => snd p | _ => 0 end) [(5, 6); (7, 1); (2, 2); (0, 7)].
Definition ex2_st : state := init_state ex2_nl 0 [] [(0, [(2, 11)])].

Example C05_example_hypotheses : wfb ex2_nl = true /\ emitted_ok ex2_nl RAsync ex2_m = true.
Proof. vm_compute. split; reflexivity. Qed.

(* outputs o1 o2 o3 over four cycles: both semantics give the same trace, every
   cycle settles; the register starts at its reset value 9 *)
Example C05_example_trace :
  let tr := fst (vrun ex2_m ex2_order (mkVState (sregs ex2_st) (vinit_mems ex2_m (smems ex2_st)))
                      (map (fun i => (i, false)) ex2_ins)) in
  forallb (fun eo => snd eo) tr = true
  /\ map (fun env => map env [3; 4; 5; 6]) (map fst tr)
     = map (fun v => map v [3; 4; 5; 6]) (fst (run ex2_nl 0 ex2_st ex2_ins))
  /\ map (fun v => map v [3; 4; 5; 6]) (fst (run ex2_nl 0 ex2_st ex2_ins))
     = [[11; 5; 9; 9]; [0; 1; 6; 2]; [11; 1; 0; 10]; [6; 2; 14; 14]].
Proof. vm_compute. repeat split; reflexivity. Qed.

(* a testbench that sets r, fills the memory and one word, and drives a, b for one
   cycle is accepted; one that forgets the register is not *)
Example C05_example_testbench :
  tb_ok ex2_nl (init_state ex2_nl 0 [(6, 3)] [(0, [(2, 11)])]) [fun x => if x =? 1 then 5 else 6]
        (mkTB [TReg 6 3; TFill 0 4 0; TMem 0 2 11] [[(1, (3, 5)); (2, (3, 6))]]) = true
  /\ tb_ok ex2_nl (init_state ex2_nl 0 [(6, 3)] [(0, [(2, 11)])]) [fun x => if x =? 1 then 5 else 6]
        (mkTB [TReg 6 9; TFill 0 4 0; TMem 0 2 11] [[(1, (3, 5)); (2, (3, 6))]]) = false.
Proof. vm_compute. split; reflexivity. Qed.
