(* C10 -- Malformed netlists are rejected; API-built designs iterate in
   dependency order whichever way ties are broken.
   Only statements + `exact`; proofs in Netlist/IterCorrect.v, SanityCorrect.v. *)
From PyRTL Require Import Netlist.Sanity Netlist.IterCorrect Netlist.SanityCorrect Netlist.Accepted.
From Coq Require Import Permutation.

(* Whatever the schedule (oracle = the sequence of to_clear.pop() choices): if
   the iterator returns, it yielded every net exactly once (the indices are a
   permutation of 0..n-1 and each index carries its own net) and every net comes
   after the producers of all its arguments that are not sources
   (Input/Const/Register). *)
Theorem C10_iter_any_schedule_sound : forall nl oracle l,
  iterate nl oracle = IOk l ->
  Permutation (map fst l) (seq 0 (length (nets nl)))
  /\ (forall i n, In (i, n) l -> nth_error (nets nl) i = Some n)
  /\ topo_sortedb nl (map snd l) = true.
Proof. exact iterate_sound. Qed.
Print Assumptions C10_iter_any_schedule_sound.

(* A combinational cycle (no dependency order exists) is rejected under every schedule. *)
Theorem C10_cycle_rejected : forall nl,
  (forall l, Permutation l (nets nl) -> topo_sortedb nl l = false) ->
  forall oracle, accepted nl oracle = false.
Proof. exact fault_combinational_cycle. Qed.
Print Assumptions C10_cycle_rejected.

Theorem C10_two_drivers_rejected : forall nl pre n1 mid n2 post,
  nets nl = pre ++ n1 :: mid ++ n2 :: post ->
  has_dest (nop n1) = true -> has_dest (nop n2) = true -> ndest n1 = ndest n2 ->
  sanity_block nl = false.
Proof. exact fault_two_drivers. Qed.
Print Assumptions C10_two_drivers_rejected.

Theorem C10_read_never_driven_rejected : forall nl n a,
  In n (nets nl) -> In a (nargs n) ->
  kind_is_input_or_const nl a = false -> ~ In a (dests_of (nets nl)) ->
  sanity_block nl = false.
Proof. exact fault_read_never_driven. Qed.
Print Assumptions C10_read_never_driven_rejected.

Theorem C10_declared_unconnected_rejected : forall nl x,
  In x (wires nl) -> kind_is_input_or_const nl (wname x) = false ->
  ~ In (wname x) (dests_of (nets nl)) -> ~ In (wname x) (args_of (nets nl)) ->
  sanity_block nl = false.
Proof. exact fault_declared_unconnected. Qed.
Print Assumptions C10_declared_unconnected_rejected.

Theorem C10_foreign_wire_rejected : forall nl n,
  In n (nets nl) ->
  (exists a, In a (nargs n) /\ declared nl a = false)
  \/ (has_dest (nop n) = true /\ declared nl (ndest n) = false) ->
  sanity_block nl = false.
Proof.
  intros nl n Hn [[a [Ha Hd]]|[Hh Hd]].
  - exact (fault_foreign_arg nl n a Hn Ha Hd).
  - exact (fault_foreign_dest nl n Hn Hh Hd).
Qed.
Print Assumptions C10_foreign_wire_rejected.

Theorem C10_wrong_arity_rejected : forall nl n,
  In n (nets nl) -> arity_ok (nop n) (length (nargs n)) = false -> sanity_block nl = false.
Proof. exact fault_wrong_arity. Qed.
Print Assumptions C10_wrong_arity_rejected.

Theorem C10_binary_width_mismatch_rejected : forall nl n,
  In n (nets nl) -> is_binary (nop n) = true ->
  width_of nl (arg n 0) <> width_of nl (arg n 1) -> sanity_block nl = false.
Proof. exact fault_binary_width_mismatch. Qed.
Print Assumptions C10_binary_width_mismatch_rejected.

Theorem C10_mux_select_width_rejected : forall nl n,
  In n (nets nl) -> nop n = OpMux -> width_of nl (arg n 0) <> 1 -> sanity_block nl = false.
Proof. exact fault_mux_select_not_one_bit. Qed.
Print Assumptions C10_mux_select_width_rejected.

Theorem C10_select_param_rejected : forall nl n idx p,
  In n (nets nl) -> nop n = OpSelect idx -> In p idx ->
  (p < 0 \/ width_of nl (arg n 0) <= p) -> sanity_block nl = false.
Proof. exact fault_select_index_out_of_bounds. Qed.
Print Assumptions C10_select_param_rejected.

Theorem C10_dest_too_wide_rejected : forall nl n,
  In n (nets nl) ->
  match nop n with
  | OpW | OpNot | OpAnd | OpOr | OpXor | OpNand => width_of nl (ndest n) > width_of nl (arg n 0)
  | OpAdd | OpSub => width_of nl (ndest n) > width_of nl (arg n 0) + 1
  | OpMul => width_of nl (ndest n) > 2 * width_of nl (arg n 0)
  | OpLt | OpGt | OpEq => width_of nl (ndest n) <> 1
  | OpMux => width_of nl (ndest n) > width_of nl (arg n 1)
  | OpSelect idx => width_of nl (ndest n) > Z.of_nat (length idx)
  | OpConcat => width_of nl (ndest n) > fold_right Z.add 0 (map (width_of nl) (nargs n))
  | _ => False
  end -> sanity_block nl = false.
Proof. exact fault_dest_too_wide. Qed.
Print Assumptions C10_dest_too_wide_rejected.

Theorem C10_input_const_destination_rejected : forall nl n,
  In n (nets nl) -> has_dest (nop n) = true -> kind_is_input_or_const nl (ndest n) = true ->
  sanity_block nl = false.
Proof. exact fault_input_const_dest. Qed.
Print Assumptions C10_input_const_destination_rejected.

Theorem C10_output_argument_rejected : forall nl n a,
  In n (nets nl) -> In a (nargs n) -> kind_is_output nl a = true -> sanity_block nl = false.
Proof. exact fault_output_arg. Qed.
Print Assumptions C10_output_argument_rejected.

Theorem C10_duplicate_names_rejected : forall nl,
  ~ NoDup (map wname (wires nl)) -> sanity_block nl = false.
Proof. exact fault_duplicate_names. Qed.
Print Assumptions C10_duplicate_names_rejected.

(* Never silently simulated: whatever the model of sanity_check accepts and the
   iterator orders (under any schedule) satisfies `wfb`, the hypothesis under which
   C01 proves that Simulation computes the documented semantics.  Side conditions
   outside sanity_check's rules: Const values fit their width (Const constructor)
   and no combinational net drives a Register (construction API). *)
Theorem C10_accepted_implies_wfb : forall nl oracle l,
  sanity_block nl = true -> consts_ok nl = true -> comb_dest_not_reg nl = true ->
  iterate nl oracle = IOk l -> wfb (with_nets nl (map snd l)) = true.
Proof. intros nl oracle l Hs Hc Hr. exact (accepted_implies_wfb nl Hs Hc Hr oracle l). Qed.
Print Assumptions C10_accepted_implies_wfb.

(* Non-vacuity: the C01 example design is accepted under two different
   schedules, which yield different but both dependency-respecting orders; and a
   one-net self-loop is rejected by the iterator under both. *)
Definition ex_nl : netlist :=
  {| wires := [ mkWire 1 3 KInput; mkWire 2 3 (KReg (Some 5)); mkWire 3 3 KWire;
                mkWire 4 3 KWire; mkWire 5 6 KWire; mkWire 6 2 KOutput;
                mkWire 7 1 (KConst 1); mkWire 8 3 KWire ];
     nets := [ mkNet OpReg [8] 2; mkNet (OpMemWr 0) [1; 3; 7] 0; mkNet (OpMemRd 0) [4] 8;
               mkNet (OpSelect [5; 0]) [5] 6; mkNet OpConcat [3; 4] 5;
               mkNet OpNand [1; 3] 4; mkNet OpSub [1; 2] 3 ];
     mems := [ mkMem 0 3 3 None ] |}.

Example C10_example_accepted :
  accepted ex_nl [] = true /\ accepted ex_nl [2; 1; 0; 5; 3; 1; 1]%nat = true
  /\ sanity_case ex_nl [] = [1; 0].
Proof. vm_compute. repeat split; reflexivity. Qed.

Example C10_example_side_conditions : consts_ok ex_nl = true /\ comb_dest_not_reg ex_nl = true.
Proof. vm_compute. split; reflexivity. Qed.

Example C10_example_orders_differ :
  match iterate ex_nl [], iterate ex_nl [2; 1; 0; 5; 3; 1; 1]%nat with
  | IOk l1, IOk l2 => negb (if list_eq_dec Nat.eq_dec (map fst l1) (map fst l2) then true else false)
  | _, _ => false
  end = true.
Proof. vm_compute. reflexivity. Qed.

Definition ex_cycle : netlist :=
  {| wires := [ mkWire 1 1 KInput; mkWire 2 1 KWire; mkWire 3 1 KOutput ];
     nets := [ mkNet OpAnd [1; 2] 2; mkNet OpW [2] 3 ];
     mems := [] |}.

Example C10_example_cycle_rejected :
  sanity_block ex_cycle = true /\ accepted ex_cycle [] = false /\ accepted ex_cycle [1; 1]%nat = false.
Proof. vm_compute. repeat split; reflexivity. Qed.
