(* C10 -- Malformed netlists are rejected; API-built designs iterate in
   dependency order whichever way ties are broken.
   Only statements + `exact`; proofs in Netlist/IterCorrect.v, IterComplete.v,
   SanityCorrect.v, SanityGen.v, Accepted.v. *)
From PyRTL Require Import Netlist.Sanity Netlist.IterCorrect Netlist.SanityCorrect Netlist.Accepted.
From PyRTL Require Import Netlist.IterComplete Netlist.IterSinks.
From Coq Require Import Permutation.

(* Whatever the schedule (oracle = the sequence of to_clear.pop() choices): if
   the iterator returns, it yielded every net exactly once (the indices are a
   permutation of 0..n-1 and each index carries its own net) and every net comes
   after the producers of all its arguments that are not sources
   (Input/Const/Register). *)
Theorem C10_iter_any_schedule_sound : forall nl oracle l,
  iterate nl oracle = IOk l ->
  Permutation (map fst l) (seq 0 (length (nets nl)))
  /\ (forall i n, In (i, n) l -> nth_error (nets nl) i = Some n)
  /\ topo_sortedb nl (map snd l) = true.
Proof. exact iterate_sound. Qed.
Print Assumptions C10_iter_any_schedule_sound.

(* COMPLETENESS, whichever way ties are broken: a netlist that passes the model of
   sanity_check, in which no combinational net drives a Register (construction API:
   `reg <<= x` raises; see C10_example_comb_driven_register for why it is needed) and
   whose nets have SOME dependency order, iterates successfully under EVERY
   schedule -- never the KeyError "Cannot Iterate through malformed block", never
   "non-register loops", never out of fuel -- and yields each net exactly once, after
   the producers of all its non-source arguments. *)
Theorem C10_iter_any_schedule_complete : forall nl,
  sanity_block nl = true -> comb_dest_not_reg nl = true ->
  (exists l, Permutation l (nets nl) /\ topo_sortedb nl l = true) ->
  forall oracle, exists l,
    iterate nl oracle = IOk l
    /\ Permutation (map snd l) (nets nl)
    /\ NoDup (map fst l)
    /\ topo_sortedb nl (map snd l) = true.
Proof. exact iterate_total. Qed.
Print Assumptions C10_iter_any_schedule_complete.

(* Without assuming a dependency order: the only way the iterator can fail on a
   sanity-checked netlist is the "non-register loops" error -- the same under every
   schedule is NOT claimed here, only: never a KeyError, never out of fuel. *)
Theorem C10_iter_fails_only_by_loop : forall nl,
  sanity_block nl = true -> comb_dest_not_reg nl = true ->
  forall oracle, (exists l, iterate nl oracle = IOk l) \/ iterate nl oracle = ILoop.
Proof. exact iterate_no_keyerror. Qed.
Print Assumptions C10_iter_fails_only_by_loop.

(* A combinational cycle (no dependency order exists) is rejected under every schedule. *)
Theorem C10_cycle_rejected : forall nl,
  (forall l, Permutation l (nets nl) -> topo_sortedb nl l = false) ->
  forall oracle, accepted nl oracle = false.
Proof. exact fault_combinational_cycle. Qed.
Print Assumptions C10_cycle_rejected.

Theorem C10_two_drivers_rejected : forall nl pre n1 mid n2 post,
  nets nl = pre ++ n1 :: mid ++ n2 :: post ->
  has_dest (nop n1) = true -> has_dest (nop n2) = true -> ndest n1 = ndest n2 ->
  sanity_block nl = false.
Proof. exact fault_two_drivers. Qed.
Print Assumptions C10_two_drivers_rejected.

Theorem C10_read_never_driven_rejected : forall nl n a,
  In n (nets nl) -> In a (nargs n) ->
  kind_is_input_or_const nl a = false -> ~ In a (dests_of (nets nl)) ->
  sanity_block nl = false.
Proof. exact fault_read_never_driven. Qed.
Print Assumptions C10_read_never_driven_rejected.

Theorem C10_declared_unconnected_rejected : forall nl x,
  In x (wires nl) -> kind_is_input_or_const nl (wname x) = false ->
  ~ In (wname x) (dests_of (nets nl)) -> ~ In (wname x) (args_of (nets nl)) ->
  sanity_block nl = false.
Proof. exact fault_declared_unconnected. Qed.
Print Assumptions C10_declared_unconnected_rejected.

Theorem C10_foreign_wire_rejected : forall nl n,
  In n (nets nl) ->
  (exists a, In a (nargs n) /\ declared nl a = false)
  \/ (has_dest (nop n) = true /\ declared nl (ndest n) = false) ->
  sanity_block nl = false.
Proof.
  intros nl n Hn [[a [Ha Hd]]|[Hh Hd]].
  - exact (fault_foreign_arg nl n a Hn Ha Hd).
  - exact (fault_foreign_dest nl n Hn Hh Hd).
Qed.
Print Assumptions C10_foreign_wire_rejected.

Theorem C10_wrong_arity_rejected : forall nl n,
  In n (nets nl) -> arity_ok (nop n) (length (nargs n)) = false -> sanity_block nl = false.
Proof. exact fault_wrong_arity. Qed.
Print Assumptions C10_wrong_arity_rejected.

Theorem C10_binary_width_mismatch_rejected : forall nl n,
  In n (nets nl) -> is_binary (nop n) = true ->
  width_of nl (arg n 0) <> width_of nl (arg n 1) -> sanity_block nl = false.
Proof. exact fault_binary_width_mismatch. Qed.
Print Assumptions C10_binary_width_mismatch_rejected.

Theorem C10_mux_select_width_rejected : forall nl n,
  In n (nets nl) -> nop n = OpMux -> width_of nl (arg n 0) <> 1 -> sanity_block nl = false.
Proof. exact fault_mux_select_not_one_bit. Qed.
Print Assumptions C10_mux_select_width_rejected.

Theorem C10_select_param_rejected : forall nl n idx p,
  In n (nets nl) -> nop n = OpSelect idx -> In p idx ->
  (p < 0 \/ width_of nl (arg n 0) <= p) -> sanity_block nl = false.
Proof. exact fault_select_index_out_of_bounds. Qed.
Print Assumptions C10_select_param_rejected.

Theorem C10_dest_too_wide_rejected : forall nl n,
  In n (nets nl) ->
  match nop n with
  | OpW | OpNot | OpAnd | OpOr | OpXor | OpNand => width_of nl (ndest n) > width_of nl (arg n 0)
  | OpAdd | OpSub => width_of nl (ndest n) > width_of nl (arg n 0) + 1
  | OpMul => width_of nl (ndest n) > 2 * width_of nl (arg n 0)
  | OpLt | OpGt | OpEq => width_of nl (ndest n) <> 1
  | OpMux => width_of nl (ndest n) > width_of nl (arg n 1)
  | OpSelect idx => width_of nl (ndest n) > Z.of_nat (length idx)
  | OpConcat => width_of nl (ndest n) > fold_right Z.add 0 (map (width_of nl) (nargs n))
  | _ => False
  end -> sanity_block nl = false.
Proof. exact fault_dest_too_wide. Qed.
Print Assumptions C10_dest_too_wide_rejected.

Theorem C10_input_const_destination_rejected : forall nl n,
  In n (nets nl) -> has_dest (nop n) = true -> kind_is_input_or_const nl (ndest n) = true ->
  sanity_block nl = false.
Proof. exact fault_input_const_dest. Qed.
Print Assumptions C10_input_const_destination_rejected.

Theorem C10_output_argument_rejected : forall nl n a,
  In n (nets nl) -> In a (nargs n) -> kind_is_output nl a = true -> sanity_block nl = false.
Proof. exact fault_output_arg. Qed.
Print Assumptions C10_output_argument_rejected.

Theorem C10_duplicate_names_rejected : forall nl,
  ~ NoDup (map wname (wires nl)) -> sanity_block nl = false.
Proof. exact fault_duplicate_names. Qed.
Print Assumptions C10_duplicate_names_rejected.

(* Never silently simulated: whatever the model of sanity_check accepts and the
   iterator orders (under any schedule) satisfies `wfb`, the hypothesis under which
   C01 proves that Simulation computes the documented semantics.  Side conditions
   outside sanity_check's rules: Const values fit their width (Const constructor)
   and no combinational net drives a Register (construction API). *)
Theorem C10_accepted_implies_wfb : forall nl oracle l,
  sanity_block nl = true -> consts_ok nl = true -> comb_dest_not_reg nl = true ->
  iterate nl oracle = IOk l -> wfb (with_nets nl (map snd l)) = true.
Proof. intros nl oracle l Hs Hc Hr. exact (accepted_implies_wfb nl Hs Hc Hr oracle l). Qed.
Print Assumptions C10_accepted_implies_wfb.

(* Non-vacuity: the C01 example design is accepted under two different
   schedules, which yield different but both dependency-respecting orders; and a
   one-net self-loop is rejected by the iterator under both. *)
Definition ex_nl : netlist :=
  {| wires := [ mkWire 1 3 KInput; mkWire 2 3 (KReg (Some 5)); mkWire 3 3 KWire;
                mkWire 4 3 KWire; mkWire 5 6 KWire; mkWire 6 2 KOutput;
                mkWire 7 1 (KConst 1); mkWire 8 3 KWire ];
     nets := [ mkNet OpReg [8] 2; mkNet (OpMemWr 0) [1; 3; 7] 0; mkNet (OpMemRd 0) [4] 8;
               mkNet (OpSelect [5; 0]) [5] 6; mkNet OpConcat [3; 4] 5;
               mkNet OpNand [1; 3] 4; mkNet OpSub [1; 2] 3 ];
     mems := [ mkMem 0 3 3 None ] |}.

Example C10_example_accepted :
  accepted ex_nl [] = true /\ accepted ex_nl [2; 1; 0; 5; 3; 1; 1]%nat = true
  /\ sanity_case ex_nl [] = [1; 0].
Proof. vm_compute. repeat split; reflexivity. Qed.

Example C10_example_side_conditions : consts_ok ex_nl = true /\ comb_dest_not_reg ex_nl = true.
Proof. vm_compute. split; reflexivity. Qed.

Example C10_example_orders_differ :
  match iterate ex_nl [], iterate ex_nl [2; 1; 0; 5; 3; 1; 1]%nat with
  | IOk l1, IOk l2 => negb (if list_eq_dec Nat.eq_dec (map fst l1) (map fst l2) then true else false)
  | _, _ => false
  end = true.
Proof. vm_compute. reflexivity. Qed.

Definition ex_cycle : netlist :=
  {| wires := [ mkWire 1 1 KInput; mkWire 2 1 KWire; mkWire 3 1 KOutput ];
     nets := [ mkNet OpAnd [1; 2] 2; mkNet OpW [2] 3 ];
     mems := [] |}.

Example C10_example_cycle_rejected :
  sanity_block ex_cycle = true /\ accepted ex_cycle [] = false /\ accepted ex_cycle [1; 1]%nat = false.
Proof. vm_compute. repeat split; reflexivity. Qed.

(* Non-vacuity of the completeness theorem: the example design satisfies its three
   hypotheses (the dependency order is the one a schedule yields). *)
Example C10_example_complete_hyps :
  sanity_block ex_nl = true /\ comb_dest_not_reg ex_nl = true
  /\ exists l, Permutation l (nets ex_nl) /\ topo_sortedb ex_nl l = true.
Proof.
  split; [vm_compute; reflexivity|]. split; [vm_compute; reflexivity|].
  destruct (iterate ex_nl []) as [l| | |] eqn:E; try (vm_compute in E; discriminate E).
  exists (map snd l). destruct (iterate_sound ex_nl [] l E) as [Hp [Hn Ht]].
  split; [apply yielded_perm; assumption|assumption].
Qed.

(* The side condition is needed, in the model AND in PyRTL: a Register driven by a
   combinational net passes sanity_check, has a dependency order, and iterates under
   one schedule but raises "Cannot Iterate through malformed block" under another. *)
Definition ex_regdrv : netlist :=
  {| wires := [ mkWire 1 1 KInput; mkWire 2 1 (KReg None); mkWire 3 1 KOutput ];
     nets := [ mkNet OpW [1] 2; mkNet OpW [2] 3 ];
     mems := [] |}.

Example C10_example_comb_driven_register :
  sanity_block ex_regdrv = true /\ comb_dest_not_reg ex_regdrv = false
  /\ topo_sortedb ex_regdrv (nets ex_regdrv) = true
  /\ accepted ex_regdrv [] = true /\ iterate ex_regdrv [1]%nat = IKeyError.
Proof. vm_compute. repeat split; reflexivity. Qed.

(* ---- the sink table of Block.net_connections (what `for gate in dest_dict[wire]` walks) ----
   The iterator of the theorems above is the table-parametric iterator instantiated with
   `readers`; `readers` lists exactly the nets that read the wire, each ONCE however often
   the wire occurs among a net's arguments (the `set(net.args)` of net_connections; compared
   with the real table on every generated design by py/checks/C10.py). *)
Theorem C10_iter_is_table_iterator : forall nl oracle,
  iterate_with readers nl oracle = iterate nl oracle.
Proof. exact iterate_with_readers. Qed.
Print Assumptions C10_iter_is_table_iterator.

Theorem C10_sink_table_lists_each_reader_once : forall (l : list net) w,
  NoDup (map fst (readers (number 0 l) w))
  /\ (forall i n, In (i, n) (readers (number 0 l) w) <->
                  In (i, n) (number 0 l) /\ mem_in w (nargs n) = true).
Proof. intros l w. split; [exact (readers_once l w)|exact (readers_exactly_the_reading_nets l w)]. Qed.
Print Assumptions C10_sink_table_lists_each_reader_once.

(* That "once" is needed: with a table that only collapses ADJACENT repetitions of a wire,
   o <<= concat(a, b, a) -- which passes the model of sanity_check, has no combinationally
   driven register and has a dependency order -- raises "Cannot Iterate through malformed
   block" under the schedule that clears b first and iterates under the other one; with
   `readers` it iterates under both (completeness theorem above). *)
Theorem C10_sinks_listed_twice_refuted :
  sanity_block ex_aba = true /\ comb_dest_not_reg ex_aba = true
  /\ topo_sortedb ex_aba (nets ex_aba) = true
  /\ (exists l, iterate ex_aba [1]%nat = IOk l)
  /\ iterate_with readers_adjacent ex_aba [1]%nat = IKeyError
  /\ (exists l, iterate_with readers_adjacent ex_aba [0]%nat = IOk l).
Proof. exact sinks_listed_twice_refuted. Qed.
Print Assumptions C10_sinks_listed_twice_refuted.

Example C10_example_adjacent_repeats_harmless :
  iterate_with readers_adjacent ex_aab [1; 0; 2]%nat = iterate ex_aab [1; 0; 2]%nat
  /\ (exists l, iterate ex_aab [1; 0; 2]%nat = IOk l).
Proof. exact adjacent_repeats_agree. Qed.

(* ------------------------------------------------------------------------------
   Everything below depends on Gen/SanityNet.v, which is REGENERATED from the current
   source of Block.sanity_check_net on every run (py/genfrag_C10.py).  The import is
   placed here so that a broken tie leaves the theorems above discharged. *)
From PyRTL Require Import Gen.SanityNet Netlist.SanityGen.

(* TRANSLATOR TIE for sanity_check_net: the guard list regenerated on every run
   from the current source of Block.sanity_check_net (Gen/SanityNet.v: every
   `if ...: raise`, first one to fire) rejects the shape of an embedded net exactly
   when the hand model `sanity_net` -- over which the rejection theorems above are
   stated -- rejects it.  Deleting or weakening an `if` of the source that can fire
   on an embedded net breaks this proof. *)
Theorem C10_source_guards_agree_with_model : forall nl n,
  Gen.SanityNet.rejects (shape_of nl n) = negb (sanity_net nl n).
Proof. exact gen_agrees. Qed.
Print Assumptions C10_source_guards_agree_with_model.

Theorem C10_source_guard_rejects : forall nl n,
  In n (nets nl) -> Gen.SanityNet.rejects (shape_of nl n) = true -> sanity_block nl = false.
Proof. exact source_guard_rejects. Qed.
Print Assumptions C10_source_guard_rejects.

Theorem C10_accepted_no_raise : forall nl n,
  sanity_block nl = true -> In n (nets nl) -> Gen.SanityNet.check (shape_of nl n) = None.
Proof. exact accepted_no_raise. Qed.
Print Assumptions C10_accepted_no_raise.

(* Non-vacuity of the translator tie: the regenerated guards accept every net of the
   example design, and reject (with the ordinal of the `raise` that fires) a mux whose
   select is 3 bits wide and a select whose index equals the source width. *)
Example C10_example_generated_guards :
  check_case ex_nl = [0; 0; 0; 0; 0; 0; 0]
  /\ Gen.SanityNet.rejects (shape_of ex_nl (mkNet OpMux [1; 3; 4] 8)) = true
  /\ Gen.SanityNet.rejects (shape_of ex_nl (mkNet OpMux [7; 3; 4] 8)) = false
  /\ Gen.SanityNet.rejects (shape_of ex_nl (mkNet (OpSelect [3; 0]) [1] 6)) = true
  /\ Gen.SanityNet.rejects (shape_of ex_nl (mkNet (OpSelect [2; 0]) [1] 6)) = false.
Proof. vm_compute. repeat split; reflexivity. Qed.

(* ---- Block.sanity_check_memory_sync (Netlist/MemSync.v), the part of sanity_check that walks
   the index logic of synchronous memories.  It is outside the fault classes C10 lists, but a walk
   that does not come back keeps sanity_check from rejecting anything: defect N37 (fixed in 8eec7ee)
   was exactly that on "a combinational cycle not broken by a register" placed in such an index. ---- *)
From PyRTL Require Import Netlist.MemSync Netlist.MemSyncCorrect.

(* With the `checked` set the walk ends on EVERY netlist -- cyclic, undriven, ill-formed -- within
   the fuel the model hands out, so no result of sync_check is the out-of-fuel value. *)
Theorem C10_memsync_walk_terminates : forall nl sync r,
  In r (sync_check nl sync) -> r <> SFuel.
Proof. exact sync_check_never_out_of_fuel. Qed.
Print Assumptions C10_memsync_walk_terminates.

(* The loop as it stood before the fix, on a one-net cycle feeding a synchronous read port:
   no amount of fuel is enough (the real sanity_check hung); the fixed loop ends and leaves the
   cycle to the topological sort, which rejects it (C10 fault_combinational_cycle). *)
Theorem C10_memsync_old_walk_refuted : forall fuel, walk_old loop_nl fuel [1] = SFuel.
Proof. exact walk_old_diverges. Qed.
Print Assumptions C10_memsync_old_walk_refuted.

(* An accepting walk establishes what the docstring promises: every wire it visited is a register
   output or is produced by a wire/concat/select net from wires that are Inputs, Consts or visited. *)
Theorem C10_memsync_accept_sound : forall nl fuel todo S, walk nl fuel todo [] = SOk S ->
  (forall w, In w todo -> good nl S w) /\ (forall w, In w S -> closed nl S w).
Proof.
  intros nl fuel todo S H. destruct (walk_sound nl fuel todo [] S H) as [_ [Hg Hc]].
  split; [exact Hg|]. intros w Hw. destruct (Hc w Hw) as [[]|Hcl]. exact Hcl.
Qed.
Print Assumptions C10_memsync_accept_sound.

(* Once "wires used but never driven" has been ruled out (the check sanity_check makes first), the
   walk cannot die on a missing wire_src_dict entry: every failure is a proper PyrtlError. *)
Theorem C10_memsync_no_keyerror : forall nl,
  (forall n a, In n (nets nl) -> In a (nargs n) -> driven_or_io nl a) ->
  forall fuel todo c, (forall w, In w todo -> driven_or_io nl w) ->
  forall x, walk nl fuel todo c <> SKeyError x.
Proof. exact walk_no_keyerror. Qed.
Print Assumptions C10_memsync_no_keyerror.

Example C10_example_memsync :
  memsync_case loop_nl [7] = [[0; 0]]
  /\ memsync_case (mkNetlist [mkWire 1 2 KInput; mkWire 2 2 KWire; mkWire 3 4 KWire]
                             [mkNet OpNot [1] 2; mkNet (OpMemRd 7) [2] 3] [mkMem 7 2 4 None]) [7] = [[1; 2]]
  /\ memsync_case (mkNetlist [mkWire 1 2 KInput; mkWire 2 2 KWire; mkWire 3 4 KWire]
                             [mkNet OpNot [1] 2; mkNet (OpMemRd 7) [2] 3] [mkMem 7 2 4 None]) [] = []
  /\ memsync_case (mkNetlist [mkWire 2 2 KWire; mkWire 3 4 KWire]
                             [mkNet (OpMemRd 7) [2] 3] [mkMem 7 2 4 None]) [7] = [[2; 2]].
Proof. vm_compute. repeat split; reflexivity. Qed.

(* ---- the connectivity checks of Block.sanity_check, REGENERATED from the current source
   (Gen/SanityBlock.v: the sets tested by `if len(X) > 0: raise` between net_connections() and
   sanity_check_memory_sync, translated statement by statement into list algebra) ---- *)
From PyRTL Require Import Netlist.SanityBlockGen.

(* the source's "declared but not connected" and "used but never driven" sets are empty exactly when
   the corresponding conjuncts of the hand model -- over which fault_declared_unconnected and
   fault_read_never_driven are stated -- hold; its "unknown wires" set is empty exactly when every
   wire a net mentions is declared.  Weakening one of these checks in core.py breaks this proof. *)
Theorem C10_source_connectivity_agrees_with_model : forall nl,
  emptyb (nth 0 (src_guards nl) []) = forallb (declared nl) (dests_of (nets nl) ++ args_of (nets nl))
  /\ emptyb (nth 1 (src_guards nl) []) =
       forallb (fun x => kind_is_input_or_const nl (wname x)
                         || mem_in (wname x) (dests_of (nets nl))
                         || mem_in (wname x) (args_of (nets nl))) (wires nl)
  /\ emptyb (nth 2 (src_guards nl) []) =
       forallb (fun w => kind_is_input_or_const nl w || mem_in w (dests_of (nets nl))) (args_of (nets nl)).
Proof.
  intro nl. split; [exact (src_unknown_iff nl)|]. split; [exact (src_unconnected_iff nl)|exact (src_undriven_iff nl)].
Qed.
Print Assumptions C10_source_connectivity_agrees_with_model.

Theorem C10_source_connectivity_rejects : forall nl,
  src_guards_pass nl = false -> sanity_block nl = false.
Proof. exact src_guard_fires_rejected. Qed.
Print Assumptions C10_source_connectivity_rejects.

Theorem C10_accepted_passes_source_connectivity : forall nl,
  sanity_block nl = true -> src_guards_pass nl = true.
Proof. exact accepted_passes_src_guards. Qed.
Print Assumptions C10_accepted_passes_source_connectivity.

(* Non-vacuity: on the example design no regenerated set is non-empty; removing the net that drives
   wire 6 makes exactly the third set (used but never driven) non-empty; an extra declared wire
   makes exactly the second one non-empty. *)
Example C10_example_source_connectivity :
  block_guard_case ex_nl = [1; 1; 1]
  /\ block_guard_case (mkNetlist (wires ex_nl ++ [mkWire 99 2 KWire]) (nets ex_nl) (mems ex_nl)) = [1; 0; 1].
Proof. vm_compute. split; reflexivity. Qed.
