(* C05 (continued) -- the name sanitizer of output_to_verilog / output_verilog_testbench.
   Only statements + `exact`; model in IO/VerilogSanitizer.v, proofs in
   IO/VerilogSanitizerProofs.v, source parameters in Gen/C05Sanitizer.v. *)
From Coq Require Import String Ascii List NArith Bool.
From PyRTL Require Import IO.VerilogSanitizerSrc IO.VerilogSanitizerProofs.
Import ListNotations.

(* ---- the name sanitizer -----------------------------------------------------
   src_params = the parameters of _VerilogSanitizer REGENERATED from /repo on every
   run (Gen/C05Sanitizer.v: identifier regex classes and end anchor, reserved-word
   list, the checks made by _extra_checks, the prefix); names = the (distinct) wire
   names of a block as byte strings; sp_name = internal_names[name] after the names
   were fed in sorted order.  The side conditions of the general theorems
   (IO/VerilogSanitizerProofs.v) are discharged here by computation on src_params,
   so an edit of the source that removes a check breaks the proof. *)

(* no two wires get one Verilog identifier *)
Theorem C05_sanitizer_injective : forall names a b,
  NoDup names -> In a names -> In b names ->
  sp_name src_params names a = sp_name src_params names b -> a = b.
Proof. intros names a b Hnd. exact (sanitizer_injective src_params names eq_refl Hnd a b). Qed.
Print Assumptions C05_sanitizer_injective.

(* names that need no sanitising are unchanged; every other name becomes prefix ++ str(i) *)
Theorem C05_sanitizer_keeps_valid_names : forall names a,
  sp_valid src_params a = true -> sp_name src_params names a = a.
Proof. exact (kept_unchanged src_params). Qed.
Print Assumptions C05_sanitizer_keeps_valid_names.

Theorem C05_sanitizer_replaces_invalid_names : forall names a,
  In a names -> sp_valid src_params a = false ->
  exists i, sp_name src_params names a = (sp_prefix src_params ++ dec i)%list.
Proof. exact (replaced_generated src_params). Qed.
Print Assumptions C05_sanitizer_replaces_invalid_names.

Example C05_example_sanitizer :
  map (sp_name src_params (map nm ["a b"; "x"; "wire"; "mem_3"; "clk"; "tb_iter"; "_ver_out_tmp_7"; "ok$1"]%string))
      (map nm ["a b"; "x"; "wire"; "mem_3"; "clk"; "tb_iter"; "_ver_out_tmp_7"; "ok$1"]%string)
  = map nm ["_ver_out_tmp_1"; "x"; "_ver_out_tmp_5"; "_ver_out_tmp_3"; "_ver_out_tmp_2"; "_ver_out_tmp_4";
            "_ver_out_tmp_0"; "ok$1"]%string.
Proof. vm_compute. reflexivity. Qed.

(* Every identifier written is a legal Verilog-2001 simple identifier, not an IEEE
   1364-2001 keyword, not a name the emitted module/testbench declares itself (clk,
   tb_iter, block, mem_<digits>); kept names respect the length limit.  (Generated
   names are prefix ++ decimal index; their length is not bounded here.)
   Side condition, recomputed from the source: the identifier test must not accept a
   trailing newline (Python's `$` does), the classes must lie inside the standard's,
   the reserved list must contain all 123 keywords, the extra checks must be present. *)
Lemma C05_source_sanitizer_params_legal : params_legal src_params = true.
Proof. vm_compute. reflexivity. Qed.

Theorem C05_sanitizer_outputs_legal : forall names a, In a names ->
  legal_ident (sp_name src_params names a) = true
  /\ (sp_valid src_params a = true -> forall n, sp_max_len src_params = Some n ->
        (N.of_nat (length (sp_name src_params names a)) <= n)%N).
Proof. exact (fun names => sanitizer_outputs_legal src_params names C05_source_sanitizer_params_legal). Qed.
Print Assumptions C05_sanitizer_outputs_legal.
