(* C20 -- Exports are deterministic (schedule-independent) and read-only.
   The quantified variable is the SCHEDULE: every Python set / identity-hashed
   dict is a list in arbitrary order, determinism = invariance under Permutation.
   Only statements + `exact`; proofs in IO/NatSortProofs.v, IO/DeterminismProofs.v,
   IO/DeterminismSrc.v (+ Gen/C20SrcFacts.v, regenerated from /repo on every run). *)
From Coq Require Import String Ascii List NArith ZArith Bool Permutation Sorted.
From PyRTL Require Import IO.NatSort IO.NatSortProofs IO.NatSortTyped IO.Determinism IO.DeterminismProofs
  IO.DeterminismRefuted IO.DeterminismInj Gen.C20Src IO.DeterminismSrc IO.DeterminismTrace
  IO.DeterminismTraceProofs.
Import ListNotations.

(* ---- (1) Python's sorted(key=) on a set: the result does not depend on the
   iteration order of the set when the keys of its elements are distinct ---- *)
Theorem C20_sort_by_key_perm_invariant :
  forall (A K : Type) (key : A -> K) (ltb : K -> K -> bool), strict_total ltb ->
  forall l l' : list A,
  (forall x y, In x l -> In y l -> key x = key y -> x = y) ->
  Permutation l l' -> sort_by key ltb l = sort_by key ltb l'.
Proof. exact (@sort_by_key_perm_invariant). Qed.
Print Assumptions C20_sort_by_key_perm_invariant.

(* the model of `sorted` is a stable sort: a sorted permutation of its input in which
   elements with equivalent keys keep their input order (which is all Python promises
   and, with sorted_perm_unique, determines the result) *)
Theorem C20_sort_by_is_stable_sort :
  forall (A K : Type) (key : A -> K) (ltb : K -> K -> bool), strict_total ltb ->
  forall l : list A,
  Permutation (sort_by key ltb l) l
  /\ StronglySorted (le_key key ltb) (sort_by key ltb l)
  /\ forall k, filter (same_class key ltb k) (sort_by key ltb l) = filter (same_class key ltb k) l.
Proof.
  intros A K key ltb ST l. split; [|split].
  - exact (sort_by_perm key ltb l).
  - exact (sort_by_sorted key ltb ST l).
  - intro k. exact (sort_by_stable key ltb ST k l).
Qed.
Print Assumptions C20_sort_by_is_stable_sort.

(* whatever stable sort CPython uses for sorted() (Timsort), its result is the model's:
   a sorted permutation that keeps the input order inside each key class is unique *)
Theorem C20_any_stable_sort_is_sort_by :
  forall (A K : Type) (key : A -> K) (ltb : K -> K -> bool), strict_total ltb ->
  forall l l' : list A,
  Permutation l' l -> StronglySorted (le_key key ltb) l' ->
  (forall k, filter (same_class key ltb k) l' = filter (same_class key ltb k) l) ->
  l' = sort_by key ltb l.
Proof. exact (@any_stable_sort_is_sort_by). Qed.
Print Assumptions C20_any_stable_sort_is_sort_by.

(* the orders used are strict total orders (so `sorted` is well defined on them) *)
Theorem C20_key_orders_strict_total :
  strict_total key_ltb /\ strict_total key2_ltb /\ strict_total str_ltb.
Proof. exact (conj key_ltb_strict_total (conj key2_ltb_strict_total str_ltb_strict_total)). Qed.
Print Assumptions C20_key_orders_strict_total.

(* ---- (2) the natural sort key ---- *)
Theorem C20_natural_key_injective_on : forall s s' : name,
  no_leading_zero s = true -> no_leading_zero s' = true ->
  natural_key s = natural_key s' -> s = s'.
Proof. exact natural_key_injective_on. Qed.
Print Assumptions C20_natural_key_injective_on.

(* a natural key is text, number, text, ..., text: comparing two keys never compares a str
   with an int (no TypeError in Python; the model's convention for that case is irrelevant) *)
Theorem C20_natural_key_well_typed : forall (mixed : comparison) (s s' : name),
  alternates true (natural_key s) = true /\
  key_cmp (natural_key s) (natural_key s') =
  lex_cmp (tok_cmp_with mixed) (natural_key s) (natural_key s').
Proof.
  intros mixed s s'.
  exact (conj (natural_key_alternates s) (natural_key_cmp_never_mixed mixed s s')).
Qed.
Print Assumptions C20_natural_key_well_typed.

(* the list key (pinned source) is NOT injective: "x01" and "x1" collide (F16) *)
Theorem C20_natural_key_collision_refuted :
  exists s s' : name, s <> s' /\ natural_key s = natural_key s'.
Proof. exact natural_key_collision. Qed.
Print Assumptions C20_natural_key_collision_refuted.

(* the tuple key (list key, raw name) of the F16 repair is injective on ALL names *)
Theorem C20_natural_key_tb_injective : forall s s' : name,
  natural_key_tb s = natural_key_tb s' -> s = s'.
Proof. exact natural_key_tb_injective. Qed.
Print Assumptions C20_natural_key_tb_injective.

(* ---- (3) the name sanitizer as a function of presentation order ---- *)
Theorem C20_sanitizer_le1_perm_invariant : forall (valid : name -> bool) (prefix : name) pres pres',
  Permutation pres pres' ->
  (forall x y, In x pres -> In y pres -> valid x = false -> valid y = false -> x = y) ->
  forall s, varname (sanitize_all valid prefix pres) s = varname (sanitize_all valid prefix pres') s.
Proof. exact sanitize_le1_perm_invariant. Qed.
Print Assumptions C20_sanitizer_le1_perm_invariant.

Theorem C20_sanitizer_sorted_perm_invariant : forall (valid : name -> bool) (prefix : name) pres pres',
  Permutation pres pres' ->
  sanitize_all valid prefix (present_sorted pres) = sanitize_all valid prefix (present_sorted pres').
Proof. exact sanitize_sorted_perm_invariant. Qed.
Print Assumptions C20_sanitizer_sorted_perm_invariant.

(* ---- (4) emitters: text = concat (map render (sorted items)) ---- *)
Theorem C20_emit_perm_invariant :
  forall (A K : Type) (render : A -> name) (key : A -> K) (ltb : K -> K -> bool),
  strict_total ltb -> forall items items' : list A,
  (forall x y, In x items -> In y items -> key x = key y -> x = y) ->
  Permutation items items' ->
  emit render key ltb items = emit render key ltb items'.
Proof. exact emit_perm_invariant. Qed.
Print Assumptions C20_emit_perm_invariant.

(* module text of the pinned source when no name needs sanitising *)
Theorem C20_verilog_text_perm_invariant_clean :
  forall (valid : name -> bool) (prefix : name) wsecs nsecs ws ws' ns ns',
  Permutation ws ws' -> Permutation ns ns' ->
  (forall w, In w ws -> valid (wname w) = true /\ no_leading_zero (wname w) = true) ->
  (forall n, In n ns -> (nraw n = true \/ valid (nsort n) = true) /\ no_leading_zero (nsort n) = true) ->
  NoDup (map wname ws) -> NoDup (map nsort ns) ->
  export_text natural_key key_ltb present_set_order valid prefix wsecs nsecs ws ns =
  export_text natural_key key_ltb present_set_order valid prefix wsecs nsecs ws' ns'.
Proof. exact export_text_perm_invariant_clean. Qed.
Print Assumptions C20_verilog_text_perm_invariant_clean.

(* pinned source, at most one name needing sanitising *)
Theorem C20_verilog_text_perm_invariant_le1 :
  forall (K : Type) (nkey : name -> K) ltb, strict_total ltb ->
  forall (valid : name -> bool) (prefix : name) wsecs nsecs ws ws' ns ns',
  Permutation ws ws' -> Permutation ns ns' ->
  (forall x y, In x (map wname ws) -> In y (map wname ws) ->
     valid x = false -> valid y = false -> x = y) ->
  (forall x y, In x ws -> In y ws ->
     nkey (wname (rename_w (export_vn present_set_order valid prefix ws) x)) =
     nkey (wname (rename_w (export_vn present_set_order valid prefix ws) y)) -> x = y) ->
  (forall x y, In x ns -> In y ns ->
     nkey (nsort (rename_n (export_vn present_set_order valid prefix ws) x)) =
     nkey (nsort (rename_n (export_vn present_set_order valid prefix ws) y)) -> x = y) ->
  export_text nkey ltb present_set_order valid prefix wsecs nsecs ws ns =
  export_text nkey ltb present_set_order valid prefix wsecs nsecs ws' ns'.
Proof. exact export_text_perm_invariant_le1. Qed.
Print Assumptions C20_verilog_text_perm_invariant_le1.

(* F15 repaired: names presented in sorted order -- any number of invalid names *)
Theorem C20_verilog_text_perm_invariant_sorted :
  forall (K : Type) (nkey : name -> K) ltb, strict_total ltb ->
  forall (valid : name -> bool) (prefix : name) wsecs nsecs ws ws' ns ns',
  Permutation ws ws' -> Permutation ns ns' ->
  (forall x y, In x ws -> In y ws ->
     nkey (wname (rename_w (export_vn present_sorted valid prefix ws) x)) =
     nkey (wname (rename_w (export_vn present_sorted valid prefix ws) y)) -> x = y) ->
  (forall x y, In x ns -> In y ns ->
     nkey (nsort (rename_n (export_vn present_sorted valid prefix ws) x)) =
     nkey (nsort (rename_n (export_vn present_sorted valid prefix ws) y)) -> x = y) ->
  export_text nkey ltb present_sorted valid prefix wsecs nsecs ws ns =
  export_text nkey ltb present_sorted valid prefix wsecs nsecs ws' ns'.
Proof. exact export_text_perm_invariant_sorted. Qed.
Print Assumptions C20_verilog_text_perm_invariant_sorted.

(* print_trace / print_vcd *)
Theorem C20_trace_text_perm_invariant :
  forall (K : Type) (tkey : name -> K) ltb, strict_total ltb ->
  forall render_line fmt (items items' : list titem),
  Permutation items items' ->
  (forall x y, In x items -> In y items -> tkey (fst x) = tkey (fst y) -> x = y) ->
  trace_text tkey ltb render_line fmt items = trace_text tkey ltb render_line fmt items'.
Proof. exact (@trace_text_perm_invariant). Qed.
Print Assumptions C20_trace_text_perm_invariant.

Theorem C20_vcd_text_perm_invariant :
  forall (K : Type) (tkey : name -> K) ltb, strict_total ltb ->
  forall present (valid : name -> bool) (prefix : name) render_var tracked tracked' (items items' : list titem),
  Permutation items items' ->
  (forall s, varname (sanitize_all valid prefix (present tracked)) s =
             varname (sanitize_all valid prefix (present tracked')) s) ->
  (forall x y, In x items -> In y items -> tkey (fst x) = tkey (fst y) -> x = y) ->
  vcd_text tkey ltb present valid prefix render_var tracked items =
  vcd_text tkey ltb present valid prefix render_var tracked' items'.
Proof. exact (@vcd_text_perm_invariant). Qed.
Print Assumptions C20_vcd_text_perm_invariant.

(* ================================================================== *)
(* Theorems about the definitions regenerated from /repo (Gen/C20Src.v): the key
   functions, the presentation order and the identifier rule the code has NOW. *)

Theorem C20_src_natural_key_injective : forall s s' : name,
  src_natural_key s = src_natural_key s' -> s = s'.
Proof. exact src_natural_key_injective. Qed.
Print Assumptions C20_src_natural_key_injective.

Theorem C20_src_trace_key_injective : forall s s' : name,
  src_trace_key s = src_trace_key s' -> s = s'.
Proof. exact src_trace_key_injective. Qed.
Print Assumptions C20_src_trace_key_injective.

(* _name_sorted / _net_sorted over any set of objects carrying distinct names *)
Theorem C20_src_name_sorted_perm_invariant : forall (A : Type) (name_of : A -> name) (l l' : list A),
  NoDup (map name_of l) -> Permutation l l' ->
  sort_by (fun x => src_natural_key (name_of x)) src_natural_key_ltb l =
  sort_by (fun x => src_natural_key (name_of x)) src_natural_key_ltb l'.
Proof. exact src_name_sorted_perm_invariant. Qed.
Print Assumptions C20_src_name_sorted_perm_invariant.

(* the sanitised identifiers (Verilog / testbench / VCD) do not depend on the schedule,
   however many names need sanitising *)
Theorem C20_src_sanitizer_names_perm_invariant : forall pres pres',
  Permutation pres pres' ->
  sanitize_all src_valid_verilog src_prefix_verilog (src_present_verilog pres) =
  sanitize_all src_valid_verilog src_prefix_verilog (src_present_verilog pres')
  /\ sanitize_all src_valid_vcd src_prefix_vcd (src_present_vcd pres) =
     sanitize_all src_valid_vcd src_prefix_vcd (src_present_vcd pres').
Proof.
  intros pres pres' P.
  exact (conj (src_verilog_names_perm_invariant pres pres' P) (src_vcd_names_perm_invariant pres pres' P)).
Qed.
Print Assumptions C20_src_sanitizer_names_perm_invariant.

(* output_to_verilog: same text for every iteration order of wirevector_set and logic *)
Theorem C20_src_verilog_text_perm_invariant : forall wsecs nsecs ws ws' ns ns',
  Permutation ws ws' -> Permutation ns ns' ->
  NoDup (map (fun w => export_vn src_present_verilog src_valid_verilog src_prefix_verilog ws (wname w)) ws) ->
  NoDup (map (fun n => nsort (rename_n (export_vn src_present_verilog src_valid_verilog src_prefix_verilog ws) n)) ns) ->
  export_text src_natural_key src_natural_key_ltb src_present_verilog src_valid_verilog src_prefix_verilog
              wsecs nsecs ws ns =
  export_text src_natural_key src_natural_key_ltb src_present_verilog src_valid_verilog src_prefix_verilog
              wsecs nsecs ws' ns'.
Proof. exact src_verilog_text_perm_invariant. Qed.
Print Assumptions C20_src_verilog_text_perm_invariant.

(* ... with hypotheses on the design only (designs without memory-write ports): distinct
   wire names none of which already looks like a generated identifier, one net per wire *)
Theorem C20_src_verilog_text_perm_invariant_names : forall wsecs nsecs ws ws' ns ns',
  Permutation ws ws' -> Permutation ns ns' ->
  NoDup (map wname ws) ->
  (forall w, In w ws -> has_prefix src_prefix_verilog (wname w) = false) ->
  (forall n, In n ns -> nraw n = false /\ In (nsort n) (map wname ws)) ->
  NoDup (map nsort ns) ->
  export_text src_natural_key src_natural_key_ltb src_present_verilog src_valid_verilog src_prefix_verilog
              wsecs nsecs ws ns =
  export_text src_natural_key src_natural_key_ltb src_present_verilog src_valid_verilog src_prefix_verilog
              wsecs nsecs ws' ns'.
Proof. exact src_verilog_text_perm_invariant_names. Qed.
Print Assumptions C20_src_verilog_text_perm_invariant_names.

(* the sanitizer never maps two presented names to one identifier *)
Theorem C20_sanitizer_injective : forall (valid : name -> bool) (prefix : name) pres,
  NoDup pres -> (forall s, In s pres -> has_prefix prefix s = false) ->
  forall a b, In a pres -> In b pres ->
  varname (sanitize_all valid prefix pres) a = varname (sanitize_all valid prefix pres) b -> a = b.
Proof. exact sanitize_injective. Qed.
Print Assumptions C20_sanitizer_injective.

Theorem C20_src_testbench_text_perm_invariant : forall wsecs nsecs ws ws' ns ns',
  Permutation ws ws' -> Permutation ns ns' ->
  NoDup (map (fun w => export_vn src_present_testbench src_valid_testbench src_prefix_testbench ws (wname w)) ws) ->
  NoDup (map (fun n => nsort (rename_n (export_vn src_present_testbench src_valid_testbench src_prefix_testbench ws) n)) ns) ->
  export_text src_natural_key src_natural_key_ltb src_present_testbench src_valid_testbench src_prefix_testbench
              wsecs nsecs ws ns =
  export_text src_natural_key src_natural_key_ltb src_present_testbench src_valid_testbench src_prefix_testbench
              wsecs nsecs ws' ns'.
Proof. exact src_testbench_text_perm_invariant. Qed.
Print Assumptions C20_src_testbench_text_perm_invariant.

Theorem C20_src_trace_text_perm_invariant : forall render_line fmt (items items' : list titem),
  Permutation items items' -> NoDup (map fst items) ->
  trace_text src_trace_key src_trace_key_ltb render_line fmt items =
  trace_text src_trace_key src_trace_key_ltb render_line fmt items'.
Proof. exact src_trace_text_perm_invariant. Qed.
Print Assumptions C20_src_trace_text_perm_invariant.

Theorem C20_src_vcd_text_perm_invariant : forall render_var tracked tracked' (items items' : list titem),
  Permutation tracked tracked' -> Permutation items items' -> NoDup (map fst items) ->
  vcd_text src_trace_key src_trace_key_ltb src_present_vcd src_valid_vcd src_prefix_vcd render_var tracked items =
  vcd_text src_trace_key src_trace_key_ltb src_present_vcd src_valid_vcd src_prefix_vcd render_var tracked' items'.
Proof. exact src_vcd_text_perm_invariant. Qed.
Print Assumptions C20_src_vcd_text_perm_invariant.

(* memory / ROM blocks of the module are emitted sorted by their unique id: independent of the
   schedule even when distinct memories have EQUAL names (build_new_roms clones) ... *)
Theorem C20_src_memories_by_id_perm_invariant : forall (A : Type) (mid : A -> N) (l l' : list A),
  src_memories_sorted_by_id = true ->
  NoDup (map mid l) -> Permutation l l' ->
  sort_by mid N.ltb l = sort_by mid N.ltb l'.
Proof. exact src_memories_by_id_perm_invariant. Qed.
Print Assumptions C20_src_memories_by_id_perm_invariant.

(* ... whereas sorting them by (any key of) their name would follow set order *)
Theorem C20_same_name_sort_order_refuted : exists l l' : list (N * name),
  Permutation l l' /\ NoDup l /\ NoDup (map fst l) /\
  sort_by (fun m => natural_key_tb (snd m)) key2_ltb l <>
  sort_by (fun m => natural_key_tb (snd m)) key2_ltb l'.
Proof. exact same_name_sort_order_refuted. Qed.
Print Assumptions C20_same_name_sort_order_refuted.

(* distinct wire names always get distinct identifiers in the module, the testbench and the VCD,
   whatever the wires are called (names that look like generated identifiers included) *)
Theorem C20_src_identifiers_distinct : forall names, NoDup names ->
  NoDup (map (varname (sanitize_all src_valid_verilog src_prefix_verilog (src_present_verilog names))) names)
  /\ NoDup (map (varname (sanitize_all src_valid_testbench src_prefix_testbench (src_present_testbench names))) names)
  /\ NoDup (map (varname (sanitize_all src_valid_vcd src_prefix_vcd (src_present_vcd names))) names).
Proof. exact src_identifiers_distinct. Qed.
Print Assumptions C20_src_identifiers_distinct.

(* validity of a name is relative to the exporter's prefix: it cannot be shared between exporters *)
Theorem C20_src_validity_is_per_prefix : exists s s',
  src_valid_verilog s = true /\ src_valid_vcd s = false /\
  src_valid_verilog s' = false /\ src_valid_vcd s' = true.
Proof. exact src_validity_is_per_prefix. Qed.
Print Assumptions C20_src_validity_is_per_prefix.

(* the name a memory-write net is sorted by: injective in (enable, addr, data) if the source
   builds it from all three, else (enable only) two ports sharing an enable collide.  The
   statement is the branch selected by what _net_sorted says in /repo now. *)
Theorem C20_src_memwrite_sort_key_status :
  if src_memwrite_total
  then forall we a d we' a' d' : name,
         no_space we = true -> no_space a = true -> no_space we' = true -> no_space a' = true ->
         src_memwrite_sortname we a d = src_memwrite_sortname we' a' d' ->
         we = we' /\ a = a' /\ d = d'
  else exists we a d a' d' : name,
         (a, d) <> (a', d') /\ src_memwrite_sortname we a d = src_memwrite_sortname we a' d'.
Proof. exact src_memwrite_sort_key_status. Qed.
Print Assumptions C20_src_memwrite_sort_key_status.

(* ... and nets that are sorted by one and the same name are emitted in set order *)
Theorem C20_equal_sort_name_order_refuted : exists ns ns',
  Permutation ns ns' /\ NoDup ns /\
  export_text src_natural_key src_natural_key_ltb src_present_verilog src_valid_verilog src_prefix_verilog
              [] [demo_nsec] [] ns <>
  export_text src_natural_key src_natural_key_ltb src_present_verilog src_valid_verilog src_prefix_verilog
              [] [demo_nsec] [] ns'.
Proof. exact src_shared_write_enable_refuted. Qed.
Print Assumptions C20_equal_sort_name_order_refuted.

(* ---- the BYTES of print_trace / print_vcd (IO/DeterminismTrace.v: source-driven ordering and
   identifiers composed with the text layout of IO/Vcd.v; compared byte for byte with the real
   text on every sampled design x schedule) do not depend on the order of the trace dict ---- *)
Theorem C20_print_trace_bytes_perm_invariant : forall (base : Z) (compact : bool) items items',
  Permutation items items' -> NoDup (map t_name items) ->
  full_print_trace base compact items = full_print_trace base compact items'.
Proof. exact full_print_trace_perm_invariant. Qed.
Print Assumptions C20_print_trace_bytes_perm_invariant.

Theorem C20_print_vcd_bytes_perm_invariant : forall (clock : bool) items items',
  Permutation items items' -> NoDup (map t_name items) ->
  full_print_vcd clock items = full_print_vcd clock items'.
Proof. exact full_print_vcd_perm_invariant. Qed.
Print Assumptions C20_print_vcd_bytes_perm_invariant.

Theorem C20_print_vcd_ids_distinct : forall items, NoDup (map t_name items) ->
  NoDup (map (fun e => varname (vcd_ids items) (t_name e)) items).
Proof. exact full_print_vcd_ids_distinct. Qed.
Print Assumptions C20_print_vcd_ids_distinct.

(* non-vacuity: a trace with a leading-zero family, a case pair, two names needing VCD
   identifiers and one that looks like a generated identifier; two dict orders, same bytes *)
Definition ex_e (s : string) (w : N) (vals : list Z) : tentry :=
  {| t_name := nm s; t_width := Z.of_N w; t_vals := vals |}.
Definition ex_trace : list tentry :=
  [ex_e "x01" 1 [0; 1]%Z; ex_e "w 0" 3 [5; 7]%Z; ex_e "x1" 1 [1; 1]%Z; ex_e "Data" 4 [9; 10]%Z;
   ex_e "data" 4 [3; 0]%Z; ex_e "_vcd_tmp_0" 2 [2; 3]%Z; ex_e "a.b" 1 [0; 0]%Z].
Definition ex_trace' : list tentry :=
  [ex_e "a.b" 1 [0; 0]%Z; ex_e "_vcd_tmp_0" 2 [2; 3]%Z; ex_e "data" 4 [3; 0]%Z; ex_e "x1" 1 [1; 1]%Z;
   ex_e "Data" 4 [9; 10]%Z; ex_e "w 0" 3 [5; 7]%Z; ex_e "x01" 1 [0; 1]%Z].
Example C20_example_trace_bytes :
  full_print_trace 10%Z true ex_trace = full_print_trace 10%Z true ex_trace'
  /\ full_print_vcd true ex_trace = full_print_vcd true ex_trace'
  /\ TraceBase.string_of_text (full_print_trace 16%Z true ex_trace) =
     "      Data 9a
_vcd_tmp_0 23
       a.b 00
      data 30
       w 0 57
       x01 01
        x1 11
"%string
  /\ nodupb (map t_name ex_trace) = true.
Proof. vm_compute. repeat split; reflexivity. Qed.

(* ---- why the repairs were needed (models of the code before F15 / F16) ---- *)
Theorem C20_sanitizer_set_order_refuted : exists (valid : name -> bool) prefix pres pres' s,
  Permutation pres pres' /\ count_invalid valid pres = 2%N /\
  varname (sanitize_all valid prefix (present_set_order pres)) s <>
  varname (sanitize_all valid prefix (present_set_order pres')) s.
Proof. exact sanitizer_set_order_refuted. Qed.
Print Assumptions C20_sanitizer_set_order_refuted.

Theorem C20_natural_key_tie_order_refuted : exists l l' : list name,
  Permutation l l' /\ NoDup l /\
  sort_by natural_key key_ltb l <> sort_by natural_key key_ltb l'.
Proof. exact natural_key_tie_order_refuted. Qed.
Print Assumptions C20_natural_key_tie_order_refuted.

(* ---- non-vacuity: a module with two names needing sanitising ("w 0", "module"), a
   leading-zero family (x1, x01, x001) and three nets; the NoDup hypotheses of
   C20_src_verilog_text_perm_invariant hold and two schedules give the same text ---- *)
Definition ex_w (s : string) (k : N) : witem := {| wname := nm s; wkind := k; wwidth := 1 |}.
Definition ex_n (s : string) : nitem := {| nsort := nm s; nraw := false; nop := 0; nnames := [nm s] |}.
Definition ex_ws : list witem :=
  [ex_w "x01" 0; ex_w "w 0" 4; ex_w "x1" 0; ex_w "module" 1; ex_w "x001" 0; ex_w "tmp10" 4; ex_w "tmp9" 4].
Definition ex_ws' : list witem :=
  [ex_w "tmp9" 4; ex_w "module" 1; ex_w "x001" 0; ex_w "x1" 0; ex_w "tmp10" 4; ex_w "w 0" 4; ex_w "x01" 0].
Definition ex_ns : list nitem := [ex_n "w 0"; ex_n "module"; ex_n "tmp10"].
Definition ex_ns' : list nitem := [ex_n "tmp10"; ex_n "w 0"; ex_n "module"].
Definition ex_wsec (k : N) : section witem :=
  {| s_head := nm "#"; s_sel := fun w => N.eqb (wkind w) k; s_render := fun w => (wname w ++ nm ";")%list |}.
Definition ex_nsec : section nitem :=
  {| s_head := nm "#"; s_sel := fun _ => true; s_render := fun n => (nsort n ++ nm ";")%list |}.
Definition ex_text ws ns : string :=
  string_of_list_ascii
    (export_text src_natural_key src_natural_key_ltb src_present_verilog src_valid_verilog src_prefix_verilog
                 [ex_wsec 0; ex_wsec 1; ex_wsec 4] [ex_nsec] ws ns).

Example C20_example_text :
  ex_text ex_ws ex_ns = "#x001;x01;x1;#_ver_out_tmp_0;#_ver_out_tmp_1;tmp9;tmp10;#_ver_out_tmp_0;_ver_out_tmp_1;tmp10;"%string
  /\ ex_text ex_ws' ex_ns' = ex_text ex_ws ex_ns.
Proof. vm_compute. split; reflexivity. Qed.

Example C20_example_hypotheses :
  NoDup (map wname ex_ws)
  /\ (forall w, In w ex_ws -> has_prefix src_prefix_verilog (wname w) = false)
  /\ (forall n, In n ex_ns -> nraw n = false /\ In (nsort n) (map wname ex_ws))
  /\ NoDup (map nsort ex_ns)
  /\ count_invalid src_valid_verilog (map wname ex_ws) = 2%N
  /\ forallb no_leading_zero (map wname ex_ws) = false.
Proof.
  split. apply nodupb_NoDup. vm_compute. reflexivity.
  split. intros w H. repeat (destruct H as [H|H]; [subst w; vm_compute; reflexivity|]). contradiction.
  split. intros n H. repeat (destruct H as [H|H]; [subst n; split; [reflexivity|vm_compute; tauto]|]). contradiction.
  split. apply nodupb_NoDup. vm_compute. reflexivity.
  split; vm_compute; reflexivity.
Qed.
