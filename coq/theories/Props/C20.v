(* C20 -- Exports are deterministic (schedule-independent) and read-only.
   The quantified variable is the SCHEDULE: every Python set / identity-hashed
   dict is a list in arbitrary order, determinism = invariance under Permutation.
   Only statements + `exact`; proofs in IO/NatSortProofs.v, IO/DeterminismProofs.v,
   IO/DeterminismSrc.v (+ Gen/C20SrcFacts.v, regenerated from /repo on every run). *)
From Coq Require Import String Ascii List NArith ZArith Bool Permutation Sorted.
From PyRTL Require Import IO.NatSort IO.NatSortProofs IO.Determinism IO.DeterminismProofs.
Import ListNotations.

(* ---- (1) Python's sorted(key=) on a set: the result does not depend on the
   iteration order of the set when the keys of its elements are distinct ---- *)
Theorem C20_sort_by_key_perm_invariant :
  forall (A K : Type) (key : A -> K) (ltb : K -> K -> bool), strict_total ltb ->
  forall l l' : list A,
  (forall x y, In x l -> In y l -> key x = key y -> x = y) ->
  Permutation l l' -> sort_by key ltb l = sort_by key ltb l'.
Proof. exact (@sort_by_key_perm_invariant). Qed.
Print Assumptions C20_sort_by_key_perm_invariant.

(* the model of `sorted` is a stable sort: a sorted permutation of its input in which
   elements with equivalent keys keep their input order (which is all Python promises
   and, with sorted_perm_unique, determines the result) *)
Theorem C20_sort_by_is_stable_sort :
  forall (A K : Type) (key : A -> K) (ltb : K -> K -> bool), strict_total ltb ->
  forall l : list A,
  Permutation (sort_by key ltb l) l
  /\ StronglySorted (le_key key ltb) (sort_by key ltb l)
  /\ forall k, filter (same_class key ltb k) (sort_by key ltb l) = filter (same_class key ltb k) l.
Proof.
  intros A K key ltb ST l. split; [|split].
  - exact (sort_by_perm key ltb l).
  - exact (sort_by_sorted key ltb ST l).
  - intro k. exact (sort_by_stable key ltb ST k l).
Qed.
Print Assumptions C20_sort_by_is_stable_sort.

(* the orders used are strict total orders (so `sorted` is well defined on them) *)
Theorem C20_key_orders_strict_total :
  strict_total key_ltb /\ strict_total key2_ltb /\ strict_total str_ltb.
Proof. exact (conj key_ltb_strict_total (conj key2_ltb_strict_total str_ltb_strict_total)). Qed.
Print Assumptions C20_key_orders_strict_total.

(* ---- (2) the natural sort key ---- *)
Theorem C20_natural_key_injective_on : forall s s' : name,
  no_leading_zero s = true -> no_leading_zero s' = true ->
  natural_key s = natural_key s' -> s = s'.
Proof. exact natural_key_injective_on. Qed.
Print Assumptions C20_natural_key_injective_on.

(* the list key (pinned source) is NOT injective: "x01" and "x1" collide (F16) *)
Theorem C20_natural_key_collision_refuted :
  exists s s' : name, s <> s' /\ natural_key s = natural_key s'.
Proof. exact natural_key_collision. Qed.
Print Assumptions C20_natural_key_collision_refuted.

(* the tuple key (list key, raw name) of the F16 repair is injective on ALL names *)
Theorem C20_natural_key_tb_injective : forall s s' : name,
  natural_key_tb s = natural_key_tb s' -> s = s'.
Proof. exact natural_key_tb_injective. Qed.
Print Assumptions C20_natural_key_tb_injective.

(* ---- (3) the name sanitizer as a function of presentation order ---- *)
Theorem C20_sanitizer_le1_perm_invariant : forall (valid : name -> bool) (prefix : name) pres pres',
  Permutation pres pres' ->
  (forall x y, In x pres -> In y pres -> valid x = false -> valid y = false -> x = y) ->
  forall s, varname (sanitize_all valid prefix pres) s = varname (sanitize_all valid prefix pres') s.
Proof. exact sanitize_le1_perm_invariant. Qed.
Print Assumptions C20_sanitizer_le1_perm_invariant.

Theorem C20_sanitizer_sorted_perm_invariant : forall (valid : name -> bool) (prefix : name) pres pres',
  Permutation pres pres' ->
  sanitize_all valid prefix (present_sorted pres) = sanitize_all valid prefix (present_sorted pres').
Proof. exact sanitize_sorted_perm_invariant. Qed.
Print Assumptions C20_sanitizer_sorted_perm_invariant.

(* ---- (4) emitters: text = concat (map render (sorted items)) ---- *)
Theorem C20_emit_perm_invariant :
  forall (A K : Type) (render : A -> name) (key : A -> K) (ltb : K -> K -> bool),
  strict_total ltb -> forall items items' : list A,
  (forall x y, In x items -> In y items -> key x = key y -> x = y) ->
  Permutation items items' ->
  emit render key ltb items = emit render key ltb items'.
Proof. exact emit_perm_invariant. Qed.
Print Assumptions C20_emit_perm_invariant.

(* module text of the pinned source when no name needs sanitising *)
Theorem C20_verilog_text_perm_invariant_clean :
  forall (valid : name -> bool) (prefix : name) wsecs nsecs ws ws' ns ns',
  Permutation ws ws' -> Permutation ns ns' ->
  (forall w, In w ws -> valid (wname w) = true /\ no_leading_zero (wname w) = true) ->
  (forall n, In n ns -> (nraw n = true \/ valid (nsort n) = true) /\ no_leading_zero (nsort n) = true) ->
  NoDup (map wname ws) -> NoDup (map nsort ns) ->
  export_text natural_key key_ltb present_set_order valid prefix wsecs nsecs ws ns =
  export_text natural_key key_ltb present_set_order valid prefix wsecs nsecs ws' ns'.
Proof. exact export_text_perm_invariant_clean. Qed.
Print Assumptions C20_verilog_text_perm_invariant_clean.

(* pinned source, at most one name needing sanitising *)
Theorem C20_verilog_text_perm_invariant_le1 :
  forall (K : Type) (nkey : name -> K) ltb, strict_total ltb ->
  forall (valid : name -> bool) (prefix : name) wsecs nsecs ws ws' ns ns',
  Permutation ws ws' -> Permutation ns ns' ->
  (forall x y, In x (map wname ws) -> In y (map wname ws) ->
     valid x = false -> valid y = false -> x = y) ->
  (forall x y, In x ws -> In y ws ->
     nkey (wname (rename_w (export_vn present_set_order valid prefix ws) x)) =
     nkey (wname (rename_w (export_vn present_set_order valid prefix ws) y)) -> x = y) ->
  (forall x y, In x ns -> In y ns ->
     nkey (nsort (rename_n (export_vn present_set_order valid prefix ws) x)) =
     nkey (nsort (rename_n (export_vn present_set_order valid prefix ws) y)) -> x = y) ->
  export_text nkey ltb present_set_order valid prefix wsecs nsecs ws ns =
  export_text nkey ltb present_set_order valid prefix wsecs nsecs ws' ns'.
Proof. exact export_text_perm_invariant_le1. Qed.
Print Assumptions C20_verilog_text_perm_invariant_le1.

(* F15 repaired: names presented in sorted order -- any number of invalid names *)
Theorem C20_verilog_text_perm_invariant_sorted :
  forall (K : Type) (nkey : name -> K) ltb, strict_total ltb ->
  forall (valid : name -> bool) (prefix : name) wsecs nsecs ws ws' ns ns',
  Permutation ws ws' -> Permutation ns ns' ->
  (forall x y, In x ws -> In y ws ->
     nkey (wname (rename_w (export_vn present_sorted valid prefix ws) x)) =
     nkey (wname (rename_w (export_vn present_sorted valid prefix ws) y)) -> x = y) ->
  (forall x y, In x ns -> In y ns ->
     nkey (nsort (rename_n (export_vn present_sorted valid prefix ws) x)) =
     nkey (nsort (rename_n (export_vn present_sorted valid prefix ws) y)) -> x = y) ->
  export_text nkey ltb present_sorted valid prefix wsecs nsecs ws ns =
  export_text nkey ltb present_sorted valid prefix wsecs nsecs ws' ns'.
Proof. exact export_text_perm_invariant_sorted. Qed.
Print Assumptions C20_verilog_text_perm_invariant_sorted.

(* print_trace / print_vcd *)
Theorem C20_trace_text_perm_invariant :
  forall (K : Type) (tkey : name -> K) ltb, strict_total ltb ->
  forall render_line fmt (items items' : list titem),
  Permutation items items' ->
  (forall x y, In x items -> In y items -> tkey (fst x) = tkey (fst y) -> x = y) ->
  trace_text tkey ltb render_line fmt items = trace_text tkey ltb render_line fmt items'.
Proof. exact (@trace_text_perm_invariant). Qed.
Print Assumptions C20_trace_text_perm_invariant.

Theorem C20_vcd_text_perm_invariant :
  forall (K : Type) (tkey : name -> K) ltb, strict_total ltb ->
  forall present (valid : name -> bool) (prefix : name) render_var tracked tracked' (items items' : list titem),
  Permutation items items' ->
  (forall s, varname (sanitize_all valid prefix (present tracked)) s =
             varname (sanitize_all valid prefix (present tracked')) s) ->
  (forall x y, In x items -> In y items -> tkey (fst x) = tkey (fst y) -> x = y) ->
  vcd_text tkey ltb present valid prefix render_var tracked items =
  vcd_text tkey ltb present valid prefix render_var tracked' items'.
Proof. exact (@vcd_text_perm_invariant). Qed.
Print Assumptions C20_vcd_text_perm_invariant.
