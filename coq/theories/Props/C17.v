(* C17 -- Timing, path and fan-out analyses equal their graph-theoretic
   definitions.  Only statements + `exact`; models in Analysis/{Timing,Paths,
   Fanout}.v, specification in Analysis/PathSpec.v, proofs in Analysis/*Proofs.v. *)
From Coq Require Import QArith PrimFloat SpecFloat FloatOps Uint63.
From PyRTL Require Import Analysis.PathSpec Analysis.TimingProofs Analysis.PathsProofs
  Analysis.FanoutProofs Analysis.FormulaProofs Analysis.CritProofs Analysis.PathSpecOrd
  Analysis.TimingOrdProofs Gen.TimingFormula.
Open Scope Z_scope.

(* ---- timing ------------------------------------------------------------- *)

(* For every well-formed netlist (wfb: nets listed in ANY topological order,
   single combinational driver) and every delay function that is negative
   exactly on registers and memory writes: each wire's timing_map entry is the
   maximum, over all register-free paths from an Input/Const/Register to it, of
   the summed gate delays. *)
Theorem C17_timing_is_longest_path : forall nl (dl : net -> Z),
  wfb nl = true ->
  (forall n, In n (nets nl) -> (dl n <? 0) = negb (is_comb (nop n)) /\ nargs n <> []) ->
  forall w, In w (map wname (wires nl)) ->
  exists t, assoc (timing_map nl dl) w = Some t /\ is_longest nl dl w t.
Proof. exact timing_is_longest_path. Qed.
Print Assumptions C17_timing_is_longest_path.

Theorem C17_timing_map_domain : forall nl (dl : net -> Z),
  wfb nl = true ->
  (forall n, In n (nets nl) -> (dl n <? 0) = negb (is_comb (nop n)) /\ nargs n <> []) ->
  forall w t, assoc (timing_map nl dl) w = Some t -> is_longest nl dl w t.
Proof. exact timing_map_domain. Qed.
Print Assumptions C17_timing_map_domain.

(* the result does not depend on which topological order Block.__iter__ produced *)
Theorem C17_timing_order_independent : forall nl1 nl2 (dl : net -> Z),
  wires nl1 = wires nl2 ->
  (forall n, In n (nets nl1) <-> In n (nets nl2)) ->
  wfb nl1 = true -> wfb nl2 = true ->
  (forall n, In n (nets nl1) -> (dl n <? 0) = negb (is_comb (nop n)) /\ nargs n <> []) ->
  forall w, In w (map wname (wires nl1)) ->
  assoc (timing_map nl1 dl) w = assoc (timing_map nl2 dl) w.
Proof. exact timing_order_independent. Qed.
Print Assumptions C17_timing_order_independent.

(* max_length is the largest longest-path value: attained by some wire, and an
   upper bound for every wire *)
Theorem C17_max_length : forall nl (dl : net -> Z),
  wfb nl = true ->
  (forall n, In n (nets nl) -> (dl n <? 0) = negb (is_comb (nop n)) /\ nargs n <> []) ->
  wires nl <> [] ->
  (exists w, is_longest nl dl w (max_length nl dl))
  /\ (forall w t, In w (map wname (wires nl)) -> is_longest nl dl w t -> t <= max_length nl dl).
Proof. exact max_length_is_max. Qed.
Print Assumptions C17_max_length.

(* every path returned by critical_path -- for every cp_limit, reached or not --
   starts at a source, is register-free, ends at a wire whose time is max_length,
   and its gate delays sum to exactly max_length.  (Extra hypothesis, part of
   Block.sanity_check but not of wfb: register nets drive Register wires.) *)
Theorem C17_critical_paths_sum : forall nl (dl : net -> Z) (cp_limit : Z),
  wfb nl = true ->
  (forall n, In n (nets nl) -> (dl n <? 0) = negb (is_comb (nop n)) /\ nargs n <> []) ->
  (forall n, In n (nets nl) -> is_comb (nop n) = false -> has_dest n = true ->
             is_base nl (ndest n) = true) ->
  forall w0 p, In (w0, p) (critical_path nl dl cp_limit) ->
  is_base nl w0 = true /\
  exists wend, cpath nl dl w0 p wend /\ wsum dl p = max_length nl dl
               /\ assoc (timing_map nl dl) wend = Some (max_length nl dl).
Proof. exact critical_paths_sum. Qed.
Print Assumptions C17_critical_paths_sum.

(* What cp_limit does -- every netlist, no hypothesis.  `critical_paths_all` is the
   same back-tracking without the limit (Timing.v `cp_enum`).  critical_path(cp_limit)
   is a PREFIX of that enumeration; it is the whole enumeration whenever fewer than
   cp_limit paths came back; and when something was cut off, at least cp_limit paths
   were returned.  (Not "exactly cp_limit": the code tests the limit only at
   non-source wires, so source arguments reached after the limit are still appended.) *)
Theorem C17_critical_path_is_prefix : forall nl (dl : net -> Z) (cp_limit : Z),
  exists rest, critical_paths_all nl dl = critical_path nl dl cp_limit ++ rest
    /\ (Z.of_nat (length (critical_path nl dl cp_limit)) < cp_limit -> rest = [])
    /\ (rest <> [] -> cp_limit <= Z.of_nat (length (critical_path nl dl cp_limit))).
Proof. exact critical_path_is_prefix. Qed.
Print Assumptions C17_critical_path_is_prefix.

(* the unlimited enumeration contains every maximal register-free source path
   (induction on the path from its end: the back-tracking follows exactly the
   arguments attaining the max; fuel suffices because wfb netlists are acyclic) *)
Theorem C17_critical_paths_all_complete : forall nl (dl : net -> Z),
  wfb nl = true ->
  (forall n, In n (nets nl) -> (dl n <? 0) = negb (is_comb (nop n)) /\ nargs n <> []) ->
  (forall n, In n (nets nl) -> is_comb (nop n) = false -> has_dest n = true ->
             is_base nl (ndest n) = true) ->
  forall w0 p wend, is_base nl w0 = true -> cpath nl dl w0 p wend ->
    wsum dl p = max_length nl dl -> In (w0, p) (critical_paths_all nl dl).
Proof. exact critical_paths_all_complete. Qed.
Print Assumptions C17_critical_paths_all_complete.

(* hence: when cp_limit is not reached every maximal path is returned ... *)
Theorem C17_critical_paths_complete : forall nl (dl : net -> Z) (cp_limit : Z),
  wfb nl = true ->
  (forall n, In n (nets nl) -> (dl n <? 0) = negb (is_comb (nop n)) /\ nargs n <> []) ->
  (forall n, In n (nets nl) -> is_comb (nop n) = false -> has_dest n = true ->
             is_base nl (ndest n) = true) ->
  Z.of_nat (length (critical_path nl dl cp_limit)) < cp_limit ->
  forall w0 p wend, is_base nl w0 = true -> cpath nl dl w0 p wend ->
    wsum dl p = max_length nl dl -> In (w0, p) (critical_path nl dl cp_limit).
Proof. exact critical_paths_complete. Qed.
Print Assumptions C17_critical_paths_complete.

(* ... and the returned set is EXACTLY the set of maximal source paths *)
Theorem C17_critical_paths_exact : forall nl (dl : net -> Z) (cp_limit : Z),
  wfb nl = true ->
  (forall n, In n (nets nl) -> (dl n <? 0) = negb (is_comb (nop n)) /\ nargs n <> []) ->
  (forall n, In n (nets nl) -> is_comb (nop n) = false -> has_dest n = true ->
             is_base nl (ndest n) = true) ->
  Z.of_nat (length (critical_path nl dl cp_limit)) < cp_limit ->
  forall w0 p, In (w0, p) (critical_path nl dl cp_limit) <->
    (is_base nl w0 = true /\ exists wend, cpath nl dl w0 p wend /\ wsum dl p = max_length nl dl).
Proof. exact critical_paths_exact. Qed.
Print Assumptions C17_critical_paths_exact.

(* ---- timing with delays in ANY ordered domain (covers the float default table) ---- *)

(* The three timing theorems above are about integer delays.  TimingAnalysis itself is
   generic in the delay type: with the default table the delays are Python floats.
   Analysis/TimingOrd.v is the same model over an arbitrary domain D (zero, +, <=, ==,
   "< 0"), and the theorems hold for every D whose <= is a total preorder and whose
   addition is monotone in its left argument (`ordered_delays`) -- which is what
   IEEE-754 round-to-nearest addition on finite numbers satisfies.  So for float
   delays, with NO rounding abstracted: each timing_map entry is attained by a source
   path whose delays are summed left to right, and is >= the left-to-right sum of every
   source path. *)
Theorem C17_timing_is_longest_path_ordered :
  forall (D : Type) (dzero : D) (dadd : D -> D -> D) (dleb : D -> D -> bool) (dneg : D -> bool)
         nl (dl : net -> D),
  ordered_delays D dadd dleb -> wfb nl = true ->
  (forall n, In n (nets nl) -> dneg (dl n) = negb (is_comb (nop n)) /\ nargs n <> []) ->
  forall w, In w (map wname (wires nl)) ->
  exists t, gassoc D (gtiming_map D dzero dadd dleb dneg nl dl) w = Some t
            /\ g_is_longest D dzero dadd dleb dneg nl dl w t.
Proof. exact timing_longest_ordered. Qed.
Print Assumptions C17_timing_is_longest_path_ordered.

Theorem C17_max_length_ordered :
  forall (D : Type) (dzero : D) (dadd : D -> D -> D) (dleb : D -> D -> bool) (dneg : D -> bool)
         nl (dl : net -> D),
  ordered_delays D dadd dleb -> wfb nl = true ->
  (forall n, In n (nets nl) -> dneg (dl n) = negb (is_comb (nop n)) /\ nargs n <> []) ->
  wires nl <> [] ->
  (exists w, g_is_longest D dzero dadd dleb dneg nl dl w (gmax_length D dzero dadd dleb dneg nl dl))
  /\ (forall w t, gassoc D (gtiming_map D dzero dadd dleb dneg nl dl) w = Some t ->
                  dleb t (gmax_length D dzero dadd dleb dneg nl dl) = true).
Proof. exact max_length_ordered. Qed.
Print Assumptions C17_max_length_ordered.

(* every returned critical path, its delays summed left to right in D, is == max_length
   (<= and >= in the order; `eq_agrees`: the code's == implies both) *)
Theorem C17_critical_paths_sum_ordered :
  forall (D : Type) (dzero : D) (dadd : D -> D -> D) (dleb deqb : D -> D -> bool) (dneg : D -> bool)
         nl (dl : net -> D) (cp_limit : Z),
  ordered_delays D dadd dleb -> eq_agrees D dleb deqb -> wfb nl = true ->
  (forall n, In n (nets nl) -> dneg (dl n) = negb (is_comb (nop n)) /\ nargs n <> []) ->
  (forall n, In n (nets nl) -> is_comb (nop n) = false -> has_dest n = true ->
             is_base nl (ndest n) = true) ->
  forall w0 p, In (w0, p) (gcritical_path D dzero dadd dleb deqb dneg nl dl cp_limit) ->
  is_base nl w0 = true /\
  exists wend, gcpath D dneg nl dl w0 p wend
    /\ dleb (gsum D dzero dadd dl p) (gmax_length D dzero dadd dleb dneg nl dl) = true
    /\ dleb (gmax_length D dzero dadd dleb dneg nl dl) (gsum D dzero dadd dl p) = true.
Proof. exact critical_paths_sum_ordered. Qed.
Print Assumptions C17_critical_paths_sum_ordered.

(* independence of the topological order for every ordered domain (so also for float
   delays): two orders of the same nets give, for every wire, times that are == *)
Theorem C17_timing_order_independent_ordered :
  forall (D : Type) (dzero : D) (dadd : D -> D -> D) (dleb : D -> D -> bool) (dneg : D -> bool)
         nl1 nl2 (dl : net -> D),
  ordered_delays D dadd dleb ->
  wires nl1 = wires nl2 -> (forall n, In n (nets nl1) <-> In n (nets nl2)) ->
  wfb nl1 = true -> wfb nl2 = true ->
  (forall n, In n (nets nl1) -> dneg (dl n) = negb (is_comb (nop n)) /\ nargs n <> []) ->
  forall w, In w (map wname (wires nl1)) ->
  exists t1 t2, gassoc D (gtiming_map D dzero dadd dleb dneg nl1 dl) w = Some t1
             /\ gassoc D (gtiming_map D dzero dadd dleb dneg nl2 dl) w = Some t2
             /\ dleb t1 t2 = true /\ dleb t2 t1 = true.
Proof. exact timing_order_independent_ordered. Qed.
Print Assumptions C17_timing_order_independent_ordered.

(* the integer model used by all the other theorems IS the generic model at D = Z *)
Theorem C17_integer_model_is_instance : forall nl (dl : net -> Z) (cp_limit : Z),
  timing_map nl dl = gtiming_map Z 0 Z.add Z.leb zneg nl dl
  /\ max_length nl dl = gmax_length Z 0 Z.add Z.leb zneg nl dl
  /\ critical_path nl dl cp_limit = gcritical_path Z 0 Z.add Z.leb Z.eqb zneg nl dl cp_limit.
Proof.
  exact (fun nl dl l => conj (timing_map_Z_instance nl dl)
                             (conj (max_length_Z_instance nl dl) (critical_path_Z_instance nl dl l))).
Qed.
Print Assumptions C17_integer_model_is_instance.

(* the hypotheses are satisfiable: by Z, and by a monotone but not strictly monotone
   domain (saturating addition -- the shape of float absorption, 1e16 + 1 = 1e16) *)
Theorem C17_ordered_delays_instances :
  (ordered_delays Z Z.add Z.leb /\ eq_agrees Z Z.leb Z.eqb) /\ ordered_delays Z sat_add Z.leb.
Proof. exact (conj Z_ordered sat_ordered). Qed.
Print Assumptions C17_ordered_delays_instances.

(* ---- max_freq and the default table (regenerated from the source) -------- *)

Theorem C17_max_freq_formula : forall L tech ff : Q,
  (max_freq_formula L tech None == (1000000 # 1) / ((130 # 1) / tech * (L + (383 # 1))))%Q
  /\ (max_freq_formula L tech (Some ff) == (1000000 # 1) / ((130 # 1) / tech * L + ff))%Q.
Proof. exact (fun L tech ff => conj (max_freq_default L tech) (max_freq_overhead L tech ff)). Qed.
Print Assumptions C17_max_freq_formula.

Theorem C17_default_table_ends_paths : forall o : op,
  default_ends_path o = negb (is_comb o).
Proof. exact default_table_ends_paths. Qed.
Print Assumptions C17_default_table_ends_paths.

(* ---- fanout ------------------------------------------------------------- *)

(* fanout w = cardinality of the set of (net number, argument position) pairs
   whose argument is w  (so `a & a` counts twice) *)
Theorem C17_fanout : forall nl w, fanout_is nl w (fanout nl w).
Proof. exact fanout_counts_positions. Qed.
Print Assumptions C17_fanout.

(* ---- paths -------------------------------------------------------------- *)

(* every returned path is a non-empty net path src -> dst (memory write nets
   followed by a read port of the same memory) that repeats no net -- all netlists *)
Theorem C17_paths_sound : forall nl src dst p,
  In p (paths nl src dst) -> p <> [] /\ chain nl src p dst /\ NoDup p.
Proof. exact paths_sound. Qed.
Print Assumptions C17_paths_sound.

(* SOUNDNESS, full statement: with one driver per wire (Block.sanity_check /
   net_connections; evaluated on every dumped design by `single_driverb`), every
   returned path is a SIMPLE path: no net twice, no wire twice, and for src <> dst it
   never comes back to src -- the filter removes all of those.  Memories included.
   (wfb alone does not imply the single-driver hypothesis: it does not constrain
   the destinations of register nets.) *)
Theorem C17_paths_sound_simple : forall nl src dst p,
  (forall n1 n2, In n1 (nets nl) -> In n2 (nets nl) -> has_dest n1 = true -> has_dest n2 = true ->
                 ndest n1 = ndest n2 -> n1 = n2) ->
  In p (paths nl src dst) -> simple_path nl src p dst.
Proof. exact paths_sound_simple. Qed.
Print Assumptions C17_paths_sound_simple.

(* COMPLETENESS, full statement (all graphs, cyclic or not, memories included):
   every simple path -- non-empty net path src -> dst repeating no net and no wire --
   is returned.  This was false before the fix of defect F18 (the old filter
   dropped any path having another returned path as a suffix; the model followed
   the code: `loops_into` / `suffix_filter` in Analysis/Paths.v). *)
Theorem C17_paths_complete : forall nl src dst p,
  simple_path nl src p dst -> In p (paths nl src dst).
Proof. exact paths_complete. Qed.
Print Assumptions C17_paths_complete.

(* the former F18 witness  b = ~a; c = a & b; o <<= c : both simple paths are returned *)
Theorem C17_paths_reconvergence_witness :
  simple_path f18_nl 1 f18_path 4 /\ In f18_path (paths f18_nl 1 4)
  /\ length (paths f18_nl 1 4) = 2%nat.
Proof. exact (conj f18_simple f18_now_complete). Qed.
Print Assumptions C17_paths_reconvergence_witness.

(* EXACTNESS: paths(src, dst) returns exactly the set of simple net paths *)
Theorem C17_paths_exact : forall nl src dst p,
  (forall n1 n2, In n1 (nets nl) -> In n2 (nets nl) -> has_dest n1 = true -> has_dest n2 = true ->
                 ndest n1 = ndest n2 -> n1 = n2) ->
  (In p (paths nl src dst) <-> simple_path nl src p dst).
Proof. exact paths_exact. Qed.
Print Assumptions C17_paths_exact.

(* paths() called with collections (or the None defaults): entry [s][d] of the result
   is exactly the single-pair answer, whatever else is in the collections (in particular
   when the source is also one of the destinations) *)
Theorem C17_paths_multi_pairwise : forall nl srcs dsts,
  (forall s row d ps, In (s, row) (paths_multi nl srcs dsts) -> In (d, ps) row ->
     In s srcs /\ In d dsts /\ ps = paths nl s d)
  /\ (forall s d, In s srcs -> In d dsts ->
       exists row, In (s, row) (paths_multi nl srcs dsts) /\ In (d, paths nl s d) row).
Proof. exact paths_multi_pairwise. Qed.
Print Assumptions C17_paths_multi_pairwise.

(* the former read-port witness (i -> addr; rd = m[addr]; m[wa] <<= rd ^ 1; o <<= ~rd):
   before the fix paths(i, o) also returned a path containing the read net twice;
   now exactly the one simple path is returned *)
Theorem C17_paths_memloop_witness :
  paths memloop_nl 1 8 = [ [ mkNet OpW [1] 3; mkNet (OpMemRd 0) [3] 4; mkNet OpNot [4] 7; mkNet OpW [7] 8 ] ]
  /\ ~ In memloop_path (paths memloop_nl 1 8) /\ ~ NoDup memloop_path /\ wfb memloop_nl = true.
Proof. exact memloop_now_sound. Qed.
Print Assumptions C17_paths_memloop_witness.

(* (kept from before the F18 fix) completeness under the guard that excluded F18:
   no net of the path other than its first one reads src *)
Theorem C17_paths_complete_guarded : forall nl src dst p,
  src <> dst -> p <> [] -> chain nl src p dst -> NoDup p ->
  (forall n, In n (tl p) -> ~ In src (nargs n)) ->
  In p (paths nl src dst).
Proof. exact paths_complete_guarded. Qed.
Print Assumptions C17_paths_complete_guarded.

(* loops (src = dst): no filter, complete without a guard *)
Theorem C17_paths_complete_loop : forall nl src p,
  p <> [] -> chain nl src p src -> NoDup p -> In p (paths nl src src).
Proof. exact paths_complete_loop. Qed.
Print Assumptions C17_paths_complete_loop.

(* ---- non-vacuity --------------------------------------------------------- *)

(* reconvergent design with a register and a memory write->read:
   t3 = a + r ; t4 = ~t3 ; t5 = t3 & t4 ; rd = m[t5] ; o = rd ; m[a] <= t5 ; r <= t4 *)
Definition ex_nl : netlist :=
  {| wires := [ mkWire 1 2 KInput; mkWire 2 2 (KReg None); mkWire 3 2 KWire; mkWire 4 2 KWire;
                mkWire 5 2 KWire; mkWire 6 2 KWire; mkWire 7 2 KOutput; mkWire 8 1 (KConst 1) ];
     nets := [ mkNet OpAdd [1; 2] 3; mkNet OpNot [3] 4; mkNet OpAnd [3; 4] 5;
               mkNet (OpMemRd 0) [5] 6; mkNet OpW [6] 7;
               mkNet (OpMemWr 0) [1; 5; 8] 0; mkNet OpReg [4] 2 ];
     mems := [ mkMem 0 2 2 None ] |}.
Definition ex_tab : list (Z * (Z * Z)) :=
  [(0,(0,0)); (1,(2,0)); (2,(3,0)); (6,(1,2)); (15,(-1,0)); (16,(7,0)); (17,(-1,0))].

Example C17_example_hypotheses :
  wfb ex_nl = true
  /\ forallb (fun n => Bool.eqb (tab_delay ex_tab ex_nl n <? 0) (negb (is_comb (nop n)))
                       && nonempty (nargs n)) (nets ex_nl) = true.
Proof. vm_compute. split; reflexivity. Qed.

Example C17_example_reg_dests : forall n, In n (nets ex_nl) -> is_comb (nop n) = false ->
  has_dest n = true -> is_base ex_nl (ndest n) = true.
Proof.
  intros n H. cbn in H.
  repeat (destruct H as [<-|H]; [cbn; intros; try discriminate; try reflexivity|]). destruct H.
Qed.

Example C17_example_single_driver : forall n1 n2, In n1 (nets ex_nl) -> In n2 (nets ex_nl) ->
  has_dest n1 = true -> has_dest n2 = true -> ndest n1 = ndest n2 -> n1 = n2.
Proof.
  intros n1 n2 H1 H2. cbn in H1, H2.
  repeat (destruct H1 as [<-|H1]); try destruct H1;
  repeat (destruct H2 as [<-|H2]); try destruct H2; cbn; intros; try reflexivity; try discriminate.
Qed.

Example C17_example_critical :
  critical_path ex_nl (tab_delay ex_tab ex_nl) 100
  = [ (1, [mkNet OpAdd [1; 2] 3; mkNet OpNot [3] 4; mkNet OpAnd [3; 4] 5; mkNet (OpMemRd 0) [5] 6]);
      (2, [mkNet OpAdd [1; 2] 3; mkNet OpNot [3] 4; mkNet OpAnd [3; 4] 5; mkNet (OpMemRd 0) [5] 6]);
      (1, [mkNet OpAdd [1; 2] 3; mkNet OpNot [3] 4; mkNet OpAnd [3; 4] 5; mkNet (OpMemRd 0) [5] 6;
           mkNet OpW [6] 7]);
      (2, [mkNet OpAdd [1; 2] 3; mkNet OpNot [3] 4; mkNet OpAnd [3; 4] 5; mkNet (OpMemRd 0) [5] 6;
           mkNet OpW [6] 7]) ].
Proof. vm_compute. reflexivity. Qed.

(* cp_limit = 1 on the example: the limit is tested only at non-source wires, so
   both source arguments of the adder are appended -- 2 paths, a prefix of the 4 *)
Example C17_example_limit :
  length (critical_path ex_nl (tab_delay ex_tab ex_nl) 1) = 2%nat
  /\ critical_path ex_nl (tab_delay ex_tab ex_nl) 1
     = firstn 2 (critical_paths_all ex_nl (tab_delay ex_tab ex_nl))
  /\ critical_paths_all ex_nl (tab_delay ex_tab ex_nl)
     = critical_path ex_nl (tab_delay ex_tab ex_nl) 100.
Proof. vm_compute. repeat split; reflexivity. Qed.

(* the model at D = binary64 on the example with delays 0.1 (+), 0.2 (~), 0.3 (&), 0 elsewhere:
   t5 = (0.1 + 0.2) + 0.3 = 0.6000000000000001, rounding included *)
Example C17_example_float :
  float_pair (f_max_length ex_nl (fun n => match nop n with
                                           | OpAdd => 0x1.999999999999ap-4 | OpNot => 0x1.999999999999ap-3
                                           | OpAnd => 0x1.3333333333333p-2
                                           | OpReg | OpMemWr _ => (-1) | _ => 0 end)%float)
  = (5404319552844596, -53).
Proof. vm_compute. reflexivity. Qed.

Example C17_example_values :
  map (assoc (timing_map ex_nl (tab_delay ex_tab ex_nl))) [1; 2; 3; 4; 5; 6; 7]
    = [Some 0; Some 0; Some 5; Some 7; Some 10; Some 17; Some 17]
  /\ max_length ex_nl (tab_delay ex_tab ex_nl) = 17
  /\ map (fanout ex_nl) [1; 3; 4; 5] = [2; 2; 2; 2]
  /\ length (paths ex_nl 1 7) = 5%nat     (* +&mw, +~&mw, @mw, +&@mw, +~&@mw *)
  /\ length (paths ex_nl 2 2) = 1%nat.
Proof. vm_compute. repeat split; reflexivity. Qed.
