(* C12 -- Imported BLIF and ISCAS netlists compute the function the file defines.
   Only statements + `exact`; proofs live in IO/BlifProofs.v, IO/BlifIscasProofs.v.
   Specification side: IO/BlifSem.v (cover_sem, decode_cell/dff_next, init codes,
   blif_run, flatten), IO/Iscas.v (gate_sem).  Implementation side: IO/BlifImport.v
   and IO/Iscas.v over Gen/BlifTables.v, which is regenerated from
   /repo/pyrtl/importexport.py on every run. *)
From Coq Require Import ZArith List Bool String.
From PyRTL Require Import IO.BlifSyntax IO.BlifSem Gen.BlifTables Gen.BlifNames IO.BlifImport IO.BlifLow IO.Iscas
                          IO.BlifProofs IO.BlifHierProofs IO.BlifLowProofs IO.BlifIscasProofs.
Import ListNotations.
Open Scope Z_scope.

(* extract_cover: for EVERY well-formed .names (any number of inputs, any row
   list, don't-cares, constant covers) the importer drives the last signal
   with an expression that evaluates, under every valuation, to the on-set
   cover semantics.  Special-cased literals (from the regenerated table) and
   the generic rtl_any(rtl_all(..)) branch (tree_reduce) alike. *)
Theorem C12_cover_correct : forall sigs rows, cover_wf sigs rows = true ->
  exists e, extract_cover sigs rows = Some (last sigs (L 0), e)
            /\ forall rho, beval rho e = cover_sem rows (map rho (removelast sigs)).
Proof. exact cover_correct. Qed.
Print Assumptions C12_cover_correct.

(* flop_next (regenerated from the source) agrees with the cell semantics
   obtained by DECODING THE CELL NAME, for every listed cell and all values
   of D, E, S, R and the previous state; it mentions only pins the cell has.
   Finite domain, decided completely: 32 cells x 2^5 valuations. *)
Theorem C12_flop_table_correct : forall cell, In cell dff_names ->
  exists body cd,
    str_assoc flop_table cell = Some body /\ decode_cell (canon_cell cell) = Some cd
    /\ has_absent body = false
    /\ (forall x, In x (bvars body) -> pin_allowed cd x = true)
    /\ forall d e s r q, beval (flop_env d e s r q) body = dff_next cd d e s r q.
Proof. exact flop_table_correct. Qed.
Print Assumptions C12_flop_table_correct.

(* the same, as the importer uses it: the register built for a $_DFF.. /
   $_SDFF.. instance has the decoded cell's next-state function of the
   signals bound to its pins (absent pins read as 0 and are never used) *)
Theorem C12_extract_flop_correct : forall cell d q e s r o dr,
  extract_flop cell d q e s r = Some (o, dr) ->
  o = q /\ exists nx cd, dr = DReg nx flop_reset /\ decode_cell (canon_cell cell) = Some cd /\
    forall rho, beval rho nx
      = dff_next cd (rho d) (opt_ev rho e) (opt_ev rho s) (opt_ev rho r) (rho q).
Proof. exact extract_flop_sem. Qed.
Print Assumptions C12_extract_flop_correct.

(* dff_names and the keys of flop_next coincide (the NOTE in the source) *)
Theorem C12_dff_names_table_consistent :
  forallb (fun c => existsb (String.eqb c) (map fst flop_table)) dff_names = true
  /\ forallb (fun c => existsb (String.eqb c) dff_names) (map fst flop_table) = true.
Proof. exact dff_names_table_consistent. Qed.
Print Assumptions C12_dff_names_table_consistent.

(* .latch: each of the four init codes is accepted and the register's reset
   value satisfies it (0 -> 0, 1 -> 1, 2/3 -> anything) *)
Theorem C12_latch_init : forall code, 0 <= code <= 3 ->
  exists r, latch_init_map code = Some r /\ existsb (Z.eqb code) latch_init_codes = true
            /\ init_code_ok code (reset_bool r).
Proof. exact latch_init_correct. Qed.
Print Assumptions C12_latch_init.

(* Flat models (covers, latches, flip-flop cells; outputs may be read
   internally): whenever the importer accepts a model whose covers are
   well-formed, the imported circuit produces, for EVERY input sequence, every
   initial state and every evaluation depth, exactly the per-cycle outputs of
   the BLIF semantics, and its initial register values are allowed by the
   file's init codes. *)
Theorem C12_flat_model_refines_blif : forall m c, model_wf m = true -> import_flat m = Some c ->
  (forall fuel st inss, c_run fuel c st inss = blif_run fuel m st inss)
  /\ blif_init_ok m (slookup (c_init c)).
Proof. exact flat_import_correct. Qed.
Print Assumptions C12_flat_model_refines_blif.

(* Hierarchy: instantiating .subckt model references the way the importer does
   (fresh wires per instance, formal <<= actual for inputs, actual <<= formal
   for outputs) yields exactly the import of the FLATTENED model -- the BLIF
   definition of .subckt (a renamed copy of the referenced model with formals
   tied to actuals) -- for every model library, nesting depth and instance
   count; both sides fail together. *)
Theorem C12_subckt_import_is_flatten : forall fuel lib top,
  import_blif fuel lib top
  = match flatten_model fuel lib top with Some fm => import_flat fm | None => None end.
Proof. exact hier_import_defined. Qed.
Print Assumptions C12_subckt_import_is_flatten.

(* hence hierarchical models compute blif_run of their flattening, for every
   input sequence *)
Theorem C12_hier_model_refines_blif : forall fuel lib top c fm,
  import_blif fuel lib top = Some c -> flatten_model fuel lib top = Some fm ->
  model_wf fm = true ->
  (forall fuel' st inss, c_run fuel' c st inss = blif_run fuel' fm st inss)
  /\ blif_init_ok fm (slookup (c_init c)).
Proof. exact hier_import_correct. Qed.
Print Assumptions C12_hier_model_refines_blif.

(* The name-resolution layer (twire, the per-Subcircuit dictionaries REGENERATED from class Subcircuit,
   registers filed under Q + "_reg", the intermediate wire of every top-level output, fresh tables per
   .subckt instance), modelled over numbered wires in IO/BlifLow.v: the imported block -- its wires, nets,
   registers and reset values, the order of its ports -- is literally the same whatever the nets of the top
   model are called: for EVERY injective renaming of them, every library of sub-models, every nesting depth,
   and whatever keys the registers are filed under on either side (rn, rn' arbitrary).  A net may therefore be
   called <Q>_reg, tmp7, clk ... without changing the function (N45 / the BLIF side of N44 as a theorem; the
   proof breaks if a Subcircuit method writes a non-net key into the table twire reads). *)
Theorem C12_import_invariant_under_renaming : forall rho,
  (forall a b, sig_eqb (rho a) (rho b) = sig_eqb a b) ->
  forall fuel rn rn' lib tid top,
  low_import fuel rn' lib tid (gren_model rho top) = low_import fuel rn lib tid top.
Proof. exact low_import_rename_invariant. Qed.
Print Assumptions C12_import_invariant_under_renaming.

(* vector ports under merge_io_vectors=True: Output a = concat_list([a[0], a[1], ..])
   carries bit i of a on position i and stays in range; Input a feeds a[i] with bit i *)
Theorem C12_vector_ports : forall bits,
  (forall i, vec_bit (vec_merge bits) i = nth i bits false)
  /\ 0 <= vec_merge bits < 2 ^ Z.of_nat (List.length bits).
Proof. exact (fun bits => conj (vec_merge_bit bits) (vec_merge_range bits)). Qed.
Print Assumptions C12_vector_ports.

(* ISCAS .bench: every combinational gate read at the arity the importer
   handles completely (2 sources; 1 for NOT/BUFF) computes the .bench gate
   function for all sources and valuations. *)
Theorem C12_iscas_exact_arity_correct : forall g srcs, In g comb_gates ->
  List.length srcs = iscas_exact_arity g ->
  exists e, iscas_gate g (map BVar srcs) = Some (DComb e) /\ has_absent e = false
            /\ forall rho, gate_sem g (map rho srcs) = Some (beval rho e).
Proof. exact iscas_gate_exact_correct. Qed.
Print Assumptions C12_iscas_exact_arity_correct.

(* whole .bench netlists (gates + DFFs) whose gates all have that arity: the
   imported block computes bench_run for every input sequence *)
Theorem C12_bench_exact_arity_refines : forall b c, bench_wf b = true -> import_bench b = Some c ->
  forall fuel st inss, c_run fuel c st inss = bench_run fuel b st inss.
Proof. exact bench_import_correct. Qed.
Print Assumptions C12_bench_exact_arity_refines.

(* The full ISCAS statement (n-ary AND/OR/NAND/NOR/XOR) ... *)
Definition C12_iscas_full_statement : Prop :=
  forall g srcs, In g comb_gates -> gate_sem g (map (fun _ => false) srcs) <> None ->
  exists e, iscas_gate g (map BVar srcs) = Some (DComb e)
            /\ forall rho, gate_sem g (map rho srcs) = Some (beval rho e).

(* ... is FALSE of the code as it stands (defect F8): y = AND(a, b, c) with
   a = b = 1, c = 0 imports as a gate evaluating to 1. *)
Theorem C12_iscas_nary_refuted :
  exists g srcs rho e,
    In g comb_gates /\ gate_sem g (map rho srcs) <> None
    /\ iscas_gate g (map BVar srcs) = Some (DComb e)
    /\ gate_sem g (map rho srcs) <> Some (beval rho e).
Proof. exact iscas_nary_refuted. Qed.
Print Assumptions C12_iscas_nary_refuted.

Theorem C12_iscas_full_statement_refuted : ~ C12_iscas_full_statement.
Proof. exact iscas_full_statement_false. Qed.
Print Assumptions C12_iscas_full_statement_refuted.

(* ---------- non-vacuity ---------- *)
Open Scope string_scope.

(* a 3-input cover with don't-cares, a constant, a latch (init 1), an enabled
   flop with synchronous reset (enable over reset), an output read internally *)
Definition ex_model : model :=
  mkModel [L 0; L 1; L 2] [L 3; L 6; L 8]
    [ Names [L 0; L 1; L 2; L 3] [[P1; PD; P0]; [PD; P1; P1]; [P0; P0; PD]];
      Names [L 4] [[]];
      Names [L 3; L 4; L 5] [[P1; P1]];
      Latch (L 5) (L 6) 1;
      Names [L 6; L 0; L 7] [[P0; PD]; [PD; P0]];
      Flop "$_SDFFCE_PN0P_" (L 7) (L 8) (Some (L 1)) None (Some (L 2)) ].

Example C12_example_wf : model_wf ex_model = true /\ import_flat ex_model <> None.
Proof. vm_compute. split; [reflexivity|discriminate]. Qed.

Example C12_example_trace :
  match import_flat ex_model with
  | Some c =>
      let inss := map (fun v x => match x with L i => Z.testbit v i | _ => false end) [5; 3; 6; 0; 7] in
      c_run 8 c (c_init c) inss = blif_run 8 ex_model (blif_init0 ex_model) inss
      /\ blif_run 8 ex_model (blif_init0 ex_model) inss
         = [[false; true; false]; [true; false; false]; [true; true; false];
            [true; true; true]; [true; true; true]]
  | None => False
  end.
Proof. vm_compute. split; reflexivity. Qed.

Example C12_example_cover_wf :
  cover_wf [L 0; L 1; L 2; L 3] [[P1; PD; P0]; [PD; P1; P1]; [P0; P0; PD]] = true
  /\ cover_wf [L 4] [[]] = true /\ cover_wf [L 4] [] = true.
Proof. vm_compute. repeat split; reflexivity. Qed.

Example C12_example_cell_in_table :
  In "$_SDFFCE_PN0P_" dff_names /\ In "$_DFFSR_PPP" dff_names
  /\ decode_cell (canon_cell "$_DFFSR_PPP")
     = Some (mkCell None (Some (true, false)) (Some true) false).
Proof. vm_compute. repeat split; auto 40. Qed.

(* a two-level hierarchy: leaf (and gate + latch) inside mid (two leaves) inside top *)
Definition ex_leaf : model :=
  mkModel [L 0; L 1] [L 2; L 4]
    [ Names [L 0; L 1; L 2] [[P1; P1]]; Latch (L 2) (L 4) 2 ].
Definition ex_mid : model :=
  mkModel [L 0; L 1] [L 5]
    [ Subckt 10 [(L 0, L 0); (L 1, L 1); (L 2, L 2); (L 4, L 3)];
      Subckt 10 [(L 0, L 3); (L 1, L 2); (L 2, L 5)] ].
Definition ex_top : model :=
  mkModel [L 0; L 1] [L 2; L 3]
    [ Subckt 20 [(L 0, L 0); (L 1, L 1); (L 5, L 2)]; Names [L 2; L 0; L 3] [[P0; PD]; [PD; P1]] ].
Definition ex_lib : list (Z * model) := [(10, ex_leaf); (20, ex_mid)].

Example C12_example_hier :
  match import_blif 5 ex_lib ex_top, flatten_model 5 ex_lib ex_top with
  | Some c, Some fm =>
      model_wf fm = true /\ List.length (mcmds fm) = 15%nat
      /\ let inss := map (fun v x => match x with L i => Z.testbit v i | _ => false end) [3; 3; 1; 3] in
         c_run 20 c (c_init c) inss = [[false; true]; [true; true]; [false; true]; [false; true]]
  | _, _ => False
  end.
Proof. vm_compute. repeat split; reflexivity. Qed.

Example C12_example_bench :
  let b := mkBench [L 0; L 1] [L 3]
             [(L 2, "NAND", [L 0; L 1]); (L 4, "DFF", [L 2]); (L 3, "XOR", [L 4; L 0])] in
  bench_wf b = true /\ import_bench b <> None.
Proof. vm_compute. split; [reflexivity|discriminate]. Qed.

(* several .latch lines fed by ONE next-state net keep their own init codes:
   three latches on net L 2 with init 0, 1, 3 -- the model is accepted, each
   register gets its own reset value and the first cycle shows 0, 1, (0) *)
Definition ex_fan : model :=
  mkModel [L 0; L 1] [L 3; L 4; L 5]
    [ Latch (L 2) (L 3) 0; Names [L 0; L 1; L 2] [[P1; P0]; [P0; P1]];
      Latch (L 2) (L 4) 1; Latch (L 2) (L 5) 3 ].

Example C12_example_shared_next_state_net :
  model_wf ex_fan = true /\
  match import_flat ex_fan with
  | Some c =>
      c_init c = [(L 3, false); (L 4, true); (L 5, false)]
      /\ let inss := map (fun v x => match x with L i => Z.testbit v i | _ => false end) [1; 3; 2] in
         c_run 6 c (c_init c) inss
         = [[false; true; false]; [true; true; true]; [false; false; false]]
  | None => False
  end.
Proof. vm_compute. repeat split; reflexivity. Qed.

(* a cover with inputs and NO rows is the constant 0 on its LAST signal *)
Example C12_example_empty_cover :
  cover_wf [L 0; L 1; L 2] [] = true
  /\ extract_cover [L 0; L 1; L 2] [] = Some (L 2, BConst false)
  /\ cover_sem [] [true; true] = false.
Proof. vm_compute. repeat split; reflexivity. Qed.

(* the name-resolution model on the two-level hierarchy above: it builds a block over 30-odd numbered wires
   that computes the same trace as the name-level model; renaming every net of the top model (an injective
   renaming: x |-> I 7 x) gives the identical block; and a net literally called <Q>_reg (regname maps the latch
   output L 3 of ex_fan to its net L 2) does not disturb it *)
Example C12_example_name_resolution :
  (forall a b, sig_eqb (I 7 a) (I 7 b) = sig_eqb a b)
  /\ match low_import 5 (regname_of []) ex_lib 1 ex_top with
     | Some c =>
         let inss := map (fun v x => match x with L i => Z.testbit v i | _ => false end) [3; 3; 1; 3] in
         c_run 60 c (c_init c) inss = [[false; true]; [true; true]; [false; true]; [false; true]]
         /\ low_import 5 (regname_of [(1, [(L 2, L 0)])]) ex_lib 1 (gren_model (I 7) ex_top) = Some c
     | None => False
     end
  /\ match low_import 3 (regname_of [(0, [(L 3, L 2)])]) [] 0 ex_fan, import_flat ex_fan with
     | Some c, Some c' =>
         let inss := map (fun v x => match x with L i => Z.testbit v i | _ => false end) [1; 3; 2] in
         c_run 30 c (c_init c) inss = c_run 6 c' (c_init c') inss
     | _, _ => False
     end.
Proof. split; [reflexivity|]. vm_compute. repeat split; reflexivity. Qed.
