(* C12 -- placeholder while the proofs are being written *)
From Coq Require Import ZArith List Bool String.
From PyRTL Require Import IO.BlifSyntax IO.BlifSem Gen.BlifTables IO.BlifImport IO.Iscas.
Import ListNotations.
Example C12_placeholder : decode_cell "$_DFF_P_" = Some (mkCell None None None false).
Proof. vm_compute. reflexivity. Qed.
