(* C07 -- translator tie.  Gen/CondRules.v is regenerated from pyrtl/conditional.py on every run by
   py/genfrag_C07.py (pure rules translated, the statement skeleton shape-checked fail-closed).
   These theorems say that the hand-written elaborator model Front/Cond.v -- about which Props/C07.v
   proves the property -- is built from exactly the rules the source states now.
   Only statements + `exact`; proofs in Front/CondRules.v. *)
From Coq Require Import ZArith List Bool.
From PyRTL Require Import Front.Cond Front.CondSpec Front.CondProofs Front.CondWidth Gen.CondRules Front.CondRules.
Import ListNotations.
Open Scope Z_scope.

Theorem C07_rule_conflict : forall a b, in_conflict a b = gen_in_conflict a b.
Proof. exact rule_conflict. Qed.
Print Assumptions C07_rule_conflict.

Theorem C07_rule_width_guard : forall pw c,
  pred_too_wide pw c
  = gen_pred_too_wide (match c with COth => true | CP _ => false end)
                      (match c with CP p => pw p | COth => 0 end).
Proof. exact rule_width. Qed.
Print Assumptions C07_rule_width_guard.

Theorem C07_rule_select_and_pred_set : forall c pre p,
  level_lits (c :: pre)
  = map (fun q => (q, gen_between_flag)) (rev (since_oth pre))
    ++ match c with CP p => [(p, gen_current_flag)] | COth => [] end
  /\ lit_expr (p, gen_between_flag) = gen_between_expr p
  /\ lit_expr (p, gen_current_flag) = gen_current_expr p.
Proof. exact (fun c pre p => conj (rule_level c pre) (rule_polarity p)). Qed.
Print Assumptions C07_rule_select_and_pred_set.

Theorem C07_rule_polarity_consistent : forall rho p,
  beval rho (gen_between_expr p) = lit_holds rho (p, gen_between_flag) /\
  beval rho (gen_current_expr p) = lit_holds rho (p, gen_current_flag).
Proof. exact rule_polarity_consistent. Qed.
Print Assumptions C07_rule_polarity_consistent.

Theorem C07_rule_default : forall d t,
  option_map (dsel_expr d t)
    (gen_default (is_register t) true (match dflt_get d t with Some _ => true | None => false end))
  = Some (default_expr d t).
Proof. exact rule_default. Qed.
Print Assumptions C07_rule_default.

Theorem C07_rule_wire_fold : forall dflt recs,
  fin_val dflt recs = fold_left (fun acc pr => gen_fin_step (fst pr) (pl_val (snd pr)) acc) recs dflt.
Proof. exact rule_fin_val. Qed.
Print Assumptions C07_rule_wire_fold.

Theorem C07_rule_memory_fold : forall p0 pl0 rest,
  fin_mem ((p0, pl0) :: rest)
  = let '(en, ad, da) :=
      fold_left (fun acc pr => gen_mem_step (fst pr) (pl_addr (snd pr)) (pl_val (snd pr)) (pl_en (snd pr)) acc)
                rest (gen_mem_init p0 (pl_addr pl0) (pl_val pl0) (pl_en pl0)) in
    FMem en ad da.
Proof. exact rule_fin_mem. Qed.
Print Assumptions C07_rule_memory_fold.

(* The WHOLE of _current_select is regenerated: its two inner helpers are translated from the source
   (and_with_possible_none; between_otherwise_and_current with its last-otherwise index and slices) and
   the function is assembled over the stack in python order.  On every stack it returns exactly the
   (select, pred_set) that the model's _build uses (current_lits / sel_of_lits over the model's reversed
   representation, python_stack = rev (map rev stk)). *)
Theorem C07_rule_and_with_possible_none : forall a b, gen_and_with_possible_none a (Some b) = and_opt a b.
Proof. exact rule_and_opt. Qed.
Print Assumptions C07_rule_and_with_possible_none.

Theorem C07_rule_between_otherwise_and_current : forall c pre,
  gen_between_otherwise_and_current (rev (c :: pre)) = map CP (rev (since_oth pre)).
Proof. exact rule_between. Qed.
Print Assumptions C07_rule_between_otherwise_and_current.

Theorem C07_rule_current_select : forall stk,
  gen_current_select (rev (map (@rev cond) stk)) = (sel_of_lits (current_lits stk), current_lits stk).
Proof. exact rule_current_select. Qed.
Print Assumptions C07_rule_current_select.

(* non-vacuity: the python stack [[a, otherwise, b, c], [d, e], []] (inside `with c:` then `with e:`):
   select = ~b & c & ~d & e, pred_set = {(b,True), (c,False), (d,True), (e,False)} *)
Example C07_rule_current_select_example :
  gen_current_select [[CP 0; COth; CP 1; CP 2]; [CP 3; CP 4]; []]
  = (Some (BAnd (BAnd (BAnd (BNot (BVar 1)) (BVar 2)) (BNot (BVar 3))) (BVar 4)),
     [(1, true); (2, false); (3, true); (4, false)]).
Proof. vm_compute. reflexivity. Qed.

(* The assembled state machine.  Gen/CondRules.v also assembles _push_condition, _build, the per-target part
   of _finalize and the whole elaboration (gen_elab) from the regenerated rules, in the statement order its
   shape checks established.  They are the functions of the hand-written model, so the property theorems
   hold of the regenerated elaborator itself. *)
Theorem C07_rule_push : forall pw c s, push_w pw c s = gen_push pw c s.
Proof. exact rule_push. Qed.
Print Assumptions C07_rule_push.

Theorem C07_rule_build : forall l pl s, build l pl s = gen_build l pl s.
Proof. exact rule_build. Qed.
Print Assumptions C07_rule_build.

Theorem C07_rule_finalize_target : forall d kv, fin_one d kv = gen_fin_one d kv.
Proof. exact rule_fin_one. Qed.
Print Assumptions C07_rule_finalize_target.

Theorem C07_rule_elab : forall pw prog d, elab_w pw prog d = gen_elab pw prog d.
Proof. exact rule_elab. Qed.
Print Assumptions C07_rule_elab.

Theorem C07_regenerated_elaborator_rejects_iff : forall pw prog d,
  gen_elab pw prog d = None <-> spec_accepts_w pw prog = false.
Proof. exact gen_elab_none_iff. Qed.
Print Assumptions C07_regenerated_elaborator_rejects_iff.

Theorem C07_regenerated_elaborator_value : forall pw prog d res, gen_elab pw prog d = Some res ->
  forall t, In (LW t) (map fst (slits prog)) ->
  exists e, res_get res (LW t) = Some (FVal e) /\ forall E, Some (veval E e) = spec_value E d prog t.
Proof. exact gen_elab_value. Qed.
Print Assumptions C07_regenerated_elaborator_value.

Theorem C07_regenerated_elaborator_memory : forall pw prog d res, gen_elab pw prog d = Some res ->
  forall m, In (LM m) (map fst (slits prog)) ->
  exists en ad da, res_get res (LM m) = Some (FMem en ad da) /\
    forall E,
      match spec_mem E prog m with
      | Some None => veval E en = 0
      | Some (Some (a, dd, e)) => veval E en = e /\ veval E ad = a /\ veval E da = dd
      | None => False
      end.
Proof. exact gen_elab_memory. Qed.
Print Assumptions C07_regenerated_elaborator_memory.
