(* C07 -- translator tie.  Gen/CondRules.v is regenerated from pyrtl/conditional.py on every run by
   py/genfrag_C07.py (pure rules translated, the statement skeleton shape-checked fail-closed).
   These theorems say that the hand-written elaborator model Front/Cond.v -- about which Props/C07.v
   proves the property -- is built from exactly the rules the source states now.
   Only statements + `exact`; proofs in Front/CondRules.v. *)
From Coq Require Import ZArith List Bool.
From PyRTL Require Import Front.Cond Front.CondSpec Front.CondProofs Gen.CondRules Front.CondRules.
Import ListNotations.
Open Scope Z_scope.

Theorem C07_rule_conflict : forall a b, in_conflict a b = gen_in_conflict a b.
Proof. exact rule_conflict. Qed.
Print Assumptions C07_rule_conflict.

Theorem C07_rule_width_guard : forall pw c,
  pred_too_wide pw c
  = gen_pred_too_wide (match c with COth => true | CP _ => false end)
                      (match c with CP p => pw p | COth => 0 end).
Proof. exact rule_width. Qed.
Print Assumptions C07_rule_width_guard.

Theorem C07_rule_select_and_pred_set : forall c pre p,
  level_lits (c :: pre)
  = map (fun q => (q, gen_between_flag)) (rev (since_oth pre))
    ++ match c with CP p => [(p, gen_current_flag)] | COth => [] end
  /\ lit_expr (p, gen_between_flag) = gen_between_expr p
  /\ lit_expr (p, gen_current_flag) = gen_current_expr p.
Proof. exact (fun c pre p => conj (rule_level c pre) (rule_polarity p)). Qed.
Print Assumptions C07_rule_select_and_pred_set.

Theorem C07_rule_polarity_consistent : forall rho p,
  beval rho (gen_between_expr p) = lit_holds rho (p, gen_between_flag) /\
  beval rho (gen_current_expr p) = lit_holds rho (p, gen_current_flag).
Proof. exact rule_polarity_consistent. Qed.
Print Assumptions C07_rule_polarity_consistent.

Theorem C07_rule_default : forall d t,
  option_map (dsel_expr d t)
    (gen_default (is_register t) true (match dflt_get d t with Some _ => true | None => false end))
  = Some (default_expr d t).
Proof. exact rule_default. Qed.
Print Assumptions C07_rule_default.

Theorem C07_rule_wire_fold : forall dflt recs,
  fin_val dflt recs = fold_left (fun acc pr => gen_fin_step (fst pr) (pl_val (snd pr)) acc) recs dflt.
Proof. exact rule_fin_val. Qed.
Print Assumptions C07_rule_wire_fold.

Theorem C07_rule_memory_fold : forall p0 pl0 rest,
  fin_mem ((p0, pl0) :: rest)
  = let '(en, ad, da) :=
      fold_left (fun acc pr => gen_mem_step (fst pr) (pl_addr (snd pr)) (pl_val (snd pr)) (pl_en (snd pr)) acc)
                rest (gen_mem_init p0 (pl_addr pl0) (pl_val pl0) (pl_en pl0)) in
    FMem en ad da.
Proof. exact rule_fin_mem. Qed.
Print Assumptions C07_rule_memory_fold.
