(* C16 -- proofs about the string-level models (Conv/Str.v) built on the translated helpers. *)
From Coq Require Import ZArith List Bool Lia ZifyBool.
From PyRTL Require Import Base.PyZ Conv.ConvBase Gen.Conv Conv.Spec Conv.Str Conv.ConvProofs.
Open Scope Z_scope.

(* infer_val_and_bitwidth on a verilog-style string = the integer path on the parsed number *)
Lemma verilog_str_agrees s neg num w passed :
  verilog_parse s = Ok (neg, w, num) ->
  0 <= num -> 1 <= w -> passed_ok passed w ->
  ~ (neg = true /\ num = 2 ^ (w - 1)) ->
  res_opt (infer (RStr s) passed false)
  = res_opt (infer (RInt (if neg then - num else num)) (Some w) false).
Proof.
  intros Hp Hn Hw Hpass Hg. cbn [infer]. unfold verilog_str. rewrite Hp.
  apply verilog_tail_agrees; assumption.
Qed.

Lemma verilog_str_signed_rejected s passed : is_ok (infer (RStr s) passed true) = false.
Proof. reflexivity. Qed.

Lemma verilog_str_width_mismatch s neg num w p :
  verilog_parse s = Ok (neg, w, num) -> p <> w ->
  is_ok (infer (RStr s) (Some p) false) = false.
Proof.
  intros Hp Hw. cbn [infer]. unfold verilog_str. rewrite Hp. apply verilog_tail_width_mismatch; assumption.
Qed.

Lemma verilog_str_zero_width s neg num w passed :
  verilog_parse s = Ok (neg, w, num) -> w < 1 -> is_ok (infer (RStr s) passed false) = false.
Proof.
  intros Hp Hw. cbn [infer]. unfold verilog_str. rewrite Hp. apply verilog_tail_zero_width; assumption.
Qed.

Lemma not_ok_none {A} (r : res A) : is_ok r = false -> res_opt r = None.
Proof. destruct r; [discriminate|reflexivity]. Qed.

(* the whole agreement statement, for every bitwidth parameter and every written width, with the
   single exclusion of the most negative value (F13) *)
Lemma verilog_str_agrees_all s neg num w passed :
  verilog_parse s = Ok (neg, w, num) -> 0 <= num ->
  ~ (neg = true /\ 1 <= w /\ num = 2 ^ (w - 1)) ->
  res_opt (infer (RStr s) passed false)
  = match passed with
    | Some p => if p =? w then res_opt (infer (RInt (if neg then - num else num)) (Some w) false) else None
    | None => res_opt (infer (RInt (if neg then - num else num)) (Some w) false)
    end.
Proof.
  intros Hp Hn Hg.
  assert (Hcore : forall passed', passed_ok passed' w ->
            res_opt (infer (RStr s) passed' false)
            = res_opt (infer (RInt (if neg then - num else num)) (Some w) false)).
  { intros passed' Hok. destruct (Z.lt_ge_cases w 1) as [Hw|Hw].
    - rewrite (not_ok_none _ (verilog_str_zero_width s neg num w passed' Hp Hw)).
      cbn [infer]. rewrite convert_int_some. unfold representableb.
      replace (1 <=? w) with false by lia. reflexivity.
    - apply verilog_str_agrees; try assumption. intros [H1 H2]. apply Hg. auto. }
  destruct passed as [p|].
  - destruct (p =? w) eqn:E.
    + assert (p = w) by lia. subst p. apply Hcore. right. reflexivity.
    + apply not_ok_none. apply (verilog_str_width_mismatch s neg num w p Hp). lia.
  - apply Hcore. left. reflexivity.
Qed.

(* Const on ints and bools: the internal post-checks (codes 200+k of const_model) never fire *)
Lemma const_int_postchecks_never_fire v w s n w' :
  infer (RInt v) w s = Ok (n, w') -> const_postchecks n w' = None.
Proof. cbn [infer]. apply const_postchecks_int. Qed.

Lemma const_bool_postchecks_never_fire b w s n w' :
  infer (RBool b) w s = Ok (n, w') -> const_postchecks n w' = None.
Proof. cbn [infer]. apply const_postchecks_bool. Qed.

(* ... nor on strings *)
Lemma const_str_postchecks_never_fire str0 w s n w' :
  infer (RStr str0) w s = Ok (n, w') -> 0 <= w' -> const_postchecks n w' = None.
Proof.
  cbn [infer]. unfold verilog_str. destruct s; [discriminate|].
  destruct (verilog_parse str0) as [[[neg bw] num]|k]; [|discriminate].
  unfold verilog_tail, const_postchecks.
  intros H Hw.
  assert (Hx : Z.shiftr n w' = 0).
  { revert H.
    repeat match goal with
           | |- context [if ?c then _ else _] => destruct c eqn:?
           end; intros H; inversion H; subst; lia. }
  rewrite Hx. apply shiftr_0 in Hx; [|assumption]. replace (n <? 0) with false by lia. reflexivity.
Qed.
