(* C16 -- proofs about the string-level models (Conv/Str.v) built on the translated helpers. *)
From Coq Require Import ZArith List Bool Lia ZifyBool.
From PyRTL Require Import Base.PyZ Conv.ConvBase Gen.Conv Conv.Spec Conv.Str Conv.ConvProofs.
Open Scope Z_scope.

(* infer_val_and_bitwidth on a verilog-style string = the integer path on the parsed number *)
Lemma verilog_str_agrees s neg num w passed :
  verilog_parse s = Ok (neg, w, num) ->
  0 <= num -> 1 <= w -> passed_ok passed w ->
  ~ (neg = true /\ num = 2 ^ (w - 1)) ->
  res_opt (infer (RStr s) passed false)
  = res_opt (infer (RInt (if neg then - num else num)) (Some w) false).
Proof.
  intros Hp Hn Hw Hpass Hg. cbn [infer]. unfold verilog_str. rewrite Hp.
  apply verilog_tail_agrees; assumption.
Qed.

Lemma verilog_str_signed_rejected s passed : is_ok (infer (RStr s) passed true) = false.
Proof. reflexivity. Qed.

Lemma verilog_str_width_mismatch s neg num w p :
  verilog_parse s = Ok (neg, w, num) -> p <> 0 -> p <> w ->
  is_ok (infer (RStr s) (Some p) false) = false.
Proof.
  intros Hp H0 Hw. cbn [infer]. unfold verilog_str. rewrite Hp. apply verilog_tail_width_mismatch; assumption.
Qed.

Lemma verilog_str_zero_width s neg num w passed :
  verilog_parse s = Ok (neg, w, num) -> w < 1 -> is_ok (infer (RStr s) passed false) = false.
Proof.
  intros Hp Hw. cbn [infer]. unfold verilog_str. rewrite Hp. apply verilog_tail_zero_width; assumption.
Qed.

(* Const on ints and bools: the internal post-checks (codes 200+k of const_model) never fire *)
Lemma const_int_postchecks_never_fire v w s n w' :
  infer (RInt v) w s = Ok (n, w') -> const_postchecks n w' = None.
Proof. cbn [infer]. apply const_postchecks_int. Qed.

Lemma const_bool_postchecks_never_fire b w s n w' :
  infer (RBool b) w s = Ok (n, w') -> const_postchecks n w' = None.
Proof. cbn [infer]. apply const_postchecks_bool. Qed.

(* ... nor on strings *)
Lemma const_str_postchecks_never_fire str0 w s n w' :
  infer (RStr str0) w s = Ok (n, w') -> 0 <= w' -> const_postchecks n w' = None.
Proof.
  cbn [infer]. unfold verilog_str. destruct s; [discriminate|].
  destruct (verilog_parse str0) as [[[neg bw] num]|k]; [|discriminate].
  unfold verilog_tail, const_postchecks.
  intros H Hw.
  assert (Hx : Z.shiftr n w' = 0).
  { revert H.
    repeat match goal with
           | |- context [if ?c then _ else _] => destruct c eqn:?
           end; intros H; inversion H; subst; lia. }
  rewrite Hx. apply shiftr_0 in Hx; [|assumption]. replace (n <? 0) with false by lia. reflexivity.
Qed.
