(* C16 -- positional digit strings and the formatted-string round trip. *)
From Coq Require Import ZArith List Bool Lia ZifyBool.
From PyRTL Require Import Base.PyZ Conv.ConvBase Gen.Conv Conv.Spec Conv.Str Conv.ConvProofs.
Open Scope Z_scope.

Lemma digit_val_char d : 0 <= d < 36 -> digit_val (digit_char d) = Some d.
Proof.
  intros Hd. unfold digit_char, digit_val. destruct (d <? 10) eqn:E.
  - replace ((48 <=? 48 + d) && (48 + d <=? 57)) with true by lia. f_equal. lia.
  - replace ((48 <=? 87 + d) && (87 + d <=? 57)) with false by lia.
    replace ((97 <=? 87 + d) && (87 + d <=? 122)) with true by lia. f_equal. lia.
Qed.

Lemma digit_char_not_sign d : 0 <= d -> (digit_char d =? 45) = false /\ (digit_char d =? 43) = false.
Proof. intros. unfold digit_char. destruct (d <? 10); lia. Qed.

Lemma digits_val_app base s1 : forall a s2,
  digits_val base a (s1 ++ s2) =
  match digits_val base a s1 with Some a' => digits_val base a' s2 | None => None end.
Proof.
  induction s1 as [|c t IH]; intros a s2; [reflexivity|].
  cbn [app digits_val]. destruct (digit_val c) as [d|]; [|reflexivity].
  destruct (d <? base); [apply IH|reflexivity].
Qed.

Lemma to_digits_acc fuel base : forall n acc,
  to_digits fuel base n acc = to_digits fuel base n [] ++ acc.
Proof.
  induction fuel as [|f IH]; intros n acc; [reflexivity|].
  cbn [to_digits]. destruct (n <? base); [reflexivity|].
  rewrite IH. rewrite (IH (n / base) [digit_char (n mod base)]). rewrite <- app_assoc. reflexivity.
Qed.

Lemma to_digits_S f base n :
  to_digits (S f) base n [] =
  if n <? base then [digit_char n] else to_digits f base (n / base) [] ++ [digit_char (n mod base)].
Proof. cbn [to_digits]. destruct (n <? base); [reflexivity|]. apply to_digits_acc. Qed.

Lemma to_digits_nonempty f base n : to_digits (S f) base n [] <> [].
Proof.
  rewrite to_digits_S. destruct (n <? base); [discriminate|].
  intro H. apply app_eq_nil in H. destruct H as [_ H]. discriminate.
Qed.

Lemma digits_val_to_digits base : 2 <= base <= 36 -> forall f n,
  0 <= n < base ^ Z.of_nat f ->
  digits_val base 0 (to_digits f base n []) = Some n.
Proof.
  intros Hb. induction f as [|f IH]; intros n Hn.
  - simpl in Hn. assert (n = 0) by lia. subst. reflexivity.
  - rewrite to_digits_S. destruct (n <? base) eqn:E.
    + cbn [digits_val]. rewrite digit_val_char by lia. rewrite E. f_equal; lia.
    + rewrite digits_val_app. rewrite IH.
      * cbn [digits_val]. pose proof (Z.mod_pos_bound n base ltac:(lia)) as Hm.
        rewrite digit_val_char by lia. replace (n mod base <? base) with true by lia.
        f_equal. pose proof (Z.div_mod n base ltac:(lia)). lia.
      * rewrite Nat2Z.inj_succ, Z.pow_succ_r in Hn by lia.
        split; [apply Z.div_pos; lia|]. apply Z.div_lt_upper_bound; lia.
Qed.

(* first character of a non-empty digit string is a digit character *)
Lemma to_digits_head base : 2 <= base -> forall f n, 0 <= n ->
  exists d t, 0 <= d /\ to_digits (S f) base n [] = digit_char d :: t.
Proof.
  intros Hb. induction f as [|f IH]; intros n Hn.
  - cbn [to_digits]. destruct (n <? base).
    + exists n, []. split; [lia|reflexivity].
    + exists (n mod base), []. split; [apply Z.mod_pos_bound; lia|reflexivity].
  - rewrite to_digits_S. destruct (n <? base).
    + exists n, []. split; [lia|reflexivity].
    + destruct (IH (n / base) ltac:(apply Z.div_pos; lia)) as [d [t [Hd E]]]. rewrite E.
      exists d, (t ++ [digit_char (n mod base)]). split; [assumption|reflexivity].
Qed.

Lemma fuel_enough base n : 2 <= base -> 0 <= n ->
  n < base ^ Z.of_nat (S (Z.to_nat (Z.log2 n))).
Proof.
  intros Hb Hn. pose proof (Z.log2_nonneg n) as Hl.
  rewrite Nat2Z.inj_succ, Z2Nat.id by lia.
  destruct (Z.eq_dec n 0) as [->|Hne].
  - apply Z.pow_pos_nonneg; lia.
  - destruct (Z.log2_spec n ltac:(lia)) as [_ Hu].
    eapply Z.lt_le_trans; [exact Hu|]. apply Z.pow_le_mono_l. lia.
Qed.

(* int(str-in-radix(n), radix) = n *)
Lemma py_int_nat_str base n : 2 <= base <= 36 -> 0 <= n -> py_int base (nat_str base n) = Some n.
Proof.
  intros Hb Hn. unfold nat_str.
  destruct (to_digits_head base ltac:(lia) (Z.to_nat (Z.log2 n)) n Hn) as [d [t [Hd E]]].
  pose proof (digits_val_to_digits base Hb _ n (conj Hn (fuel_enough base n ltac:(lia) Hn))) as Hv.
  rewrite E in *. unfold py_int. destruct (digit_char_not_sign d Hd) as [-> ->].
  unfold int_digits. exact Hv.
Qed.

(* int(str(n)) = n for every integer *)
Lemma py_int_py_str n : py_int 10 (py_str n) = Some n.
Proof.
  unfold py_str. destruct (n <? 0) eqn:E.
  - unfold py_int. cbn [Z.eqb Pos.eqb]. unfold nat_str, int_digits.
    pose proof (to_digits_nonempty (Z.to_nat (Z.log2 (- n))) 10 (- n)) as Hne.
    assert (Hn0 : 0 <= - n) by lia. assert (Hb10 : 2 <= 10 <= 36) by lia.
    pose proof (digits_val_to_digits 10 Hb10 _ (- n)
                  (conj Hn0 (fuel_enough 10 (- n) ltac:(lia) Hn0))) as Hv.
    destruct (to_digits (S (Z.to_nat (Z.log2 (- n)))) 10 (- n) []) eqn:Ed; [contradiction|].
    rewrite Hv. cbn [option_map]. f_equal. lia.
  - apply py_int_nat_str; lia.
Qed.

(* ---------- the round trip, formats s / u / x / b ---------- *)
Definition fmt_type_ok (ty : Z) : Prop := ty = 115 \/ ty = 117 \/ ty = 120 \/ ty = 98.

Lemma formatted_roundtrip v f ty w es :
  format_parse f = Some (ty, w) -> fmt_type_ok ty -> 1 <= w -> 0 <= v < 2 ^ w ->
  exists s, val_to_formatted_str v f es = Ok s /\ formatted_str_to_val s f es = Ok v.
Proof.
  intros Hf Hty Hw Hv. unfold val_to_formatted_str, formatted_str_to_val. rewrite Hf.
  destruct Hty as [->|[->|[->| ->]]]; cbn [Z.eqb Pos.eqb].
  - (* s *)
    rewrite val_to_signed_value by assumption. eexists. split; [reflexivity|].
    rewrite py_int_py_str. f_equal. rewrite land_mask by lia. unfold signed_value.
    destruct (v <? 2 ^ (w - 1)); [apply Z.mod_small; lia|].
    symmetry. apply (Z.mod_unique _ _ (-1)); lia.
  - (* u *)
    eexists. split; [reflexivity|]. rewrite py_int_py_str. replace (v <? 0) with false by lia. reflexivity.
  - (* x *)
    eexists. split; [reflexivity|]. unfold py_hex2. replace (v <? 0) with false by lia.
    rewrite py_int_nat_str by lia. reflexivity.
  - (* b *)
    eexists. split; [reflexivity|]. unfold py_bin2. replace (v <? 0) with false by lia.
    rewrite py_int_nat_str by lia. reflexivity.
Qed.

(* the converse on canonical strings (the texts val_to_formatted_str produces for in-range values) *)
Lemma formatted_roundtrip_text v f ty w es s :
  format_parse f = Some (ty, w) -> fmt_type_ok ty -> 1 <= w -> 0 <= v < 2 ^ w ->
  val_to_formatted_str v f es = Ok s ->
  exists v', formatted_str_to_val s f es = Ok v' /\ val_to_formatted_str v' f es = Ok s.
Proof.
  intros Hf Hty Hw Hv Hs. destruct (formatted_roundtrip v f ty w es Hf Hty Hw Hv) as [s' [E1 E2]].
  rewrite Hs in E1. inversion E1; subst s'. exists v. split; assumption.
Qed.

(* ---------- enum format ---------- *)
Lemma str_eqb_refl a : str_eqb a a = true.
Proof.
  unfold str_eqb. rewrite Nat.eqb_refl. cbn [andb].
  induction a as [|c t IH]; [reflexivity|]. cbn [combine forallb fst snd]. rewrite Z.eqb_refl. exact IH.
Qed.

Lemma str_eqb_eq a : forall b, str_eqb a b = true -> a = b.
Proof.
  unfold str_eqb. induction a as [|c t IH]; intros [|d u] H; try reflexivity; try discriminate.
  cbn [length combine forallb fst snd] in H. apply andb_prop in H. destruct H as [Hl Hf].
  apply andb_prop in Hf. destruct Hf as [Hc Ht].
  assert (c = d) by lia. subst d. f_equal. apply IH. cbn [Nat.eqb] in Hl. rewrite Hl, Ht. reflexivity.
Qed.

(* member names are pairwise distinct (always true of a Python Enum) *)
Fixpoint enum_names_distinct (e : list (str * Z)) : Prop :=
  match e with
  | [] => True
  | (n, _) :: t => enum_by_name n t = None /\ enum_names_distinct t
  end.

Lemma enum_value_then_name e : forall v n, enum_names_distinct e ->
  enum_by_value v e = Some n -> enum_by_name n e = Some v.
Proof.
  induction e as [|[n0 v0] t IH]; intros v n Hd H; [discriminate|].
  cbn [enum_by_value enum_by_name] in *. destruct Hd as [Hn0 Hd].
  destruct (v =? v0) eqn:Ev.
  - inversion H; subst n. rewrite str_eqb_refl. f_equal. lia.
  - specialize (IH v n Hd H). destruct (str_eqb n n0) eqn:En; [|exact IH].
    apply str_eqb_eq in En. subst n0. rewrite IH in Hn0. discriminate.
Qed.

Lemma formatted_roundtrip_enum v f w es e n :
  format_parse f = Some (101, w) -> enum_of f es = Ok e -> enum_names_distinct e ->
  val_to_formatted_str v f es = Ok n -> formatted_str_to_val n f es = Ok v.
Proof.
  intros Hf He Hd. unfold val_to_formatted_str, formatted_str_to_val. rewrite Hf, He.
  cbn [Z.eqb Pos.eqb]. destruct (enum_by_value v e) as [n'|] eqn:E; [|discriminate].
  intros H. inversion H; subst n'. rewrite (enum_value_then_name e v n Hd E). reflexivity.
Qed.

(* unknown format types are rejected by both directions *)
Lemma formatted_unknown_type v d f ty w es :
  format_parse f = Some (ty, w) -> ~ fmt_type_ok ty -> ty <> 101 ->
  is_ok (val_to_formatted_str v f es) = false /\ is_ok (formatted_str_to_val d f es) = false.
Proof.
  intros Hf Hty He. unfold val_to_formatted_str, formatted_str_to_val, fmt_type_ok in *. rewrite Hf.
  replace (ty =? 115) with false by lia. replace (ty =? 120) with false by lia.
  replace (ty =? 98) with false by lia. replace (ty =? 117) with false by lia.
  replace (ty =? 101) with false by lia. split; reflexivity.
Qed.

(* ---------- enum_set: which enum a format names, independently of the order ---------- *)
(* find_enum picks the first entry with exactly that name *)
Lemma find_enum_spec n : forall es e, find_enum n es = Some e ->
  exists es1 es2, es = es1 ++ (n, e) :: es2 /\ (forall n' e', In (n', e') es1 -> n' <> n).
Proof.
  induction es as [|[n0 e0] t IH]; intros e H; [discriminate|]. cbn [find_enum] in H.
  destruct (str_eqb n n0) eqn:E.
  - apply str_eqb_eq in E. subst n0. inversion H; subst e0. exists [], t. split; [reflexivity|]. intros ? ? [].
  - destruct (IH e H) as [es1 [es2 [-> Hn]]]. exists ((n0, e0) :: es1), es2. split; [reflexivity|].
    intros n' e' [Heq|Hin]; [|eapply Hn; eassumption].
    inversion Heq; subst. intro Hx. subst n'. rewrite str_eqb_refl in E. discriminate.
Qed.

(* class names in the enum_set are pairwise distinct *)
Fixpoint enum_set_distinct (es : list (str * list (str * Z))) : Prop :=
  match es with
  | [] => True
  | (n, _) :: t => find_enum n t = None /\ enum_set_distinct t
  end.

Lemma find_enum_in : forall es n e, enum_set_distinct es -> In (n, e) es -> find_enum n es = Some e.
Proof.
  induction es as [|[n0 e0] t IH]; intros n e Hd Hin; [contradiction|].
  cbn [find_enum enum_set_distinct] in *. destruct Hd as [Hn0 Hd]. destruct Hin as [Heq|Hin].
  - inversion Heq; subst. rewrite str_eqb_refl. reflexivity.
  - specialize (IH n e Hd Hin). destruct (str_eqb n n0) eqn:E; [|exact IH].
    apply str_eqb_eq in E. subst n0. rewrite IH in Hn0. discriminate.
Qed.

(* the round trip for the enum format wherever the named enum sits in the enum_set *)
Lemma formatted_roundtrip_enum_any_order v f w es n e s :
  format_parse f = Some (101, w) -> enum_name f = Some n ->
  enum_set_distinct es -> In (n, e) es -> enum_names_distinct e ->
  val_to_formatted_str v f es = Ok s -> formatted_str_to_val s f es = Ok v.
Proof.
  intros Hf Hn Hd Hin He. apply (formatted_roundtrip_enum v f w es e s Hf); [|assumption].
  unfold enum_of. rewrite Hn. rewrite (find_enum_in es n e Hd Hin). reflexivity.
Qed.

(* both directions resolve the enum through the same function of (format, enum_set) *)
Lemma formatted_enum_same_lookup v d f w es :
  format_parse f = Some (101, w) ->
  val_to_formatted_str v f es =
    match enum_of f es with
    | Err k => Err k
    | Ok e => match enum_by_value v e with Some n => Ok n | None => Err 92 end
    end /\
  formatted_str_to_val d f es =
    match enum_of f es with
    | Err k => Err k
    | Ok e => match enum_by_name d e with Some x => Ok x | None => Err 92 end
    end.
Proof. intros Hf. unfold val_to_formatted_str, formatted_str_to_val. rewrite Hf. split; reflexivity. Qed.
