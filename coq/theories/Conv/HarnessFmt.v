(* C16 -- bulk evaluators over the formatted-string functions REGENERATED from the source
   (Gen/ConvFmt.v).  No proofs. *)
From PyRTL Require Import Base.PyZ Conv.ConvBase Gen.Conv Conv.Str Gen.ConvFmt.

Definition hs_to_str (vs : list Z) (fs : list str) (e : list enum_class) :=
  map (fun v => map (fun f => res_opt (src_val_to_formatted_str v f e)) fs) vs.
Definition hs_to_val (ds : list str) (fs : list str) (e : list enum_class) :=
  map (fun d => map (fun f => res_opt (src_formatted_str_to_val d f e)) fs) ds.
Definition hs_val (d f : str) (e : list enum_class) := res_opt (src_formatted_str_to_val d f e).
