(* C16 -- bridge: the formatted-string functions REGENERATED from the source (Gen/ConvFmt.v) accept
   exactly what the hand-written definitions of Conv/Str.v accept and return the same values, so every
   theorem about Conv/Str.v's formatted_str_to_val / val_to_formatted_str is a theorem about the
   current source text. *)
From Coq Require Import ZArith List Bool Lia ZifyBool.
From PyRTL Require Import Base.PyZ Conv.ConvBase Gen.Conv Conv.Spec Conv.Str Gen.ConvFmt
  Conv.ConvProofs Conv.FmtProofs.
Open Scope Z_scope.

(* s.split(sep)[0] is the text up to the first separator *)
Lemma split_on_hd sep : forall s cur,
  exists rest, split_on sep s cur = (rev cur ++ take_until sep s) :: rest.
Proof.
  induction s as [|c t IH]; intros cur; cbn [split_on take_until].
  - exists []. rewrite app_nil_r. reflexivity.
  - destruct (c =? sep).
    + exists (split_on sep t []). rewrite app_nil_r. reflexivity.
    + destruct (IH (c :: cur)) as [rest E]. exists rest. rewrite E. cbn [rev]. rewrite <- app_assoc. reflexivity.
Qed.

Lemma split_on_0 sep s : nth_r (split_on sep s []) 0 = Ok (take_until sep s).
Proof. destruct (split_on_hd sep s []) as [rest E]. rewrite E. reflexivity. Qed.

(* s.split(sep)[1] is the text between the first and the second separator *)
Lemma split_on_1 : forall s cur,
  nth_error (split_on 47 s cur) 1 = enum_name s.
Proof.
  induction s as [|c t IH]; intros cur; cbn [split_on enum_name]; [reflexivity|].
  destruct (c =? 47).
  - cbn [nth_error]. destruct (split_on_hd 47 t []) as [rest E]. rewrite E. reflexivity.
  - apply IH.
Qed.

(* [e for e in enum_set if e.__name__ == name][0], if any, is the first enum with exactly that name *)
Lemma str_eqb_sym a b : str_eqb a b = str_eqb b a.
Proof.
  destruct (str_eqb a b) eqn:E1; destruct (str_eqb b a) eqn:E2; try reflexivity.
  - apply str_eqb_eq in E1. subst. rewrite str_eqb_refl in E2. discriminate.
  - apply str_eqb_eq in E2. subst. rewrite str_eqb_refl in E1. discriminate.
Qed.

Lemma enums_named_find name : forall es,
  match enums_named name es with
  | [] => find_enum name es = None
  | e :: _ => find_enum name es = Some (snd e)
  end.
Proof.
  induction es as [|[n0 e0] t IH]; cbn [enums_named filter find_enum fst]; [reflexivity|].
  rewrite (str_eqb_sym n0 name). destruct (str_eqb name n0); [reflexivity|exact IH].
Qed.

Ltac fmt_type_cases ty :=
  destruct (ty =? 115) eqn:?; [|destruct (ty =? 120) eqn:?; [|destruct (ty =? 98) eqn:?;
    [|destruct (ty =? 117) eqn:?; [|destruct (ty =? 101) eqn:?]]]].

Lemma enum_branch_bridge f es :
  (match nth_r (split_on 47 f []) 1 with
   | Err k => None
   | Ok name => match enums_named name es with [] => None | e :: _ => Some (snd e) end
   end) = res_opt (enum_of f es).
Proof.
  unfold nth_r, enum_of. rewrite split_on_1. destruct (enum_name f) as [name|]; [|reflexivity].
  pose proof (enums_named_find name es) as H. destruct (enums_named name es) as [|e l]; rewrite H; reflexivity.
Qed.

Theorem src_formatted_str_to_val_bridge data f es :
  res_opt (src_formatted_str_to_val data f es) = res_opt (formatted_str_to_val data f es).
Proof.
  unfold src_formatted_str_to_val, formatted_str_to_val, format_parse, str_index.
  destruct f as [|ty rest]; [reflexivity|]. cbn [nth_error skipn].
  rewrite split_on_0. unfold py_int_r at 1.
  destruct (py_int 10 (take_until 47 rest)) as [bw|]; [|reflexivity].
  unfold shift_count_r. destruct (bw <? 0); [reflexivity|].
  fmt_type_cases ty.
  - unfold py_int_r. destruct (py_int 10 data); reflexivity.
  - unfold py_int_r. destruct (py_int 16 data); reflexivity.
  - unfold py_int_r. destruct (py_int 2 data); reflexivity.
  - unfold py_int_r. destruct (py_int 10 data) as [n|]; [|reflexivity]. destruct (n <? 0); reflexivity.
  - pose proof (enum_branch_bridge (ty :: rest) es) as Hb. unfold nth_r in *.
    destruct (nth_error (split_on 47 (ty :: rest) []) 1) as [name|].
    + destruct (enums_named name es) as [|e l] eqn:En; cbn [length Z.of_nat Z.eqb].
      * destruct (enum_of (ty :: rest) es); [discriminate|reflexivity].
      * replace (Z.of_nat (S (length l)) =? 0) with false by lia.
        cbn [enumlist_index nth_error]. unfold enum_getattr_value.
        destruct (enum_of (ty :: rest) es) as [e'|]; [|discriminate]. inversion Hb; subst e'.
        destruct (enum_by_name data (snd e)); reflexivity.
    + destruct (enum_of (ty :: rest) es); [discriminate|reflexivity].
  - reflexivity.
Qed.

Theorem src_val_to_formatted_str_bridge v f es :
  res_opt (src_val_to_formatted_str v f es) = res_opt (val_to_formatted_str v f es).
Proof.
  unfold src_val_to_formatted_str, val_to_formatted_str, format_parse, str_index.
  destruct f as [|ty rest]; [reflexivity|]. cbn [nth_error skipn].
  rewrite split_on_0. unfold py_int_r at 1.
  destruct (py_int 10 (take_until 47 rest)) as [bw|]; [|reflexivity].
  unfold shift_count_r. destruct (bw <? 0); [reflexivity|].
  fmt_type_cases ty.
  - destruct (val_to_signed_integer v bw); reflexivity.
  - reflexivity.
  - reflexivity.
  - reflexivity.
  - pose proof (enum_branch_bridge (ty :: rest) es) as Hb. unfold nth_r in *.
    destruct (nth_error (split_on 47 (ty :: rest) []) 1) as [name|].
    + destruct (enums_named name es) as [|e l] eqn:En; cbn [length Z.of_nat Z.eqb].
      * destruct (enum_of (ty :: rest) es); [discriminate|reflexivity].
      * replace (Z.of_nat (S (length l)) =? 0) with false by lia.
        cbn [enumlist_index nth_error]. unfold enum_call_name.
        destruct (enum_of (ty :: rest) es) as [e'|]; [|discriminate]. inversion Hb; subst e'.
        destruct (enum_by_value v (snd e)); reflexivity.
    + destruct (enum_of (ty :: rest) es); [discriminate|reflexivity].
  - reflexivity.
Qed.

Lemma res_opt_some {A} (r : res A) a : res_opt r = Some a <-> r = Ok a.
Proof. destruct r; cbn; split; intros H; inversion H; reflexivity. Qed.

(* ---------- the round trips, stated about the regenerated source functions ---------- *)
Theorem src_formatted_roundtrip v f ty w es :
  format_parse f = Some (ty, w) -> fmt_type_ok ty -> 1 <= w -> 0 <= v < 2 ^ w ->
  exists s, src_val_to_formatted_str v f es = Ok s /\ src_formatted_str_to_val s f es = Ok v.
Proof.
  intros Hf Hty Hw Hv. destruct (formatted_roundtrip v f ty w es Hf Hty Hw Hv) as [s [E1 E2]].
  exists s. split; apply res_opt_some.
  - rewrite src_val_to_formatted_str_bridge, E1. reflexivity.
  - rewrite src_formatted_str_to_val_bridge, E2. reflexivity.
Qed.

Theorem src_formatted_roundtrip_enum v f w es n e s :
  format_parse f = Some (101, w) -> enum_name f = Some n ->
  enum_set_distinct es -> In (n, e) es -> enum_names_distinct e ->
  src_val_to_formatted_str v f es = Ok s -> src_formatted_str_to_val s f es = Ok v.
Proof.
  intros Hf Hn Hd Hin He Hs. apply res_opt_some. rewrite src_formatted_str_to_val_bridge.
  apply res_opt_some. apply (formatted_roundtrip_enum_any_order v f w es n e s Hf Hn Hd Hin He).
  apply res_opt_some. rewrite <- src_val_to_formatted_str_bridge. apply res_opt_some. assumption.
Qed.

(* a format string "<type char><decimal width>[/Enum]" parses to its parts *)
Lemma format_parse_print ty w tail :
  0 <= w -> (tail = [] \/ exists t, tail = 47 :: t) ->
  format_parse (ty :: nat_str 10 w ++ tail) = Some (ty, w).
Proof.
  intros Hw Ht. unfold format_parse.
  assert (Htu : take_until 47 (nat_str 10 w ++ tail) = nat_str 10 w).
  { assert (Hd : forall l, Forall (fun c => c <> 47) l -> take_until 47 (l ++ tail) = l).
    { induction 1 as [|c l Hc Hl IH]; cbn [app take_until].
      - destruct Ht as [->|[t ->]]; [reflexivity|]. cbn [take_until]. reflexivity.
      - replace (c =? 47) with false by lia. rewrite IH. reflexivity. }
    apply Hd. unfold nat_str.
    assert (Hall : forall fuel n acc, 0 <= n -> Forall (fun c => c <> 47) acc ->
                   Forall (fun c => c <> 47) (to_digits fuel 10 n acc)).
    { induction fuel as [|fu IH]; intros n acc Hn Hacc; cbn [to_digits]; [assumption|].
      destruct (n <? 10) eqn:E.
      - constructor; [unfold digit_char; destruct (n <? 10); lia|assumption].
      - apply IH; [apply Z.div_pos; lia|]. constructor; [|assumption].
        pose proof (Z.mod_pos_bound n 10 ltac:(lia)). unfold digit_char. destruct (n mod 10 <? 10); lia. }
    apply Hall; [assumption|constructor]. }
  rewrite Htu. rewrite py_int_nat_str by lia. replace (w <? 0) with false by lia. reflexivity.
Qed.
