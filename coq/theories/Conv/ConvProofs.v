(* C16 -- proofs about the translated numeric helpers (Gen/Conv.v). *)
From Coq Require Import ZArith List Bool Lia ZifyBool.
From PyRTL Require Import Base.PyZ Conv.ConvBase Gen.Conv Conv.Spec.
Open Scope Z_scope.

(* ---------- arithmetic lemmas ---------- *)
Lemma len_bin_le v w : 0 <= v -> (len_bin v <= w <-> 1 <= w /\ v < 2 ^ w).
Proof.
  intros Hv. unfold len_bin. destruct (v =? 0) eqn:E.
  - assert (v = 0) by lia. subst. split.
    + intros H. split; [lia|]. apply pow2_pos. lia.
    + lia.
  - assert (Hp : 0 < v) by lia. rewrite Z.abs_eq by lia.
    pose proof (Z.log2_nonneg v) as Hl. split.
    + intros H. split; [lia|]. apply Z.log2_lt_pow2; lia.
    + intros [Hw H]. apply Z.log2_lt_pow2 in H; lia.
Qed.

Lemma div_m1 v p : 0 < p -> (v / p = -1 <-> - p <= v < 0).
Proof.
  intros Hp. split.
  - intros H. pose proof (Z.div_mod v p ltac:(lia)) as E. pose proof (Z.mod_pos_bound v p Hp).
    rewrite H in E. lia.
  - intros H. symmetry. apply (Z.div_unique v p (-1) (v + p)); lia.
Qed.

Lemma shiftr_m1 v n : 0 <= n -> (Z.shiftr v n = -1 <-> - 2 ^ n <= v < 0).
Proof.
  intros Hn. rewrite Z.shiftr_div_pow2 by assumption. apply div_m1. apply pow2_pos; assumption.
Qed.

Lemma shiftr_neg_count_ne v n : n < 0 -> Z.shiftr v n <> -1.
Proof.
  intros Hn H. rewrite <- Z.shiftl_opp_r in H. rewrite Z.shiftl_mul_pow2 in H by lia.
  replace (- n) with (Z.succ (- n - 1)) in H by lia.
  rewrite Z.pow_succ_r in H by lia. set (p := 2 ^ (- n - 1)) in *.
  assert (2 * (v * p) = -1) by lia. lia.
Qed.

Lemma shiftr_0 v n : 0 <= n -> (Z.shiftr v n = 0 <-> 0 <= v < 2 ^ n).
Proof.
  intros Hn. rewrite Z.shiftr_div_pow2 by assumption.
  pose proof (pow2_pos n Hn) as Hp. split.
  - intros H. pose proof (Z.div_mod v (2 ^ n) ltac:(lia)) as E.
    pose proof (Z.mod_pos_bound v (2 ^ n) Hp). rewrite H in E. lia.
  - intros H. apply Z.div_small. assumption.
Qed.

Lemma land_mask v w : 0 <= w -> Z.land v (Z.shiftl 1 w - 1) = v mod 2 ^ w.
Proof.
  intros Hw. rewrite Z.shiftl_1_l. replace (2 ^ w - 1) with (Z.ones w) by (rewrite Z.ones_equiv; lia).
  apply Z.land_ones. assumption.
Qed.

Lemma land_mask_pow v w : 0 <= w -> Z.land v (2 ^ w - 1) = v mod 2 ^ w.
Proof.
  intros Hw. replace (2 ^ w - 1) with (Z.ones w) by (rewrite Z.ones_equiv; lia).
  apply Z.land_ones. assumption.
Qed.

Lemma pow2_half w : 1 <= w -> 2 ^ w = 2 * 2 ^ (w - 1).
Proof. intros. replace w with (Z.succ (w - 1)) at 1 by lia. rewrite Z.pow_succ_r by lia. reflexivity. Qed.

Lemma representableb_spec v w s : representableb v w s = true <-> representable v w s.
Proof.
  unfold representableb, representable. destruct s; [|destruct (0 <=? v)]; lia.
Qed.

(* ---------- _convert_int with an explicit bitwidth ---------- *)
Lemma convert_int_some v w s :
  convert_int v (Some w) s =
  if representableb v w s then Ok (v mod 2 ^ w, w)
  else Err (if v >=? 0 then 1 else 3).
Proof.
  unfold convert_int, representableb, len_bin_signed. change (Z.opp 1) with (-1).
  destruct (v >=? 0) eqn:Ev.
  - assert (Hv : 0 <= v) by lia.
    replace (v <? 0) with false by lia. replace (0 <=? v) with true by lia.
    replace (len_bin v + 0 + 2 - 2) with (len_bin v) by lia.
    pose proof (len_bin_le v w Hv) as HL.
    destruct s; cbn [andb].
    + destruct (negb (v =? 0)) eqn:E0; cbn [andb].
      * (* v > 0, signed: need len_bin v + 1 <= w *)
        pose proof (len_bin_le v (w - 1) Hv) as HL1.
        destruct (w <? len_bin v + 1) eqn:Ew.
        -- assert (~ (1 <= w - 1 /\ v < 2 ^ (w - 1))) as Hn by (intro; lia).
           destruct (1 <=? w) eqn:E1; cbn [andb]; [|reflexivity].
           destruct (v <? 2 ^ (w - 1)) eqn:E2; [|rewrite andb_false_r; reflexivity].
           exfalso. apply Hn. split; [|lia].
           destruct (Z.eq_dec w 1) as [->|]; [|lia]. simpl in E2. lia.
        -- assert (1 <= w - 1 /\ v < 2 ^ (w - 1)) as [H1 H2] by (apply HL1; lia).
           replace (1 <=? w) with true by lia.
           assert (0 < 2 ^ (w - 1)) by (apply pow2_pos; lia).
           replace (- 2 ^ (w - 1) <=? v) with true by lia. replace (v <? 2 ^ (w - 1)) with true by lia.
           cbn [andb]. rewrite Z.mod_small; [reflexivity|]. rewrite (pow2_half w) by lia. lia.
      * assert (v = 0) by lia. subst v. cbn [len_bin Z.eqb].
        destruct (w <? 1) eqn:Ew.
        -- replace (1 <=? w) with false by lia. reflexivity.
        -- replace (1 <=? w) with true by lia. assert (0 < 2 ^ (w - 1)) by (apply pow2_pos; lia).
           replace (- 2 ^ (w - 1) <=? 0) with true by lia. replace (0 <? 2 ^ (w - 1)) with true by lia.
           cbn [andb]. rewrite Z.mod_0_l; [reflexivity|]. assert (0 < 2 ^ w) by (apply pow2_pos; lia). lia.
    + destruct (w <? len_bin v) eqn:Ew.
      * destruct (1 <=? w) eqn:E1; cbn [andb]; [|reflexivity].
        destruct (v <? 2 ^ w) eqn:E2; [|reflexivity]. exfalso. lia.
      * assert (1 <= w /\ v < 2 ^ w) as [H1 H2] by (apply HL; lia).
        replace (1 <=? w) with true by lia. replace (v <? 2 ^ w) with true by lia. cbn [andb].
        rewrite Z.mod_small by lia. reflexivity.
  - assert (Hv : v < 0) by lia. replace (0 <=? v) with false by lia.
    replace (negb s && false) with false by (destruct s; reflexivity).
    destruct (Z.lt_ge_cases w 1) as [Hw|Hw].
    + replace (1 <=? w) with false by lia. cbn [andb].
      pose proof (shiftr_neg_count_ne v (w - 1) ltac:(lia)) as Hne.
      replace (negb (Z.shiftr v (w - 1) =? -1)) with true by lia. reflexivity.
    + replace (1 <=? w) with true by lia. cbn [andb].
      pose proof (shiftr_m1 v (w - 1) ltac:(lia)) as Hs.
      assert (0 < 2 ^ (w - 1)) by (apply pow2_pos; lia).
      rewrite land_mask by lia.
      destruct (Z.shiftr v (w - 1) =? -1) eqn:E; cbn [negb].
      * assert (- 2 ^ (w - 1) <= v < 0) by (apply Hs; lia).
        destruct s.
        -- replace (- 2 ^ (w - 1) <=? v) with true by lia. replace (v <? 2 ^ (w - 1)) with true by lia. reflexivity.
        -- replace (- 2 ^ (w - 1) <=? v) with true by lia. reflexivity.
      * assert (~ (- 2 ^ (w - 1) <= v < 0)) by (intro; assert (Z.shiftr v (w - 1) = -1) by (apply Hs; assumption); lia).
        destruct s.
        -- replace (- 2 ^ (w - 1) <=? v) with false by lia. reflexivity.
        -- replace (- 2 ^ (w - 1) <=? v) with false by lia. reflexivity.
Qed.
