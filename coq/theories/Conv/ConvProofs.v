(* C16 -- proofs about the translated numeric helpers (Gen/Conv.v). *)
From Coq Require Import ZArith List Bool Lia ZifyBool.
From PyRTL Require Import Base.PyZ Conv.ConvBase Gen.Conv Conv.Spec.
Open Scope Z_scope.

(* ---------- arithmetic lemmas ---------- *)
Lemma len_bin_le v w : 0 <= v -> (len_bin v <= w <-> 1 <= w /\ v < 2 ^ w).
Proof.
  intros Hv. unfold len_bin. destruct (v =? 0) eqn:E.
  - assert (v = 0) by lia. subst. split.
    + intros H. split; [lia|]. apply pow2_pos. lia.
    + lia.
  - assert (Hp : 0 < v) by lia. rewrite Z.abs_eq by lia.
    pose proof (Z.log2_nonneg v) as Hl. split.
    + intros H. split; [lia|]. apply Z.log2_lt_pow2; lia.
    + intros [Hw H]. apply Z.log2_lt_pow2 in H; lia.
Qed.

Lemma div_m1 v p : 0 < p -> (v / p = -1 <-> - p <= v < 0).
Proof.
  intros Hp. split.
  - intros H. pose proof (Z.div_mod v p ltac:(lia)) as E. pose proof (Z.mod_pos_bound v p Hp).
    rewrite H in E. lia.
  - intros H. symmetry. apply (Z.div_unique v p (-1) (v + p)); lia.
Qed.

Lemma shiftr_m1 v n : 0 <= n -> (Z.shiftr v n = -1 <-> - 2 ^ n <= v < 0).
Proof.
  intros Hn. rewrite Z.shiftr_div_pow2 by assumption. apply div_m1. apply pow2_pos; assumption.
Qed.

Lemma shiftr_neg_count_ne v n : n < 0 -> Z.shiftr v n <> -1.
Proof.
  intros Hn H. rewrite <- Z.shiftl_opp_r in H. rewrite Z.shiftl_mul_pow2 in H by lia.
  replace (- n) with (Z.succ (- n - 1)) in H by lia.
  rewrite Z.pow_succ_r in H by lia. set (p := 2 ^ (- n - 1)) in *.
  assert (2 * (v * p) = -1) by lia. lia.
Qed.

Lemma shiftr_0 v n : 0 <= n -> (Z.shiftr v n = 0 <-> 0 <= v < 2 ^ n).
Proof.
  intros Hn. rewrite Z.shiftr_div_pow2 by assumption.
  pose proof (pow2_pos n Hn) as Hp. split.
  - intros H. pose proof (Z.div_mod v (2 ^ n) ltac:(lia)) as E.
    pose proof (Z.mod_pos_bound v (2 ^ n) Hp). rewrite H in E. lia.
  - intros H. apply Z.div_small. assumption.
Qed.

Lemma land_mask v w : 0 <= w -> Z.land v (Z.shiftl 1 w - 1) = v mod 2 ^ w.
Proof.
  intros Hw. rewrite Z.shiftl_1_l. replace (2 ^ w - 1) with (Z.ones w) by (rewrite Z.ones_equiv; lia).
  apply Z.land_ones. assumption.
Qed.

Lemma land_mask_pow v w : 0 <= w -> Z.land v (2 ^ w - 1) = v mod 2 ^ w.
Proof.
  intros Hw. replace (2 ^ w - 1) with (Z.ones w) by (rewrite Z.ones_equiv; lia).
  apply Z.land_ones. assumption.
Qed.

Lemma pow2_half w : 1 <= w -> 2 ^ w = 2 * 2 ^ (w - 1).
Proof. intros. replace w with (Z.succ (w - 1)) at 1 by lia. rewrite Z.pow_succ_r by lia. reflexivity. Qed.

Lemma representableb_spec v w s : representableb v w s = true <-> representable v w s.
Proof.
  unfold representableb, representable. destruct s; [|destruct (0 <=? v)]; lia.
Qed.

(* ---------- _convert_int with an explicit bitwidth ---------- *)
Lemma convert_int_some v w s :
  convert_int v (Some w) s =
  if representableb v w s then Ok (v mod 2 ^ w, w)
  else Err (if v >=? 0 then 1 else 3).
Proof.
  unfold convert_int, representableb, len_bin_signed. change (Z.opp 1) with (-1).
  destruct (v >=? 0) eqn:Ev.
  - assert (Hv : 0 <= v) by lia.
    replace (v <? 0) with false by lia. replace (0 <=? v) with true by lia.
    replace (len_bin v + 0 + 2 - 2) with (len_bin v) by lia.
    pose proof (len_bin_le v w Hv) as HL.
    destruct s; cbn [andb].
    + destruct (negb (v =? 0)) eqn:E0; cbn [andb].
      * (* v > 0, signed: need len_bin v + 1 <= w *)
        pose proof (len_bin_le v (w - 1) Hv) as HL1.
        destruct (w <? len_bin v + 1) eqn:Ew.
        -- assert (~ (1 <= w - 1 /\ v < 2 ^ (w - 1))) as Hn by (intro; lia).
           destruct (1 <=? w) eqn:E1; cbn [andb]; [|reflexivity].
           destruct (v <? 2 ^ (w - 1)) eqn:E2; [|rewrite andb_false_r; reflexivity].
           exfalso. apply Hn. split; [|lia].
           destruct (Z.eq_dec w 1) as [->|]; [|lia]. simpl in E2. lia.
        -- assert (1 <= w - 1 /\ v < 2 ^ (w - 1)) as [H1 H2] by (apply HL1; lia).
           replace (1 <=? w) with true by lia.
           assert (0 < 2 ^ (w - 1)) by (apply pow2_pos; lia).
           replace (- 2 ^ (w - 1) <=? v) with true by lia. replace (v <? 2 ^ (w - 1)) with true by lia.
           cbn [andb]. rewrite Z.mod_small; [reflexivity|]. rewrite (pow2_half w) by lia. lia.
      * assert (v = 0) by lia. subst v. cbn [len_bin Z.eqb].
        destruct (w <? 1) eqn:Ew.
        -- replace (1 <=? w) with false by lia. reflexivity.
        -- replace (1 <=? w) with true by lia. assert (0 < 2 ^ (w - 1)) by (apply pow2_pos; lia).
           replace (- 2 ^ (w - 1) <=? 0) with true by lia. replace (0 <? 2 ^ (w - 1)) with true by lia.
           cbn [andb]. rewrite Z.mod_0_l; [reflexivity|]. assert (0 < 2 ^ w) by (apply pow2_pos; lia). lia.
    + destruct (w <? len_bin v) eqn:Ew.
      * destruct (1 <=? w) eqn:E1; cbn [andb]; [|reflexivity].
        destruct (v <? 2 ^ w) eqn:E2; [|reflexivity]. exfalso. lia.
      * assert (1 <= w /\ v < 2 ^ w) as [H1 H2] by (apply HL; lia).
        replace (1 <=? w) with true by lia. replace (v <? 2 ^ w) with true by lia. cbn [andb].
        rewrite Z.mod_small by lia. reflexivity.
  - assert (Hv : v < 0) by lia. replace (0 <=? v) with false by lia.
    replace (negb s && false) with false by (destruct s; reflexivity).
    destruct (Z.lt_ge_cases w 1) as [Hw|Hw].
    + replace (1 <=? w) with false by lia. cbn [andb].
      pose proof (shiftr_neg_count_ne v (w - 1) ltac:(lia)) as Hne.
      replace (negb (Z.shiftr v (w - 1) =? -1)) with true by lia. reflexivity.
    + replace (1 <=? w) with true by lia. cbn [andb].
      pose proof (shiftr_m1 v (w - 1) ltac:(lia)) as Hs.
      assert (0 < 2 ^ (w - 1)) by (apply pow2_pos; lia).
      rewrite land_mask by lia.
      destruct (Z.shiftr v (w - 1) =? -1) eqn:E; cbn [negb].
      * assert (- 2 ^ (w - 1) <= v < 0) by (apply Hs; lia).
        destruct s.
        -- replace (- 2 ^ (w - 1) <=? v) with true by lia. replace (v <? 2 ^ (w - 1)) with true by lia. reflexivity.
        -- replace (- 2 ^ (w - 1) <=? v) with true by lia. reflexivity.
      * assert (~ (- 2 ^ (w - 1) <= v < 0)) by (intro; assert (Z.shiftr v (w - 1) = -1) by (apply Hs; assumption); lia).
        destruct s.
        -- replace (- 2 ^ (w - 1) <=? v) with false by lia. reflexivity.
        -- replace (- 2 ^ (w - 1) <=? v) with false by lia. reflexivity.
Qed.

(* ---------- _convert_int with bitwidth=None: the minimal width ---------- *)
Definition is_min_width (v w : Z) (s : bool) : Prop :=
  representable v w s /\ forall w', representable v w' s -> w <= w'.

Lemma convert_int_none_nonneg v s : 0 <= v ->
  exists w, convert_int v None s = Ok (v, w) /\ v = v mod 2 ^ w /\ is_min_width v w s.
Proof.
  intros Hv. unfold convert_int, len_bin_signed.
  replace (v >=? 0) with true by lia. replace (v <? 0) with false by lia.
  replace (len_bin v + 0 + 2 - 2) with (len_bin v) by lia.
  pose proof (len_bin_le v (len_bin v) Hv) as [HL _]. destruct (HL ltac:(lia)) as [H1 H2].
  destruct s; cbn [andb].
  - destruct (negb (v =? 0)) eqn:E0.
    + exists (len_bin v + 1). split; [reflexivity|].
      assert (Hr : representable v (len_bin v + 1) true).
      { unfold representable. split; [lia|]. replace (len_bin v + 1 - 1) with (len_bin v) by lia. lia. }
      split.
      * symmetry. apply Z.mod_small. rewrite (pow2_half (len_bin v + 1)) by lia.
        replace (len_bin v + 1 - 1) with (len_bin v) by lia. lia.
      * split; [exact Hr|]. intros w' [Hw' [_ Hlt]].
        destruct (Z.eq_dec w' 1) as [->|Hne].
        -- simpl in Hlt. lia.
        -- assert (len_bin v <= w' - 1) by (apply len_bin_le; [assumption|split; lia]). lia.
    + assert (v = 0) by lia. subst v. exists 1. split; [reflexivity|]. split; [reflexivity|].
      split; [unfold representable; simpl; lia|]. intros w' [Hw' _]. lia.
  - exists (len_bin v). split; [reflexivity|]. split; [symmetry; apply Z.mod_small; lia|].
    split.
    + unfold representable. replace (0 <=? v) with true by lia. split; assumption.
    + intros w' [Hw' Hr]. replace (0 <=? v) with true in Hr by lia. apply len_bin_le; [assumption|split; assumption].
Qed.

Lemma convert_int_none_neg_signed v : v < 0 ->
  exists w, convert_int v None true = Ok (v mod 2 ^ w, w) /\ is_min_width v w true.
Proof.
  intros Hv. unfold convert_int, len_bin_signed. change (Z.opp 1) with (-1).
  replace (v >=? 0) with false by lia. cbn [negb andb].
  destruct (v =? -1) eqn:E1.
  - assert (v = -1) by lia. subst v. exists 1. split; [reflexivity|].
    split; [unfold representable; simpl; lia|]. intros w' [Hw' _]. lia.
  - assert (Hn : 0 < Z.lnot v) by (unfold Z.lnot; lia).
    replace (Z.lnot v <? 0) with false by lia.
    set (L := len_bin (Z.lnot v)).
    replace (L + 0 + 2 - 1) with (L + 1) by lia.
    pose proof (len_bin_le (Z.lnot v) L ltac:(lia)) as [HL _]. destruct (HL ltac:(lia)) as [H1 H2].
    replace (L + 1 - 1) with L by lia.
    assert (Hr : - 2 ^ L <= v < 0) by (unfold Z.lnot in H2; lia).
    assert (Hs : Z.shiftr v L = -1) by (apply shiftr_m1; lia).
    rewrite Hs. cbn [Z.eqb negb Pos.eqb]. rewrite land_mask by lia.
    exists (L + 1). split; [reflexivity|]. split.
    + unfold representable. replace (L + 1 - 1) with L by lia. split; [lia|]. assert (0 < 2 ^ L) by (apply pow2_pos; lia). lia.
    + intros w' [Hw' [Hlo _]].
      assert (len_bin (Z.lnot v) <= w' - 1).
      { destruct (Z.eq_dec w' 1) as [->|Hne]; [simpl in Hlo; lia|].
        apply len_bin_le; [lia|]. split; [lia|]. unfold Z.lnot. lia. }
      fold L in H. lia.
Qed.

Lemma convert_int_none_neg_unsigned v : v < 0 -> convert_int v None false = Err 2.
Proof. intros Hv. unfold convert_int. replace (v >=? 0) with false by lia. reflexivity. Qed.

(* ---------- _convert_bool ---------- *)
Lemma convert_bool_rules b w s :
  convert_bool b w s =
  if s then Err 1
  else match w with
       | None => Ok (b2z b, 1)
       | Some w' => if w' =? 1 then Ok (b2z b, 1) else Err 2
       end.
Proof.
  unfold convert_bool. destruct s; [reflexivity|]. destruct w as [w'|]; [|reflexivity].
  destruct (w' =? 1) eqn:E; cbn [negb]; [|reflexivity]. assert (w' = 1) by lia. subst. reflexivity.
Qed.

(* ---------- Const post-checks never fire on an accepted integer/bool ---------- *)
Lemma const_postchecks_int v w s n w' :
  convert_int v w s = Ok (n, w') -> const_postchecks n w' = None.
Proof.
  intros H. assert (Hr : 0 <= w' /\ 0 <= n < 2 ^ w').
  { destruct w as [w0|].
    - rewrite convert_int_some in H. destruct (representableb v w0 s) eqn:E; [|discriminate].
      apply representableb_spec in E. destruct E as [Hw _]. inversion H; subst.
      split; [lia|]. apply Z.mod_pos_bound. apply pow2_pos. lia.
    - destruct (Z.lt_ge_cases v 0) as [Hv|Hv].
      + destruct s.
        * destruct (convert_int_none_neg_signed v Hv) as [w1 [E [[Hw _] _]]]. rewrite E in H. inversion H; subst.
          split; [lia|]. apply Z.mod_pos_bound. apply pow2_pos. lia.
        * rewrite convert_int_none_neg_unsigned in H by assumption. discriminate.
      + destruct (convert_int_none_nonneg v s Hv) as [w1 [E [Em [[Hw _] _]]]]. rewrite E in H. inversion H; subst.
        split; [lia|]. rewrite Em. apply Z.mod_pos_bound. apply pow2_pos. lia. }
  destruct Hr as [Hw Hn]. unfold const_postchecks.
  replace (n <? 0) with false by lia.
  assert (Z.shiftr n w' = 0) by (apply shiftr_0; assumption). rewrite H0. reflexivity.
Qed.

Lemma const_postchecks_bool b w s n w' :
  convert_bool b w s = Ok (n, w') -> const_postchecks n w' = None.
Proof.
  rewrite convert_bool_rules. destruct s; [discriminate|].
  destruct w as [w0|]; [destruct (w0 =? 1)|]; try discriminate; intros H; inversion H; subst; destruct b; reflexivity.
Qed.

(* ---------- val_to_signed_integer ---------- *)
Lemma val_to_signed_integer_eq u w : 1 <= w ->
  val_to_signed_integer u w = Ok (u mod 2 ^ (w - 1) - 2 ^ (w - 1) * b2z (Z.testbit u (w - 1))).
Proof.
  intros Hw. unfold val_to_signed_integer. cbn [orb]. replace (w <? 1) with false by lia.
  rewrite Z.shiftl_1_l. rewrite land_mask_pow by lia. f_equal. f_equal.
  (* u land 2^(w-1) *)
  apply Z.bits_inj'. intros i Hi. rewrite Z.land_spec. rewrite Z.pow2_bits_eqb by lia.
  destruct (Z.testbit u (w - 1)) eqn:Eb; cbn [b2z].
  - rewrite Z.mul_1_r. rewrite Z.pow2_bits_eqb by lia.
    destruct (Z.eqb_spec (w - 1) i) as [<-|Hne]; [rewrite Eb; reflexivity|apply andb_false_r].
  - rewrite Z.mul_0_r, Z.bits_0.
    destruct (Z.eqb_spec (w - 1) i) as [<-|Hne]; [rewrite Eb; reflexivity|apply andb_false_r].
Qed.

Lemma testbit_top_mod v w : 1 <= w -> - 2 ^ (w - 1) <= v < 2 ^ (w - 1) ->
  Z.testbit (v mod 2 ^ w) (w - 1) = (v <? 0).
Proof.
  intros Hw Hr. assert (0 < 2 ^ (w - 1)) by (apply pow2_pos; lia).
  pose proof (pow2_half w Hw) as Hh.
  rewrite Z.testbit_eqb by lia.
  destruct (v <? 0) eqn:E.
  - assert (Em : v mod 2 ^ w = v + 2 ^ w).
    { symmetry. apply (Z.mod_unique v (2 ^ w) (-1)); lia. }
    rewrite Em. assert ((v + 2 ^ w) / 2 ^ (w - 1) = 1) as ->.
    { symmetry. apply (Z.div_unique _ _ 1 (v + 2 ^ (w - 1))); lia. }
    reflexivity.
  - rewrite (Z.mod_small v (2 ^ w)) by lia. rewrite Z.div_small by lia. reflexivity.
Qed.

(* val_to_signed_integer inverts the signed encoding *)
Lemma val_to_signed_inverts v w : representable v w true ->
  val_to_signed_integer (v mod 2 ^ w) w = Ok v.
Proof.
  intros [Hw Hr]. rewrite val_to_signed_integer_eq by assumption.
  rewrite testbit_top_mod by assumption.
  assert (0 < 2 ^ (w - 1)) by (apply pow2_pos; lia).
  pose proof (pow2_half w Hw) as Hh. f_equal.
  assert (Hmm : (v mod 2 ^ w) mod 2 ^ (w - 1) = v mod 2 ^ (w - 1)).
  { symmetry. apply Znumtheory.Zmod_div_mod; [lia|lia|exists 2; lia]. }
  rewrite Hmm. destruct (v <? 0) eqn:E; cbn [b2z].
  - assert (v mod 2 ^ (w - 1) = v + 2 ^ (w - 1)).
    { symmetry. apply (Z.mod_unique v _ (-1)); lia. }
    lia.
  - rewrite Z.mod_small by lia. lia.
Qed.

(* and reads an unsigned pattern as its signed value *)
Lemma val_to_signed_value u w : 1 <= w -> 0 <= u < 2 ^ w ->
  val_to_signed_integer u w = Ok (signed_value u w).
Proof.
  intros Hw Hu. unfold signed_value.
  assert (0 < 2 ^ (w - 1)) by (apply pow2_pos; lia).
  pose proof (pow2_half w Hw) as Hh.
  destruct (u <? 2 ^ (w - 1)) eqn:E.
  - replace u with (u mod 2 ^ w) at 1 by (apply Z.mod_small; lia).
    apply val_to_signed_inverts. split; [assumption|]. lia.
  - replace u with ((u - 2 ^ w) mod 2 ^ w) at 1.
    + apply val_to_signed_inverts. split; [assumption|]. lia.
    + symmetry. apply (Z.mod_unique _ _ (-1)); lia.
Qed.

(* ---------- libutils.twos_comp_repr / rev_twos_comp_repr ---------- *)
Lemma bit_length_nonneg x : 0 <= bit_length x.
Proof. unfold bit_length. destruct (x =? 0); [lia|]. pose proof (Z.log2_nonneg (Z.abs x)). lia. Qed.

Lemma twos_comp_repr_eq v w :
  twos_comp_repr v w =
  if (1 <=? w) && (Z.abs v <? 2 ^ (w - 1)) then Ok (v mod 2 ^ w) else Err 1.
Proof.
  unfold twos_comp_repr.
  pose proof (bit_length_nonneg (Z.abs v)) as Hb.
  destruct (Z.lt_ge_cases w 1) as [Hw|Hw].
  - replace (w <? bit_length (Z.abs v) + 1) with true by lia. replace (1 <=? w) with false by lia. reflexivity.
  - replace (1 <=? w) with true by lia. cbn [andb].
    pose proof (bit_length_le (Z.abs v) (w - 1) ltac:(lia) ltac:(lia)) as HL.
    assert (Hp : 0 < 2 ^ (w - 1)) by (apply pow2_pos; lia). pose proof (pow2_half w Hw) as Hh.
    destruct (w <? bit_length (Z.abs v) + 1) eqn:E.
    + replace (Z.abs v <? 2 ^ (w - 1)) with false by lia. reflexivity.
    + assert (Z.abs v < 2 ^ (w - 1)) by (apply HL; lia).
      replace (Z.abs v <? 2 ^ (w - 1)) with true by lia.
      destruct (v >=? 0) eqn:Ev.
      * rewrite Z.mod_small by lia. reflexivity.
      * f_equal. rewrite land_mask_pow by lia. unfold Z.lnot.
        assert (Hm : Z.pred (- Z.abs v) mod 2 ^ w = 2 ^ w - Z.abs v - 1).
        { symmetry. apply (Z.mod_unique _ _ (-1)); lia. }
        rewrite Hm. apply (Z.mod_unique _ _ (-1)); lia.
Qed.

Lemma rev_twos_comp_repr_eq r w : 1 <= w -> 0 <= r ->
  rev_twos_comp_repr r w =
  if (r <? 2 ^ w) && negb (r =? 2 ^ (w - 1)) then Ok (signed_value r w) else Err 1.
Proof.
  intros Hw Hr. unfold rev_twos_comp_repr, signed_value.
  pose proof (bit_length_le r w Hr ltac:(lia)) as HL.
  pose proof (bit_length_le r (w - 1) Hr ltac:(lia)) as HL1.
  assert (Hp : 0 < 2 ^ (w - 1)) by (apply pow2_pos; lia). pose proof (pow2_half w Hw) as Hh.
  destruct (w <? bit_length r) eqn:E.
  - replace (r <? 2 ^ w) with false by lia. reflexivity.
  - assert (r < 2 ^ w) by (apply HL; lia). replace (r <? 2 ^ w) with true by lia. cbn [orb andb].
    destruct (r =? 2 ^ (w - 1)) eqn:E2; cbn [negb]; [reflexivity|].
    destruct (w =? bit_length r) eqn:E3.
    + assert (~ r < 2 ^ (w - 1)) by (intro Hlt; apply HL1 in Hlt; lia).
      replace (r <? 2 ^ (w - 1)) with false by lia. f_equal.
      rewrite land_mask_pow by lia. unfold Z.lnot.
      assert (Hm : Z.pred (- r) mod 2 ^ w = 2 ^ w - r - 1).
      { symmetry. apply (Z.mod_unique _ _ (-1)); lia. }
      rewrite Hm. lia.
    + assert (r < 2 ^ (w - 1)) by (apply HL1; lia).
      replace (r <? 2 ^ (w - 1)) with true by lia. reflexivity.
Qed.

Lemma twos_then_rev v w r : twos_comp_repr v w = Ok r -> rev_twos_comp_repr r w = Ok v.
Proof.
  rewrite twos_comp_repr_eq. destruct (1 <=? w) eqn:Ew; [|discriminate]. cbn [andb].
  destruct (Z.abs v <? 2 ^ (w - 1)) eqn:Ea; [|discriminate]. intros H. inversion H; subst r. clear H.
  assert (Hw : 1 <= w) by lia.
  assert (Hp : 0 < 2 ^ (w - 1)) by (apply pow2_pos; lia). pose proof (pow2_half w Hw) as Hh.
  assert (H0 : 0 <= v mod 2 ^ w < 2 ^ w) by (apply Z.mod_pos_bound; lia).
  rewrite rev_twos_comp_repr_eq by lia. unfold signed_value.
  destruct (Z.lt_ge_cases v 0) as [Hv|Hv].
  - assert (Em : v mod 2 ^ w = v + 2 ^ w) by (symmetry; apply (Z.mod_unique _ _ (-1)); lia).
    rewrite Em. replace (v + 2 ^ w <? 2 ^ w) with true by lia.
    replace (v + 2 ^ w =? 2 ^ (w - 1)) with false by lia.
    replace (v + 2 ^ w <? 2 ^ (w - 1)) with false by lia. cbn [andb negb]. f_equal. lia.
  - rewrite Z.mod_small by lia. replace (v <? 2 ^ w) with true by lia.
    replace (v =? 2 ^ (w - 1)) with false by lia. replace (v <? 2 ^ (w - 1)) with true by lia. reflexivity.
Qed.

Lemma rev_then_twos r w v : 1 <= w -> 0 <= r ->
  rev_twos_comp_repr r w = Ok v -> twos_comp_repr v w = Ok r.
Proof.
  intros Hw Hr. rewrite rev_twos_comp_repr_eq by assumption. unfold signed_value.
  assert (Hp : 0 < 2 ^ (w - 1)) by (apply pow2_pos; lia). pose proof (pow2_half w Hw) as Hh.
  destruct (r <? 2 ^ w) eqn:E1; [|discriminate]. destruct (r =? 2 ^ (w - 1)) eqn:E2; [discriminate|]. cbn [andb negb].
  rewrite twos_comp_repr_eq. replace (1 <=? w) with true by lia. cbn [andb].
  destruct (r <? 2 ^ (w - 1)) eqn:E3; intros H; inversion H; subst v; clear H.
  - replace (Z.abs r <? 2 ^ (w - 1)) with true by lia. rewrite Z.mod_small by lia. reflexivity.
  - replace (Z.abs (r - 2 ^ w) <? 2 ^ (w - 1)) with true by lia. f_equal.
    symmetry. apply (Z.mod_unique _ _ (-1)); lia.
Qed.

(* ---------- numeric tail of _convert_verilog_str vs _convert_int ---------- *)
Definition passed_ok (passed : option Z) (w : Z) : Prop := passed = None \/ passed = Some w.

(* a bitwidth parameter that is absent or equal to the width in the string changes nothing --
   whichever way the source tests for "given" (`if passed_bitwidth and ...` or
   `if passed_bitwidth is not None and ...`) *)
Lemma verilog_tail_passed_ok s neg num w passed : passed_ok passed w ->
  verilog_tail s neg num w passed = verilog_tail s neg num w None.
Proof.
  intros [->| ->]; [reflexivity|]. unfold verilog_tail. rewrite Z.eqb_refl. cbn [negb].
  rewrite ?andb_false_r. reflexivity.
Qed.

Lemma verilog_tail_agrees neg num w passed :
  0 <= num -> 1 <= w -> passed_ok passed w ->
  ~ (neg = true /\ num = 2 ^ (w - 1)) ->
  res_opt (verilog_tail false neg num w passed)
  = res_opt (convert_int (if neg then - num else num) (Some w) false).
Proof.
  intros Hn Hw Hp Hguard. rewrite (verilog_tail_passed_ok _ _ _ _ _ Hp).
  rewrite convert_int_some. unfold verilog_tail, representableb.
  replace (1 <=? w) with true by lia. replace (w <? 1) with false by lia. cbn [andb negb].
  assert (Hpw : 0 < 2 ^ (w - 1)) by (apply pow2_pos; lia). pose proof (pow2_half w Hw) as Hh.
  pose proof (shiftr_0 num (w - 1) ltac:(lia)) as S1.
  pose proof (shiftr_0 num w ltac:(lia)) as S0.
  destruct neg; cbn [andb].
  - destruct (num =? 0) eqn:E0; cbn [negb].
    + assert (num = 0) by lia. subst num. cbn [Z.opp].
      rewrite Z.shiftr_0_l. cbn [Z.eqb negb]. replace (0 <=? 0) with true by reflexivity.
      replace (0 <? 2 ^ w) with true by lia. cbn [res_opt]. rewrite Z.mod_0_l by lia. reflexivity.
    + replace (0 <=? - num) with false by lia.
      destruct (Z.shiftr num (w - 1) =? 0) eqn:E1; cbn [negb].
      * assert (0 <= num < 2 ^ (w - 1)) by (apply S1; lia).
        rewrite Z.shiftl_1_l.
        assert (Z.shiftr (2 ^ w - num) w = 0) as -> by (apply shiftr_0; lia).
        cbn [Z.eqb negb]. replace (- 2 ^ (w - 1) <=? - num) with true by lia. cbn [res_opt].
        f_equal. f_equal. apply (Z.mod_unique _ _ (-1)); lia.
      * assert (~ (0 <= num < 2 ^ (w - 1))) by (intro Hx; apply S1 in Hx; lia).
        assert (num <> 2 ^ (w - 1)) by (intro; apply Hguard; split; [reflexivity|assumption]).
        replace (- 2 ^ (w - 1) <=? - num) with false by lia. reflexivity.
  - replace (0 <=? num) with true by lia.
    destruct (Z.shiftr num w =? 0) eqn:E1; cbn [negb].
    + assert (0 <= num < 2 ^ w) by (apply S0; lia). replace (num <? 2 ^ w) with true by lia.
      cbn [res_opt]. rewrite Z.mod_small by lia. reflexivity.
    + assert (~ (0 <= num < 2 ^ w)) by (intro Hx; apply S0 in Hx; lia).
      replace (num <? 2 ^ w) with false by lia. reflexivity.
Qed.

Lemma verilog_tail_width_mismatch neg num w p :
  p <> w -> is_ok (verilog_tail false neg num w (Some p)) = false.
Proof.
  intros Hw. unfold verilog_tail.
  replace (p =? w) with false by lia. cbn [andb negb].
  destruct (w <? 1); [reflexivity|].
  destruct (neg && negb (num =? 0)); [destruct (negb (Z.shiftr num (w - 1) =? 0))|]; reflexivity.
Qed.

(* the width written in the string must be at least 1 *)
Lemma verilog_tail_zero_width neg num w passed :
  w < 1 -> is_ok (verilog_tail false neg num w passed) = false.
Proof. intros Hw. unfold verilog_tail. replace (w <? 1) with true by lia. reflexivity. Qed.

Lemma verilog_tail_signed neg num w passed : verilog_tail true neg num w passed = Err 1.
Proof. reflexivity. Qed.

(* ---------- statements exported to Props/C16.v ---------- *)
Lemma int_accepts_iff_representable v w s :
  (exists r, convert_int v (Some w) s = Ok r) <-> representable v w s.
Proof.
  rewrite convert_int_some. rewrite <- representableb_spec.
  destruct (representableb v w s); split; intros H; try discriminate; eauto.
  destruct H as [r H]. discriminate.
Qed.

Lemma int_encoding v w s n w' :
  convert_int v (Some w) s = Ok (n, w') -> w' = w /\ n = v mod 2 ^ w.
Proof.
  rewrite convert_int_some. destruct (representableb v w s); [|discriminate].
  intros H. inversion H. split; reflexivity.
Qed.

Lemma int_minimal_bitwidth v s : 0 <= v \/ s = true ->
  exists w, convert_int v None s = Ok (v mod 2 ^ w, w) /\
            representable v w s /\ forall w', representable v w' s -> w <= w'.
Proof.
  intros H. destruct (Z.lt_ge_cases v 0) as [Hv|Hv].
  - destruct H as [H|H]; [lia|]. subst s.
    destruct (convert_int_none_neg_signed v Hv) as [w [E [Hr Hm]]]. exists w. auto.
  - destruct (convert_int_none_nonneg v s Hv) as [w [E [Em [Hr Hm]]]]. exists w. rewrite <- Em. auto.
Qed.

Lemma int_negative_needs_width_or_signed v : v < 0 -> convert_int v None false = Err 2.
Proof. exact (convert_int_none_neg_unsigned v). Qed.

Lemma twos_accepts_iff v w :
  (exists r, twos_comp_repr v w = Ok r) <-> (1 <= w /\ - 2 ^ (w - 1) < v < 2 ^ (w - 1)).
Proof.
  rewrite twos_comp_repr_eq. split.
  - intros [r H]. revert H. destruct (1 <=? w) eqn:E1; [|discriminate]. cbn [andb].
    destruct (Z.abs v <? 2 ^ (w - 1)) eqn:E2; [|discriminate]. intros _. lia.
  - intros [Hw Hr]. replace (1 <=? w) with true by lia. replace (Z.abs v <? 2 ^ (w - 1)) with true by lia. cbn [andb]. eauto.
Qed.

Lemma twos_encoding v w r : twos_comp_repr v w = Ok r -> r = v mod 2 ^ w.
Proof.
  rewrite twos_comp_repr_eq. destruct ((1 <=? w) && (Z.abs v <? 2 ^ (w - 1))); [|discriminate].
  intros H. inversion H. reflexivity.
Qed.
