(* C16 -- hand-written models of the string-handling parts of PyRTL's value conversion helpers
   (pyrtl/helperfuncs.py).  Strings are lists of character codes.  No proofs in this file.

   Modelled subset of Python's int(s, base): an optional sign followed by a non-empty run of
   ASCII digits/letters valid in the radix.  NOT modelled (the model rejects, Python accepts):
   surrounding whitespace, single underscores between digits, "0x"/"0b"/"0o" prefixes,
   non-ASCII digits.  The correspondence check generates strings inside the modelled subset. *)
From PyRTL Require Import Base.PyZ Conv.ConvBase Gen.Conv.

Definition str := list Z.

(* ---- int(s, base) ---------------------------------------------------------------- *)
Definition digit_val (c : Z) : option Z :=
  if (48 <=? c) && (c <=? 57) then Some (c - 48)
  else if (97 <=? c) && (c <=? 122) then Some (c - 87)
  else if (65 <=? c) && (c <=? 90) then Some (c - 55)
  else None.

Fixpoint digits_val (base acc : Z) (s : str) : option Z :=
  match s with
  | [] => Some acc
  | c :: t => match digit_val c with
              | Some d => if d <? base then digits_val base (acc * base + d) t else None
              | None => None
              end
  end.

Definition int_digits (base : Z) (s : str) : option Z :=
  match s with [] => None | _ => digits_val base 0 s end.

Definition py_int (base : Z) (s : str) : option Z :=
  match s with
  | [] => None
  | c :: t => if c =? 45 then option_map Z.opp (int_digits base t)
              else if c =? 43 then int_digits base t
              else int_digits base s
  end.

(* ---- str(n), bin(n)[2:], hex(n)[2:] ---------------------------------------------- *)
Definition digit_char (d : Z) : Z := if d <? 10 then 48 + d else 87 + d.

Fixpoint to_digits (fuel : nat) (base n : Z) (acc : str) : str :=
  match fuel with
  | O => acc
  | S f => if n <? base then digit_char n :: acc
           else to_digits f base (n / base) (digit_char (n mod base) :: acc)
  end.

(* digits of n >= 0 in the radix, most significant first; "0" for 0 *)
Definition nat_str (base n : Z) : str := to_digits (S (Z.to_nat (Z.log2 n))) base n [].

Definition py_str (n : Z) : str := if n <? 0 then 45 :: nat_str 10 (- n) else nat_str 10 n.
(* bin(n)[2:] : for n < 0, bin(n) = "-0b101" so the slice starts at 'b' *)
Definition py_bin2 (n : Z) : str := if n <? 0 then 98 :: nat_str 2 (- n) else nat_str 2 n.
Definition py_hex2 (n : Z) : str := if n <? 0 then 120 :: nat_str 16 (- n) else nat_str 16 n.

(* ---- _convert_verilog_str: the string part ---------------------------------------- *)
Definition lower (c : Z) : Z := if (65 <=? c) && (c <=? 90) then c + 32 else c.

(* s.split(sep) for a one-character separator *)
Fixpoint split_on (sep : Z) (s : str) (cur : str) : list str :=
  match s with
  | [] => [rev cur]
  | c :: t => if c =? sep then rev cur :: split_on sep t [] else split_on sep t (c :: cur)
  end.

Fixpoint assocZ {A} (k : Z) (l : list (Z * A)) : option A :=
  match l with
  | [] => None
  | (k', v) :: t => if k =? k' then Some v else assocZ k t
  end.

(* The '-', "'", 's', '_' characters and the default radix are the literals of the source (Gen/Conv.v).
   Ok (neg, bitwidth, num) as bound by the statements up to and including the try block;
   error codes are the ordinals of the raises of _convert_verilog_str: 2 = not two parts,
   3 = 's' (signed) marker, 4 = IndexError/ValueError inside the try. *)
Definition verilog_parse (val : str) : res (bool * Z * Z) :=
  let '(neg, val1) := match val with
                      | c :: t => if c =? verilog_neg_char then (true, t) else (false, val)
                      | [] => (false, val)
                      end in
  match split_on verilog_sep_char (map lower val1) [] with
  | [ws; sval] =>
      match py_int 10 ws with
      | None => Err 4
      | Some bw =>
          match sval with
          | [] => Err 4
          | c :: rest =>
              if c =? verilog_signed_marker then Err 3
              else
                let '(base, sval1) := match assocZ c verilog_bases with
                                      | Some b => (b, rest)
                                      | None => (verilog_default_base, sval)
                                      end in
                match py_int base (filter (fun x => negb (x =? verilog_ignored_char)) sval1) with
                | None => Err 4
                | Some num => Ok (neg, bw, num)
                end
          end
      end
  | _ => Err 2
  end.

(* the texts  [-]<decimal width>'[<radix letter>]<body>  (used to state the print/parse theorems) *)
Definition verilog_print (neg : bool) (w : Z) (letter : option Z) (body : str) : str :=
  (if neg then [verilog_neg_char] else []) ++ nat_str 10 w
  ++ verilog_sep_char :: (match letter with Some c => [c] | None => [] end) ++ body.

Definition verilog_str (s : str) (bitwidth : option Z) (signed : bool) : res (Z * Z) :=
  if signed then Err 1
  else match verilog_parse s with
       | Err k => Err k
       | Ok (neg, bw, num) => verilog_tail signed neg num bw bitwidth
       end.

(* ---- infer_val_and_bitwidth and Const --------------------------------------------- *)
Inductive rawinput : Type :=
| RBool (b : bool)
| RInt (z : Z)
| RStr (s : str)
| ROther.

Definition infer (r : rawinput) (bitwidth : option Z) (signed : bool) : res (Z * Z) :=
  match r with
  | RBool b => convert_bool b bitwidth signed
  | RInt z => convert_int z bitwidth signed
  | RStr s => verilog_str s bitwidth signed
  | ROther => Err 1
  end.

(* Const(val, bitwidth, signed): WireVector._validate_bitwidth (Gen/Conv.v) on the argument, infer,
   the post-checks (Gen/Conv.v), then WireVector.__init__ validates the resulting bitwidth again.
   Error codes: 100+k / 300+k = k-th raise of _validate_bitwidth (first / second call),
   200+k = k-th raise of Const.__init__, others = infer's. *)
Definition const_model (r : rawinput) (bitwidth : option Z) (signed : bool) : res (Z * Z) :=
  match validate_bitwidth bitwidth with
  | Err k => Err (100 + k)
  | Ok _ =>
      match infer r bitwidth signed with
      | Err k => Err k
      | Ok (num, bw) =>
          match const_postchecks num bw with
          | Some k => Err (200 + k)
          | None => match validate_bitwidth (Some bw) with
                    | Err k => Err (300 + k)
                    | Ok _ => Ok (num, bw)
                    end
          end
      end
  end.

(* ---- formatted_str_to_val / val_to_formatted_str ---------------------------------- *)
(* format = type character followed by decimal bitwidth, optionally "/EnumName".
   enum_set is modelled as a list of (enum class name, member table (name, value) in definition
   order). *)
Fixpoint take_until (sep : Z) (s : str) : str :=
  match s with [] => [] | c :: t => if c =? sep then [] else c :: take_until sep t end.

Definition format_parse (f : str) : option (Z * Z) :=
  match f with
  | [] => None
  | ty :: rest => match py_int 10 (take_until 47 rest) with
                  | Some bw => if bw <? 0 then None (* 1 << bitwidth raises ValueError *) else Some (ty, bw)
                  | None => None
                  end
  end.

Definition str_eqb (a b : str) : bool :=
  (Nat.eqb (length a) (length b)) && forallb (fun p => fst p =? snd p) (combine a b).

Fixpoint enum_by_name (data : str) (e : list (str * Z)) : option Z :=
  match e with [] => None | (n, v) :: t => if str_eqb data n then Some v else enum_by_name data t end.
Fixpoint enum_by_value (v : Z) (e : list (str * Z)) : option str :=
  match e with [] => None | (n, v') :: t => if v =? v' then Some n else enum_by_value v t end.

(* ---- Python built-ins that can raise, as used by the GENERATED formatted-string functions
   (Gen/ConvFmt.v).  Codes: 1001 IndexError, 1002 ValueError, 1003 AttributeError. *)
Definition str_index (s : str) (k : nat) : res Z :=
  match nth_error s k with Some c => Ok c | None => Err 1001 end.
Definition nth_r (l : list str) (k : nat) : res str :=
  match nth_error l k with Some x => Ok x | None => Err 1001 end.
Definition py_int_r (base : Z) (s : str) : res Z :=
  match py_int base s with Some z => Ok z | None => Err 1002 end.
Definition shift_count_r (n : Z) : res Z := if n <? 0 then Err 1002 else Ok n.

(* an enum class: (__name__, members (name, value) in definition order); enum_set: a list of them *)
Definition enum_class : Type := (str * list (str * Z))%type.
(* [e for e in enum_set if e.__name__ == enumname] *)
Definition enums_named (name : str) (es : list enum_class) : list enum_class :=
  filter (fun e => str_eqb (fst e) name) es.
Definition enumlist_index (l : list enum_class) (k : nat) : res enum_class :=
  match nth_error l k with Some x => Ok x | None => Err 1001 end.
(* getattr(E, data).value *)
Definition enum_getattr_value (e : enum_class) (data : str) : res Z :=
  match enum_by_name data (snd e) with Some v => Ok v | None => Err 1003 end.
(* E(val).name *)
Definition enum_call_name (e : enum_class) (v : Z) : res str :=
  match enum_by_value v (snd e) with Some n => Ok n | None => Err 1002 end.

(* format.split('/')[1] : the text between the first and the second '/' (None = IndexError) *)
Fixpoint enum_name (f : str) : option str :=
  match f with [] => None | c :: t => if c =? 47 then Some (take_until 47 t) else enum_name t end.

(* [e for e in enum_set if e.__name__ == enumname][0] *)
Fixpoint find_enum (name : str) (es : list (str * list (str * Z))) : option (list (str * Z)) :=
  match es with [] => None | (n, e) :: t => if str_eqb name n then Some e else find_enum name t end.

Definition enum_of (f : str) (es : list (str * list (str * Z))) : res (list (str * Z)) :=
  match enum_name f with
  | None => Err 93
  | Some n => match find_enum n es with Some e => Ok e | None => Err 1 end
  end.

Definition formatted_str_to_val (data f : str) (es : list (str * list (str * Z))) : res Z :=
  match format_parse f with
  | None => Err 90
  | Some (ty, bw) =>
      let bitmask := Z.shiftl 1 bw - 1 in
      if ty =? 115 then match py_int 10 data with Some n => Ok (Z.land n bitmask) | None => Err 91 end
      else if ty =? 120 then match py_int 16 data with Some n => Ok n | None => Err 91 end
      else if ty =? 98 then match py_int 2 data with Some n => Ok n | None => Err 91 end
      else if ty =? 117 then match py_int 10 data with
                             | Some n => if n <? 0 then Err 1 else Ok n
                             | None => Err 91
                             end
      else if ty =? 101 then match enum_of f es with
                             | Err k => Err k
                             | Ok e => match enum_by_name data e with Some v => Ok v | None => Err 92 end
                             end
      else Err 3
  end.

Definition val_to_formatted_str (val : Z) (f : str) (es : list (str * list (str * Z))) : res str :=
  match format_parse f with
  | None => Err 90
  | Some (ty, bw) =>
      if ty =? 115 then match val_to_signed_integer val bw with Ok n => Ok (py_str n) | Err k => Err (10 + k) end
      else if ty =? 120 then Ok (py_hex2 val)
      else if ty =? 98 then Ok (py_bin2 val)
      else if ty =? 117 then Ok (py_str val)
      else if ty =? 101 then match enum_of f es with
                             | Err k => Err k
                             | Ok e => match enum_by_value val e with Some n => Ok n | None => Err 92 end
                             end
      else Err 2
  end.

(* ---- bitpattern_to_val (ordered fields) and a value-level match_bitpattern --------- *)
Definition is01 (c : Z) : bool := (c =? 48) || (c =? 49).
Definition memZ (c : Z) (l : list Z) : bool := existsb (Z.eqb c) l.

(* letters_in_field_order: every character other than '0'/'1' ('?' included), first occurrence *)
Fixpoint field_order (p : str) (seen : list Z) : list Z :=
  match p with
  | [] => rev seen
  | c :: t => if is01 c || memZ c seen then field_order t seen else field_order t (c :: seen)
  end.

Fixpoint updZ (k v : Z) (l : list (Z * Z)) : list (Z * Z) :=
  match l with
  | [] => []
  | (k', v') :: t => if k =? k' then (k', v) :: t else (k', v') :: updZ k v t
  end.

(* the loop over bitpattern[::-1]; i = bit position, acc = value so far *)
Fixpoint b2v_loop (prev : str) (fm : list (Z * Z)) (i acc : Z) : res (Z * list (Z * Z)) :=
  match prev with
  | [] => Ok (acc, fm)
  | c :: t =>
      if c =? 48 then b2v_loop t fm (i + 1) acc
      else if c =? 49 then b2v_loop t fm (i + 1) (acc + 2 ^ i)
      else if c =? 63 then Err 6
      else match assocZ c fm with
           | None => Err 99
           | Some fv => b2v_loop t (updZ c (Z.shiftr fv 1) fm) (i + 1) (acc + Z.land fv 1 * 2 ^ i)
           end
  end.

Definition bitpattern_to_val (p : str) (fields : list Z) : res Z :=
  match p with
  | [] => Err 1
  | _ =>
      let lifo := field_order p [] in
      if negb (Nat.eqb (length lifo) (length fields)) then Err 3
      else match b2v_loop (rev p) (combine lifo fields) 0 0 with
           | Err k => Err k
           | Ok (v, fm) =>
               if forallb (fun kv => (snd kv =? 0) || (snd kv =? -1)) fm then Ok v else Err 7
           end
  end.

(* match_bitpattern(w, p) at the level of values: w carries v and len(w) = length of p without
   '_' and whitespace.  Returns (matched, fields in left-to-right order of first occurrence). *)
Definition is_space (c : Z) : bool :=
  (c =? 95) || (c =? 32) || ((9 <=? c) && (c <=? 13)).
Definition nospace (p : str) : str := filter (fun c => negb (is_space c)) p.

Fixpoint match_bits (prev : str) (v i : Z) : bool :=
  match prev with
  | [] => true
  | c :: t => (if c =? 48 then negb (Z.testbit v i)
               else if c =? 49 then Z.testbit v i else true) && match_bits t v (i + 1)
  end.

(* bits of v at the positions (LSB first) holding letter c, packed LSB first *)
Fixpoint field_val (prev : str) (c v i k : Z) : Z :=
  match prev with
  | [] => 0
  | x :: t => if x =? c then b2z (Z.testbit v i) * 2 ^ k + field_val t c v (i + 1) (k + 1)
              else field_val t c v (i + 1) k
  end.

Definition field_names (p : str) : list Z :=
  filter (fun c => negb (c =? 63)) (field_order p []).

Definition match_bitpattern (v : Z) (p : str) : bool * list Z :=
  let q := nospace p in
  (match_bits (rev q) v 0, map (fun c => field_val (rev q) c v 0 0) (field_names q)).
